// c19: correspondence harness for the replication state search (property C19).
//
// A local httptest server stands in for planet.osm.org.  It recognises request paths with
// its own strict reading of the planet layout (three zero-padded three-digit components),
// records every request, and answers 500 once a request budget is exhausted so that a
// search which does not terminate becomes an observable error.
//
// Case layouts (first value = tag, all values wire.Int unless noted):
//
//	1 SEARCH : kind base n (opt ts)*n curOK tsec tnano | errclass seq ts ntrace trace*   (query time = epoch + tsec s + tnano ns)
//	           kind: 0 minute 1 hour 2 day 3 changesets; file base+i has stamp ts_i (nanoseconds
//	           relative to the epoch below) or is missing; the newest file is base+n-1 and the
//	           "current" state file names it (curOK=0: the current state file is missing).
//	           trace: 0 = current state file, k>0 = state file k, -1 = any other path.
//	           errclass: 0 ok, 1 not found, 2 other error (request budget exhausted, ...).
//	2 PATH   : kind n | statePath (string) dataPath (string)
//	3 DECODE : kind(0 interval,1 changeset) fileseq content(bytes) | ok seq ts
package main

import (
	"bytes"
	"compress/gzip"
	"context"
	"fmt"
	"math/rand"
	"net/http"
	"net/http/httptest"
	"os"
	"regexp"
	"strconv"
	"strings"
	"sync"
	"time"

	"github.com/paulmach/osm/replication"
	"verif/harness/wire"
)

var epoch = time.Date(2012, 9, 12, 0, 0, 0, 0, time.UTC)

// The results must not depend on the time zone of the process: the calls into the library
// are made with time.Local set to each of these in turn (restored afterwards).
var zones = []*time.Location{time.UTC, time.FixedZone("east", 2*3600), time.FixedZone("west", -8*3600), time.FixedZone("half", 5*3600+1800)}
var zoneTick int

// lastPanic: the library panicked inside the last withZone call ("" = it did not)
var lastPanic string

func withZone(f func()) string {
	z := zones[zoneTick%len(zones)]
	zoneTick++
	old := time.Local
	time.Local = z
	lastPanic = ""
	defer func() { time.Local = old }()
	func() {
		defer func() {
			if r := recover(); r != nil {
				lastPanic = fmt.Sprint(r)
			}
		}()
		f()
	}()
	return z.String()
}

var dirs = []string{"minute", "hour", "day", "changesets"}

// ---------------------------------------------------------------- the stand-in server

type world struct {
	mu     sync.Mutex
	kind   int
	files  map[uint64][]byte // state file bodies by sequence number
	cur    []byte            // body of the current state file (nil = 404)
	budget int
	trace  []int64
	paths  []string
	// gzip: behave like a server/CDN that compresses text responses for clients that accept it
	gzip bool
	// cut: sequence number -> number of body bytes after which the transfer breaks off
	cut map[uint64]int
	// prefix: the path under which the replication tree lives on this mirror ("" = server root)
	prefix string
	// stream: responses are flushed before the body is written (chunked, no Content-Length)
	stream bool
}

// the datasource under test and the server's address: the base URL is re-pointed for every
// directory / lookup at one of these mirrors
var (
	theDS      *replication.Datasource
	srvURL     string
	prefixes   = []string{"", "/pub/planet", "", "/pub/misc/openstreetmap/planet.openstreetmap.org", "/mirror/", ""}
	mirrorTick int
)

func (w *world) nextMirror() {
	mirrorTick++
	w.prefix = prefixes[mirrorTick%len(prefixes)]
	w.stream = mirrorTick%3 == 1
	if theDS != nil {
		theDS.BaseURL = srvURL + w.prefix
	}
}

var pathRe = regexp.MustCompile(`^/replication/([a-z]+)/([0-9]+)/([0-9]{3})/([0-9]{3})(\.[a-z.]+)$`)

// classify reads a request path the way the planet server lays files out.
// returns (0,"cur") for the current state, (n,"state") for a state file, (n,"data") for a
// data file, or ok=false.
func classify(kind int, p string) (n uint64, what string, ok bool) {
	d := dirs[kind]
	if kind == 3 && p == "/replication/"+d+"/state.yaml" {
		return 0, "cur", true
	}
	if kind != 3 && p == "/replication/"+d+"/state.txt" {
		return 0, "cur", true
	}
	m := pathRe.FindStringSubmatch(p)
	if m == nil || m[1] != d {
		return 0, "", false
	}
	a := m[2]
	if len(a) < 3 || (len(a) > 3 && a[0] == '0') {
		return 0, "", false
	}
	x, err := strconv.ParseUint(a, 10, 64)
	if err != nil || x > 18446744073709 {
		return 0, "", false
	}
	y, _ := strconv.ParseUint(m[3], 10, 64)
	z, _ := strconv.ParseUint(m[4], 10, 64)
	n = x*1000000 + y*1000 + z
	switch {
	case m[5] == ".state.txt":
		return n, "state", true
	case kind != 3 && m[5] == ".osc.gz":
		return n, "data", true
	case kind == 3 && m[5] == ".osm.gz":
		return n, "data", true
	}
	return 0, "", false
}

func (w *world) ServeHTTP(rw http.ResponseWriter, r *http.Request) {
	w.mu.Lock()
	defer w.mu.Unlock()
	p := r.URL.EscapedPath()
	// the replication tree is served under a path prefix (a mirror); like a file server, runs
	// of slashes count as one (a base URL given with a trailing slash)
	for strings.Contains(p, "//") {
		p = strings.ReplaceAll(p, "//", "/")
	}
	pre := strings.TrimSuffix(w.prefix, "/")
	if strings.HasPrefix(p, pre+"/") {
		p = p[len(pre):]
	} else if pre != "" {
		p = "!outside-the-mirror:" + p
	}
	w.paths = append(w.paths, p)
	if r.Method != http.MethodGet || r.URL.RawQuery != "" {
		w.trace = append(w.trace, -1)
		rw.WriteHeader(404)
		return
	}
	n, what, ok := classify(w.kind, p)
	var code int64 = -1
	var body []byte
	if ok && what == "cur" {
		code, body = 0, w.cur
	} else if ok && what == "state" && n > 0 && n < 1<<61 {
		code, body = int64(n), w.files[n]
	}
	w.trace = append(w.trace, code)
	if w.budget <= 0 {
		rw.WriteHeader(500)
		return
	}
	w.budget--
	if body == nil {
		rw.WriteHeader(404)
		return
	}
	if k, ok := w.cut[uint64(code)]; ok && code > 0 && k < len(body) {
		// the transfer breaks off: fewer bytes than announced, then the connection is closed
		rw.Header().Set("Content-Length", strconv.Itoa(len(body)))
		rw.WriteHeader(200)
		rw.Write(body[:k])
		return
	}
	if w.stream {
		// a streaming server: headers and an empty flush first, the body afterwards
		rw.WriteHeader(200)
		if f, ok := rw.(http.Flusher); ok {
			f.Flush()
		}
		rw.Write(body)
		return
	}
	if w.gzip && strings.Contains(r.Header.Get("Accept-Encoding"), "gzip") {
		var zb bytes.Buffer
		zw := gzip.NewWriter(&zb)
		zw.Write(body)
		zw.Close()
		rw.Header().Set("Content-Encoding", "gzip")
		rw.Header().Set("Vary", "Accept-Encoding")
		rw.WriteHeader(200)
		rw.Write(zb.Bytes())
		return
	}
	rw.WriteHeader(200)
	rw.Write(body)
}

var gzipTick int

func (w *world) reset(kind int, budget int) {
	w.mu.Lock()
	w.kind, w.files, w.cur, w.budget, w.trace, w.paths = kind, map[uint64][]byte{}, nil, budget, nil, nil
	w.cut = map[uint64]int{}
	gzipTick++
	w.gzip = gzipTick%2 == 0 // every other directory / file is served by a compressing server
	w.nextMirror()
	w.mu.Unlock()
}

func (w *world) rearm(budget int) {
	w.mu.Lock()
	w.budget, w.trace, w.paths = budget, nil, nil
	w.nextMirror()
	w.mu.Unlock()
}

// ---------------------------------------------------------------- state file bodies

// longList: a txnActiveList as the server writes it under load (kilobytes of transaction ids)
func longList(n int, seed int) string {
	var sb strings.Builder
	for i := 0; i < n; i++ {
		if i > 0 {
			sb.WriteByte(',')
		}
		sb.WriteString(strconv.Itoa(836439008 + seed*7 + i*3))
	}
	return sb.String()
}

func intervalBody(seq uint64, ts int64, variant int) []byte {
	t := epoch.Add(time.Duration(ts)).UTC()
	stamp := t.Format("2006-01-02T15\\:04\\:05Z")
	switch variant % 7 {
	case 3:
		// a long active list BEFORE the lines that matter (2-6 KB)
		return []byte(fmt.Sprintf("#%s\ntxnActiveList=%s\ntxnMaxQueried=836439235\nsequenceNumber=%d\ntxnReadyList=%s\ntimestamp=%s\ntxnMax=836439235\n",
			t.Format("Mon Jan 02 15:04:05 UTC 2006"), longList(200+variant%400, variant), seq, longList(20, variant), stamp))
	case 4:
		// the standard order with a long active list at the end
		return []byte(fmt.Sprintf("#%s\ntxnMaxQueried=836439235\nsequenceNumber=%d\ntimestamp=%s\ntxnReadyList=\ntxnMax=836439235\ntxnActiveList=%s\n",
			t.Format("Mon Jan 02 15:04:05 UTC 2006"), seq, stamp, longList(300, variant)))
	case 6:
		if seq%5 == 0 {
			// ~8000 open transactions: one line of more than 64 KiB before the time stamp
			return []byte(fmt.Sprintf("#%s\nsequenceNumber=%d\ntxnActiveList=%s\ntimestamp=%s\ntxnMax=836439235\n",
				t.Format("Mon Jan 02 15:04:05 UTC 2006"), seq, longList(7000, variant), stamp))
		}
	case 5:
		return []byte(fmt.Sprintf("#%s\ntxnReadyList=%s\nsequenceNumber=%d\ntxnActiveList=%s\ntimestamp=%s\n",
			t.Format("Mon Jan 02 15:04:05 UTC 2006"), longList(120, variant), seq, longList(150, variant+1), stamp))
	}
	switch variant % 3 {
	case 0:
		return []byte(fmt.Sprintf("#%s\ntxnMaxQueried=836439235\nsequenceNumber=%d\ntimestamp=%s\ntxnReadyList=\ntxnMax=836439235\ntxnActiveList=836439008\n",
			t.Format("Mon Jan 02 15:04:05 UTC 2006"), seq, stamp))
	case 1:
		return []byte(fmt.Sprintf("#%s\nsequenceNumber=%d\ntimestamp=%s\n", t.Format("Mon Jan 02 15:04:05 UTC 2006"), seq, stamp))
	}
	return []byte(fmt.Sprintf("timestamp=%s\ntxnMax=12\nsequenceNumber=%d", stamp, seq))
}

func changesetBody(seqInFile uint64, ts int64, variant int) []byte {
	t := epoch.Add(time.Duration(ts)).UTC()
	var stamp string
	if variant%2 == 0 {
		stamp = t.Format("2006-01-02 15:04:05.000000000") + " +00:00"
	} else {
		stamp = t.Format("2006-01-02 15:04:05.999999999") + " Z"
	}
	return []byte(fmt.Sprintf("---\nlast_run: %s\nsequence: %d\n", stamp, seqInFile))
}

// ---------------------------------------------------------------- search cases

type dirSpec struct {
	kind  int
	base  uint64
	ts    []*int64 // nil = missing
	curOK bool
	class string
	// set by install: size of the largest state file served
	maxBody int
}

func (d *dirSpec) cur() uint64 { return d.base + uint64(len(d.ts)) - 1 }

func (d *dirSpec) install(w *world, budget int) {
	w.reset(d.kind, budget)
	for i, p := range d.ts {
		if p == nil {
			continue
		}
		n := d.base + uint64(i)
		if d.kind == 3 {
			w.files[n] = changesetBody(n-1, *p, i) // the number inside is one less than the file name
		} else {
			w.files[n] = intervalBody(n, *p, i)
		}
		if len(w.files[n]) > d.maxBody {
			d.maxBody = len(w.files[n])
		}
	}
	if d.curOK {
		last := d.ts[len(d.ts)-1]
		if d.kind == 3 {
			w.cur = changesetBody(d.cur()-1, *last, 0)
		} else {
			w.cur = intervalBody(d.cur(), *last, 0)
		}
	}
}

// genBase is the first sequence number the four entry points consider (stater.Min).  It is used
// to place the generated directories and by the Go-side oracle; the Coq model takes Min from
// the translator (GenReplication.v), so a change of Min in the code shows up as a disagreement.
var genBase = []uint64{1, 1, 1, 2007990}

// pkgTick: every fourth lookup goes through the package-level convenience functions
// (MinuteStateAt, ...), which delegate to replication.DefaultDatasource -- pointed at the
// stand-in server for the duration of the call.
var pkgTick int

func stateAt(ds *replication.Datasource, kind int, t time.Time) (uint64, *replication.State, error) {
	ctx, cancel := context.WithTimeout(context.Background(), 60*time.Second)
	defer cancel()
	pkgTick++
	if pkgTick%4 == 0 {
		old := *replication.DefaultDatasource
		replication.DefaultDatasource.BaseURL, replication.DefaultDatasource.Client = ds.BaseURL, ds.Client
		defer func() { *replication.DefaultDatasource = old }()
		switch kind {
		case 0:
			n, s, err := replication.MinuteStateAt(ctx, t)
			return uint64(n), s, err
		case 1:
			n, s, err := replication.HourStateAt(ctx, t)
			return uint64(n), s, err
		case 2:
			n, s, err := replication.DayStateAt(ctx, t)
			return uint64(n), s, err
		}
		n, s, err := replication.ChangesetStateAt(ctx, t)
		return uint64(n), s, err
	}
	switch kind {
	case 0:
		n, s, err := ds.MinuteStateAt(ctx, t)
		return uint64(n), s, err
	case 1:
		n, s, err := ds.HourStateAt(ctx, t)
		return uint64(n), s, err
	case 2:
		n, s, err := ds.DayStateAt(ctx, t)
		return uint64(n), s, err
	}
	n, s, err := ds.ChangesetStateAt(ctx, t)
	return uint64(n), s, err
}

// specSearch is the property text, evaluated on the directory alone:
// the first available state at or after t, else the newest.
func specSearch(d *dirSpec, min uint64, qt time.Time) (uint64, int64) {
	last := *d.ts[len(d.ts)-1]
	if qt.After(epoch.Add(time.Duration(last))) {
		return d.cur(), last
	}
	for i, p := range d.ts {
		n := d.base + uint64(i)
		if n < min || p == nil {
			continue
		}
		if !qt.After(epoch.Add(time.Duration(*p))) {
			return n, *p
		}
	}
	return d.cur(), last
}

// missingCount / requestBound: the request bound of the property as proved (C19_request_bound_explicit):
// 2 + 2*log2_up(cur-min+1) + number of missing files in min..cur-1
func missingCount(d *dirSpec, min uint64) int {
	m := 0
	for n := min; n < d.cur(); n++ {
		if n < d.base || d.ts[n-d.base] == nil {
			m++
		}
	}
	return m
}

func requestBound(d *dirSpec, min uint64) int {
	if d.cur() < min {
		return 1 << 30
	}
	r, l := d.cur()-min+1, 0
	for (uint64(1) << uint(l)) < r {
		l++
	}
	return 2 + 2*l + missingCount(d, min)
}

func searchCase(w *world, ds *replication.Datasource, d *dirSpec, t int64, min uint64) *wire.Case {
	return searchCaseAt(w, ds, d, epoch.Add(time.Duration(t)), min)
}

// farTimes: query times far outside any data (and outside what fits in an int64 of nanoseconds
// since 1970: 1677-09-21 .. 2262-04-11), the zero time included
var farTimes = []time.Time{
	{},
	time.Date(1000, 1, 1, 0, 0, 0, 0, time.UTC),
	time.Date(1600, 6, 15, 12, 0, 0, 0, time.UTC),
	time.Date(1677, 9, 21, 0, 12, 43, 145224191, time.UTC),
	time.Date(1677, 9, 21, 0, 12, 43, 145224193, time.UTC),
	time.Date(1969, 12, 31, 23, 59, 59, 999999999, time.UTC),
	time.Date(1970, 1, 1, 0, 0, 0, 0, time.UTC),
	time.Date(2262, 4, 11, 23, 47, 16, 854775807, time.UTC),
	time.Date(2262, 4, 11, 23, 47, 16, 854775808, time.UTC),
	time.Date(2263, 1, 1, 0, 0, 0, 0, time.UTC),
	time.Date(9999, 12, 31, 23, 59, 59, 999999999, time.UTC),
}

// searchCaseAt: the query time is a time.Time (it need not fit the int64 nanoseconds used for the
// stamps); it is sent as (seconds, nanoseconds) relative to the epoch.
func searchCaseAt(w *world, ds *replication.Datasource, d *dirSpec, qt time.Time, min uint64) *wire.Case {
	budget := 4*len(d.ts) + 200
	w.rearm(budget)
	var n uint64
	var st *replication.State
	var err error
	tsec, tnano := qt.Unix()-epoch.Unix(), int64(qt.Nanosecond())
	t := qt.UTC().Format(time.RFC3339Nano)
	zone := withZone(func() { n, st, err = stateAt(ds, d.kind, qt) })
	if lastPanic != "" {
		err = fmt.Errorf("panic: %s", lastPanic)
	}
	w.mu.Lock()
	trace := append([]int64(nil), w.trace...)
	paths := append([]string(nil), w.paths...)
	w.mu.Unlock()
	c := &wire.Case{Class: "search/" + d.class}
	c.Int(1).Int(int64(d.kind)).Int(int64(d.base)).Len(len(d.ts))
	var stamps []interface{}
	for _, p := range d.ts {
		if p == nil {
			c.Int(0)
			stamps = append(stamps, nil)
		} else {
			c.Int(1).Int(*p)
			stamps = append(stamps, *p)
		}
	}
	c.Bool(d.curOK).Int(tsec).Int(tnano)
	errclass, seq, ts := int64(0), int64(0), int64(0)
	es := ""
	if err != nil {
		es = err.Error()
		errclass = 2
		if replication.NotFound(err) {
			errclass = 1
		}
	} else {
		seq = int64(st.SeqNum)
		ts = int64(st.Timestamp.Sub(epoch))
		if n != st.SeqNum {
			seq = -int64(n) - 1000000 // typed result and state disagree: never equal to a model value
		}
	}
	c.Int(errclass).Int(seq).Int(ts).Ints(trace)
	desc := map[string]interface{}{"kind": dirs[d.kind], "first_seq": d.base, "stamps_ns_since_2012-09-12": stamps,
		"current_state_file": d.curOK, "largest_state_file_bytes": d.maxBody, "server_gzips": w.gzip, "mirror_path_prefix": w.prefix, "server_streams": w.stream, "t": t, "process_time_zone": zone, "err": es, "seq": seq, "ts": ts, "requests": trace}
	if len(paths) > 0 {
		desc["first_request"] = paths[0]
		desc["last_request"] = paths[len(paths)-1]
	}
	c.Desc = desc
	// Go-side oracle (kept so that a failing input is found even when the Coq side is broken)
	if d.curOK {
		wn, wts := specSearch(d, min, qt)
		switch {
		case errclass != 0:
			c.OracleFail = fmt.Sprintf("search failed after %d requests (budget %d): %s", len(trace), budget, es)
		case len(trace) > requestBound(d, min):
			c.OracleFail = fmt.Sprintf("%d requests for a directory of %d files with %d missing: more than 2 + 2*log2_up(range) + missing = %d", len(trace), len(d.ts), missingCount(d, min), requestBound(d, min))
		case uint64(seq) != wn || ts != wts:
			c.OracleFail = fmt.Sprintf("returned state %d (stamp %d), the first state at or after t=%s is %d (stamp %d)", seq, ts, t, wn, wts)
		}
	}
	return c
}

func ip(v int64) *int64 { return &v }

// genDir draws a directory: n files, increasing stamps, a gap pattern.
func genDir(rng *rand.Rand, kind int, big bool) *dirSpec {
	n := 1 + rng.Intn(12)
	switch r := rng.Intn(10); {
	case r < 3:
		n = 1 + rng.Intn(4)
	case r < 8:
		n = 3 + rng.Intn(40)
	default:
		n = 20 + rng.Intn(100)
	}
	if big {
		n = 100 + rng.Intn(300)
	}
	d := &dirSpec{kind: kind, base: genBase[kind], curOK: true}
	step := int64(time.Second)
	if kind == 3 {
		step = 1 // nanosecond resolution in the changeset state files
	}
	cur := int64(rng.Intn(1000)) * step
	stamps := make([]int64, n)
	eq := rng.Intn(8) == 0
	// one long pause in the replication (years) somewhere: the stamps are very uneven
	pauseAt := -1
	if big || rng.Intn(6) == 0 {
		pauseAt = []int{1, n - 1, n / 2, rng.Intn(n)}[rng.Intn(4)]
	}
	for i := range stamps {
		inc := int64(1+rng.Intn(90)) * step
		if kind == 3 {
			inc = int64(1 + rng.Intn(2000000000))
		}
		if eq && rng.Intn(3) == 0 && i > 0 {
			inc = 0
		}
		if i == pauseAt {
			inc = int64(1+rng.Intn(3)) * 365 * 24 * 3600 * int64(time.Second)
		}
		cur += inc
		stamps[i] = cur
	}
	present := make([]bool, n)
	for i := range present {
		present[i] = true
	}
	miss := func(a, b int) { // [a,b)
		for i := a; i < b && i < n-1; i++ {
			if i >= 0 {
				present[i] = false
			}
		}
	}
	pat := rng.Intn(10)
	if big && rng.Intn(2) == 0 {
		pat = 0 // every file present: the request count must be purely logarithmic
	}
	switch pat {
	case 0:
		d.class = "nogap"
	case 1:
		d.class = "prefix"
		miss(0, 1+rng.Intn(n))
	case 2:
		d.class = "isolated"
		for k := 0; k < 1+n/6; k++ {
			a := rng.Intn(n)
			miss(a, a+1)
		}
	case 3:
		d.class = "run-at-lower"
		miss(1, 1+rng.Intn(n))
	case 4:
		d.class = "run-at-upper"
		miss(n-1-rng.Intn(n), n-1)
	case 5:
		d.class = "run-at-split"
		m := n / 2
		miss(m-rng.Intn(1+n/3), m+1+rng.Intn(1+n/3))
	case 6:
		d.class = "interior-all-missing"
		miss(1, n-1)
	case 7:
		d.class = "sparse"
		miss(0, n)
		for k := 0; k < 1+rng.Intn(3); k++ {
			present[rng.Intn(n)] = true
		}
	case 8:
		d.class = "random"
		p := rng.Intn(100)
		for i := 0; i < n-1; i++ {
			if rng.Intn(100) < p {
				present[i] = false
			}
		}
	default:
		d.class = "prefix+runs"
		miss(0, 1+rng.Intn(1+n/2))
		for k := 0; k < 2; k++ {
			a := rng.Intn(n)
			miss(a, a+1+rng.Intn(1+n/4))
		}
	}
	if eq {
		d.class += "+equal"
	}
	if pauseAt >= 0 {
		d.class += "+pause"
	}
	if rng.Intn(12) == 0 && kind != 3 {
		// the directory starts above the first considered sequence number
		d.base += uint64(1 + rng.Intn(5))
		d.class += "+shifted"
	}
	if rng.Intn(25) == 0 && d.base > 3 && n > 4 {
		d.base -= uint64(1 + rng.Intn(3)) // files below the first considered sequence number
		d.class += "+belowmin"
	}
	d.ts = make([]*int64, n)
	for i := range stamps {
		if present[i] {
			d.ts[i] = ip(stamps[i])
		}
	}
	return d
}

func queryTimes(rng *rand.Rand, d *dirSpec, k int) []int64 {
	var av []int64
	for _, p := range d.ts {
		if p != nil {
			av = append(av, *p)
		}
	}
	first, last := av[0], av[len(av)-1]
	cand := []int64{first - 1 - int64(rng.Intn(5000000000)), first, last, last + 1, last + 1 + int64(rng.Intn(5000000000))}
	for i := 0; i < k; i++ {
		x := av[rng.Intn(len(av))]
		switch rng.Intn(5) {
		case 0:
			cand = append(cand, x)
		case 1:
			cand = append(cand, x+1)
		case 2:
			cand = append(cand, x-1)
		case 3:
			cand = append(cand, x+int64(time.Second))
		default:
			cand = append(cand, first+rng.Int63n(last-first+1))
		}
	}
	rng.Shuffle(len(cand), func(i, j int) { cand[i], cand[j] = cand[j], cand[i] })
	if len(cand) > k {
		cand = cand[:k]
	}
	return cand
}

// fixed corpus: minimised failures of the code as it was before the repair (see notes/C19.md)
func corpus() []struct {
	d *dirSpec
	t int64
} {
	s := int64(time.Second)
	mk := func(kind int, class string, ts ...int64) *dirSpec {
		d := &dirSpec{kind: kind, base: genBase[kind], curOK: true, class: "corpus/" + class}
		for _, x := range ts {
			if x < 0 {
				d.ts = append(d.ts, nil)
			} else {
				d.ts = append(d.ts, ip(x*s))
			}
		}
		return d
	}
	type q = struct {
		d *dirSpec
		t int64
	}
	return []q{
		// files next to the split missing: the probe loop never ended
		{mk(0, "missing-next-to-split", 10, -1, -1, -1, -1, -1, -1, -1, -1, 100), 50 * s},
		// t at or before the first state returned the second one
		{mk(0, "before-first", 10, 20, 30, 40, 50), 5 * s},
		{mk(1, "equal-first", 10, 20, 30, 40, 50), 10 * s},
		// two sequence numbers only
		{mk(2, "two-states", 10, 20), 15 * s},
		// everything between the bounds missing returned lower
		{mk(0, "interior-missing", 10, -1, -1, 40), 25 * s},
		// findBound: first file missing, present file skipped by the probe path
		{mk(1, "bound-skips-present", -1, -1, 30, -1, -1, -1, -1, -1, 90), 20 * s},
		// findBound: t equal to the stamp of the lower bound found
		{mk(2, "bound-equal", -1, 20, 30, 40, 50, 60, 70, 80, 90), 50 * s},
		// findBound: new upper next to the old one
		{mk(3, "bound-adjacent", -1, -1, -1, -1, -1, -1, 70, 80, 90), 10 * s},
		{mk(3, "changeset-plain", 10, 20, 30, 40, 50, 60), 35 * s},
	}
}

// ---------------------------------------------------------------- path cases

func pathCase(w *world, ds *replication.Datasource, kind int, n uint64) *wire.Case {
	w.reset(kind, 1000)
	ctx, cancel := context.WithTimeout(context.Background(), 10*time.Second)
	defer cancel()
	switch kind {
	case 0:
		ds.MinuteState(ctx, replication.MinuteSeqNum(n))
		ds.Minute(ctx, replication.MinuteSeqNum(n))
	case 1:
		ds.HourState(ctx, replication.HourSeqNum(n))
		ds.Hour(ctx, replication.HourSeqNum(n))
	case 2:
		ds.DayState(ctx, replication.DaySeqNum(n))
		ds.Day(ctx, replication.DaySeqNum(n))
	default:
		ds.ChangesetState(ctx, replication.ChangesetSeqNum(n))
		ds.Changesets(ctx, replication.ChangesetSeqNum(n))
	}
	w.mu.Lock()
	paths := append([]string(nil), w.paths...)
	w.mu.Unlock()
	for len(paths) < 2 {
		paths = append(paths, "")
	}
	c := &wire.Case{Class: "path"}
	c.Int(2).Int(int64(kind)).Int(int64(n)).Str(paths[0]).Str(paths[1])
	c.Desc = map[string]interface{}{"kind": dirs[kind], "n": n, "state_request": paths[0], "data_request": paths[1]}
	// Go-side oracle: the server's own reading of the layout gives back n
	if n > 0 {
		if m, what, ok := classify(kind, paths[0]); !ok || what != "state" || m != n {
			c.OracleFail = fmt.Sprintf("state file %d requested as %q", n, paths[0])
		} else if m, what, ok := classify(kind, paths[1]); !ok || what != "data" || m != n {
			c.OracleFail = fmt.Sprintf("data file %d requested as %q", n, paths[1])
		}
	}
	return c
}

// ---------------------------------------------------------------- decode cases (through the server)

func decodeCase(w *world, ds *replication.Datasource, rng *rand.Rand, kind int) *wire.Case {
	// a state file as the planet server writes it, fetched by file name or as the current state
	n := uint64(2 + rng.Intn(3000000))
	ts := int64(rng.Intn(400000000)) * int64(time.Second)
	if kind == 3 {
		ts += int64(rng.Intn(1000000000))
		if rng.Intn(4) == 0 {
			ts -= ts % 1000000 // trailing zeros in the fraction
		}
	}
	variant := rng.Intn(6)
	w.reset(kind, 10)
	cur := rng.Intn(3) == 0
	// the number written inside the file: interval files carry their own number, changeset
	// files one less; sometimes something else (only the model is compared then)
	fileseq := n
	if kind == 3 {
		fileseq = n - 1
	}
	if rng.Intn(8) == 0 {
		fileseq = uint64(1 + rng.Intn(3000000))
	}
	var body []byte
	if kind == 3 {
		body = changesetBody(fileseq, ts, variant)
	} else {
		body = intervalBody(fileseq, ts, variant)
	}
	ctx, cancel := context.WithTimeout(context.Background(), 10*time.Second)
	defer cancel()
	var st *replication.State
	var err error
	zone := withZone(func() {
		if cur {
			w.cur = body
			switch kind {
			case 0:
				_, st, err = ds.CurrentMinuteState(ctx)
			case 1:
				_, st, err = ds.CurrentHourState(ctx)
			case 2:
				_, st, err = ds.CurrentDayState(ctx)
			default:
				_, st, err = ds.CurrentChangesetState(ctx)
			}
		} else {
			w.files[n] = body
			switch kind {
			case 0:
				st, err = ds.MinuteState(ctx, replication.MinuteSeqNum(n))
			case 1:
				st, err = ds.HourState(ctx, replication.HourSeqNum(n))
			case 2:
				st, err = ds.DayState(ctx, replication.DaySeqNum(n))
			default:
				st, err = ds.ChangesetState(ctx, replication.ChangesetSeqNum(n))
			}
		}
	})
	if lastPanic != "" {
		err = fmt.Errorf("panic: %s", lastPanic)
	}
	c := &wire.Case{Class: "decode"}
	c.Int(3).Int(int64(kind)).Bool(cur).Int(int64(n)).Int(int64(fileseq)).Int(ts)
	seq, ots := int64(-1), int64(-1)
	es := ""
	if err == nil {
		seq, ots = int64(st.SeqNum), int64(st.Timestamp.Sub(epoch))
	} else {
		es = err.Error()
	}
	c.Bool(err == nil).Int(seq).Int(ots)
	c.Desc = map[string]interface{}{"kind": dirs[kind], "current": cur, "file": n, "body": string(body), "stamp": ts, "process_time_zone": zone, "err": es, "seq": seq, "ts": ots}
	consistent := (kind == 3 && fileseq == n-1) || (kind != 3 && fileseq == n)
	if consistent && (err != nil || uint64(seq) != n || ots != ts) {
		c.OracleFail = fmt.Sprintf("state file %d with stamp %d read as seq %d stamp %d err %q", n, ts, seq, ots, es)
	}
	return c
}

// ---------------------------------------------------------------- byte-level decode cases
//
//	4 DECODEB : kind cur n body(bytes) wf iseq iy imo id ih imi is ins
//	          | outcome(0 state, 1 error, 2 panic) seq y mo d h mi s ns txnMax txnMaxQueried
//	  wf = 1: the body is a state file whose intended content (iseq, time fields) the harness
//	  knows and which must be read as such; wf = 0: damaged file, only the model is compared.

type tmF struct{ y, mo, d, h, mi, s, ns int }

func daysIn(m, y int) int {
	switch m {
	case 2:
		if y%4 == 0 && (y%100 != 0 || y%400 == 0) {
			return 29
		}
		return 28
	case 4, 6, 9, 11:
		return 30
	}
	return 31
}

func genTm(rng *rand.Rand, ns bool) tmF {
	t := tmF{y: 2004 + rng.Intn(40), mo: 1 + rng.Intn(12), h: rng.Intn(24), mi: rng.Intn(60), s: rng.Intn(60)}
	if rng.Intn(6) == 0 {
		t.y = []int{0, 1, 1970, 2000, 2100, 9999, 1900, 2024}[rng.Intn(8)]
	}
	if rng.Intn(5) == 0 {
		t.mo = 2
	}
	t.d = 1 + rng.Intn(daysIn(t.mo, t.y))
	if rng.Intn(4) == 0 {
		t.d = daysIn(t.mo, t.y)
	}
	if ns {
		t.ns = rng.Intn(1000000000)
		if rng.Intn(4) == 0 {
			t.ns = []int{0, 1, 999999999, 500000000, 120000000}[rng.Intn(5)]
		}
	}
	return t
}

// renderTime writes the fields without going through package time.
func renderTime(k int, t tmF) string {
	switch k {
	case 0:
		return fmt.Sprintf("%04d-%02d-%02d %02d:%02d:%02d.%09d Z", t.y, t.mo, t.d, t.h, t.mi, t.s, t.ns)
	case 1:
		return fmt.Sprintf("%04d-%02d-%02d %02d:%02d:%02d.%09d +00:00", t.y, t.mo, t.d, t.h, t.mi, t.s, t.ns)
	}
	return fmt.Sprintf("%04d-%02d-%02d", t.y, t.mo, t.d) + fmt.Sprintf("T%02d\\:%02d\\:%02d", t.h, t.mi, t.s) + "Z"
}

type decB struct {
	kind  int
	body  string
	wf    bool
	seq   uint64 // intended sequence number inside the file
	t     tmF
	class string
}

func mutateString(rng *rand.Rand, v string, alphabet string) string {
	b := []byte(v)
	switch rng.Intn(5) {
	case 0:
		if len(b) > 0 {
			i := rng.Intn(len(b))
			b = append(b[:i], b[i+1:]...)
		}
	case 1:
		i := rng.Intn(len(b) + 1)
		b = append(b[:i], append([]byte{alphabet[rng.Intn(len(alphabet))]}, b[i:]...)...)
	case 2:
		if len(b) > 0 {
			b[rng.Intn(len(b))] = alphabet[rng.Intn(len(alphabet))]
		}
	case 3:
		if len(b) > 1 {
			b = b[:rng.Intn(len(b))]
		}
	default:
		if len(b) > 1 {
			i, j := rng.Intn(len(b)), rng.Intn(len(b))
			b[i], b[j] = b[j], b[i]
		}
	}
	return string(b)
}

func badTime(rng *rand.Rand, k int, t tmF) string {
	switch rng.Intn(12) {
	case 0:
		t.mo = 13
	case 1:
		t.mo, t.d = 2, 30
	case 2:
		t.mo, t.d, t.y = 2, 29, 2023
	case 3:
		t.h = 24
	case 4:
		t.s = 60
	case 5:
		t.d = 0
	case 6:
		t.mo, t.d = 4, 31
	case 7:
		return renderTime(k, t) + "x"
	case 8:
		// unescaped colons in the interval format / escaped ones in the changeset format
		return renderTime(2-k%2*2, t)
	case 9:
		if k == 2 {
			return fmt.Sprintf("%04d-%02d-%02dT%d\\:%02d\\:%02d.25Z", t.y, t.mo, t.d, t.h%10, t.mi, t.s) // 1-digit hour, fraction: accepted by time.Parse
		}
		return fmt.Sprintf("%04d-%02d-%02d   %d:%02d:%02d,1234567891234   Z", t.y, t.mo, t.d, t.h%10, t.mi, t.s)
	case 10:
		if k == 2 {
			return fmt.Sprintf("%04d-%02d-%02dT%02d\\:%02d\\:%02d", t.y, t.mo, t.d, t.h, t.mi, t.s) // Z missing
		}
		return fmt.Sprintf("%04d-%02d-%02d %02d:%02d:%02d +01:00", t.y, t.mo, t.d, t.h, t.mi, t.s)
	default:
		return mutateString(rng, renderTime(k, t), "0123456789:-TZ\\ .,+")
	}
	return renderTime(k, t)
}

func genDecB(rng *rand.Rand, kind int) decB {
	d := decB{kind: kind, wf: true, seq: uint64(1 + rng.Intn(4000000))}
	ws := []string{"", " ", "  ", "\t", " \t "}
	pick := func() string {
		if rng.Intn(3) == 0 {
			return ws[rng.Intn(len(ws))]
		}
		return ""
	}
	if kind != 3 {
		d.t = genTm(rng, false)
		type kv struct{ k, v string }
		lines := []kv{{"#", ""}, {"txnMaxQueried", fmt.Sprint(rng.Intn(1 << 30))}, {"sequenceNumber", fmt.Sprint(d.seq)},
			{"timestamp", renderTime(2, d.t)}, {"txnReadyList", ""}, {"txnMax", fmt.Sprint(rng.Intn(1 << 30))}, {"txnActiveList", "836439008,836439010"}}
		d.class = "decodeb/interval"
		if rng.Intn(40) == 0 {
			// kilobytes before the lines that matter
			lines = append([]kv{{"txnActiveList", longList(150+rng.Intn(200), rng.Intn(100))}}, lines[:len(lines)-1]...)
			d.class += "/large"
		}
		r := rng.Intn(10)
		switch {
		case r == 0:
			rng.Shuffle(len(lines), func(i, j int) { lines[i], lines[j] = lines[j], lines[i] })
			d.class += "/reordered"
		case r == 1:
			lines = append(lines, kv{"someNewKey", "x=y=z"}, kv{"", ""}, kv{"another", "1"})
			d.class += "/unknown-keys"
		case r == 2:
			// a repeated key: the last one counts
			lines = append([]kv{{"sequenceNumber", fmt.Sprint(d.seq + 7)}, {"timestamp", renderTime(2, genTm(rng, false))}}, lines...)
			d.class += "/repeated"
		}
		eol := "\n"
		if rng.Intn(5) == 0 {
			eol = "\r\n"
			d.class += "/crlf"
		}
		// damage
		dmg := rng.Intn(3) == 0
		if dmg {
			d.wf = false
			d.class += "/damaged"
			i := rng.Intn(len(lines))
			switch rng.Intn(9) {
			case 0:
				lines = append(lines[:i], lines[i+1:]...) // a line is missing
			case 1:
				for j := range lines {
					if lines[j].k == "sequenceNumber" {
						lines[j].v = []string{"", "abc", "-5", "+7", "12x", "99999999999999999999", "9223372036854775807", "9223372036854775808", "1_000", "0x10", " ", "1 2"}[rng.Intn(12)]
					}
				}
			case 2:
				for j := range lines {
					if lines[j].k == "timestamp" {
						lines[j].v = badTime(rng, 2, d.t)
					}
				}
			case 3:
				for j := range lines {
					if lines[j].k == "txnMax" || lines[j].k == "txnMaxQueried" {
						lines[j].v = mutateString(rng, lines[j].v, "0123456789-+ x")
					}
				}
			case 4:
				lines[i].k = " " + lines[i].k // the key is not recognised any more
			case 5:
				lines[i].k = lines[i].k + " "
			case 6:
				lines[i].v = lines[i].v + "=" + lines[i].v
			case 7:
				lines[i].k, lines[i].v = lines[i].k+lines[i].v, "\x00nosep" // no '=' on the line
			default:
				lines[i].v = mutateString(rng, lines[i].v, "0123456789=:\\ TZ-")
			}
		}
		var sb strings.Builder
		for _, l := range lines {
			switch {
			case l.k == "#":
				sb.WriteString("#Sat Jul 16 06:14:03 UTC 2016")
			case l.v == "\x00nosep":
				sb.WriteString(l.k)
			default:
				sb.WriteString(l.k + "=" + pick() + l.v + pick())
			}
			sb.WriteString(eol)
		}
		d.body = sb.String()
		if rng.Intn(6) == 0 {
			d.body = strings.TrimSuffix(d.body, eol)
		}
		if !dmg && r == 2 {
			// intended values are those of the later lines (already in d.seq / d.t)
		}
		return d
	}
	// changesets
	k := rng.Intn(2)
	d.t = genTm(rng, true)
	d.class = "decodeb/changeset"
	l0, l1, l2 := "---", "last_run: "+pick()+renderTime(k, d.t)+pick(), "sequence: "+pick()+fmt.Sprint(d.seq)+pick()
	extra := ""
	if rng.Intn(5) == 0 {
		extra = "other: 1\n"
	}
	eol := "\n"
	if rng.Intn(5) == 0 {
		eol = "\r\n"
		d.class += "/crlf"
	}
	if rng.Intn(3) == 0 {
		d.wf = false
		d.class += "/damaged"
		switch rng.Intn(9) {
		case 0:
			l1 = "last_run: " + badTime(rng, k, d.t)
		case 1:
			l2 = "sequence: " + []string{"", "abc", "-5", "+7", "12x", "18446744073709551615", "18446744073709551616", "1_000", " ", "1 2"}[rng.Intn(10)]
		case 2:
			l2 = "sequence " + fmt.Sprint(d.seq) // no ':'
		case 3:
			d.body = l0 + eol + l1 // only two lines
			return d
		case 4:
			d.body = l1 + eol + l2 + eol // the first line is missing: everything shifts
			return d
		case 5:
			l1 = "last_run " + renderTime(k, d.t)[:10]
		case 6:
			l1, l2 = l2, l1
		case 7:
			d.body = ""
			return d
		default:
			l1 = mutateString(rng, l1, "0123456789:- Z+.")
		}
	}
	d.body = l0 + eol + l1 + eol + l2 + eol + extra
	return d
}

func decodeBCase(w *world, ds *replication.Datasource, rng *rand.Rand, d decB) *wire.Case {
	n := uint64(2 + rng.Intn(3000000))
	cur := rng.Intn(3) == 0
	if d.wf && rng.Intn(2) == 0 {
		// the number inside agrees with the file name as on the planet server
		if d.kind == 3 {
			n = d.seq + 1
		} else {
			n = d.seq
		}
	}
	w.reset(d.kind, 10)
	if cur {
		w.cur = []byte(d.body)
	} else {
		w.files[n] = []byte(d.body)
	}
	if len(d.body) == 0 {
		// an empty body is a 404 for the stand-in server; serve one byte less than nothing is
		// not possible, so mark it explicitly
		if cur {
			w.cur = []byte{}
		} else {
			w.files[n] = []byte{}
		}
	}
	outcome := int64(0)
	var st *replication.State
	var err error
	zone := withZone(func() {
		defer func() {
			if r := recover(); r != nil {
				outcome = 2
				err = fmt.Errorf("panic: %v", r)
			}
		}()
		ctx, cancel := context.WithTimeout(context.Background(), 10*time.Second)
		defer cancel()
		switch {
		case cur && d.kind == 0:
			_, st, err = ds.CurrentMinuteState(ctx)
		case cur && d.kind == 1:
			_, st, err = ds.CurrentHourState(ctx)
		case cur && d.kind == 2:
			_, st, err = ds.CurrentDayState(ctx)
		case cur:
			_, st, err = ds.CurrentChangesetState(ctx)
		case d.kind == 0:
			st, err = ds.MinuteState(ctx, replication.MinuteSeqNum(n))
		case d.kind == 1:
			st, err = ds.HourState(ctx, replication.HourSeqNum(n))
		case d.kind == 2:
			st, err = ds.DayState(ctx, replication.DaySeqNum(n))
		default:
			st, err = ds.ChangesetState(ctx, replication.ChangesetSeqNum(n))
		}
	})
	if outcome == 0 && err != nil {
		outcome = 1
	}
	c := &wire.Case{Class: d.class}
	c.Int(4).Int(int64(d.kind)).Bool(cur).Int(int64(n)).Str(d.body).Bool(d.wf).Int(int64(d.seq))
	c.Int(int64(d.t.y)).Int(int64(d.t.mo)).Int(int64(d.t.d)).Int(int64(d.t.h)).Int(int64(d.t.mi)).Int(int64(d.t.s)).Int(int64(d.t.ns))
	var o [10]int64
	es := ""
	if err != nil {
		es = err.Error()
	}
	if outcome == 0 {
		t := st.Timestamp.UTC()
		o = [10]int64{int64(st.SeqNum), int64(t.Year()), int64(t.Month()), int64(t.Day()), int64(t.Hour()), int64(t.Minute()), int64(t.Second()), int64(t.Nanosecond()), int64(st.TxnMax), int64(st.TxnMaxQueried)}
	}
	c.Int(outcome)
	for _, v := range o {
		c.Int(v)
	}
	c.Desc = map[string]interface{}{"kind": dirs[d.kind], "current": cur, "file": n, "body": d.body, "well_formed": d.wf, "process_time_zone": zone,
		"intended_seq_inside": d.seq, "intended_time": fmt.Sprint(d.t), "outcome": []string{"state", "error", "panic"}[outcome], "err": es, "observed": o}
	if d.wf {
		want := d.seq
		if d.kind == 3 {
			if cur {
				want = d.seq + 1
			} else {
				want = n
			}
		}
		switch {
		case outcome != 0:
			c.OracleFail = fmt.Sprintf("well-formed state file not read: %s", es)
		case uint64(o[0]) != want || o[1] != int64(d.t.y) || o[2] != int64(d.t.mo) || o[3] != int64(d.t.d) || o[4] != int64(d.t.h) || o[5] != int64(d.t.mi) || o[6] != int64(d.t.s) || o[7] != int64(d.t.ns):
			c.OracleFail = fmt.Sprintf("state file with sequence %d and time %v read as %v", want, d.t, o)
		}
	}
	return c
}

// ---------------------------------------------------------------- broken transfers
//
//	5 FAULT : kind mode(0 one state file fetched by name, 1 a lookup by time that probes it) n cut len
//	        | outcome (0 a state came back, 1 error)
//	The transfer of state file n breaks off after `cut` of its `len` bytes (the server announced
//	len).  Whatever was received must not be read as a state.
func faultCase(w *world, ds *replication.Datasource, rng *rand.Rand) *wire.Case {
	kind := rng.Intn(3)
	mode := rng.Intn(2)
	var d *dirSpec
	for {
		d = genDir(rng, kind, false)
		if len(d.ts) >= 4 {
			break
		}
	}
	d.install(w, 1000)
	w.mu.Lock()
	w.gzip = false
	w.mu.Unlock()
	var t int64
	var n uint64
	if mode == 1 {
		// a file the lookup really asks for
		t = queryTimes(rng, d, 1)[0]
		w.rearm(1000)
		withZone(func() { stateAt(ds, kind, epoch.Add(time.Duration(t))) }) // (recovers a panicking library)
		w.mu.Lock()
		var probed []uint64
		for _, x := range w.trace {
			if x > 0 && w.files[uint64(x)] != nil {
				probed = append(probed, uint64(x))
			}
		}
		w.mu.Unlock()
		if len(probed) == 0 {
			mode = 0
		} else {
			n = probed[rng.Intn(len(probed))]
		}
	}
	if mode == 0 {
		for i, p := range d.ts {
			if p != nil && (n == 0 || rng.Intn(3) == 0) {
				n = d.base + uint64(i)
			}
		}
	}
	body := w.files[n]
	cut := rng.Intn(len(body))
	switch rng.Intn(3) {
	case 0: // right after the sequenceNumber line
		if i := bytes.Index(body, []byte("sequenceNumber=")); i >= 0 {
			if j := bytes.IndexByte(body[i:], '\n'); j >= 0 && i+j+1 < len(body) {
				cut = i + j + 1
			}
		}
	case 1: // just before the time stamp's value ends
		if i := bytes.Index(body, []byte("timestamp=")); i > 0 {
			cut = i + rng.Intn(12)
		}
	}
	w.mu.Lock()
	w.cut[n] = cut
	w.mu.Unlock()
	w.rearm(1000)
	var err error
	var st *replication.State
	withZone(func() {
		if mode == 1 {
			_, st, err = stateAt(ds, kind, epoch.Add(time.Duration(t)))
		} else {
			ctx, cancel := context.WithTimeout(context.Background(), 10*time.Second)
			defer cancel()
			switch kind {
			case 0:
				st, err = ds.MinuteState(ctx, replication.MinuteSeqNum(n))
			case 1:
				st, err = ds.HourState(ctx, replication.HourSeqNum(n))
			default:
				st, err = ds.DayState(ctx, replication.DaySeqNum(n))
			}
		}
	})
	if lastPanic != "" {
		err = fmt.Errorf("panic: %s", lastPanic)
	}
	outcome := int64(1)
	es, got := "", ""
	if err == nil {
		outcome = 0
		got = fmt.Sprintf("seq %d time %s", st.SeqNum, st.Timestamp.UTC().Format(time.RFC3339))
	} else {
		es = err.Error()
	}
	c := &wire.Case{Class: fmt.Sprintf("fault/mode%d", mode)}
	c.Int(5).Int(int64(kind)).Int(int64(mode)).Int(int64(n)).Int(int64(cut)).Int(int64(len(body))).Int(outcome)
	c.Desc = map[string]interface{}{"kind": dirs[kind], "mode": []string{"state file fetched by name", "lookup by time probing the file"}[mode], "file": n,
		"transfer_cut_after_bytes": cut, "announced_bytes": len(body), "received": string(body[:cut]), "t": t, "err": es, "returned": got}
	if outcome == 0 {
		c.OracleFail = fmt.Sprintf("the transfer of state file %d broke off after %d of %d bytes and no error was reported (returned %s)", n, cut, len(body), got)
	}
	return c
}

func main() {
	a := wire.ParseArgs()
	rng := wire.Rng(a.Seed)
	wr := wire.NewWriter("C19", a.Seed, a.Tier)
	wr.Rule = "search: random directories (1..400 files, increasing stamps, gap patterns: none, prefix, isolated, runs next to lower/upper/split, whole interior, sparse, random density, equal stamps, shifted first file) x query times (before all, equal to a stamp, +-1ns, +1s, between, after all) for minute/hour/day/changesets through a local HTTP server with a request budget; path: state/data request paths for boundary sequence numbers; decode: state files fetched by name and as current; every other directory is served gzip-compressed to clients that accept it; state files of 2-90 KB (a line > 64 KiB before the time stamp); fault: transfers of a probed state file that break off (after the sequenceNumber line, inside the time stamp, anywhere) must be reported as errors. distinct = distinct token streams; single-file directories are trivial."
	world := &world{}
	srv := httptest.NewServer(world)
	defer srv.Close()
	ds := replication.NewDatasource(srv.Client())
	ds.BaseURL = srv.URL
	theDS, srvURL = ds, srv.URL

	// VERIF_C19_MIN=a,b,c,d overrides the first considered sequence numbers (experiments on
	// other versions of the code only)
	if s := os.Getenv("VERIF_C19_MIN"); s != "" {
		for i, f := range strings.Split(s, ",") {
			if v, err := strconv.ParseUint(f, 10, 64); err == nil && i < 4 {
				genBase[i] = v
			}
		}
	}
	min := genBase

	ndirs, nq, nbig, npath, ndecode, ndecodeb := 260, 4, 6, 120, 120, 500
	if a.Tier == "thorough" {
		ndirs, nq, nbig, npath, ndecode, ndecodeb = 6000, 6, 300, 2000, 2000, 12000
	}
	ndirs = int(float64(ndirs) * a.Scale)
	nbig = int(float64(nbig) * a.Scale)
	ndecodeb = int(float64(ndecodeb) * a.Scale)

	var searchIdx []int
	add := func(d *dirSpec, t int64) {
		d.install(world, 0)
		c := searchCase(world, ds, d, t, min[d.kind])
		c.Trivial = len(d.ts) < 2
		i := wr.Add(c)
		searchIdx = append(searchIdx, i)
		wr.Count(fmt.Sprintf("files:%d", bucket(len(d.ts))))
		wr.Count(fmt.Sprintf("requests:%d", bucket(len(c.Toks))))
	}
	for _, q := range corpus() {
		add(q.d, q.t)
	}
	for i := 0; i < ndirs+nbig; i++ {
		d := genDir(rng, rng.Intn(4), i >= ndirs)
		d.install(world, 0)
		k := nq
		if i >= ndirs {
			k = 2
		}
		for _, t := range queryTimes(rng, d, k) {
			c := searchCase(world, ds, d, t, min[d.kind])
			c.Trivial = len(d.ts) < 2
			searchIdx = append(searchIdx, wr.Add(c))
			wr.Count(fmt.Sprintf("files:%d", bucket(len(d.ts))))
		}
		if i%3 == 0 {
			// a query time far outside the data (and outside int64 nanoseconds since 1970)
			c := searchCaseAt(world, ds, d, farTimes[(i/3)%len(farTimes)], min[d.kind])
			c.Class += "/far-time"
			c.Trivial = len(d.ts) < 2
			searchIdx = append(searchIdx, wr.Add(c))
		}
		if rng.Intn(40) == 0 {
			// the current state file is missing
			d2 := *d
			d2.curOK = false
			d2.class = "nocurrent"
			d2.install(world, 0)
			c := searchCase(world, ds, &d2, *d.ts[len(d.ts)-1], min[d.kind])
			wr.Add(c)
		}
	}
	// paths
	bnd := []uint64{1, 2, 9, 10, 99, 100, 999, 1000, 1001, 9999, 99999, 100000, 999999, 1000000, 1000001, 2007990, 2008004,
		9999999, 99999999, 999999999, 1000000000, 1000000001, 4294967295, 4294967296, 123456789012}
	var pathIdx []int
	for kind := 0; kind < 4; kind++ {
		for _, n := range bnd {
			pathIdx = append(pathIdx, wr.Add(pathCase(world, ds, kind, n)))
		}
	}
	for i := 0; i < npath; i++ {
		n := uint64(rng.Int63n(1000000000))
		if rng.Intn(3) == 0 {
			n = uint64(rng.Int63n(1 << uint(1+rng.Intn(40))))
		}
		pathIdx = append(pathIdx, wr.Add(pathCase(world, ds, rng.Intn(4), n+1)))
	}
	var decIdx []int
	for i := 0; i < ndecode; i++ {
		decIdx = append(decIdx, wr.Add(decodeCase(world, ds, rng, rng.Intn(4))))
	}
	var decBIdx []int
	for i := 0; i < ndecodeb; i++ {
		d := genDecB(rng, rng.Intn(4))
		c := decodeBCase(world, ds, rng, d)
		decBIdx = append(decBIdx, wr.Add(c))
		wr.Count(fmt.Sprintf("decodeb-outcome:%d", c.Toks[len(c.Toks)-11]>>1))
	}

	nfault := 60
	if a.Tier == "thorough" {
		nfault = 1500
	}
	var faultIdx []int
	for i := 0; i < int(float64(nfault)*a.Scale); i++ {
		faultIdx = append(faultIdx, wr.Add(faultCase(world, ds, rng)))
	}
	// canaries: one per observable class
	plant := func(i int, f func(c *wire.Case)) {
		c := wr.Cases[i].Clone()
		c.Canary, c.OracleFail, c.Known = 1, "", ""
		c.Class = "canary"
		f(c)
		wr.Add(c)
	}
	okSearch := func(k int) int { // k-th successful search case with a trace of at least 2
		for _, i := range searchIdx {
			c := wr.Cases[i]
			if c.OracleFail == "" && len(c.Toks) > 12 {
				if k == 0 {
					return i
				}
				k--
			}
		}
		return searchIdx[0]
	}
	plant(okSearch(3), func(c *wire.Case) { c.Toks[len(c.Toks)-1] += 2 })             // last request number changed
	plant(okSearch(7), func(c *wire.Case) { c.Toks = append(c.Toks, 2); bumpLen(c) }) // an extra request
	plant(okSearch(11), func(c *wire.Case) { corruptSeq(c) })                         // returned sequence number + 1
	plant(pathIdx[5], func(c *wire.Case) { c.Toks[len(c.Toks)-3] = uint64('1') })     // a digit of the data path
	plant(decIdx[0], func(c *wire.Case) { c.Toks[len(c.Toks)-1] += 2 })               // decoded stamp + 1ns
	for _, i := range decBIdx {                                                       // a well-formed byte-level case read as a state: the decoded second + 1
		if c := wr.Cases[i]; c.OracleFail == "" && c.Toks[len(c.Toks)-11] == 0 {
			plant(i, func(c *wire.Case) { c.Toks[len(c.Toks)-4] += 2 })
			plant(i, func(c *wire.Case) { c.Toks[len(c.Toks)-11] = 2 }) // "error" instead of a state
			break
		}
	}

	if err := wr.Flush(a.Out, "Verif.C19.Check", 400); err != nil {
		fmt.Fprintln(os.Stderr, err)
		os.Exit(1)
	}
	nf := 0
	for _, c := range wr.Cases {
		if c.OracleFail != "" {
			nf++
		}
	}
	fmt.Printf("c19: %d cases, %d go-oracle failures\n", len(wr.Cases), nf)
}

func bucket(n int) int {
	b := 1
	for b < n {
		b *= 2
	}
	return b
}

// the trace is the last list of a search case: ... errclass seq ts ntrace trace*
// bumpLen increments the encoded length of the trace after one element was appended.
func bumpLen(c *wire.Case) {
	// find the length token: walk from the tag
	pos := traceLenPos(c)
	c.Toks[pos] += 2
}

func corruptSeq(c *wire.Case) {
	pos := traceLenPos(c)
	c.Toks[pos-2] += 2
}

// traceLenPos parses the token stream of a search case (all values are single tokens there).
func traceLenPos(c *wire.Case) int {
	// tag kind base n
	p := 3
	n := int(c.Toks[3] >> 1)
	p = 4
	for i := 0; i < n; i++ {
		if c.Toks[p] == 0 {
			p++
		} else {
			p += 2
		}
	}
	p += 3 // curOK tsec tnano
	p += 3 // errclass seq ts
	return p
}
