// c06bomb: replay tool for the finding "zlib-inflate-unbounded" (property C06).
//
//	c06bomb <inflated MiB> [procs] [exact]
//
// builds a small PBF file (header, intact block, block whose zlib stream inflates to the
// PrimitiveBlock followed by <inflated MiB> MiB of zeros while raw_size stays the size of the
// PrimitiveBlock, intact block) and scans it with osmpbf.  Expected: an error after the objects
// of the first block, with memory use independent of the inflated size.  Run it under a memory
// With a third argument the stream inflates to exactly <inflated MiB> MiB in total.  Run it under a memory
// limit, e.g.   (ulimit -v 1500000; c06bomb 3000)   to see whether the inflater is bounded.
package main

import (
	"bytes"
	"compress/zlib"
	"context"
	"fmt"
	"math/rand"
	"os"
	"runtime"
	"strconv"

	"github.com/paulmach/osm/osmpbf"

	"verif/harness/pbfgen"
)

func main() {
	mib, procs := 64, 1
	if len(os.Args) > 1 {
		mib, _ = strconv.Atoi(os.Args[1])
	}
	if len(os.Args) > 2 {
		procs, _ = strconv.Atoi(os.Args[2])
	}
	var d *pbfgen.FileDesc
	for seed := int64(1); ; seed++ {
		d = pbfgen.RandomFile(rand.New(rand.NewSource(seed)), pbfgen.Opts{})
		if len(d.Blocks) >= 3 {
			break
		}
	}
	var out []byte
	emit := func(idx int, typ string, payload []byte, o *pbfgen.BlobOpts) {
		if idx == 1 {
			o.Zlib = true
		}
		h, b := pbfgen.BlobTrees(typ, payload, o)
		if idx == 1 {
			var z bytes.Buffer
			w := zlib.NewWriter(&z)
			w.Write(payload)
			zeros := make([]byte, 1<<20)
			for i := 0; i < mib; i++ {
				if i == 0 && len(os.Args) > 3 {
					w.Write(zeros[len(payload):])
					continue
				}
				w.Write(zeros)
			}
			w.Close()
			for i := range b {
				if b[i].Num == 3 && b[i].Kind == pbfgen.KBytes {
					b[i].Bytes = z.Bytes()
				}
			}
			ds := len(pbfgen.Serialize(b))
			for i := range h {
				if h[i].Num == 3 && h[i].Kind == pbfgen.KVarint {
					h[i].Var = uint64(ds)
				}
			}
			fmt.Printf("block 1: raw_size=%d zlib_data=%d bytes, inflates to %d bytes\n", len(payload), z.Len(), func() int {
				if len(os.Args) > 3 {
					return mib << 20
				}
				return len(payload) + mib<<20
			}())
		}
		hb, bb := pbfgen.Serialize(h), pbfgen.Serialize(b)
		out = append(out, byte(len(hb)>>24), byte(len(hb)>>16), byte(len(hb)>>8), byte(len(hb)))
		out = append(out, hb...)
		out = append(out, bb...)
	}
	emit(-1, "OSMHeader", pbfgen.Serialize(pbfgen.HeaderTree(d.Header)), &d.Header.BlobOpts)
	for i, b := range d.Blocks {
		emit(i, "OSMData", pbfgen.Serialize(pbfgen.BlockTree(b)), &b.BlobOpts)
	}
	var m0, m1 runtime.MemStats
	runtime.ReadMemStats(&m0)
	s := osmpbf.New(context.Background(), bytes.NewReader(out), procs)
	n := 0
	for s.Scan() {
		n++
	}
	err := s.Err()
	s.Close()
	runtime.ReadMemStats(&m1)
	fmt.Printf("objects=%d err=%v go-allocated=%d MiB\n", n, err, (m1.TotalAlloc-m0.TotalAlloc)>>20)
}
