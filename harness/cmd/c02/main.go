// Harness for C02: parallel PBF decoding preserves file order under every schedule.
//
// Case layouts (first token = tag, via Int):
//
//	tag 1 (full scan):   procs resume items* filter perturb ids* err
//	tag 2 (scan cut by a cancel issued from a decoder goroutine's filter callback, i.e. from
//	       another goroutine while Scan is in progress): procs resume items* at ids* err
//	items: kind(0 block n | 1 bad | 2 rderr code).  ids: what Scan/Object delivered, in order
//	(negative = an object whose content is not what the writer put into that slot).
//
// Schedule perturbation only through public seams: a chunked reader with pauses, filter callbacks
// that sleep/Gosched pseudo-randomly per block, a pausing consumer.  Every run is also compared
// (Go side) with the unperturbed procs=1 sequence of the same file, and every object is retained
// and re-read after the scan.
package main

import (
	"bytes"
	"context"
	"encoding/json"
	"fmt"
	"math/rand"
	"os"
	"os/exec"
	"strconv"
	"strings"
	"sync"
	"sync/atomic"
	"time"

	"github.com/paulmach/osm"
	"github.com/paulmach/osm/osmpbf"

	"verif/harness/pbfgen"
	"verif/harness/pbfrun"
	"verif/harness/pipesup"
	"verif/harness/wire"
)

type result struct {
	IDs      []int64
	Retained []int64 // identity of every retained object re-taken after the scan ended
	Err      int64
	Retain   string
}

// perturb bits: 1 slow/chunked reader, 2 filter jitter, 4 consumer jitter, 8 skew (even blocks slow)
// scan runs scan1 under a watchdog: a scan that does not finish is an observation (Hung).
func scan(f *pipesup.File, procs, perturb int, seed int64, cancelAt int64) result {
	ch := make(chan result, 1)
	go func() { ch <- scan1(f, procs, perturb, seed, cancelAt) }()
	select {
	case r := <-ch:
		return r
	case <-time.After(20 * time.Second):
		return result{Err: -1, Retain: "scan did not finish within 20 s (pipeline deadlock)"}
	}
}

func scan1(f *pipesup.File, procs, perturb int, seed int64, cancelAt int64) result {
	ctx, cancel := context.WithCancel(context.Background())
	defer cancel()
	rd := pipesup.NewReader(f)
	jit := pipesup.Jitter(seed, 120)
	var reads int64
	if perturb&1 != 0 {
		rd.Chunk = func() int { return 1 + int(uint64(seed+atomic.LoadInt64(&reads)*7919)%37) }
		rd.Pause = func() { jit(1000000 + atomic.AddInt64(&reads, 1)) }
	}
	sc := osmpbf.New(ctx, rd, procs)
	var fired int32
	cb := func(id int64) bool {
		b := id / 1000
		if cancelAt >= 0 && b == cancelAt && atomic.CompareAndSwapInt32(&fired, 0, 1) {
			cancel()
		}
		if perturb&2 != 0 {
			jit(id)
		}
		if perturb&8 != 0 && b%2 == 0 {
			jit(id + 77)
			jit(id + 78)
		}
		return true
	}
	if perturb&10 != 0 || cancelAt >= 0 {
		sc.FilterNode = func(n *osm.Node) bool { return cb(int64(n.ID)) }
		sc.FilterWay = func(w *osm.Way) bool { return cb(int64(w.ID)) }
	}
	var res result
	var kept []osm.Object
	for k := perturb >> 5 & 3; k > 0; k-- { // the rarely used entry point: Header() before the first Scan
		sc.Header()
	}
	for sc.Scan() {
		o := sc.Object()
		kept = append(kept, o)
		res.IDs = append(res.IDs, pipesup.ObjID(o))
		if perturb&4 != 0 {
			jit(int64(len(kept)) + 5000000)
		}
	}
	res.Err = pipesup.ErrCode(sc.Err())
	sc.Close()
	for i, o := range kept { // retained objects are still what they were when delivered
		res.Retained = append(res.Retained, pipesup.ObjID(o))
		if pipesup.ObjID(o) != res.IDs[i] && res.Retain == "" {
			res.Retain = fmt.Sprintf("object %d changed after delivery: %d -> %d", i, res.IDs[i], pipesup.ObjID(o))
		}
	}
	return res
}

// ---- "rich" family: files drawn with pbfgen.RandomFile (dense nodes, ways, relations; zlib and raw
// blobs; per-block varying granularity / lat_offset / lon_offset / date_granularity and varying
// presence of these fields and of every optional column; string tables with shared and distinct
// strings) with more blocks than decoders.  Every object is identified by a token that hashes ALL
// its content (pbfrun.Tok), taken when Scan returns it and again after the scan has ended (the
// caller retains every object), and compared with the token of the element the description means
// (pbfrun.ElemTok) — so state leaking from block to block inside one decoder goroutine, or memory
// of a delivered object being reused, changes the result.
type richRes struct {
	Toks     []uint64
	Retained []uint64
	Err      int64
	Retain   string
}

func scanRich(data []byte, procs, perturb int, seed int64, skip [3]bool) richRes {
	ch := make(chan richRes, 1)
	go func() {
		jit := pipesup.Jitter(seed, 120)
		f := &pipesup.File{Bytes: data, Starts: []int64{0, int64(len(data))}}
		rd := pipesup.NewReader(f)
		var reads int64
		if perturb&1 != 0 {
			rd.Chunk = func() int { return 1 + int(uint64(seed+atomic.LoadInt64(&reads)*7919)%97) }
			rd.Pause = func() { jit(1000000 + atomic.AddInt64(&reads, 1)) }
		}
		sc := osmpbf.New(context.Background(), rd, procs)
		sc.SkipNodes, sc.SkipWays, sc.SkipRelations = skip[0], skip[1], skip[2]
		if perturb&2 != 0 {
			sc.FilterNode = func(n *osm.Node) bool { jit(int64(n.ID)); return true }
			sc.FilterWay = func(w *osm.Way) bool { jit(int64(w.ID)); return true }
			sc.FilterRelation = func(r *osm.Relation) bool { jit(int64(r.ID)); return true }
		}
		var res richRes
		var kept []osm.Object
		for k := perturb >> 5 & 3; k > 0; k-- {
			sc.Header()
		}
		for sc.Scan() {
			o := sc.Object()
			kept = append(kept, o)
			res.Toks = append(res.Toks, pbfrun.Tok(o))
			if perturb&4 != 0 {
				jit(int64(len(kept)) + 5000000)
			}
		}
		res.Err = pipesup.ErrCode(sc.Err())
		sc.Close()
		for i, o := range kept {
			t := pbfrun.Tok(o)
			res.Retained = append(res.Retained, t)
			if t != res.Toks[i] && res.Retain == "" {
				res.Retain = fmt.Sprintf("object %d (%s) changed after it was delivered: now %s", i, o.ObjectID(), canon(o))
			}
		}
		ch <- res
	}()
	select {
	case r := <-ch:
		return r
	case <-time.After(20 * time.Second):
		return richRes{Err: -1, Retain: "scan did not finish within 20 s (pipeline deadlock)"}
	}
}

func canon(o osm.Object) string {
	switch v := o.(type) {
	case *osm.Node:
		return pbfrun.CanonNode(v)
	case *osm.Way:
		return pbfrun.CanonWay(v)
	case *osm.Relation:
		return pbfrun.CanonRelation(v)
	}
	return "?"
}

// richCases: one file, two scans back to back in this process: first with random Skip* options
// (a scan with other options must not influence the next one: recycled decoder state), then the
// plain scan.  Each is compared with its own expectation.
func richCases(rng *rand.Rand, seed int64) []*wire.Case {
	procs := 1 + rng.Intn(6)
	if rng.Intn(6) == 0 {
		procs = 7 + rng.Intn(10)
	}
	o := pbfgen.Opts{MinBlocks: 3*procs + 1, MaxBlocks: 3*procs + 4, MinElements: 1, MaxItems: 4, MaxGroups: 2, ZlibPct: 70, NoHeader: rng.Intn(8) == 0}
	d := pbfgen.RandomFile(rng, o)
	pbfrun.Renumber(d)
	data, _ := pbfgen.Encode(d)
	var out []*wire.Case
	skips := [][3]bool{{}, {}}
	for skips[0] == ([3]bool{}) {
		skips[0] = [3]bool{rng.Intn(2) == 0, rng.Intn(2) == 0, rng.Intn(3) == 0}
	}
	for k, skip := range skips {
		perturb := rng.Intn(8)
		if rng.Intn(3) == 0 {
			perturb |= (1 + rng.Intn(2)) << 5
		}
		p := procs
		if k == 0 {
			p = 1 + rng.Intn(2*procs)
		}
		base := scanRich(data, 1, 0, seed, skip)
		r := scanRich(data, p, perturb, seed, skip)
		c := &wire.Case{Class: "rich"}
		if k == 0 {
			c.Class = "rich-skip"
		}
		c.Int(3).Int(int64(p)).Bool(d.Header == nil)
		c.Len(len(d.Blocks))
		var exp []uint64
		for i, b := range d.Blocks {
			t := pbfrun.BlockToks(b, i, skip)
			exp = append(exp, t...)
			c.Len(len(t))
			for _, x := range t {
				c.Tok(x)
			}
		}
		c.Int(int64(perturb))
		c.Len(len(r.Toks))
		for _, x := range r.Toks {
			c.Tok(x)
		}
		c.Int(r.Err)
		c.Len(len(r.Retained))
		for _, x := range r.Retained {
			c.Tok(x)
		}
		c.Len(len(base.Toks))
		for _, x := range base.Toks {
			c.Tok(x)
		}
		c.Int(base.Err)
		var firstDiff interface{}
		for i := range r.Toks {
			if i >= len(exp) || r.Toks[i] != exp[i] {
				firstDiff = map[string]interface{}{"index": i}
				break
			}
		}
		switch {
		case r.Retain != "":
			c.OracleFail = r.Retain
		case len(base.Toks) != len(r.Toks) || base.Err != r.Err:
			c.OracleFail = fmt.Sprintf("procs=%d delivers %d objects err %d, procs=1 delivers %d objects err %d", p, len(r.Toks), r.Err, len(base.Toks), base.Err)
		default:
			for i := range r.Toks {
				if r.Toks[i] != base.Toks[i] {
					c.OracleFail = fmt.Sprintf("object %d differs between procs=%d and procs=1 (same file)", i, p)
					break
				}
			}
		}
		c.Desc = map[string]interface{}{"procs": p, "perturb": perturb, "skip_nodes_ways_relations": skip, "scan_number_on_this_file": k + 1,
			"file": d, "delivered_tokens": r.Toks, "expected_tokens": exp, "first_difference": firstDiff, "err": r.Err,
			"note": "token = kind + 4*hash of the full canonical content of the object; scans run back to back in one process"}
		out = append(out, c)
	}
	return out
}

func itemsToks(c *wire.Case, f *pipesup.File) {
	c.Len(len(f.Items))
	for b, it := range f.Items {
		switch {
		case f.Trunc > 0 && b == len(f.Items)-1:
			c.Int(2).Int(pipesup.ETrunc)
		case it.Kind == pipesup.KBlock:
			c.Int(0).Int(int64(it.N))
		case it.Kind == pipesup.KForeign: // the reader reports "unexpected fileblock": a read error
			c.Int(2).Int(pipesup.EOther)
		default:
			c.Int(1).Int(pipesup.EOther)
		}
	}
}

func eq(a, b []int64) bool {
	if len(a) != len(b) {
		return false
	}
	for i := range a {
		if a[i] != b[i] {
			return false
		}
	}
	return true
}

// ---- overlapping decodes, forced: procs = 2, the filter callback of the first node of block 0
// holds decoder A inside Decode until decoder B has decoded block 1 completely (or 300 ms have
// passed).  Runs in a child process: decoders that share state may crash instead of answering.
func overlapChild(seed int64) {
	f := overlapFile(seed)
	var bDone int32
	gate := make(chan struct{})
	var once sync.Once
	lastOfB := f.ID(1, f.Items[1].N-1)
	sc := osmpbf.New(context.Background(), pipesup.NewReader(f), 2)
	sc.FilterNode = func(n *osm.Node) bool {
		id := int64(n.ID)
		if id == f.ID(0, 0) {
			select {
			case <-gate:
			case <-time.After(300 * time.Millisecond):
			}
		}
		if id == lastOfB && atomic.CompareAndSwapInt32(&bDone, 0, 1) {
			go func() { time.Sleep(2 * time.Millisecond); once.Do(func() { close(gate) }) }()
		}
		return true
	}
	var ids []int64
	for sc.Scan() {
		ids = append(ids, pipesup.ObjID(sc.Object()))
	}
	e := pipesup.ErrCode(sc.Err())
	sc.Close()
	b, _ := json.Marshal(map[string]interface{}{"ids": ids, "err": e})
	fmt.Println("OVERLAP-RESULT " + string(b))
}

func overlapFile(seed int64) *pipesup.File {
	rng := wire.Rng(seed)
	f := &pipesup.File{Header: true, Wide: true}
	for b := 0; b < 6; b++ {
		f.Items = append(f.Items, pipesup.Item{Kind: pipesup.KBlock, N: 2 + rng.Intn(4)})
	}
	f.Build()
	return f
}

// ---- fixed corpus: consecutive zlib blocks whose string tables have the SAME encoded length and
// position but different strings (tags k0=v0 / k1=v1 / ..., user names u0 / u1 / ...), same node
// counts, so every block inflates to the same layout in a decoder's reused buffer: any state a
// decoder keeps from the block it decoded before (string table, offsets, buffers) shows up as
// wrong tags / users.  Scanned with procs 1, 2, 3, 4, objects retained.
func corpusSameLayout() *pbfgen.FileDesc {
	d := &pbfgen.FileDesc{Header: &pbfgen.Header{Required: []string{"OsmSchema-V0.6", "DenseNodes"}}}
	id := int64(0)
	for i := 0; i < 9; i++ {
		blk := &pbfgen.Block{Strings: []string{""}}
		blk.Zlib = true
		tag := blk.Tag(fmt.Sprintf("k%d", i), fmt.Sprintf("v%d", i))
		user := blk.Sid(fmt.Sprintf("u%d", i))
		dn := &pbfgen.Dense{HasInfo: true, Cols: pbfgen.AllInfo, HasKeysVals: true}
		for j := 0; j < 3; j++ {
			id++
			dn.Nodes = append(dn.Nodes, pbfgen.DenseNode{ID: id, Lat: 1000 + id, Lon: 2000 + id,
				Info: pbfgen.Info{Version: 1, Timestamp: 1000, Changeset: 5, UID: 7, UserSid: user, Visible: true}, Tags: []pbfgen.Tag{tag}})
		}
		blk.Groups = []*pbfgen.Group{{Items: []pbfgen.Item{{Dense: dn}}}}
		d.Blocks = append(d.Blocks, blk)
	}
	return d
}

func corpusCases() []*wire.Case {
	d := corpusSameLayout()
	data, _ := pbfgen.Encode(d)
	var out []*wire.Case
	for procs := 1; procs <= 4; procs++ {
		r := scanRich(data, procs, 0, int64(procs), [3]bool{})
		c := &wire.Case{Class: "rich-corpus"}
		c.Int(3).Int(int64(procs)).Bool(false)
		c.Len(len(d.Blocks))
		var exp []uint64
		for i, b := range d.Blocks {
			t := pbfrun.BlockToks(b, i, [3]bool{})
			exp = append(exp, t...)
			c.Len(len(t))
			for _, x := range t {
				c.Tok(x)
			}
		}
		c.Int(0)
		c.Len(len(r.Toks))
		for _, x := range r.Toks {
			c.Tok(x)
		}
		c.Int(r.Err)
		c.Len(len(r.Retained))
		for _, x := range r.Retained {
			c.Tok(x)
		}
		c.Len(len(exp)) // the expectation also stands for the single-decoder scan (procs = 1 is one of the cases)
		for _, x := range exp {
			c.Tok(x)
		}
		c.Int(0)
		if r.Retain != "" {
			c.OracleFail = r.Retain
		}
		first := -1
		for i := range r.Toks {
			if i >= len(exp) || r.Toks[i] != exp[i] {
				first = i
				break
			}
		}
		c.Desc = map[string]interface{}{"procs": procs, "file": "fixed corpus: 9 zlib blocks x 3 dense nodes, block i has tag k<i>=v<i> and user u<i> (string tables of identical encoded length and position)",
			"delivered_tokens": r.Toks, "expected_tokens": exp, "first_difference_at_object": first, "err": r.Err}
		out = append(out, c)
	}
	return out
}

// overlapBad: the child answered, but not with the file's elements
func overlapBad(c *wire.Case) bool {
	d := c.Desc.(map[string]interface{})
	got, _ := d["delivered"].([]int64)
	exp, _ := d["expected"].([]int64)
	e, _ := d["err"].(int64)
	return !eq(got, exp) || e != 0
}

func overlapCase(seed int64) *wire.Case {
	f := overlapFile(seed)
	cmd := exec.Command(os.Args[0], "--overlap-child", strconv.FormatInt(seed, 10))
	var out, errb bytes.Buffer
	cmd.Stdout, cmd.Stderr = &out, &errb
	done := make(chan error, 1)
	cmd.Start()
	go func() { done <- cmd.Wait() }()
	var runErr error
	select {
	case runErr = <-done:
	case <-time.After(20 * time.Second):
		cmd.Process.Kill()
		runErr = fmt.Errorf("child did not finish within 20 s")
	}
	var res struct {
		IDs []int64 `json:"ids"`
		Err int64   `json:"err"`
	}
	got := false
	for _, l := range strings.Split(out.String(), "\n") {
		if strings.HasPrefix(l, "OVERLAP-RESULT ") {
			got = json.Unmarshal([]byte(strings.TrimPrefix(l, "OVERLAP-RESULT ")), &res) == nil
		}
	}
	c := &wire.Case{Class: "overlap"}
	c.Int(5).Int(2).Bool(false)
	itemsToks(c, f)
	c.Ints(res.IDs).Int(res.Err)
	desc := map[string]interface{}{"procs": 2, "items": f.Items, "ids": "object j of block b has id b*100000+j+1",
		"schedule":  "the filter callback of the first node of block 0 holds its decoder until the other decoder has finished block 1",
		"delivered": res.IDs, "err": res.Err, "expected": f.Expected()}
	if !got {
		first := strings.SplitN(strings.TrimSpace(errb.String()), "\n", 2)[0]
		c.OracleFail = fmt.Sprintf("the scan crashed or hung with two decoders inside Decode at the same time: %v: %s", runErr, first)
		desc["child_stderr_head"] = first
	}
	c.Desc = desc
	return c
}

func main() {
	if len(os.Args) == 3 && os.Args[1] == "--overlap-child" {
		seed, _ := strconv.ParseInt(os.Args[2], 10, 64)
		overlapChild(seed)
		return
	}
	a := wire.ParseArgs()
	rng := wire.Rng(a.Seed)
	w := wire.NewWriter("C02", a.Seed, a.Tier)
	// one slow consumer, run concurrently with everything else (own PRNG): it stalls for 11 s
	// after the first object while the pipeline is full; nothing may give up on a consumer that is
	// merely slow (a serializer-side "abandoned scanner" timeout would cut the scan)
	var slowCh chan *wire.Case
	if os.Getenv("VERIF_RACE_CHILD") == "" && a.Extra["stress"] == "" {
		slowCh = make(chan *wire.Case, 1)
		go func() { slowCh <- slowConsumerCase(wire.Rng(a.Seed*977 + 5)) }()
	}
	w.Rule = "generated PBF files with >= 3*procs small distinguishable blocks (or fewer blocks than decoders), procs 0..32 incl. > 10 (unbuffered channels), header or resume mode, bad/truncated last blocks; each file scanned under reader/filter/consumer timing perturbation and compared with expected elements and the procs=1 sequence; plus scans cut by a cancel issued from a decoder goroutine; non-trivial = distinct token stream"
	nFull := int(170 * a.Scale)
	nCut := int(60 * a.Scale)
	if a.Tier == "thorough" {
		nFull, nCut = nFull*12, nCut*12
	}
	// overlapping decodes first, in child processes: if two decoders cannot be inside Decode at
	// the same time (shared decoder state), the in-process classes below would crash this process
	// and lose the observation, so they are skipped then
	unsafeDecoders := false
	for i := 0; i < 3; i++ {
		c := overlapCase(a.Seed*53 + int64(i))
		w.Add(c)
		w.Count("overlap")
		if c.OracleFail != "" || !c.Trivial && overlapBad(c) {
			unsafeDecoders = true
		}
	}
	if unsafeDecoders {
		for k := 0; k < 2; k++ { // canaries: the error code of the first overlap case altered
			d := w.Cases[0].Clone()
			d.Canary, d.Class, d.OracleFail = 1, "canary", ""
			d.Toks[len(d.Toks)-1] = uint64(6 + 2*k)
			w.Add(d)
		}
		w.Notes = append(w.Notes, "overlapping decodes misbehave: the in-process classes were skipped")
		if err := w.Flush(a.Out, "Verif.C02.Check", 120); err != nil {
			fmt.Fprintln(os.Stderr, err)
			os.Exit(1)
		}
		return
	}
	for _, c := range corpusCases() {
		w.Add(c)
		w.Count("rich-corpus")
	}
	var first *wire.Case
	for i := 0; i < nFull+nCut; i++ {
		procs := 1 + rng.Intn(32)
		switch rng.Intn(10) {
		case 0:
			procs = 0
		case 1:
			procs = 11 + rng.Intn(22)
		case 2:
			procs = 2 + rng.Intn(3)
		}
		n := procs
		if n < 1 {
			n = 1
		}
		minBlocks := 3*n + 1
		if rng.Intn(6) == 0 {
			minBlocks = 1 + rng.Intn(n)
		}
		f := pipesup.GenFile(rng, minBlocks, rng.Intn(4) == 0)
		seed := a.Seed*1000003 + int64(i)
		if i < nFull {
			perturb := rng.Intn(16)
			if rng.Intn(5) == 0 {
				perturb = 0
			}
			if rng.Intn(3) == 0 { // Header() once or twice before the first Scan
				perturb |= (1 + rng.Intn(2)) << 5
			}
			if rng.Intn(7) == 0 && len(f.Items) >= 3 && f.Trunc == 0 { // a foreign fileblock between data blocks
				f.Items[1+rng.Intn(len(f.Items)-2)] = pipesup.Item{Kind: pipesup.KForeign}
				f.Build()
				w.Count("foreign_block")
			}
			base := scan(f, 1, 0, seed, -1)
			r := scan(f, procs, perturb, seed, -1)
			c := &wire.Case{Class: "full"}
			c.Int(1).Int(int64(n)).Bool(!f.Header)
			itemsToks(c, f)
			c.Int(0).Int(int64(perturb)).Ints(r.IDs).Int(r.Err).Ints(r.Retained).Ints(base.IDs).Int(base.Err)
			if !eq(base.IDs, r.IDs) || base.Err != r.Err {
				c.OracleFail = fmt.Sprintf("procs=%d perturb=%d delivers %v err %d, procs=1 delivers %v err %d", procs, perturb, r.IDs, r.Err, base.IDs, base.Err)
			} else if r.Retain != "" {
				c.OracleFail = r.Retain
			}
			c.Desc = map[string]interface{}{"procs": procs, "header": f.Header, "items": f.Items, "trunc": f.Trunc, "perturb": perturb,
				"delivered": r.IDs, "err": r.Err, "procs1_delivered": base.IDs, "expected": f.Expected()}
			w.Add(c)
			if r.Err == -1 || base.Err == -1 {
				break
			}
			w.Count(fmt.Sprintf("perturb:%d", perturb))
			if first == nil {
				first = c
			}
		} else {
			at := int64(rng.Intn(len(f.Items)))
			r := scan(f, procs, rng.Intn(16)&^1, seed, at)
			c := &wire.Case{Class: "cut"}
			c.Int(2).Int(int64(n)).Bool(!f.Header)
			itemsToks(c, f)
			c.Int(at).Ints(r.IDs).Int(r.Err)
			if r.Retain != "" {
				c.OracleFail = r.Retain
			}
			c.Desc = map[string]interface{}{"procs": procs, "header": f.Header, "items": f.Items, "trunc": f.Trunc, "cancel_in_filter_of_block": at,
				"delivered": r.IDs, "err": r.Err, "expected": f.Expected()}
			w.Add(c)
			if r.Err == -1 {
				break
			}
			w.Count(fmt.Sprintf("cut_delivered_all:%v", len(r.IDs) == len(f.Expected())))
		}
		w.Count(fmt.Sprintf("procs:%d", bucket(procs)))
	}
	if a.Extra["stress"] != "" {
		// widened search: hammer the concurrent-cancel window (a decoder goroutine's filter callback
		// cancels while Scan is blocked in Next); only trials that violate the prefix property or
		// lose the error are recorded, plus a few samples
		trials := int(2500 * a.Scale)
		kept := 0
		for t := 0; t < trials && kept < 3; t++ {
			procs := 1 + rng.Intn(2)
			f := pipesup.GenFile(rng, 10, false)
			at := int64(1 + rng.Intn(len(f.Items)-1))
			r := scan(f, procs, 0, a.Seed*31+int64(t), at)
			exp := f.Expected()
			bad := len(r.IDs) > len(exp) || (r.Err == 0 && len(r.IDs) < len(exp))
			for i := 0; !bad && i < len(r.IDs); i++ {
				bad = r.IDs[i] != exp[i]
			}
			if !bad && t%500 != 0 {
				continue
			}
			if bad {
				kept++
			}
			c := &wire.Case{Class: "cut-stress"}
			c.Int(2).Int(int64(procs)).Bool(!f.Header)
			itemsToks(c, f)
			c.Int(at).Ints(r.IDs).Int(r.Err)
			c.Desc = map[string]interface{}{"procs": procs, "header": f.Header, "items": f.Items, "cancel_in_filter_of_block": at,
				"delivered": r.IDs, "err": r.Err, "expected": exp, "trial": t}
			w.Add(c)
		}
		w.Count("stress_trials")
	}
	// size thresholds: blocks holding exactly / just below / just above round numbers of objects
	// (batching, buffer and channel thresholds), followed by further blocks, procs >= 2
	sizes := []int{4096}
	if a.Tier == "thorough" {
		sizes = []int{12, 13, 16, 17, 32, 33, 2048, 4095, 4096, 4097, 8000, 8176, 8177, 8192, 12288, 32768}
	}
	for si, big := range sizes {
		procs := 2 + rng.Intn(3)
		f := &pipesup.File{Header: true, Wide: true}
		nb := 3*procs + 2
		at := rng.Intn(procs)
		for b := 0; b < nb; b++ {
			n := 1 + rng.Intn(3)
			if b == at || (b == at+procs && a.Tier == "thorough") {
				n = big
			}
			f.Items = append(f.Items, pipesup.Item{Kind: pipesup.KBlock, N: n})
		}
		f.Build()
		r := scan(f, procs, 0, a.Seed*101+int64(si), -1)
		c := &wire.Case{Class: "wide"}
		c.Int(5).Int(int64(procs)).Bool(false)
		itemsToks(c, f)
		c.Ints(r.IDs).Int(r.Err)
		if r.Retain != "" {
			c.OracleFail = r.Retain
		}
		exp := f.Expected()
		first := -1
		for i := range r.IDs {
			if i >= len(exp) || r.IDs[i] != exp[i] {
				first = i
				break
			}
		}
		c.Desc = map[string]interface{}{"procs": procs, "items": f.Items, "ids": "object j of block b has id b*100000+j+1", "delivered_count": len(r.IDs),
			"expected_count": len(exp), "first_difference_at": first, "err": r.Err}
		if first >= 0 {
			c.Desc.(map[string]interface{})["delivered_around_difference"] = r.IDs[max0(first-2):minInt(first+4, len(r.IDs))]
			c.Desc.(map[string]interface{})["expected_around_difference"] = exp[max0(first-2):minInt(first+4, len(exp))]
		}
		w.Add(c)
		w.Count(fmt.Sprintf("wide:%d", big))
	}
	nRich := int(30 * a.Scale)
	if a.Tier == "thorough" {
		nRich *= 10
	}
	if a.Extra["stress"] != "" {
		nRich *= 2
	}
	for i := 0; i < nRich; i++ {
		for _, c := range richCases(rng, a.Seed*7+int64(i)) {
			w.Add(c)
			w.Count(c.Class)
		}
	}
	// canaries: two adjacent delivered ids swapped; the error code altered
	{
		d := first.Clone()
		d.Canary, d.Class = 1, "canary"
		k := len(d.Toks)
		d.Toks[k-2], d.Toks[k-3] = d.Toks[k-3], d.Toks[k-2]
		if d.Toks[k-2] == d.Toks[k-3] {
			d.Toks[k-2] += 2
		}
		w.Add(d)
		e := first.Clone()
		e.Canary, e.Class = 1, "canary"
		e.Toks[k-1] = 6
		w.Add(e)
	}
	if slowCh != nil {
		w.Add(<-slowCh)
	}
	if a.Tier == "thorough" {
		if rep := pipesup.RaceRun("c02", a.Out, a.Seed); rep != "" {
			c := &wire.Case{Class: "race", OracleFail: rep, Desc: map[string]interface{}{"race_detector_report": rep}}
			c.Int(9)
			w.Add(c)
		} else {
			w.Notes = append(w.Notes, "race-detector child run (quick stream under -race, objects retained and re-read): no report")
		}
	}
	if err := w.Flush(a.Out, "Verif.C02.Check", 120); err != nil {
		fmt.Fprintln(os.Stderr, err)
		os.Exit(1)
	}
}

func slowConsumerCase(rng *rand.Rand) *wire.Case {
	f := pipesup.GenFile(rng, 14, false)
	sc := osmpbf.New(context.Background(), pipesup.NewReader(f), 2)
	var ids []int64
	for sc.Scan() {
		ids = append(ids, pipesup.ObjID(sc.Object()))
		if len(ids) == 1 {
			time.Sleep(11 * time.Second)
		}
	}
	e := pipesup.ErrCode(sc.Err())
	sc.Close()
	c := &wire.Case{Class: "slow-consumer"}
	c.Int(1).Int(2).Bool(!f.Header)
	itemsToks(c, f)
	c.Int(0).Int(16).Ints(ids).Int(e).Ints(ids).Ints(f.Expected()).Int(pipesup.ErrCode(nil))
	c.Desc = map[string]interface{}{"procs": 2, "header": f.Header, "items": f.Items, "consumer": "sleeps 11 s after the first object",
		"delivered": ids, "err": e, "expected": f.Expected()}
	return c
}

func max0(a int) int {
	if a < 0 {
		return 0
	}
	return a
}

func minInt(a, b int) int {
	if a < b {
		return a
	}
	return b
}

func bucket(p int) int {
	switch {
	case p <= 1:
		return p
	case p <= 4:
		return 4
	case p <= 10:
		return 10
	case p <= 16:
		return 16
	}
	return 32
}
