// c14: correspondence harness for the child-first relation ordering (property C14).
//
// Case layout (all values wire.Int unless noted):
//
//	1 ORDER : nodes: n (id kind nversions (nmembers (isrel ref)*)*)*   kind 0 = has a history,
//	          2 = the datasource fails for this id; ids not listed have no history (NotFound)
//	          requests: n id*    mode (0 run to the end, 1 Close after k Next, 2 cancel after k Next)  k
//	        | emitted: n id*   err   terminated
package main

import (
	"context"
	"errors"
	"fmt"
	"math/rand"
	"os"
	"runtime"
	"strings"
	"time"

	"github.com/paulmach/osm"
	"github.com/paulmach/osm/annotate"
	"verif/harness/wire"
)

type member struct {
	rel bool
	ref int64
}

type node struct {
	id       int64
	kind     int // 0 history, 2 datasource error
	versions [][]member
}

type graph struct {
	nodes []node
	class string
}

var errDS = errors.New("datasource failure")
var errNF = errors.New("not found")

type source struct {
	g     *graph
	calls int
	// hold != 0: the first lookup of that relation signals `entered` and then waits --
	// blockCtx: until the context it was handed is done (a context-honouring slow datasource),
	// otherwise until `gate` is opened
	hold     int64
	blockCtx bool
	once     bool
	entered  chan struct{}
	gate     chan struct{}
}

func (s *source) RelationHistory(ctx context.Context, id osm.RelationID) (osm.Relations, error) {
	s.calls++
	if s.hold != 0 && int64(id) == s.hold && !s.once {
		s.once = true
		close(s.entered)
		if s.blockCtx {
			select {
			case <-ctx.Done():
				return nil, ctx.Err()
			case <-s.gate: // only opened by the harness when it gives up
				return nil, errDS
			}
		}
		select {
		case <-s.gate:
		case <-time.After(10 * time.Second):
		}
	}
	for _, n := range s.g.nodes {
		if n.id != int64(id) {
			continue
		}
		if n.kind != 0 {
			return nil, errDS
		}
		var rs osm.Relations
		for v, ms := range n.versions {
			r := &osm.Relation{ID: id, Version: v + 1}
			for _, m := range ms {
				t := osm.TypeRelation
				if !m.rel {
					// every other kind a member can carry, the zero value included
					t = []osm.Type{osm.TypeNode, osm.TypeWay, "", osm.TypeChangeset, osm.TypeBounds, osm.TypeUser, osm.TypeNote}[int(m.ref%7+7)%7]
				}
				r.Members = append(r.Members, osm.Member{Type: t, Ref: m.ref})
			}
			rs = append(rs, r)
		}
		return rs, nil
	}
	return nil, errNF
}

func (s *source) NotFound(err error) bool { return err == errNF }

// hung counts runs that did not end within the deadline; after a few of them the remaining
// runs are skipped (every one would cost the full deadline and leak a goroutine)
var hung int

type obs struct {
	seq        []int64
	err        int
	terminated bool
	ci         int64 // CompletedIndex after Close (full runs), -1 otherwise
}

// run drives the implementation; everything happens in a goroutine watched by a deadline.
func run(g *graph, reqs []int64, mode, k int) obs {
	res := make(chan obs, 1)
	base := runtime.NumGoroutine()
	go func() {
		var o obs
		ids := make([]osm.RelationID, len(reqs))
		for i, r := range reqs {
			ids[i] = osm.RelationID(r)
		}
		ctx, cancel := context.WithCancel(context.Background())
		defer cancel()
		var ds annotate.RelationHistoryDatasourcer = &source{g: g}
		if strings.HasPrefix(g.class, "osmds/") {
			// the library's own datasource (it ignores the context); an empty history is an
			// empty, non-nil slice in its map
			h := &osm.HistoryDatasource{Relations: map[osm.RelationID]osm.Relations{}}
			src := &source{g: g}
			for _, n := range g.nodes {
				rs, _ := src.RelationHistory(ctx, osm.RelationID(n.id))
				if rs == nil {
					rs = osm.Relations{}
				}
				h.Relations[osm.RelationID(n.id)] = rs
			}
			ds = h
		}
		if strings.HasPrefix(g.class, "osmadd/") {
			// the library's datasource built the way users build it: (&osm.OSM{Relations: ...}).HistoryDatasource(),
			// from one list in which the versions of a relation are NOT next to each other
			// (relative order of the versions of one relation kept); several OSM objects added in turn
			src := &source{g: g}
			var per [][]*osm.Relation
			total := 0
			for _, n := range g.nodes {
				rs, _ := src.RelationHistory(ctx, osm.RelationID(n.id))
				per = append(per, rs)
				total += len(rs)
			}
			irng := rand.New(rand.NewSource(int64(total)*7919 + int64(len(g.nodes))))
			var all osm.Relations
			for total > 0 {
				i := irng.Intn(len(per))
				if len(per[i]) == 0 {
					continue
				}
				all = append(all, per[i][0])
				per[i] = per[i][1:]
				total--
			}
			cut := 0
			if len(all) > 1 {
				cut = irng.Intn(len(all))
			}
			h := (&osm.OSM{Relations: all[:cut]}).HistoryDatasource()
			h2 := (&osm.OSM{Relations: all[cut:]}).HistoryDatasource()
			// merge the second batch the way a second file would be added: through the same map
			if h.Relations == nil {
				h.Relations = map[osm.RelationID]osm.Relations{}
			}
			for id, rs := range h2.Relations {
				h.Relations[id] = append(h.Relations[id], rs...)
			}
			ds = h
		}
		ord := annotate.NewChildFirstOrdering(ctx, ids, ds)
		if mode == 0 {
			for ord.Next() {
				o.seq = append(o.seq, int64(ord.RelationID()))
			}
			switch err := ord.Err(); {
			case err == nil:
				o.err = 0
			case err == errDS:
				o.err = 2
			default:
				o.err = 1
			}
			ord.Close()
			o.ci = int64(ord.CompletedIndex) // after Close: the producer has returned
		} else {
			o.ci = -1
			for i := 0; i < k && ord.Next(); i++ {
				o.seq = append(o.seq, int64(ord.RelationID()))
			}
			switch mode {
			case 1:
				ord.Close()
			case 4:
				cancel()
				ord.Close()
			default:
				cancel()
			}
			if ord.Next() {
				o.seq = append(o.seq, -1) // must not deliver anything after Close/cancel
			}
			if ord.Err() != nil {
				o.err = 1
			}
		}
		res <- o
	}()
	select {
	case o := <-res:
		// the producer goroutine must be gone (Close waits for it; after a bare cancel it
		// has to leave by itself)
		deadline := time.Now().Add(2 * time.Second)
		for runtime.NumGoroutine() > base && time.Now().Before(deadline) {
			time.Sleep(50 * time.Microsecond)
		}
		o.terminated = runtime.NumGoroutine() <= base
		return o
	case <-time.After(2 * time.Second):
		hung++
		return obs{terminated: false, err: 1}
	}
}

// runBlocked: Close() is called while the producer is inside the lookup of relation x, and
// that lookup only ends when the context it was given is done.
func runBlocked(g *graph, reqs []int64, x int64) obs {
	res := make(chan obs, 1)
	base := runtime.NumGoroutine()
	src := &source{g: g, hold: x, blockCtx: true, entered: make(chan struct{}), gate: make(chan struct{})}
	go func() {
		var o obs
		ids := make([]osm.RelationID, len(reqs))
		for i, r := range reqs {
			ids[i] = osm.RelationID(r)
		}
		ord := annotate.NewChildFirstOrdering(context.Background(), ids, src)
		consumed := make(chan struct{})
		go func() {
			for ord.Next() {
				o.seq = append(o.seq, int64(ord.RelationID()))
			}
			close(consumed)
		}()
		select {
		case <-src.entered:
		case <-consumed: // x was never looked up
		case <-time.After(2 * time.Second):
		}
		ord.Close()
		<-consumed
		if ord.Err() != nil {
			o.err = 1
		}
		o.ci = -1
		res <- o
	}()
	select {
	case o := <-res:
		deadline := time.Now().Add(2 * time.Second)
		for runtime.NumGoroutine() > base && time.Now().Before(deadline) {
			time.Sleep(50 * time.Microsecond)
		}
		o.terminated = runtime.NumGoroutine() <= base
		return o
	case <-time.After(2 * time.Second):
		hung++
		close(src.gate) // let the leaked goroutines go
		return obs{terminated: false, err: 1, ci: -1}
	}
}

// runPair: two orderings alive at once. A is suspended inside the lookup of relation holdA,
// B is created and consumed completely meanwhile, then A continues. Both are full runs.
func runPair(gA *graph, reqsA []int64, holdA int64, gB *graph, reqsB []int64) (obs, obs) {
	type both struct{ a, b obs }
	res := make(chan both, 1)
	base := runtime.NumGoroutine()
	srcA := &source{g: gA, hold: holdA, entered: make(chan struct{}), gate: make(chan struct{})}
	full := func(ord *annotate.ChildFirstOrdering) obs {
		var o obs
		for ord.Next() {
			o.seq = append(o.seq, int64(ord.RelationID()))
			if len(o.seq) > 1000 {
				break
			}
		}
		switch err := ord.Err(); {
		case err == nil:
		case err == errDS:
			o.err = 2
		default:
			o.err = 1
		}
		ord.Close()
		o.ci = int64(ord.CompletedIndex)
		return o
	}
	toIDs := func(l []int64) []osm.RelationID {
		ids := make([]osm.RelationID, len(l))
		for i, r := range l {
			ids[i] = osm.RelationID(r)
		}
		return ids
	}
	go func() {
		a := annotate.NewChildFirstOrdering(context.Background(), toIDs(reqsA), srcA)
		select {
		case <-srcA.entered:
		case <-time.After(300 * time.Millisecond): // holdA is never looked up before the first send
		}
		b := annotate.NewChildFirstOrdering(context.Background(), toIDs(reqsB), &source{g: gB})
		ob := full(b)
		close(srcA.gate)
		oa := full(a)
		res <- both{oa, ob}
	}()
	select {
	case r := <-res:
		deadline := time.Now().Add(2 * time.Second)
		for runtime.NumGoroutine() > base && time.Now().Before(deadline) {
			time.Sleep(50 * time.Microsecond)
		}
		ok := runtime.NumGoroutine() <= base
		r.a.terminated, r.b.terminated = ok, ok
		return r.a, r.b
	case <-time.After(4 * time.Second):
		hung++
		return obs{err: 1}, obs{err: 1}
	}
}

// genDeep: acyclic graphs nested far deeper than any fixed recursion limit one might think of
func genDeep(rng *rand.Rand) (*graph, []int64) {
	n := 110 + rng.Intn(70)
	g := &graph{class: "deep-chain"}
	dag := rng.Intn(2) == 0
	if dag {
		g.class = "deep-dag"
	}
	for i := 1; i <= n; i++ {
		nd := node{id: int64(i)}
		var ms []member
		if i < n {
			ms = append(ms, member{true, int64(i + 1)})
		}
		if dag && i+2 <= n && rng.Intn(2) == 0 {
			ms = append(ms, member{true, int64(i + 2)})
		}
		nd.versions = [][]member{ms}
		g.nodes = append(g.nodes, nd)
	}
	reqs := []int64{1}
	for k := 0; k < 6; k++ {
		reqs = append(reqs, int64(95+rng.Intn(n-94)))
	}
	reqs = append(reqs, int64(n), 101, 100)
	return g, reqs
}

// genWide: one relation whose versions together reference k distinct relation members (k around
// the sizes at which an implementation might change strategy), with repeats inside and across
// versions; the parent is requested before its children.
func genWide(rng *rand.Rand, k int) (*graph, []int64) {
	g := &graph{class: fmt.Sprintf("wide-%d", k)}
	parent := node{id: 1}
	nv := 1 + rng.Intn(3)
	vers := make([][]member, nv)
	for c := 0; c < k; c++ {
		v := c * nv / k
		vers[v] = append(vers[v], member{true, int64(2 + c)})
		if rng.Intn(4) == 0 { // a repeat of an earlier member, and a way in between
			vers[v] = append(vers[v], member{true, int64(2 + rng.Intn(c+1))}, member{false, int64(rng.Intn(50))})
		}
	}
	parent.versions = vers
	g.nodes = append(g.nodes, parent)
	for c := 0; c < k; c++ {
		if rng.Intn(10) != 0 || c == 32 || c == k-1 { // most children have a history
			g.nodes = append(g.nodes, node{id: int64(2 + c), versions: [][]member{{}}})
		}
	}
	reqs := []int64{1, int64(2 + rng.Intn(k)), int64(k + 1)}
	return g, reqs
}

// bigSource: relations 1..n, each with one version; every step-th relation has the next one as
// its only member (a child shared with a later request).  O(1) per lookup.
type bigSource struct {
	n, step int64
}

func (s *bigSource) RelationHistory(ctx context.Context, id osm.RelationID) (osm.Relations, error) {
	i := int64(id)
	if i < 1 || i > s.n {
		return nil, errNF
	}
	r := &osm.Relation{ID: id, Version: 1}
	if i%s.step == 0 && i < s.n {
		r.Members = osm.Members{{Type: osm.TypeRelation, Ref: i + 1}, {Type: osm.TypeWay, Ref: i}}
	}
	return osm.Relations{r}, nil
}

func (s *bigSource) NotFound(err error) bool { return err == errNF }

// bigCase: a run that emits n relations (more than any size threshold of interest), with ids
// requested a second time at the end.  The output is too large to ship: it is compared here with
// its closed form and only the summary goes to Coq (tag 2):
//
//	2 BIG : n step nrepeat | count firstdup firstdiff err terminated
func bigCase(n, step int64, rng *rand.Rand) *wire.Case {
	ids := make([]osm.RelationID, 0, n+8)
	for i := int64(1); i <= n; i++ {
		ids = append(ids, osm.RelationID(i))
	}
	repeats := []int64{1, 2, step, step + 1, n / 2, n - 1, n, 1 + rng.Int63n(n)}
	for _, r := range repeats {
		ids = append(ids, osm.RelationID(r))
	}
	var expect []int64
	done := make([]bool, n+2)
	for i := int64(1); i <= n; i++ {
		if done[i] {
			continue
		}
		if i%step == 0 && i < n && !done[i+1] {
			expect = append(expect, i+1)
			done[i+1] = true
		}
		expect = append(expect, i)
		done[i] = true
	}
	type res struct {
		seq  []int64
		err  int
		term bool
	}
	ch := make(chan res, 1)
	base := runtime.NumGoroutine()
	go func() {
		var r res
		ord := annotate.NewChildFirstOrdering(context.Background(), ids, &bigSource{n: n, step: step})
		for ord.Next() {
			r.seq = append(r.seq, int64(ord.RelationID()))
			if int64(len(r.seq)) > 2*n {
				break
			}
		}
		if ord.Err() != nil {
			r.err = 1
		}
		ord.Close()
		ch <- r
	}()
	var r res
	select {
	case r = <-ch:
		deadline := time.Now().Add(2 * time.Second)
		for runtime.NumGoroutine() > base && time.Now().Before(deadline) {
			time.Sleep(50 * time.Microsecond)
		}
		r.term = runtime.NumGoroutine() <= base
	case <-time.After(30 * time.Second):
		hung++
	}
	firstdup, firstdiff := int64(0), int64(-1)
	seen := make([]bool, n+2)
	for _, id := range r.seq {
		if id >= 1 && id <= n && seen[id] && firstdup == 0 {
			firstdup = id
		}
		if id >= 1 && id <= n {
			seen[id] = true
		}
	}
	for i := 0; i < len(r.seq) || i < len(expect); i++ {
		if i >= len(r.seq) || i >= len(expect) || r.seq[i] != expect[i] {
			firstdiff = int64(i)
			break
		}
	}
	c := &wire.Case{Class: fmt.Sprintf("big-%d", n)}
	c.Int(2).Int(n).Int(step).Len(len(repeats)).Int(int64(len(r.seq))).Int(firstdup).Int(firstdiff).Int(int64(r.err)).Bool(r.term)
	c.Desc = map[string]interface{}{"relations": fmt.Sprintf("1..%d, one version each; relation i with i %% %d == 0 has relation i+1 as member", n, step),
		"requested": fmt.Sprintf("1..%d in order, then again %v", n, repeats), "emitted_count": len(r.seq), "first_id_emitted_twice": firstdup,
		"first_position_differing_from_expected": firstdiff, "err": r.err, "terminated": r.term}
	switch {
	case !r.term:
		c.OracleFail = "iteration or its goroutine did not end within the deadline"
	case firstdup != 0:
		c.OracleFail = fmt.Sprintf("relation %d emitted twice (run of %d relations)", firstdup, n)
	case int64(len(r.seq)) != n || firstdiff >= 0:
		c.OracleFail = fmt.Sprintf("%d relations emitted, %d expected; first difference at position %d", len(r.seq), n, firstdiff)
	case r.err != 0:
		c.OracleFail = "unexpected error"
	}
	return c
}

func (g *graph) find(id int64) *node {
	for i := range g.nodes {
		if g.nodes[i].id == id {
			return &g.nodes[i]
		}
	}
	return nil
}

func (g *graph) hasHistory(id int64) bool {
	n := g.find(id)
	return n != nil && n.kind == 0
}

// descendants with history (strict), by closure
func (g *graph) descendants(r int64) map[int64]bool {
	seen := map[int64]bool{}
	front := []int64{r}
	for len(front) > 0 {
		var next []int64
		for _, x := range front {
			n := g.find(x)
			if n == nil || n.kind != 0 {
				continue
			}
			for _, ms := range n.versions {
				for _, m := range ms {
					if m.rel && g.hasHistory(m.ref) && !seen[m.ref] {
						seen[m.ref] = true
						next = append(next, m.ref)
					}
				}
			}
		}
		front = next
	}
	return seen
}

func (g *graph) acyclic() bool {
	for _, n := range g.nodes {
		if g.descendants(n.id)[n.id] {
			return false
		}
	}
	return true
}

func oracle(g *graph, reqs []int64, mode int, o obs) string {
	if !o.terminated {
		return "iteration or its goroutine did not end within the deadline"
	}
	seen := map[int64]bool{}
	acyc := g.acyclic()
	for _, id := range o.seq {
		if seen[id] {
			return fmt.Sprintf("relation %d emitted twice", id)
		}
		if !g.hasHistory(id) {
			return fmt.Sprintf("relation %d emitted but has no history", id)
		}
		if acyc {
			for d := range g.descendants(id) {
				if !seen[d] {
					return fmt.Sprintf("relation %d emitted before its descendant %d", id, d)
				}
			}
		}
		seen[id] = true
	}
	if mode == 0 && o.err == 0 {
		for _, r := range reqs {
			if g.hasHistory(r) && !seen[r] {
				return fmt.Sprintf("requested relation %d has a history but was not emitted", r)
			}
		}
	}
	hasErr := false
	for _, n := range g.nodes {
		hasErr = hasErr || n.kind != 0
	}
	if mode == 0 && !(o.err == 0 || (o.err == 2 && hasErr)) {
		return fmt.Sprintf("unexpected error class %d", o.err)
	}
	if mode != 0 && o.err == 0 {
		return "Err() is nil after Close/cancel"
	}
	return ""
}

func genGraph(rng *rand.Rand) *graph {
	n := 1 + rng.Intn(12)
	g := &graph{}
	ids := rng.Perm(16)[:n]
	classes := []string{"dag", "dag", "cyclic", "selfloop", "diamond", "random", "chain"}
	g.class = classes[rng.Intn(len(classes))]
	pick := func(i int) int64 { // target of an edge from node i
		switch g.class {
		case "dag", "diamond":
			if i == 0 {
				return int64(17 + rng.Intn(3)) // no history
			}
			return int64(ids[rng.Intn(i)] + 1)
		case "chain":
			if i == 0 {
				return int64(17)
			}
			return int64(ids[i-1] + 1)
		case "selfloop":
			if rng.Intn(3) == 0 {
				return int64(ids[i] + 1)
			}
			if i == 0 {
				return int64(18)
			}
			return int64(ids[rng.Intn(i)] + 1)
		}
		return int64(rng.Intn(19) + 1) // cyclic / random: anything, including missing histories
	}
	for i := 0; i < n; i++ {
		nd := node{id: int64(ids[i] + 1)}
		nv := 1 + rng.Intn(3)
		if rng.Intn(25) == 0 {
			nv = 0 // an empty history
		}
		for v := 0; v < nv; v++ {
			var ms []member
			nm := rng.Intn(4)
			if g.class == "chain" {
				nm = 1
			}
			for j := 0; j < nm; j++ {
				if rng.Intn(5) == 0 && g.class != "chain" {
					ms = append(ms, member{rel: false, ref: int64(ids[rng.Intn(n)] + 1)}) // a way/node with a relation's number
				} else {
					ms = append(ms, member{rel: true, ref: pick(i)})
				}
			}
			nd.versions = append(nd.versions, ms)
		}
		g.nodes = append(g.nodes, nd)
	}
	if g.class == "cyclic" && n >= 2 && len(g.nodes[0].versions) > 0 && len(g.nodes[1].versions) > 0 {
		// make sure there is a cycle through the first two
		g.nodes[0].versions[0] = append(g.nodes[0].versions[0], member{true, g.nodes[1].id})
		k := len(g.nodes[1].versions) - 1
		g.nodes[1].versions[k] = append(g.nodes[1].versions[k], member{true, g.nodes[0].id})
	}
	if rng.Intn(15) == 0 {
		g.nodes[rng.Intn(n)].kind = 2
		g.nodes[0].versions = append(g.nodes[0].versions, nil)
		g.class += "+dserror"
	}
	rng.Shuffle(len(g.nodes), func(i, j int) { g.nodes[i], g.nodes[j] = g.nodes[j], g.nodes[i] })
	return g
}

func genReqs(rng *rand.Rand, g *graph) []int64 {
	var reqs []int64
	for _, n := range g.nodes {
		if rng.Intn(5) != 0 {
			reqs = append(reqs, n.id)
		}
	}
	for k := rng.Intn(3); k > 0; k-- {
		reqs = append(reqs, int64(1+rng.Intn(19))) // duplicates and ids without history
	}
	rng.Shuffle(len(reqs), func(i, j int) { reqs[i], reqs[j] = reqs[j], reqs[i] })
	return reqs
}

func mkCase(g *graph, reqs []int64, mode, k int) *wire.Case {
	var o obs
	if mode == 3 {
		o = runBlocked(g, reqs, int64(k))
	} else {
		o = run(g, reqs, mode, k)
	}
	return mkCaseObs(g, reqs, mode, k, o)
}

func mkCaseObs(g *graph, reqs []int64, mode, k int, o obs) *wire.Case {
	c := &wire.Case{Class: fmt.Sprintf("%s/mode%d", g.class, mode)}
	c.Int(1).Len(len(g.nodes))
	var dn []interface{}
	for _, n := range g.nodes {
		c.Int(n.id).Int(int64(n.kind)).Len(len(n.versions))
		var dv []interface{}
		for _, ms := range n.versions {
			c.Len(len(ms))
			var dm []interface{}
			for _, m := range ms {
				c.Bool(m.rel).Int(m.ref)
				t := "relation"
				if !m.rel {
					t = "other"
				}
				dm = append(dm, fmt.Sprintf("%s/%d", t, m.ref))
			}
			dv = append(dv, dm)
		}
		dn = append(dn, map[string]interface{}{"id": n.id, "datasource_error": n.kind != 0, "versions_members": dv})
	}
	c.Ints(reqs).Int(int64(mode)).Int(int64(k))
	c.Ints(o.seq).Int(int64(o.err)).Bool(o.terminated).Int(o.ci)
	c.Desc = map[string]interface{}{"relations": dn, "requested": reqs, "mode": []string{"run to the end", "Close after k Next", "cancel after k Next", "Close while the datasource is inside the lookup of relation k (it returns only when its context is done)", "cancel then Close after k Next"}[mode], "k": k,
		"emitted": o.seq, "err_class": o.err, "terminated": o.terminated, "completed_index": o.ci}
	c.OracleFail = oracle(g, reqs, mode, o)
	c.Trivial = len(g.nodes) < 2
	return c
}

func corpus() []struct {
	g    *graph
	reqs []int64
} {
	r := func(id int64, ms ...int64) node {
		var l []member
		for _, m := range ms {
			l = append(l, member{true, m})
		}
		return node{id: id, versions: [][]member{l}}
	}
	type q = struct {
		g    *graph
		reqs []int64
	}
	return []q{
		{&graph{class: "corpus/cycle2", nodes: []node{r(1, 2), r(2, 1)}}, []int64{1, 2}},
		{&graph{class: "corpus/selfloop", nodes: []node{r(1, 1, 2), r(2)}}, []int64{1}},
		{&graph{class: "corpus/cycle-through-root", nodes: []node{r(1, 3, 2), r(2, 1), r(3)}}, []int64{2, 1}},
		{&graph{class: "corpus/diamond", nodes: []node{r(1, 2, 3), r(2, 4), r(3, 4), r(4)}}, []int64{1, 4}},
		{&graph{class: "corpus/missing", nodes: []node{r(1, 9, 2), r(2, 9)}}, []int64{9, 1, 1}},
		// a history with zero versions (nil error): the datasource did not say NotFound, the id counts
		// as having a history and is emitted (reading stated in checks.d/C14.json)
		{&graph{class: "corpus/empty-history", nodes: []node{r(1, 2, 3), {id: 2}, r(3)}}, []int64{1, 2}},
		{&graph{class: "osmds/empty-history", nodes: []node{r(1, 2, 3), {id: 2}, r(3)}}, []int64{2, 1}},
		{&graph{class: "osmadd/interleaved-versions", nodes: []node{{id: 1, versions: [][]member{{}, {}}}, r(2, 3), r(3)}}, []int64{1, 2, 3}},
		{&graph{class: "osmadd/diamond-multi", nodes: []node{{id: 1, versions: [][]member{{{true, 2}}, {{true, 3}}, {{true, 4}}}}, {id: 2, versions: [][]member{{{true, 4}}, {}}}, r(3, 4), {id: 4, versions: [][]member{{}, {}, {}}}}}, []int64{1}},
		{&graph{class: "osmds/cycle", nodes: []node{r(1, 2), r(2, 3), r(3, 1, 9)}}, []int64{3, 1}},
		{&graph{class: "corpus/versions", nodes: []node{{id: 1, versions: [][]member{{{true, 2}}, {{true, 3}}, {{false, 2}}}}, r(2), r(3, 2)}}, []int64{1}},
	}
}

// failing: fixed graphs in which one datasource lookup fails with a real error (not NotFound), at
// the root, in the middle of a chain, at a leaf, behind a cycle, on a later requested id
func failing() []struct {
	g    *graph
	reqs []int64
} {
	r := func(id int64, ms ...int64) node {
		var l []member
		for _, m := range ms {
			l = append(l, member{true, m})
		}
		return node{id: id, versions: [][]member{l}}
	}
	bad := func(id int64) node { return node{id: id, kind: 2, versions: [][]member{{}}} }
	type q = struct {
		g    *graph
		reqs []int64
	}
	return []q{
		{&graph{class: "failing/root", nodes: []node{bad(1), r(2)}}, []int64{1, 2}},
		{&graph{class: "failing/second-request", nodes: []node{r(1, 3), bad(2), r(3)}}, []int64{1, 2, 3}},
		{&graph{class: "failing/mid-chain", nodes: []node{r(1, 2), r(2, 3), bad(3), r(4)}}, []int64{4, 1, 2}},
		{&graph{class: "failing/leaf-after-siblings", nodes: []node{r(1, 2, 3, 4), r(2), r(3), bad(4)}}, []int64{1, 4}},
		{&graph{class: "failing/behind-cycle", nodes: []node{r(1, 2), r(2, 1, 3), bad(3), r(5)}}, []int64{5, 2, 1, 5}},
		{&graph{class: "failing/last", nodes: []node{r(1), r(2), r(3, 1), bad(9)}}, []int64{1, 2, 3, 9}},
	}
}

func main() {
	a := wire.ParseArgs()
	rng := wire.Rng(a.Seed)
	wr := wire.NewWriter("C14", a.Seed, a.Tier)
	wr.Rule = "random relation graphs of 1..12 relations (DAGs, chains, diamonds, cycles, self loops, references to relations without history, several versions with different members, way/node members carrying relation numbers, occasionally a failing datasource) x request lists in random order with duplicates and unknown ids x {run to the end, Close after k Next for every k, context cancel after k Next, Close while a context-honouring datasource is inside a lookup}; pairs of orderings alive at once (one suspended inside a lookup while the other runs); acyclic chains and DAGs nested 110-180 levels deep with the deep ids requested too; relations with 12..40 (thorough: ..257) distinct relation members spread over versions, parent requested first; members of every osm.Type incl. the empty one; one run of 66000 relations (thorough: up to 270000) with shared children and ids requested twice, compared with its closed form in the harness; the goroutine must be gone within a deadline. distinct = distinct token streams; one-relation graphs are trivial."
	ngraphs := 170
	if a.Tier == "thorough" {
		ngraphs = 4000
	}
	ngraphs = int(float64(ngraphs) * a.Scale)
	var full []int
	for _, q := range corpus() {
		full = append(full, wr.Add(mkCase(q.g, q.reqs, 0, 0)))
		wr.Add(mkCase(q.g, q.reqs, 1, 1))
		wr.Add(mkCase(q.g, q.reqs, 2, 0))
	}
	// DIRECTED (independent of the random stream): a datasource lookup fails with a real error and
	// the consumer stops -- Close without a further Next, cancel only, Close after cancel -- after
	// every number k of Next calls from 0 to the number of requested ids, under the watchdog
	for _, q := range failing() {
		for _, mode := range []int{1, 2, 4} {
			for k := 0; k <= len(q.reqs) && hung < 3; k++ {
				wr.Add(mkCase(q.g, q.reqs, mode, k))
			}
		}
		full = append(full, wr.Add(mkCase(q.g, q.reqs, 0, 0)))
	}
	for i := 0; i < ngraphs && hung < 3; i++ {
		g := genGraph(rng)
		if i%4 == 1 {
			// through osm.HistoryDatasource built from an interleaved list: it has neither failing
			// lookups nor empty histories, those nodes are dropped (their ids are then unknown)
			var keep []node
			for _, n := range g.nodes {
				if n.kind == 0 && len(n.versions) > 0 {
					keep = append(keep, n)
				}
			}
			if len(keep) > 0 {
				g = &graph{nodes: keep, class: "osmadd/" + strings.TrimSuffix(g.class, "+dserror")}
			}
		}
		reqs := genReqs(rng, g)
		c := mkCase(g, reqs, 0, 0)
		full = append(full, wr.Add(c))
		wr.Count(fmt.Sprintf("relations:%d", len(g.nodes)))
		if g.acyclic() {
			wr.Count("acyclic")
		} else {
			wr.Count("cyclic")
		}
		stops := []int{0, 1, 2, 3, 5, 8, 13}
		if a.Tier == "thorough" {
			stops = []int{0, 1, 2, 3, 4, 5, 6, 7, 8, 9, 10, 11, 12, 13}
		}
		for _, k := range stops {
			if k > len(g.nodes)+1 || hung >= 3 {
				break
			}
			if rng.Intn(2) == 0 || a.Tier == "thorough" {
				wr.Add(mkCase(g, reqs, 1, k))
			}
			if rng.Intn(2) == 0 || a.Tier == "thorough" {
				wr.Add(mkCase(g, reqs, 2, k))
			}
		}
	}
	// Close during a slow, context-honouring lookup
	for i := 0; i < ngraphs/3 && hung < 3; i++ {
		g := genGraph(rng)
		reqs := genReqs(rng, g)
		var cand []int64
		for _, n := range g.nodes {
			if n.kind == 0 {
				cand = append(cand, n.id)
			}
		}
		if len(cand) == 0 {
			continue
		}
		g.class += "/close-in-lookup"
		wr.Add(mkCase(g, reqs, 3, int(cand[rng.Intn(len(cand))])))
	}
	// two orderings alive at once
	for i := 0; i < ngraphs/3 && hung < 3; i++ {
		gA, gB := genGraph(rng), genGraph(rng)
		if i%4 == 0 {
			gA = &graph{class: "cycle2", nodes: []node{{id: 1, versions: [][]member{{{true, 2}}}}, {id: 2, versions: [][]member{{{true, 1}}}}}}
		}
		reqsA, reqsB := genReqs(rng, gA), genReqs(rng, gB)
		if i%4 == 0 {
			reqsA = []int64{1, 2}
		}
		var cand []int64
		for _, n := range gA.nodes {
			if n.kind == 0 {
				cand = append(cand, n.id)
			}
		}
		if len(cand) == 0 || len(reqsA) == 0 {
			continue
		}
		hold := cand[rng.Intn(len(cand))]
		if i%4 == 0 {
			hold = 2
		}
		oa, ob := runPair(gA, reqsA, hold, gB, reqsB)
		gA.class += "/pair-suspended"
		gB.class += "/pair-other"
		wr.Add(mkCaseObs(gA, reqsA, 0, 0, oa))
		wr.Add(mkCaseObs(gB, reqsB, 0, 0, ob))
	}
	// deep nesting
	ndeep := 3
	if a.Tier == "thorough" {
		ndeep = 40
	}
	for i := 0; i < ndeep && hung < 3; i++ {
		g, reqs := genDeep(rng)
		wr.Add(mkCase(g, reqs, 0, 0))
		wr.Count("deep")
	}
	// wide fan-out around the sizes where an implementation may change strategy
	wides := []int{12, 13, 16, 17, 32, 33, 34, 40}
	if a.Tier == "thorough" {
		wides = []int{7, 8, 9, 12, 13, 15, 16, 17, 31, 32, 33, 34, 40, 63, 64, 65, 100, 128, 129, 255, 256, 257}
	}
	for _, k := range wides {
		if hung >= 3 {
			break
		}
		g, reqs := genWide(rng, k)
		wr.Add(mkCase(g, reqs, 0, 0))
		wr.Count("wide")
	}
	// a run larger than any size threshold, with requests repeated at the end
	bigs := []int64{66000}
	if a.Tier == "thorough" {
		bigs = []int64{2100, 4200, 8200, 33000, 66000, 132000, 270000}
	}
	var bigIdx []int
	for _, n := range bigs {
		if hung < 3 {
			bigIdx = append(bigIdx, wr.Add(bigCase(n, 1000, rng)))
		}
	}
	// canaries
	plant := func(i int, f func(c *wire.Case)) {
		c := wr.Cases[i].Clone()
		c.Canary, c.OracleFail, c.Class = 1, "", "canary"
		f(c)
		wr.Add(c)
	}
	// a full-run case with at least two emitted ids: swap the first two
	for _, i := range full {
		c := wr.Cases[i]
		d := c.Desc.(map[string]interface{})
		if seq := d["emitted"].([]int64); len(seq) >= 2 && c.OracleFail == "" {
			plant(i, func(c *wire.Case) {
				p := len(c.Toks) - 3 - len(seq)
				c.Toks[p], c.Toks[p+1] = c.Toks[p+1], c.Toks[p]
			})
			plant(i, func(c *wire.Case) { c.Toks[len(c.Toks)-2] = 0 })  // "did not terminate"
			plant(i, func(c *wire.Case) { c.Toks[len(c.Toks)-3] = 2 })  // error class
			plant(i, func(c *wire.Case) { c.Toks[len(c.Toks)-1] += 2 }) // CompletedIndex + 1
			break
		}
	}
	for _, i := range bigIdx {
		if wr.Cases[i].OracleFail == "" {
			plant(i, func(c *wire.Case) { c.Toks[4] += 2 }) // one relation more than requested
			break
		}
	}
	if err := wr.Flush(a.Out, "Verif.C14.Check", 400); err != nil {
		fmt.Fprintln(os.Stderr, err)
		os.Exit(1)
	}
	nf := 0
	for _, c := range wr.Cases {
		if c.OracleFail != "" {
			nf++
		}
	}
	fmt.Printf("c14: %d cases, %d go-oracle failures\n", len(wr.Cases), nf)
}
