// c13: correspondence harness for annotate.Change (property C13).
//
// Every case builds an osmChange and element histories, runs annotate.Change against an
// in-memory osm.HistoryDatasource (wrapped only to inject non-not-found errors), and records
// the input and the returned diff / error as a token stream for C13/Check.v.
package main

import (
	"context"
	"errors"
	"fmt"
	"math/rand"
	"os"
	"reflect"
	"sort"
	"time"

	"github.com/paulmach/osm"
	"github.com/paulmach/osm/annotate"
	"verif/harness/wire"
)

// el is the harness's view of an element: kind 0 node, 1 way, 2 relation; Pay travels in ChangesetID.
type el struct {
	Kind    int
	ID      int64
	Version int
	Visible bool
	Pay     int64
}

// tsOf gives objects (identified by their unique payload) a Timestamp in Unix seconds; absent =
// the zero time.Time.  Not sent to Coq: the predecessor is chosen by version number alone.
var tsOf = map[int64]int64{}

var kindName = []string{"node", "way", "relation"}

func (e el) desc() map[string]interface{} {
	return map[string]interface{}{"kind": kindName[e.Kind], "id": e.ID, "version": e.Version, "visible": e.Visible, "payload": e.Pay, "timestamp_unix": tsOf[e.Pay]}
}

type dsEntry struct {
	Kind   int
	ID     int64
	Status int // 0 history, 1 not found (nil slice in the map), 2 other error
	Code   int64
	Hist   []el
	// DelayMS is the latency of this lookup in the in-memory data source (not sent to Coq:
	// the property does not depend on it).
	DelayMS int
}

type aliasSpec struct {
	Kind int
	ID   int64
	K    int
}

type sectionT [3][]el

type caseIn struct {
	Ign int // 0 no option, 1 IgnoreMissingChildren(false), 2 IgnoreMissingChildren(true)
	// NFT: the data source's NotFound also answers true for *annotate.NoVisibleChildError
	// (the interface leaves this open; the outcome must not depend on it)
	NFT bool
	// OptPat: which other options (IgnoreInconsistency, Threshold, ChildFilter, an overridden earlier
	// IgnoreMissingChildren) surround the IgnoreMissingChildren option, and in which order (optPatterns);
	// 0 = unset: mkCase assigns the patterns in turn so that every family sees every one.  None of them
	// may change the outcome of Change: only the LAST IgnoreMissingChildren counts.
	OptPat int
	// Alias: the modify section's list of this kind IS the first K entries of the history slice
	// of (Kind, ID) that the data source hands out (same objects, same backing array)
	Alias *aliasSpec
	// NilDS: the data source passed to Change is a nil interface (only legal for create-only changes)
	NilDS    bool
	DS       []dsEntry
	Sections [3]*sectionT // create, modify, delete; nil = section absent
}

// optPatterns: sequences of the real option constructors. M is the IgnoreMissingChildren option the
// case asks for (absent when Ign == 0), m an EARLIER IgnoreMissingChildren with the opposite value
// (overridden by M; for Ign == 0: true then false), I1/I0 IgnoreInconsistency(true/false),
// T Threshold(30m), F ChildFilter(everything).
var optPatterns = [][]string{
	{"M"}, {"I1", "M"}, {"I0", "M"}, {"M", "I1"}, {"M", "I0"}, {"T", "M"}, {"M", "T"}, {"F", "M"}, {"M", "F"},
	{"I1", "T", "F", "M"}, {"M", "F", "T", "I0"}, {"M", "I1", "T"}, {"m", "M"}, {"I0", "M", "I1"}, {"I1", "M", "I0"},
	{"m", "I1", "M", "I0"}, {"I1", "I0", "M"}, {"M", "I0", "I1"},
}
var optRng = rand.New(rand.NewSource(20240613))

func buildOpts(ign, pat int) (opts []annotate.Option, desc []string) {
	if pat <= 0 || pat > len(optPatterns) {
		pat = 1
	}
	add := func(o annotate.Option, d string) { opts = append(opts, o); desc = append(desc, d) }
	missing := func(yes bool) {
		add(annotate.IgnoreMissingChildren(yes), fmt.Sprintf("IgnoreMissingChildren(%v)", yes))
	}
	for _, tok := range optPatterns[pat-1] {
		switch tok {
		case "M":
			if ign > 0 {
				missing(ign == 2)
			}
		case "m":
			if ign > 0 {
				missing(ign != 2)
			} else {
				missing(true)
				missing(false)
			}
		case "I1", "I0":
			add(annotate.IgnoreInconsistency(tok == "I1"), fmt.Sprintf("IgnoreInconsistency(%v)", tok == "I1"))
		case "T":
			add(annotate.Threshold(30*time.Minute), "Threshold(30m)")
		case "F":
			add(annotate.ChildFilter(func(osm.FeatureID) bool { return true }), "ChildFilter(all)")
		}
	}
	return
}

// injected error
type otherErr struct{ code int64 }

func (e *otherErr) Error() string { return fmt.Sprintf("datasource failure %d", e.code) }

type ds struct {
	*osm.HistoryDatasource
	nft   bool
	errs  map[[2]int64]error
	delay map[[2]int64]time.Duration
}

func (d *ds) NotFound(err error) bool {
	if d.nft {
		if _, ok := err.(*annotate.NoVisibleChildError); ok {
			return true
		}
	}
	return d.HistoryDatasource.NotFound(err)
}

func (d *ds) wait(k, id int64) {
	if t := d.delay[[2]int64{k, id}]; t > 0 {
		time.Sleep(t)
	}
}

func (d *ds) NodeHistory(ctx context.Context, id osm.NodeID) (osm.Nodes, error) {
	d.wait(0, int64(id))
	if e := d.errs[[2]int64{0, int64(id)}]; e != nil {
		return nil, e
	}
	return d.HistoryDatasource.NodeHistory(ctx, id)
}
func (d *ds) WayHistory(ctx context.Context, id osm.WayID) (osm.Ways, error) {
	d.wait(1, int64(id))
	if e := d.errs[[2]int64{1, int64(id)}]; e != nil {
		return nil, e
	}
	return d.HistoryDatasource.WayHistory(ctx, id)
}
func (d *ds) RelationHistory(ctx context.Context, id osm.RelationID) (osm.Relations, error) {
	d.wait(2, int64(id))
	if e := d.errs[[2]int64{2, int64(id)}]; e != nil {
		return nil, e
	}
	return d.HistoryDatasource.RelationHistory(ctx, id)
}

func stamp(e el) time.Time {
	if tsOf[e.Pay] == 0 {
		return time.Time{}
	}
	return time.Unix(tsOf[e.Pay], 0).UTC()
}
func mkNode(e el) *osm.Node {
	return &osm.Node{ID: osm.NodeID(e.ID), Version: e.Version, Visible: e.Visible, ChangesetID: osm.ChangesetID(e.Pay), Timestamp: stamp(e)}
}
func mkWay(e el) *osm.Way {
	return &osm.Way{ID: osm.WayID(e.ID), Version: e.Version, Visible: e.Visible, ChangesetID: osm.ChangesetID(e.Pay), Timestamp: stamp(e)}
}
func mkRel(e el) *osm.Relation {
	return &osm.Relation{ID: osm.RelationID(e.ID), Version: e.Version, Visible: e.Visible, ChangesetID: osm.ChangesetID(e.Pay), Timestamp: stamp(e)}
}

func mkOSM(s *sectionT) *osm.OSM {
	if s == nil {
		return nil
	}
	o := &osm.OSM{}
	for _, e := range s[0] {
		o.Nodes = append(o.Nodes, mkNode(e))
	}
	for _, e := range s[1] {
		o.Ways = append(o.Ways, mkWay(e))
	}
	for _, e := range s[2] {
		o.Relations = append(o.Relations, mkRel(e))
	}
	return o
}

func elemsOf(o *osm.OSM) []el {
	if o == nil {
		return nil
	}
	var r []el
	for _, n := range o.Nodes {
		r = append(r, el{0, int64(n.ID), n.Version, n.Visible, int64(n.ChangesetID)})
	}
	for _, w := range o.Ways {
		r = append(r, el{1, int64(w.ID), w.Version, w.Visible, int64(w.ChangesetID)})
	}
	for _, x := range o.Relations {
		r = append(r, el{2, int64(x.ID), x.Version, x.Visible, int64(x.ChangesetID)})
	}
	return r
}

type obsAction struct {
	Type          int
	OSM, Old, New []el
}

type obsT struct {
	ErrKind int // 0 ok, 1 NoVisibleChildError, 2 injected error returned unchanged, 3 anything else
	EK      int
	EID     int64
	ErrText string
	Actions []obsAction
}

func run(in *caseIn) obsT {
	h := &osm.HistoryDatasource{}
	d := &ds{HistoryDatasource: h, nft: in.NFT, errs: map[[2]int64]error{}, delay: map[[2]int64]time.Duration{}}
	for _, e := range in.DS {
		if e.DelayMS > 0 {
			d.delay[[2]int64{int64(e.Kind), e.ID}] = time.Duration(e.DelayMS) * time.Millisecond
		}
		switch e.Status {
		case 2:
			d.errs[[2]int64{int64(e.Kind), e.ID}] = &otherErr{e.Code}
		case 1:
			switch e.Kind { // a key that is present with a nil history
			case 0:
				if h.Nodes == nil {
					h.Nodes = map[osm.NodeID]osm.Nodes{}
				}
				h.Nodes[osm.NodeID(e.ID)] = nil
			case 1:
				if h.Ways == nil {
					h.Ways = map[osm.WayID]osm.Ways{}
				}
				h.Ways[osm.WayID(e.ID)] = nil
			case 2:
				if h.Relations == nil {
					h.Relations = map[osm.RelationID]osm.Relations{}
				}
				h.Relations[osm.RelationID(e.ID)] = nil
			}
		case 0:
			switch e.Kind {
			case 0:
				if h.Nodes == nil {
					h.Nodes = map[osm.NodeID]osm.Nodes{}
				}
				l := osm.Nodes{}
				for _, x := range e.Hist {
					l = append(l, mkNode(x))
				}
				h.Nodes[osm.NodeID(e.ID)] = l
			case 1:
				if h.Ways == nil {
					h.Ways = map[osm.WayID]osm.Ways{}
				}
				l := osm.Ways{}
				for _, x := range e.Hist {
					l = append(l, mkWay(x))
				}
				h.Ways[osm.WayID(e.ID)] = l
			case 2:
				if h.Relations == nil {
					h.Relations = map[osm.RelationID]osm.Relations{}
				}
				l := osm.Relations{}
				for _, x := range e.Hist {
					l = append(l, mkRel(x))
				}
				h.Relations[osm.RelationID(e.ID)] = l
			}
		}
	}
	change := &osm.Change{Create: mkOSM(in.Sections[0]), Modify: mkOSM(in.Sections[1]), Delete: mkOSM(in.Sections[2])}
	if a := in.Alias; a != nil {
		if change.Modify == nil {
			change.Modify = &osm.OSM{}
		}
		switch a.Kind {
		case 0:
			change.Modify.Nodes = h.Nodes[osm.NodeID(a.ID)][:a.K]
		case 1:
			change.Modify.Ways = h.Ways[osm.WayID(a.ID)][:a.K]
		case 2:
			change.Modify.Relations = h.Relations[osm.RelationID(a.ID)][:a.K]
		}
	}
	opts, _ := buildOpts(in.Ign, in.OptPat)
	var src osm.HistoryDatasourcer = d
	if in.NilDS {
		src = nil
	}
	diff, err := func() (d *osm.Diff, e error) {
		defer func() {
			if r := recover(); r != nil {
				d, e = nil, fmt.Errorf("panic: %v", r)
			}
		}()
		return annotate.Change(context.Background(), change, src, opts...)
	}()
	var o obsT
	if err != nil {
		// a non-nil error interface may hold a nil pointer (a helper declared with the concrete error
		// type): its Error method may panic, and it is an error all the same
		typedNil := false
		if rv := reflect.ValueOf(err); rv.Kind() == reflect.Ptr && rv.IsNil() {
			typedNil = true
			o.ErrText = fmt.Sprintf("non-nil error holding a nil %T", err)
		} else {
			o.ErrText = func() (t string) {
				defer func() {
					if r := recover(); r != nil {
						t = fmt.Sprintf("error of type %T whose Error method panics: %v", err, r)
					}
				}()
				return err.Error()
			}()
		}
		var nv *annotate.NoVisibleChildError
		var oe *otherErr
		switch {
		case typedNil:
			o.ErrKind = 3
		case diff != nil:
			o.ErrKind = 3
			o.ErrText = "error together with a non-nil diff: " + o.ErrText
		case errors.As(err, &nv) && err == error(nv):
			o.ErrKind = 1
			o.EID = nv.ID.Ref()
			switch nv.ID.Type() {
			case osm.TypeNode:
				o.EK = 0
			case osm.TypeWay:
				o.EK = 1
			case osm.TypeRelation:
				o.EK = 2
			default:
				o.EK = 9
			}
		case errors.As(err, &oe) && err == error(oe):
			o.ErrKind = 2
			o.EID = oe.code
		default:
			o.ErrKind = 3
		}
		return o
	}
	if diff == nil {
		o.ErrKind = 3
		o.ErrText = "nil diff without error"
		return o
	}
	for _, a := range diff.Actions {
		t := 9
		switch a.Type {
		case osm.ActionCreate:
			t = 0
		case osm.ActionModify:
			t = 1
		case osm.ActionDelete:
			t = 2
		}
		o.Actions = append(o.Actions, obsAction{t, elemsOf(a.OSM), elemsOf(a.Old), elemsOf(a.New)})
	}
	return o
}

func encEl4(c *wire.Case, e el) { c.Int(e.ID).Int(int64(e.Version)).Bool(e.Visible).Int(e.Pay) }
func encEl5(c *wire.Case, e el) { c.Int(int64(e.Kind)); encEl4(c, e) }
func encEls5(c *wire.Case, l []el) {
	c.Len(len(l))
	for _, e := range l {
		encEl5(c, e)
	}
}

func descEls(l []el) []interface{} {
	r := []interface{}{}
	for _, e := range l {
		r = append(r, e.desc())
	}
	return r
}

func mkCase(in *caseIn, mut func(*obsT)) *wire.Case {
	c := &wire.Case{Class: "change"}
	if in.OptPat == 0 {
		in.OptPat = 1 + optRng.Intn(len(optPatterns))
	}
	c.Int(1).Bool(in.Ign == 2).Bool(in.NFT)
	c.Len(len(in.DS))
	var dds []interface{}
	for _, e := range in.DS {
		c.Int(int64(e.Kind)).Int(e.ID).Int(int64(e.Status)).Int(e.Code).Len(len(e.Hist))
		var vs []interface{}
		for _, x := range e.Hist {
			c.Int(int64(x.Version)).Bool(x.Visible).Int(x.Pay)
			vs = append(vs, map[string]interface{}{"version": x.Version, "visible": x.Visible, "payload": x.Pay})
		}
		dds = append(dds, map[string]interface{}{"kind": kindName[e.Kind], "id": e.ID,
			"status": []string{"history", "not-found", "other-error"}[e.Status], "code": e.Code, "history": vs, "lookup_delay_ms": e.DelayMS})
	}
	dsec := map[string]interface{}{}
	for si, s := range in.Sections {
		name := []string{"create", "modify", "delete"}[si]
		var all []el
		for k := 0; k < 3; k++ {
			var l []el
			if s != nil {
				l = s[k]
			}
			c.Len(len(l))
			for _, e := range l {
				encEl4(c, e)
			}
			all = append(all, l...)
		}
		if s == nil {
			dsec[name] = nil
		} else {
			dsec[name] = descEls(all)
		}
	}
	o := run(in)
	if mut != nil {
		mut(&o)
	}
	c.Int(int64(o.ErrKind)).Int(int64(o.EK)).Int(o.EID)
	c.Len(len(o.Actions))
	var dacts []interface{}
	for _, a := range o.Actions {
		c.Int(int64(a.Type))
		encEls5(c, a.OSM)
		encEls5(c, a.Old)
		encEls5(c, a.New)
		tn := "?"
		if a.Type >= 0 && a.Type < 3 {
			tn = []string{"create", "modify", "delete"}[a.Type]
		}
		dacts = append(dacts, map[string]interface{}{"type": tn, "osm": descEls(a.OSM), "old": descEls(a.Old), "new": descEls(a.New)})
	}
	obs := map[string]interface{}{"actions": dacts}
	if o.ErrKind != 0 {
		obs = map[string]interface{}{"error_kind": []string{"", "NoVisibleChildError", "datasource error returned unchanged", "unexpected"}[o.ErrKind],
			"error_elem_kind": o.EK, "error_id_or_code": o.EID, "error": o.ErrText}
	}
	_, optDesc := buildOpts(in.Ign, in.OptPat)
	c.Desc = map[string]interface{}{"op": "annotate.Change", "option": []string{"none", "IgnoreMissingChildren(false)", "IgnoreMissingChildren(true)"}[in.Ign],
		"options_in_order": optDesc,
		"datasource":       dds, "notfound_accepts_typed_error": in.NFT, "modify_list_aliases_history_prefix": in.Alias, "nil_datasource": in.NilDS, "change": dsec, "observed": obs}
	return c
}

// ---------- generator ----------

type gen struct {
	rng *rand.Rand
	w   *wire.Writer
	pay int64
}

func (g *gen) nextPay() int64 { g.pay++; return g.pay }

// history for an element that the change carries at version v
func (g *gen) history(kind int, id int64, v int) (e dsEntry, class string) {
	e = dsEntry{Kind: kind, ID: id}
	x := g.rng.Intn(100)
	switch {
	case x < 8:
		e.Status = 1
		return e, "hist:nil-slice"
	case x < 12:
		e.Status = 2
		e.Code = int64(1 + g.rng.Intn(9))
		return e, "hist:other-error"
	case x < 17:
		return e, "hist:empty"
	}
	n := 1 + g.rng.Intn(6)
	var vs []int
	mode := g.rng.Intn(10)
	for i := 0; i < n; i++ {
		var hv int
		switch {
		case mode == 0: // nothing below v
			hv = v + g.rng.Intn(3)
		case mode == 1: // dense 1..v+1
			hv = 1 + g.rng.Intn(v+2)
		default: // gaps, later versions, duplicates of the new version, version 0
			hv = g.rng.Intn(v + 4)
			if g.rng.Intn(5) == 0 {
				hv = v
			}
		}
		vs = append(vs, hv)
	}
	switch g.rng.Intn(4) {
	case 0: // ascending as a real history is
		for i := range vs {
			for j := i + 1; j < len(vs); j++ {
				if vs[j] < vs[i] {
					vs[i], vs[j] = vs[j], vs[i]
				}
			}
		}
		class = "hist:ascending"
	case 1: // descending
		for i := range vs {
			for j := i + 1; j < len(vs); j++ {
				if vs[j] > vs[i] {
					vs[i], vs[j] = vs[j], vs[i]
				}
			}
		}
		class = "hist:descending"
	default:
		class = "hist:unsorted"
	}
	for _, hv := range vs {
		e.Hist = append(e.Hist, el{kind, id, hv, g.rng.Intn(4) != 0, g.nextPay()})
	}
	return e, class
}

func (g *gen) genCase(maxPer int) *caseIn {
	in := &caseIn{Ign: g.rng.Intn(3), NFT: g.rng.Intn(3) == 0}
	used := map[[2]int64]bool{}
	for si := 0; si < 3; si++ {
		if g.rng.Intn(8) == 0 {
			continue // section absent (nil)
		}
		s := &sectionT{}
		for k := 0; k < 3; k++ {
			n := g.rng.Intn(maxPer + 1)
			if g.rng.Intn(3) == 0 {
				n = 0
			}
			for i := 0; i < n; i++ {
				id := int64(1 + g.rng.Intn(40))
				for used[[2]int64{int64(k), id}] {
					id = int64(1 + g.rng.Intn(400))
				}
				used[[2]int64{int64(k), id}] = true
				v := 1 + g.rng.Intn(6)
				e := el{k, id, v, g.rng.Intn(2) == 0, g.nextPay()}
				s[k] = append(s[k], e)
				// histories: created elements usually have none; modified/deleted usually do
				p := 85
				if si == 0 {
					p = 15
				}
				if g.rng.Intn(100) < p {
					h, class := g.history(k, id, v)
					in.DS = append(in.DS, h)
					g.w.Count(class)
				} else {
					g.w.Count("hist:absent")
				}
			}
		}
		in.Sections[si] = s
	}
	// errors are rare enough that most cases produce a diff: without ignore-missing, repair most
	// missing histories
	if in.Ign != 2 && g.rng.Intn(4) != 0 {
		g.repair(in)
	}
	g.rng.Shuffle(len(in.DS), func(i, j int) { in.DS[i], in.DS[j] = in.DS[j], in.DS[i] })
	return in
}

// repair gives every modified/deleted element a predecessor (so that the change succeeds)
func (g *gen) repair(in *caseIn) {
	for si := 1; si < 3; si++ {
		s := in.Sections[si]
		if s == nil {
			continue
		}
		for k := 0; k < 3; k++ {
			for _, e := range s[k] {
				found := false
				for i := range in.DS {
					d := &in.DS[i]
					if d.Kind == k && d.ID == e.ID {
						found = true
						d.Status, d.Code = 0, 0
						d.Hist = append(d.Hist, el{k, e.ID, g.rng.Intn(e.Version), true, g.nextPay()})
					}
				}
				if !found {
					in.DS = append(in.DS, dsEntry{Kind: k, ID: e.ID, Hist: []el{{k, e.ID, g.rng.Intn(e.Version), true, g.nextPay()}}})
				}
			}
		}
	}
}

// genLarge: one section holds 16-40 elements of one kind (the size at which an implementation
// might batch or parallelise look-ups), and the data source answers with uneven latency: the
// first elements of the section are the slowest.  Order of actions must still be input order.
func (g *gen) genLarge() *caseIn {
	in := &caseIn{Ign: g.rng.Intn(3)}
	k := g.rng.Intn(3)
	if g.rng.Intn(2) == 0 {
		k = 0
	}
	si := 1 + g.rng.Intn(2)
	n := 16 + g.rng.Intn(25)
	s := &sectionT{}
	perm := g.rng.Perm(400)
	slow := 2 + g.rng.Intn(3)
	for i := 0; i < n; i++ {
		id := int64(1 + perm[i])
		v := 2 + g.rng.Intn(4)
		s[k] = append(s[k], el{k, id, v, g.rng.Intn(2) == 0, g.nextPay()})
		h := dsEntry{Kind: k, ID: id}
		for _, hv := range []int{v - 1 - g.rng.Intn(2), v + g.rng.Intn(2)} {
			if hv >= 0 && g.rng.Intn(5) != 0 {
				h.Hist = append(h.Hist, el{k, id, hv, true, g.nextPay()})
			}
		}
		if len(h.Hist) == 0 || in.Ign != 2 {
			h.Hist = append(h.Hist, el{k, id, v - 1, true, g.nextPay()})
		}
		if i < slow {
			h.DelayMS = slow - i // earlier elements answer later
		}
		in.DS = append(in.DS, h)
	}
	in.Sections[si] = s
	// a few elements of the other kinds / sections around it
	for x := 0; x < g.rng.Intn(3); x++ {
		k2, si2 := g.rng.Intn(3), g.rng.Intn(3)
		if in.Sections[si2] == nil {
			in.Sections[si2] = &sectionT{}
		}
		id := int64(1000 + g.rng.Intn(1000)*3 + k2)
		v := 1 + g.rng.Intn(3)
		in.Sections[si2][k2] = append(in.Sections[si2][k2], el{k2, id, v, true, g.nextPay()})
		in.DS = append(in.DS, dsEntry{Kind: k2, ID: id, Hist: []el{{k2, id, v - 1, true, g.nextPay()}}})
	}
	return in
}

// genRepeated: the same element occurs several times in one change (modified twice, modified and
// then deleted, ...) with increasing versions; each occurrence has its own predecessor.
func (g *gen) genRepeated() *caseIn {
	in := &caseIn{Ign: g.rng.Intn(3)}
	for si := 1; si < 3; si++ {
		in.Sections[si] = &sectionT{}
	}
	nids := 1 + g.rng.Intn(3)
	for x := 0; x < nids; x++ {
		k := g.rng.Intn(3)
		id := int64(10 + x)
		occ := 2 + g.rng.Intn(3)
		v := 1 + g.rng.Intn(2)
		var vs []int
		for i := 0; i < occ; i++ {
			vs = append(vs, v)
			v += 1 + g.rng.Intn(3)
		}
		// sections: non-decreasing (create? modify ... then delete), several shapes
		cut := g.rng.Intn(occ + 1) // occurrences [0,cut) in modify, the rest in delete
		createFirst := g.rng.Intn(3) == 0
		for i, ov := range vs {
			si := 1
			if i >= cut {
				si = 2
			}
			if i == 0 && createFirst {
				si = 0
				if in.Sections[0] == nil {
					in.Sections[0] = &sectionT{}
				}
			}
			in.Sections[si][k] = append(in.Sections[si][k], el{k, id, ov, g.rng.Intn(2) == 0, g.nextPay()})
		}
		// history: most versions up to the last one, including the uploaded ones themselves
		h := dsEntry{Kind: k, ID: id}
		for hv := 0; hv <= v; hv++ {
			if g.rng.Intn(4) != 0 {
				h.Hist = append(h.Hist, el{k, id, hv, g.rng.Intn(4) != 0, g.nextPay()})
			}
		}
		if in.Ign != 2 && (len(h.Hist) == 0 || h.Hist[0].Version >= vs[0]) {
			h.Hist = append([]el{{k, id, vs[0] - 1, true, g.nextPay()}}, h.Hist...)
		}
		if g.rng.Intn(3) == 0 {
			g.rng.Shuffle(len(h.Hist), func(i, j int) { h.Hist[i], h.Hist[j] = h.Hist[j], h.Hist[i] })
		}
		if len(h.Hist) == 0 {
			h.Hist = []el{}
		}
		switch g.rng.Intn(6) {
		case 0: // the data source knows nothing about the element: no entry at all
			g.w.Count("repeated:no-history")
		case 1:
			in.DS = append(in.DS, dsEntry{Kind: k, ID: id, Status: 1})
			g.w.Count("repeated:not-found")
		default:
			in.DS = append(in.DS, h)
		}
	}
	// unrelated single elements mixed in
	for x := 0; x < g.rng.Intn(3); x++ {
		k2, si2 := g.rng.Intn(3), 1+g.rng.Intn(2)
		id := int64(500 + x)
		v := 1 + g.rng.Intn(3)
		in.Sections[si2][k2] = append(in.Sections[si2][k2], el{k2, id, v, true, g.nextPay()})
		in.DS = append(in.DS, dsEntry{Kind: k2, ID: id, Hist: []el{{k2, id, v - 1, true, g.nextPay()}}})
	}
	for si := 1; si < 3; si++ { // interleave the occurrences of different ids, keeping each id's order
		for k := 0; k < 3; k++ {
			in.Sections[si][k] = interleaveByID(g.rng, in.Sections[si][k])
		}
	}
	return in
}

// genExtreme: legal but unusual identifiers — negative ids (editor placeholders), 0, ids at and
// beyond 2^40, MaxInt64; versions at and beyond 2^16 and up to 2^31-1.  Every modified or deleted
// element has a history with a predecessor (and no data source error), so the unchanged code
// always produces a diff here: nothing in these cases depends on how an id is packed into an
// error value.
var extremeIDs = []int64{-1 << 62, -1099511627776, -65536, -5, -1, 0, 1, 7, 65535, 65536, 1 << 40, 1<<40 + 3, 1 << 44, 1<<62 + 1, 1<<63 - 1}
var extremeVersions = []int{1, 2, 255, 256, 65535, 65536, 65537, 65538, 131073, 1<<31 - 1}

func (g *gen) genExtreme() *caseIn {
	in := &caseIn{Ign: g.rng.Intn(3), NFT: g.rng.Intn(3) == 0}
	used := map[[2]int64]bool{}
	n := 1 + g.rng.Intn(4)
	for x := 0; x < n; x++ {
		k := g.rng.Intn(3)
		id := extremeIDs[g.rng.Intn(len(extremeIDs))]
		if used[[2]int64{int64(k), id}] {
			continue
		}
		used[[2]int64{int64(k), id}] = true
		v := extremeVersions[g.rng.Intn(len(extremeVersions))]
		if g.rng.Intn(3) == 0 {
			v = 1 + g.rng.Intn(5)
		}
		si := g.rng.Intn(3)
		if in.Sections[si] == nil {
			in.Sections[si] = &sectionT{}
		}
		in.Sections[si][k] = append(in.Sections[si][k], el{k, id, v, g.rng.Intn(2) == 0, g.nextPay()})
		if si == 0 && g.rng.Intn(2) == 0 {
			continue // created elements need no history
		}
		h := dsEntry{Kind: k, ID: id}
		cands := []int{0, 1, v - 2, v - 1, 65535, 65536, 65537, v, v + 1}
		for _, hv := range cands {
			if hv >= 0 && hv != v-1 && g.rng.Intn(2) == 0 {
				h.Hist = append(h.Hist, el{k, id, hv, g.rng.Intn(4) != 0, g.nextPay()})
			}
		}
		h.Hist = append(h.Hist, el{k, id, v - 1, true, g.nextPay()}) // the predecessor (v >= 1)
		g.rng.Shuffle(len(h.Hist), func(i, j int) { h.Hist[i], h.Hist[j] = h.Hist[j], h.Hist[i] })
		in.DS = append(in.DS, h)
	}
	return in
}

// stampAll gives the elements of a case and their history entries timestamps from a pool of
// three values one second apart, so that a predecessor with the same or a later timestamp than
// the element is common (bots upload two versions within a second; clocks step).
func (g *gen) stampAll(in *caseIn) {
	if g.rng.Intn(2) == 0 {
		return
	}
	t0 := int64(1500000000 + g.rng.Intn(1000))
	pick := func() int64 {
		if g.rng.Intn(6) == 0 {
			return 0
		}
		return t0 + int64(g.rng.Intn(3))
	}
	for _, s := range in.Sections {
		if s == nil {
			continue
		}
		for k := range s {
			for i := range s[k] {
				tsOf[s[k][i].Pay] = pick()
			}
		}
	}
	for i := range in.DS {
		for j := range in.DS[i].Hist {
			tsOf[in.DS[i].Hist[j].Pay] = pick()
		}
	}
	g.w.Count("timestamps:set")
}

// genAliased: the list of modified elements of one kind is a prefix of the very slice the data
// source returns as that element's history (a history replayed against itself, newest first or
// unsorted).  All objects are visible and the section is `modify`, so that the visibility stamping
// of the unchanged code writes nothing new into the shared objects.
func (g *gen) genAliased() *caseIn {
	in := &caseIn{Ign: g.rng.Intn(3), NFT: g.rng.Intn(3) == 0}
	k := g.rng.Intn(3)
	id := int64(1 + g.rng.Intn(50))
	n := 3 + g.rng.Intn(4)
	vs := g.rng.Perm(n + 2)[:n] // distinct versions 0..n+1
	switch g.rng.Intn(3) {
	case 0: // newest first
		sort.Sort(sort.Reverse(sort.IntSlice(vs)))
	case 1: // oldest first (already sorted histories must behave the same)
		sort.Ints(vs)
	}
	h := dsEntry{Kind: k, ID: id}
	for _, v := range vs {
		h.Hist = append(h.Hist, el{k, id, v, true, g.nextPay()})
	}
	K := 2 + g.rng.Intn(n-1)
	in.DS = []dsEntry{h}
	s := &sectionT{}
	s[k] = append([]el(nil), h.Hist[:K]...)
	in.Sections[1] = s
	in.Alias = &aliasSpec{Kind: k, ID: id, K: K}
	return in
}

func interleaveByID(rng *rand.Rand, l []el) []el {
	by := map[int64][]el{}
	var keys []int64
	for _, e := range l {
		if _, ok := by[e.ID]; !ok {
			keys = append(keys, e.ID)
		}
		by[e.ID] = append(by[e.ID], e)
	}
	var out []el
	for len(keys) > 0 {
		i := rng.Intn(len(keys))
		q := by[keys[i]]
		out = append(out, q[0])
		if len(q) == 1 {
			keys = append(keys[:i], keys[i+1:]...)
		} else {
			by[keys[i]] = q[1:]
		}
	}
	return out
}

func main() {
	a := wire.ParseArgs()
	rng := wire.Rng(a.Seed)
	w := wire.NewWriter("C13", a.Seed, a.Tier)
	g := &gen{rng: rng, w: w, pay: 1000}
	w.Rule = "osmChange with 0-4 nodes/ways/relations per create/modify/delete section (sections sometimes nil), histories per element: absent, nil slice, empty, other data-source error, 1-6 entries unsorted/ascending/descending with gaps, version 0, later versions, duplicates of the new version and of each other, nothing below; option none / IgnoreMissingChildren(false) / (true), always passed through the real constructors together with the other options of the package in one of 18 orders (IgnoreInconsistency(true/false) before and/or after, Threshold, ChildFilter, an overridden earlier IgnoreMissingChildren): only the last IgnoreMissingChildren may matter; every object carries a distinct payload (changeset id). Single-element changes exercise the predecessor search alone; large cases put 16-40 elements of one kind in a section and give the data source uneven per-id latency (first elements slowest: order must not depend on it); repeated cases let the same element occur 2-4 times across/within modify and delete with increasing versions (each occurrence has its own predecessor); extreme cases use ids from {negative, 0, 2^16, 2^40, 2^44, 2^62, MaxInt64} and versions from {.., 65535, 65536, 65537, 2^31-1} with a predecessor always present; elements and history entries carry timestamps from a pool one second apart (predecessor at the same or a later instant than the element) or none; aliased cases make the modify list of one kind a prefix of the very history slice the data source returns (newest first / unsorted / sorted); repeated elements may start in the create section and have no history at all. distinct = distinct token streams; trivial = empty change. History versions are >= 0 (the domain of the property; OSM versions start at 1)."
	nChange, nSingle, nLarge, nRepeat := 380, 340, 40, 160
	nExtreme, nAlias := 150, 120
	if a.Tier == "thorough" {
		nChange, nSingle, nLarge, nRepeat = 8000, 8000, 400, 4000
		nExtreme, nAlias = 3000, 2500
	}
	nAlias = int(float64(nAlias) * a.Scale)
	nExtreme = int(float64(nExtreme) * a.Scale)
	nChange = int(float64(nChange) * a.Scale)
	nSingle = int(float64(nSingle) * a.Scale)
	nLarge = int(float64(nLarge) * a.Scale)
	nRepeat = int(float64(nRepeat) * a.Scale)

	// fixed corpus
	{
		h := func(vs ...int) []el {
			var l []el
			for _, v := range vs {
				l = append(l, el{0, 5, v, true, g.nextPay()})
			}
			return l
		}
		one := func(si int, v int, ign int, ds []dsEntry) *caseIn {
			in := &caseIn{Ign: ign, DS: ds}
			in.Sections[si] = &sectionT{{{0, 5, v, false, g.nextPay()}}, nil, nil}
			return in
		}
		for _, in := range []*caseIn{
			one(1, 4, 0, []dsEntry{{Kind: 0, ID: 5, Hist: h(1, 2, 3, 4, 5)}}), // predecessor 3, later versions present
			one(1, 4, 0, []dsEntry{{Kind: 0, ID: 5, Hist: h(5, 3, 1, 4, 2)}}), // unsorted
			one(2, 7, 0, []dsEntry{{Kind: 0, ID: 5, Hist: h(9, 2, 7, 5)}}),    // gap: 5 precedes 7
			one(1, 1, 0, []dsEntry{{Kind: 0, ID: 5, Hist: h(0, 1)}}),          // version 0 precedes 1
			one(1, 1, 0, []dsEntry{{Kind: 0, ID: 5, Hist: h(1, 2)}}),          // nothing below -> typed error
			one(1, 1, 2, []dsEntry{{Kind: 0, ID: 5, Hist: h(1, 2)}}),          // ... or create when ignored
			one(2, 3, 0, nil), // no history at all
			one(2, 3, 2, nil), //
			one(1, 3, 2, []dsEntry{{Kind: 0, ID: 5, Status: 2, Code: 7}}), // other error is never ignored
			one(0, 3, 0, []dsEntry{{Kind: 0, ID: 5, Status: 2, Code: 7}}), // creates never consult the data source
		} {
			c := mkCase(in, nil)
			c.Class = "corpus"
			w.Add(c)
		}
	}
	{
		// a history that exists but holds nothing below our version (a partial extract): every kind,
		// modify and delete, every option value; only-own, only-later and own+later histories
		for kind := 0; kind < 3; kind++ {
			for si := 1; si <= 2; si++ {
				for ign := 0; ign < 3; ign++ {
					for _, vs := range [][]int{{3}, {4, 5}, {3, 4}} {
						in := &caseIn{Ign: ign}
						var hist []el
						for _, v := range vs {
							hist = append(hist, el{kind, 5, v, true, g.nextPay()})
						}
						in.DS = []dsEntry{{Kind: kind, ID: 5, Hist: hist}}
						sec := &sectionT{}
						sec[kind] = []el{{kind, 5, 3, si == 1, g.nextPay()}}
						in.Sections[si] = sec
						c := mkCase(in, nil)
						c.Class = "history-without-earlier-version"
						w.Add(c)
					}
				}
			}
		}
	}
	{
		// every combination and order of the options x every value of IgnoreMissingChildren x
		// {no history, history without an earlier version, history with one} x modify/delete
		for pat := 1; pat <= len(optPatterns); pat++ {
			for ign := 0; ign < 3; ign++ {
				for shape := 0; shape < 3; shape++ {
					for si := 1; si <= 2; si++ {
						kind := (pat + shape + si) % 3
						in := &caseIn{Ign: ign, OptPat: pat}
						switch shape {
						case 1:
							in.DS = []dsEntry{{Kind: kind, ID: 5, Hist: []el{{kind, 5, 3, true, g.nextPay()}, {kind, 5, 4, true, g.nextPay()}}}}
						case 2:
							in.DS = []dsEntry{{Kind: kind, ID: 5, Hist: []el{{kind, 5, 2, true, g.nextPay()}, {kind, 5, 3, true, g.nextPay()}}}}
						}
						sec := &sectionT{}
						sec[kind] = []el{{kind, 5, 3, si == 1, g.nextPay()}}
						in.Sections[si] = sec
						c := mkCase(in, nil)
						c.Class = "option-combinations"
						w.Add(c)
					}
				}
			}
		}
	}
	{
		// the same way modified (v3) and then deleted (v4): the old states are v2 and v3
		in := &caseIn{}
		in.Sections[1] = &sectionT{nil, {{1, 5, 3, true, g.nextPay()}}, nil}
		in.Sections[2] = &sectionT{nil, {{1, 5, 4, true, g.nextPay()}}, nil}
		in.DS = []dsEntry{{Kind: 1, ID: 5, Hist: []el{{1, 5, 1, true, g.nextPay()}, {1, 5, 2, true, g.nextPay()}, {1, 5, 3, true, g.nextPay()}}}}
		c := mkCase(in, nil)
		c.Class = "corpus"
		w.Add(c)
		// the same way modified twice in one section
		in = &caseIn{}
		in.Sections[1] = &sectionT{nil, {{1, 5, 2, true, g.nextPay()}, {1, 5, 6, true, g.nextPay()}}, nil}
		in.DS = []dsEntry{{Kind: 1, ID: 5, Hist: []el{{1, 5, 1, true, g.nextPay()}, {1, 5, 5, true, g.nextPay()}}}}
		c = mkCase(in, nil)
		c.Class = "corpus"
		w.Add(c)
		// a negative id and an id beyond 2^40 are ordinary keys; version 65537 has predecessor 65536
		in = &caseIn{}
		in.Sections[1] = &sectionT{{{0, -5, 2, true, g.nextPay()}}, {{1, 7, 65537, true, g.nextPay()}}, {{2, 1<<40 + 3, 3, true, g.nextPay()}}}
		in.DS = []dsEntry{{Kind: 0, ID: -5, Hist: []el{{0, -5, 1, true, g.nextPay()}}},
			{Kind: 1, ID: 7, Hist: []el{{1, 7, 1, true, g.nextPay()}, {1, 7, 65536, true, g.nextPay()}}},
			{Kind: 2, ID: 1<<40 + 3, Hist: []el{{2, 1<<40 + 3, 2, true, g.nextPay()}}}}
		c = mkCase(in, nil)
		c.Class = "corpus"
		w.Add(c)
		// the modified nodes ARE the first two entries of the newest-first history slice
		in = &caseIn{}
		hist := []el{{0, 9, 3, true, g.nextPay()}, {0, 9, 2, true, g.nextPay()}, {0, 9, 1, true, g.nextPay()}}
		in.DS = []dsEntry{{Kind: 0, ID: 9, Hist: hist}}
		in.Sections[1] = &sectionT{append([]el(nil), hist[:2]...), nil, nil}
		in.Alias = &aliasSpec{Kind: 0, ID: 9, K: 2}
		c = mkCase(in, nil)
		c.Class = "corpus"
		w.Add(c)
		// predecessor uploaded in the same second as the element, and one with a later clock
		in = &caseIn{}
		mkT := func(k int, id int64, v int, ts int64) el {
			e := el{k, id, v, true, g.nextPay()}
			tsOf[e.Pay] = ts
			return e
		}
		in.Sections[1] = &sectionT{{mkT(0, 5, 3, 1500000000)}, {mkT(1, 6, 2, 1500000000)}, nil}
		in.DS = []dsEntry{{Kind: 0, ID: 5, Hist: []el{mkT(0, 5, 1, 1499999990), mkT(0, 5, 2, 1500000000)}},
			{Kind: 1, ID: 6, Hist: []el{mkT(1, 6, 1, 1500000007)}}}
		c = mkCase(in, nil)
		c.Class = "corpus"
		w.Add(c)
		// created and then modified in the same change, the data source knows nothing: ignore-missing
		for _, ign := range []int{0, 2} {
			in = &caseIn{Ign: ign}
			in.Sections[0] = &sectionT{nil, {{1, 8, 1, true, g.nextPay()}}, nil}
			in.Sections[1] = &sectionT{nil, {{1, 8, 2, true, g.nextPay()}}, nil}
			in.Sections[2] = &sectionT{nil, {{1, 8, 3, true, g.nextPay()}}, nil}
			c = mkCase(in, nil)
			c.Class = "corpus"
			w.Add(c)
		}
		// a create-only change never consults the data source: nil interface
		in = &caseIn{NilDS: true}
		in.Sections[0] = &sectionT{{{0, 1, 2, false, g.nextPay()}}, {{1, 2, 1, false, g.nextPay()}}, {{2, 3, 1, true, g.nextPay()}}}
		c = mkCase(in, nil)
		c.Class = "corpus"
		w.Add(c)
		// 16 nodes in one section, the first ones answering last
		in = &caseIn{}
		s := &sectionT{}
		for i := 0; i < 16; i++ {
			id := int64(1 + i)
			s[0] = append(s[0], el{0, id, 2, true, g.nextPay()})
			h := dsEntry{Kind: 0, ID: id, Hist: []el{{0, id, 1, true, g.nextPay()}}}
			if i < 3 {
				h.DelayMS = 3 - i
			}
			in.DS = append(in.DS, h)
		}
		in.Sections[1] = s
		c = mkCase(in, nil)
		c.Class = "corpus"
		w.Add(c)
	}
	for i := 0; i < nChange; i++ {
		in := g.genCase(4)
		g.stampAll(in)
		c := mkCase(in, nil)
		n := 0
		for _, s := range in.Sections {
			if s != nil {
				n += len(s[0]) + len(s[1]) + len(s[2])
			}
		}
		c.Trivial = n == 0
		w.Count(fmt.Sprintf("option:%d", in.Ign))
		w.Add(c)
	}
	for i := 0; i < nSingle; i++ {
		k := rng.Intn(3)
		v := 1 + rng.Intn(8)
		in := &caseIn{Ign: rng.Intn(3), NFT: rng.Intn(3) == 0}
		s := &sectionT{}
		s[k] = []el{{k, 77, v, rng.Intn(2) == 0, g.nextPay()}}
		in.Sections[1+rng.Intn(2)] = s
		h, class := g.history(k, 77, v)
		w.Count(class)
		in.DS = []dsEntry{h}
		g.stampAll(in)
		c := mkCase(in, nil)
		c.Class = "single"
		w.Add(c)
	}

	for i := 0; i < nLarge; i++ {
		c := mkCase(g.genLarge(), nil)
		c.Class = "large-section-uneven-latency"
		w.Add(c)
	}
	for i := 0; i < nRepeat; i++ {
		rin := g.genRepeated()
		g.stampAll(rin)
		c := mkCase(rin, nil)
		c.Class = "repeated-element"
		w.Add(c)
	}
	for i := 0; i < nExtreme; i++ {
		c := mkCase(g.genExtreme(), nil)
		c.Class = "extreme-ids-and-versions"
		w.Add(c)
	}
	for i := 0; i < nAlias; i++ {
		in := g.genAliased()
		g.stampAll(in)
		c := mkCase(in, nil)
		c.Class = "modify-list-aliases-history"
		w.Add(c)
	}

	// canaries
	{
		mk := func() *caseIn {
			in := &caseIn{Ign: 0}
			in.Sections[0] = &sectionT{{{0, 1, 1, false, 11}}, {{1, 2, 1, false, 12}}, nil}
			in.Sections[1] = &sectionT{{{0, 3, 4, false, 13}}, nil, {{2, 4, 2, true, 14}}}
			in.Sections[2] = &sectionT{nil, {{1, 5, 3, true, 15}}, nil}
			in.DS = []dsEntry{
				{Kind: 0, ID: 3, Hist: []el{{0, 3, 1, true, 21}, {0, 3, 3, true, 22}, {0, 3, 2, true, 23}, {0, 3, 5, true, 24}}},
				{Kind: 2, ID: 4, Hist: []el{{2, 4, 1, true, 25}}},
				{Kind: 1, ID: 5, Hist: []el{{1, 5, 2, true, 26}, {1, 5, 1, true, 27}}},
			}
			return in
		}
		missing := mk()
		missing.DS = missing.DS[:2]
		cans := []*wire.Case{
			mkCase(mk(), func(o *obsT) { o.Actions[2].Old[0].Version, o.Actions[2].Old[0].Pay = 2, 23 }), // an older predecessor
			mkCase(mk(), func(o *obsT) { o.Actions[2], o.Actions[3] = o.Actions[3], o.Actions[2] }),      // order within a section
			mkCase(mk(), func(o *obsT) { o.Actions[0], o.Actions[4] = o.Actions[4], o.Actions[0] }),      // section order
			mkCase(mk(), func(o *obsT) { o.Actions[4].New[0].Visible = true }),                           // delete marked visible
			mkCase(mk(), func(o *obsT) { o.Actions[0].OSM[0].Visible = false }),                          // create not visible
			mkCase(mk(), func(o *obsT) { o.Actions[3].Type = 2 }),                                        // action type
			mkCase(mk(), func(o *obsT) { o.Actions = o.Actions[:4] }),                                    // an element without action
			mkCase(mk(), func(o *obsT) { o.Actions = append(o.Actions, o.Actions[4]) }),                  // two actions for one element
			mkCase(missing, func(o *obsT) { o.EID++ }),                                                   // wrong id in the typed error
			mkCase(missing, func(o *obsT) { o.ErrKind = 3 }),                                             // untyped error
		}
		for _, c := range cans {
			c.Canary = 1
			c.Class = ""
			w.Add(c)
		}
	}
	if err := w.Flush(a.Out, "Verif.C13.Check", 300); err != nil {
		fmt.Fprintln(os.Stderr, err)
		os.Exit(1)
	}
}
