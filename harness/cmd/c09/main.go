// c09: correspondence harness for property C09 (resuming a PBF scan at the reported byte
// offset loses no element).
//
// Case kinds (first token):
//
//	1 TRACE : procs frames fsb0 pfsb0 (obj fsb pfsb)* err   -- one full scan, the two offsets
//	          read before the first Scan and after every Scan
//	2 STOPS : procs frames runs   -- EVERY stop position k = 0..#objects: scan k objects, read
//	          the offsets, Close, second scanner on data[fsb:], third on data[pfsb:];
//	          run = k_lo k_hi fsb pfsb resumed rerr prev_resumed perr short (equal consecutive
//	          observations merged)
//
// The frames carry the objects each block yields under the case's skip flags, so blocks that
// the flags empty are present as blocks without objects.  All scans run in a child process.
package main

import (
	"fmt"
	"math/rand"
	"os"

	"verif/harness/pbfgen"
	"verif/harness/pbfrun"
	"verif/harness/wire"
)

var procsList = []int{1, 2, 5}

// decoder counts outside the documented range: New takes any int, Start clamps n < 1 to 1, so 0
// and negative counts must behave like one decoder (fresh and resumed scanners alike)
var oddProcs = []int{0, -1, -7}

// how the bytes reach the decoder (pbfrun.Job.Reader), rotating over the scans of a run: plain
// bytes.Reader, last bytes together with io.EOF, one byte per Read, short chunks, short chunks with
// (0, nil) now and then.  The model does not depend on it: io.ReadFull hides all of that.
var readerRot int
var readerUse = map[int]int{}

func nextReader() int {
	readerRot++
	k := []int{0, 1, 0, 2, 3, 1, 4, 0}[readerRot%8]
	readerUse[k]++
	lastReader = k
	return k
}

// lastReader: the reader kind of the scan(s) started last (recorded in the case descriptions)
var lastReader int

type file struct {
	seed   int64
	desc   *pbfgen.FileDesc
	data   []byte
	frames []pbfgen.Frame
}

func genFile(rng *rand.Rand, noHeader bool, kinds string, maxBlocks int) *file {
	for {
		seed := rng.Int63()
		opts := pbfgen.Opts{MinBlocks: 1, MaxBlocks: maxBlocks, MaxGroups: 2, MaxItems: 3, MaxTags: 2, MaxRefs: 3, MaxMembers: 3,
			ExtremePct: -1, NoHeader: noHeader, Kinds: kinds}
		d := pbfgen.RandomFile(rand.New(rand.NewSource(seed)), opts)
		insertEmpty(rng, d)
		n := pbfrun.Renumber(d)
		if n > 40 {
			continue
		}
		f := &file{seed: seed, desc: d}
		f.data, f.frames = pbfgen.Encode(d)
		return f
	}
}

// singleKindBlocks rewrites the description so that every block holds one kind only
// (as real writers do); a skip flag then empties whole blocks.
func singleKindBlocks(rng *rand.Rand, noHeader bool, nBlocks int) *file {
	d := &pbfgen.FileDesc{}
	kinds := []string{"d", "w", "r"}
	for i := 0; i < nBlocks; i++ {
		k := kinds[rng.Intn(3)]
		one := pbfgen.RandomFile(rand.New(rand.NewSource(rng.Int63())), pbfgen.Opts{MinBlocks: 1, MaxBlocks: 1, MaxGroups: 2, MaxItems: 2,
			MaxTags: 1, MaxRefs: 2, MaxMembers: 2, ExtremePct: -1, NoHeader: i > 0 || noHeader, Kinds: k, MixedPct: -1})
		if i == 0 && !noHeader {
			d.Header = one.Header
		}
		d.Blocks = append(d.Blocks, one.Blocks...)
	}
	insertEmpty(rng, d)
	pbfrun.Renumber(d)
	f := &file{seed: -1, desc: d}
	f.data, f.frames = pbfgen.Encode(d)
	return f
}

// insertEmpty: every other file gets an intact EMPTY block (zero-byte payload; zlib with raw_size 0
// or raw) at a random position: it is taken like any other block and moves both offsets
func insertEmpty(rng *rand.Rand, d *pbfgen.FileDesc) {
	if rng.Intn(2) != 0 {
		return
	}
	b := &pbfgen.Block{OmitStringTable: true}
	b.Zlib = rng.Intn(2) == 0
	at := rng.Intn(len(d.Blocks) + 1)
	d.Blocks = append(d.Blocks, nil)
	copy(d.Blocks[at+1:], d.Blocks[at:])
	d.Blocks[at] = b
}

func eqToks(a, b []uint64) bool {
	if len(a) != len(b) {
		return false
	}
	for i := range a {
		if a[i] != b[i] {
			return false
		}
	}
	return true
}

func eqInts(a, b []int64) bool {
	if len(a) != len(b) {
		return false
	}
	for i := range a {
		if a[i] != b[i] {
			return false
		}
	}
	return true
}

// sharedCase: one ReadSeeker serves the first scanner and, after Close + Seek(offset), the
// restarted one (kind 3).  run = k_lo k_hi fsb resumed rerr in_flight short.
func sharedCase(w *wire.Writer, r *pbfrun.Runner, f *file, procs int) (*wire.Case, error) {
	skip := [3]bool{}
	fds := pbfrun.Describe(f.desc, f.data, f.frames, skip, nil)
	all := allObjs(fds)
	units := make([]int, len(all)+1)
	for i := range units {
		units[i] = i
	}
	obs, err := r.Run(pbfrun.Job{Reader: nextReader(), Data: f.data, Procs: procs, Mode: "shared", Units: units})
	if err != nil {
		return nil, err
	}
	type srun struct {
		Lo, Hi   int
		FSB      int64
		Resumed  []uint64
		RErr     int
		InFlight bool
		Short    bool
	}
	c := &wire.Case{Class: "shared_reader"}
	var runs []srun
	for i := range obs {
		o := &obs[i]
		if o.Skipped {
			break
		}
		if o.Crash || o.Hang {
			c.OracleFail = fmt.Sprintf("stop %d on a shared reader: crash or hang: %s", o.Unit, o.CrashMsg)
			runs = append(runs, srun{Lo: o.Unit, Hi: o.Unit, FSB: -1, RErr: 2, Short: true})
			continue
		}
		sr := srun{o.Unit, o.Unit, o.FSB[0], o.Resumed, o.ResumedErr, o.InFlight, o.StopShort}
		if c.OracleFail == "" && o.InFlight {
			c.OracleFail = fmt.Sprintf("stop after %d objects: a Read of the closed scanner was still in progress when Close returned (the reader is about to be reused for the restart)", o.Unit)
		}
		k := o.Unit
		if c.OracleFail == "" {
			dup := len(o.Resumed) + k - len(all)
			if !(o.ResumedErr == 0 && dup >= 0 && dup <= k && eqToks(all[k-dup:], o.Resumed)) {
				c.OracleFail = fmt.Sprintf("stop after %d of %d objects, Close, Seek(%d) on the SAME reader: restarted scan returned %d objects (err class %d): elements lost or corrupted",
					k, len(all), o.FSB[0], len(o.Resumed), o.ResumedErr)
			}
		}
		if n := len(runs); n > 0 && runs[n-1].Hi+1 == sr.Lo && runs[n-1].FSB == sr.FSB && eqToks(runs[n-1].Resumed, sr.Resumed) &&
			runs[n-1].RErr == sr.RErr && runs[n-1].InFlight == sr.InFlight && runs[n-1].Short == sr.Short {
			runs[n-1].Hi = sr.Hi
		} else {
			runs = append(runs, sr)
		}
	}
	c.Int(3).Int(int64(procs))
	pbfrun.EmitFrames(c, fds)
	c.Len(len(runs))
	for _, s := range runs {
		c.Int(int64(s.Lo)).Int(int64(s.Hi)).Int(s.FSB)
		pbfrun.EmitToks(c, s.Resumed)
		c.Int(int64(s.RErr)).Bool(s.InFlight).Bool(s.Short)
	}
	c.Desc = map[string]interface{}{"kind": "stop at every k, Close, Seek(offset) and restart on the SAME ReadSeeker (slow reads)",
		"file_seed": f.seed, "procs": procs, "size": len(f.data), "n_objects": len(all), "runs": runs, "file": f.desc}
	c.Trivial = len(all) == 0
	w.Stats["shared:positions"] += len(units)
	return c, nil
}

func allObjs(fds []pbfrun.FrameDesc) []uint64 {
	var l []uint64
	for i := range fds {
		l = append(l, fds[i].Objs...)
	}
	return l
}

// byFilter: the element kinds of a case's flag set are removed by Filter* functions that reject
// every element instead of by the Skip* flags (the blocks are emptied either way, and the offsets
// must move over them all the same)
var byFilter bool

func jobSkip(skip [3]bool) [3]bool {
	if byFilter {
		return [3]bool{}
	}
	return skip
}

func jobFilter(skip [3]bool) [3]bool {
	if byFilter {
		return skip
	}
	return [3]bool{}
}

func traceCase(w *wire.Writer, r *pbfrun.Runner, f *file, procs int, skip [3]bool) (*wire.Case, error) {
	fds := pbfrun.Describe(f.desc, f.data, f.frames, skip, nil)
	obs, err := r.Run(pbfrun.Job{Reader: nextReader(), Data: f.data, Procs: procs, Skip: jobSkip(skip), Filter: jobFilter(skip), Mode: "trace", Canon: true})
	if err != nil {
		return nil, err
	}
	o := &obs[0]
	if o.Crash || o.Hang || o.Skipped {
		c := &wire.Case{Class: "trace", OracleFail: "crash or hang on a valid file: " + o.CrashMsg}
		c.Int(1)
		c.Desc = map[string]interface{}{"reader_kind": lastReader, "kind": "trace", "crash": o.CrashMsg, "file": f.desc}
		return c, nil
	}
	c := &wire.Case{Class: "trace"}
	c.Int(1).Int(int64(procs))
	pbfrun.EmitFrames(c, fds)
	c.Int(o.FSB[0]).Int(o.PFSB[0])
	c.Len(len(o.Objs))
	for i, t := range o.Objs {
		c.Tok(t).Int(o.FSB[i+1]).Int(o.PFSB[i+1])
	}
	c.Int(int64(o.Err))
	c.Int(o.FSB[len(o.Objs)+1]).Int(o.PFSB[len(o.Objs)+1])
	// Go-side oracle
	var starts []int64
	off := int64(0)
	for i := range fds {
		starts = append(starts, off)
		off += fds[i].Size()
	}
	k, prev := 0, int64(0)
	for i := range fds {
		if fds[i].Block < 0 {
			continue
		}
		for _, t := range fds[i].Objs {
			if c.OracleFail == "" && (k >= len(o.Objs) || o.Objs[k] != t || o.FSB[k+1] != starts[i] || o.PFSB[k+1] != prev) {
				got := "no such object"
				if k < len(o.Objs) {
					got = fmt.Sprintf("object %d with FullyScannedBytes %d, Previous %d", o.Objs[k], o.FSB[k+1], o.PFSB[k+1])
				}
				c.OracleFail = fmt.Sprintf("object #%d (block %d, token %d): expected offsets %d/%d, observed %s", k+1, fds[i].Block, t, starts[i], prev, got)
			}
			k++
		}
		prev = starts[i]
	}
	if c.OracleFail == "" && (k != len(o.Objs) || o.Err != 0) {
		c.OracleFail = fmt.Sprintf("expected %d objects and no error, got %d, err %q", k, len(o.Objs), o.ErrText)
	}
	var expected []string
	for bi, b := range f.desc.Blocks {
		for _, e := range pbfgen.BlockElements(b, bi) {
			e := e
			if (e.Kind == "node" && skip[0]) || (e.Kind == "way" && skip[1]) || (e.Kind == "relation" && skip[2]) {
				continue
			}
			expected = append(expected, pbfrun.CanonElem(&e))
		}
	}
	if c.OracleFail != "" {
		for i := 0; i < len(expected) && i < len(o.Canon); i++ {
			if expected[i] != o.Canon[i] {
				c.OracleFail += fmt.Sprintf("; first differing object #%d: expected %s, decoded %s", i+1, expected[i], o.Canon[i])
				break
			}
		}
	}
	c.Desc = map[string]interface{}{"reader_kind": lastReader, "kind": "trace", "file_seed": f.seed, "procs": procs, "skip": skip, "by_filter": byFilter, "frames": fds,
		"objs": o.Objs, "decoded_objects": o.Canon, "expected_objects": expected, "fsb": o.FSB, "pfsb": o.PFSB, "err": o.ErrText, "file": f.desc}
	c.Trivial = len(o.Objs) == 0
	return c, nil
}

type stopRun struct {
	Lo, Hi      int
	FSB, PFSB   int64
	FSB2, PFSB2 int64 // read again after the scan was stopped (Close for even k, cancel for odd k)
	Resumed     []uint64
	RFSB, RPFSB []int64 // offsets reported by the restarted scanner after each of its objects
	RErr        int
	PrevResumed []uint64
	PErr        int
	Short       bool
	Crash       string
}

func stopsCase(w *wire.Writer, r *pbfrun.Runner, f *file, procs int, skip [3]bool) (*wire.Case, error) {
	fds := pbfrun.Describe(f.desc, f.data, f.frames, skip, nil)
	all := allObjs(fds)
	units := make([]int, len(all)+1)
	for i := range units {
		units[i] = i
	}
	obs, err := r.Run(pbfrun.Job{Reader: nextReader(), Data: f.data, Procs: procs, Skip: jobSkip(skip), Filter: jobFilter(skip), Mode: "stop", Units: units})
	if err != nil {
		return nil, err
	}
	c := &wire.Case{Class: "stops"}
	var runs []stopRun
	for i := range obs {
		o := &obs[i]
		if o.Skipped {
			break
		}
		if o.Crash || o.Hang {
			c.OracleFail = fmt.Sprintf("stop %d: crash or hang on a valid file: %s", o.Unit, o.CrashMsg)
			how := o.CrashMsg
			if o.Hang {
				how = "the scan did not return (killed by the watchdog)"
				c.OracleFail = fmt.Sprintf("stop %d, procs %d: %s", o.Unit, procs, how)
			}
			runs = append(runs, stopRun{Lo: o.Unit, Hi: o.Unit, FSB: -1, PFSB: -1, FSB2: -1, PFSB2: -1, RErr: 2, PErr: 2, Short: true, Crash: how})
			continue
		}
		sr := stopRun{o.Unit, o.Unit, o.FSB[0], o.PFSB[0], o.FSB[1], o.PFSB[1], o.Resumed, o.ResumedFSB, o.ResumedPFSB, o.ResumedErr, o.PrevResumed, o.PrevResumedErr, o.StopShort, ""}
		if c.OracleFail == "" && (sr.FSB2 != sr.FSB || sr.PFSB2 != sr.PFSB) {
			c.OracleFail = fmt.Sprintf("stop after %d objects: offsets %d/%d before and %d/%d after the scan was stopped (Close for even k, cancel for odd k)",
				o.Unit, sr.FSB, sr.PFSB, sr.FSB2, sr.PFSB2)
		}
		if n := len(runs); n > 0 && runs[n-1].Hi+1 == sr.Lo && runs[n-1].FSB == sr.FSB && runs[n-1].PFSB == sr.PFSB &&
			runs[n-1].FSB2 == sr.FSB2 && runs[n-1].PFSB2 == sr.PFSB2 &&
			eqToks(runs[n-1].Resumed, sr.Resumed) && eqToks(runs[n-1].PrevResumed, sr.PrevResumed) &&
			eqInts(runs[n-1].RFSB, sr.RFSB) && eqInts(runs[n-1].RPFSB, sr.RPFSB) &&
			runs[n-1].RErr == sr.RErr && runs[n-1].PErr == sr.PErr && runs[n-1].Short == sr.Short && runs[n-1].Crash == "" {
			runs[n-1].Hi = sr.Hi
		} else {
			runs = append(runs, sr)
		}
		// Go-side oracle: nothing is lost
		k := o.Unit
		if c.OracleFail == "" {
			dup := len(o.Resumed) + k - len(all)
			ok := o.ResumedErr == 0 && !o.StopShort && dup >= 0 && dup <= k && eqToks(all[k-dup:], o.Resumed) && eqToks(all[:k], o.Objs)
			if !ok {
				c.OracleFail = fmt.Sprintf("stop after %d of %d objects: offset %d, resumed scan returned %d objects (err class %d): elements lost or corrupted",
					k, len(all), o.FSB[0], len(o.Resumed), o.ResumedErr)
			}
		}
	}
	c.Int(2).Int(int64(procs))
	pbfrun.EmitFrames(c, fds)
	c.Len(len(runs))
	for _, s := range runs {
		c.Int(int64(s.Lo)).Int(int64(s.Hi)).Int(s.FSB).Int(s.PFSB).Int(s.FSB2).Int(s.PFSB2)
		pbfrun.EmitToks(c, s.Resumed)
		c.Ints(s.RFSB)
		c.Ints(s.RPFSB)
		c.Int(int64(s.RErr))
		pbfrun.EmitToks(c, s.PrevResumed)
		c.Int(int64(s.PErr))
		c.Bool(s.Short)
	}
	c.Desc = map[string]interface{}{"reader_kind": lastReader, "kind": "stop at every k and resume", "file_seed": f.seed, "procs": procs, "skip": skip, "by_filter": byFilter,
		"size": len(f.data), "n_objects": len(all), "frames": fds, "runs": runs, "file": f.desc}
	c.Trivial = len(all) == 0
	w.Stats["stops:positions"] += len(units)
	empty := 0
	for i := range fds {
		if fds[i].Block >= 0 && len(fds[i].Objs) == 0 {
			empty++
		}
	}
	if empty > 0 {
		w.Count("stops:files_with_empty_blocks")
	}
	return c, nil
}

func main() {
	if pbfrun.IsWorker() {
		pbfrun.WorkerMain()
		return
	}
	a := wire.ParseArgs()
	rng := wire.Rng(a.Seed)
	w := wire.NewWriter("C09", a.Seed, a.Tier)
	w.Rule = "one case = generated file (1-5 blocks, with header or in resume form, mixed or single-kind blocks) x skip flags (none, or a subset that empties some blocks) x decoder count (1,2,5); TRACE reads both offsets after every Scan; STOPS stops at EVERY k in 0..#objects, closes, and scans data[offset:] with a second scanner. Non-trivial: the file yields at least one object."
	r := pbfrun.NewRunner()
	defer r.Close()
	fail := func(err error) {
		fmt.Fprintln(os.Stderr, "c09:", err)
		os.Exit(1)
	}
	nFiles := 30
	if a.Tier == "thorough" {
		nFiles = 60
	}
	nFiles = int(float64(nFiles)*a.Scale + 0.5)
	skips := [][3]bool{{}, {true, false, false}, {false, true, false}, {false, false, true}, {true, true, false}, {true, false, true}, {false, true, true}, {true, true, true}}
	var firstStops, firstTrace *wire.Case
	for i := 0; i < nFiles; i++ {
		if r.GaveUp() {
			w.Notes = append(w.Notes, "the runner gave up after repeated hangs: generation stopped early")
			break
		}
		var f *file
		noHeader := i%4 == 3
		if i%2 == 0 {
			f = singleKindBlocks(rng, noHeader, 2+rng.Intn(4))
		} else {
			f = genFile(rng, noHeader, "", 4)
		}
		// skip flag sets: none, plus two drawn ones
		sel := []int{0, 1 + rng.Intn(7), 1 + rng.Intn(7)}
		for si, s := range sel {
			skip := skips[s]
			byFilter = si == 2
			for _, p := range procsList {
				if si > 0 && p != procsList[(i+si)%3] {
					continue // every decoder count with no flags; one (rotating) count per drawn flag set
				}
				c, err := traceCase(w, r, f, p, skip)
				if err != nil {
					fail(err)
				}
				w.Add(c)
				if firstTrace == nil && !c.Trivial && c.OracleFail == "" {
					firstTrace = c
				}
				c, err = stopsCase(w, r, f, p, skip)
				if err != nil {
					fail(err)
				}
				w.Add(c)
				if firstStops == nil && !c.Trivial && c.OracleFail == "" && len(f.desc.Blocks) > 1 {
					firstStops = c
				}
				w.Count(fmt.Sprintf("procs=%d", p))
				if byFilter {
					w.Count(fmt.Sprintf("filter=%v", skip))
				} else {
					w.Count(fmt.Sprintf("skip=%v", skip))
				}
			}
		}
		byFilter = false
		// the same reader object reused for the restart (a few files: reads are slowed down)
		if i%5 == 0 && len(f.desc.Blocks) >= 3 {
			c, err := sharedCase(w, r, f, append(append([]int{}, procsList...), oddProcs...)[(i/5)%6])
			if err != nil {
				fail(err)
			}
			w.Add(c)
		}
		// more decoders than the channel budget (10/procs = 0: unbuffered channels), also for the
		// resumed scanners
		for _, p := range []int{[]int{11, 16, 32}[i%3], oddProcs[i%3]} {
			c, err := stopsCase(w, r, f, p, skips[0])
			if err != nil {
				fail(err)
			}
			w.Add(c)
			w.Count(fmt.Sprintf("procs=%d", p))
			if p < 1 {
				c, err = traceCase(w, r, f, p, skips[(i/3)%len(skips)])
				if err != nil {
					fail(err)
				}
				w.Add(c)
			}
		}
	}
	// canaries
	if firstTrace != nil {
		c := firstTrace.Clone()
		c.Canary, c.Class = 1, "canary"
		// the PFSB of the last object (token before err) is shifted
		c.Toks[len(c.Toks)-4] += 2
		w.Add(c)
		c = firstTrace.Clone()
		c.Canary, c.Class = 1, "canary"
		c.Toks[len(c.Toks)-5] += 2 // FSB of the last object
		w.Add(c)
		c = firstTrace.Clone()
		c.Canary, c.Class = 1, "canary"
		c.Toks[len(c.Toks)-1] += 2 // PFSB after the end of the scan
		w.Add(c)
	}
	if firstStops != nil {
		c := firstStops.Clone()
		c.Canary, c.Class = 1, "canary"
		// last run: ... resumed rerr prev_resumed perr short ; flip "short"
		c.Toks[len(c.Toks)-1] ^= 2
		w.Add(c)
		c = firstStops.Clone()
		c.Canary, c.Class = 1, "canary"
		c.Toks[len(c.Toks)-2] ^= 2 // perr
		w.Add(c)
	}
	for k, v := range readerUse {
		w.Stats[fmt.Sprintf("reader_kind=%d", k)] = v
	}
	w.Stats["runner:crashes"] = r.Crashes
	w.Stats["runner:hangs"] = r.Hangs
	w.Stats["runner:deaths_outside_scan"] = r.OutsideScan
	if err := w.Flush(a.Out, "Verif.C09.Check", 40); err != nil {
		fail(err)
	}
}
