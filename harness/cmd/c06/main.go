// c06: correspondence harness for property C06 (truncated or damaged PBF input ends in an
// error after a correct prefix).
//
// Every scan runs in a child process (package pbfrun), so a decoder panic or a hang is an
// observation.  Case kinds (first token):
//
//	1 TRUNC : procs frames | runs          -- EVERY byte offset of the file is a cut; the
//	          observations of consecutive cuts are run-length coded (k_lo k_hi objs outcome)
//	2 DAMAGE: frames damaged_frame | (procs objs outcome)*   -- one damage class at one block
//	3 WHOLE : frames | (procs objs outcome)*   -- a valid file at the limits: every object, no error
//	4 TRAILER: like 2, for bytes after a complete zlib stream (error or success with everything)
//	5 SKIPDMG: skip flags, frames, damaged_frame | (procs objs outcome)* | tree   -- in-block damage
//	          inside an element kind the scan skips: success with the objects of the other kinds
//
// outcome: 0 Err()==nil, 1 Err()!=nil, 2 the process crashed, 3 hang.
package main

import (
	"bytes"
	"compress/zlib"
	"fmt"
	"math"
	"math/rand"
	"os"
	"strings"

	"verif/harness/pbfgen"
	"verif/harness/pbfrun"
	"verif/harness/pbfwire"
	"verif/harness/wire"
)

var procsList = []int{1, 2, 5}

// decoder counts outside the documented range (Start clamps n < 1 to 1): every class also runs with
// one of them, rotating
var oddProcs = []int{0, -1, -7}

// how the bytes reach the decoder (pbfrun.Job.Reader), rotating over the scans of a run: plain
// bytes.Reader, last bytes together with io.EOF, one byte per Read, short chunks, short chunks with
// (0, nil) now and then.  The model does not depend on it: io.ReadFull hides all of that.
var readerRot int
var readerUse = map[int]int{}

func nextReader() int {
	readerRot++
	k := []int{0, 1, 0, 2, 3, 1, 4, 0}[readerRot%8]
	readerUse[k]++
	lastReader = k
	return k
}

// lastReader: the reader kind of the scan(s) started last (recorded in the case descriptions)
var lastReader int

var oddRot int

func oddProc() int { oddRot++; return oddProcs[oddRot%len(oddProcs)] }

type file struct {
	seed   int64
	opts   pbfgen.Opts
	desc   *pbfgen.FileDesc
	data   []byte
	frames []pbfgen.Frame
	// hook, when set, rewrites BlobHeader/Blob trees at encoding time (see encodeHook)
	hook func(idx int, h, b []pbfgen.Field) ([]pbfgen.Field, []pbfgen.Field)
	// empties: positions at which intact empty blocks were inserted (kept by build copies)
	empties []emptyAt
	// allocLimit > 0: the scans of this file also report the MiB the Go heap handed out, and more
	// than allocLimit is an oracle failure (zip bomb: memory must follow raw_size, not the stream)
	allocLimit int64
	// what observeDamage saw of such a file: (procs, MiB) per scan, the frame description and the
	// index of the damaged frame, for the ALLOC case judged in Coq
	allocs  [][2]int64
	lastFds []pbfrun.FrameDesc
	lastDmg int
}

type emptyAt struct {
	at   int
	zlib bool
}

func build(seed int64, opts pbfgen.Opts) *file {
	d := pbfgen.RandomFile(rand.New(rand.NewSource(seed)), opts)
	pbfrun.Renumber(d)
	return &file{seed: seed, opts: opts, desc: d}
}

// withEmpties inserts the intact empty blocks (deterministically, so that copies agree)
func (f *file) withEmpties(es []emptyAt) *file {
	for _, e := range es {
		at := e.at
		if at > len(f.desc.Blocks) {
			at = len(f.desc.Blocks)
		}
		f.desc.Blocks = append(f.desc.Blocks, nil)
		copy(f.desc.Blocks[at+1:], f.desc.Blocks[at:])
		f.desc.Blocks[at] = emptyBlock(e.zlib)
	}
	f.empties = es
	return f
}

func (f *file) encode() {
	if f.hook != nil {
		f.data, f.frames = encodeHook(f.desc, f.hook)
		return
	}
	f.data, f.frames = pbfgen.Encode(f.desc)
}

// emptyBlock: an intact PrimitiveBlock with no field at all (payload of zero bytes), as a raw blob
// or as a zlib blob (raw_size 0, the zlib encoding of the empty string).
func emptyBlock(z bool) *pbfgen.Block {
	b := &pbfgen.Block{OmitStringTable: true}
	b.Zlib = z
	return b
}

func genFile(rng *rand.Rand, maxSize int, noHeader bool) *file {
	for {
		opts := pbfgen.Opts{MinBlocks: 1, MaxBlocks: 4, MaxGroups: 2, MaxItems: 3, MaxTags: 2, MaxRefs: 3, MaxMembers: 3,
			ExtremePct: -1, NoHeader: noHeader}
		f := build(rng.Int63(), opts)
		// every other file carries one or two intact EMPTY blocks (zero-byte payload; zlib with
		// raw_size 0, or raw) somewhere, also in the middle
		if rng.Intn(2) == 0 {
			es := []emptyAt{{rng.Intn(len(f.desc.Blocks) + 1), true}}
			if rng.Intn(2) == 0 {
				es = append(es, emptyAt{rng.Intn(len(f.desc.Blocks) + 2), false})
			}
			f.withEmpties(es)
		}
		f.encode()
		if len(f.data) <= maxSize {
			return f
		}
	}
}

func outcome(o *pbfrun.Obs) int64 {
	switch {
	case o.Crash:
		return 2
	case o.Hang:
		return 3
	case o.Err != 0:
		return 1
	}
	return 0
}

func eqToks(a, b []uint64) bool {
	if len(a) != len(b) {
		return false
	}
	for i := range a {
		if a[i] != b[i] {
			return false
		}
	}
	return true
}

type run struct {
	Lo, Hi  int
	Objs    []uint64
	Outcome int64
	Msg     string
	// FullyScannedBytes / PreviousFullyScannedBytes once Scan has returned false
	EndFSB, EndPFSB int64
}

// ---- truncation ----

type truncParts struct {
	procs int
	fds   []pbfrun.FrameDesc
	runs  []run
}

var lastTrunc *truncParts

func emitTrunc(procs int, fds []pbfrun.FrameDesc, runs []run) *wire.Case {
	c := &wire.Case{Class: "trunc"}
	c.Int(1).Int(int64(procs))
	pbfrun.EmitFrames(c, fds)
	c.Len(len(runs))
	for _, rn := range runs {
		c.Int(int64(rn.Lo)).Int(int64(rn.Hi))
		pbfrun.EmitToks(c, rn.Objs)
		c.Int(rn.Outcome)
		c.Int(rn.EndFSB).Int(rn.EndPFSB)
	}
	return c
}

func copyRuns(r []run) []run {
	out := make([]run, len(r))
	for i := range r {
		out[i] = r[i]
		out[i].Objs = append([]uint64{}, r[i].Objs...)
	}
	return out
}

func truncCase(w *wire.Writer, r *pbfrun.Runner, f *file, procs int, headerFirst bool) (*wire.Case, error) {
	fds := pbfrun.Describe(f.desc, f.data, f.frames, [3]bool{}, nil)
	units := make([]int, len(f.data)+1)
	for i := range units {
		units[i] = i
	}
	obs, err := r.Run(pbfrun.Job{Reader: nextReader(), Data: f.data, Procs: procs, Mode: "cut", Units: units, HeaderFirst: headerFirst})
	if err != nil {
		return nil, err
	}
	var runs []run
	for i := range obs {
		if obs[i].Skipped {
			obs = obs[:i] // the runner gave up after repeated hangs: a partial sweep (flagged by Coq)
			break
		}
	}
	if len(obs) == 0 {
		return nil, nil // the runner had given up before this sweep: nothing was observed
	}
	for i := range obs {
		o := &obs[i]
		oc := outcome(o)
		msg := o.ErrText
		if o.Crash {
			msg = o.CrashMsg
		}
		if n := len(runs); n > 0 && runs[n-1].Outcome == oc && eqToks(runs[n-1].Objs, o.Objs) && runs[n-1].Hi+1 == o.Unit &&
			runs[n-1].EndFSB == o.EndFSB && runs[n-1].EndPFSB == o.EndPFSB {
			runs[n-1].Hi = o.Unit
		} else {
			runs = append(runs, run{o.Unit, o.Unit, append([]uint64{}, o.Objs...), oc, msg, o.EndFSB, o.EndPFSB})
		}
	}
	// Go-side oracle: objects of the blocks wholly before the cut; success iff boundary
	boundary := map[int]bool{0: true}
	type blk struct {
		end  int
		objs []uint64
	}
	var blks []blk
	off := 0
	for i := range fds {
		off += int(fds[i].Size())
		boundary[off] = true
		if fds[i].Block >= 0 {
			blks = append(blks, blk{off, fds[i].Objs})
		}
	}
	oracle := ""
	for i := range obs {
		o := &obs[i]
		var exp []uint64
		for _, b := range blks {
			if b.end <= o.Unit {
				exp = append(exp, b.objs...)
			}
		}
		expOut := int64(1)
		if boundary[o.Unit] {
			expOut = 0
		}
		if outcome(o) != expOut || !eqToks(exp, o.Objs) {
			how := o.ErrText + o.CrashMsg
			if o.Hang {
				how += "the scan did not return (killed by the watchdog)"
			}
			if headerFirst {
				how = "[Header() called first] " + how
			}
			oracle = fmt.Sprintf("cut %d of %d: observed %d objects outcome %d (%s), expected %d objects outcome %d",
				o.Unit, len(f.data), len(o.Objs), outcome(o), how, len(exp), expOut)
			break
		}
	}
	c := emitTrunc(procs, fds, runs)
	c.OracleFail = oracle
	c.Desc = map[string]interface{}{"reader_kind": lastReader, "kind": "truncation sweep: every cut 0..size", "file_seed": f.seed, "size": len(f.data),
		"procs": procs, "header_called_first": headerFirst, "frames": fds, "runs": runs, "file": f.desc}
	if headerFirst {
		c.Class = "trunc:header_first"
	}
	lastTrunc = &truncParts{procs, fds, runs}
	w.Count(fmt.Sprintf("trunc:procs=%d", procs))
	w.Stats["trunc:cuts"] += len(units)
	w.Stats["trunc:frames"] += len(fds)
	return c, nil
}

// ---- damage ----

type dmg struct {
	name    string
	header  bool // applicable to the header block
	data    bool // applicable to data blocks
	inBlock bool
	apply   func(f *file, pos int, rng *rand.Rand) bool
}

func opts(f *file, pos int) *pbfgen.BlobOpts {
	if pos < 0 {
		return &f.desc.Header.BlobOpts
	}
	return &f.desc.Blocks[pos].BlobOpts
}

func blobDamage(name string, fn func(o *pbfgen.BlobOpts, d *pbfgen.Damage)) dmg {
	return dmg{name: name, header: true, data: true, apply: func(f *file, pos int, _ *rand.Rand) bool {
		o := opts(f, pos)
		o.Damage = &pbfgen.Damage{}
		fn(o, o.Damage)
		return true
	}}
}

func deflateEmpty() []byte {
	var buf bytes.Buffer
	zw := zlib.NewWriter(&buf)
	zw.Close()
	return buf.Bytes()
}

// blobTreeDamage replaces the Blob message of the block by mk(payload) and fixes datasize
func blobTreeDamage(name string, mk func(payload []byte) []pbfgen.Field) dmg {
	return dmg{name: name, header: true, data: true, apply: func(f *file, pos int, _ *rand.Rand) bool {
		o := opts(f, pos)
		o.Zlib, o.RawSizeOnRaw, o.Damage = false, false, nil
		f.hook = func(idx int, h, b []pbfgen.Field) ([]pbfgen.Field, []pbfgen.Field) {
			if idx != pos {
				return h, b
			}
			var payload []byte
			for i := range b {
				if b[i].Num == 1 && b[i].Kind == pbfgen.KBytes {
					payload = b[i].Bytes
				}
			}
			nb := mk(payload)
			ds := len(pbfgen.Serialize(nb))
			for i := range h {
				if h[i].Num == 3 && h[i].Kind == pbfgen.KVarint {
					h[i].Var = uint64(ds)
				}
			}
			return h, nb
		}
		return true
	}}
}

// a fresh group with a crafted item is inserted into the block
func inBlock(name string, mk func(b *pbfgen.Block, bad uint32, rng *rand.Rand) pbfgen.Item) dmg {
	return dmg{name: name, data: true, inBlock: true, apply: func(f *file, pos int, rng *rand.Rand) bool {
		b := f.desc.Blocks[pos]
		if len(b.Strings) == 0 {
			b.Strings = []string{""}
		}
		b.Sid("k")
		b.Sid("v")
		bad := uint32(len(b.Strings))
		if rng.Intn(3) == 0 {
			bad += uint32(1 + rng.Intn(40))
		}
		it := mk(b, bad, rng)
		g := &pbfgen.Group{Items: []pbfgen.Item{it}}
		at := rng.Intn(len(b.Groups) + 1)
		b.Groups = append(b.Groups, nil)
		copy(b.Groups[at+1:], b.Groups[at:])
		b.Groups[at] = g
		return true
	}}
}

func goodDense(b *pbfgen.Block) *pbfgen.Dense {
	return &pbfgen.Dense{Nodes: []pbfgen.DenseNode{
		{ID: 900001, Lat: 10, Lon: 20, Info: pbfgen.Info{Version: 1, UserSid: 1, Visible: true}, Tags: []pbfgen.Tag{{K: 1, V: 2}}},
		{ID: 900002, Lat: 11, Lon: 21, Info: pbfgen.Info{Version: 2, UserSid: 1, Visible: true}},
		{ID: 900003, Lat: 12, Lon: 22, Info: pbfgen.Info{Version: 3, UserSid: 2, Visible: true}, Tags: []pbfgen.Tag{{K: 2, V: 1}}},
	}, HasInfo: true, Cols: pbfgen.AllInfo, HasKeysVals: true}
}
func goodWay() *pbfgen.Way {
	return &pbfgen.Way{ID: 900010, HasInfo: true, Fields: pbfgen.AllInfo, Info: pbfgen.Info{Version: 1, UserSid: 1, Visible: true},
		Tags: []pbfgen.Tag{{K: 1, V: 2}, {K: 2, V: 1}}, Refs: []int64{5, 6, 7}, HasLocs: true, Lats: []int64{1, 2, 3}, Lons: []int64{4, 5, 6}}
}
func goodRel() *pbfgen.Relation {
	return &pbfgen.Relation{ID: 900020, HasInfo: true, Fields: pbfgen.AllInfo, Info: pbfgen.Info{Version: 1, UserSid: 1, Visible: true},
		Tags:    []pbfgen.Tag{{K: 1, V: 2}},
		Members: []pbfgen.Member{{Type: 0, Ref: 5, RoleSid: 1}, {Type: 1, Ref: 6, RoleSid: 2}, {Type: 2, Ref: 7, RoleSid: 0}}}
}

func denseDmg(name string, fn func(d *pbfgen.Dense, bad uint32)) dmg {
	return inBlock(name, func(b *pbfgen.Block, bad uint32, _ *rand.Rand) pbfgen.Item {
		d := goodDense(b)
		fn(d, bad)
		return pbfgen.Item{Dense: d}
	})
}
func wayDmg(name string, fn func(w *pbfgen.Way, bad uint32)) dmg {
	return inBlock(name, func(b *pbfgen.Block, bad uint32, _ *rand.Rand) pbfgen.Item {
		w := goodWay()
		fn(w, bad)
		return pbfgen.Item{Way: w}
	})
}
func relDmg(name string, fn func(r *pbfgen.Relation, bad uint32)) dmg {
	return inBlock(name, func(b *pbfgen.Block, bad uint32, _ *rand.Rand) pbfgen.Item {
		r := goodRel()
		fn(r, bad)
		return pbfgen.Item{Relation: r}
	})
}

func zl(o *pbfgen.BlobOpts) { o.Zlib = true }

func damages() []dmg {
	l := []dmg{
		blobDamage("prefix_64k", func(o *pbfgen.BlobOpts, d *pbfgen.Damage) { d.SizePrefix = pbfgen.U32(65536) }),
		blobDamage("prefix_max", func(o *pbfgen.BlobOpts, d *pbfgen.Damage) { d.SizePrefix = pbfgen.U32(math.MaxUint32) }),
		blobDamage("datasize_32m", func(o *pbfgen.BlobOpts, d *pbfgen.Damage) { d.Datasize = pbfgen.I32(32 * 1024 * 1024) }),
		blobDamage("datasize_neg", func(o *pbfgen.BlobOpts, d *pbfgen.Damage) { d.Datasize = pbfgen.I32(-1) }),
		blobDamage("datasize_min", func(o *pbfgen.BlobOpts, d *pbfgen.Damage) { d.Datasize = pbfgen.I32(math.MinInt32) }),
		{name: "datasize_past_end", header: true, data: true, apply: func(f *file, pos int, _ *rand.Rand) bool {
			f.encode()
			off := -1
			for _, fr := range f.frames {
				if fr.Block == pos && fr.Kind == "blob" {
					off = fr.Off
				}
			}
			o := opts(f, pos)
			o.Damage = &pbfgen.Damage{Datasize: pbfgen.I32(int32(len(f.data) - off + 1))}
			return true
		}},
		blobDamage("rawsize_plus1", func(o *pbfgen.BlobOpts, d *pbfgen.Damage) { zl(o); d.RawSize = pbfgen.I32(-1000001) }), // patched below
		blobDamage("rawsize_minus1", func(o *pbfgen.BlobOpts, d *pbfgen.Damage) { zl(o); d.RawSize = pbfgen.I32(-1000002) }),
		blobDamage("rawsize_zero", func(o *pbfgen.BlobOpts, d *pbfgen.Damage) { zl(o); d.RawSize = pbfgen.I32(0) }),
		blobDamage("rawsize_neg", func(o *pbfgen.BlobOpts, d *pbfgen.Damage) { zl(o); d.RawSize = pbfgen.I32(-1) }),
		blobDamage("rawsize_33m", func(o *pbfgen.BlobOpts, d *pbfgen.Damage) { zl(o); d.RawSize = pbfgen.I32(32*1024*1024 + 5) }),
		blobDamage("rawsize_2e9", func(o *pbfgen.BlobOpts, d *pbfgen.Damage) { zl(o); d.RawSize = pbfgen.I32(2000000000) }),
		blobDamage("zlib_checksum", func(o *pbfgen.BlobOpts, d *pbfgen.Damage) { zl(o); d.CorruptZlib = 1 }),
		blobDamage("zlib_middle", func(o *pbfgen.BlobOpts, d *pbfgen.Damage) { zl(o); d.CorruptZlib = 2 }),
		blobDamage("zlib_header", func(o *pbfgen.BlobOpts, d *pbfgen.Damage) { zl(o); d.CorruptZlib = 4 }),
		blobDamage("no_data", func(o *pbfgen.BlobOpts, d *pbfgen.Damage) { d.NoData = true }),
		blobDamage("empty_blob", func(o *pbfgen.BlobOpts, d *pbfgen.Damage) { d.EmptyBlob = true }),
		// the blob message itself rewritten (payload taken from the raw field the writer produced)
		blobTreeDamage("zlib_empty_stream", func(payload []byte) []pbfgen.Field {
			// a valid zlib stream that inflates to ZERO bytes while raw_size announces the payload
			return []pbfgen.Field{{Num: 2, Kind: pbfgen.KVarint, Var: uint64(len(payload))}, {Num: 3, Kind: pbfgen.KBytes, Bytes: deflateEmpty()}}
		}),
		blobTreeDamage("zlib_data_empty", func(payload []byte) []pbfgen.Field {
			// zlib_data present but zero bytes long
			return []pbfgen.Field{{Num: 2, Kind: pbfgen.KVarint, Var: uint64(len(payload))}, {Num: 3, Kind: pbfgen.KBytes, Bytes: []byte{}}}
		}),
		blobTreeDamage("lz4_data", func(payload []byte) []pbfgen.Field {
			return []pbfgen.Field{{Num: 2, Kind: pbfgen.KVarint, Var: uint64(len(payload))}, {Num: 6, Kind: pbfgen.KBytes, Bytes: payload}}
		}),
		blobTreeDamage("zstd_data", func(payload []byte) []pbfgen.Field {
			return []pbfgen.Field{{Num: 2, Kind: pbfgen.KVarint, Var: uint64(len(payload))}, {Num: 7, Kind: pbfgen.KBytes, Bytes: payload}}
		}),
		blobDamage("type_other", func(o *pbfgen.BlobOpts, d *pbfgen.Damage) { d.BlobType = pbfgen.Str("OSMFoo") }),
		{name: "type_header_again", data: true, apply: func(f *file, pos int, _ *rand.Rand) bool {
			if f.desc.Header == nil && pos == 0 {
				return false // a first block labelled OSMHeader is read as the header: not this class
			}
			o := opts(f, pos)
			o.Damage = &pbfgen.Damage{BlobType: pbfgen.Str("OSMHeader")}
			return true
		}},
		{name: "feature", header: true, apply: func(f *file, pos int, rng *rand.Rand) bool {
			h := f.desc.Header
			at := rng.Intn(len(h.Required) + 1)
			h.Required = append(h.Required, "")
			copy(h.Required[at+1:], h.Required[at:])
			h.Required[at] = "Frobnicate-V9"
			return true
		}},
		denseDmg("dense_omit_ids", func(d *pbfgen.Dense, _ uint32) { d.OmitIDs = true }),
		denseDmg("dense_omit_lats", func(d *pbfgen.Dense, _ uint32) { d.OmitLats = true }),
		denseDmg("dense_omit_lons", func(d *pbfgen.Dense, _ uint32) { d.OmitLons = true }),
		denseDmg("dense_short_lat", func(d *pbfgen.Dense, _ uint32) { d.Trim = map[string]int{"lat": 1} }),
		denseDmg("dense_short_lon", func(d *pbfgen.Dense, _ uint32) { d.Trim = map[string]int{"lon": 2} }),
		denseDmg("dense_short_version", func(d *pbfgen.Dense, _ uint32) { d.Trim = map[string]int{"version": 1} }),
		denseDmg("dense_short_usersid", func(d *pbfgen.Dense, _ uint32) { d.Trim = map[string]int{"user_sid": 1} }),
		denseDmg("dense_short_keysvals", func(d *pbfgen.Dense, _ uint32) { d.Trim = map[string]int{"keys_vals": 1} }),
		// keys_vals ends right after a node's 0 delimiter before every node is covered
		denseDmg("dense_keysvals_node_boundary", func(d *pbfgen.Dense, _ uint32) { d.Trim = map[string]int{"keys_vals": 3} }),
		denseDmg("dense_keysvals_one_node", func(d *pbfgen.Dense, _ uint32) { d.Trim = map[string]int{"keys_vals": 4} }),
		denseDmg("sid_dense_key", func(d *pbfgen.Dense, bad uint32) { d.Nodes[2].Tags[0].K = bad }),
		denseDmg("sid_dense_val", func(d *pbfgen.Dense, bad uint32) { d.Nodes[0].Tags[0].V = bad }),
		denseDmg("sid_dense_key_neg", func(d *pbfgen.Dense, bad uint32) { d.Nodes[0].Tags[0].K = math.MaxUint32 }),
		denseDmg("sid_dense_user", func(d *pbfgen.Dense, bad uint32) { d.Nodes[1].Info.UserSid = bad }),
		wayDmg("sid_way_key", func(w *pbfgen.Way, bad uint32) { w.Tags[1].K = bad }),
		wayDmg("sid_way_val", func(w *pbfgen.Way, bad uint32) { w.Tags[0].V = bad }),
		wayDmg("sid_way_user", func(w *pbfgen.Way, bad uint32) { w.Info.UserSid = bad }),
		wayDmg("way_lat_longer", func(w *pbfgen.Way, _ uint32) { w.Trim = map[string]int{"lat": -1} }),
		wayDmg("way_lon_longer", func(w *pbfgen.Way, _ uint32) { w.Trim = map[string]int{"lon": -2} }),
		wayDmg("way_refs_shorter", func(w *pbfgen.Way, _ uint32) { w.Trim = map[string]int{"refs": 1} }),
		wayDmg("way_lat_shorter", func(w *pbfgen.Way, _ uint32) { w.Trim = map[string]int{"lat": 1} }),
		wayDmg("way_vals_shorter", func(w *pbfgen.Way, _ uint32) { w.Trim = map[string]int{"vals": 1} }),
		relDmg("sid_rel_key", func(r *pbfgen.Relation, bad uint32) { r.Tags[0].K = bad }),
		relDmg("sid_rel_user", func(r *pbfgen.Relation, bad uint32) { r.Info.UserSid = bad }),
		relDmg("sid_rel_role", func(r *pbfgen.Relation, bad uint32) { r.Members[1].RoleSid = int32(bad) }),
		relDmg("sid_rel_role_neg", func(r *pbfgen.Relation, bad uint32) { r.Members[2].RoleSid = -1 }),
		relDmg("rel_roles_longer", func(r *pbfgen.Relation, _ uint32) { r.Trim = map[string]int{"roles": -1} }),
		relDmg("rel_types_shorter", func(r *pbfgen.Relation, _ uint32) { r.Trim = map[string]int{"types": 1} }),
		relDmg("rel_memids_shorter", func(r *pbfgen.Relation, _ uint32) { r.Trim = map[string]int{"memids": 1} }),
		relDmg("rel_roles_shorter", func(r *pbfgen.Relation, _ uint32) { r.Trim = map[string]int{"roles": 1} }),
		relDmg("rel_vals_shorter", func(r *pbfgen.Relation, _ uint32) { r.Trim = map[string]int{"vals": 1} }),
		// the block's string table is missing altogether while its elements keep their references
		// (every reference is out of range; a decoder that reuses its previous block's table
		// would not notice)
		inBlock("stringtable_removed_way", func(b *pbfgen.Block, _ uint32, _ *rand.Rand) pbfgen.Item {
			b.OmitStringTable = true
			return pbfgen.Item{Way: goodWay()}
		}),
		inBlock("stringtable_removed_dense", func(b *pbfgen.Block, _ uint32, _ *rand.Rand) pbfgen.Item {
			b.OmitStringTable = true
			return pbfgen.Item{Dense: goodDense(b)}
		}),
		inBlock("stringtable_removed_rel", func(b *pbfgen.Block, _ uint32, _ *rand.Rand) pbfgen.Item {
			b.OmitStringTable = true
			return pbfgen.Item{Relation: goodRel()}
		}),
		inBlock("plain_node", func(b *pbfgen.Block, _ uint32, _ *rand.Rand) pbfgen.Item {
			return pbfgen.Item{Node: &pbfgen.PlainNode{ID: 900030, Lat: 1, Lon: 2}}
		}),
	}
	// several parallel columns damaged BY THE SAME AMOUNT (a check that compares the damaged columns
	// with each other instead of with the column that counts the elements does not see it).  For
	// every group of parallel columns of the format: every subset that leaves at least one column of
	// the group as it was; shortened by 1 and 2, lengthened by 1 where a longer
	// column is damage too (way and relation columns; a dense column longer than ids is not read).
	sameName := func(kind string, cols []string, n int) string {
		return fmt.Sprintf("%s_same_%s_%+d", kind, strings.Join(cols, "+"), -n)
	}
	trimAll := func(cols []string, n int) map[string]int {
		m := map[string]int{}
		for _, c := range cols {
			m[c] = n
		}
		return m
	}
	for _, cols := range [][]string{{"lat", "lon"}, {"refs", "lat"}, {"refs", "lon"}} {
		for _, n := range []int{1, 2, -1} { // (lat and lon both emptied = a way without locations: valid)
			cols, n := cols, n
			l = append(l, wayDmg(sameName("way", cols, n), func(w *pbfgen.Way, _ uint32) { w.Trim = trimAll(cols, n) }))
		}
	}
	for _, cols := range [][]string{{"roles", "memids"}, {"roles", "types"}, {"memids", "types"}} {
		for _, n := range []int{1, 2, -1} {
			cols, n := cols, n
			l = append(l, relDmg(sameName("rel", cols, n), func(r *pbfgen.Relation, _ uint32) { r.Trim = trimAll(cols, n) }))
		}
	}
	for _, cols := range [][]string{{"lat", "lon"}, {"lat", "version"}, {"version", "uid"}, {"timestamp", "changeset", "uid"},
		{"lat", "lon", "user_sid"}, {"version", "timestamp", "changeset", "uid", "user_sid", "visible"},
		{"lat", "lon", "version", "timestamp", "changeset", "uid", "user_sid", "visible"}} {
		for _, n := range []int{1, 2} {
			cols, n := cols, n
			l = append(l, denseDmg(sameName("dense", cols, n), func(d *pbfgen.Dense, _ uint32) { d.Trim = trimAll(cols, n) }))
		}
	}
	return l
}

// payloadLen: length of the serialized payload of block pos (for raw_size +-1)
func payloadLen(f *file, pos int) int {
	if pos < 0 {
		return len(pbfgen.Serialize(pbfgen.HeaderTree(f.desc.Header)))
	}
	return len(pbfgen.Serialize(pbfgen.BlockTree(f.desc.Blocks[pos])))
}

func damageCase(w *wire.Writer, r *pbfrun.Runner, base *file, dm *dmg, pos int, rng *rand.Rand) (*wire.Case, error) {
	f := build(base.seed, base.opts).withEmpties(base.empties) // fresh copy of the same description
	if !dm.apply(f, pos, rng) {
		return nil, nil
	}
	if (dm.name == "rawsize_zero" || dm.name == "zlib_empty_stream") && payloadLen(f, pos) == 0 {
		return nil, nil // raw_size 0 / an empty stream is what an intact empty block has
	}
	if o := opts(f, pos); o.Damage != nil && o.Damage.RawSize != nil {
		switch *o.Damage.RawSize {
		case -1000001:
			o.Damage.RawSize = pbfgen.I32(int32(payloadLen(f, pos) + 1))
		case -1000002:
			o.Damage.RawSize = pbfgen.I32(int32(payloadLen(f, pos) - 1))
		}
	}
	f.encode()
	c, err := observeDamage(w, r, f, dm.name, pos, dm.inBlock, 2)
	if err == nil && !dm.inBlock {
		err = observeDamageSkips(w, r, f, dm.name, pos, 2)
	}
	return c, err
}

// sessionCase: one scanner driven by a call script (Scan, Err, Header, Close in any order, going on
// well after Scan has returned false, Close after the end and sometimes in mid-scan); case kind 7,
// judged in Coq against the scanner.go model of C06/Session.v ("... then stops"; Close returns).
// mode 0: data[:k] of a valid file; mode 1: a damaged file, k = index of the damaged frame.
func sessionCase(w *wire.Writer, r *pbfrun.Runner, f *file, fds []pbfrun.FrameDesc, mode, k int, class string, rng *rand.Rand) (*wire.Case, error) {
	n := 0
	for i := range fds {
		n += len(fds[i].Objs)
	}
	var calls []int
	if rng.Intn(3) == 0 {
		calls = append(calls, 2)
	}
	for i := 0; i <= n; i++ {
		calls = append(calls, 0)
		if rng.Intn(6) == 0 {
			calls = append(calls, 1+rng.Intn(2))
		}
	}
	for i := 0; i < 6; i++ { // after the end: anything
		calls = append(calls, rng.Intn(3))
	}
	calls = append(calls, 0, 1, 2, 0, 1)
	if mode == 0 && rng.Intn(4) == 0 { // Close in mid-scan (the scanner has been started by then)
		at := 1 + rng.Intn(len(calls)-1)
		calls = append(calls[:at], append([]int{3}, calls[at:]...)...)
	}
	calls = append(calls, 3, 0, 1, 2, 3, 1) // Close must return; then nothing comes back to life
	procs := append(append([]int{}, procsList...), oddProcs...)[rng.Intn(len(procsList)+len(oddProcs))]
	cut := len(f.data)
	if mode == 0 {
		cut = k
	}
	obs, err := r.Run(pbfrun.Job{Reader: nextReader(), Data: f.data, Procs: procs, Mode: "session", Units: []int{cut}, Calls: calls})
	if err != nil {
		return nil, err
	}
	o := &obs[0]
	c := &wire.Case{Class: class}
	c.Int(7)
	c.Int(int64(mode))
	pbfrun.EmitFrames(c, fds)
	c.Int(int64(k))
	c.Len(len(calls))
	for _, x := range calls {
		c.Int(int64(x))
	}
	if o.Crash || o.Hang || o.Skipped || len(o.Resp) != len(calls) {
		how := o.CrashMsg
		if o.Hang {
			how = "a call did not return (killed by the watchdog)"
		}
		c.OracleFail = fmt.Sprintf("%s, procs %d, calls %v (0 Scan 1 Err 2 Header 3 Close): crash, hang or missing responses: %s", class, procs, calls, how)
		o.Resp, o.RespTok = nil, nil
	}
	c.Len(len(o.Resp))
	for i := range o.Resp {
		c.Int(o.Resp[i])
		c.Tok(o.RespTok[i])
	}
	c.Desc = map[string]interface{}{"reader_kind": lastReader, "kind": "call script", "mode (0 cut valid file, 1 damaged file)": mode, "file_seed": f.seed, "size": len(f.data), "k": k, "procs": procs,
		"calls (0 Scan 1 Err 2 Header 3 Close)": calls, "responses": o.Resp}
	return c, nil
}

// skipKind: the element kind (0 nodes, 1 ways, 2 relations) an in-block damage class lives in, or
// -1 when skipping one kind does not hide the damage (framing damage, a removed string table, a
// plain Node group: rejected before the skip flags are looked at)
func skipKind(dm *dmg) int {
	if !dm.inBlock || strings.HasPrefix(dm.name, "stringtable_removed") || dm.name == "plain_node" {
		return -1
	}
	switch {
	case strings.Contains(dm.name, "dense"):
		return 0
	case strings.Contains(dm.name, "way"):
		return 1
	case strings.Contains(dm.name, "rel"):
		return 2
	}
	return -1
}

// skipDamageCase: the same damaged file scanned with the Skip flag of the damaged element kind.
// The scanner does not read a kind it skips (decode_data.go steps over the field), so the damage
// cannot be noticed: the expected outcome is success with every element of the other kinds, the
// damaged block's included (Coq: C06/Skip.v skipped_kind_is_not_read; case kind 5).
func skipDamageCase(w *wire.Writer, r *pbfrun.Runner, base *file, dm *dmg, pos int, rng *rand.Rand) (*wire.Case, error) {
	k := skipKind(dm)
	if k < 0 {
		return nil, nil
	}
	f := build(base.seed, base.opts).withEmpties(base.empties)
	if !dm.apply(f, pos, rng) {
		return nil, nil
	}
	f.encode()
	var skip [3]bool
	skip[k] = true
	if rng.Intn(3) == 0 {
		skip[(k+1+rng.Intn(2))%3] = true
	}
	// the description the objects are computed from: the damaged block without the items of the
	// skipped kinds (their content is damaged and is not to be read, by the oracle either)
	dd := *f.desc
	dd.Blocks = append([]*pbfgen.Block{}, f.desc.Blocks...)
	nb := *f.desc.Blocks[pos]
	nb.Groups = nil
	for _, g := range f.desc.Blocks[pos].Groups {
		ng := &pbfgen.Group{}
		for _, it := range g.Items {
			if (it.Dense != nil && skip[0]) || (it.Way != nil && skip[1]) || (it.Relation != nil && skip[2]) {
				continue
			}
			ng.Items = append(ng.Items, it)
		}
		nb.Groups = append(nb.Groups, ng)
	}
	dd.Blocks[pos] = &nb
	fds := pbfrun.Describe(&dd, f.data, f.frames, skip, nil)
	var exp []uint64
	di := -1
	for i := range fds {
		if fds[i].Block == pos {
			di = i
		}
		exp = append(exp, fds[i].Objs...)
	}
	c := &wire.Case{Class: "skipdmg:" + dm.name}
	c.Int(5)
	c.Bool(skip[0])
	c.Bool(skip[1])
	c.Bool(skip[2])
	pbfrun.EmitFrames(c, fds)
	c.Int(int64(di))
	ps := append(append([]int{}, procsList...), oddProc())
	c.Len(len(ps))
	var seen []interface{}
	for _, p := range ps {
		obs, err := r.Run(pbfrun.Job{Reader: nextReader(), Data: f.data, Procs: p, Skip: skip, Mode: "cut", Units: []int{len(f.data)}})
		if err != nil {
			return nil, err
		}
		o := &obs[0]
		oc := outcome(o)
		c.Int(int64(p))
		pbfrun.EmitToks(c, o.Objs)
		c.Int(oc)
		c.Int(o.EndFSB).Int(o.EndPFSB)
		seen = append(seen, map[string]interface{}{"procs": p, "objs": o.Objs, "outcome": oc, "msg": o.ErrText + o.CrashMsg})
		if c.OracleFail == "" && (oc != 0 || !eqToks(o.Objs, exp)) {
			c.OracleFail = fmt.Sprintf("damage %s at block %d inside an element kind the scan skips (skip %v), procs %d: %d objects outcome %d (%s), expected the %d objects of the other kinds and no error",
				dm.name, pos, skip, p, len(o.Objs), oc, o.ErrText+o.CrashMsg, len(exp))
		}
		w.Count(fmt.Sprintf("skipdmg:outcome=%d", oc))
	}
	payload := pbfgen.Serialize(pbfgen.BlockTree(f.desc.Blocks[pos]))
	tree, err := pbfgen.Parse(payload, pbfgen.BlockSchema)
	if err != nil {
		return nil, err
	}
	if err := pbfwire.PutTree(c, tree); err != nil {
		return nil, err
	}
	c.Desc = map[string]interface{}{"kind": "in-block damage inside a skipped element kind", "class": dm.name, "block": pos, "skip": skip,
		"file_seed": f.seed, "size": len(f.data), "observed": seen, "expected_objects": exp, "file": f.desc}
	return c, nil
}

// damageSkip: the Skip flags observeDamage scans (and describes) the file with
var damageSkip [3]bool
var skipRot int

// observeDamageSkips: the same blob-level damage under Skip flags.  Damage of the framing, of the
// Blob and of its compression must be reported whatever element kinds the caller wants: always
// with all three flags set (nothing of the block is wanted, the block must still be read), and
// with one more of the other six combinations, rotating.
func observeDamageSkips(w *wire.Writer, r *pbfrun.Runner, f *file, name string, pos int, tag int64) error {
	skipRot++
	others := [][3]bool{{true, false, false}, {false, true, false}, {false, false, true}, {true, true, false}, {true, false, true}, {false, true, true}}
	sets := [][3]bool{{true, true, true}, others[skipRot%6]}
	defer func() { damageSkip = [3]bool{} }()
	for _, sk := range sets {
		if r.GaveUp() {
			return nil
		}
		damageSkip = sk
		c, err := observeDamage(w, r, f, fmt.Sprintf("%s:skip=%v", name, sk), pos, false, tag)
		if err != nil {
			return err
		}
		w.Add(c)
	}
	return nil
}

// observeDamage scans the (already encoded) damaged file with every decoder count and writes the
// case.  tag 2: the scan must end in an error after the intact blocks; tag 4 (zlib stream without
// its adler32 trailer, data intact): either that, or success with every object.
func observeDamage(w *wire.Writer, r *pbfrun.Runner, f *file, name string, pos int, inBlock bool, tag int64) (*wire.Case, error) {
	inb := map[int]bool{}
	if inBlock {
		inb[pos] = true
	}
	fds := pbfrun.Describe(f.desc, f.data, f.frames, damageSkip, inb)
	var all []uint64
	for i := range fds {
		all = append(all, fds[i].Objs...)
	}
	di := -1
	var exp []uint64
	for i := range fds {
		if fds[i].Block == pos {
			di = i
			break
		}
		exp = append(exp, fds[i].Objs...)
	}
	lastDamaged = &damagedFile{f, fds, di}
	c := &wire.Case{Class: "damage:" + name}
	c.Int(tag)
	pbfrun.EmitFrames(c, fds)
	c.Int(int64(di))
	type runCfg struct {
		procs int
		hf    bool
	}
	var cfgs []runCfg
	for _, p := range procsList {
		cfgs = append(cfgs, runCfg{p, false})
	}
	// more decoders than the channel budget (unbuffered channels): the pipeline must still wind
	// down after the error, Close included
	cfgs = append(cfgs, runCfg{16, false}, runCfg{oddProc(), false})
	if di == 0 { // damage in the first block: also Header() first, then the Scan loop
		cfgs = append(cfgs, runCfg{1, true}, runCfg{5, true})
	}
	c.Len(len(cfgs))
	type ob struct {
		Procs   int      `json:"procs"`
		Objs    []uint64 `json:"objs"`
		Outcome int64    `json:"outcome"`
		Msg     string   `json:"msg"`
		EndFSB  int64    `json:"end_fsb"`
		EndPFSB int64    `json:"end_pfsb"`
	}
	var obsl []ob
	for _, rc := range cfgs {
		p := rc.procs
		obs, err := r.Run(pbfrun.Job{Reader: nextReader(), Data: f.data, Procs: p, Skip: damageSkip, Mode: "cut", Units: []int{len(f.data)}, HeaderFirst: rc.hf, Alloc: f.allocLimit > 0})
		if err != nil {
			return nil, err
		}
		o := &obs[0]
		oc := outcome(o)
		if f.allocLimit > 0 {
			f.allocs = append(f.allocs, [2]int64{int64(p), o.AllocMiB})
			f.lastFds, f.lastDmg = fds, di
			w.Count(fmt.Sprintf("%s:alloc_mib<=%d", name, (o.AllocMiB/32+1)*32))
			if c.OracleFail == "" && o.AllocMiB > f.allocLimit {
				c.OracleFail = fmt.Sprintf("damage %s at block %d, procs %d: the scan allocated %d MiB for a file of %d bytes whose blobs announce raw sizes below 1 MiB (limit %d MiB): memory follows what the zlib stream inflates to, not raw_size",
					name, pos, p, o.AllocMiB, len(f.data), f.allocLimit)
			}
		}
		if o.Skipped {
			oc = 3
		}
		c.Int(int64(p))
		pbfrun.EmitToks(c, o.Objs)
		c.Int(oc)
		c.Int(o.EndFSB).Int(o.EndPFSB)
		msg := o.ErrText + o.CrashMsg
		if o.Hang {
			msg += "the scan did not return (killed by the watchdog)"
		}
		if rc.hf {
			msg = "[Header() called first] " + msg
			w.Count(fmt.Sprintf("damage:header_first:outcome=%d", oc))
		}
		obsl = append(obsl, ob{p, o.Objs, oc, msg, o.EndFSB, o.EndPFSB})
		good := oc == 1 && eqToks(o.Objs, exp)
		if tag == 4 {
			good = good || (oc == 0 && eqToks(o.Objs, all))
			w.Count(fmt.Sprintf("%s:outcome=%d", name, oc))
		}
		if c.OracleFail == "" && !good {
			c.OracleFail = fmt.Sprintf("damage %s at block %d, procs %d: observed %d objects outcome %d (%s), expected %d objects and an error",
				name, pos, p, len(o.Objs), oc, msg, len(exp))
		}
		w.Count(fmt.Sprintf("damage:outcome=%d", oc))
	}
	// in-block damage: the damaged block's message tree (read back from the payload bytes with the
	// independent reader), so that Coq can run the layer-L1 model of the block decoder on it
	if inBlock {
		payload := pbfgen.Serialize(pbfgen.BlockTree(f.desc.Blocks[pos]))
		tree, err := pbfgen.Parse(payload, pbfgen.BlockSchema)
		if err != nil {
			return nil, err
		}
		c.Bool(true)
		if err := pbfwire.PutTree(c, tree); err != nil {
			return nil, err
		}
		w.Stats["damage:trees"]++
	} else {
		c.Bool(false)
	}
	c.Desc = map[string]interface{}{"kind": "damage", "class": name, "block": pos, "file_seed": f.seed, "size": len(f.data),
		"frames": fds, "damaged_frame": di, "observed": obsl, "expected_objects": exp, "file": f.desc}
	if pos >= 1 && c.OracleFail == "" && tag == 2 && len(f.data) < 5000 {
		lastDamage = func(mut func(objs []uint64, oc int64) ([]uint64, int64)) *wire.Case {
			d := &wire.Case{Class: "canary", Canary: 1}
			d.Int(2)
			pbfrun.EmitFrames(d, fds)
			d.Int(int64(di))
			d.Len(len(obsl))
			for i, o := range obsl {
				objs, oc := o.Objs, o.Outcome
				if i == len(obsl)-1 {
					objs, oc = mut(append([]uint64{}, objs...), oc)
				}
				d.Int(int64(o.Procs))
				pbfrun.EmitToks(d, objs)
				d.Int(oc)
				d.Int(o.EndFSB).Int(o.EndPFSB)
			}
			d.Bool(false)
			d.Desc = map[string]interface{}{"kind": "canary of a damage case", "class": name}
			return d
		}
	}
	return c, nil
}

// the damaged file observeDamage saw last (for the call-script case on it)
type damagedFile struct {
	f   *file
	fds []pbfrun.FrameDesc
	di  int
}

var lastDamaged *damagedFile

var lastDamage func(mut func(objs []uint64, oc int64) ([]uint64, int64)) *wire.Case

// wholeCase: one scan of a complete VALID file per decoder count (kind 3); used for the
// boundary values of the size limits (a BlobHeader of exactly 65535 bytes must be accepted).
func wholeCase(w *wire.Writer, r *pbfrun.Runner, f *file, class string) (*wire.Case, error) {
	fds := pbfrun.Describe(f.desc, f.data, f.frames, [3]bool{}, nil)
	var exp []uint64
	for i := range fds {
		exp = append(exp, fds[i].Objs...)
	}
	c := &wire.Case{Class: class}
	c.Int(3)
	pbfrun.EmitFrames(c, fds)
	ps := append(append([]int{}, procsList...), oddProc())
	c.Len(len(ps))
	var seen []interface{}
	for _, p := range ps {
		obs, err := r.Run(pbfrun.Job{Reader: nextReader(), Data: f.data, Procs: p, Mode: "cut", Units: []int{len(f.data)}})
		if err != nil {
			return nil, err
		}
		o := &obs[0]
		oc := outcome(o)
		c.Int(int64(p))
		pbfrun.EmitToks(c, o.Objs)
		c.Int(oc)
		c.Int(o.EndFSB).Int(o.EndPFSB)
		seen = append(seen, map[string]interface{}{"procs": p, "objs": o.Objs, "outcome": oc, "msg": o.ErrText + o.CrashMsg})
		if c.OracleFail == "" && (oc != 0 || !eqToks(o.Objs, exp)) {
			c.OracleFail = fmt.Sprintf("%s, procs %d: a valid file gave %d objects outcome %d (%s), expected %d objects and no error",
				class, p, len(o.Objs), oc, o.ErrText+o.CrashMsg, len(exp))
		}
	}
	c.Desc = map[string]interface{}{"reader_kind_of_last_scan": lastReader, "kind": "whole valid file", "class": class, "file_seed": f.seed, "size": len(f.data),
		"frames_summary": fmt.Sprintf("%d frames", len(fds)), "observed": seen, "expected_objects": exp}
	return c, nil
}

func buildCopy(base *file) *file { return build(base.seed, base.opts).withEmpties(base.empties) }

// encodeHook writes the file like pbfgen.Encode, but lets hook rewrite the BlobHeader and Blob
// message trees of every block (idx -1 = header block) before they are serialized.
func encodeHook(d *pbfgen.FileDesc, hook func(idx int, h, b []pbfgen.Field) ([]pbfgen.Field, []pbfgen.Field)) ([]byte, []pbfgen.Frame) {
	var out []byte
	var frames []pbfgen.Frame
	emit := func(idx int, typ string, payload []byte, o *pbfgen.BlobOpts) {
		h, b := pbfgen.BlobTrees(typ, payload, o)
		h, b = hook(idx, h, b)
		hb, bb := pbfgen.Serialize(h), pbfgen.Serialize(b)
		frames = append(frames, pbfgen.Frame{Block: idx, Kind: "size", Off: len(out), Len: 4})
		out = append(out, byte(len(hb)>>24), byte(len(hb)>>16), byte(len(hb)>>8), byte(len(hb)))
		frames = append(frames, pbfgen.Frame{Block: idx, Kind: "header", Off: len(out), Len: len(hb)})
		out = append(out, hb...)
		frames = append(frames, pbfgen.Frame{Block: idx, Kind: "blob", Off: len(out), Len: len(bb)})
		out = append(out, bb...)
	}
	if d.Header != nil {
		emit(-1, "OSMHeader", pbfgen.Serialize(pbfgen.HeaderTree(d.Header)), &d.Header.BlobOpts)
	}
	for i, b := range d.Blocks {
		emit(i, "OSMData", pbfgen.Serialize(pbfgen.BlockTree(b)), &b.BlobOpts)
	}
	return out, frames
}

// trailingGarbage: block pos is zlib compressed and its zlib_data carries extra bytes after the end
// of the zlib stream (raw_size is correct, the data are intact); datasize is adjusted.
func trailingGarbage(f *file, pos int, garbage []byte) {
	opts(f, pos).Zlib = true
	f.data, f.frames = encodeHook(f.desc, func(idx int, h, b []pbfgen.Field) ([]pbfgen.Field, []pbfgen.Field) {
		if idx != pos {
			return h, b
		}
		for i := range b {
			if b[i].Num == 3 && b[i].Kind == pbfgen.KBytes {
				b[i].Bytes = append(append([]byte{}, b[i].Bytes...), garbage...)
			}
		}
		ds := len(pbfgen.Serialize(b))
		for i := range h {
			if h[i].Num == 3 && h[i].Kind == pbfgen.KVarint {
				h[i].Var = uint64(ds)
			}
		}
		return h, b
	})
}

// zipBomb: block pos is zlib compressed and its stream inflates to the payload followed by mib MiB
// of zeros, while raw_size stays the size of the payload (class "wrong uncompressed size", with a
// stream that is cheap to store and expensive to inflate); datasize is adjusted.
func zipBomb(f *file, pos int, mib int) {
	opts(f, pos).Zlib = true
	f.data, f.frames = encodeHook(f.desc, func(idx int, h, b []pbfgen.Field) ([]pbfgen.Field, []pbfgen.Field) {
		if idx != pos {
			return h, b
		}
		for i := range b {
			if b[i].Num == 3 && b[i].Kind == pbfgen.KBytes {
				zr, err := zlib.NewReader(bytes.NewReader(b[i].Bytes))
				if err != nil {
					panic(err)
				}
				var payload, z bytes.Buffer
				if _, err := payload.ReadFrom(zr); err != nil {
					panic(err)
				}
				zw := zlib.NewWriter(&z)
				zw.Write(payload.Bytes())
				zeros := make([]byte, 1<<20)
				for k := 0; k < mib; k++ {
					zw.Write(zeros)
				}
				zw.Close()
				b[i].Bytes = z.Bytes()
			}
		}
		ds := len(pbfgen.Serialize(b))
		for i := range h {
			if h[i].Num == 3 && h[i].Kind == pbfgen.KVarint {
				h[i].Var = uint64(ds)
			}
		}
		return h, b
	})
	f.allocLimit = 32 + int64(mib)/2
}

// bigBlobFile: header, one ordinary block, and a last OSMData block whose Blob message is exactly
// blobLen bytes (a raw blob; the PrimitiveBlock is padded with an unknown bytes field, which
// readers skip).  The frames and the description are extended by hand.
func bigBlobFile(rng *rand.Rand, blobLen int) (*file, int, error) {
	f := genFile(rng, 1500, false)
	for len(f.desc.Blocks) < 2 {
		f = genFile(rng, 1500, false)
	}
	f.encode()
	last := len(f.desc.Blocks) - 1
	b := f.desc.Blocks[last]
	// re-encode without the last block, then append it by hand
	short := *f.desc
	short.Blocks = f.desc.Blocks[:last]
	data, frames := pbfgen.Encode(&short)
	tree := pbfgen.BlockTree(b)
	var hb, bb []byte
	pad := blobLen - 64
	for try := 0; try < 10; try++ {
		if pad < 0 {
			return nil, 0, fmt.Errorf("bigBlobFile: cannot reach %d", blobLen)
		}
		t := append(append([]pbfgen.Field{}, tree...), pbfgen.Field{Num: 90, Kind: pbfgen.KBytes, Bytes: make([]byte, pad)})
		payload := pbfgen.Serialize(t)
		h, bl := pbfgen.BlobTrees("OSMData", payload, &pbfgen.BlobOpts{})
		hb, bb = pbfgen.Serialize(h), pbfgen.Serialize(bl)
		if len(bb) == blobLen {
			break
		}
		pad += blobLen - len(bb)
		bb = nil
	}
	if bb == nil {
		return nil, 0, fmt.Errorf("bigBlobFile: no fixpoint for %d", blobLen)
	}
	off := len(data)
	data = append(data, byte(len(hb)>>24), byte(len(hb)>>16), byte(len(hb)>>8), byte(len(hb)))
	frames = append(frames, pbfgen.Frame{Block: last, Kind: "size", Off: off, Len: 4})
	frames = append(frames, pbfgen.Frame{Block: last, Kind: "header", Off: len(data), Len: len(hb)})
	data = append(data, hb...)
	frames = append(frames, pbfgen.Frame{Block: last, Kind: "blob", Off: len(data), Len: len(bb)})
	data = append(data, bb...)
	return &file{seed: f.seed, opts: f.opts, desc: f.desc, data: data, frames: frames}, last, nil
}

// padHeader gives block pos a BlobHeader of exactly n bytes (through indexdata).
func padHeader(f *file, pos int, n int) bool {
	o := opts(f, pos)
	l := n - 40
	for try := 0; try < 8; try++ {
		o.IndexData = make([]byte, l)
		f.encode()
		got := -1
		for _, fr := range f.frames {
			if fr.Block == pos && fr.Kind == "header" {
				got = fr.Len
			}
		}
		if got == n {
			return true
		}
		l += n - got
		if l < 0 {
			return false
		}
	}
	return false
}

func main() {
	if pbfrun.IsWorker() {
		pbfrun.WorkerMain()
		return
	}
	a := wire.ParseArgs()
	rng := wire.Rng(a.Seed)
	w := wire.NewWriter("C06", a.Seed, a.Tier)
	w.Rule = "TRUNC: one case = one generated file (1-4 blocks, header or resume form, <= max size) x one decoder count, ALL byte offsets 0..size cut and scanned in a child process; DAMAGE: one case = file x damage class x block position, scanned with procs 1,2,5. A case is non-trivial when the file has at least one data block with objects."
	r := pbfrun.NewRunner()
	defer r.Close()
	fail := func(err error) {
		fmt.Fprintln(os.Stderr, "c06:", err)
		os.Exit(1)
	}

	nTrunc, maxSize, nDamage := 14, 1800, 4
	if a.Tier == "thorough" {
		nTrunc, maxSize, nDamage = 40, 3072, 12
	}
	nTrunc = int(float64(nTrunc)*a.Scale + 0.5)
	nDamage = int(float64(nDamage)*a.Scale + 0.5)

	for i := 0; i < nTrunc; i++ {
		if r.GaveUp() {
			w.Notes = append(w.Notes, "the runner gave up after repeated hangs: generation stopped early")
			break
		}
		f := genFile(rng, maxSize, i%4 == 3)
		for _, p := range procsList {
			c, err := truncCase(w, r, f, p, false)
			if err != nil {
				fail(err)
			}
			if c == nil {
				continue
			}
			c.Trivial = len(f.desc.Blocks) == 0
			w.Add(c)
		}
		// the same sweep for a caller that asks for the header first, ignores its error and
		// goes on to the Scan loop (one decoder count per file, rotating)
		c, err := truncCase(w, r, f, procsList[i%len(procsList)], true)
		if err != nil {
			fail(err)
		}
		if c != nil {
			w.Add(c)
		}
		// ... and with a decoder count below 1 (every second file)
		if i%2 == 0 {
			c, err := truncCase(w, r, f, oddProc(), i%4 == 0)
			if err != nil {
				fail(err)
			}
			if c != nil {
				w.Add(c)
			}
		}
		// call scripts (Scan / Err / Header in any order, continued after the end) at some cuts
		cuts := []int{0, 4, len(f.data)}
		for j := 0; j < 5; j++ {
			cuts = append(cuts, rng.Intn(len(f.data)+1))
		}
		for _, k := range cuts {
			if k > len(f.data) {
				continue
			}
			c, err := sessionCase(w, r, f, pbfrun.Describe(f.desc, f.data, f.frames, [3]bool{}, nil), 0, k, "session", rng)
			if err != nil {
				fail(err)
			}
			w.Add(c)
		}
	}

	dms := damages()
	for i := 0; i < nDamage; i++ {
		if r.GaveUp() {
			w.Notes = append(w.Notes, "the runner gave up after repeated hangs: generation stopped early")
			break
		}
		f := genFile(rng, maxSize, i%3 == 2)
		for di := range dms {
			dm := &dms[di]
			var poss []int
			if dm.header && f.desc.Header != nil {
				poss = append(poss, -1)
			}
			if dm.data {
				for b := range f.desc.Blocks {
					poss = append(poss, b)
				}
			}
			for _, pos := range poss {
				if r.GaveUp() {
					break
				}
				c, err := damageCase(w, r, f, dm, pos, rng)
				if err != nil {
					fail(err)
				}
				if c == nil {
					continue
				}
				w.Add(c)
				// the failure is at the first or second block of the file: a call script with
				// Close after the failed Start / Scan (every failure kind)
				if lastDamaged != nil && lastDamaged.di <= 1 && !r.GaveUp() {
					ld := lastDamaged
					cs, err := sessionCase(w, r, ld.f, ld.fds, 1, ld.di, "session:damage:"+dm.name, rng)
					if err != nil {
						fail(err)
					}
					w.Add(cs)
				}
			}
			// the same damage with the Skip flag of its element kind (one block position)
			if skipKind(dm) >= 0 && len(poss) > 0 && !r.GaveUp() {
				c, err := skipDamageCase(w, r, f, dm, poss[rng.Intn(len(poss))], rng)
				if err != nil {
					fail(err)
				}
				if c != nil {
					w.Add(c)
				}
			}
		}
	}

	// zlib damage once more with a pure-Go build of the decoder (compress/zlib instead of czlib),
	// and the stream without its adler32 trailer (data intact) with both builds
	{
		zr := map[string]*pbfrun.Runner{"cgo": r}
		if exe, err := pbfrun.BuildVariant("c06", a.Out, "nocgo", "CGO_ENABLED=0"); err != nil {
			w.Notes = append(w.Notes, "pure-Go build of the harness failed, zlib cases run with the default build only: "+err.Error())
		} else {
			r2 := pbfrun.NewRunner()
			r2.Exe = exe
			defer r2.Close()
			zr["purego"] = r2
		}
		classes := []struct {
			name    string
			corrupt int
			tag     int64
		}{{"zlib_checksum", 1, 2}, {"zlib_middle", 2, 2}, {"zlib_header", 4, 2}, {"zlib_trailer", 3, 2}, {"zlib_trailing_garbage", 100, 4}, {"zlib_bomb", 101, 2}}
		nz := 2
		if a.Tier == "thorough" {
			nz = 6
		}
		for i := 0; i < nz; i++ {
			if r.GaveUp() {
				break
			}
			base := genFile(rng, maxSize, i%3 == 2)
			for _, build := range []string{"cgo", "purego"} {
				rr := zr[build]
				if rr == nil {
					continue
				}
				for _, cl := range classes {
					if build == "cgo" && (cl.corrupt == 1 || cl.corrupt == 2 || cl.corrupt == 4) {
						continue // already covered by the damage classes above
					}
					poss := []int{}
					if base.desc.Header != nil {
						poss = append(poss, -1)
					}
					for b := range base.desc.Blocks {
						poss = append(poss, b)
					}
					for _, pos := range poss {
						f := buildCopy(base)
						if cl.corrupt == 101 {
							if pos > 1 {
								continue
							}
							zipBomb(f, pos, 64)
						} else if cl.corrupt == 100 {
							trailingGarbage(f, pos, [][]byte{{0}, {0xde, 0xad, 0xbe, 0xef, 1, 2, 3}}[(i+pos+2)%2])
						} else {
							o := opts(f, pos)
							o.Zlib = true
							o.Damage = &pbfgen.Damage{CorruptZlib: cl.corrupt}
							f.encode()
						}
						c, err := observeDamage(w, rr, f, cl.name+":"+build, pos, false, cl.tag)
						if err != nil {
							fail(err)
						}
						w.Add(c)
						if cl.tag == 2 && cl.corrupt != 101 {
							if err := observeDamageSkips(w, rr, f, cl.name+":"+build, pos, 2); err != nil {
								fail(err)
							}
						}
						if len(f.allocs) > 0 {
							// 6 ALLOC: frames damaged_frame | (procs MiB)*  -- the Go heap handed out
							// during each scan, judged in Coq against the model's inflated_bytes
							ca := &wire.Case{Class: "alloc:" + cl.name + ":" + build}
							ca.Int(6)
							pbfrun.EmitFrames(ca, f.lastFds)
							ca.Int(int64(f.lastDmg))
							ca.Len(len(f.allocs))
							for _, a := range f.allocs {
								ca.Int(a[0])
								ca.Int(a[1])
							}
							ca.Desc = map[string]interface{}{"kind": "heap allocated while scanning a zip-bomb blob", "class": cl.name, "build": build,
								"block": pos, "file_seed": f.seed, "size": len(f.data), "procs_mib": f.allocs}
							w.Add(ca)
						}
					}
				}
			}
		}
	}

	// the blob size limit at its boundary (thorough tier: two files of 32 MiB)
	if a.Tier == "thorough" {
		for _, sz := range []int{32*1024*1024 - 1, 32 * 1024 * 1024} {
			f, pos, err := bigBlobFile(rng, sz)
			if err != nil {
				fail(err)
			}
			var c *wire.Case
			if sz < 32*1024*1024 {
				c, err = wholeCase(w, r, f, "whole:blob_32MiB-1")
			} else {
				c, err = observeDamage(w, r, f, "blob_32MiB", pos, false, 2)
			}
			if err != nil {
				fail(err)
			}
			c.Desc = map[string]interface{}{"kind": "blob size boundary", "blob_bytes": sz, "oracle": c.OracleFail}
			w.Add(c)
		}
	}

	// boundary values of the BlobHeader size limit: 65535 bytes is valid, 65536 is not
	{
		f := genFile(rng, maxSize, false)
		pos := len(f.desc.Blocks) - 1
		g := buildCopy(f)
		if padHeader(g, pos, 65535) {
			c, err := wholeCase(w, r, g, "whole:header_65535")
			if err != nil {
				fail(err)
			}
			w.Add(c)
		}
		dm := dmg{name: "header_65536", data: true, apply: func(h *file, p int, _ *rand.Rand) bool { return padHeader(h, p, 65536) }}
		c, err := damageCase(w, r, f, &dm, pos, rng)
		if err != nil {
			fail(err)
		}
		if c != nil {
			w.Add(c)
		}
	}

	// canaries: corrupted observations that Coq must flag (one per observable class)
	if lastTrunc != nil && len(lastTrunc.runs) > 0 {
		t := lastTrunc
		// (1) the outcome of the last run (cut = size: success) reported as an error
		rs := copyRuns(t.runs)
		rs[len(rs)-1].Outcome ^= 1
		c := emitTrunc(t.procs, t.fds, rs)
		c.Canary, c.Class, c.Desc = 1, "canary", "trunc canary: outcome of the last cut flipped"
		w.Add(c)
		// (2) an object dropped from the last run
		rs = copyRuns(t.runs)
		if n := len(rs[len(rs)-1].Objs); n > 0 {
			rs[len(rs)-1].Objs = rs[len(rs)-1].Objs[:n-1]
			c = emitTrunc(t.procs, t.fds, rs)
			c.Canary, c.Class, c.Desc = 1, "canary", "trunc canary: last object dropped"
			w.Add(c)
		}
		// (3) a run boundary moved by one byte
		rs = copyRuns(t.runs)
		if len(rs) >= 2 && rs[0].Hi == 0 && rs[1].Hi > rs[1].Lo {
			rs[0].Hi++
			rs[1].Lo++
			c = emitTrunc(t.procs, t.fds, rs)
			c.Canary, c.Class, c.Desc = 1, "canary", "trunc canary: cut 1 reported as success"
			w.Add(c)
		}
	}
	if lastTrunc != nil && len(lastTrunc.runs) > 0 {
		// (4) the offset reported after the last cut's scan off by one
		rs := copyRuns(lastTrunc.runs)
		rs[len(rs)-1].EndFSB++
		c := emitTrunc(lastTrunc.procs, lastTrunc.fds, rs)
		c.Canary, c.Class, c.Desc = 1, "canary", "trunc canary: FullyScannedBytes after the last scan off by one"
		w.Add(c)
	}
	if lastDamage != nil {
		w.Add(lastDamage(func(objs []uint64, oc int64) ([]uint64, int64) { return objs, 0 }))
		w.Add(lastDamage(func(objs []uint64, oc int64) ([]uint64, int64) { return append(objs, 4001), oc }))
	}
	for k, v := range readerUse {
		w.Stats[fmt.Sprintf("reader_kind=%d", k)] = v
	}
	w.Stats["runner:crashes"] = r.Crashes
	w.Stats["runner:hangs"] = r.Hangs
	w.Stats["runner:deaths_outside_scan"] = r.OutsideScan
	if err := w.Flush(a.Out, "Verif.C06.Check", 40); err != nil {
		fail(err)
	}
}
