// c17: correspondence harness for osmgeojson.Convert (property C17).
//
// One case = one data set + the observed feature collections of several option sets
// (always optbits 0 = baseline and 8 = IncludeInvalidPolygons only, so that Coq can judge
// "options only subtract" against the baseline of the same data).  Every option set is
// converted twice (determinism) and the input is deep-copied before and compared after all
// conversions; after each conversion the returned collection is overwritten completely, so an
// output that aliases the input would show up as a modified input (immutability; harness-only).
package main

import (
	"encoding/json"
	"fmt"
	"math"
	"math/rand"
	"os"
	"reflect"
	"sort"
	"strconv"
	"strings"
	"time"

	"github.com/paulmach/orb"
	"github.com/paulmach/orb/geojson"
	"github.com/paulmach/osm"
	"github.com/paulmach/osm/osmgeojson"
	"verif/harness/wire"
)

const knownClass = "shared-outer-old-style"

// ---------- observation ----------

type obsSummary struct {
	ID   int64       `json:"id"`
	Role string      `json:"role"`
	Tags [][2]string `json:"tags"`
}

type obsMeta struct {
	TS, Version, Changeset, UID *int64
	User                        *string
}

type obsFeature struct {
	IDType  int            `json:"idtype"` // 0 none, 1 node, 2 way, 3 relation
	IDRef   int64          `json:"idref"`
	Type    int            `json:"type"`
	Ref     int64          `json:"ref"`
	Tags    [][2]string    `json:"tags"`
	Tainted bool           `json:"tainted,omitempty"`
	HasRels bool           `json:"has_rels"`
	Rels    []obsSummary   `json:"rels,omitempty"`
	HasMeta bool           `json:"has_meta"`
	Meta    obsMeta        `json:"meta"`
	Kind    int            `json:"kind"` // 1 point 2 line 3 polygon 4 multiline 5 multipolygon
	Point   [2]int64       `json:"point,omitempty"`
	Lines   [][][2]int64   `json:"lines,omitempty"` // line: one; polygon: rings; multiline: lines
	Polys   [][][][2]int64 `json:"polys,omitempty"`
}

var typeCode = map[string]int{"node": 1, "way": 2, "relation": 3}

func toInt(v interface{}) (int64, bool) {
	rv := reflect.ValueOf(v)
	switch rv.Kind() {
	case reflect.Int, reflect.Int8, reflect.Int16, reflect.Int32, reflect.Int64:
		return rv.Int(), true
	case reflect.Uint, reflect.Uint8, reflect.Uint16, reflect.Uint32, reflect.Uint64:
		return int64(rv.Uint()), true
	case reflect.Float32, reflect.Float64:
		f := rv.Float()
		if f == math.Trunc(f) {
			return int64(f), true
		}
	}
	return 0, false
}

func sortedTags(m map[string]string) [][2]string {
	out := make([][2]string, 0, len(m))
	for k, v := range m {
		out = append(out, [2]string{k, v})
	}
	sort.Slice(out, func(i, j int) bool { return out[i][0] < out[j][0] })
	return out
}

func tagMap(v interface{}) (map[string]string, bool) {
	switch t := v.(type) {
	case map[string]string:
		return t, true
	case nil:
		return nil, true
	}
	rv := reflect.ValueOf(v)
	if rv.Kind() == reflect.Map && rv.Type().Key().Kind() == reflect.String {
		m := map[string]string{}
		for _, k := range rv.MapKeys() {
			m[k.String()] = fmt.Sprint(rv.MapIndex(k).Interface())
		}
		return m, true
	}
	return nil, false
}

type problems []string

func (p *problems) add(f string, a ...interface{}) { *p = append(*p, fmt.Sprintf(f, a...)) }

// embedding: the model works with integer coordinates; for an embedded scene the implementation
// is given x*scale+x0 instead (0 stays 0: "no coordinates"), i.e. data on the 1e-7 degree grid
// somewhere on the globe, and the observed coordinates are mapped back through the table of the
// values that were put in.  Convert copies coordinates and only uses them in equality tests,
// the origin-shifted orientation sum and ray casting on axis-parallel edges, all of which are
// sign-exact on the robust scenes chosen for embedding (no zero-area rings, rectangles only).
type embedding struct {
	x0, y0, scale float64
	invX, invY    map[float64]int64
}

func (e *embedding) fx(v float64) float64 {
	if v == 0 {
		return 0
	}
	f := e.x0 + v*e.scale
	e.invX[f] = int64(v)
	return f
}
func (e *embedding) fy(v float64) float64 {
	if v == 0 {
		return 0
	}
	f := e.y0 + v*e.scale
	e.invY[f] = int64(v)
	return f
}

// apply returns a deep copy of o with every coordinate embedded
func (e *embedding) apply(o *osm.OSM) *osm.OSM {
	c := cloneOSM(o)
	for _, n := range c.Nodes {
		n.Lon, n.Lat = e.fx(n.Lon), e.fy(n.Lat)
	}
	for _, w := range c.Ways {
		for i := range w.Nodes {
			w.Nodes[i].Lon, w.Nodes[i].Lat = e.fx(w.Nodes[i].Lon), e.fy(w.Nodes[i].Lat)
		}
	}
	for _, r := range c.Relations {
		for i := range r.Members {
			for j := range r.Members[i].Nodes {
				wn := &r.Members[i].Nodes[j]
				wn.Lon, wn.Lat = e.fx(wn.Lon), e.fy(wn.Lat)
			}
		}
	}
	return c
}

// curEmb is the embedding of the scene being observed (nil: coordinates are the integers)
var curEmb *embedding

func coord(p orb.Point, pr *problems) [2]int64 {
	if curEmb != nil {
		var out [2]int64
		for i, inv := range []map[float64]int64{curEmb.invX, curEmb.invY} {
			if p[i] == 0 {
				continue
			}
			v, ok := inv[p[i]]
			if !ok {
				pr.add("coordinate %v is not one of the input coordinates", p[i])
			}
			out[i] = v
		}
		return out
	}
	for _, c := range p {
		if c != math.Trunc(c) || math.Abs(c) > 1e9 {
			pr.add("non-integer coordinate %v", c)
		}
	}
	return [2]int64{int64(p[0]), int64(p[1])}
}

func coords(l []orb.Point, pr *problems) [][2]int64 {
	out := make([][2]int64, 0, len(l))
	for _, p := range l {
		out = append(out, coord(p, pr))
	}
	return out
}

func observeFeature(f *geojson.Feature, pr *problems) obsFeature {
	var o obsFeature
	switch id := f.ID.(type) {
	case nil:
	case string:
		parts := strings.Split(id, "/")
		ok := len(parts) == 2 && (typeCode[parts[0]] != 0 || parts[0] == "")
		var ref int64
		if ok {
			var err error
			ref, err = strconv.ParseInt(parts[1], 10, 64)
			ok = err == nil
		}
		if !ok {
			pr.add("feature id %q is not type/ref", id)
		} else if parts[0] == "" {
			// "/5": the type "" FeatureID.Type() answers for unknown type bits; observed as it is
			// (code 4) so that the model can be compared, and reported: not an element type
			o.IDType, o.IDRef = 4, ref
			pr.add("feature id %q is not type/ref", id)
		} else {
			o.IDType, o.IDRef = typeCode[parts[0]], ref
		}
	default:
		pr.add("feature id of unexpected Go type %T", f.ID)
	}
	if v, ok := toInt(f.Properties["id"]); ok {
		o.Ref = v
	} else {
		pr.add("properties.id missing or not an integer: %v", f.Properties["id"])
	}
	if s, ok := f.Properties["type"].(string); ok && typeCode[s] != 0 {
		o.Type = typeCode[s]
	} else if ok && s == "" {
		o.Type = 0 // observed as it is; not an element type
		pr.add("properties.type is the empty string")
	} else {
		pr.add("properties.type missing or unknown: %v", f.Properties["type"])
		o.Type = 1
	}
	if m, ok := tagMap(f.Properties["tags"]); ok {
		o.Tags = sortedTags(m)
	} else {
		pr.add("properties.tags is not a string map")
	}
	if t, ok := f.Properties["tainted"]; ok {
		if b, isb := t.(bool); isb {
			o.Tainted = b
		} else {
			pr.add("properties.tainted is not a bool")
		}
	}
	if r, ok := f.Properties["relations"]; ok {
		o.HasRels = true
		// observed the way a user sees the summaries: through their JSON form (keys id, role,
		// tags); the Go type is unexported, so its field names are not observable
		raw, err := json.Marshal(r)
		if err != nil {
			pr.add("properties.relations does not marshal: %v", err)
		} else {
			var sums []struct {
				ID   *int64            `json:"id"`
				Role *string           `json:"role"`
				Tags map[string]string `json:"tags"`
			}
			dec := json.NewDecoder(strings.NewReader(string(raw)))
			dec.DisallowUnknownFields()
			if err := dec.Decode(&sums); err != nil {
				pr.add("properties.relations is not a list of {id, role, tags}: %v", err)
			}
			for _, su := range sums {
				if su.ID == nil || su.Role == nil {
					pr.add("relation summary without id or role")
					continue
				}
				o.Rels = append(o.Rels, obsSummary{ID: *su.ID, Role: *su.Role, Tags: sortedTags(su.Tags)})
			}
		}
	}
	if mv, ok := f.Properties["meta"]; ok {
		o.HasMeta = true
		m, isMap := mv.(map[string]interface{})
		if !isMap {
			pr.add("properties.meta is not a map")
		}
		for k, v := range m {
			switch k {
			case "timestamp":
				if t, ok := v.(time.Time); ok {
					u := t.Unix()
					o.Meta.TS = &u
				} else {
					pr.add("meta.timestamp is not a time")
				}
			case "version", "changeset", "uid":
				x, ok := toInt(v)
				if !ok {
					pr.add("meta.%s is not an integer", k)
				}
				switch k {
				case "version":
					o.Meta.Version = &x
				case "changeset":
					o.Meta.Changeset = &x
				default:
					o.Meta.UID = &x
				}
			case "user":
				s := fmt.Sprint(v)
				o.Meta.User = &s
			default:
				pr.add("unexpected meta key %q", k)
			}
		}
	}
	if f.Type != "Feature" {
		pr.add("feature type %q", f.Type)
	}
	if f.BBox != nil {
		pr.add("feature has a bbox")
	}
	for k := range f.Properties {
		switch k {
		case "id", "type", "tags", "tainted", "relations", "meta":
		default:
			pr.add("unexpected property %q", k)
		}
	}
	switch g := f.Geometry.(type) {
	case orb.Point:
		o.Kind, o.Point = 1, coord(g, pr)
	case orb.LineString:
		o.Kind, o.Lines = 2, [][][2]int64{coords(g, pr)}
	case orb.Polygon:
		o.Kind = 3
		for _, r := range g {
			o.Lines = append(o.Lines, coords(r, pr))
		}
	case orb.MultiLineString:
		o.Kind = 4
		for _, l := range g {
			o.Lines = append(o.Lines, coords(l, pr))
		}
	case orb.MultiPolygon:
		o.Kind = 5
		for _, p := range g {
			var rings [][][2]int64
			for _, r := range p {
				rings = append(rings, coords(r, pr))
			}
			o.Polys = append(o.Polys, rings)
		}
	default:
		pr.add("unexpected geometry %T", f.Geometry)
		o.Kind = 1
	}
	return o
}

// callRng drives how each call is made (which options are spelled out, in which order) and the
// order of the calls of a scene; seeded in main, so a run is reproducible from --seed.
var callRng = rand.New(rand.NewSource(1))

// options: the option set [bits] the way callers write it.  explicit: all four options with
// their boolean; otherwise only the options that are on (an omitted option must mean "off",
// whatever earlier calls in the process asked for), in random order.
func options(bits int, explicit bool) []osmgeojson.Option {
	mk := []func(bool) osmgeojson.Option{osmgeojson.NoID, osmgeojson.NoMeta, osmgeojson.NoRelationMembership, osmgeojson.IncludeInvalidPolygons}
	var out []osmgeojson.Option
	for i, f := range mk {
		on := bits&(1<<uint(i)) != 0
		if on || explicit {
			out = append(out, f(on))
		}
	}
	callRng.Shuffle(len(out), func(i, j int) { out[i], out[j] = out[j], out[i] })
	return out
}

func observe(o *osm.OSM, bits int, explicit bool, pr *problems) (fs []obsFeature) {
	defer func() {
		if r := recover(); r != nil {
			pr.add("Convert panicked (optbits %d): %v", bits, r)
		}
	}()
	fc, err := osmgeojson.Convert(o, options(bits, explicit)...)
	if err != nil {
		pr.add("Convert returned an error (optbits %d): %v", bits, err)
		return nil
	}
	if fc.Type != "FeatureCollection" || fc.BBox != nil {
		pr.add("feature collection envelope changed: type %q bbox %v", fc.Type, fc.BBox)
	}
	if _, err := json.Marshal(fc); err != nil {
		pr.add("feature collection does not marshal (optbits %d): %v", bits, err)
	}
	for _, f := range fc.Features {
		fs = append(fs, observeFeature(f, pr))
	}
	scribble(fc)
	return fs
}

// scribble overwrites everything reachable from the returned feature collection (tag maps,
// meta maps, membership summaries, every coordinate).  If any of it aliased the input, the
// comparison of the input with its deep copy at the end of the scene fails.
func scribble(fc *geojson.FeatureCollection) {
	junk := orb.Point{-777, -777}
	for _, f := range fc.Features {
		if m, ok := f.Properties["tags"].(map[string]string); ok && m != nil {
			for k := range m {
				m[k] = "~"
			}
			m["~"] = "~"
		}
		if m, ok := f.Properties["meta"].(map[string]interface{}); ok {
			for k := range m {
				delete(m, k)
			}
		}
		if r, ok := f.Properties["relations"]; ok {
			rv := reflect.ValueOf(r)
			if rv.Kind() == reflect.Slice {
				for i := 0; i < rv.Len(); i++ {
					e := rv.Index(i)
					for e.Kind() == reflect.Ptr || e.Kind() == reflect.Interface {
						e = e.Elem()
					}
					if e.Kind() != reflect.Struct {
						continue
					}
					if t := e.FieldByName("Tags"); t.IsValid() && t.Kind() == reflect.Map && !t.IsNil() && t.Type().Elem().Kind() == reflect.String {
						for _, k := range t.MapKeys() {
							t.SetMapIndex(k, reflect.ValueOf("~").Convert(t.Type().Elem()))
						}
					}
					if ro := e.FieldByName("Role"); ro.IsValid() && ro.CanSet() && ro.Kind() == reflect.String {
						ro.SetString("~")
					}
				}
			}
		}
		switch g := f.Geometry.(type) {
		case orb.LineString:
			for i := range g {
				g[i] = junk
			}
		case orb.Polygon:
			for _, r := range g {
				for i := range r {
					r[i] = junk
				}
			}
		case orb.MultiLineString:
			for _, l := range g {
				for i := range l {
					l[i] = junk
				}
			}
		case orb.MultiPolygon:
			for _, p := range g {
				for _, r := range p {
					for i := range r {
						r[i] = junk
					}
				}
			}
		}
	}
}

// ---------- input: deep copy, known class ----------

func cloneTags(t osm.Tags) osm.Tags {
	if t == nil {
		return nil
	}
	return append(osm.Tags{}, t...)
}

func cloneOSM(o *osm.OSM) *osm.OSM {
	c := &osm.OSM{}
	for _, n := range o.Nodes {
		m := *n
		m.Tags = cloneTags(n.Tags)
		c.Nodes = append(c.Nodes, &m)
	}
	for _, w := range o.Ways {
		m := *w
		m.Tags = cloneTags(w.Tags)
		m.Nodes = append(osm.WayNodes(nil), w.Nodes...)
		c.Ways = append(c.Ways, &m)
	}
	for _, r := range o.Relations {
		m := *r
		m.Tags = cloneTags(r.Tags)
		m.Members = nil
		for _, mem := range r.Members {
			mm := mem
			mm.Nodes = append(osm.WayNodes(nil), mem.Nodes...)
			m.Members = append(m.Members, mm)
		}
		c.Relations = append(c.Relations, &m)
	}
	return c
}

func canon(o *osm.OSM) string {
	b, _ := json.Marshal(describeInput(o, nil))
	return string(b)
}

// inKnownClass mirrors C17/ProofsDup.v [adopts]: the exact class of the known finding, decided
// on the input alone.  A relation adopts a way when it is a multipolygon/boundary without own
// tags (type, uninteresting keys and empty values aside), exactly one of its way members has
// role "outer", that way is in the data (or its nodes are annotated on the member), and its
// resolvable coordinates form a valid ring (>= 4 points, first = last).  The class: some way is
// adopted by two relations (C17_duplicate_feature_iff: exactly then two features share an id).
func inKnownClass(o *osm.OSM) bool {
	wayByID := map[osm.WayID]*osm.Way{}
	for _, w := range o.Ways {
		wayByID[w.ID] = w
	}
	nodeByID := map[osm.NodeID]*osm.Node{}
	for _, n := range o.Nodes {
		nodeByID[n.ID] = n
	}
	seen := map[int64]int{}
	for _, r := range o.Relations {
		tt := ""
		for _, t := range r.Tags {
			if t.Key == "type" {
				tt = t.Value
				break
			}
		}
		if tt != "multipolygon" && tt != "boundary" {
			continue
		}
		own := false
		for _, t := range r.Tags {
			if !osm.UninterestingTags[t.Key] && t.Key != "type" && t.Value != "" {
				own = true
			}
		}
		if own {
			continue
		}
		cnt := 0
		var outer osm.Member
		for _, m := range r.Members {
			if m.Type == osm.TypeWay && m.Role == "outer" {
				cnt++
				outer = m
			}
		}
		if cnt != 1 {
			continue
		}
		var wns osm.WayNodes
		if w := wayByID[osm.WayID(outer.Ref)]; w != nil {
			wns = w.Nodes
		} else if len(outer.Nodes) != 0 {
			wns = outer.Nodes
		} else {
			continue
		}
		var pts [][2]float64
		for _, wn := range wns {
			if wn.Lon != 0 || wn.Lat != 0 {
				pts = append(pts, [2]float64{wn.Lon, wn.Lat})
			} else if n := nodeByID[wn.ID]; n != nil {
				pts = append(pts, [2]float64{n.Lon, n.Lat})
			}
		}
		if len(pts) < 4 || pts[0] != pts[len(pts)-1] {
			continue
		}
		seen[outer.Ref]++
		if seen[outer.Ref] >= 2 {
			return true
		}
	}
	return false
}

// packedOK mirrors Spec.packed_ok (judged in Coq, code 3): the places where Convert goes through
// the packed osm.FeatureID (40 bits of ref under a type code) lose nothing on this input:
// (1) every multipolygon/boundary relation and each of its outer way members has an id in
// [0,2^40) (buildPolygon reads type and ref back out of tagObject.FeatureID()); (2) no member
// entry packs to the FeatureID of a different element of the data set (ctx.relationMember is
// keyed by packed ids).  Its negation is the known-finding class polygon-id-outside-packed-range.
const knownPacked = "polygon-id-outside-packed-range"

func in40(v int64) bool { return v >= 0 && v < 1<<40 }

func packedFID(t int, id int64) osm.FeatureID {
	switch t {
	case 1:
		return osm.NodeID(id).FeatureID()
	case 2:
		return osm.WayID(id).FeatureID()
	default:
		return osm.RelationID(id).FeatureID()
	}
}

func packedOK(o *osm.OSM) bool {
	type key [2]int64
	var elems []key
	for _, n := range o.Nodes {
		elems = append(elems, key{1, int64(n.ID)})
	}
	for _, w := range o.Ways {
		elems = append(elems, key{2, int64(w.ID)})
	}
	members := map[osm.FeatureID][]key{}
	for _, r := range o.Relations {
		elems = append(elems, key{3, int64(r.ID)})
		tt := r.Tags.Find("type")
		mp := tt == "multipolygon" || tt == "boundary"
		if mp && !in40(int64(r.ID)) {
			return false
		}
		for _, m := range r.Members {
			if m.Type == osm.TypeWay && m.Role == "outer" {
				if mp && !in40(m.Ref) {
					return false
				}
				elems = append(elems, key{2, m.Ref})
			}
			k := key{int64(typeNum[m.Type]), m.Ref}
			f := packedFID(typeNum[m.Type], m.Ref)
			members[f] = append(members[f], k)
		}
	}
	for _, e := range elems {
		for _, m := range members[packedFID(int(e[0]), e[1])] {
			if m != e {
				return false
			}
		}
	}
	return true
}

// ---------- description (replay text) ----------

func tagsDesc(t osm.Tags) [][2]string {
	out := [][2]string{}
	for _, x := range t {
		out = append(out, [2]string{x.Key, x.Value})
	}
	return out
}

func tsOf(t time.Time) int64 {
	if t.IsZero() {
		return 0
	}
	return t.Unix()
}

// tsDesc: nil for the zero time, otherwise unix seconds (0 = the epoch)
func tsDesc(t time.Time) interface{} {
	if t.IsZero() {
		return nil
	}
	return t.Unix()
}

func wnDesc(ns osm.WayNodes) [][3]float64 {
	out := [][3]float64{}
	for _, n := range ns {
		out = append(out, [3]float64{float64(n.ID), n.Lon, n.Lat})
	}
	return out
}

func describeInput(o *osm.OSM, areas []bool) map[string]interface{} {
	var ns, ws, rs []interface{}
	for _, n := range o.Nodes {
		ns = append(ns, map[string]interface{}{"id": n.ID, "lon": n.Lon, "lat": n.Lat, "tags": tagsDesc(n.Tags),
			"meta": []interface{}{tsDesc(n.Timestamp), n.Version, n.ChangesetID, n.User, n.UserID}})
	}
	for i, w := range o.Ways {
		m := map[string]interface{}{"id": w.ID, "nodes": wnDesc(w.Nodes), "tags": tagsDesc(w.Tags),
			"meta": []interface{}{tsDesc(w.Timestamp), w.Version, w.ChangesetID, w.User, w.UserID}}
		if i < len(areas) {
			m["area"] = areas[i]
		}
		ws = append(ws, m)
	}
	for _, r := range o.Relations {
		var ms []interface{}
		for _, m := range r.Members {
			ms = append(ms, map[string]interface{}{"type": m.Type, "ref": m.Ref, "role": m.Role, "orientation": m.Orientation, "nodes": wnDesc(m.Nodes)})
		}
		rs = append(rs, map[string]interface{}{"id": r.ID, "members": ms, "tags": tagsDesc(r.Tags),
			"meta": []interface{}{tsDesc(r.Timestamp), r.Version, r.ChangesetID, r.User, r.UserID}})
	}
	return map[string]interface{}{"nodes": ns, "ways": ws, "relations": rs}
}

// ---------- encoding ----------

type enc struct {
	c    *wire.Case
	strs map[string]int
	tab  []string
}

func (e *enc) intern(s string) int {
	if i, ok := e.strs[s]; ok {
		return i
	}
	e.strs[s] = len(e.tab)
	e.tab = append(e.tab, s)
	return len(e.tab) - 1
}

func (e *enc) str(s string) { e.c.Int(int64(e.strs[s])) }

func (e *enc) tags(t [][2]string) {
	e.c.Len(len(t))
	for _, kv := range t {
		e.str(kv[0])
		e.str(kv[1])
	}
}

func (e *enc) meta(ts time.Time, v int, cs osm.ChangesetID, user string, uid osm.UserID) {
	e.c.Bool(!ts.IsZero()).Int(tsOf(ts)).Int(int64(v)).Int(int64(cs))
	e.str(user)
	e.c.Int(int64(uid))
}

func (e *enc) wnodes(ns osm.WayNodes) {
	e.c.Len(len(ns))
	for _, n := range ns {
		e.c.Int(int64(n.ID)).Int(int64(n.Lon)).Int(int64(n.Lat))
	}
}

func (e *enc) optInt(p *int64) {
	if p == nil {
		e.c.Int(0)
	} else {
		e.c.Int(1).Int(*p)
	}
}

func (e *enc) line(l [][2]int64) {
	e.c.Len(len(l))
	for _, p := range l {
		e.c.Int(p[0]).Int(p[1])
	}
}

func (e *enc) feature(f obsFeature) {
	e.c.Int(int64(f.IDType)).Int(f.IDRef).Int(int64(f.Type)).Int(f.Ref)
	e.tags(f.Tags)
	e.c.Bool(f.Tainted)
	e.c.Bool(f.HasRels)
	if f.HasRels {
		e.c.Len(len(f.Rels))
		for _, s := range f.Rels {
			e.c.Int(s.ID)
			e.str(s.Role)
			e.tags(s.Tags)
		}
	}
	e.c.Bool(f.HasMeta)
	if f.HasMeta {
		e.optInt(f.Meta.TS)
		e.optInt(f.Meta.Version)
		e.optInt(f.Meta.Changeset)
		if f.Meta.User == nil {
			e.c.Int(0)
		} else {
			e.c.Int(1)
			e.str(*f.Meta.User)
		}
		e.optInt(f.Meta.UID)
	}
	e.c.Int(int64(f.Kind))
	switch f.Kind {
	case 1:
		e.c.Int(f.Point[0]).Int(f.Point[1])
	case 2:
		e.line(f.Lines[0])
	case 3, 4:
		e.c.Len(len(f.Lines))
		for _, l := range f.Lines {
			e.line(l)
		}
	case 5:
		e.c.Len(len(f.Polys))
		for _, p := range f.Polys {
			e.c.Len(len(p))
			for _, l := range p {
				e.line(l)
			}
		}
	}
}

type run struct {
	Bits     int          `json:"optbits"`
	Same     bool         `json:"second_run_identical"`
	Features []obsFeature `json:"features"`
}

type scene struct {
	emb       string   // how the model's integer coordinates were embedded ("" = as they are)
	order     [][]int  // the order in which the option sets were converted, per pass
	in        *osm.OSM // pristine deep copy of what Convert was given (taken before anything ran)
	areas     []bool   // Way.Polygon() of every way, evaluated on another copy
	nodeAI    []bool   // Tags.AnyInteresting() of every node / way / relation (on that copy)
	wayAI     []bool
	relAI     []bool
	relPoly   []bool // Relation.Polygon()
	unchanged bool
	runs      []run
	problems  problems
}

var typeNum = map[osm.Type]int{osm.TypeNode: 1, osm.TypeWay: 2, osm.TypeRelation: 3}

func (s *scene) encode(class string) *wire.Case {
	c := &wire.Case{Class: class}
	e := &enc{c: c, strs: map[string]int{}}
	e.intern("")
	o := s.in
	for _, n := range o.Nodes {
		for _, t := range n.Tags {
			e.intern(t.Key)
			e.intern(t.Value)
		}
		e.intern(n.User)
	}
	for _, w := range o.Ways {
		for _, t := range w.Tags {
			e.intern(t.Key)
			e.intern(t.Value)
		}
		e.intern(w.User)
	}
	for _, r := range o.Relations {
		for _, t := range r.Tags {
			e.intern(t.Key)
			e.intern(t.Value)
		}
		e.intern(r.User)
		for _, m := range r.Members {
			e.intern(m.Role)
		}
	}
	for _, r := range s.runs {
		for _, f := range r.Features {
			for _, kv := range f.Tags {
				e.intern(kv[0])
				e.intern(kv[1])
			}
			for _, su := range f.Rels {
				e.intern(su.Role)
				for _, kv := range su.Tags {
					e.intern(kv[0])
					e.intern(kv[1])
				}
			}
			if f.Meta.User != nil {
				e.intern(*f.Meta.User)
			}
		}
	}
	c.Len(len(e.tab))
	for _, x := range e.tab {
		c.Str(x)
	}
	c.Len(len(o.Nodes))
	for ni, n := range o.Nodes {
		c.Int(int64(n.ID)).Int(int64(n.Lon)).Int(int64(n.Lat))
		e.tags(tagsDesc(n.Tags))
		e.meta(n.Timestamp, n.Version, n.ChangesetID, n.User, n.UserID)
		c.Bool(s.nodeAI[ni])
	}
	c.Len(len(o.Ways))
	for wi, w := range o.Ways {
		c.Int(int64(w.ID))
		e.wnodes(w.Nodes)
		e.tags(tagsDesc(w.Tags))
		e.meta(w.Timestamp, w.Version, w.ChangesetID, w.User, w.UserID)
		c.Bool(s.areas[wi]).Bool(s.wayAI[wi])
	}
	c.Len(len(o.Relations))
	for ri, r := range o.Relations {
		c.Int(int64(r.ID))
		c.Len(len(r.Members))
		for _, m := range r.Members {
			c.Int(int64(typeNum[m.Type])).Int(m.Ref)
			e.str(m.Role)
			c.Int(int64(m.Orientation))
			e.wnodes(m.Nodes)
		}
		e.tags(tagsDesc(r.Tags))
		e.meta(r.Timestamp, r.Version, r.ChangesetID, r.User, r.UserID)
		c.Bool(s.relPoly[ri]).Bool(s.relAI[ri])
	}
	c.Bool(s.unchanged)
	kc := 0 // judged in Coq against Spec.packed_ok / Spec.adopts (code 3)
	if !packedOK(o) {
		kc = 2
	} else if inKnownClass(o) {
		kc = 1
	}
	c.Int(int64(kc))
	c.Len(len(s.runs))
	for _, r := range s.runs {
		c.Int(int64(r.Bits)).Bool(r.Same)
		c.Len(len(r.Features))
		for _, f := range r.Features {
			e.feature(f)
		}
	}
	c.Desc = map[string]interface{}{"input": describeInput(o, s.areas), "input_unchanged": s.unchanged, "runs": s.runs, "call_order": s.order, "coordinates": s.emb,
		"harness_problems": []string(s.problems)}
	if kc == 2 {
		c.Known = knownPacked
	} else if kc == 1 {
		c.Known = knownClass
	}
	if len(s.runs) > 0 && kc != 2 {
		// C17_duplicate_feature_iff: the class is exact (an input in the class without duplicate
		// ids, or duplicate ids outside the class, is reported as a harness problem)
		dup := false
		seenKey := map[[2]int64]bool{}
		for _, f := range s.runs[0].Features {
			k := [2]int64{int64(f.Type), f.Ref}
			if seenKey[k] {
				dup = true
			}
			seenKey[k] = true
		}
		if dup != (c.Known != "") {
			s.problems.add("known-finding class is not exact here: in class %v, duplicate feature keys %v", c.Known != "", dup)
		}
	}
	if len(s.problems) > 0 {
		c.OracleFail = strings.Join(s.problems, "; ")
	}
	return c
}

// runScene converts the data set under each option set (twice) and snapshots the input.
func runScene(o *osm.OSM, bitsList []int) *scene { return runSceneEmb(o, bitsList, nil) }

// runSceneEmb: o holds the model's integer coordinates; with an embedding the implementation
// converts the embedded copy and the observations are mapped back
func runSceneEmb(model *osm.OSM, bitsList []int, emb *embedding) *scene {
	o := model
	if emb != nil {
		o = emb.apply(model)
	}
	curEmb = emb
	defer func() { curEmb = nil }()
	// the harness itself never calls a method on the data handed to Convert: the description,
	// the encoding and the Polygon() flags all work on deep copies taken first
	before := cloneOSM(o)
	s := &scene{in: before}
	if emb != nil {
		s.in = cloneOSM(model)
		s.emb = fmt.Sprintf("lon = %v + x*%v, lat = %v + y*%v (0 stays 0)", emb.x0, emb.scale, emb.y0, emb.scale)
	}
	side := cloneOSM(o)
	for _, w := range side.Ways {
		s.areas = append(s.areas, w.Polygon())
		s.wayAI = append(s.wayAI, w.Tags.AnyInteresting())
	}
	for _, n := range side.Nodes {
		s.nodeAI = append(s.nodeAI, n.Tags.AnyInteresting())
	}
	for _, r := range side.Relations {
		s.relAI = append(s.relAI, r.Tags.AnyInteresting())
		s.relPoly = append(s.relPoly, r.Polygon())
	}
	beforeText := canon(before)
	// Every option set is converted twice, in two passes over the option sets in two different
	// random orders, all in this one process and mostly passing only the options that are on:
	// each call follows calls with other option sets (and the calls of earlier scenes), so state
	// carried from one Convert call to the next shows up as an observation that differs from
	// the per-call model (judgement 1) and from the other pass (determinism).
	first := map[int][]obsFeature{}
	second := map[int][]obsFeature{}
	probs := map[int]*problems{}
	for pass := 0; pass < 2; pass++ {
		order := append([]int(nil), bitsList...)
		callRng.Shuffle(len(order), func(i, j int) { order[i], order[j] = order[j], order[i] })
		s.order = append(s.order, order)
		for _, b := range order {
			if probs[b] == nil {
				probs[b] = &problems{}
			}
			fs := observe(o, b, callRng.Intn(4) == 0, probs[b])
			if pass == 0 {
				first[b] = fs
			} else {
				second[b] = fs
			}
		}
	}
	for _, b := range bitsList {
		j1, _ := json.Marshal(first[b])
		j2, _ := json.Marshal(second[b])
		same := string(j1) == string(j2)
		if !same {
			probs[b].add("second conversion differs (optbits %d)", b)
		}
		s.problems = append(s.problems, *probs[b]...)
		s.runs = append(s.runs, run{Bits: b, Same: same, Features: first[b]})
	}
	s.unchanged = reflect.DeepEqual(before, o) && beforeText == canon(o)
	if !s.unchanged {
		s.problems.add("input data was modified by Convert: before %s after %s", beforeText, canon(o))
	}
	return s
}

// ---------- generators ----------

var interestingTags = [][2]string{{"building", "yes"}, {"highway", "residential"}, {"natural", "water"}, {"name", "A"},
	{"name", "B"}, {"area", "yes"}, {"area", "no"}, {"landuse", "forest"}, {"barrier", "wall"}, {"amenity", "cafe"}, {"empty", ""},
	{"route", "bus"}, {"type", "x"}, {"building", "no"}, {"waterway", "riverbank"},
	{"", "emptykey"}, {"name", "Caf\u00e9 \u540d\u524d"}, {"\u540d\u524d", "x"}, {"na\u00efve", ""}}

// keys that look like the uninteresting ones but are not in the list: prefixes, suffixes, family
// members, other case.  An element carrying only such tags is interesting.
var nearMissTags = [][2]string{{"source:date", "2020"}, {"source:name", "n"}, {"tiger:reviewed", "no"}, {"tiger:cfcc", "A41"},
	{"created_by2", "x"}, {"Source", "x"}, {"sourc", "x"}, {"source_ref2", "x"}, {"tiger", "x"}, {"history:old", "x"}, {"xsource", "y"},
	{"attribution:url", "u"}, {"SOURCE", "s"}, {"source ", "s"}, {"tiger:tlid2", "1"}}
var boringTags = [][2]string{{"source", "survey"}, {"created_by", "JOSM"}, {"source:ref", "1"}, {"tiger:tlid", "7"}, {"attribution", ""},
	{"history", "h"}, {"source_ref", "r"}, {"tiger:county", "c"}, {"tiger:upload_uuid", "u"}}

// manyTags: 9-15 tags with distinct keys in random (not sorted) order — beyond any small-size
// threshold code might special-case; includes keys the polygon rules and the interest rule read
func manyTags(rng *rand.Rand) osm.Tags {
	pool := [][2]string{{"addr:city", "X"}, {"addr:housenumber", "7"}, {"addr:street", "S"}, {"building", "yes"}, {"name", "N"},
		{"source", "s"}, {"height", "9"}, {"roof:shape", "flat"}, {"created_by", "c"}, {"amenity", "cafe"}, {"wheelchair", "no"},
		{"opening_hours", "24/7"}, {"area", "yes"}, {"highway", "service"}, {"natural", "wood"}, {"landuse", "grass"}, {"zz", "z"}, {"aa", "a"}, {"type", "t"}}
	rng.Shuffle(len(pool), func(i, j int) { pool[i], pool[j] = pool[j], pool[i] })
	n := 9 + rng.Intn(7)
	var t osm.Tags
	for _, kv := range pool[:n] {
		t = append(t, osm.Tag{Key: kv[0], Value: kv[1]})
	}
	return t
}

func randTags(rng *rand.Rand) osm.Tags {
	var t osm.Tags
	if rng.Intn(10) == 0 {
		return manyTags(rng)
	}
	switch rng.Intn(7) {
	case 6: // near misses of the uninteresting keys, alone or next to a really boring one
		for i := 1 + rng.Intn(2); i > 0; i-- {
			x := nearMissTags[rng.Intn(len(nearMissTags))]
			t = append(t, osm.Tag{Key: x[0], Value: x[1]})
		}
		if rng.Intn(2) == 0 {
			x := boringTags[rng.Intn(len(boringTags))]
			t = append(t, osm.Tag{Key: x[0], Value: x[1]})
		}
	case 0:
		return nil
	case 1: // boring only
		for i := 1 + rng.Intn(2); i > 0; i-- {
			x := boringTags[rng.Intn(len(boringTags))]
			t = append(t, osm.Tag{Key: x[0], Value: x[1]})
		}
	case 2: // mixed
		x := boringTags[rng.Intn(len(boringTags))]
		t = append(t, osm.Tag{Key: x[0], Value: x[1]})
		y := interestingTags[rng.Intn(len(interestingTags))]
		t = append(t, osm.Tag{Key: y[0], Value: y[1]})
	default:
		for i := 1 + rng.Intn(3); i > 0; i-- {
			y := interestingTags[rng.Intn(len(interestingTags))]
			t = append(t, osm.Tag{Key: y[0], Value: y[1]})
		}
	}
	if rng.Intn(2) == 0 {
		rng.Shuffle(len(t), func(i, j int) { t[i], t[j] = t[j], t[i] })
	}
	return t
}

type metaFields struct {
	ts   time.Time
	v    int
	cs   osm.ChangesetID
	user string
	uid  osm.UserID
}

func randMeta(rng *rand.Rand) (m metaFields) {
	if rng.Intn(3) == 0 {
		return
	}
	switch rng.Intn(8) {
	case 0, 1, 2, 3:
		m.ts = time.Unix(1300000000+int64(rng.Intn(1000)), 0).UTC()
	case 4:
		m.ts = time.Unix(0, 0).UTC() // the epoch is a timestamp, not "no timestamp"
	case 5:
		m.ts = time.Unix(-86400, 0).UTC()
	}
	if rng.Intn(3) != 0 {
		m.v = 1 + rng.Intn(5)
	}
	if rng.Intn(2) == 0 {
		m.cs = osm.ChangesetID(100 + rng.Intn(50))
	}
	if rng.Intn(2) == 0 {
		m.user = []string{"alice", "bob"}[rng.Intn(2)]
	}
	if rng.Intn(2) == 0 {
		m.uid = osm.UserID(7 + rng.Intn(3))
	}
	return
}

type gen struct {
	rng     *rand.Rand
	o       *osm.OSM
	nextN   osm.NodeID
	nextW   osm.WayID
	nextR   osm.RelationID
	missing osm.NodeID
}

func newGen(rng *rand.Rand) *gen {
	return &gen{rng: rng, o: &osm.OSM{}, nextN: 1, nextW: 1, nextR: 1, missing: 900}
}

func (g *gen) node(x, y int, tags osm.Tags) osm.NodeID {
	m := randMeta(g.rng)
	n := &osm.Node{ID: g.nextN, Lon: float64(x), Lat: float64(y), Tags: tags, Timestamp: m.ts, Version: m.v, ChangesetID: m.cs, User: m.user, UserID: m.uid}
	g.nextN++
	g.o.Nodes = append(g.o.Nodes, n)
	return n.ID
}

// wayOf builds a way over the given node ids; annotate puts the node coordinates on the way
// nodes (as after annotate.Ways) with the given probability per way.
func (g *gen) wayOf(ids []osm.NodeID, tags osm.Tags, annotate bool) *osm.Way {
	m := randMeta(g.rng)
	w := &osm.Way{ID: g.nextW, Tags: tags, Timestamp: m.ts, Version: m.v, ChangesetID: m.cs, User: m.user, UserID: m.uid}
	g.nextW++
	for _, id := range ids {
		wn := osm.WayNode{ID: id}
		if annotate {
			found := false
			for _, n := range g.o.Nodes {
				if n.ID == id {
					wn.Lon, wn.Lat = n.Lon, n.Lat
					found = true
					if g.rng.Intn(4) == 0 {
						// annotated with an older position of the node: the annotation wins
						wn.Lon, wn.Lat = n.Lon+1, n.Lat-1
					}
				}
			}
			if !found && g.rng.Intn(2) == 0 {
				// a node missing from the data but annotated on the way: resolvable
				wn.Lon, wn.Lat = float64(200+g.rng.Intn(9)), float64(60+g.rng.Intn(9))
			}
		}
		w.Nodes = append(w.Nodes, wn)
	}
	g.o.Ways = append(g.o.Ways, w)
	return w
}

func (g *gen) relation(tags osm.Tags, members osm.Members) *osm.Relation {
	m := randMeta(g.rng)
	r := &osm.Relation{ID: g.nextR, Tags: tags, Members: members, Timestamp: m.ts, Version: m.v, ChangesetID: m.cs, User: m.user, UserID: m.uid}
	g.nextR++
	g.o.Relations = append(g.o.Relations, r)
	return r
}

// member roles as they occur in OSM (public transport, routes, multipolygons) plus junk
var routeRoles = []string{"", "", "forward", "backward", "platform", "platform_exit_only", "platform_entry_only", "stop",
	"stop_exit_only", "north", "alternative", "link", "inner", "outer", "Forward", "x y", "platformx"}
var otherRoles = []string{"", "subarea", "Outer", "INNER", "outer ", "label", "admin_centre", "platform", "forward", "main_stream", "enclave", "\u00e4u\u00dfen", "outer\u200b"}

func (g *gen) orient() orb.Orientation {
	switch g.rng.Intn(5) {
	case 0:
		return orb.CW
	case 1:
		return orb.CCW
	}
	return 0
}

// rect adds the four corner nodes of a rectangle and returns them in ring order
// (counter-clockwise or clockwise at random).
func (g *gen) rect(x0, y0, x1, y1 int) ([]osm.NodeID, bool) {
	pts := [][2]int{{x0, y0}, {x1, y0}, {x1, y1}, {x0, y1}}
	ccw := true
	if g.rng.Intn(2) == 0 {
		pts[1], pts[3] = pts[3], pts[1]
		ccw = false
	}
	if g.rng.Intn(3) == 0 {
		// eight nodes: a midpoint on every edge (more pieces to cut the ring into)
		var more [][2]int
		for i, p := range pts {
			q := pts[(i+1)%len(pts)]
			more = append(more, p, [2]int{(p[0] + q[0]) / 2, (p[1] + q[1]) / 2})
		}
		pts = more
	}
	var ids []osm.NodeID
	for _, p := range pts {
		var t osm.Tags
		if g.rng.Intn(4) == 0 {
			t = randTags(g.rng)
		}
		ids = append(ids, g.node(p[0], p[1], t))
	}
	return ids, ccw
}

// ringWays cuts the closed ring over ids into 1..3 ways (random direction each).
// The second result is the true orientation of the ring when walked in each way's direction
// (what annotate.Relations would record); members carry it or 0, never a wrong one: the
// winding clause of the property presupposes truthful annotations.
func (g *gen) ringWays(ids []osm.NodeID, ccw bool, tags osm.Tags, broken bool) ([]*osm.Way, []orb.Orientation) {
	ring := append(append([]osm.NodeID{}, ids...), ids[0])
	k := 1 + g.rng.Intn(3)
	if len(ids) >= 8 {
		k = 1 + g.rng.Intn(6)
	}
	if k > len(ids) {
		k = len(ids)
	}
	cuts := []int{0}
	for i := 1; i < k; i++ {
		cuts = append(cuts, i*len(ids)/k)
	}
	cuts = append(cuts, len(ring)-1)
	var ws []*osm.Way
	var os []orb.Orientation
	for i := 0; i+1 < len(cuts); i++ {
		part := append([]osm.NodeID{}, ring[cuts[i]:cuts[i+1]+1]...)
		if broken && i == 0 && len(part) > 1 {
			part = part[:len(part)-1] // leaves a gap: the ring cannot close
		}
		o := orb.CW
		if ccw {
			o = orb.CCW
		}
		if g.rng.Intn(2) == 0 {
			for a, b := 0, len(part)-1; a < b; a, b = a+1, b-1 {
				part[a], part[b] = part[b], part[a]
			}
			o = -o
		}
		os = append(os, o)
		var t osm.Tags
		if i == 0 {
			t = tags
		} else if g.rng.Intn(3) == 0 {
			t = randTags(g.rng)
		}
		ws = append(ws, g.wayOf(part, t, g.rng.Intn(5) == 0))
	}
	return ws, os
}

// wayMembers: os == nil gives random orientations (routes: Join ignores them), otherwise
// each member carries its true orientation or none.
func (g *gen) wayMembers(ws []*osm.Way, os []orb.Orientation, role string) osm.Members {
	var ms osm.Members
	for i, w := range ws {
		o := g.orient()
		if os != nil {
			o = 0
			if g.rng.Intn(2) == 0 {
				o = os[i]
			}
		}
		ms = append(ms, osm.Member{Type: osm.TypeWay, Ref: int64(w.ID), Role: role, Orientation: o})
	}
	return ms
}

func relTags(rng *rand.Rand, typ string) osm.Tags {
	t := osm.Tags{{Key: "type", Value: typ}}
	switch rng.Intn(5) {
	case 0, 1: // no own tags
	case 2:
		t = append(t, osm.Tag{Key: "source", Value: "s"})
	case 3:
		t = append(t, osm.Tag{Key: "building", Value: "yes"})
	case 4:
		t = append(t, randTags(rng)...)
	}
	if rng.Intn(3) == 0 {
		rng.Shuffle(len(t), func(i, j int) { t[i], t[j] = t[j], t[i] })
	}
	return t
}

// multipolygon scene in the cell with origin (ox, oy)
func (g *gen) multipolygon(ox, oy int) {
	rng := g.rng
	typ := "multipolygon"
	if rng.Intn(4) == 0 {
		typ = "boundary"
	}
	var members osm.Members
	nOuter := 1
	if rng.Intn(3) == 0 {
		nOuter = 2
	}
	var outerTags osm.Tags
	if rng.Intn(2) == 0 {
		outerTags = osm.Tags{{Key: "building", Value: "yes"}}
	} else {
		outerTags = randTags(rng)
	}
	for k := 0; k < nOuter; k++ {
		x0 := ox + k*12
		ids, ccw := g.rect(x0, oy, x0+10, oy+10)
		ws, os := g.ringWays(ids, ccw, outerTags, rng.Intn(6) == 0)
		if rng.Intn(6) == 0 && len(ws) > 0 {
			// the way is not in the data (sometimes its nodes are annotated on the member), or
			// it is there as a skeleton without node refs while the member carries the nodes
			w := ws[0]
			skeleton := rng.Intn(3) == 0
			if !skeleton {
				g.o.Ways = removeWay(g.o.Ways, w.ID)
			}
			m := osm.Member{Type: osm.TypeWay, Ref: int64(w.ID), Role: "outer", Orientation: os[0]}
			if skeleton || rng.Intn(2) == 0 {
				for _, wn := range w.Nodes {
					for _, n := range g.o.Nodes {
						if n.ID == wn.ID {
							m.Nodes = append(m.Nodes, osm.WayNode{ID: wn.ID, Lon: n.Lon, Lat: n.Lat})
						}
					}
				}
			}
			if skeleton {
				w.Nodes = nil
			}
			members = append(members, m)
			ws, os = ws[1:], os[1:]
		}
		members = append(members, g.wayMembers(ws, os, "outer")...)
		if rng.Intn(2) == 0 {
			in, iccw := g.rect(x0+3, oy+3, x0+6, oy+6)
			iws, ios := g.ringWays(in, iccw, randTags(rng), rng.Intn(8) == 0)
			members = append(members, g.wayMembers(iws, ios, "inner")...)
		}
	}
	strays := 0
	switch rng.Intn(10) {
	case 0, 1:
		strays = 1 // an inner outside every outer
	case 2:
		strays = 2 // two of them: the second reuses the polygon with the empty outer
	}
	for k := 0; k < strays; k++ {
		in, iccw := g.rect(ox+30, oy+2+6*k, ox+33, oy+5+6*k)
		iws, ios := g.ringWays(in, iccw, nil, false)
		members = append(members, g.wayMembers(iws, ios, "inner")...)
	}
	if strays > 0 && rng.Intn(3) == 0 {
		// no outer member at all: only IncludeInvalidPolygons reports the relation
		var ms osm.Members
		for _, m := range members {
			if m.Role != "outer" {
				ms = append(ms, m)
			}
		}
		members = ms
	}
	if rng.Intn(8) == 0 {
		members = append(members, osm.Member{Type: osm.TypeNode, Ref: int64(1 + rng.Intn(int(g.nextN))), Role: "outer"})
	}
	if rng.Intn(4) == 0 {
		members = append(members, osm.Member{Type: osm.TypeNode, Ref: int64(1 + rng.Intn(int(g.nextN))), Role: "label"})
	}
	if rng.Intn(5) == 0 && len(g.o.Ways) > 0 {
		members = append(members, osm.Member{Type: osm.TypeWay, Ref: int64(g.o.Ways[rng.Intn(len(g.o.Ways))].ID), Role: otherRoles[rng.Intn(len(otherRoles))]})
	}
	if rng.Intn(6) == 0 {
		members = append(members, osm.Member{Type: osm.TypeWay, Ref: 800 + int64(rng.Intn(5)), Role: []string{"outer", "inner"}[rng.Intn(2)]})
	}
	if rng.Intn(3) == 0 {
		rng.Shuffle(len(members), func(i, j int) { members[i], members[j] = members[j], members[i] })
	}
	r := g.relation(relTags(rng, typ), members)
	if rng.Intn(6) == 0 {
		// a second relation over (some of) the same members: exercises shared ways and,
		// when both are untagged with one outer, the known duplicate-id finding
		var ms osm.Members
		for _, m := range r.Members {
			if rng.Intn(4) != 0 {
				ms = append(ms, m)
			}
		}
		g.relation(relTags(rng, typ), ms)
	}
}

func removeWay(ws osm.Ways, id osm.WayID) osm.Ways {
	var out osm.Ways
	for _, w := range ws {
		if w.ID != id {
			out = append(out, w)
		}
	}
	return out
}

// route scene: a chain of ways sharing end nodes, cut/reversed/shuffled, possibly with gaps
func (g *gen) route(ox, oy int) {
	rng := g.rng
	n := 2 + rng.Intn(6)
	if rng.Intn(12) == 0 {
		n = []int{12, 13, 14, 16, 17, 18, 32, 33, 34, 40}[rng.Intn(10)]
	}
	var ids []osm.NodeID
	x, y := ox, oy
	for i := 0; i < n; i++ {
		var t osm.Tags
		if rng.Intn(4) == 0 {
			t = randTags(rng)
		}
		ids = append(ids, g.node(x, y, t))
		x += 1 + rng.Intn(3)
		y += rng.Intn(3) - 1
	}
	if rng.Intn(5) == 0 {
		ids = append(ids, ids[0]) // a loop
	}
	var ws []*osm.Way
	for i := 0; i < len(ids)-1; {
		j := i + 1 + rng.Intn(3)
		if j > len(ids)-1 {
			j = len(ids) - 1
		}
		part := append([]osm.NodeID{}, ids[i:j+1]...)
		if rng.Intn(6) == 0 {
			part = append(part, g.missing) // a node that is not in the data
			g.missing++
		}
		if rng.Intn(2) == 0 {
			for a, b := 0, len(part)-1; a < b; a, b = a+1, b-1 {
				part[a], part[b] = part[b], part[a]
			}
		}
		ws = append(ws, g.wayOf(part, randTags(rng), rng.Intn(5) == 0))
		i = j
		if rng.Intn(7) == 0 {
			i++ // gap
		}
	}
	members := g.wayMembers(ws, nil, "")
	for i := range members {
		members[i].Role = routeRoles[rng.Intn(len(routeRoles))]
	}
	if rng.Intn(3) == 0 {
		rng.Shuffle(len(members), func(i, j int) { members[i], members[j] = members[j], members[i] })
	}
	if rng.Intn(4) == 0 {
		members = append(members, osm.Member{Type: osm.TypeNode, Ref: int64(ids[rng.Intn(len(ids))]), Role: "stop"})
	}
	if rng.Intn(5) == 0 {
		members = append(members, osm.Member{Type: osm.TypeWay, Ref: 850 + int64(rng.Intn(3)), Role: ""})
	}
	if rng.Intn(6) == 0 && len(members) > 0 {
		members = append(members, members[0]) // the same way twice
	}
	if rng.Intn(8) == 0 {
		members = append(members, osm.Member{Type: osm.TypeRelation, Ref: int64(1 + rng.Intn(3)), Role: "sub"})
	}
	if rng.Intn(6) == 0 {
		// a member way with a single node, or with no resolvable node at all
		var part []osm.NodeID
		if rng.Intn(2) == 0 {
			part = []osm.NodeID{ids[0]}
		} else {
			part = []osm.NodeID{g.missing, g.missing + 1}
			g.missing += 2
		}
		w := g.wayOf(part, randTags(rng), false)
		members = append(members, osm.Member{Type: osm.TypeWay, Ref: int64(w.ID), Role: ""})
	}
	if rng.Intn(12) == 1 {
		// the only member way has a single resolvable node: a feature with an empty geometry
		w := g.wayOf([]osm.NodeID{ids[0], g.missing}, randTags(rng), false)
		g.missing++
		members = osm.Members{{Type: osm.TypeWay, Ref: int64(w.ID), Role: ""}}
	}
	if rng.Intn(12) == 0 {
		// none of the member ways is in the data: no feature
		members = osm.Members{{Type: osm.TypeWay, Ref: 860, Role: ""}, {Type: osm.TypeNode, Ref: int64(ids[0]), Role: "stop"}}
	}
	g.relation(relTags(rng, "route"), members)
}

// loose elements: free nodes, unlocated nodes, plain ways (open, closed/area, short, with
// missing nodes), relations of other types
func (g *gen) loose(ox, oy int) {
	rng := g.rng
	var ids []osm.NodeID
	for i := 1 + rng.Intn(6); i > 0; i-- {
		x, y := ox+rng.Intn(8), oy+rng.Intn(8)
		switch rng.Intn(8) {
		case 0:
			x, y = 0, 0 // at the origin: located only if it has a version
		case 1:
			x = 0
		}
		ids = append(ids, g.node(x, y, randTags(rng)))
	}
	for k := rng.Intn(4); k > 0; k-- {
		var part []osm.NodeID
		for i := rng.Intn(7); i > 0; i-- {
			part = append(part, ids[rng.Intn(len(ids))])
		}
		tags := randTags(rng)
		switch rng.Intn(6) {
		case 0, 1: // closed: an area if the tags say so
			if len(part) >= 3 {
				part = append(part, part[0])
			}
		case 2: // closed on a node that is not in the data: the resolvable line is open
			if len(part) >= 2 {
				part = append(append([]osm.NodeID{g.missing}, part...), g.missing)
				g.missing++
			}
		case 3:
			part = append(part, g.missing)
			g.missing++
		}
		if len(part) > 3 && part[0] == part[len(part)-1] && rng.Intn(2) == 0 {
			tags = append(tags, osm.Tag{Key: "area", Value: "yes"})
		}
		g.wayOf(part, tags, rng.Intn(4) == 0)
	}
	if rng.Intn(3) == 0 {
		var ms osm.Members
		for i := rng.Intn(4); i > 0; i-- {
			switch rng.Intn(3) {
			case 0:
				ms = append(ms, osm.Member{Type: osm.TypeNode, Ref: int64(ids[rng.Intn(len(ids))]), Role: routeRoles[rng.Intn(len(routeRoles))]})
			case 1:
				ms = append(ms, osm.Member{Type: osm.TypeWay, Ref: int64(1 + rng.Intn(int(g.nextW))), Role: routeRoles[rng.Intn(len(routeRoles))]})
			default:
				ms = append(ms, osm.Member{Type: osm.TypeRelation, Ref: int64(1 + rng.Intn(int(g.nextR))), Role: otherRoles[rng.Intn(len(otherRoles))]})
			}
		}
		var t osm.Tags
		switch rng.Intn(3) {
		case 0:
			t = osm.Tags{{Key: "type", Value: "restriction"}}
		case 1:
			t = randTags(rng)
		default:
			t = osm.Tags{{Key: "note", Value: "n"}, {Key: "type", Value: "multipolygon"}, {Key: "type", Value: "route"}} // Find takes the first
		}
		g.relation(t, ms)
	}
}

func randomScene(rng *rand.Rand) (*osm.OSM, string) {
	return randomSceneParts(rng, 1+rng.Intn(3))
}

// tinyAreas: a handful of very small closed area ways (rectangles and right triangles with sides
// of 1 to 4 grid steps), written in either direction, some cut short by a missing closing node.
// None has zero area, so the scene stays embeddable.
func (g *gen) tinyAreas(ox, oy int) {
	rng := g.rng
	for k := 2 + rng.Intn(5); k > 0; k-- {
		x0, y0 := ox+6*k, oy+rng.Intn(4)
		w, h := 1+rng.Intn(4), 1+rng.Intn(4)
		pts := [][2]int{{x0, y0}, {x0 + w, y0}, {x0 + w, y0 + h}, {x0, y0 + h}}
		if rng.Intn(3) == 0 {
			pts = pts[:3] // a triangle
		}
		if rng.Intn(2) == 0 {
			for a, b := 0, len(pts)-1; a < b; a, b = a+1, b-1 {
				pts[a], pts[b] = pts[b], pts[a]
			}
		}
		var ids []osm.NodeID
		for _, p := range pts {
			ids = append(ids, g.node(p[0], p[1], nil))
		}
		if len(ids) == 3 {
			// Polygon() wants more than three node refs: go round once more over the first edge
			ids = append(ids, ids[0], ids[1], ids[2])
		}
		ids = append(ids, ids[0])
		tags := osm.Tags{{Key: "building", Value: "yes"}}
		if rng.Intn(3) == 0 {
			tags = osm.Tags{{Key: "area", Value: "yes"}, {Key: "source", Value: "s"}}
		}
		g.wayOf(ids, tags, rng.Intn(4) == 0)
	}
}

func randomSceneParts(rng *rand.Rand, parts int) (*osm.OSM, string) {
	g := newGen(rng)
	class := ""
	for p := 0; p < parts; p++ {
		ox, oy := 100+40*p, 50+rng.Intn(5)
		switch rng.Intn(5) {
		case 4:
			g.tinyAreas(ox, oy)
			class += "A"
		case 0:
			g.loose(ox, oy)
			class += "L"
		case 1:
			g.route(ox, oy)
			class += "R"
		default:
			g.multipolygon(ox, oy)
			class += "M"
		}
	}
	if len(g.o.Relations) > 0 && rng.Intn(3) == 0 {
		// a parent relation (route_master, super relation, collection) over some of the relations,
		// listed BEFORE or after its children
		var ms osm.Members
		for _, r := range g.o.Relations {
			if rng.Intn(3) != 0 {
				ms = append(ms, osm.Member{Type: osm.TypeRelation, Ref: int64(r.ID), Role: otherRoles[rng.Intn(len(otherRoles))]})
			}
		}
		ms = append(ms, osm.Member{Type: osm.TypeRelation, Ref: 990, Role: "missing"})
		parent := &osm.Relation{ID: g.nextR, Tags: osm.Tags{{Key: "type", Value: []string{"route_master", "superroute", "collection", "route"}[rng.Intn(4)]}}, Members: ms, Version: 1 + rng.Intn(3)}
		g.nextR++
		if rng.Intn(2) == 0 {
			g.o.Relations = append(osm.Relations{parent}, g.o.Relations...)
		} else {
			g.o.Relations = append(g.o.Relations, parent)
		}
		class += "P"
	}
	if rng.Intn(4) == 0 {
		rng.Shuffle(len(g.o.Nodes), func(i, j int) { g.o.Nodes[i], g.o.Nodes[j] = g.o.Nodes[j], g.o.Nodes[i] })
		rng.Shuffle(len(g.o.Ways), func(i, j int) { g.o.Ways[i], g.o.Ways[j] = g.o.Ways[j], g.o.Ways[i] })
	}
	if rng.Intn(6) == 0 {
		rng.Shuffle(len(g.o.Relations), func(i, j int) { g.o.Relations[i], g.o.Relations[j] = g.o.Relations[j], g.o.Relations[i] })
	}
	return g.o, class
}

// ---------- ids outside the 40 bits a FeatureID packs ----------

// extremeIDs gives some nodes, ways and relations ids that are negative (objects of an editor
// that are not uploaded yet, id='-1' in .osm files) or do not fit in the 40 bits osm.FeatureID
// keeps of a ref.  Only elements whose identity the conversion takes from the element itself
// are renumbered: nodes, ways and relations that are NOT members of a relation, and relations
// that are not of type multipolygon/boundary (buildPolygon reads type and ref back out of the
// packed FeatureID, and the membership map is keyed by packed FeatureIDs: renumbering those is
// the deep variant below, which lands in the known-finding class).  References to a renumbered node (way nodes, annotated member
// nodes) follow.  The renumbering is dropped when two different (type, id) keys of the scene
// would pack to the same FeatureID.  Reports whether ids were changed.
//
// deep = true lifts both restrictions: members (their refs follow) and multipolygon/boundary
// relations are renumbered too and clashes are allowed.  Such a scene is usually in the
// known-finding class polygon-id-outside-packed-range (packedOK decides, from the input alone);
// the model follows the packing there, so model = implementation is still judged exactly.
func extremeIDs(o *osm.OSM, rng *rand.Rand, deep bool) bool {
	member := map[[2]int64]bool{}
	if !deep {
		for _, r := range o.Relations {
			for _, m := range r.Members {
				member[[2]int64{int64(typeNum[m.Type]), m.Ref}] = true
			}
		}
	}
	k := int64(0)
	pick := func() int64 {
		k++
		switch rng.Intn(9) {
		case 8:
			return int64(1)<<44 + k // sets a type bit: node 2^44+k packs like node k, way 2^44+k like relation k
		case 0:
			return -k
		case 1:
			return -(int64(1) << 31) - k
		case 2:
			return -(int64(1) << 40) - 3*k
		case 3:
			return math.MinInt64 + k
		case 4:
			return int64(1)<<40 + k - 1
		case 5:
			return int64(1)<<40 + int64(1)<<39 + 5*k
		case 6:
			return int64(1)<<47 + 777777 + k
		default:
			return math.MaxInt64 - k
		}
	}
	nodeNew := map[osm.NodeID]osm.NodeID{}
	for _, n := range o.Nodes {
		if !member[[2]int64{1, int64(n.ID)}] && rng.Intn(2) == 0 {
			if _, dup := nodeNew[n.ID]; !dup {
				nodeNew[n.ID] = osm.NodeID(pick())
			}
		}
	}
	wayNew := map[osm.WayID]osm.WayID{}
	for _, w := range o.Ways {
		if !member[[2]int64{2, int64(w.ID)}] && rng.Intn(2) == 0 {
			if _, dup := wayNew[w.ID]; !dup {
				wayNew[w.ID] = osm.WayID(pick())
			}
		}
	}
	relNew := map[osm.RelationID]osm.RelationID{}
	for _, r := range o.Relations {
		t := r.Tags.Find("type")
		if !member[[2]int64{3, int64(r.ID)}] && (deep || (t != "multipolygon" && t != "boundary")) && rng.Intn(2) == 0 {
			if _, dup := relNew[r.ID]; !dup {
				relNew[r.ID] = osm.RelationID(pick())
			}
		}
	}
	if len(nodeNew)+len(wayNew)+len(relNew) == 0 {
		return false
	}
	// the packing must stay injective on the keys of the scene
	packed := map[osm.FeatureID][2]int64{}
	clash := false
	see := func(t int64, id int64) {
		var f osm.FeatureID
		switch t {
		case 1:
			if v, ok := nodeNew[osm.NodeID(id)]; ok {
				id = int64(v)
			}
			f = osm.NodeID(id).FeatureID()
		case 2:
			if v, ok := wayNew[osm.WayID(id)]; ok {
				id = int64(v)
			}
			f = osm.WayID(id).FeatureID()
		default:
			if v, ok := relNew[osm.RelationID(id)]; ok {
				id = int64(v)
			}
			f = osm.RelationID(id).FeatureID()
		}
		key := [2]int64{t, id}
		if old, ok := packed[f]; ok && old != key {
			clash = true
		}
		packed[f] = key
	}
	for _, n := range o.Nodes {
		see(1, int64(n.ID))
	}
	for _, w := range o.Ways {
		see(2, int64(w.ID))
	}
	for _, r := range o.Relations {
		see(3, int64(r.ID))
	}
	for key := range member {
		if key[0] >= 1 && key[0] <= 3 {
			// member refs are never renumbered (their elements are not), so the maps do not apply
			var f osm.FeatureID
			switch key[0] {
			case 1:
				f = osm.NodeID(key[1]).FeatureID()
			case 2:
				f = osm.WayID(key[1]).FeatureID()
			default:
				f = osm.RelationID(key[1]).FeatureID()
			}
			if old, ok := packed[f]; ok && old != key {
				clash = true
			}
			packed[f] = key
		}
	}
	if clash && !deep {
		return false
	}
	if deep {
		for _, r := range o.Relations {
			for i := range r.Members {
				m := &r.Members[i]
				switch m.Type {
				case osm.TypeNode:
					if v, ok := nodeNew[osm.NodeID(m.Ref)]; ok {
						m.Ref = int64(v)
					}
				case osm.TypeWay:
					if v, ok := wayNew[osm.WayID(m.Ref)]; ok {
						m.Ref = int64(v)
					}
				case osm.TypeRelation:
					if v, ok := relNew[osm.RelationID(m.Ref)]; ok {
						m.Ref = int64(v)
					}
				}
			}
		}
	}
	for _, n := range o.Nodes {
		if v, ok := nodeNew[n.ID]; ok {
			n.ID = v
		}
	}
	for _, w := range o.Ways {
		if v, ok := wayNew[w.ID]; ok {
			w.ID = v
		}
		for i := range w.Nodes {
			if v, ok := nodeNew[w.Nodes[i].ID]; ok {
				w.Nodes[i].ID = v
			}
		}
	}
	for _, r := range o.Relations {
		if v, ok := relNew[r.ID]; ok {
			r.ID = v
		}
		for i := range r.Members {
			for j := range r.Members[i].Nodes {
				if v, ok := nodeNew[r.Members[i].Nodes[j].ID]; ok {
					r.Members[i].Nodes[j].ID = v
				}
			}
		}
	}
	return true
}

// ---------- fixed corpus ----------

func tagsOf(kv ...string) osm.Tags {
	var t osm.Tags
	for i := 0; i+1 < len(kv); i += 2 {
		t = append(t, osm.Tag{Key: kv[i], Value: kv[i+1]})
	}
	return t
}

func nodesAt(pts ...[3]int) osm.Nodes {
	var ns osm.Nodes
	for _, p := range pts {
		ns = append(ns, &osm.Node{ID: osm.NodeID(p[0]), Lon: float64(p[1]), Lat: float64(p[2]), Version: 1})
	}
	return ns
}

func wayIDs(id int, tags osm.Tags, ids ...int) *osm.Way {
	w := &osm.Way{ID: osm.WayID(id), Tags: tags, Version: 1}
	for _, i := range ids {
		w.Nodes = append(w.Nodes, osm.WayNode{ID: osm.NodeID(i)})
	}
	return w
}

// sharedOuter: two old-style multipolygon relations (no own tags) whose single outer member is
// the same way 10 — the design round's defect candidate (build_polygon.go 119-124).
func sharedOuter() *osm.OSM {
	return &osm.OSM{
		Nodes: nodesAt([3]int{1, 10, 10}, [3]int{2, 20, 10}, [3]int{3, 20, 20}, [3]int{4, 10, 20},
			[3]int{5, 12, 12}, [3]int{6, 14, 12}, [3]int{7, 14, 14}, [3]int{8, 12, 14},
			[3]int{9, 16, 16}, [3]int{10, 18, 16}, [3]int{11, 18, 18}, [3]int{12, 16, 18}),
		Ways: osm.Ways{wayIDs(10, tagsOf("building", "yes"), 1, 2, 3, 4, 1), wayIDs(11, nil, 5, 6, 7, 8, 5), wayIDs(12, nil, 9, 10, 11, 12, 9)},
		Relations: osm.Relations{
			{ID: 1, Tags: tagsOf("type", "multipolygon"), Members: osm.Members{{Type: osm.TypeWay, Ref: 10, Role: "outer"}, {Type: osm.TypeWay, Ref: 11, Role: "inner"}}},
			{ID: 2, Tags: tagsOf("type", "multipolygon"), Members: osm.Members{{Type: osm.TypeWay, Ref: 10, Role: "outer"}, {Type: osm.TypeWay, Ref: 12, Role: "inner"}}},
		},
	}
}

// rich: one scene with every feature class, used for the canaries.
func rich() *osm.OSM {
	ts := time.Unix(1300000100, 0).UTC()
	o := &osm.OSM{
		Nodes: nodesAt([3]int{1, 10, 10}, [3]int{2, 20, 10}, [3]int{3, 20, 20}, [3]int{4, 10, 20},
			[3]int{5, 30, 10}, [3]int{6, 32, 11}, [3]int{7, 35, 10}, [3]int{8, 50, 50}, [3]int{9, 12, 12}, [3]int{13, 14, 12}, [3]int{14, 14, 14}),
		Ways: osm.Ways{
			wayIDs(10, tagsOf("building", "yes", "source", "x"), 1, 2, 3, 4, 1),
			wayIDs(11, tagsOf("highway", "residential"), 5, 6),
			wayIDs(12, tagsOf("created_by", "x"), 6, 7, 901),
			wayIDs(13, tagsOf("natural", "water"), 9, 13, 14, 9),
			wayIDs(14, nil, 3, 8),
		},
		Relations: osm.Relations{
			{ID: 1, Version: 3, User: "alice", Tags: tagsOf("type", "route", "route", "bus"), Members: osm.Members{
				{Type: osm.TypeWay, Ref: 12, Role: "forward"}, {Type: osm.TypeWay, Ref: 11, Role: ""}, {Type: osm.TypeNode, Ref: 5, Role: "stop"}}},
			{ID: 2, Tags: tagsOf("type", "multipolygon", "landuse", "forest"), Members: osm.Members{
				{Type: osm.TypeWay, Ref: 10, Role: "outer"}, {Type: osm.TypeWay, Ref: 13, Role: "inner"}}},
		},
	}
	o.Nodes[7].Tags = tagsOf("amenity", "cafe", "source", "survey")
	o.Nodes[7].Timestamp, o.Nodes[7].ChangesetID, o.Nodes[7].User, o.Nodes[7].UserID = ts, 123, "bob", 9
	o.Nodes[1].Tags = tagsOf("barrier", "wall")
	o.Ways[1].Timestamp, o.Ways[1].ChangesetID, o.Ways[1].UserID = ts, 77, 8
	return o
}

func corpus() []*osm.OSM {
	var out []*osm.OSM
	out = append(out, &osm.OSM{}, rich(), sharedOuter())
	// old-style multipolygon, relation without own tags: the outer way is adopted
	o := sharedOuter()
	o.Relations = o.Relations[:1]
	out = append(out, o)
	// the outer way carries exactly the relation's tags: it is skipped; an open ring then loses it entirely
	o = sharedOuter()
	o.Relations = o.Relations[:1]
	o.Relations[0].Tags = tagsOf("type", "multipolygon", "building", "yes")
	o.Ways[0].Nodes = o.Ways[0].Nodes[:4]
	out = append(out, o)
	// inner ring without any outer: only IncludeInvalidPolygons yields a feature
	o = sharedOuter()
	o.Relations = o.Relations[:1]
	o.Relations[0].Members = o.Relations[0].Members[1:]
	out = append(out, o)
	// route whose ways need reversing, plus a member missing from the data
	out = append(out, &osm.OSM{
		Nodes: nodesAt([3]int{1, 1, 1}, [3]int{2, 2, 2}, [3]int{3, 3, 1}, [3]int{4, 4, 4}),
		Ways:  osm.Ways{wayIDs(1, nil, 2, 1), wayIDs(2, tagsOf("highway", "path"), 2, 3), wayIDs(3, nil, 4, 3)},
		Relations: osm.Relations{{ID: 5, Tags: tagsOf("type", "route"), Members: osm.Members{
			{Type: osm.TypeWay, Ref: 1}, {Type: osm.TypeWay, Ref: 3}, {Type: osm.TypeWay, Ref: 2}, {Type: osm.TypeWay, Ref: 99}}}},
	})
	// node rule: way member with only boring tags / with an interesting tag / relation member / at the origin
	o = &osm.OSM{
		Nodes:     nodesAt([3]int{1, 1, 1}, [3]int{2, 2, 2}, [3]int{3, 3, 1}, [3]int{4, 0, 0}, [3]int{5, 0, 0}),
		Ways:      osm.Ways{wayIDs(1, tagsOf("highway", "path"), 1, 2, 3, 4)},
		Relations: osm.Relations{{ID: 1, Tags: tagsOf("type", "restriction"), Members: osm.Members{{Type: osm.TypeNode, Ref: 3, Role: "via"}}}},
	}
	o.Nodes[0].Tags = tagsOf("source", "x")
	o.Nodes[1].Tags = tagsOf("source", "x", "amenity", "cafe")
	o.Nodes[4].Version = 0
	out = append(out, o)
	// more than eight tags, not in key order, on a closed way, a node and a relation
	o = sharedOuter()
	o.Relations = o.Relations[:1]
	many := tagsOf("wheelchair", "no", "name", "N", "building", "yes", "addr:street", "S", "zz", "z", "height", "9",
		"addr:city", "X", "source", "s", "roof:shape", "flat", "aa", "a", "amenity", "cafe", "opening_hours", "24/7")
	o.Ways[0].Tags = append(osm.Tags{}, many...)
	o.Ways[1].Tags = append(osm.Tags{}, many[:10]...)
	o.Nodes[0].Tags = append(osm.Tags{}, many...)
	o.Relations[0].Tags = append(tagsOf("type", "multipolygon"), many[:11]...)
	out = append(out, o)
	// public transport route: platform ways are members like any other
	out = append(out, &osm.OSM{
		Nodes: nodesAt([3]int{1, 1, 1}, [3]int{2, 2, 2}, [3]int{3, 3, 1}, [3]int{4, 4, 4}, [3]int{5, 2, 5}, [3]int{6, 3, 5}),
		Ways:  osm.Ways{wayIDs(1, nil, 1, 2), wayIDs(2, tagsOf("highway", "path"), 2, 3), wayIDs(3, tagsOf("public_transport", "platform"), 5, 6), wayIDs(4, nil, 3, 4)},
		Relations: osm.Relations{{ID: 5, Tags: tagsOf("type", "route", "route", "bus"), Members: osm.Members{
			{Type: osm.TypeWay, Ref: 3, Role: "platform"}, {Type: osm.TypeWay, Ref: 1, Role: ""}, {Type: osm.TypeWay, Ref: 2, Role: "forward"},
			{Type: osm.TypeWay, Ref: 4, Role: "platform_exit_only"}, {Type: osm.TypeNode, Ref: 5, Role: "stop"}}}},
	})
	// keys of the source:* / tiger:* families that are not in the uninteresting list count as
	// interesting: way nodes with only such tags get points, member ways with only such tags stay
	o = &osm.OSM{
		Nodes: nodesAt([3]int{1, 1, 1}, [3]int{2, 2, 2}, [3]int{3, 3, 1}, [3]int{4, 4, 4}),
		Ways:  osm.Ways{wayIDs(1, tagsOf("source:date", "2020"), 1, 2), wayIDs(2, tagsOf("tiger:reviewed", "no", "tiger:tlid", "7"), 2, 3), wayIDs(3, tagsOf("source", "s"), 3, 4)},
		Relations: osm.Relations{{ID: 1, Tags: tagsOf("type", "route"), Members: osm.Members{
			{Type: osm.TypeWay, Ref: 1}, {Type: osm.TypeWay, Ref: 2}, {Type: osm.TypeWay, Ref: 3}}}},
	}
	o.Nodes[0].Tags = tagsOf("tiger:reviewed", "no")
	o.Nodes[1].Tags = tagsOf("source:name", "n", "source", "s")
	o.Nodes[2].Tags = tagsOf("created_by", "x")
	o.Nodes[3].Tags = tagsOf("Source", "x")
	out = append(out, o)
	// a route master listed before the route it contains, and a route that is a member of itself
	out = append(out, &osm.OSM{
		Nodes: nodesAt([3]int{1, 1, 1}, [3]int{2, 2, 2}, [3]int{3, 3, 1}),
		Ways:  osm.Ways{wayIDs(1, nil, 1, 2), wayIDs(2, tagsOf("highway", "path"), 2, 3)},
		Relations: osm.Relations{
			{ID: 9, Tags: tagsOf("type", "route_master", "ref", "7"), Members: osm.Members{{Type: osm.TypeRelation, Ref: 5, Role: "variant"}, {Type: osm.TypeRelation, Ref: 6}}},
			{ID: 5, Tags: tagsOf("type", "route"), Members: osm.Members{{Type: osm.TypeWay, Ref: 1}, {Type: osm.TypeWay, Ref: 2}, {Type: osm.TypeRelation, Ref: 5, Role: "self"}}},
			{ID: 6, Tags: tagsOf("type", "multipolygon"), Members: osm.Members{{Type: osm.TypeRelation, Ref: 9, Role: "back"}}}},
	})
	// IncludeInvalidPolygons and the holes of valid polygons (Coq: d_hole,
	// C17_incl_keeps_holes_refuted): valid square, unclosed bigger outer listed after it, a hole
	// inside both; with the option the unclosed ring claims the hole
	out = append(out, &osm.OSM{
		Nodes: nodesAt([3]int{1, 10, 10}, [3]int{2, 20, 10}, [3]int{3, 20, 20}, [3]int{4, 10, 20}, [3]int{5, 5, 5}, [3]int{6, 25, 5},
			[3]int{7, 25, 25}, [3]int{8, 5, 25}, [3]int{9, 13, 13}, [3]int{10, 16, 13}, [3]int{11, 16, 16}, [3]int{12, 13, 16}),
		Ways: osm.Ways{wayIDs(1, nil, 1, 2, 3, 4, 1), wayIDs(2, nil, 5, 6, 7, 8), wayIDs(3, nil, 9, 10, 11, 12, 9)},
		Relations: osm.Relations{{ID: 1, Tags: tagsOf("type", "multipolygon", "natural", "water"), Members: osm.Members{
			{Type: osm.TypeWay, Ref: 1, Role: "outer"}, {Type: osm.TypeWay, Ref: 2, Role: "outer"}, {Type: osm.TypeWay, Ref: 3, Role: "inner"}}}},
	})
	// a route whose only member way has one resolvable node: feature with an empty MultiLineString
	out = append(out, &osm.OSM{
		Nodes:     nodesAt([3]int{1, 1, 1}),
		Ways:      osm.Ways{wayIDs(1, nil, 1, 902)},
		Relations: osm.Relations{{ID: 1, Tags: tagsOf("type", "route"), Members: osm.Members{{Type: osm.TypeWay, Ref: 1}}}},
	})
	// an area way closed on a node that is missing from the data: the ring must still be closed
	out = append(out, &osm.OSM{
		Nodes: nodesAt([3]int{1, 1, 1}, [3]int{2, 5, 1}, [3]int{3, 5, 5}, [3]int{4, 1, 5}),
		Ways:  osm.Ways{wayIDs(1, tagsOf("area", "yes"), 901, 1, 4, 3, 2, 901), wayIDs(2, tagsOf("building", "yes"), 1, 2, 3, 1)},
	})
	// negative ids (editor objects not uploaded yet) and ids beyond the 40 bits of a FeatureID, for
	// every element kind whose identity comes from the element itself: tagged and untagged nodes,
	// a line way, an area way, a way with a missing node, two route relations, another relation
	{
		const B = int64(1) << 40
		x := &osm.OSM{
			Nodes: nodesAt([3]int{1, 10, 10}, [3]int{2, 20, 10}, [3]int{3, 20, 20}, [3]int{4, 10, 20}, [3]int{5, 30, 30}, [3]int{6, 40, 31}, [3]int{7, 44, 35}, [3]int{8, 50, 50}, [3]int{9, 60, 60}),
			Ways: osm.Ways{wayIDs(1, tagsOf("building", "yes"), 1, 2, 3, 4, 1), wayIDs(2, tagsOf("highway", "path"), 5, 6, 903, 7),
				wayIDs(3, nil, 5, 6), wayIDs(4, nil, 6, 7), wayIDs(5, tagsOf("area", "yes", "name", "x"), 1, 3, 4, 1)},
			Relations: osm.Relations{
				{ID: 1, Tags: tagsOf("type", "route", "route", "bus"), Members: osm.Members{{Type: osm.TypeWay, Ref: 3}, {Type: osm.TypeWay, Ref: 4}}},
				{ID: 2, Tags: tagsOf("type", "route"), Members: osm.Members{{Type: osm.TypeWay, Ref: 4, Role: "forward"}, {Type: osm.TypeWay, Ref: 77}}},
				{ID: 3, Tags: tagsOf("type", "site"), Members: osm.Members{{Type: osm.TypeWay, Ref: 3, Role: "x"}}},
			},
		}
		x.Nodes[7].Tags, x.Nodes[8].Tags = tagsOf("amenity", "cafe"), tagsOf("natural", "tree")
		ren := map[osm.NodeID]osm.NodeID{1: -1, 2: osm.NodeID(B), 3: osm.NodeID(-B - 9), 8: -7, 9: osm.NodeID(B + B/2 + 5)}
		for _, n := range x.Nodes {
			if v, ok := ren[n.ID]; ok {
				n.ID = v
			}
		}
		for _, w := range x.Ways {
			for i := range w.Nodes {
				if v, ok := ren[w.Nodes[i].ID]; ok {
					w.Nodes[i].ID = v
				}
			}
		}
		x.Ways[0].ID, x.Ways[1].ID, x.Ways[4].ID = -2, osm.WayID(B+777777), osm.WayID(int64(1)<<62+9)
		x.Relations[0].ID, x.Relations[1].ID, x.Relations[2].ID = -3, osm.RelationID(B*2+1), -(1 << 31)
		out = append(out, x)
	}
	// Way.Polygon() with an area override in every position relative to the area-making tag:
	// closed ways tagged building/landuse/highway with area=no / area=yes first, last and between
	// other tags (way pass: polygon or line), also as outer and inner members of a tagged
	// multipolygon that keep their own feature
	{
		x := &osm.OSM{Nodes: nodesAt([3]int{1, 10, 10}, [3]int{2, 20, 10}, [3]int{3, 20, 20}, [3]int{4, 10, 20},
			[3]int{5, 12, 12}, [3]int{6, 14, 12}, [3]int{7, 14, 14}, [3]int{8, 12, 14})}
		orders := []osm.Tags{
			tagsOf("building", "yes", "area", "no"), tagsOf("area", "no", "building", "yes"),
			tagsOf("building", "yes", "name", "x", "area", "no"), tagsOf("name", "x", "area", "no", "building", "yes"),
			tagsOf("building", "yes", "area", "no", "name", "x"), tagsOf("area", "no", "name", "x", "building", "yes"),
			tagsOf("landuse", "forest", "source", "s", "area", "no"), tagsOf("natural", "water", "area", "no", "landuse", "basin"),
			tagsOf("highway", "residential", "area", "yes"), tagsOf("area", "yes", "highway", "residential"),
			tagsOf("highway", "pedestrian", "name", "x", "area", "yes"), tagsOf("name", "x", "area", "yes", "barrier", "wall"),
			tagsOf("building", "yes", "area", "yes"), tagsOf("area", "yes", "building", "no"), tagsOf("area", "no"), tagsOf("area", "yes"),
			tagsOf("building", "no", "area", "no", "landuse", "forest"), tagsOf("building", "yes", "area", "false"),
		}
		for i, t := range orders {
			x.Ways = append(x.Ways, wayIDs(100+i, t, 1, 2, 3, 4, 1))
		}
		// members: outer 201 (override last) and 202 (override first), inner 203 (override last), 204 (first)
		x.Ways = append(x.Ways, wayIDs(201, tagsOf("building", "yes", "area", "no"), 1, 2, 3, 4, 1), wayIDs(202, tagsOf("area", "no", "building", "yes"), 1, 2, 3, 4, 1),
			wayIDs(203, tagsOf("natural", "water", "area", "no"), 5, 6, 7, 8, 5), wayIDs(204, tagsOf("area", "no", "natural", "water"), 5, 6, 7, 8, 5))
		x.Relations = osm.Relations{
			{ID: 1, Tags: tagsOf("type", "multipolygon", "landuse", "forest"), Members: osm.Members{{Type: osm.TypeWay, Ref: 201, Role: "outer"}, {Type: osm.TypeWay, Ref: 203, Role: "inner"}}},
			{ID: 2, Tags: tagsOf("type", "boundary", "name", "b"), Members: osm.Members{{Type: osm.TypeWay, Ref: 202, Role: "outer"}, {Type: osm.TypeWay, Ref: 204, Role: "inner"}}},
		}
		out = append(out, x)
	}
	// old-style multipolygons whose relation carries MORE than the type tag, but nothing interesting:
	// an uninteresting key, an empty value, the type tag not first, a second type tag; and one with an
	// interesting tag besides (not old-style).  Each over its own tagged outer way.
	{
		x := &osm.OSM{}
		for i, t := range []osm.Tags{
			tagsOf("type", "multipolygon", "source", "survey"), tagsOf("created_by", "JOSM", "type", "multipolygon"),
			tagsOf("type", "boundary", "name", ""), tagsOf("type", "multipolygon", "type", "true"),
			tagsOf("type", "multipolygon", "source", "s", "attribution", "a", "note", ""), tagsOf("type", "multipolygon"),
			tagsOf("type", "multipolygon", "natural", "water"), tagsOf("source", "s", "type", "multipolygon", "name", "lake"),
		} {
			b := 10 * i
			x.Nodes = append(x.Nodes, nodesAt([3]int{b + 1, b + 1, 1}, [3]int{b + 2, b + 6, 1}, [3]int{b + 3, b + 6, 6}, [3]int{b + 4, b + 1, 6})...)
			x.Ways = append(x.Ways, wayIDs(100+i, tagsOf("building", "yes"), b+1, b+2, b+3, b+4, b+1))
			x.Relations = append(x.Relations, &osm.Relation{ID: osm.RelationID(i + 1), Tags: t, Members: osm.Members{{Type: osm.TypeWay, Ref: int64(100 + i), Role: "outer"}}})
		}
		out = append(out, x)
	}
	// ---- known finding polygon-id-outside-packed-range: the Coq witnesses and directed probes ----
	// polyNegativeID (Examples.d_polyneg): a tagged multipolygon relation with id -1 -> type "", id 2^40-1
	out = append(out, &osm.OSM{
		Nodes: nodesAt([3]int{1, 1, 1}, [3]int{2, 5, 1}, [3]int{3, 5, 5}, [3]int{4, 1, 5}),
		Ways:  osm.Ways{wayIDs(10, nil, 1, 2, 3, 4, 1)},
		Relations: osm.Relations{{ID: -1, Tags: tagsOf("type", "multipolygon", "natural", "water"),
			Members: osm.Members{{Type: osm.TypeWay, Ref: 10, Role: "outer"}}}},
	})
	// keyClash (Examples.d_clash): way -1 is a route member; node -1, an untagged node of that way,
	// is not a member of anything but packs to the same FeatureID
	out = append(out, &osm.OSM{
		Nodes:     nodesAt([3]int{1, 1, 1}, [3]int{2, 5, 1}, [3]int{-1, 9, 9}),
		Ways:      osm.Ways{wayIDs(-1, nil, 1, 2, -1)},
		Relations: osm.Relations{{ID: 5, Tags: tagsOf("type", "route"), Members: osm.Members{{Type: osm.TypeWay, Ref: -1, Role: "forward"}}}},
	})
	// a boundary relation with id 2^40+5 -> "/5"; an old-style relation adopting way -1 -> "/2^40-1";
	// an old-style relation adopting way 2^44+5 -> "relation/5"
	out = append(out, &osm.OSM{
		Nodes: nodesAt([3]int{1, 1, 1}, [3]int{2, 5, 1}, [3]int{3, 5, 5}, [3]int{4, 1, 5}),
		Ways:  osm.Ways{wayIDs(10, nil, 1, 2, 3, 4, 1)},
		Relations: osm.Relations{{ID: 1<<40 + 5, Version: 2, Tags: tagsOf("type", "boundary", "name", "x"),
			Members: osm.Members{{Type: osm.TypeWay, Ref: 10, Role: "outer"}}}},
	})
	for _, wid := range []int{-1, 1<<44 + 5} {
		out = append(out, &osm.OSM{
			Nodes: nodesAt([3]int{1, 1, 1}, [3]int{2, 5, 1}, [3]int{3, 5, 5}, [3]int{4, 1, 5}),
			Ways:  osm.Ways{wayIDs(wid, tagsOf("building", "yes"), 1, 2, 3, 4, 1)},
			Relations: osm.Relations{{ID: 7, Tags: tagsOf("type", "multipolygon"),
				Members: osm.Members{{Type: osm.TypeWay, Ref: int64(wid), Role: "outer"}}}},
		})
	}
	// member node 2 is in range; node 2^44+2, an untagged way node and no member, packs like node 2
	out = append(out, &osm.OSM{
		Nodes:     nodesAt([3]int{1, 1, 1}, [3]int{2, 5, 1}, [3]int{3, 5, 5}, [3]int{1<<44 + 2, 1, 5}),
		Ways:      osm.Ways{wayIDs(10, tagsOf("highway", "path"), 1, 2, 3, 1<<44+2)},
		Relations: osm.Relations{{ID: 5, Tags: tagsOf("type", "site"), Members: osm.Members{{Type: osm.TypeNode, Ref: 2, Role: "stop"}}}},
	})
	return out
}

// embeddedCorpus: scenes converted on the 1e-7 degree grid far from (0,0)
func embeddedCorpus() []*osm.OSM {
	var out []*osm.OSM
	// tiny buildings (sides of 2 to 7 grid steps = 2 to 8 cm), written clockwise and
	// counter-clockwise, one with a missing closing node, next to a tiny route
	out = append(out, &osm.OSM{
		Nodes: nodesAt([3]int{1, 11, 11}, [3]int{2, 13, 11}, [3]int{3, 13, 14}, [3]int{4, 11, 14},
			[3]int{5, 21, 21}, [3]int{6, 21, 28}, [3]int{7, 27, 28}, [3]int{8, 27, 21}, [3]int{9, 40, 40}, [3]int{10, 41, 42}),
		Ways: osm.Ways{wayIDs(1, tagsOf("building", "yes"), 1, 2, 3, 4, 1), wayIDs(2, tagsOf("building", "yes"), 5, 6, 7, 8, 5),
			wayIDs(3, tagsOf("area", "yes"), 901, 4, 3, 2, 1, 901), wayIDs(4, tagsOf("highway", "path"), 9, 10), wayIDs(5, nil, 10, 8)},
		Relations: osm.Relations{{ID: 1, Tags: tagsOf("type", "route"), Members: osm.Members{{Type: osm.TypeWay, Ref: 5}, {Type: osm.TypeWay, Ref: 4}}}},
	})
	// a tiny multipolygon with a hole, outer ring in two ways, and an old-style one
	o := sharedOuter()
	o.Relations = o.Relations[:1]
	out = append(out, o)
	// very large ids (feature ids pack 40 bits of ref)
	big := &osm.OSM{
		Nodes:     nodesAt([3]int{1, 5, 5}, [3]int{2, 9, 5}, [3]int{3, 9, 9}),
		Ways:      osm.Ways{wayIDs(1, tagsOf("highway", "path"), 1, 2, 3)},
		Relations: osm.Relations{{ID: 1, Tags: tagsOf("type", "route"), Members: osm.Members{{Type: osm.TypeWay, Ref: 1}, {Type: osm.TypeNode, Ref: 1, Role: "stop"}}}},
	}
	const N, W, R = int64(1)<<33 + 7, int64(1)<<39 + 1, int64(1)<<40 - 1
	big.Nodes[0].ID, big.Ways[0].Nodes[0].ID, big.Relations[0].Members[1].Ref = osm.NodeID(N), osm.NodeID(N), N
	big.Ways[0].ID, big.Relations[0].Members[0].Ref = osm.WayID(W), W
	big.Relations[0].ID = osm.RelationID(R)
	out = append(out, big)
	return out
}

// ---------- canaries ----------

func canaries() []*wire.Case {
	bits := []int{0, 8, 1, 6}
	var out []*wire.Case
	muts := []func(s *scene){
		func(s *scene) { s.runs[0].Features = s.runs[0].Features[:len(s.runs[0].Features)-1] },         // a feature lost
		func(s *scene) { s.runs[0].Features = append(s.runs[0].Features, s.runs[0].Features[0]) },      // a feature twice
		func(s *scene) { f := &s.runs[0].Features[0]; f.Lines[0][0][0]++ },                             // route coordinate
		func(s *scene) { f := &s.runs[0].Features[0]; f.Tainted = !f.Tainted },                         // tainted flag
		func(s *scene) { f := &s.runs[2].Features[1]; f.Tags = f.Tags[1:] },                            // a tag lost under NoID only
		func(s *scene) { f := &s.runs[2].Features[0]; f.IDType, f.IDRef = 3, f.Ref },                   // id present under NoID
		func(s *scene) { f := &s.runs[0].Features[2]; f.IDRef++ },                                      // wrong id
		func(s *scene) { f := &s.runs[0].Features[0]; v := int64(4); f.Meta.Version = &v },             // meta value
		func(s *scene) { f := &s.runs[3].Features[0]; f.HasMeta = true },                               // meta present under NoMeta
		func(s *scene) { f := &s.runs[0].Features[2]; f.Rels[0].Role = "x" + f.Rels[0].Role },          // membership role
		func(s *scene) { f := &s.runs[3].Features[2]; f.HasRels = true },                               // memberships present under NoRelationMembership
		func(s *scene) { s.runs[1].Same = false },                                                      // second run differs
		func(s *scene) { s.unchanged = false },                                                         // input modified
		func(s *scene) { fs := s.runs[0].Features; n := len(fs); fs[n-1], fs[n-2] = fs[n-2], fs[n-1] }, // output order
		func(s *scene) { f := &s.runs[0].Features[1]; r := f.Lines[0]; r[1], r[2] = r[2], r[1] },       // polygon ring order
		func(s *scene) { f := &s.runs[1].Features[1]; f.Lines = f.Lines[:1] },                          // hole lost under IncludeInvalidPolygons
	}
	for _, m := range muts {
		s := runScene(rich(), bits)
		func() {
			// when the implementation no longer produces the structure a mutator expects
			// (the real cases then fail anyway) fall back to a corruption that always applies
			defer func() {
				if recover() != nil {
					s.unchanged = false
				}
			}()
			m(s)
		}()
		c := s.encode("")
		c.Canary = 1
		c.OracleFail = ""
		out = append(out, c)
	}
	return out
}

func main() {
	a := wire.ParseArgs()
	rng := wire.Rng(a.Seed)
	callRng = rand.New(rand.NewSource(a.Seed*7919 + 17))
	w := wire.NewWriter("C17", a.Seed, a.Tier)
	w.Rule = "data sets: fixed corpus, then random scenes of 1-3 parts (L loose nodes/ways/other relations, R route chains cut, reversed, shuffled, with gaps and missing nodes/ways, M multipolygon/boundary relations over rectangle rings cut into 1-3 ways with inner rings, broken rings, missing/annotated member ways, own tags or none; X in one scene of three some nodes/ways/route and other relations that are not relation members get negative ids or ids >= 2^40; Y in one scene of nine any element, members and multipolygon relations included, gets such an id: known-finding class polygon-id-outside-packed-range when packedOK says so); each data set converted under 16 option sets twice. distinct = distinct token streams; trivial = no feature in the baseline."
	n := 150
	if a.Tier == "thorough" {
		n = 1500
	}
	n = int(float64(n) * a.Scale)
	all := make([]int, 16)
	for i := range all {
		all[i] = i
	}
	places := [][2]float64{{151.2093, -33.8688}, {-122.4194, 37.7749}, {13.4, 52.52}, {-179.9990001, 89.9990001}, {0.0000013, -0.0000027}}
	add := func(o *osm.OSM, class string) {
		var emb *embedding
		if strings.HasPrefix(class, "embed:") || (class != "corpus" && !strings.Contains(class, "L") && rng.Intn(2) == 0) {
			// robust scenes (rectangle rings and route chains only: no zero-area rings) are
			// converted on the 1e-7 degree grid somewhere on the globe
			pl := places[rng.Intn(len(places))]
			emb = &embedding{x0: pl[0], y0: pl[1], scale: 1e-7, invX: map[float64]int64{}, invY: map[float64]int64{}}
			w.Count("embedded")
		}
		s := runSceneEmb(o, all, emb)
		c := s.encode(class)
		c.Trivial = len(s.runs[0].Features) == 0
		w.Add(c)
		w.Count(fmt.Sprintf("features:%d", minInt(len(s.runs[0].Features)/4*4, 20)))
		if c.Known != "" {
			w.Count("known-class")
		}
		kinds := map[int]bool{}
		for _, f := range s.runs[0].Features {
			kinds[f.Type*10+f.Kind] = true
			if f.Tainted {
				w.Count("tainted")
			}
		}
		for k := range kinds {
			w.Count(fmt.Sprintf("type%d-geom%d", k/10, k%10))
		}
		if len(s.runs[8].Features) != len(s.runs[0].Features) {
			w.Count("incl-invalid-adds-feature")
		}
		if inclMovesHole(s.runs[0].Features, s.runs[8].Features) {
			w.Count("incl-invalid-moves-a-hole-of-a-valid-polygon")
		}
	}
	for _, o := range corpus() {
		add(o, "corpus")
	}
	for _, o := range embeddedCorpus() {
		add(o, "embed:corpus")
	}
	for i := 0; i < n; i++ {
		o, class := randomScene(rng)
		switch x := rng.Intn(9); {
		case x < 3:
			if extremeIDs(o, rng, false) {
				class += "X"
				w.Count("ids-negative-or-beyond-40-bits")
			}
		case x == 3:
			if extremeIDs(o, rng, true) {
				class += "Y"
				w.Count("ids-of-members-and-polygon-relations-too")
			}
		}
		add(o, class)
		if a.Tier == "thorough" && i%125 == 60 {
			// a big data set (hundreds of elements) under five option sets
			bo, _ := randomSceneParts(rng, 14+rng.Intn(22))
			s := runScene(bo, []int{0, 8, 15, 7, 1 + rng.Intn(14)})
			c := s.encode("big")
			w.Add(c)
			w.Count(fmt.Sprintf("big:elements>=%d", (len(bo.Nodes)+len(bo.Ways)+len(bo.Relations))/100*100))
			w.Count(fmt.Sprintf("big:features>=%d", len(s.runs[0].Features)/50*50))
		}
	}
	for _, c := range canaries() {
		w.Add(c)
	}
	if err := w.Flush(a.Out, "Verif.C17.Check", 20); err != nil {
		fmt.Fprintln(os.Stderr, err)
		os.Exit(1)
	}
}

// inclMovesHole: some polygon of a relation feature without the option has a hole that the
// polygon with the same outer ring lacks with the option (documented scope, see notes/C17.md)
func inclMovesHole(base, incl []obsFeature) bool {
	polys := func(f obsFeature) [][][][2]int64 {
		switch f.Kind {
		case 3:
			return [][][][2]int64{f.Lines}
		case 5:
			return f.Polys
		}
		return nil
	}
	key := func(r [][2]int64) string { return fmt.Sprint(r) }
	for _, b := range base {
		for _, i := range incl {
			if b.Type != i.Type || b.Ref != i.Ref {
				continue
			}
			for _, p := range polys(b) {
				if len(p) < 2 {
					continue
				}
				kept := false
				for _, q := range polys(i) {
					if len(q) == 0 || key(q[0]) != key(p[0]) {
						continue
					}
					have := map[string]int{}
					for _, h := range q[1:] {
						have[key(h)]++
					}
					ok := true
					for _, h := range p[1:] {
						if have[key(h)] == 0 {
							ok = false
						}
						have[key(h)]--
					}
					if ok {
						kept = true
					}
				}
				if !kept {
					return true
				}
			}
		}
	}
	return false
}

func minInt(a, b int) int {
	if a < b {
		return a
	}
	return b
}
