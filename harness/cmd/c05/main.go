// c05: correspondence harness for property C05 (OSM JSON output is osmjson-shaped and
// round-trips up to tag order).
//
// Every case runs the implementation (/repo) and records, as wire tokens for
// coq/theories/C05/Check.v: the typed input value, the tree of the JSON the implementation
// produced (parsed by an independent reader), and the value it decoded back; or, for
// independently written documents, the document tree, the value the writer meant, and the
// value the implementation decoded.  Each input is run under every codec configuration:
// 0 = default, 1 = a counting codec installed through osm.CustomJSONMarshaler/Unmarshaler,
// 2 = a "reformatting" codec: semantically equal to encoding/json but syntactically different
// (indented output, no HTML escaping, map entries in descending key order, decoding through a
// json.Decoder with UseNumber: numbers in interface{} values are json.Number), so that helpers which bypass the configured codec or depend on the bytes it
// produces are exposed.
package main

import (
	"bytes"
	"encoding/json"
	"fmt"
	"math/big"
	"math/rand"
	"os"
	"reflect"
	"sort"
	"strconv"
	"strings"
	"time"

	"github.com/paulmach/osm"
	"verif/harness/wire"
	"verif/harness/xcodec"
)

// ---------------------------------------------------------------- codec configurations

type countingCodec struct{ marshals, unmarshals int }

func (c *countingCodec) Marshal(v interface{}) ([]byte, error) {
	c.marshals++
	return json.Marshal(v)
}
func (c *countingCodec) Unmarshal(data []byte, v interface{}) error {
	c.unmarshals++
	return json.Unmarshal(data, v)
}

var counting = &countingCodec{}

// reformatCodec: same trees as encoding/json, different text.
type reformatCodec struct{}

func (reformatCodec) Marshal(v interface{}) ([]byte, error) {
	counting.marshals++
	var buf bytes.Buffer
	enc := json.NewEncoder(&buf)
	enc.SetEscapeHTML(false)
	if m, ok := v.(map[string]string); ok {
		keys := make([]string, 0, len(m))
		for k := range m {
			keys = append(keys, k)
		}
		sort.Sort(sort.Reverse(sort.StringSlice(keys)))
		buf.WriteString("{ ")
		for i, k := range keys {
			if i > 0 {
				buf.WriteString(" ,\n\t")
			}
			if err := enc.Encode(k); err != nil {
				return nil, err
			}
			buf.WriteString(" : ")
			if err := enc.Encode(m[k]); err != nil {
				return nil, err
			}
		}
		buf.WriteString(" }")
		return buf.Bytes(), nil
	}
	enc.SetIndent(" ", "\t")
	if err := enc.Encode(v); err != nil {
		return nil, err
	}
	return buf.Bytes(), nil
}

func (reformatCodec) Unmarshal(data []byte, v interface{}) error {
	counting.unmarshals++
	d := json.NewDecoder(bytes.NewReader(data))
	d.UseNumber() // numbers stored in interface{} values arrive as json.Number, not float64
	if err := d.Decode(v); err != nil {
		return err
	}
	if d.More() {
		return fmt.Errorf("reformat codec: trailing data")
	}
	return nil
}

var configs = []string{"default", "counting", "reformat"}

func install(cfg int) {
	switch cfg {
	case 0:
		osm.CustomJSONMarshaler = nil
		osm.CustomJSONUnmarshaler = nil
	case 1:
		counting.marshals, counting.unmarshals = 0, 0
		osm.CustomJSONMarshaler = counting
		osm.CustomJSONUnmarshaler = counting
	case 2:
		counting.marshals, counting.unmarshals = 0, 0
		osm.CustomJSONMarshaler = reformatCodec{}
		osm.CustomJSONUnmarshaler = reformatCodec{}
	}
}

// ---------------------------------------------------------------- generators

// valid UTF-8 only (encoding/json replaces invalid bytes by U+FFFD, a text-level matter), but
// including everything Go's and JSON's string syntaxes treat differently: \a \v \b \f, other C0
// controls, DEL, U+2028/U+2029, non-printable supplementary-plane runes, emoji.
var strPool = []string{"", "a", "u1", "highway", "residential", "name", "Main St", "é ü 北", "<b>&\"q\"</b>", "<nil>", "null", "line\nbreak", "back\\slash", "0.6", "way",
	"bell\a", "vt\vtab", "bs\b ff\f cr\r", "\x01\x02\x1f", "del\x7f", "ls\u2028ps\u2029", "pua\U000f0000", "tag\U000e0001", "emoji 🗺", "nul\x00end", "\u00ad soft hyphen", "\ufeff bom"}
var keyPool = []string{"highway", "name", "ref", "a", "b", "source", "addr:street", "k ü", "type", "id", "", "Tags", "k\a", "k\v", "k\x7f", "k\x1e", "k\U000f0000", "k\u2028"}
var intPool = []int64{1, 2, 3, 7, 42, 1000, 65535, 65536, 1 << 31, 1<<53 + 1, 1<<63 - 1, -1, -5}
var decPool = []string{"0.5", "1.25", "-0.125", "12.375", "51.5074", "-0.1278", "179.9999999", "-89.1234567", "1", "100", "0.0000001", "123456.789", "-180", "90", "1e-7", "2.5e10"}

type gen struct {
	rng *rand.Rand
	p   float64 // probability that an optional part is filled
	// annot: way nodes may carry version/changeset/lat/lon (erased by osmjson)
	annot bool
}

func (g *gen) str() string { return strPool[g.rng.Intn(len(strPool))] }
func (g *gen) i64() int64 {
	if g.rng.Intn(3) == 0 {
		return g.rng.Int63n(1 << 40)
	}
	return intPool[g.rng.Intn(len(intPool))]
}

// fineFloats: float64 values with full mantissas (quotients, binary sums, neighbours of 7-decimal
// coordinates, sub-1e-7 parts, tile edges; pool shared with the XML harness), restricted to those
// whose shortest decimal fits the wire format. They travel as exact decimals, so any rounding or
// re-spelling that changes the value is seen.
var fineFloats = func() []float64 {
	var out []float64
	for _, f := range append([]float64{51.50000004, 4e-8, 51.500000000000004, -0.30000000000000004, 8.5e-9, 179.99999999999997}, xcodec.FineFloats...) {
		if decimalFits(f) {
			out = append(out, f)
		}
	}
	return out
}()

func decimalFits(f float64) (ok bool) {
	defer func() {
		if recover() != nil {
			ok = false
		}
	}()
	floatDec(f)
	return true
}

func (g *gen) float() float64 {
	switch g.rng.Intn(6) {
	case 0:
		return fineFloats[g.rng.Intn(len(fineFloats))]
	case 1:
		if g.rng.Intn(2) == 0 {
			return g.rng.Float64()*360 - 180 // 52 random mantissa bits
		}
		return (float64(g.rng.Intn(3600000000)-1800000000) + g.rng.Float64()) / 1e7 // 7 decimals plus a sub-1e-7 part
	}
	f, err := strconv.ParseFloat(decPool[g.rng.Intn(len(decPool))], 64)
	if err != nil {
		panic(err)
	}
	return f
}
func (g *gen) time() time.Time {
	switch g.rng.Intn(7) {
	case 6:
		return time.Unix(0, 0).UTC() // the epoch: a first-class value, not "absent"
	case 0:
		return time.Time{}
	case 1:
		return time.Unix(g.rng.Int63n(2000000000), int64(g.rng.Intn(1000))*1000000).UTC()
	case 2:
		return time.Unix(g.rng.Int63n(2000000000), 123456789).UTC()
	case 3:
		return time.Date(2012, 9, 12, 9, 30, 3, 0, time.UTC)
	case 4:
		return time.Date(2024, 2, 29, 23, 59, 59, 500000000, time.UTC)
	}
	return time.Unix(g.rng.Int63n(2000000000), 0).UTC()
}
func (g *gen) tags() osm.Tags {
	n := g.rng.Intn(4)
	if g.rng.Intn(15) == 0 {
		n = 5 + g.rng.Intn(len(keyPool)-5) // many tags
	}
	if g.rng.Float64() > g.p {
		n = 0
	}
	if n == 0 {
		return nil
	}
	perm := g.rng.Perm(len(keyPool))
	ts := make(osm.Tags, n)
	for i := range ts {
		ts[i] = osm.Tag{Key: keyPool[perm[i]], Value: g.str()}
	}
	return ts
}
func (g *gen) wayNodes() osm.WayNodes {
	n := g.rng.Intn(5)
	if g.rng.Intn(15) == 0 {
		n = 17 + g.rng.Intn(30) // a long way
	}
	if g.rng.Float64() > g.p {
		n = 0
	}
	if n == 0 {
		return nil
	}
	wn := make(osm.WayNodes, n)
	for i := range wn {
		wn[i].ID = osm.NodeID(g.i64())
		if g.annot && g.rng.Intn(2) == 0 {
			wn[i].Version = g.rng.Intn(9)
			wn[i].ChangesetID = osm.ChangesetID(g.rng.Intn(100))
			wn[i].Lat, wn[i].Lon = g.float(), g.float()
		}
	}
	return wn
}

var (
	tagsType     = reflect.TypeOf(osm.Tags{})
	wayNodesType = reflect.TypeOf(osm.WayNodes{})
	memberType   = reflect.TypeOf(osm.Member{})
)

// fill sets v (addressable) to a random value of its type; every optional part is present
// with probability g.p.
func (g *gen) fill(v reflect.Value) {
	t := v.Type()
	switch {
	case t == timeType:
		v.Set(reflect.ValueOf(g.time()))
		return
	case t == dateType:
		v.Set(reflect.ValueOf(osm.Date{Time: g.time()}))
		return
	case strings.HasPrefix(t.Name(), "xmlNameJSONType") || (t.PkgPath() == "encoding/xml" && t.Name() == "Name"):
		return
	case t == changePtrType:
		return
	case t == tagsType:
		v.Set(reflect.ValueOf(g.tags()))
		return
	case t == wayNodesType:
		v.Set(reflect.ValueOf(g.wayNodes()))
		return
	case t == memberType:
		m := osm.Member{Type: []osm.Type{osm.TypeNode, osm.TypeWay, osm.TypeRelation}[g.rng.Intn(3)], Ref: g.i64(), Role: g.str()}
		if g.rng.Float64() < g.p {
			m.Version = g.rng.Intn(9)
			m.ChangesetID = osm.ChangesetID(g.rng.Intn(100))
		}
		if g.rng.Float64() < g.p {
			m.Lat, m.Lon = g.float(), g.float()
		}
		if g.rng.Float64() < g.p {
			reflect.ValueOf(&m).Elem().FieldByName("Orientation").SetInt([]int64{-1, 1, 127, -128}[g.rng.Intn(4)])
		}
		if m.Type == osm.TypeWay {
			m.Nodes = g.wayNodes()
		}
		v.Set(reflect.ValueOf(m))
		return
	}
	switch v.Kind() {
	case reflect.Int, reflect.Int64:
		v.SetInt(g.i64())
	case reflect.Int8:
		v.SetInt(int64(g.rng.Intn(256) - 128))
	case reflect.Float64:
		v.SetFloat(g.float())
	case reflect.Bool:
		v.SetBool(g.rng.Intn(2) == 0)
	case reflect.String:
		v.SetString(g.str())
	case reflect.Ptr:
		if g.rng.Float64() < g.p {
			v.Set(reflect.New(t.Elem()))
			g.fill(v.Elem())
		}
	case reflect.Slice:
		if g.rng.Float64() < g.p {
			n := 1 + g.rng.Intn(3)
			if g.rng.Intn(12) == 0 {
				n = 8 + g.rng.Intn(6) // a long slice (members, updates, comments, languages)
			}
			s := reflect.MakeSlice(t, n, n)
			for i := 0; i < n; i++ {
				e := s.Index(i)
				if e.Kind() == reflect.Ptr {
					e.Set(reflect.New(t.Elem().Elem()))
					g.fillStruct(e.Elem(), true)
				} else {
					g.fill(e)
				}
			}
			v.Set(s)
		}
	case reflect.Struct:
		g.fillStruct(v, false)
	default:
		panic("c05 harness: cannot generate " + t.String())
	}
}

func (g *gen) fillStruct(v reflect.Value, all bool) {
	t := v.Type()
	for i := 0; i < t.NumField(); i++ {
		if t.Field(i).PkgPath != "" {
			continue
		}
		if g.rng.Float64() < g.p || (all && g.rng.Intn(2) == 0) {
			g.fill(v.Field(i))
		}
	}
}

var kinds = []string{"node", "way", "relation", "changeset", "note", "user", "bounds"}

func newKind(k int) interface{} {
	switch k {
	case 0:
		return &osm.Node{}
	case 1:
		return &osm.Way{}
	case 2:
		return &osm.Relation{}
	case 3:
		return &osm.Changeset{}
	case 4:
		return &osm.Note{}
	case 5:
		return &osm.User{}
	}
	return &osm.Bounds{}
}

func (g *gen) element(k int) interface{} {
	e := newKind(k)
	g.fillStruct(reflect.ValueOf(e).Elem(), false)
	return e
}

func (g *gen) osm() *osm.OSM {
	o := &osm.OSM{}
	if g.rng.Float64() < g.p {
		o.Version = []string{"0.6", "1", "0.6", "v"}[g.rng.Intn(4)]
	}
	if g.rng.Float64() < g.p {
		o.Generator = "verif " + g.str()
	}
	if g.rng.Float64() < g.p {
		o.Copyright = osm.Copyright
	}
	if g.rng.Float64() < g.p {
		o.Attribution = osm.Attribution
	}
	if g.rng.Float64() < g.p {
		o.License = osm.License
	}
	if g.rng.Float64() < g.p {
		o.Bounds = g.element(6).(*osm.Bounds)
	}
	n := g.rng.Intn(5)
	if g.rng.Intn(8) == 0 {
		n += 4 + g.rng.Intn(6)
	}
	for i := 0; i < n; i++ {
		k := g.rng.Intn(6)
		if g.rng.Intn(3) > 0 {
			k = g.rng.Intn(3) // nodes, ways, relations dominate
		}
		switch e := g.element(k).(type) { // not OSM.Append: it dispatches on the packed id, ids here may exceed 40 bits
		case *osm.Node:
			o.Nodes = append(o.Nodes, e)
		case *osm.Way:
			o.Ways = append(o.Ways, e)
		case *osm.Relation:
			o.Relations = append(o.Relations, e)
		case *osm.Changeset:
			o.Changesets = append(o.Changesets, e)
		case *osm.Note:
			o.Notes = append(o.Notes, e)
		case *osm.User:
			o.Users = append(o.Users, e)
		}
	}
	return o
}

// ---------------------------------------------------------------- running the implementation

type obs struct {
	merr     error
	text     []byte
	tree     *jnode
	uerr     error
	decoded  interface{}
	m, u     int  // codec calls (counting configuration)
	counted  bool // a counting codec was installed while marshalling
	retained bool // the decoded value changed when the input buffer was overwritten
}

// observe marshals v, parses the output with the independent reader, and unmarshals the
// implementation's own output into a fresh value of the same type.
func observe(cfg int, v interface{}) *obs { return observeVia(cfg, v, 0, 0) }

// The ways a value can reach the encoder / a target can reach the decoder.  encoding/json
// only finds pointer-receiver methods on addressable values, so by-value, interface-held and
// map-held values are exercised as well as pointers, slice elements and struct fields.
var marshalVias = []string{"pointer", "value", "interface in slice", "map value", "slice element", "interface field of struct"}
var unmarshalVias = []string{"pointer", "slice element", "map value", "struct field"}

func marshalVia(v interface{}, via int) ([]byte, error) {
	rv := reflect.ValueOf(v).Elem()
	var wrapped interface{}
	var pick func(*jnode) *jnode
	switch via {
	case 0:
		return safeMarshal(v)
	case 1:
		return safeMarshal(rv.Interface())
	case 2:
		wrapped, pick = []interface{}{rv.Interface()}, func(t *jnode) *jnode { return t.arr[0] }
	case 3:
		wrapped, pick = map[string]interface{}{"k": rv.Interface()}, func(t *jnode) *jnode { return t.get("k") }
	case 4:
		sl := reflect.MakeSlice(reflect.SliceOf(rv.Type()), 1, 1)
		sl.Index(0).Set(rv)
		wrapped, pick = sl.Interface(), func(t *jnode) *jnode { return t.arr[0] }
	default:
		wrapped, pick = struct{ X interface{} }{rv.Interface()}, func(t *jnode) *jnode { return t.get("X") }
	}
	b, err := safeMarshal(wrapped)
	if err != nil {
		return nil, err
	}
	t, err := readTree(b)
	if err != nil {
		panic(fmt.Sprintf("c05 harness: implementation wrote text the independent reader rejects: %v\n%s", err, b))
	}
	var out bytes.Buffer
	writeCompact(&out, pick(t))
	return out.Bytes(), nil
}

func unmarshalVia(text []byte, t reflect.Type, via int) (interface{}, error) {
	fresh := reflect.New(t)
	switch via {
	case 0:
		return fresh.Interface(), safeUnmarshal(text, fresh.Interface())
	case 1:
		sl := reflect.New(reflect.SliceOf(t))
		err := safeUnmarshal([]byte("["+string(text)+"]"), sl.Interface())
		if err == nil && sl.Elem().Len() == 1 {
			fresh.Elem().Set(sl.Elem().Index(0))
		}
		return fresh.Interface(), err
	case 2:
		m := reflect.New(reflect.MapOf(reflect.TypeOf(""), t))
		err := safeUnmarshal([]byte(`{"k":`+string(text)+"}"), m.Interface())
		if err == nil {
			if e := m.Elem().MapIndex(reflect.ValueOf("k")); e.IsValid() {
				fresh.Elem().Set(e)
			}
		}
		return fresh.Interface(), err
	}
	st := reflect.New(reflect.StructOf([]reflect.StructField{{Name: "X", Type: t, Tag: `json:"x"`}}))
	err := safeUnmarshal([]byte(`{"x":`+string(text)+"}"), st.Interface())
	if err == nil {
		fresh.Elem().Set(st.Elem().Field(0))
	}
	return fresh.Interface(), err
}

// observeVia marshals v (reaching the encoder in the given way), parses the output with the
// independent reader, and unmarshals the implementation's own output into a fresh value of the
// same type (reached by the decoder in the given way).
func observeVia(cfg int, v interface{}, mvia, uvia int) *obs {
	install(cfg)
	defer install(0)
	o := &obs{}
	o.text, o.merr = marshalVia(v, mvia)
	o.m, o.counted = counting.marshals, cfg >= 1
	if o.merr != nil {
		o.tree = jn()
		return o
	}
	var err error
	o.tree, err = readTree(o.text)
	if err != nil {
		panic(fmt.Sprintf("c05 harness: implementation wrote text the independent reader rejects: %v\n%s", err, o.text))
	}
	o.decoded, o.uerr = unmarshalVia(o.text, reflect.TypeOf(v).Elem(), uvia)
	o.u = counting.unmarshals
	return o
}

func decodeDoc(cfg int, text []byte) *obs {
	install(cfg)
	defer install(0)
	o := &obs{text: text}
	fresh := &osm.OSM{}
	data := append([]byte(nil), text...)
	o.uerr = safeUnmarshal(data, fresh)
	o.u = counting.unmarshals
	o.decoded = fresh
	if o.uerr == nil {
		// the caller may reuse its buffer: what was decoded must not alias the input bytes
		snap := &wire.Case{}
		putVal(snap, reflect.ValueOf(fresh).Elem())
		for i := range data {
			data[i] = '#'
		}
		again := &wire.Case{}
		putVal(again, reflect.ValueOf(fresh).Elem())
		if !reflect.DeepEqual(snap.Toks, again.Toks) {
			o.retained = true
		}
	}
	return o
}

func errText(e error) string {
	if e == nil {
		return ""
	}
	return e.Error()
}

func descObs(o *obs) map[string]interface{} {
	d := map[string]interface{}{"marshal_error": errText(o.merr), "unmarshal_error": errText(o.uerr)}
	if o.tree != nil {
		d["output_tree"] = o.tree.toIface()
	}
	if o.uerr == nil && o.decoded != nil {
		d["decoded"] = fmt.Sprintf("%+v", deref(o.decoded))
	}
	return d
}

func deref(v interface{}) interface{} { return reflect.Indirect(reflect.ValueOf(v)).Interface() }

// roundCase builds a case of tag 1 (OSM), 2 (element, sel = kind) or 4 (Change).
func roundCase(tag int, sel int, v interface{}, o *obs, class string) *wire.Case {
	c := &wire.Case{Class: class}
	c.Int(int64(tag)).Int(int64(sel))
	putVal(c, reflect.ValueOf(v).Elem())
	c.Bool(o.merr != nil)
	putTree(c, o.tree)
	c.Bool(o.uerr != nil)
	putOpt(c, o.uerr == nil && o.decoded != nil, o.decoded)
	if o.counted {
		c.Int(int64(o.m)) // marshalJSON calls seen by the installed codec (judged in Coq: Model.mcalls)
	} else {
		c.Int(-1)
	}
	d := descObs(o)
	d["marshalJSON_calls"] = o.m
	d["input"] = fmt.Sprintf("%+v", deref(v))
	d["input_type"] = fmt.Sprintf("%T", v)
	c.Desc = d
	return c
}

func docCase(cfg int, doc *jnode, expect *osm.OSM, o *obs, class string) *wire.Case {
	c := &wire.Case{Class: class}
	c.Int(3).Int(int64(cfg))
	putTree(c, doc)
	putOpt(c, expect != nil, expect)
	c.Bool(o.uerr != nil)
	putOpt(c, o.uerr == nil, o.decoded)
	d := descObs(o)
	d["document"] = string(o.text)
	if expect != nil {
		d["written_values"] = fmt.Sprintf("%+v", *expect)
	}
	d["codec"] = configs[cfg]
	c.Desc = d
	return c
}

// goOracle: cheap Go-side checks that do not need the model (kept so that a failing input is
// still found when the Coq side no longer builds).
func goOracle(cfg int, v interface{}, o *obs, base *obs, nElems int) string {
	if o.merr != nil {
		return "marshal failed: " + o.merr.Error()
	}
	if o.uerr != nil {
		return "the library's own output does not unmarshal: " + o.uerr.Error()
	}
	if base != nil && cfg == 1 && !bytes.Equal(base.text, o.text) {
		return "output differs between codec configurations"
	}
	if base != nil && !treeEqual(canonTags(base.tree.clone()), canonTags(o.tree.clone())) {
		return "output tree differs between codec configurations (beyond tag order)"
	}
	if cfg >= 1 {
		if _, ok := v.(*osm.OSM); ok {
			if o.m < 1 || o.u < 1+2*nElems {
				return fmt.Sprintf("installed codec not consulted: %d Marshal calls, %d Unmarshal calls for %d elements", o.m, o.u, nElems)
			}
		}
	}
	return ""
}

func countElems(o *osm.OSM) int {
	n := len(o.Nodes) + len(o.Ways) + len(o.Relations) + len(o.Changesets) + len(o.Notes) + len(o.Users)
	if o.Bounds != nil {
		n++
	}
	return n
}

func main() {
	a := wire.ParseArgs()
	rng := wire.Rng(a.Seed)
	w := wire.NewWriter("C05", a.Seed, a.Tier)
	w.Rule = "typed generator over node/way/relation/changeset/note/user/bounds and OSM/Change containers: every optional part present with probability p in {0,0.3,0.7,1} plus single-field sweeps; each value marshalled (by pointer, by value, held in interfaces, maps, slices, struct fields) and its own output unmarshalled (into pointers, slice elements, map values, struct fields) under three codec configurations (default, counting custom codec, reformatting custom codec); independently written osmjson documents (version number/string/absent, unknown keys, shuffled keys, keys spelled in another case, decoy duplicate keys, Overpass lowercase bounds, random whitespace/escapes) and single-fault documents. distinct = distinct token streams; trivial = all-zero values."
	nOSM, nElem, nDoc, nBad, nChange, nDirect := 16, 8, 40, 40, 6, 6
	if a.Tier == "thorough" {
		nOSM, nElem, nDoc, nBad, nChange, nDirect = 200, 80, 500, 400, 60, 60
	}
	sc := func(n int) int { return int(float64(n)*a.Scale + 0.5) }
	nOSM, nElem, nDoc, nBad, nChange, nDirect = sc(nOSM), sc(nElem), sc(nDoc), sc(nBad), sc(nChange), sc(nDirect)

	viaCtr := 0
	onlyDefault := false
	addRound := func(tag, sel int, v interface{}, class string, nElems int) {
		var base *obs
		mvia, uvia := viaCtr%len(marshalVias), (viaCtr/len(marshalVias))%len(unmarshalVias)
		viaCtr++
		w.Count("marshal via " + marshalVias[mvia])
		w.Count("unmarshal via " + unmarshalVias[uvia])
		before := &wire.Case{}
		putVal(before, reflect.ValueOf(v).Elem())
		for cfg := range configs {
			if onlyDefault && cfg > 0 {
				continue
			}
			o := observeVia(cfg, v, mvia, uvia)
			s := sel
			if tag != 2 {
				s = cfg
			}
			c := roundCase(tag, s, v, o, class+"/"+configs[cfg])
			c.Desc.(map[string]interface{})["marshalled_via"] = marshalVias[mvia]
			c.Desc.(map[string]interface{})["unmarshalled_via"] = unmarshalVias[uvia]
			c.OracleFail = goOracle(cfg, v, o, base, nElems)
			after := &wire.Case{}
			putVal(after, reflect.ValueOf(v).Elem())
			if c.OracleFail == "" && !reflect.DeepEqual(before.Toks, after.Toks) {
				c.OracleFail = "marshalling modified the value it was given"
			}
			if base == nil {
				base = o
			}
			if cfg >= 1 {
				w.Stats["codec:marshal_calls"] += o.m
				w.Stats["codec:unmarshal_calls"] += o.u
			}
			c.Trivial = reflect.DeepEqual(deref(v), reflect.Zero(reflect.TypeOf(v).Elem()).Interface())
			w.Add(c)
		}
	}

	// 0. fixed corpus: the minimised inputs of the two defects found on the unchanged tree
	//    (fixed by /repo commits f6e3a8f and bbea2b1), then one container per kind.
	addRound(1, 0, &osm.OSM{Bounds: &osm.Bounds{MinLat: 1, MaxLat: 2, MinLon: 3, MaxLon: 4}}, "corpus-bounds", 1)
	addRound(1, 0, &osm.OSM{Nodes: osm.Nodes{{ID: 1}}}, "corpus-noversion", 1)
	addRound(1, 0, &osm.OSM{}, "corpus-empty", 0)
	addRound(1, 0, &osm.OSM{Version: "0.6", Relations: osm.Relations{{ID: 5}}, Ways: osm.Ways{{ID: 6}}}, "corpus-nil-members-nodes", 2)
	// JSON whitespace wherever the grammar allows it, in particular inside empty arrays / objects
	{
		text := " \n{ \"elements\" : [ {\"type\":\"way\",\"id\":1,\"nodes\":[ ]} , {\"type\":\"way\",\"id\":2,\"nodes\":[\n]},\t{\"type\":\"relation\",\"id\":3,\"members\":[ \r\n ],\"tags\":{ }} ,{\"type\":\"node\",\"id\":4,\"lat\":1,\"lon\":2,\"tags\":{\t}}\n] , \"osm3s\" : { } }\n "
		doc, err := readTree([]byte(text))
		if err != nil {
			panic(err)
		}
		exp := &osm.OSM{Ways: osm.Ways{{ID: 1}, {ID: 2}}, Relations: osm.Relations{{ID: 3}}, Nodes: osm.Nodes{{ID: 4, Lat: 1, Lon: 2}}}
		for cfg := range configs {
			w.Add(docCase(cfg, doc, exp, decodeDoc(cfg, []byte(text)), "corpus-whitespace/"+configs[cfg]))
		}
	}
	// documents that repeat a key: encoding/json applies every occurrence in order (Model.dec_occs)
	for _, text := range []string{
		`{"elements":[{"type":"node","id":5,"id":null,"user":"a","user":null,"visible":true,"visible":null,"timestamp":"2012-01-01T00:00:00Z","timestamp":null}]}`,
		`{"generator":5,"generator":"x","elements":[]}`,
		`{"elements":[{"type":"node","id":1,"tags":{"a":"1"},"tags":{"b":"2"}}]}`,
		`{"elements":[{"type":"node","id":1,"tags":{"a":"1"},"tags":null}]}`,
		`{"elements":[{"type":"way","id":1,"nodes":[1],"nodes":[2,3]},{"type":"way","id":2,"nodes":[1],"nodes":null}]}`,
		`{"version":"1","version":null,"elements":[]}`,
		`{"version":null,"Version":0.6,"elements":[]}`,
		`{"elements":[{"type":"node","id":"x","id":1}]}`,
		`{"elements":[{"type":"node","TYPE":"way","id":1}]}`,
		`{"elements":[{"type":"node","id":1,"lat":1.5,"Lat":2.5,"LAT":null}]}`,
	} {
		doc, err := readTree([]byte(text))
		if err != nil {
			panic(err)
		}
		for cfg := range configs {
			w.Add(docCase(cfg, doc, nil, decodeDoc(cfg, []byte(text)), "corpus-duplicate-keys/"+configs[cfg]))
		}
	}
	for _, text := range []string{`{"elements":[]}`, `{"version":0.6,"elements":[]}`, `{"version":"0.6","generator":"g"}`, `{"version":null}`, `{}`} {
		doc, err := readTree([]byte(text))
		if err != nil {
			panic(err)
		}
		exp := &osm.OSM{}
		if strings.Contains(text, "0.6") {
			exp.Version = "0.6"
		}
		if strings.Contains(text, `"g"`) {
			exp.Generator = "g"
		}
		for cfg := range configs {
			w.Add(docCase(cfg, doc, exp, decodeDoc(cfg, []byte(text)), "corpus-doc/"+configs[cfg]))
		}
	}

	// 1. elements: single-field sweeps, then random densities
	for k := range kinds {
		t := reflect.TypeOf(newKind(k)).Elem()
		for i := 0; i < t.NumField(); i++ {
			if t.Field(i).PkgPath != "" {
				continue
			}
			g := &gen{rng: rng, p: 1, annot: true}
			e := newKind(k)
			g.fill(reflect.ValueOf(e).Elem().Field(i))
			addRound(2, k, e, "elem-one-field/"+kinds[k], 0)
			w.Count("field:" + kinds[k] + "." + t.Field(i).Name)
		}
		for i := 0; i < nElem; i++ {
			g := &gen{rng: rng, p: []float64{0, 0.3, 0.7, 1}[i%4], annot: true}
			addRound(2, k, g.element(k), "elem/"+kinds[k], 0)
			w.Count(fmt.Sprintf("density:%.1f", g.p))
		}
	}
	// 1z. every float64 field of every record of every kind (node/note/member/way-node/update/bounds/
	//     changeset/user.home coordinates) holds a full-mantissa value: must come back bit-exact
	for k := range kinds {
		g := &gen{rng: rng, p: 1, annot: true}
		e := g.element(k)
		n := 0
		setFineFloats(reflect.ValueOf(e).Elem(), &n)
		addRound(2, k, e, "elem-fine-floats/"+kinds[k], 0)
	}
	// 1a. nested records, one optional part at a time: for every record type reachable inside an
	//     element (members, their way nodes, way nodes, tags, updates, bounds, discussion and its
	//     comments, note comments, the sub-objects of a user) a value in which exactly ONE field of
	//     ONE such record is set and everything else is zero; then every PAIR of fields of the
	//     record, followed by an all-zero sibling record (default configuration only in quick).
	for k := range kinds {
		root := reflect.TypeOf(newKind(k)).Elem()
		for _, st := range recordSites(root, nil) {
			nf := st.t.NumField()
			for i := 0; i < nf; i++ {
				if !settable(st.t.Field(i)) {
					continue
				}
				g := &gen{rng: rng, p: 1, annot: true}
				e := newKind(k)
				rec := materialize(reflect.ValueOf(e).Elem(), st.path, 1)
				g.fillNonZero(rec.Field(i))
				addRound(2, k, e, "nested-one-field/"+kinds[k], 0)
				w.Count("nested:" + kinds[k] + "." + st.name + "." + st.t.Field(i).Name)
				for j := i + 1; j < nf; j++ {
					if !settable(st.t.Field(j)) {
						continue
					}
					e2 := newKind(k)
					n := 2
					if st.t == reflect.TypeOf(osm.Tag{}) {
						n = 1 // a second all-zero tag would repeat the empty key
					}
					rec2 := materialize(reflect.ValueOf(e2).Elem(), st.path, n)
					g.fillNonZero(rec2.Field(i))
					g.fillNonZero(rec2.Field(j))
					onlyDefault = a.Tier != "thorough"
					addRound(2, k, e2, "nested-two-fields/"+kinds[k], 0)
					onlyDefault = false
				}
			}
		}
	}
	// 1b. outside the round-trip domain: tags with duplicate keys (osm.Tags is a slice; osmjson
	//     tags are an object): the last one wins. Model vs implementation and output shape only.
	for i := 0; i < 4; i++ {
		g := &gen{rng: rng, p: 0.5, annot: true}
		k := i % 3
		e := g.element(k)
		dup := osm.Tags{{Key: "a", Value: "1"}, {Key: "b", Value: g.str()}, {Key: "a", Value: "2"}}
		if i >= 2 {
			dup = append(dup, osm.Tag{Key: "b", Value: "last"}, osm.Tag{Key: "", Value: ""}, osm.Tag{Key: "", Value: "x"})
		}
		reflect.ValueOf(e).Elem().FieldByName("Tags").Set(reflect.ValueOf(dup))
		for cfg := range configs {
			o := observeVia(cfg, e, 0, 0)
			c := roundCase(7, k, e, o, "elem-duplicate-tag-keys/"+configs[cfg])
			w.Add(c)
		}
	}
	// 2. containers
	for i := 0; i < nOSM; i++ {
		g := &gen{rng: rng, p: []float64{0.3, 0.7, 1, 0.5}[i%4], annot: true}
		o := g.osm()
		addRound(1, 0, o, "osm", countElems(o))
		w.Count(fmt.Sprintf("osm:bounds=%v", o.Bounds != nil))
		w.Count(fmt.Sprintf("osm:version=%q", o.Version))
	}
	for i := 0; i < nChange; i++ {
		g := &gen{rng: rng, p: []float64{0.5, 1, 0.3}[i%3], annot: true}
		ch := &osm.Change{}
		if g.rng.Float64() < g.p {
			ch.Version = "0.6"
		}
		if g.rng.Float64() < g.p {
			ch.Generator = g.str()
		}
		if g.rng.Float64() < g.p {
			ch.Create = g.osm()
		}
		if g.rng.Float64() < g.p {
			ch.Modify = g.osm()
		}
		if g.rng.Float64() < g.p {
			ch.Delete = g.osm()
		}
		addRound(4, 0, ch, "change", 0)
	}
	// 2b. outside the Coq model (Changeset.Change is kept nil there): changesets carrying a
	//     Change with nested OSM blocks, judged on the Go side only by idempotence of the
	//     library's own output:  marshal (unmarshal (marshal v)) == marshal v  (tags are sorted
	//     and way-node annotations erased by marshal itself)
	for i := 0; i < nChange; i++ {
		g := &gen{rng: rng, p: []float64{0.5, 1}[i%2], annot: true}
		cs := g.element(3).(*osm.Changeset)
		cs.Change = &osm.Change{Version: "0.6", Create: g.osm()}
		if i%2 == 0 {
			cs.Change.Delete = g.osm()
		}
		o := &osm.OSM{Changesets: osm.Changesets{cs}}
		for cfg := range configs {
			c := &wire.Case{Class: "go-only-changeset-change/" + configs[cfg]}
			c.Int(5)
			install(cfg)
			b1, err1 := safeMarshal(o)
			back := &osm.OSM{}
			err2 := safeUnmarshal(b1, back)
			b2, err3 := safeMarshal(back)
			install(0)
			switch {
			case err1 != nil || err2 != nil || err3 != nil:
				c.OracleFail = fmt.Sprintf("changeset with change: marshal %v, unmarshal %v, re-marshal %v", err1, err2, err3)
			case !bytes.Equal(b1, b2):
				c.OracleFail = "changeset with change: marshal(unmarshal(marshal v)) differs from marshal v"
			}
			c.Desc = map[string]interface{}{"input": fmt.Sprintf("%+v", *cs), "output": string(b1), "codec": configs[cfg]}
			w.Add(c)
		}
	}
	// 2c. the MarshalJSON methods called DIRECTLY: the returned bytes must be JSON for the same
	//     tree as json.Marshal gives, and must stay what they were while other values are
	//     marshalled afterwards (a caller may keep them). Judged on the Go side.
	for i := 0; i < nDirect; i++ {
		for cfg := range configs {
			g := &gen{rng: rng, p: 0.8, annot: true}
			c := &wire.Case{Class: "go-only-direct-marshal/" + configs[cfg]}
			c.Int(5)
			c.OracleFail, c.Desc = directMarshal(cfg, g)
			w.Add(c)
		}
	}
	// 2d. size thresholds: containers and independently written documents with n elements for n
	//     just below / at / above powers of two and round numbers (and not multiples of 8, 16..),
	//     judged on the Go side (counts and ids per kind, in order); the Coq side sees the
	//     small sizes through the ordinary cases.
	sizes := []int{12, 13, 16, 17, 32, 33, 63, 64, 65, 255, 256, 257, 1000, 1023, 1024, 1025, 2047, 2048, 2049, 2051, 4095, 4096, 4097, 4099}
	if a.Tier == "thorough" {
		sizes = append(sizes, 8176, 8177, 8191, 8192, 8193, 10007, 32767, 32768, 32769, 65535, 65536, 65537, 100003)
	}
	for _, n := range sizes {
		for cfg := range configs {
			if a.Tier != "thorough" && cfg == 1 && n > 300 {
				continue // the counting codec only delegates: big sizes under default and reformat
			}
			c := &wire.Case{Class: "go-only-size/" + configs[cfg]}
			c.Int(5)
			c.OracleFail, c.Desc = sizeCase(cfg, n)
			w.Add(c)
			w.Count(fmt.Sprintf("size:%d", n))
		}
	}
	// 2e. size thresholds judged in Coq as well: the generator is expanded on both sides from n,
	//     observations are summaries (counts, order-sensitive hashes of ids)
	bigs := [][2]int{{0, 2051}}
	if a.Tier == "thorough" {
		bigs = [][2]int{{0, 2051}, {1, 2051}, {2, 2051}, {0, 4099}, {2, 4099}, {0, 257}, {2, 1025}}
	}
	for _, b := range bigs {
		w.Add(bigCase(b[0], b[1]))
	}
	// 3. independently written documents
	for i := 0; i < nDoc; i++ {
		dg := &docGen{rng: rng, p: []float64{0.2, 0.5, 0.8, 1}[i%4]}
		doc, exp := dg.document()
		var b bytes.Buffer
		writeDocument(&b, doc, rng.Intn)
		back, err := readTree(b.Bytes())
		if err != nil || !treeEqual(back, doc) {
			panic(fmt.Sprintf("c05 harness: document writer and independent reader disagree (%v):\n%s", err, b.String()))
		}
		for cfg := range configs {
			o := decodeDoc(cfg, b.Bytes())
			c := docCase(cfg, doc, exp, o, "doc/"+configs[cfg])
			if o.retained {
				c.OracleFail = "the decoded value aliases the input bytes (changed when the caller's buffer was overwritten)"
			} else if o.uerr != nil {
				c.OracleFail = "well-formed osmjson document rejected: " + o.uerr.Error()
			} else if exp.Version == "" && o.decoded.(*osm.OSM).Version != "" {
				c.OracleFail = fmt.Sprintf("absent version became %q", o.decoded.(*osm.OSM).Version)
			}
			w.Add(c)
		}
		w.Count("doc:version=" + dg.versionForm)
		w.Stats["doc:recased_keys"] += dg.recased
		w.Stats["doc:overpass_bounds"] += dg.overpass
	}
	// 4. single-fault documents (no expectation: model vs implementation only)
	for i := 0; i < nBad; i++ {
		dg := &docGen{rng: rng, p: 0.7, minElems: 1 + 5*(i/14%2), plain: true}
		doc, _ := dg.document()
		fault := dg.damage(doc, i)
		var b bytes.Buffer
		writeTree(&b, doc, nil)
		cfg := i % len(configs)
		w.Add(docCase(cfg, doc, nil, decodeDoc(cfg, b.Bytes()), "fault/"+fault))
	}
	plantCanaries(w)
	if err := w.Flush(a.Out, "Verif.C05.Check", 230); err != nil {
		fmt.Fprintln(os.Stderr, err)
		os.Exit(1)
	}
}

// directMarshal calls the package's MarshalJSON methods directly, keeps every returned slice,
// marshals further values, and then checks each kept slice: unchanged since it was returned,
// valid JSON for the independent reader, and the same tree as json.Marshal of that value.
func directMarshal(cfg int, g *gen) (string, interface{}) {
	install(cfg)
	defer install(0)
	type kept struct {
		name string
		b    []byte
		cp   []byte
		v    interface{}
	}
	var ks []kept
	keep := func(name string, v interface{}, b []byte, err error) string {
		if err != nil {
			return name + ".MarshalJSON: " + err.Error()
		}
		ks = append(ks, kept{name, b, append([]byte(nil), b...), v})
		return ""
	}
	way := g.element(1).(*osm.Way)
	way.Nodes = append(way.Nodes, osm.WayNode{ID: 77})
	rel := g.element(2).(*osm.Relation)
	rel.Members = append(rel.Members, osm.Member{Type: osm.TypeNode, Ref: 5, Role: g.str()})
	node := g.element(0).(*osm.Node)
	node.Tags = append(osm.Tags{{Key: "direct", Value: g.str()}}, node.Tags...)
	steps := []func() string{
		func() string { o := g.osm(); b, err := o.MarshalJSON(); return keep("OSM", o, b, err) },
		func() string { b, err := node.Tags.MarshalJSON(); return keep("Tags", node.Tags, b, err) },
		func() string { b, err := way.Nodes.MarshalJSON(); return keep("WayNodes", way.Nodes, b, err) },
		func() string { b, err := rel.Members.MarshalJSON(); return keep("Members", rel.Members, b, err) },
		func() string {
			d := osm.Date{Time: time.Unix(1e9+int64(g.rng.Intn(1000)), 0).UTC()}
			b, err := d.MarshalJSON()
			return keep("Date", d, b, err)
		},
		func() string { o := g.osm(); b, err := o.MarshalJSON(); return keep("OSM", o, b, err) },
	}
	for _, st := range steps {
		if msg := st(); msg != "" {
			return msg, map[string]interface{}{"codec": configs[cfg]}
		}
		// something else is marshalled in between
		if _, err := safeMarshal(g.osm()); err != nil {
			return "marshal failed: " + err.Error(), map[string]interface{}{"codec": configs[cfg]}
		}
	}
	desc := map[string]interface{}{"codec": configs[cfg], "sequence": "OSM, Tags, WayNodes, Members, Date, OSM .MarshalJSON() called directly, json.Marshal of another OSM after each"}
	for _, k := range ks {
		desc["value"], desc["returned"], desc["now"] = fmt.Sprintf("%+v", k.v), string(k.cp), string(k.b)
		if !bytes.Equal(k.b, k.cp) {
			return k.name + ".MarshalJSON: the returned bytes changed after later marshal calls", desc
		}
		t1, err := readTree(k.b)
		if err != nil {
			return k.name + ".MarshalJSON: returned bytes are not JSON: " + err.Error(), desc
		}
		ref, err := safeMarshal(k.v)
		if err != nil {
			return k.name + ": json.Marshal failed: " + err.Error(), desc
		}
		t2, err := readTree(ref)
		if err != nil || !treeEqual(canonTagsTop(t1), canonTagsTop(t2)) {
			return k.name + ".MarshalJSON: direct result and json.Marshal disagree", desc
		}
	}
	delete(desc, "value")
	delete(desc, "returned")
	delete(desc, "now")
	return "", desc
}

// canonTagsTop: like canonTags, and also sorts the keys of the top object when it is a bare
// tags object (direct Tags.MarshalJSON result).
func canonTagsTop(j *jnode) *jnode {
	w := jobj().set("tags", j.clone())
	canonTags(w)
	if j.k == jObj && len(j.arr) == 0 {
		allStr := true
		for _, v := range j.vals {
			if v.k != jStr {
				allStr = false
			}
		}
		if allStr {
			return w.vals[0]
		}
	}
	return canonTags(j.clone())
}

// sizeCase: an OSM value with n elements (half nodes, a quarter ways, an eighth relations, the
// rest changesets, users and notes; ids 1..n) is marshalled and its output unmarshalled; and
// an independently written document with the same n elements, kinds interleaved, is
// unmarshalled.  Every element must come back, per kind, in order.
func sizeCase(cfg, n int) (string, interface{}) {
	install(cfg)
	defer install(0)
	desc := map[string]interface{}{"codec": configs[cfg], "elements": n}
	o := &osm.OSM{Version: "0.6"}
	doc := jobj().set("version", jdec(6, 1))
	es := &jnode{k: jArr}
	want := map[string][]int64{}
	for i := 0; i < n; i++ {
		id := int64(i + 1)
		kind := "node"
		switch {
		case i%2 == 0:
		case i%4 == 1:
			kind = "way"
		case i%8 == 3:
			kind = "relation"
		case i%24 == 7:
			kind = "changeset"
		case i%24 == 15:
			kind = "user"
		default:
			kind = "note"
		}
		want[kind] = append(want[kind], id)
		e := jobj().set("type", js(kind)).set("id", jint(id))
		switch kind {
		case "node":
			o.Nodes = append(o.Nodes, &osm.Node{ID: osm.NodeID(id), Lat: float64(i % 90), Lon: 0.5})
			e.set("lat", jint(int64(i%90))).set("lon", jdec(5, 1))
		case "way":
			o.Ways = append(o.Ways, &osm.Way{ID: osm.WayID(id), Nodes: osm.WayNodes{{ID: osm.NodeID(id - 1)}}})
			e.set("nodes", jarr(jint(id-1)))
		case "relation":
			o.Relations = append(o.Relations, &osm.Relation{ID: osm.RelationID(id), Members: osm.Members{{Type: osm.TypeNode, Ref: id - 3, Role: "r"}}})
			e.set("members", jarr(jobj().set("type", js("node")).set("ref", jint(id-3)).set("role", js("r"))))
		case "changeset":
			o.Changesets = append(o.Changesets, &osm.Changeset{ID: osm.ChangesetID(id)})
		case "user":
			o.Users = append(o.Users, &osm.User{ID: osm.UserID(id)})
		default:
			o.Notes = append(o.Notes, &osm.Note{ID: osm.NoteID(id)})
		}
		es.arr = append(es.arr, e)
	}
	doc.set("elements", es)
	ids := func(x *osm.OSM) map[string][]int64 {
		m := map[string][]int64{}
		for _, e := range x.Nodes {
			m["node"] = append(m["node"], int64(e.ID))
		}
		for _, e := range x.Ways {
			m["way"] = append(m["way"], int64(e.ID))
		}
		for _, e := range x.Relations {
			m["relation"] = append(m["relation"], int64(e.ID))
		}
		for _, e := range x.Changesets {
			m["changeset"] = append(m["changeset"], int64(e.ID))
		}
		for _, e := range x.Users {
			m["user"] = append(m["user"], int64(e.ID))
		}
		for _, e := range x.Notes {
			m["note"] = append(m["note"], int64(e.ID))
		}
		return m
	}
	diff := func(got map[string][]int64) string {
		for _, k := range []string{"node", "way", "relation", "changeset", "user", "note"} {
			if len(got[k]) != len(want[k]) {
				return fmt.Sprintf("%d %ss came back instead of %d", len(got[k]), k, len(want[k]))
			}
			for i := range want[k] {
				if got[k][i] != want[k][i] {
					return fmt.Sprintf("%s #%d has id %d instead of %d", k, i, got[k][i], want[k][i])
				}
			}
		}
		return ""
	}
	// own output
	b, err := safeMarshal(o)
	if err != nil {
		return "marshal failed: " + err.Error(), desc
	}
	t, err := readTree(b)
	if err != nil {
		return "output is not JSON: " + err.Error(), desc
	}
	if el := t.get("elements"); el == nil || el.k != jArr || len(el.arr) != n {
		return fmt.Sprintf("container with %d elements: output has no elements array of that length", n), desc
	}
	back := &osm.OSM{}
	if err := safeUnmarshal(b, back); err != nil {
		return fmt.Sprintf("container with %d elements: own output does not unmarshal: %v", n, err), desc
	}
	if d := diff(ids(back)); d != "" {
		return fmt.Sprintf("container with %d elements, own output unmarshalled: %s", n, d), desc
	}
	// independently written document, kinds interleaved
	var buf bytes.Buffer
	writeCompact(&buf, doc)
	fromDoc := &osm.OSM{}
	if err := safeUnmarshal(buf.Bytes(), fromDoc); err != nil {
		return fmt.Sprintf("document with %d elements rejected: %v", n, err), desc
	}
	if d := diff(ids(fromDoc)); d != "" {
		return fmt.Sprintf("document with %d elements: %s", n, d), desc
	}
	if len(fromDoc.Ways) > 0 && (len(fromDoc.Ways[len(fromDoc.Ways)-1].Nodes) != 1) {
		return fmt.Sprintf("document with %d elements: last way lost its nodes", n), desc
	}
	return "", desc
}

// ---- BIG cases (Check.v, check_big) ----
var hmod = new(big.Int).SetUint64(2305843009213693951)

func hashIDs(l []int64) int64 {
	h := big.NewInt(7)
	for _, x := range l {
		h.Mul(h, big.NewInt(1000003))
		h.Add(h, big.NewInt(x+1))
		h.Mod(h, hmod)
	}
	return h.Int64()
}

func bigKind(i int) int {
	switch {
	case i%2 == 0:
		return 1
	case i%4 == 1:
		return 2
	}
	return 3
}

func osmSummary(o *osm.OSM) []int64 {
	var n, wy, r []int64
	for _, e := range o.Nodes {
		n = append(n, int64(e.ID))
	}
	for _, e := range o.Ways {
		wy = append(wy, int64(e.ID))
	}
	for _, e := range o.Relations {
		r = append(r, int64(e.ID))
	}
	other := int64(len(o.Changesets) + len(o.Notes) + len(o.Users))
	if o.Bounds != nil {
		other++
	}
	return []int64{int64(len(n)), hashIDs(n), int64(len(wy)), hashIDs(wy), int64(len(r)), hashIDs(r), other}
}

func bigCase(cfg, n int) *wire.Case {
	install(cfg)
	defer install(0)
	c := &wire.Case{Class: "big/" + configs[cfg]}
	c.Int(6).Int(int64(cfg)).Int(int64(n))
	desc := map[string]interface{}{"codec": configs[cfg], "elements": n, "generator": "element i: id i+1, lat i%90, lon 0.5; node if i even, way if i%4==1, relation if i%4==3"}
	// (a) the document
	doc := jobj().set("version", jdec(6, 1))
	es := &jnode{k: jArr}
	val := &osm.OSM{Version: "0.6"}
	for i := 0; i < n; i++ {
		k := bigKind(i)
		es.arr = append(es.arr, jobj().set("type", js([]string{"", "node", "way", "relation"}[k])).set("id", jint(int64(i+1))).
			set("lat", jint(int64(i%90))).set("lon", jdec(5, 1)))
		switch k {
		case 1:
			val.Nodes = append(val.Nodes, &osm.Node{ID: osm.NodeID(i + 1), Lat: float64(i % 90), Lon: 0.5})
		case 2:
			val.Ways = append(val.Ways, &osm.Way{ID: osm.WayID(i + 1)})
		default:
			val.Relations = append(val.Relations, &osm.Relation{ID: osm.RelationID(i + 1)})
		}
	}
	doc.set("elements", es)
	var buf bytes.Buffer
	writeCompact(&buf, doc)
	fromDoc := &osm.OSM{}
	derr := safeUnmarshal(buf.Bytes(), fromDoc)
	c.Bool(derr != nil).Ints(osmSummary(fromDoc))
	desc["document_decoded"] = map[string]interface{}{"error": errText(derr), "summary": osmSummary(fromDoc)}
	// (b) the value
	b, merr := safeMarshal(val)
	tsum := []int64{-1, -1}
	back := &osm.OSM{}
	var uerr error = errFlag{}
	if merr == nil {
		if t, err := readTree(b); err == nil {
			if el := t.get("elements"); el != nil && el.k == jArr {
				var codes []int64
				for _, e := range el.arr {
					code := int64(-1)
					if e.k == jObj && e.get("type") != nil && e.get("type").k == jStr && e.get("id") != nil && e.get("id").k == jNum && e.get("id").e == 0 {
						kc := int64(9)
						switch e.get("type").s {
						case "node":
							kc = 1
						case "way":
							kc = 2
						case "relation":
							kc = 3
						}
						code = kc*1000000007 + e.get("id").m
					}
					codes = append(codes, code)
				}
				tsum = []int64{int64(len(el.arr)), hashIDs(codes)}
			}
		}
		uerr = safeUnmarshal(b, back)
	}
	c.Bool(merr != nil).Ints(tsum)
	c.Bool(uerr != nil).Ints(osmSummary(back))
	desc["value_marshalled"] = map[string]interface{}{"error": errText(merr), "tree_summary": tsum}
	desc["own_output_decoded"] = map[string]interface{}{"error": errText(uerr), "summary": osmSummary(back)}
	c.Desc = desc
	return c
}

// ---- nested record sweeps ----
type recordSite struct {
	path []int // field indices from the element down to the record (through slices / pointers)
	t    reflect.Type
	name string
}

func leafType(t reflect.Type) bool {
	return t == timeType || t == dateType || strings.HasPrefix(t.Name(), "xmlNameJSONType") ||
		(t.PkgPath() == "encoding/xml" && t.Name() == "Name")
}

func settable(f reflect.StructField) bool {
	return f.PkgPath == "" && !strings.HasPrefix(f.Type.Name(), "xmlNameJSONType") &&
		!(f.Type.PkgPath() == "encoding/xml" && f.Type.Name() == "Name") && f.Type != changePtrType
}

// recordSites lists every struct type nested inside t (struct fields, pointers to structs,
// slices of structs or of pointers to structs), with the path leading to it.
func recordSites(t reflect.Type, path []int) []recordSite {
	var out []recordSite
	for i := 0; i < t.NumField(); i++ {
		f := t.Field(i)
		if f.PkgPath != "" || f.Type == changePtrType {
			continue
		}
		ft := f.Type
		for ft.Kind() == reflect.Ptr || ft.Kind() == reflect.Slice {
			ft = ft.Elem()
		}
		if ft.Kind() != reflect.Struct || leafType(ft) {
			continue
		}
		p := append(append([]int(nil), path...), i)
		out = append(out, recordSite{p, ft, f.Name})
		for _, s := range recordSites(ft, p) {
			s.name = f.Name + "." + s.name
			out = append(out, s)
		}
	}
	return out
}

// materialize creates the containers along path (slices get n records, the first one is
// returned) and returns the addressable record.
func materialize(v reflect.Value, path []int, n int) reflect.Value {
	for _, idx := range path {
		f := v.Field(idx)
		for {
			switch f.Kind() {
			case reflect.Ptr:
				if f.IsNil() {
					f.Set(reflect.New(f.Type().Elem()))
				}
				f = f.Elem()
				continue
			case reflect.Slice:
				if f.Len() == 0 {
					sl := reflect.MakeSlice(f.Type(), n, n)
					for i := 0; i < n; i++ {
						if sl.Index(i).Kind() == reflect.Ptr {
							sl.Index(i).Set(reflect.New(f.Type().Elem().Elem()))
						}
					}
					f.Set(sl)
				}
				f = f.Index(0)
				continue
			}
			break
		}
		v = f
	}
	return v
}

// fillNonZero sets v to a random non-zero value of its type.
func (g *gen) fillNonZero(v reflect.Value) {
	for i := 0; i < 50; i++ {
		g.fill(v)
		if !v.IsZero() {
			return
		}
	}
	panic("c05 harness: no non-zero value for " + v.Type().String())
}

// setFineFloats overwrites every float64 reachable in v with successive full-mantissa values.
func setFineFloats(v reflect.Value, n *int) {
	switch v.Kind() {
	case reflect.Float64:
		if v.CanSet() {
			v.SetFloat(fineFloats[*n%len(fineFloats)])
			*n++
		}
	case reflect.Ptr:
		if !v.IsNil() {
			setFineFloats(v.Elem(), n)
		}
	case reflect.Slice:
		for i := 0; i < v.Len(); i++ {
			setFineFloats(v.Index(i), n)
		}
	case reflect.Struct:
		if leafType(v.Type()) {
			return
		}
		for i := 0; i < v.NumField(); i++ {
			if v.Type().Field(i).PkgPath == "" {
				setFineFloats(v.Field(i), n)
			}
		}
	}
}
