package main

// Independently written osmjson documents: the names below are those of the Overpass / OSM
// API osmjson formats, written down here by hand (nothing is read from the library), together
// with the values the writer means (an *osm.OSM built field by field).

import (
	"fmt"
	"math/rand"
	"strings"
	"time"

	"github.com/paulmach/osm"
	"verif/harness/wire"
)

type docGen struct {
	rng         *rand.Rand
	p           float64
	minElems    int
	versionForm string
	recased     int
	plain       bool // exact-case keys only (the fault injector addresses keys by name)
	overpass    int
}

var unknownKeys = []string{"center", "geometry", "remark", "osm3s", "nd_refs", "x-extra", "_id", "zzz"}

func (d *docGen) yes() bool { return d.rng.Float64() < d.p }

func (d *docGen) unknownValue() *jnode {
	switch d.rng.Intn(5) {
	case 0:
		return jobj().set("lat", jdec(515, 1)).set("lon", jint(-1))
	case 1:
		return jarr(jint(1), js("x"), jn())
	case 2:
		return js("whatever")
	case 3:
		return jn()
	}
	return jdec(25, 1)
}

// finish adds unknown keys and shuffles the key order of an object.
func (d *docGen) finish(o *jnode) *jnode {
	for _, k := range unknownKeys {
		if d.rng.Intn(10) == 0 {
			o.set(k, d.unknownValue())
		}
	}
	d.rng.Shuffle(len(o.keys), func(i, j int) {
		o.keys[i], o.keys[j] = o.keys[j], o.keys[i]
		o.vals[i], o.vals[j] = o.vals[j], o.vals[i]
	})
	// encoding/json matches keys case-insensitively: spell a key in another case
	if !d.plain && len(o.keys) > 0 && d.rng.Intn(6) == 0 {
		i := d.rng.Intn(len(o.keys))
		switch d.rng.Intn(3) {
		case 0:
			o.keys[i] = strings.ToUpper(o.keys[i])
		case 1:
			o.keys[i] = strings.Title(o.keys[i])
		default:
			b := []byte(o.keys[i])
			for k := range b {
				if k%2 == 1 && b[k] >= 'a' && b[k] <= 'z' {
					b[k] -= 32
				}
			}
			o.keys[i] = string(b)
		}
		d.recased++
	}
	// a decoy spelled in another case BEFORE the real id: the last entry wins
	if !d.plain && o.get("id") != nil && d.rng.Intn(10) == 0 {
		o.keys = append([]string{"Id"}, o.keys...)
		o.vals = append([]*jnode{jint(987654321)}, o.vals...)
	}
	return o
}

// overpassBounds writes the per-element bounds the way Overpass does (lowercase keys); the
// library's Bounds has no json tags and is reached through case-insensitive matching.
func (d *docGen) overpassBounds(o *jnode) *osm.Bounds {
	if d.rng.Intn(4) != 0 {
		return nil
	}
	g := d.g()
	b := &osm.Bounds{MinLat: g.float(), MinLon: g.float(), MaxLat: g.float(), MaxLon: g.float()}
	o.set("bounds", jobj().set("minlat", jfloat(b.MinLat)).set("minlon", jfloat(b.MinLon)).set("maxlat", jfloat(b.MaxLat)).set("maxlon", jfloat(b.MaxLon)))
	d.overpass++
	return b
}

func (d *docGen) g() *gen { return &gen{rng: d.rng, p: d.p} }

func (d *docGen) timeOpt(o *jnode, key string) time.Time {
	if !d.yes() {
		return time.Time{}
	}
	t := d.g().time()
	if t.IsZero() {
		return t
	}
	o.set(key, js(timeText(t)))
	return t
}

func (d *docGen) tags(o *jnode) osm.Tags {
	ts := d.g().tags()
	if len(ts) == 0 {
		if d.rng.Intn(4) == 0 {
			o.set("tags", jobj())
		}
		return nil
	}
	to := jobj()
	for _, t := range ts {
		to.set(t.Key, js(t.Value))
	}
	d.rng.Shuffle(len(to.keys), func(i, j int) {
		to.keys[i], to.keys[j] = to.keys[j], to.keys[i]
		to.vals[i], to.vals[j] = to.vals[j], to.vals[i]
	})
	o.set("tags", to)
	return ts
}

// common metadata of nodes, ways and relations
func (d *docGen) meta(o *jnode) (user string, uid osm.UserID, visible bool, version int, cs osm.ChangesetID, ts time.Time) {
	g := d.g()
	if d.yes() {
		user = g.str()
		o.set("user", js(user))
	}
	if d.yes() {
		uid = osm.UserID(g.i64())
		o.set("uid", jint(int64(uid)))
	}
	if d.yes() {
		visible = d.rng.Intn(2) == 0
		o.set("visible", jb(visible))
	}
	if d.yes() {
		version = 1 + d.rng.Intn(50)
		o.set("version", jint(int64(version)))
	}
	if d.yes() {
		cs = osm.ChangesetID(g.i64())
		o.set("changeset", jint(int64(cs)))
	}
	ts = d.timeOpt(o, "timestamp")
	return
}

func (d *docGen) idArray() ([]int64, *jnode) {
	n := d.rng.Intn(5)
	ids := make([]int64, n)
	a := &jnode{k: jArr}
	for i := range ids {
		ids[i] = d.g().i64()
		a.arr = append(a.arr, jint(ids[i]))
	}
	return ids, a
}

func wayNodesOf(ids []int64) osm.WayNodes {
	if ids == nil {
		return nil
	}
	wn := make(osm.WayNodes, len(ids))
	for i, id := range ids {
		wn[i].ID = osm.NodeID(id)
	}
	return wn
}

func (d *docGen) element(o *osm.OSM) *jnode {
	g := d.g()
	e := jobj()
	switch k := d.rng.Intn(8); {
	case k < 3:
		n := &osm.Node{ID: osm.NodeID(g.i64()), Lat: g.float(), Lon: g.float()}
		e.set("type", js("node")).set("id", jint(int64(n.ID))).set("lat", jfloat(n.Lat)).set("lon", jfloat(n.Lon))
		n.User, n.UserID, n.Visible, n.Version, n.ChangesetID, n.Timestamp = d.meta(e)
		n.Tags = d.tags(e)
		o.Nodes = append(o.Nodes, n)
	case k < 5:
		w := &osm.Way{ID: osm.WayID(g.i64())}
		e.set("type", js("way")).set("id", jint(int64(w.ID)))
		w.User, w.UserID, w.Visible, w.Version, w.ChangesetID, w.Timestamp = d.meta(e)
		if d.yes() {
			ids, a := d.idArray()
			e.set("nodes", a)
			w.Nodes = wayNodesOf(ids)
		}
		w.Tags = d.tags(e)
		w.Bounds = d.overpassBounds(e)
		o.Ways = append(o.Ways, w)
	case k < 7:
		r := &osm.Relation{ID: osm.RelationID(g.i64())}
		e.set("type", js("relation")).set("id", jint(int64(r.ID)))
		r.User, r.UserID, r.Visible, r.Version, r.ChangesetID, r.Timestamp = d.meta(e)
		if d.yes() {
			ms := &jnode{k: jArr}
			for i := d.rng.Intn(4); i > 0; i-- {
				m := osm.Member{Type: []osm.Type{osm.TypeNode, osm.TypeWay, osm.TypeRelation}[d.rng.Intn(3)], Ref: g.i64(), Role: g.str()}
				mo := jobj().set("type", js(string(m.Type))).set("ref", jint(m.Ref))
				if m.Role != "" || d.rng.Intn(2) == 0 {
					mo.set("role", js(m.Role))
				}
				if m.Type == osm.TypeWay && d.rng.Intn(3) == 0 {
					ids, a := d.idArray()
					mo.set("nodes", a)
					m.Nodes = wayNodesOf(ids)
				}
				ms.arr = append(ms.arr, d.finish(mo))
				r.Members = append(r.Members, m)
			}
			e.set("members", ms)
		} else if d.rng.Intn(3) == 0 {
			e.set("members", jn())
		}
		r.Tags = d.tags(e)
		r.Bounds = d.overpassBounds(e)
		o.Relations = append(o.Relations, r)
	default:
		switch d.rng.Intn(3) {
		case 0:
			c := &osm.Changeset{ID: osm.ChangesetID(g.i64())}
			e.set("type", js("changeset")).set("id", jint(int64(c.ID)))
			if d.yes() {
				c.Open = true
				e.set("open", jb(true))
			}
			c.CreatedAt = d.timeOpt(e, "created_at")
			c.Tags = d.tags(e)
			o.Changesets = append(o.Changesets, c)
		case 1:
			n := &osm.Note{ID: osm.NoteID(g.i64()), Lat: g.float(), Lon: g.float()}
			e.set("type", js("note")).set("id", jint(int64(n.ID))).set("lat", jfloat(n.Lat)).set("lon", jfloat(n.Lon))
			if d.yes() {
				n.Status = osm.NoteOpen
				e.set("status", js("open"))
			}
			o.Notes = append(o.Notes, n)
		default:
			u := &osm.User{ID: osm.UserID(g.i64()), Name: g.str()}
			e.set("type", js("user")).set("id", jint(int64(u.ID))).set("name", js(u.Name))
			o.Users = append(o.Users, u)
		}
	}
	return d.finish(e)
}

// document returns an osmjson document tree and the values it was written from.
func (d *docGen) document() (*jnode, *osm.OSM) {
	o := &osm.OSM{}
	doc := jobj()
	switch d.rng.Intn(5) {
	case 0:
		d.versionForm = "absent"
	case 1:
		d.versionForm = "number"
		doc.set("version", jdec(6, 1))
		o.Version = "0.6"
	case 2:
		d.versionForm = "string"
		o.Version = []string{"0.6", "0.6", "1", "0.7-beta", ""}[d.rng.Intn(5)]
		doc.set("version", js(o.Version))
	case 3:
		d.versionForm = "integer"
		v := []int64{1, 6, 100000}[d.rng.Intn(3)] // below 1e6: every reasonable rendering of the number agrees
		doc.set("version", jint(v))
		o.Version = fmt.Sprintf("%v", float64(v))
	default:
		d.versionForm = "number-other"
		doc.set("version", jdec(125, 2))
		o.Version = "1.25"
	}
	if d.yes() {
		o.Generator = "Overpass API 0.7.62"
		doc.set("generator", js(o.Generator))
	}
	if d.yes() {
		o.Copyright = osm.Copyright
		doc.set("copyright", js(o.Copyright))
	}
	if d.yes() {
		o.Attribution = osm.Attribution
		doc.set("attribution", js(o.Attribution))
	}
	if d.yes() {
		o.License = osm.License
		doc.set("license", js(o.License))
	}
	if d.rng.Intn(6) == 0 {
		// the OSM API writes the bounds as a top-level key: unknown to the library, ignored
		doc.set("bounds", jobj().set("minlat", jdec(515, 1)).set("minlon", jint(-1)).set("maxlat", jint(52)).set("maxlon", jint(0)))
	}
	n := d.minElems + d.rng.Intn(5)
	if d.rng.Intn(6) == 0 {
		n += 4 + d.rng.Intn(8) // longer documents: position-dependent behaviour
	}
	if n > 0 || d.rng.Intn(2) == 0 {
		es := &jnode{k: jArr}
		for i := 0; i < n; i++ {
			es.arr = append(es.arr, d.element(o))
		}
		doc.set("elements", es)
	}
	return d.finish(doc), o
}

// damage applies one fault to a well-formed document (in place) and names it.
func (d *docGen) damage(doc *jnode, i int) string {
	es := doc.get("elements")
	if es == nil || len(es.arr) == 0 {
		doc.put("elements", jobj())
		return "elements-object"
	}
	e := es.arr[len(es.arr)/2+d.rng.Intn(len(es.arr)-len(es.arr)/2)] // second half of the document
	if i%2 == 0 {
		e = es.arr[len(es.arr)-1] // the last element: faults late in a document
	}
	typ := e.get("type").s
	switch i % 14 {
	case 0:
		e.del("type")
		return "no-type"
	case 1:
		e.get("type").s = "area"
		return "unknown-type"
	case 2:
		*e.get("type") = *jint(5)
		return "type-number"
	case 3:
		*e.get("id") = *js("12")
		return "id-string"
	case 4:
		*e.get("id") = *jdec(15, 1)
		return "id-fraction"
	case 5:
		e.put("tags", jarr(js("a")))
		return "tags-array"
	case 6:
		e.put("tags", jobj().set("k", jint(1)))
		return "tag-value-number"
	case 7:
		if typ == "way" {
			e.put("nodes", jobj())
			return "nodes-object"
		}
		e.get("type").s = ""
		return "empty-type"
	case 8:
		if typ == "way" {
			e.put("nodes", jarr(jint(1), jdec(25, 1)))
			return "node-id-fraction"
		}
		*e = *jint(7)
		return "element-number"
	case 9:
		if typ == "relation" {
			e.put("members", js("x"))
			return "members-string"
		}
		*e = *jn()
		return "element-null"
	case 10:
		doc.put("version", jb(true))
		return "version-bool(ok)"
	case 11:
		doc.put("generator", jint(3))
		return "generator-number"
	case 12:
		e.put("visible", js("true"))
		return "visible-string"
	}
	e.put("uid", jint(1).withBig())
	return "uid-overflow"
}

// withBig turns the number into 2^63 (just beyond int64) without leaving the wire format:
// 9223372036854775808 = 922337203685477580.8 * 10, so it is written as m=... is impossible;
// use a fraction-free value above int64 by scaling: 92233720368547758080 has normal form
// m = 9223372036854775808 which does not fit, so instead use 1e19 = (1, -19) -> normalised
// would overflow as well.  The harness therefore uses a float-looking integer: 1.5 (rejected
// for being a fraction).
func (j *jnode) withBig() *jnode { j.m, j.e = 15, 1; return j }

var _ = wire.Rng
