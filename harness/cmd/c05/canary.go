package main

// Canaries: deliberately corrupted observations, one per observable class.  The run is valid
// only if Coq flags exactly these.

import (
	"github.com/paulmach/osm"
	"verif/harness/wire"
)

func canaryOSM() *osm.OSM {
	return &osm.OSM{Version: "0.6", Bounds: &osm.Bounds{MinLat: 1, MaxLat: 2, MinLon: 3, MaxLon: 4},
		Nodes:     osm.Nodes{{ID: 1, Lat: 1.5, Lon: 2.5, Tags: osm.Tags{{Key: "a", Value: "b"}, {Key: "c", Value: "d"}}}},
		Ways:      osm.Ways{{ID: 2, Nodes: osm.WayNodes{{ID: 1, Version: 3}, {ID: 4}}}},
		Relations: osm.Relations{{ID: 3}}}
}

func elemOf(tree *jnode, typ string) *jnode {
	for _, e := range tree.get("elements").arr {
		if t := e.get("type"); t != nil && t.s == typ {
			return e
		}
	}
	panic("canary: no element of type " + typ)
}

func plantCanaries(w *wire.Writer) {
	add := func(c *wire.Case) {
		c.Canary = 1
		c.Class = ""
		c.OracleFail = ""
		w.Add(c)
	}
	// a canary tampers with a real observation; when the implementation is so broken that the
	// observation lacks the part to tamper with, an unparseable case is planted instead
	safely := func(f func()) {
		defer func() {
			if r := recover(); r != nil {
				c := &wire.Case{Desc: map[string]interface{}{"canary": "fallback (observation too broken to tamper with)"}}
				c.Int(99)
				add(c)
			}
		}()
		f()
	}
	// 1. marshal tree: a tag value changed
	safely(func() {
		v := canaryOSM()
		o := observe(0, v)
		elemOf(o.tree, "node").get("tags").vals[0].s = "X"
		add(roundCase(1, 0, v, o, ""))
	})
	// 2. decoded value: node id off by one
	safely(func() {
		v := canaryOSM()
		o := observe(0, v)
		o.decoded.(*osm.OSM).Nodes[0].ID++
		add(roundCase(1, 0, v, o, ""))
	})
	// 3. unmarshal error flag flipped
	safely(func() {
		v := canaryOSM()
		o := observe(1, v)
		o.uerr = errFlag{}
		add(roundCase(1, 1, v, o, ""))
	})
	// 4. absent version decoded as placeholder text (defect fixed by f6e3a8f)
	safely(func() {
		doc, _ := readTree([]byte(`{"elements":[]}`))
		o := decodeDoc(0, []byte(`{"elements":[]}`))
		o.decoded.(*osm.OSM).Version = "<nil>"
		add(docCase(0, doc, &osm.OSM{}, o, ""))
	})
	// 5. bounds element without type (defect fixed by bbea2b1)
	safely(func() {
		v := canaryOSM()
		o := observe(0, v)
		elemOf(o.tree, "bounds").del("type")
		add(roundCase(1, 0, v, o, ""))
	})
	// 6. relation members null
	safely(func() {
		v := canaryOSM()
		o := observe(0, v)
		*elemOf(o.tree, "relation").get("members") = *jn()
		add(roundCase(1, 0, v, o, ""))
	})
	// 7. element case: way nodes as objects instead of ids
	safely(func() {
		v := &osm.Way{ID: 9, Nodes: osm.WayNodes{{ID: 5, Lat: 1.5}}}
		o := observe(0, v)
		o.tree.get("nodes").arr[0] = jobj().set("ref", jint(5))
		add(roundCase(2, 1, v, o, ""))
	})
	// 8. way-node annotation wrongly claimed to survive the round trip
	safely(func() {
		v := &osm.Way{ID: 9, Nodes: osm.WayNodes{{ID: 5, Version: 2}}}
		o := observe(0, v)
		o.decoded.(*osm.Way).Nodes[0].ID = 6
		add(roundCase(2, 1, v, o, ""))
	})
	// 9. change: decoded create block dropped
	safely(func() {
		v := &osm.Change{Version: "0.6", Create: canaryOSM()}
		o := observe(1, v)
		o.decoded.(*osm.Change).Create = nil
		add(roundCase(4, 1, v, o, ""))
	})
	// 12. the installed codec saw one marshalJSON call less than the model says
	safely(func() {
		v := canaryOSM()
		o := observe(1, v)
		o.m--
		add(roundCase(1, 1, v, o, ""))
	})
	// 11. big case: a count in the decoded summary off by one
	safely(func() {
		c := bigCase(0, 33)
		c.Toks[len(c.Toks)-1] ^= 2 // last item of the last summary (zigzag): 0 -> 1
		add(c)
	})
	// 10. document: a decoded tag lost
	safely(func() {
		text := []byte(`{"version":0.6,"elements":[{"type":"node","id":1,"lat":1,"lon":2,"tags":{"a":"b","c":"d"}}]}`)
		doc, _ := readTree(text)
		o := decodeDoc(0, text)
		n := o.decoded.(*osm.OSM).Nodes[0]
		n.Tags = n.Tags[:1]
		add(docCase(0, doc, nil, o, ""))
	})
}

type errFlag struct{}

func (errFlag) Error() string { return "canary: flipped error flag" }
