package main

// Go value <-> wire "val" trees (see coq/theories/C05/Check.v, pval) and the independent JSON
// reader (text -> jnode tree, key order preserved, numbers as exact decimals).

import (
	"bytes"
	"encoding/json"
	"fmt"
	"io"
	"math/big"
	"reflect"
	"sort"
	"strconv"
	"strings"
	"time"

	"github.com/paulmach/osm"
	"verif/harness/wire"
)

// ---------------------------------------------------------------- decimals

// decimal normal form: value = m * 10^-k, k >= 0, k == 0 or m%10 != 0
func normDec(m *big.Int, k int64) (int64, int64) {
	ten := big.NewInt(10)
	for k < 0 {
		m = new(big.Int).Mul(m, ten)
		k++
	}
	for k > 0 {
		q, r := new(big.Int).QuoRem(m, ten, new(big.Int))
		if r.Sign() != 0 {
			break
		}
		m = q
		k--
	}
	if m.Sign() == 0 {
		k = 0
	}
	if !m.IsInt64() {
		panic(fmt.Sprintf("c05 harness: decimal mantissa %s does not fit the wire format", m))
	}
	return m.Int64(), k
}

// parseNumber reads JSON number text exactly.
func parseNumber(s string) (int64, int64) {
	t := s
	neg := false
	if strings.HasPrefix(t, "-") {
		neg = true
		t = t[1:]
	}
	exp := int64(0)
	if i := strings.IndexAny(t, "eE"); i >= 0 {
		e, err := strconv.ParseInt(strings.TrimPrefix(t[i+1:], "+"), 10, 64)
		if err != nil {
			panic("c05 harness: bad exponent in " + s)
		}
		exp = e
		t = t[:i]
	}
	frac := ""
	if i := strings.IndexByte(t, '.'); i >= 0 {
		frac = t[i+1:]
		t = t[:i]
	}
	m, ok := new(big.Int).SetString(t+frac, 10)
	if !ok {
		panic("c05 harness: bad number " + s)
	}
	if neg {
		m.Neg(m)
	}
	return normDec(m, int64(len(frac))-exp)
}

// floatDec gives the shortest decimal of f (what strconv prints with -1 precision).
func floatDec(f float64) (int64, int64) {
	return parseNumber(strconv.FormatFloat(f, 'e', -1, 64))
}

// ---------------------------------------------------------------- JSON trees

type jkind int

const (
	jNull jkind = iota
	jBool
	jNum
	jStr
	jArr
	jObj
)

type jnode struct {
	k    jkind
	b    bool
	m, e int64 // number: m * 10^-e
	s    string
	arr  []*jnode
	keys []string // object keys, document order
	vals []*jnode
}

func jn() *jnode              { return &jnode{k: jNull} }
func jb(b bool) *jnode        { return &jnode{k: jBool, b: b} }
func jint(v int64) *jnode     { return &jnode{k: jNum, m: v} }
func jdec(m, e int64) *jnode  { return &jnode{k: jNum, m: m, e: e} }
func js(s string) *jnode      { return &jnode{k: jStr, s: s} }
func jarr(l ...*jnode) *jnode { return &jnode{k: jArr, arr: l} }
func jobj() *jnode            { return &jnode{k: jObj} }
func jfloat(f float64) *jnode { m, e := floatDec(f); return jdec(m, e) }
func (o *jnode) set(k string, v *jnode) *jnode {
	o.keys = append(o.keys, k)
	o.vals = append(o.vals, v)
	return o
}

// put replaces the value of an existing key, or appends the entry (no duplicate keys)
func (o *jnode) put(k string, v *jnode) *jnode {
	for i := range o.keys {
		if o.keys[i] == k {
			o.vals[i] = v
			return o
		}
	}
	return o.set(k, v)
}
func (o *jnode) get(k string) *jnode {
	for i := len(o.keys) - 1; i >= 0; i-- {
		if o.keys[i] == k {
			return o.vals[i]
		}
	}
	return nil
}
func (o *jnode) del(k string) {
	for i := range o.keys {
		if o.keys[i] == k {
			o.keys = append(o.keys[:i:i], o.keys[i+1:]...)
			o.vals = append(o.vals[:i:i], o.vals[i+1:]...)
			return
		}
	}
}
func (o *jnode) clone() *jnode {
	c := *o
	c.arr = nil
	for _, x := range o.arr {
		c.arr = append(c.arr, x.clone())
	}
	c.keys = append([]string(nil), o.keys...)
	c.vals = nil
	for _, x := range o.vals {
		c.vals = append(c.vals, x.clone())
	}
	return &c
}

func putTree(c *wire.Case, j *jnode) {
	switch j.k {
	case jNull:
		c.Tok(0)
	case jBool:
		c.Tok(1).Bool(j.b)
	case jNum:
		c.Tok(2).Int(j.m).Int(j.e)
	case jStr:
		c.Tok(3).Str(j.s)
	case jArr:
		c.Tok(4).Len(len(j.arr))
		for _, x := range j.arr {
			putTree(c, x)
		}
	case jObj:
		c.Tok(5).Len(len(j.keys))
		for i, k := range j.keys {
			c.Str(k)
			putTree(c, j.vals[i])
		}
	}
}

// toIface renders a tree for the replay description.
func (j *jnode) toIface() interface{} {
	var b bytes.Buffer
	writeCompact(&b, j)
	return json.RawMessage(b.Bytes())
}

// readTree is the independent reader: a token walk over encoding/json's Decoder with
// UseNumber, preserving the order of object keys.
func readTree(data []byte) (*jnode, error) {
	d := json.NewDecoder(bytes.NewReader(data))
	d.UseNumber()
	n, err := readValue(d)
	if err != nil {
		return nil, err
	}
	if _, err := d.Token(); err != io.EOF {
		return nil, fmt.Errorf("trailing data")
	}
	return n, nil
}

func readValue(d *json.Decoder) (*jnode, error) {
	t, err := d.Token()
	if err != nil {
		return nil, err
	}
	switch v := t.(type) {
	case nil:
		return jn(), nil
	case bool:
		return jb(v), nil
	case json.Number:
		m, e := parseNumber(string(v))
		return jdec(m, e), nil
	case string:
		return js(v), nil
	case json.Delim:
		switch v {
		case '[':
			a := &jnode{k: jArr}
			for d.More() {
				x, err := readValue(d)
				if err != nil {
					return nil, err
				}
				a.arr = append(a.arr, x)
			}
			_, err := d.Token()
			return a, err
		case '{':
			o := jobj()
			for d.More() {
				kt, err := d.Token()
				if err != nil {
					return nil, err
				}
				x, err := readValue(d)
				if err != nil {
					return nil, err
				}
				o.set(kt.(string), x)
			}
			_, err := d.Token()
			return o, err
		}
	}
	return nil, fmt.Errorf("unexpected token %v", t)
}

// ---------------------------------------------------------------- Go values -> wire

var timeType = reflect.TypeOf(time.Time{})
var dateType = reflect.TypeOf(osm.Date{})
var changePtrType = reflect.TypeOf((*osm.Change)(nil))

func timeText(t time.Time) string { return t.UTC().Format(time.RFC3339Nano) }

func putVal(c *wire.Case, v reflect.Value) {
	t := v.Type()
	switch {
	case t == timeType:
		c.Tok(4).Str(timeText(v.Interface().(time.Time)))
		return
	case t == dateType:
		c.Tok(4).Str(timeText(v.Interface().(osm.Date).Time))
		return
	case strings.HasPrefix(t.Name(), "xmlNameJSONType") || (t.PkgPath() == "encoding/xml" && t.Name() == "Name"):
		c.Tok(5)
		return
	case t == changePtrType:
		if !v.IsNil() {
			panic("c05 harness: Changeset.Change is outside the modelled fragment")
		}
		c.Tok(6)
		return
	}
	switch v.Kind() {
	case reflect.Int, reflect.Int8, reflect.Int16, reflect.Int32, reflect.Int64:
		c.Tok(0).Int(v.Int())
	case reflect.Float64:
		m, e := floatDec(v.Float())
		c.Tok(1).Int(m).Int(e)
	case reflect.Bool:
		c.Tok(2).Bool(v.Bool())
	case reflect.String:
		c.Tok(3).Str(v.String())
	case reflect.Ptr:
		if v.IsNil() {
			c.Tok(6)
		} else {
			c.Tok(7)
			putVal(c, v.Elem())
		}
	case reflect.Slice:
		c.Tok(8).Len(v.Len())
		for i := 0; i < v.Len(); i++ {
			e := v.Index(i)
			if e.Kind() == reflect.Ptr {
				if e.IsNil() {
					panic("c05 harness: nil element pointer")
				}
				e = e.Elem()
			}
			putVal(c, e)
		}
	case reflect.Struct:
		n := 0
		for i := 0; i < t.NumField(); i++ {
			if t.Field(i).PkgPath == "" {
				n++
			}
		}
		c.Tok(9).Len(n)
		for i := 0; i < t.NumField(); i++ {
			if t.Field(i).PkgPath == "" {
				putVal(c, v.Field(i))
			}
		}
	default:
		panic("c05 harness: kind outside the value universe: " + v.Kind().String())
	}
}

func putOpt(c *wire.Case, present bool, v interface{}) {
	c.Bool(present)
	if present {
		putVal(c, reflect.Indirect(reflect.ValueOf(v)))
	}
}

// ---------------------------------------------------------------- independent writer

func writeString(b *bytes.Buffer, s string, rnd func(int) int) {
	b.WriteByte('"')
	for _, r := range s {
		switch {
		case r == '"':
			b.WriteString(`\"`)
		case r == '\\':
			b.WriteString(`\\`)
		case r == '\n':
			b.WriteString(`\n`)
		case r == '\t':
			b.WriteString(`\t`)
		case r < 0x20:
			fmt.Fprintf(b, `\u%04x`, r)
		case r < 0x7f && r != '/' && rnd != nil && rnd(12) == 0:
			fmt.Fprintf(b, `\u%04x`, r) // an escaped spelling of a plain character
		case r == '/' && rnd != nil && rnd(2) == 0:
			b.WriteString(`\/`)
		default:
			b.WriteRune(r)
		}
	}
	b.WriteByte('"')
}

func decText(m, e int64) string {
	neg := m < 0
	d := new(big.Int).Abs(big.NewInt(m)).String()
	if e > 0 {
		for int64(len(d)) <= e {
			d = "0" + d
		}
		d = d[:int64(len(d))-e] + "." + d[int64(len(d))-e:]
	}
	if neg {
		d = "-" + d
	}
	return d
}

func writeCompact(b *bytes.Buffer, j *jnode) { writeTree(b, j, nil) }

// writeTree serialises a tree; with rnd != nil it inserts random insignificant whitespace
// and alternative string escapes.
func writeTree(b *bytes.Buffer, j *jnode, rnd func(int) int) {
	ws := func() {
		if rnd != nil {
			switch rnd(6) {
			case 0:
				b.WriteByte(' ')
			case 1:
				b.WriteString("\n  ")
			case 2:
				b.WriteByte('\t')
			}
		}
	}
	switch j.k {
	case jNull:
		b.WriteString("null")
	case jBool:
		if j.b {
			b.WriteString("true")
		} else {
			b.WriteString("false")
		}
	case jNum:
		b.WriteString(decText(j.m, j.e))
	case jStr:
		if len(j.s) >= 20 && j.s[4] == '-' && j.s[10] == 'T' {
			// time texts are written plainly: time.Time.UnmarshalJSON (standard library) reads the
			// raw bytes between the quotes without unescaping, a text-level matter below the model
			writeString(b, j.s, nil)
		} else {
			writeString(b, j.s, rnd)
		}
	case jArr:
		b.WriteByte('[')
		if len(j.arr) == 0 {
			ws() // whitespace is allowed inside an empty array as well: [ ]
		}
		for i, x := range j.arr {
			if i > 0 {
				b.WriteByte(',')
			}
			ws()
			writeTree(b, x, rnd)
			ws()
		}
		b.WriteByte(']')
	case jObj:
		b.WriteByte('{')
		if len(j.keys) == 0 {
			ws() // and inside an empty object: { }
		}
		for i, k := range j.keys {
			if i > 0 {
				b.WriteByte(',')
			}
			ws()
			writeString(b, k, rnd)
			ws()
			b.WriteByte(':')
			ws()
			writeTree(b, j.vals[i], rnd)
			ws()
		}
		b.WriteByte('}')
	}
}

func treeEqual(a, b *jnode) bool {
	ca, cb := &wire.Case{}, &wire.Case{}
	putTree(ca, a)
	putTree(cb, b)
	return reflect.DeepEqual(ca.Toks, cb.Toks)
}

// canonTags sorts the entries of every object stored under a key "tags" (a Go map on the
// library's side: its order is codec-dependent) — in place.
func canonTags(j *jnode) *jnode {
	for _, x := range j.arr {
		canonTags(x)
	}
	for i, x := range j.vals {
		if j.keys[i] == "tags" && x.k == jObj {
			idx := make([]int, len(x.keys))
			for k := range idx {
				idx[k] = k
			}
			sort.SliceStable(idx, func(a, b int) bool { return x.keys[idx[a]] < x.keys[idx[b]] })
			nk, nv := make([]string, len(idx)), make([]*jnode, len(idx))
			for k, ix := range idx {
				nk[k], nv[k] = x.keys[ix], x.vals[ix]
			}
			x.keys, x.vals = nk, nv
		} else {
			canonTags(x)
		}
	}
	return j
}

// writeDocument: the whole text, with optional whitespace before and after the top value too.
func writeDocument(b *bytes.Buffer, j *jnode, rnd func(int) int) {
	pad := func() {
		if rnd != nil {
			b.WriteString([]string{"", "", " ", "\n", "\r\n\t", "  \n"}[rnd(6)])
		}
	}
	pad()
	writeTree(b, j, rnd)
	pad()
}

// panicError: the implementation panicked instead of returning.
type panicError struct{ v interface{} }

func (p panicError) Error() string { return fmt.Sprintf("implementation panicked: %v", p.v) }

func safeMarshal(v interface{}) (b []byte, err error) {
	defer func() {
		if r := recover(); r != nil {
			b, err = nil, panicError{r}
		}
	}()
	return json.Marshal(v)
}

func safeUnmarshal(data []byte, v interface{}) (err error) {
	defer func() {
		if r := recover(); r != nil {
			err = panicError{r}
		}
	}()
	return json.Unmarshal(data, v)
}
