// c15: correspondence harness for applying updates / geometry-at-time (property C15).
//
// Every case runs the real implementation (Way/Relation.ApplyUpdatesUpTo, Way.LineString,
// Way.LineStringAt, Updates.UpTo, Updates.SortBy*, mputil.Group through the verif hook) on a
// generated input and records input + observation as a token stream for C15/Check.v.
package main

import (
	"fmt"
	"math"
	"math/rand"
	"os"
	"sort"
	"sync"
	"time"

	"github.com/paulmach/orb"
	"github.com/paulmach/osm"
	"github.com/paulmach/osm/osmgeojson"
	"verif/harness/wire"
)

const base = int64(1500000000) * 1e9 // 2017-07-14, ns

func ts(ns int64) time.Time { return time.Unix(0, ns).UTC() }

// The same instant can be carried by different time.Time values: another Location, or a value
// derived from time.Now() that carries a monotonic clock reading.  The property is about
// instants, so behaviour must not depend on the representation; the wire format (seconds + nanoseconds) and
// the model see the instant only.
var reprNames = []string{"UTC", "FixedZone+01:00", "FixedZone-07:30", "Local", "monotonic"}
var zoneEast = time.FixedZone("east", 3600)
var zoneWest = time.FixedZone("west", -7*3600-1800)
var processStart = time.Now() // has a monotonic reading

func tsRepr(ns int64, mode int) time.Time {
	u := time.Unix(0, ns)
	switch mode % len(reprNames) {
	case 1:
		return u.In(zoneEast)
	case 2:
		return u.In(zoneWest)
	case 3:
		return u.In(time.Local)
	case 4:
		return processStart.Add(u.Sub(processStart)) // same instant, keeps the monotonic reading
	}
	return u.UTC()
}

// tq renders the query time of a case: the representation rotates deterministically.
// Instants outside the int64-nanosecond range (1677..2262) cannot be written as ns: the
// generator registers them under sentinel keys in farTimes.
var tqCounter int
var farTimes = map[int64]time.Time{}

const farKey = int64(1) << 62

func far(i int, t time.Time) int64 { k := farKey + int64(i); farTimes[k] = t; return k }

func tq(ns int64) (time.Time, string) {
	if t, ok := farTimes[ns]; ok {
		return t, "UTC (outside the int64 nanosecond range)"
	}
	tqCounter++
	m := tqCounter % len(reprNames)
	return tsRepr(ns, m), reprNames[m]
}

// encTime writes an instant as seconds and nanoseconds (the model's time is sec*10^9+nsec in Z)
func encTime(c *wire.Case, t time.Time) { c.Int(t.Unix()).Int(int64(t.Nanosecond())) }

// relTime describes an instant for replays: ns relative to base when representable
func relTime(t time.Time) interface{} {
	if y := t.Year(); y > 1700 && y < 2200 {
		return t.UnixNano() - base
	}
	return t.UTC().Format(time.RFC3339Nano)
}

// wayMeta: Timestamp / Committed of the ways and relations built for the current case (the
// property does not depend on them; an implementation must not either)
var wayStamp time.Time
var wayCommitted *time.Time

var roles = []string{"outer", "inner", "", "other"}
var types = []osm.Type{osm.TypeNode, osm.TypeWay, osm.TypeRelation}

func roleCode(r string) int64 {
	for i, s := range roles {
		if s == r {
			return int64(i)
		}
	}
	return 99
}
func typeCode(t osm.Type) int64 {
	for i, s := range types {
		if s == t {
			return int64(i)
		}
	}
	return 99
}

// ---------- encoding ----------

func encUpdates(c *wire.Case, us osm.Updates) {
	c.Len(len(us))
	for _, u := range us {
		c.Int(int64(u.Index)).Int(int64(u.Version)).Int(u.Timestamp.Unix()).Int(int64(u.Timestamp.Nanosecond())).Int(int64(u.ChangesetID)).
			Int(ck(u.Lat)).Int(ck(u.Lon)).Bool(u.Reverse)
	}
}
func encNodes(c *wire.Case, ns osm.WayNodes) {
	c.Len(len(ns))
	for _, n := range ns {
		c.Int(int64(n.ID)).Int(int64(n.Version)).Int(int64(n.ChangesetID)).Int(ck(n.Lat)).Int(ck(n.Lon))
	}
}
func encMembers(c *wire.Case, ms osm.Members) {
	c.Len(len(ms))
	for _, m := range ms {
		c.Int(typeCode(m.Type)).Int(m.Ref).Int(roleCode(m.Role)).Int(int64(m.Version)).Int(int64(m.ChangesetID)).
			Int(ck(m.Lat)).Int(ck(m.Lon)).Int(int64(m.Orientation)).Int(nodesCode(m.Nodes))
	}
}

// Member.Nodes (the node path of a way member) is carried as a number interned by content: 0 is nil,
// equal numbers mean equal paths (every field of every node). No function under test may touch it.
var (
	nodesMu     sync.Mutex
	nodesIntern = map[string]int64{}
)

func nodesCode(ns osm.WayNodes) int64 {
	if ns == nil {
		return 0
	}
	k := fmt.Sprint(len(ns), []osm.WayNode(ns))
	nodesMu.Lock()
	defer nodesMu.Unlock()
	if id, ok := nodesIntern[k]; ok {
		return id
	}
	id := int64(len(nodesIntern) + 1)
	nodesIntern[k] = id
	return id
}
func encPoints(c *wire.Case, ls orb.LineString) {
	c.Len(len(ls))
	for _, p := range ls {
		c.Int(ck(p[0])).Int(ck(p[1]))
	}
}

// ---------- JSON descriptions (replay) ----------

type dUpd struct {
	Index, Version int
	Repr           string `json:",omitempty"`
	TS             interface{}
	CS             int64
	Lat, Lon       float64
	Rev            bool `json:",omitempty"`
}
type dNode struct {
	ID       int64
	Version  int
	CS       int64
	Lat, Lon float64
}
type dMem struct {
	Type     string
	Ref      int64
	Role     string
	Version  int
	CS       int64
	Lat, Lon float64
	Orient   int
	Nodes    []dNode `json:",omitempty"`
}

func descUpdates(us osm.Updates) []dUpd {
	r := make([]dUpd, 0, len(us))
	for _, u := range us {
		repr := ""
		if u.Timestamp.Location() != time.UTC {
			repr = u.Timestamp.Location().String()
		}
		if u.Timestamp != u.Timestamp.Round(0) {
			repr = "monotonic"
		}
		r = append(r, dUpd{u.Index, u.Version, repr, relTime(u.Timestamp), int64(u.ChangesetID), u.Lat, u.Lon, u.Reverse})
	}
	return r
}
func descNodes(ns osm.WayNodes) []dNode {
	r := make([]dNode, 0, len(ns))
	for _, n := range ns {
		r = append(r, dNode{int64(n.ID), n.Version, int64(n.ChangesetID), n.Lat, n.Lon})
	}
	return r
}
func descMembers(ms osm.Members) []dMem {
	r := make([]dMem, 0, len(ms))
	for _, m := range ms {
		var nd []dNode
		if m.Nodes != nil {
			nd = descNodes(m.Nodes)
		}
		r = append(r, dMem{string(m.Type), m.Ref, m.Role, m.Version, int64(m.ChangesetID), m.Lat, m.Lon, int(m.Orientation), nd})
	}
	return r
}
func descPoints(ls orb.LineString) [][2]float64 {
	r := make([][2]float64, 0, len(ls))
	for _, p := range ls {
		r = append(r, [2]float64{p[0], p[1]})
	}
	return r
}

// ---------- running the implementation ----------

type obs struct {
	Status  int // 0 ok, 1 index error, 2 panic, 3 other error
	Idx     int
	Nodes   osm.WayNodes
	Members osm.Members
	Updates osm.Updates
}

func classify(err error) (int, int) {
	if err == nil {
		return 0, 0
	}
	if e, ok := err.(*osm.UpdateIndexOutOfRangeError); ok {
		return 1, e.Index
	}
	return 3, 0
}

func applyWay(w *osm.Way, t time.Time) (o obs) {
	defer func() {
		if recover() != nil {
			o = obs{Status: 2, Nodes: w.Nodes, Updates: w.Updates}
		}
	}()
	st, idx := classify(w.ApplyUpdatesUpTo(t))
	return obs{Status: st, Idx: idx, Nodes: w.Nodes, Updates: w.Updates}
}

func applyRel(r *osm.Relation, t time.Time) (o obs) {
	defer func() {
		if recover() != nil {
			o = obs{Status: 2, Members: r.Members, Updates: r.Updates}
		}
	}()
	st, idx := classify(r.ApplyUpdatesUpTo(t))
	return obs{Status: st, Idx: idx, Members: r.Members, Updates: r.Updates}
}

func cloneUpdates(us osm.Updates) osm.Updates { return append(osm.Updates(nil), us...) }
func cloneWay(ns osm.WayNodes, us osm.Updates) *osm.Way {
	return &osm.Way{ID: 7, Version: 1, Timestamp: wayStamp, Committed: wayCommitted, Nodes: append(osm.WayNodes(nil), ns...), Updates: cloneUpdates(us)}
}
func cloneRel(ms osm.Members, us osm.Updates) *osm.Relation {
	return &osm.Relation{ID: 9, Version: 1, Timestamp: wayStamp, Committed: wayCommitted, Members: append(osm.Members(nil), ms...), Updates: cloneUpdates(us)}
}

func (o obs) enc(c *wire.Case, rel bool) {
	c.Int(int64(o.Status)).Int(int64(o.Idx))
	if rel {
		encMembers(c, o.Members)
	} else {
		encNodes(c, o.Nodes)
	}
	encUpdates(c, o.Updates)
}
func (o obs) desc(rel bool) map[string]interface{} {
	d := map[string]interface{}{"status": []string{"ok", "index-out-of-range", "panic", "other-error"}[o.Status], "pending": descUpdates(o.Updates)}
	if o.Status == 1 {
		d["error_index"] = o.Idx
	}
	if rel {
		d["members"] = descMembers(o.Members)
	} else {
		d["nodes"] = descNodes(o.Nodes)
	}
	return d
}

// ---------- cases ----------

// applyCase: tag 1 (way) / 2 (relation). mut (optional) corrupts the observation (canaries).
func applyCase(rel bool, t int64, ns osm.WayNodes, ms osm.Members, us osm.Updates, mut func(*obs)) *wire.Case {
	c := &wire.Case{}
	var o obs
	tv, tname := tq(t)
	aliasFail := ""
	var origAfter osm.Updates // update list of the ORIGINAL after the copy was updated (judged in Coq too)
	if rel {
		c.Class = "apply-relation"
		c.Int(2)
		encTime(c, tv)
		encMembers(c, ms)
		encUpdates(c, us)
		// an ordinary copy: cp := *r with cloned members but the SAME update list
		orig := cloneRel(ms, us)
		snap := cloneUpdates(orig.Updates)
		cp := *orig
		cp.Members = append(osm.Members(nil), orig.Members...)
		o = applyRel(&cp, tv)
		origAfter = orig.Updates
		if !sameUpdates(orig.Updates, snap) {
			aliasFail = "ApplyUpdatesUpTo on a copy (cp := *r) changed the update list of the original relation"
		}
	} else {
		c.Class = "apply-way"
		c.Int(1)
		encTime(c, tv)
		encNodes(c, ns)
		encUpdates(c, us)
		orig := cloneWay(ns, us)
		snap := cloneUpdates(orig.Updates)
		cp := *orig
		cp.Nodes = append(osm.WayNodes(nil), orig.Nodes...)
		o = applyWay(&cp, tv)
		origAfter = orig.Updates
		if !sameUpdates(orig.Updates, snap) {
			aliasFail = "ApplyUpdatesUpTo on a copy (cp := *w) changed the update list of the original way"
		}
	}
	if mut != nil {
		mut(&o)
	} else if aliasFail != "" {
		c.OracleFail = aliasFail
	}
	o.enc(c, rel)
	encUpdates(c, origAfter)
	d := map[string]interface{}{"op": "ApplyUpdatesUpTo (on a copy sharing the update list)", "original_updates_afterwards": descUpdates(origAfter), "t": relTime(tv), "t_representation": tname, "updates": descUpdates(us), "observed": o.desc(rel),
		"element_timestamp": relTime(wayStamp), "note": "timestamps are ns relative to 2017-07-14T02:40:00Z"}
	if rel {
		d["members"] = descMembers(ms)
	} else {
		d["nodes"] = descNodes(ns)
	}
	c.Desc = d
	return c
}

func sameUpdates(a, b osm.Updates) bool {
	if len(a) != len(b) {
		return false
	}
	for i := range a {
		if a[i] != b[i] {
			return false
		}
	}
	return true
}

func sameObs(a, b obs, rel bool) bool {
	if a.Status != b.Status {
		return false
	}
	if a.Status == 1 {
		return a.Idx == b.Idx
	}
	if a.Status != 0 {
		return true
	}
	if len(a.Updates) != len(b.Updates) {
		return false
	}
	for i := range a.Updates {
		if a.Updates[i] != b.Updates[i] {
			return false
		}
	}
	if rel {
		if len(a.Members) != len(b.Members) {
			return false
		}
		for i := range a.Members {
			x, y := a.Members[i], b.Members[i]
			if nodesCode(x.Nodes) != nodesCode(y.Nodes) {
				return false
			}
			x.Nodes, y.Nodes = nil, nil
			if fmt.Sprint(x) != fmt.Sprint(y) {
				return false
			}
		}
		return true
	}
	if len(a.Nodes) != len(b.Nodes) {
		return false
	}
	for i := range a.Nodes {
		if a.Nodes[i] != b.Nodes[i] {
			return false
		}
	}
	return true
}

func perIndexSorted(us osm.Updates) bool {
	for i := range us {
		for j := i + 1; j < len(us); j++ {
			if us[i].Index == us[j].Index && us[j].Timestamp.Before(us[i].Timestamp) {
				return false
			}
		}
	}
	return true
}

// composeCase: tag 3.
func composeCase(rel bool, t1, t2 int64, ns osm.WayNodes, ms osm.Members, us osm.Updates, mut func(*obs)) *wire.Case {
	c := &wire.Case{Class: "compose-way"}
	c.Int(3)
	var a1, a2, b obs
	tv1, n1 := tq(t1)
	tv2, n2 := tq(t2)
	ordered := !tv1.After(tv2)
	if rel {
		c.Class = "compose-relation"
		c.Int(1)
		encTime(c, tv1)
		encTime(c, tv2)
		encMembers(c, ms)
		encUpdates(c, us)
		r := cloneRel(ms, us)
		a1 = applyRel(r, tv1)
		a1.Members = append(osm.Members(nil), a1.Members...)
		a2 = obs{Status: 3}
		if a1.Status == 0 {
			a2 = applyRel(r, tv2)
		}
		b = applyRel(cloneRel(ms, us), tv2)
	} else {
		c.Int(0)
		encTime(c, tv1)
		encTime(c, tv2)
		encNodes(c, ns)
		encUpdates(c, us)
		w := cloneWay(ns, us)
		a1 = applyWay(w, tv1)
		a1.Nodes = append(osm.WayNodes(nil), a1.Nodes...)
		a2 = obs{Status: 3}
		if a1.Status == 0 {
			a2 = applyWay(w, tv2)
		}
		b = applyWay(cloneWay(ns, us), tv2)
	}
	if mut != nil {
		mut(&b)
	}
	a1.enc(c, rel)
	a2.enc(c, rel)
	b.enc(c, rel)
	if mut == nil && perIndexSorted(us) && ordered && a1.Status == 0 && !sameObs(a2, b, rel) {
		c.OracleFail = "apply up to t1 then t2 differs from applying up to t2 directly"
	}
	d := map[string]interface{}{"op": "ApplyUpdatesUpTo(t1) then (t2) versus (t2) on a copy", "t1": relTime(tv1), "t2": relTime(tv2), "t_representations": []string{n1, n2},
		"updates": descUpdates(us), "per_index_time_sorted": perIndexSorted(us),
		"after_t1": a1.desc(rel), "then_t2": a2.desc(rel), "direct_t2": b.desc(rel)}
	if rel {
		d["members"] = descMembers(ms)
	} else {
		d["nodes"] = descNodes(ns)
	}
	c.Desc = d
	c.Trivial = len(us) == 0
	return c
}

func annotated(n osm.WayNode) bool { return n.Version != 0 || n.Lon != 0 || n.Lat != 0 }

// lsatHyp: "fully annotated" read at time t (Spec.annotated_at): the stored way is fully annotated,
// every due update names an existing node, and the way with the due updates applied is still
// fully annotated (applied = the nodes of a copy after a successful ApplyUpdatesUpTo)
func lsatHyp(tv time.Time, ns osm.WayNodes, us osm.Updates, applied osm.WayNodes, applyOK bool) bool {
	for _, n := range ns {
		if !annotated(n) {
			return false
		}
	}
	for _, u := range us {
		if u.Timestamp.After(tv) {
			continue
		}
		if u.Index < 0 || u.Index >= len(ns) {
			return false
		}
	}
	if !applyOK {
		return false
	}
	for _, n := range applied {
		if !annotated(n) {
			return false
		}
	}
	return true
}

func lineStringAt(w *osm.Way, t time.Time) (ls orb.LineString, panicked bool) {
	defer func() {
		if recover() != nil {
			ls, panicked = nil, true
		}
	}()
	return w.LineStringAt(t), false
}

// lsatCase: tag 4.
func lsatCase(t int64, ns osm.WayNodes, us osm.Updates, mut func(*orb.LineString)) *wire.Case {
	c := &wire.Case{Class: "linestring-at"}
	tv, tname := tq(t)
	c.Int(4)
	encTime(c, tv)
	encNodes(c, ns)
	encUpdates(c, us)
	w := cloneWay(ns, us)
	at, panicked := lineStringAt(w, tv)
	at = append(orb.LineString(nil), at...)
	// the query must not modify the way
	unchanged := sameObs(obs{Nodes: w.Nodes, Updates: w.Updates}, obs{Nodes: ns, Updates: us}, false)
	cp := cloneWay(ns, us)
	o := applyWay(cp, tv)
	ls := cp.LineString()
	if mut != nil {
		mut(&at)
	}
	c.Bool(panicked)
	encPoints(c, at)
	c.Int(int64(o.Status))
	encPoints(c, ls)
	// the queried way afterwards (the query must not modify it; judged in Coq too)
	encNodes(c, w.Nodes)
	encUpdates(c, w.Updates)
	hyp := lsatHyp(tv, ns, us, cp.Nodes, o.Status == 0)
	if mut == nil && hyp {
		same := !panicked && o.Status == 0 && len(at) == len(ls)
		for i := 0; same && i < len(at); i++ {
			same = at[i] == ls[i]
		}
		if !same {
			c.OracleFail = "LineStringAt(t) differs from LineString() of a copy with updates applied up to t"
		}
	}
	if mut == nil && !unchanged {
		c.OracleFail = "LineStringAt modified the way"
	}
	c.Trivial = !hyp || len(us) == 0
	c.Desc = map[string]interface{}{"op": "LineStringAt(t) versus ApplyUpdatesUpTo(t)+LineString() on a copy", "t": relTime(tv), "t_representation": tname, "element_timestamp": relTime(wayStamp),
		"nodes": descNodes(ns), "updates": descUpdates(us), "hypotheses_hold": hyp,
		"LineStringAt": descPoints(at), "LineStringAt_panicked": panicked, "apply_status": o.Status, "applied_LineString": descPoints(ls)}
	return c
}

// uptoCase: tag 5.
func uptoCase(t int64, us osm.Updates, mut func(*osm.Updates)) *wire.Case {
	c := &wire.Case{Class: "upto"}
	tv, tname := tq(t)
	c.Int(5)
	encTime(c, tv)
	encUpdates(c, us)
	in := cloneUpdates(us)
	out := in.UpTo(tv)
	if mut != nil {
		mut(&out)
	}
	encUpdates(c, out)
	c.Desc = map[string]interface{}{"op": "Updates.UpTo", "t": relTime(tv), "t_representation": tname, "updates": descUpdates(us), "observed": descUpdates(out)}
	c.Trivial = len(us) == 0
	return c
}

// sortCase: tag 6.
func sortCase(which int, us osm.Updates, mut func(osm.Updates)) *wire.Case {
	c := &wire.Case{Class: []string{"sort-timestamp", "sort-index"}[which]}
	c.Int(6).Int(int64(which))
	encUpdates(c, us)
	out := cloneUpdates(us)
	if which == 0 {
		out.SortByTimestamp()
	} else {
		out.SortByIndex()
	}
	if mut != nil {
		mut(out)
	}
	encUpdates(c, out)
	c.Desc = map[string]interface{}{"op": []string{"SortByTimestamp", "SortByIndex"}[which], "updates": descUpdates(us), "observed": descUpdates(out)}
	c.Trivial = len(us) < 2
	return c
}

type gway struct {
	id int64
	ns osm.WayNodes
	us osm.Updates
}

func group(ms osm.Members, ways map[osm.WayID]*osm.Way, at time.Time) (o, i []osmgeojson.VerifC15Segment, tainted, panicked bool) {
	defer func() {
		if recover() != nil {
			o, i, tainted, panicked = nil, nil, false, true
		}
	}()
	o, i, tainted = osmgeojson.VerifC15Group(ms, ways, at)
	return
}

// groupCase: tag 7.
func groupCase(at int64, ms osm.Members, ws []gway, mut func(o, i []osmgeojson.VerifC15Segment)) *wire.Case {
	c := &wire.Case{Class: "group"}
	atv, atname := tq(at)
	c.Int(7)
	encTime(c, atv)
	encMembers(c, ms)
	c.Len(len(ws))
	ways := map[osm.WayID]*osm.Way{}
	var dw []interface{}
	for _, w := range ws {
		c.Int(w.id)
		encNodes(c, w.ns)
		encUpdates(c, w.us)
		x := cloneWay(w.ns, w.us)
		x.ID = osm.WayID(w.id)
		ways[x.ID] = x
		dw = append(dw, map[string]interface{}{"id": w.id, "nodes": descNodes(w.ns), "updates": descUpdates(w.us)})
	}
	outer, inner, tainted, panicked := group(append(osm.Members(nil), ms...), ways, atv)
	if mut != nil {
		mut(outer, inner)
	}
	c.Bool(panicked)
	var dsegs [2][]interface{}
	for k, ss := range [][]osmgeojson.VerifC15Segment{outer, inner} {
		c.Len(len(ss))
		for _, s := range ss {
			c.Int(int64(s.Index)).Int(int64(s.Orientation)).Bool(s.Reversed)
			encPoints(c, s.Line)
			dsegs[k] = append(dsegs[k], map[string]interface{}{"member_index": s.Index, "orientation": int(s.Orientation), "reversed": s.Reversed, "line": descPoints(s.Line)})
		}
	}
	c.Bool(tainted)
	c.Desc = map[string]interface{}{"op": "mputil.Group", "at": relTime(atv), "at_representation": atname, "members": descMembers(ms), "ways": dw,
		"outer": dsegs[0], "inner": dsegs[1], "tainted": tainted, "panicked": panicked}
	c.Trivial = len(outer)+len(inner) == 0
	return c
}

// ---------- generators ----------

type gen struct {
	rng *rand.Rand
	w   *wire.Writer
}

// ck is the exact integer under which a coordinate travels to Coq: the IEEE-754 magnitude bits with
// the sign in front (injective on finite floats up to the sign of zero; both zeros are 0, as Go's
// v == 0).  The model copies coordinates and tests them for zero, nothing else.
func ck(f float64) int64 {
	if math.IsNaN(f) || math.IsInf(f, 0) {
		panic("coordinate outside the domain")
	}
	m := int64(math.Float64bits(f) &^ (1 << 63))
	if math.Signbit(f) {
		return -m
	}
	return m
}

// coordinates: zero, small integers, values with at most 7 decimals (what OSM stores) and values
// with a full float64 mantissa (1/3, 0.1+0.2, the float64 neighbours of 7-decimal values, random)
func (g *gen) coord() float64 {
	switch k := g.rng.Intn(12); {
	case k < 2:
		return 0
	case k < 7:
		return float64(g.rng.Intn(101) - 50)
	case k == 7:
		return float64(g.rng.Intn(1800000000)-900000000) / 1e7
	case k == 8:
		return []float64{1.0 / 3, 0.1 + 0.2, -2.0 / 3, 13.400000000000002, 1e-9, -1e-8, 52.51631375}[g.rng.Intn(7)]
	case k == 9:
		v := float64(g.rng.Intn(1800000000)-900000000) / 1e7
		if g.rng.Intn(2) == 0 {
			return math.Nextafter(v, 200)
		}
		return math.Nextafter(v, -200)
	default:
		return g.rng.Float64()*180 - 90
	}
}

// stamps: a small pool so that equal timestamps and +-1ns neighbours occur
func (g *gen) stampPool() []int64 {
	n := 1 + g.rng.Intn(6)
	p := make([]int64, n)
	for i := range p {
		switch g.rng.Intn(4) {
		case 0:
			p[i] = base + int64(g.rng.Intn(5)) // 1 ns apart
		case 1:
			p[i] = base + int64(g.rng.Intn(10))*1e9
		default:
			p[i] = base + g.rng.Int63n(1e12) - 5e11
		}
	}
	return p
}

func (g *gen) pickT(pool []int64) int64 {
	mn, mx := pool[0], pool[0]
	for _, x := range pool {
		if x < mn {
			mn = x
		}
		if x > mx {
			mx = x
		}
	}
	switch g.rng.Intn(8) {
	case 0:
		g.w.Count("t:before-all")
		return mn - 1 - g.rng.Int63n(1e9)
	case 1:
		g.w.Count("t:after-all")
		return mx + 1 + g.rng.Int63n(1e9)
	case 2:
		g.w.Count("t:stamp-1ns")
		return pool[g.rng.Intn(len(pool))] - 1
	case 3:
		g.w.Count("t:stamp+1ns")
		return pool[g.rng.Intn(len(pool))] + 1
	default:
		g.w.Count("t:stamp")
		return pool[g.rng.Intn(len(pool))]
	}
}

func (g *gen) nodes(n int, fully bool) osm.WayNodes {
	ns := make(osm.WayNodes, n)
	for i := range ns {
		ns[i] = osm.WayNode{ID: osm.NodeID(100 + g.rng.Intn(20)), Version: g.rng.Intn(4), ChangesetID: osm.ChangesetID(g.rng.Intn(50)), Lat: g.coord(), Lon: g.coord()}
		if fully && !annotated(ns[i]) {
			ns[i].Version = 1 + g.rng.Intn(3)
		}
		if !fully && g.rng.Intn(4) == 0 {
			ns[i] = osm.WayNode{ID: ns[i].ID} // not annotated at all
		}
	}
	return ns
}

func (g *gen) members(n int) osm.Members {
	ms := make(osm.Members, n)
	for i := range ms {
		ty := types[g.rng.Intn(3)]
		if g.rng.Intn(2) == 0 {
			ty = osm.TypeWay
		}
		ms[i] = osm.Member{Type: ty, Ref: int64(1 + g.rng.Intn(30)), Role: roles[g.rng.Intn(len(roles))],
			Version: g.rng.Intn(4), ChangesetID: osm.ChangesetID(g.rng.Intn(50)), Lat: g.coord(), Lon: g.coord(),
			Orientation: orb.Orientation(g.rng.Intn(3) - 1)}
		// the node path of a member (overpass `out geom`): every field of every node set; also empty
		if k := g.rng.Intn(6); k < 2 || (ty == osm.TypeWay && k < 4) {
			path := make(osm.WayNodes, g.rng.Intn(4))
			for j := range path {
				path[j] = osm.WayNode{ID: osm.NodeID(1 + g.rng.Intn(90)), Version: 1 + g.rng.Intn(5),
					ChangesetID: osm.ChangesetID(1 + g.rng.Intn(50)), Lat: g.coord(), Lon: g.coord()}
			}
			ms[i].Nodes = path
		}
	}
	return ms
}

// updates for n children. order: 0 index-sorted (as annotation produces), 1 time-sorted, 2 shuffled.
// oob: 0 none, 1 some index >= n, 2 some negative index.
func (g *gen) updates(n, m int, pool []int64, order int, annotatedOnly bool, oob int) osm.Updates {
	us := make(osm.Updates, 0, m)
	for k := 0; k < m; k++ {
		idx := 0
		if n > 0 {
			idx = g.rng.Intn(n)
			if g.rng.Intn(3) == 0 {
				idx = g.rng.Intn(1 + n/2) // concentrate: several updates per child
			}
		} else {
			oob = 1
		}
		stamp := ts(pool[g.rng.Intn(len(pool))])
		if g.rng.Intn(2) == 0 {
			stamp = tsRepr(stamp.UnixNano(), 1+g.rng.Intn(4))
			g.w.Count("stamp:non-UTC-representation")
		}
		u := osm.Update{Index: idx, Version: g.rng.Intn(6), Timestamp: stamp,
			ChangesetID: osm.ChangesetID(g.rng.Intn(50)), Lat: g.coord(), Lon: g.coord(), Reverse: g.rng.Intn(3) == 0}
		if annotatedOnly && u.Version == 0 && u.Lat == 0 && u.Lon == 0 {
			u.Version = 1 + g.rng.Intn(5)
		}
		us = append(us, u)
	}
	if len(us) > 0 && oob == 1 {
		for k := 1 + g.rng.Intn(2); k > 0; k-- {
			us[g.rng.Intn(len(us))].Index = n + g.rng.Intn(3)
		}
	}
	if len(us) > 0 && oob == 2 {
		us[g.rng.Intn(len(us))].Index = -1 - g.rng.Intn(2)
	}
	switch order {
	case 0:
		sort.SliceStable(us, func(i, j int) bool {
			if us[i].Index != us[j].Index {
				return us[i].Index < us[j].Index
			}
			return us[i].Timestamp.Before(us[j].Timestamp)
		})
	case 1:
		sort.SliceStable(us, func(i, j int) bool { return us[i].Timestamp.Before(us[j].Timestamp) })
	default:
		g.rng.Shuffle(len(us), func(i, j int) { us[i], us[j] = us[j], us[i] })
	}
	return us
}

// meta sets Timestamp / Committed of the elements of the next cases: absent, or around the
// update stamps (earlier, equal, later than some of them), Committed sometimes 45 s later
func (g *gen) meta(pool []int64) {
	wayStamp, wayCommitted = time.Time{}, nil
	switch g.rng.Intn(4) {
	case 0:
		return
	case 1:
		wayStamp = ts(pool[g.rng.Intn(len(pool))])
		g.w.Count("element-timestamp:equal-to-a-stamp")
	case 2:
		wayStamp = ts(pool[g.rng.Intn(len(pool))] + 1 + g.rng.Int63n(1e10))
		g.w.Count("element-timestamp:after-a-stamp")
	default:
		wayStamp = ts(pool[g.rng.Intn(len(pool))] - 1 - g.rng.Int63n(1e10))
		g.w.Count("element-timestamp:before-a-stamp")
	}
	if g.rng.Intn(3) == 0 {
		c := wayStamp.Add(45 * time.Second)
		wayCommitted = &c
		g.w.Count("element-committed:set")
	}
}

// instants outside 1677..2262 (UnixNano wraps there), the zero time.Time, and ordinary ones
var farInstants = []time.Time{
	{}, // year 1
	time.Date(1600, 1, 1, 0, 0, 0, 0, time.UTC),
	time.Date(1677, 9, 21, 0, 12, 43, 145224192, time.UTC), // MinInt64 ns
	time.Date(1969, 12, 31, 23, 59, 59, 999999999, time.UTC),
	time.Unix(0, 0).UTC(),
	time.Unix(0, base).UTC(),
	time.Date(2262, 4, 11, 23, 47, 16, 854775807, time.UTC), // MaxInt64 ns
	time.Date(2262, 4, 11, 23, 47, 16, 854775808, time.UTC),
	time.Date(2300, 1, 1, 0, 0, 0, 0, time.UTC),
	time.Unix(1<<40, 0).UTC(),
	time.Date(9999, 12, 31, 23, 59, 59, 999999999, time.UTC),
}

var orderName = []string{"index-sorted", "time-sorted", "shuffled"}

func (g *gen) sizes() (n, m int) {
	n = g.rng.Intn(9)
	switch g.rng.Intn(10) {
	case 0:
		m = 0
	case 1:
		m = 13 + g.rng.Intn(18) // up to 30
	default:
		m = 1 + g.rng.Intn(12)
	}
	return
}

func (g *gen) oob() int {
	switch x := g.rng.Intn(100); {
	case x < 12:
		g.w.Count("index:beyond-list")
		return 1
	case x < 15:
		g.w.Count("index:negative")
		return 2
	}
	g.w.Count("index:in-range")
	return 0
}

func main() {
	a := wire.ParseArgs()
	rng := wire.Rng(a.Seed)
	w := wire.NewWriter("C15", a.Seed, a.Tier)
	g := &gen{rng: rng, w: w}
	w.Rule = "coordinates of nodes, members and updates: zero, small integers, 7-decimal values and full-mantissa float64 (1/3, 0.1+0.2, float neighbours of 7-decimal values, random), carried exactly (sign + IEEE bits); ways/relations of 0-8 children with 0-30 updates drawn over a small pool of timestamps (equal stamps, 1 ns neighbours), stored index-sorted / time-sorted / shuffled, indices beyond the list (12%) and negative (3%), t from {a stamp, stamp+-1ns, before all, after all}; query times and half of the update stamps are carried by time.Time values in other representations of the same instant (two fixed zones, Local, a monotonic clock reading); compose cases use t1<=t2 (and some t1>t2); the elements carry a Timestamp / Committed before, at or after update stamps (or none); every apply runs on an ordinary copy (cp := *w, cloned children, SHARED update list) and the original's list must stay as it was; after an index error the update list must be unchanged; a far-instants class uses the zero time, 1600, the int64-ns limits, 2300, Unix(2^40), 9999-12-31 for stamps and query times (times travel as seconds + nanoseconds); geometry cases are mostly fully annotated (hypotheses hold). distinct = distinct token streams; trivial = no updates / hypotheses of the agreement theorem not met / <2 elements to sort / no segment."
	nApply, nCompose, nLsat, nUpto, nSort, nGroup := 220, 220, 320, 50, 80, 90
	nFar := 100
	if a.Tier == "thorough" {
		nApply, nCompose, nLsat, nUpto, nSort, nGroup = 4000, 4000, 6000, 500, 1000, 1500
		nFar = 2000
	}
	sc := func(x int) int { return int(float64(x) * a.Scale) }

	// 0. fixed corpus (minimised past failures run first)
	{
		// index-sorted list whose first update is too late: LineStringAt stopped there (way.go, `break`)
		ns := osm.WayNodes{{ID: 1, Version: 1, Lat: 1, Lon: 1}, {ID: 2, Version: 1, Lat: 2, Lon: 2}}
		us := osm.Updates{{Index: 0, Version: 2, Timestamp: ts(base + 200), Lat: 10, Lon: 10}, {Index: 1, Version: 2, Timestamp: ts(base + 100), Lat: 20, Lon: 20}}
		c := lsatCase(base+150, ns, us, nil)
		c.Class = "corpus"
		w.Add(c)
		// three updates of one child, stored newest first: last in stored order wins
		us2 := osm.Updates{{Index: 1, Version: 4, Timestamp: ts(base + 30), Lat: 4, Lon: 4}, {Index: 1, Version: 3, Timestamp: ts(base + 20), Lat: 3, Lon: 3}, {Index: 1, Version: 2, Timestamp: ts(base + 10), Lat: 2, Lon: 2}}
		c = applyCase(false, base+25, ns, nil, us2, nil)
		c.Class = "corpus"
		w.Add(c)
		c = lsatCase(base+25, ns, us2, nil)
		c.Class = "corpus"
		w.Add(c)
		// index == len: error, nothing beyond the list
		us3 := osm.Updates{{Index: 0, Version: 2, Timestamp: ts(base + 1)}, {Index: 2, Version: 2, Timestamp: ts(base + 1)}, {Index: 1, Version: 9, Timestamp: ts(base + 1)}}
		c = applyCase(false, base+1, ns, nil, us3, nil)
		c.Class = "corpus"
		w.Add(c)
		// double reverse on a relation member
		ms := osm.Members{{Type: osm.TypeWay, Ref: 5, Role: "outer", Version: 1, Orientation: orb.CW}}
		us4 := osm.Updates{{Index: 0, Version: 2, Timestamp: ts(base + 1), Reverse: true}, {Index: 0, Version: 3, Timestamp: ts(base + 2), Reverse: true}, {Index: 0, Version: 4, Timestamp: ts(base + 3), Reverse: true}}
		for _, t := range []int64{base, base + 1, base + 2, base + 3} {
			c = applyCase(true, t, nil, ms, us4, nil)
			c.Class = "corpus"
			w.Add(c)
		}
	}

	{
		// a due update that zeroes version and location: the applied copy is no longer fully
		// annotated (LineString drops the node, LineStringAt keeps (0,0)); the agreement is not
		// demanded there (C15_line_string_at_zero_update_hypothesis_needed), model = implementation is
		ns := osm.WayNodes{{ID: 1, Version: 1, Lat: 1, Lon: 1}}
		us := osm.Updates{{Index: 0, Version: 0, Timestamp: ts(base + 5)}}
		c := lsatCase(base+10, ns, us, nil)
		c.Class = "corpus"
		w.Add(c)
		// ... unless a later update of the same node annotates it again
		us = append(us, osm.Update{Index: 0, Version: 3, Timestamp: ts(base + 6), Lat: 4, Lon: 4})
		c = lsatCase(base+10, ns, us, nil)
		c.Class = "corpus"
		w.Add(c)
	}
	{
		// inclusive boundary is about instants: t equal to the stamp in each representation
		ns := osm.WayNodes{{ID: 1, Version: 1, Lat: 1, Lon: 1}, {ID: 2, Version: 1, Lat: 2, Lon: 2}}
		ms := osm.Members{{Type: osm.TypeWay, Ref: 5, Role: "outer", Version: 1, Orientation: orb.CW}}
		for m := 0; m < 2*len(reprNames); m++ {
			us := osm.Updates{{Index: 0, Version: 2, Timestamp: tsRepr(base+100, m/2), Lat: 10, Lon: 10}}
			for _, c := range []*wire.Case{applyCase(false, base+100, ns, nil, us, nil), applyCase(true, base+100, nil, ms, us, nil),
				uptoCase(base+100, us, nil), lsatCase(base+100, ns, us, nil)} {
				c.Class = "corpus"
				w.Add(c)
			}
		}
	}

	// 1./2. apply
	for i := 0; i < sc(nApply)*2; i++ {
		rel := i%2 == 1
		n, m := g.sizes()
		pool := g.stampPool()
		order := rng.Intn(3)
		w.Count("order:" + orderName[order])
		us := g.updates(n, m, pool, order, false, g.oob())
		t := g.pickT(pool)
		g.meta(pool)
		var c *wire.Case
		if rel {
			ms := g.members(n)
			reverseOnlyWays(us, ms)
			c = applyCase(true, t, nil, ms, us, nil)
		} else {
			c = applyCase(false, t, g.nodes(n, false), nil, us, nil)
		}
		c.Trivial = m == 0
		w.Count(fmt.Sprintf("children:%d", n))
		w.Add(c)
	}
	// 3. compose
	for i := 0; i < sc(nCompose); i++ {
		rel := i%2 == 1
		n, m := g.sizes()
		pool := g.stampPool()
		order := rng.Intn(3)
		oob := 0
		if rng.Intn(8) == 0 {
			oob = 1
		}
		us := g.updates(n, m, pool, order, false, oob)
		if order == 2 && rng.Intn(2) == 0 {
			// shuffled but per-index time-sorted: stable sort by time, then interleave indices randomly
			sort.SliceStable(us, func(i, j int) bool { return us[i].Timestamp.Before(us[j].Timestamp) })
			us = interleaveByIndex(rng, us)
		}
		t1, t2 := g.pickT(pool), g.pickT(pool)
		if t1 > t2 && rng.Intn(6) != 0 {
			t1, t2 = t2, t1
		}
		g.meta(pool)
		var c *wire.Case
		if rel {
			ms := g.members(n)
			reverseOnlyWays(us, ms)
			c = composeCase(true, t1, t2, nil, ms, us, nil)
		} else {
			c = composeCase(false, t1, t2, g.nodes(n, false), nil, us, nil)
		}
		if perIndexSorted(us) {
			w.Count("compose:per-index-sorted")
		} else {
			w.Count("compose:not-per-index-sorted")
		}
		w.Add(c)
	}
	// 4. geometry at time
	for i := 0; i < sc(nLsat); i++ {
		n, m := g.sizes()
		pool := g.stampPool()
		order := rng.Intn(3)
		fully := rng.Intn(5) != 0
		oob := 0
		if !fully {
			oob = g.oob()
		}
		ns := g.nodes(n, fully)
		us := g.updates(n, m, pool, order, fully, oob)
		if n == 0 && fully {
			us = nil
		}
		g.meta(pool)
		c := lsatCase(g.pickT(pool), ns, us, nil)
		w.Count("lsat-order:" + orderName[order])
		if !c.Trivial {
			w.Count("lsat:hypotheses-hold")
		} else if len(us) > 0 {
			w.Count("lsat:hypotheses-fail (agreement not demanded)")
		}
		w.Add(c)
	}
	wayStamp, wayCommitted = time.Time{}, nil
	// 4b. instants outside the int64 nanosecond range, the zero time, epoch neighbours
	for i := 0; i < sc(nFar); i++ {
		n := 1 + rng.Intn(4)
		m := 1 + rng.Intn(6)
		us := make(osm.Updates, m)
		for k := range us {
			us[k] = osm.Update{Index: rng.Intn(n), Version: 1 + rng.Intn(5), Timestamp: farInstants[rng.Intn(len(farInstants))],
				ChangesetID: osm.ChangesetID(rng.Intn(50)), Lat: g.coord(), Lon: g.coord(), Reverse: rng.Intn(3) == 0}
		}
		if rng.Intn(2) == 0 {
			sort.SliceStable(us, func(a, b int) bool { return us[a].Timestamp.Before(us[b].Timestamp) })
		}
		t := far(2*i, farInstants[rng.Intn(len(farInstants))])
		t2 := far(2*i+1, farInstants[rng.Intn(len(farInstants))])
		if farTimes[t].After(farTimes[t2]) {
			t, t2 = t2, t
		}
		var c *wire.Case
		switch i % 5 {
		case 0:
			c = applyCase(false, t, g.nodes(n, true), nil, us, nil)
		case 1:
			ms := g.members(n)
			reverseOnlyWays(us, ms)
			c = applyCase(true, t, nil, ms, us, nil)
		case 2:
			c = uptoCase(t, us, nil)
		case 3:
			c = lsatCase(t, g.nodes(n, true), us, nil)
		default:
			c = composeCase(false, t, t2, g.nodes(n, true), nil, us, nil)
		}
		c.Class = "far-instants"
		c.Trivial = false
		w.Add(c)
	}
	// 5. UpTo
	for i := 0; i < sc(nUpto); i++ {
		_, m := g.sizes()
		pool := g.stampPool()
		us := g.updates(5, m, pool, rng.Intn(3), false, 0)
		w.Add(uptoCase(g.pickT(pool), us, nil))
	}
	// 6. sorts
	for i := 0; i < sc(nSort); i++ {
		_, m := g.sizes()
		if i%5 == 0 {
			m = 13 + rng.Intn(30) // beyond sort.Sort's insertion-sort threshold
		}
		pool := g.stampPool()
		us := g.updates(6, m, pool, 2, false, 0)
		w.Add(sortCase(i%2, us, nil))
	}
	// 7. consumer
	for i := 0; i < sc(nGroup); i++ {
		pool := g.stampPool()
		nw := 1 + rng.Intn(3)
		var ws []gway
		for k := 0; k < nw; k++ {
			n, m := 1+rng.Intn(5), rng.Intn(7)
			if rng.Intn(8) == 0 {
				n = 0
			}
			fully := rng.Intn(6) != 0
			us := g.updates(n, m, pool, rng.Intn(3), fully, 0)
			if n == 0 {
				us = nil
			}
			ws = append(ws, gway{id: int64(k + 1), ns: g.nodes(n, fully), us: us})
		}
		ms := g.members(rng.Intn(6))
		for k := range ms {
			if rng.Intn(4) != 0 {
				ms[k].Type = osm.TypeWay
				ms[k].Ref = int64(1 + rng.Intn(nw+1)) // nw+1 is missing from the map
				ms[k].Role = roles[rng.Intn(3)]
			}
		}
		g.meta(pool)
		w.Add(groupCase(g.pickT(pool), ms, ws, nil))
	}
	wayStamp, wayCommitted = time.Time{}, nil

	// canaries: one corrupted observation per observable class
	{
		ns := osm.WayNodes{{ID: 1, Version: 1, Lat: 1, Lon: 1}, {ID: 2, Version: 1, Lat: 2, Lon: 2}, {ID: 3, Version: 2, Lat: 3, Lon: 3}}
		ms := osm.Members{{Type: osm.TypeWay, Ref: 1, Role: "outer", Version: 1, Orientation: orb.CW,
			Nodes: osm.WayNodes{{ID: 7, Version: 2, ChangesetID: 3, Lat: 4, Lon: 5}, {ID: 8, Version: 1, ChangesetID: 2, Lat: 6, Lon: 7}}},
			{Type: osm.TypeNode, Ref: 2, Role: "", Version: 1, Lat: 5, Lon: 6}}
		us := osm.Updates{
			{Index: 1, Version: 2, Timestamp: ts(base + 10), ChangesetID: 3, Lat: 20, Lon: 21},
			{Index: 0, Version: 3, Timestamp: ts(base + 30), ChangesetID: 4, Lat: 30, Lon: 31, Reverse: true},
			{Index: 1, Version: 4, Timestamp: ts(base + 40), ChangesetID: 5, Lat: 40, Lon: 41},
			{Index: 0, Version: 5, Timestamp: ts(base + 50), ChangesetID: 6, Lat: 50, Lon: 51},
		}
		oobUs := osm.Updates{{Index: 3, Version: 2, Timestamp: ts(base + 10)}}
		cans := []*wire.Case{
			applyCase(false, base+20, ns, nil, us, func(o *obs) { o.Nodes[1].Version++ }),                                    // child field
			applyCase(false, base+20, ns, nil, us, func(o *obs) { o.Nodes[2].Lat++ }),                                        // untouched child
			applyCase(false, base+20, ns, nil, us, func(o *obs) { o.Updates[0], o.Updates[1] = o.Updates[1], o.Updates[0] }), // pending order
			applyCase(false, base+20, ns, nil, oobUs, func(o *obs) { o.Idx++ }),                                              // error index
			applyCase(false, base+20, ns, nil, oobUs, func(o *obs) { o.Status = 0 }),                                         // error swallowed
			applyCase(true, base+35, nil, ms, us, func(o *obs) { o.Members[0].Orientation *= -1 }),                           // orientation flip
			applyCase(true, base+35, nil, ms, us, func(o *obs) { o.Members[1].ChangesetID++ }),                               // member field
			applyCase(true, base+35, nil, ms, us, func(o *obs) { o.Members[0].Nodes = nil }),                                 // node path of a member lost
			composeCase(false, base+20, base+45, ns, nil, us, func(o *obs) { o.Nodes[1].Lon++ }),                             // compose
			lsatCase(base+45, ns, us, func(l *orb.LineString) { (*l)[1][0]++ }),                                              // geometry point
			lsatCase(base+45, ns, us, func(l *orb.LineString) { *l = (*l)[:2] }),                                             // geometry length
			uptoCase(base+30, us, func(l *osm.Updates) { *l = (*l)[1:] }),                                                    // UpTo drops one
			sortCase(0, us, func(l osm.Updates) { l[0], l[3] = l[3], l[0] }),                                                 // not sorted
			sortCase(1, us, func(l osm.Updates) { l[1] = l[0] }),                                                             // not a permutation
			groupCase(base+45, ms, []gway{{1, ns, us}}, func(o, i []osmgeojson.VerifC15Segment) { o[0].Reversed = !o[0].Reversed }),
			groupCase(base+45, ms, []gway{{1, ns, us}}, func(o, i []osmgeojson.VerifC15Segment) { o[0].Line[0][1] += 7 }),
		}
		// the original's update list after applying on a copy / the way after a query: corrupt the
		// last transported update (its reverse flag is the last token)
		ca := applyCase(false, base+20, ns, nil, us, nil)
		ca.Toks[len(ca.Toks)-1] ^= 2
		cl := lsatCase(base+45, ns, us, nil)
		cl.Toks[len(cl.Toks)-1] ^= 2
		cans = append(cans, ca, cl)
		for _, c := range cans {
			c.Canary = 1
			c.Class = ""
			c.OracleFail = ""
			w.Add(c)
		}
	}
	if err := w.Flush(a.Out, "Verif.C15.Check", 300); err != nil {
		fmt.Fprintln(os.Stderr, err)
		os.Exit(1)
	}
}

// reverseOnlyWays clears the reverse flag of updates that do not name a way member: the property
// (and annotation) know orientation flips for reversed way members only.
func reverseOnlyWays(us osm.Updates, ms osm.Members) {
	for i := range us {
		k := us[i].Index
		if k < 0 || k >= len(ms) || ms[k].Type != osm.TypeWay {
			us[i].Reverse = false
		}
	}
}

// interleaveByIndex keeps the relative order of updates of the same index and mixes different
// indices randomly (so the list is per-index time-sorted but neither globally time- nor index-sorted).
func interleaveByIndex(rng *rand.Rand, us osm.Updates) osm.Updates {
	by := map[int][]osm.Update{}
	var keys []int
	for _, u := range us {
		if _, ok := by[u.Index]; !ok {
			keys = append(keys, u.Index)
		}
		by[u.Index] = append(by[u.Index], u)
	}
	out := make(osm.Updates, 0, len(us))
	for len(keys) > 0 {
		k := rng.Intn(len(keys))
		q := by[keys[k]]
		out = append(out, q[0])
		if len(q) == 1 {
			keys = append(keys[:k], keys[k+1:]...)
		} else {
			by[keys[k]] = q[1:]
		}
	}
	return out
}
