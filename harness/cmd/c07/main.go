// Harness for C07: Close and cancellation stop PBF/XML scans promptly, cleanly and race-free.
//
// Case layouts (first token = tag, via Int):
//
//	tag 1 (PBF history): procs resume items* mode calls* rac hdrLate leaked
//	   items: kind(0 block n | 1 bad | 2 rderr code) ; calls: (code, a, b)
//	   call codes: 0 Scan -> (ok,id)  1 Header -> (err,0)  2 Err -> (err,0)  3 Close -> (0,0)
//	               4 Cancel (scanning goroutine) -> (0,0)  5 Cancel3 marker (another goroutine
//	               cancelled; the scanning goroutine has seen the completion flag) -> (0,0)
//	   mode 0: every stop is issued by the scanning goroutine (outputs are schedule independent and
//	           compared with the model's run); mode 1: cancellation from another goroutine.
//	tag 2 (XML history): nobjs calls*      (sequential scanner; same call codes, ids are 1..nobjs)
package main

import (
	"bytes"
	"context"
	"fmt"
	"io"
	"math/rand"
	"os"
	"sync"
	"sync/atomic"
	"time"

	"github.com/paulmach/osm"
	"github.com/paulmach/osm/osmpbf"
	"github.com/paulmach/osm/osmxml"

	"verif/harness/pipesup"
	"verif/harness/wire"
)

const (
	cScan = iota
	cHeader
	cErr
	cClose
	cCancel
	cCancel3
)

type call struct {
	Code int   `json:"c"`
	A    int64 `json:"a"`
	B    int64 `json:"b"`
}

type hist struct {
	Procs   int
	File    *pipesup.File
	Mode    int
	CtxKind int   // mode 1: 0 = another goroutine calls cancel, 1 = the context's deadline expires (timer goroutine)
	Plan    []int // planned call codes (cCancel3 in the plan = trigger point for the other goroutine)
	Filter  int   // 0 none, 1 reject all nodes (every block empty), 2 reject odd blocks
	Calls   []call
	Rac     int64 // reader-goroutine block reads started after the internal context was cancelled
	HdrLate int64
	Leaked  int
	Pulled  int64
}

func run(h *hist, seed int64) {
	f := h.File
	ctx, cancel := context.WithCancel(context.Background())
	usesCancel := false
	for _, c := range h.Plan {
		usesCancel = usesCancel || c == cCancel || c == cCancel3
	}
	if !usesCancel && seed%2 == 0 {
		ctx = context.Background() // a long-lived caller context that is never cancelled
	}
	if h.Mode == 1 && h.CtxKind == 1 {
		cancel()
		d := time.Duration(200+rand.New(rand.NewSource(seed)).Intn(2800)) * time.Microsecond
		ctx, cancel = context.WithTimeout(context.Background(), d)
		h.Calls = append(h.Calls, call{6, 0, 0}) // the deadline may expire at any moment from now on
	}
	defer cancel()
	rd := pipesup.NewReader(f)
	var sc *osmpbf.Scanner
	var rac, hdrLate int64
	rd.OnStart = func(idx int, eof bool) {
		if eof && f.Trunc > 0 {
			return // the end of a truncated file lies INSIDE its last block: not the start of a block read
		}
		if sc.VerifPipelineCancelled() {
			if f.Header && idx == 0 {
				atomic.AddInt64(&hdrLate, 1)
			} else {
				atomic.AddInt64(&rac, 1)
			}
		}
	}
	sc = osmpbf.New(ctx, rd, h.Procs)
	switch h.Filter {
	case 1:
		sc.FilterNode = func(n *osm.Node) bool { return false }
		sc.FilterWay = func(w *osm.Way) bool { return false }
	case 2:
		sc.FilterNode = func(n *osm.Node) bool { return (int64(n.ID)/1000)%2 == 0 }
		sc.FilterWay = func(w *osm.Way) bool { return (int64(w.ID)/1000)%2 == 0 }
	}
	var cancelDone int32
	var wg sync.WaitGroup
	markerDone := false
	for _, c := range h.Plan {
		if h.Mode == 1 && h.CtxKind == 1 && ctx.Err() != nil {
			atomic.StoreInt32(&cancelDone, 1)
		}
		if h.Mode == 1 && !markerDone && atomic.LoadInt32(&cancelDone) == 1 {
			h.Calls = append(h.Calls, call{cCancel3, 0, 0})
			markerDone = true
		}
		switch c {
		case cScan:
			ok := sc.Scan()
			var id int64
			if ok {
				id = pipesup.ObjID(sc.Object())
			}
			b := int64(0)
			if ok {
				b = 1
			}
			h.Calls = append(h.Calls, call{cScan, b, id})
		case cHeader:
			_, err := sc.Header()
			h.Calls = append(h.Calls, call{cHeader, pipesup.ErrCode(err), 0})
		case cErr:
			h.Calls = append(h.Calls, call{cErr, pipesup.ErrCode(sc.Err()), 0})
		case cClose:
			sc.Close()
			h.Calls = append(h.Calls, call{cClose, 0, 0})
		case cCancel:
			cancel()
			h.Calls = append(h.Calls, call{cCancel, 0, 0})
		case cCancel3:
			if h.CtxKind == 1 {
				<-ctx.Done() // the deadline (at most 3 ms after New)
				continue
			}
			h.Calls = append(h.Calls, call{6, 0, 0})
			wg.Add(1)
			d := time.Duration(rand.New(rand.NewSource(seed)).Intn(60)) * time.Microsecond
			go func() {
				defer wg.Done()
				if d > 0 {
					time.Sleep(d)
				}
				cancel()
				atomic.StoreInt32(&cancelDone, 1)
			}()
		}
	}
	wg.Wait()
	if h.Mode == 1 && !markerDone {
		h.Calls = append(h.Calls, call{cCancel3, 0, 0})
	}
	h.Leaked = pipesup.WaitNoPipeline(3 * time.Second)
	h.Rac = atomic.LoadInt64(&rac)
	h.HdrLate = atomic.LoadInt64(&hdrLate)
	h.Pulled = atomic.LoadInt64(&rd.Pulled)
}

func genPlan(rng *rand.Rand, total int, mode int) []int {
	var p []int
	if rng.Intn(3) == 0 {
		p = append(p, cHeader)
	}
	k := rng.Intn(total + 3)
	switch rng.Intn(5) {
	case 0:
		k = 0
	case 1:
		k = total + 1 + rng.Intn(2)
	}
	for i := 0; i < k; i++ {
		p = append(p, cScan)
		if rng.Intn(40) == 0 {
			p = append(p, cErr)
		}
	}
	if mode == 1 {
		p = append(p, cCancel3)
		for i := rng.Intn(6) + 1; i > 0; i-- {
			p = append(p, cScan)
		}
	} else {
		switch rng.Intn(7) {
		case 0, 1, 2:
			p = append(p, cClose)
		case 3, 4, 5:
			p = append(p, cCancel)
		default: // no stop here
		}
	}
	for i := rng.Intn(5) + 2; i > 0; i-- {
		p = append(p, []int{cScan, cScan, cErr, cErr, cClose, cHeader, cCancel}[rng.Intn(7)])
	}
	if mode == 1 {
		for i := range p { // no self-cancel in third-party histories (kept separate)
			if p[i] == cCancel {
				p[i] = cErr
			}
		}
	}
	p = append(p, cErr)
	// every history ends closed or cancelled so that the goroutines have to terminate
	stopped := false
	for _, c := range p {
		if c == cClose || c == cCancel || c == cCancel3 {
			stopped = true
		}
	}
	if !stopped {
		p = append(p, cClose, cErr)
	}
	return p
}

func itemsToks(c *wire.Case, f *pipesup.File) {
	c.Len(len(f.Items))
	for b, it := range f.Items {
		switch {
		case f.Trunc > 0 && b == len(f.Items)-1:
			c.Int(2).Int(pipesup.ETrunc)
		case it.Kind == pipesup.KBlock:
			c.Int(0).Int(int64(it.N))
		case it.Kind == pipesup.KForeign: // the reader reports "unexpected fileblock": a read error
			c.Int(2).Int(pipesup.EOther)
		default:
			c.Int(1).Int(pipesup.EOther)
		}
	}
}

func pbfCase(h *hist) *wire.Case {
	n := h.Procs
	if n < 1 {
		n = 1
	}
	c := &wire.Case{Class: fmt.Sprintf("pbf-mode%d", h.Mode)}
	c.Int(1).Int(int64(n)).Bool(!h.File.Header).Int(h.File.StartErr())
	itemsToks(c, h.File)
	c.Int(int64(h.Mode)).Int(int64(h.Filter))
	c.Len(len(h.Calls))
	for _, cl := range h.Calls {
		c.Int(int64(cl.Code)).Int(cl.A).Int(cl.B)
	}
	c.Int(h.Rac).Int(h.HdrLate).Int(int64(h.Leaked))
	c.Desc = map[string]interface{}{"procs": h.Procs, "header": h.File.Header, "items": h.File.Items, "trunc": h.File.Trunc,
		"mode": h.Mode, "ctx_kind": h.CtxKind, "start_fail": h.File.StartFail, "filter": h.Filter, "plan": h.Plan, "calls(code,a,b)": h.Calls,
		"reads_started_after_cancel": h.Rac, "header_read_after_cancel": h.HdrLate, "goroutines_left": h.Leaked,
		"bytes_pulled": h.Pulled, "file_bytes": len(h.File.Bytes), "expected_ids": h.File.Expected()}
	return c
}

// ---- XML scanner (sequential) ----
// xmlDoc: n nodes; bad: followed by a node element whose DecodeElement fails (id is not a number)
// and two more nodes that must never be delivered.
func xmlDoc(n int, bad bool) []byte {
	var b bytes.Buffer
	b.WriteString(`<osm version="0.6">`)
	for i := 1; i <= n; i++ {
		fmt.Fprintf(&b, `<node id="%d" lat="1" lon="2" version="1"/>`, i)
	}
	if bad {
		fmt.Fprintf(&b, `<node id="not-a-number" lat="1" lon="2"/><node id="%d" lat="1" lon="2"/><node id="%d" lat="1" lon="2"/>`, n+1, n+2)
	}
	b.WriteString(`</osm>`)
	return b.Bytes()
}

type cread struct {
	r      *bytes.Reader
	pulled int64
}

func (c *cread) Read(p []byte) (int, error) {
	if len(p) > 64 {
		p = p[:64]
	}
	n, err := c.r.Read(p)
	c.pulled += int64(n)
	return n, err
}

func xmlCase(rng *rand.Rand) *wire.Case {
	n := rng.Intn(60) + 40 // document is several KiB, the decoder buffers 4 KiB at a time
	bad := rng.Intn(4) == 0
	ferr := int64(pipesup.EEOF)
	if bad {
		ferr = pipesup.EOther
	}
	doc := xmlDoc(n, bad)
	ctx, cancel := context.WithCancel(context.Background())
	defer cancel()
	cr := &cread{r: bytes.NewReader(doc)}
	sc := osmxml.New(ctx, cr)
	plan := genPlan(rng, n, 0)
	var calls []call
	var pulledAtStop, pulledEnd int64 = -1, 0
	for _, c := range plan {
		switch c {
		case cScan:
			ok := sc.Scan()
			var id, b int64
			if ok {
				b = 1
				if nd, isn := sc.Object().(*osm.Node); isn {
					id = int64(nd.ID)
				} else {
					id = -1
				}
			}
			calls = append(calls, call{cScan, b, id})
		case cHeader: // no Header in osmxml: an Err call instead
			calls = append(calls, call{cErr, pipesup.ErrCode(sc.Err()), 0})
		case cErr:
			calls = append(calls, call{cErr, pipesup.ErrCode(sc.Err()), 0})
		case cClose:
			sc.Close()
			calls = append(calls, call{cClose, 0, 0})
			if pulledAtStop < 0 {
				pulledAtStop = cr.pulled
			}
		case cCancel:
			cancel()
			calls = append(calls, call{cCancel, 0, 0})
			if pulledAtStop < 0 {
				pulledAtStop = cr.pulled
			}
		}
	}
	pulledEnd = cr.pulled
	extra := int64(0)
	if pulledAtStop >= 0 {
		extra = pulledEnd - pulledAtStop
	}
	c := &wire.Case{Class: "xml"}
	c.Int(2).Int(int64(n)).Int(ferr)
	c.Len(len(calls))
	for _, cl := range calls {
		c.Int(int64(cl.Code)).Int(cl.A).Int(cl.B)
	}
	c.Int(extra)
	if left := pipesup.WaitNoPipeline(500 * time.Millisecond); left != 0 {
		// the XML scanner is sequential: nothing it (or its constructor) started may be alive
		c.OracleFail = fmt.Sprintf("%d goroutine(s) with scanner-package frames alive after the XML history (context not necessarily cancelled)", left)
	}
	c.Desc = map[string]interface{}{"xml_nodes": n, "then_an_element_that_fails_to_decode": bad, "calls(code,a,b)": calls, "bytes_pulled_after_stop": extra, "doc_bytes": len(doc)}
	return c
}

// ---- XML scanner, context cancelled from another goroutine while Scan is running through a long
// run of tokens that yield no object (unknown elements).  The reader hands out small chunks; when
// the byte count passes a threshold inside the run it lets another goroutine cancel the context
// and waits for that to return (deterministic), then counts the Read calls that still follow.
type xreader struct {
	data      []byte
	pos       int
	threshold int
	cancel    func()
	fired     bool
	after     int64 // Read calls that began after the cancel returned
}

func (r *xreader) Read(p []byte) (int, error) {
	if r.fired {
		r.after++
	}
	if !r.fired && r.pos >= r.threshold {
		r.fired = true
		done := make(chan struct{})
		go func() { r.cancel(); close(done) }()
		<-done
	}
	if r.pos >= len(r.data) {
		return 0, io.EOF
	}
	n := 48
	if n > len(p) {
		n = len(p)
	}
	if n > len(r.data)-r.pos {
		n = len(r.data) - r.pos
	}
	copy(p, r.data[r.pos:r.pos+n])
	r.pos += n
	return n, nil
}

func xmlCancelCase(rng *rand.Rand) *wire.Case {
	before := 1 + rng.Intn(4)
	skip := 400 + rng.Intn(800) // unknown elements between two objects (>= 9 KiB)
	afterN := rng.Intn(3)
	var b bytes.Buffer
	b.WriteString(`<osm version="0.6">`)
	for i := 1; i <= before; i++ {
		fmt.Fprintf(&b, `<node id="%d" lat="1" lon="2" version="1"/>`, i)
	}
	runStart := b.Len()
	for i := 0; i < skip; i++ {
		fmt.Fprintf(&b, `<remark n="%d">x</remark>`, i)
	}
	runEnd := b.Len()
	for i := 1; i <= afterN; i++ {
		fmt.Fprintf(&b, `<node id="%d" lat="1" lon="2" version="1"/>`, before+i)
	}
	b.WriteString(`</osm>`)
	doc := b.Bytes()
	ctx, cancel := context.WithCancel(context.Background())
	defer cancel()
	thr := runStart + 4200 + rng.Intn(runEnd-runStart-8400) // well inside the run (the decoder buffers 4 KiB)
	xr := &xreader{data: doc, threshold: thr, cancel: cancel}
	sc := osmxml.New(ctx, xr)
	var ids []int64
	for sc.Scan() {
		id := int64(-1)
		if nd, ok := sc.Object().(*osm.Node); ok {
			id = int64(nd.ID)
		}
		ids = append(ids, id)
	}
	errc := pipesup.ErrCode(sc.Err())
	again := sc.Scan()
	c := &wire.Case{Class: "xml-cancel3"}
	c.Int(3).Int(int64(before)).Int(int64(skip)).Int(int64(afterN))
	c.Ints(ids).Int(errc).Bool(again).Bool(xr.fired).Int(xr.after)
	c.Desc = map[string]interface{}{"nodes_before_run": before, "unknown_elements_in_run": skip, "nodes_after_run": afterN,
		"doc_bytes": len(doc), "cancel_from_other_goroutine_at_byte": thr, "delivered_ids": ids, "err": errc,
		"scan_after_stop": again, "read_calls_after_cancel": xr.after, "bytes_pulled": xr.pos}
	return c
}

// ---- live stream that stops delivering: the reader blocks in Read at the start of block `stall`;
// Scan then blocks in Next; the context is cancelled from another goroutine (kind 0) or its deadline
// expires (kind 1).  Scan has to return false promptly with the context's error although the reader
// goroutine is stuck in Read; after the stream is released everything terminates.
func stalledCase(rng *rand.Rand, seed int64) *wire.Case {
	procs := 1 + rng.Intn(12)
	f := pipesup.GenFile(rng, 3*procs+2, false)
	stall := 1 + rng.Intn(len(f.Items)-1)
	kind := rng.Intn(2)
	d := time.Duration(20000+rng.Intn(20000)) * time.Microsecond // long enough for Start and for draining what was read
	var ctx context.Context
	var cancel func()
	if kind == 1 {
		ctx, cancel = context.WithTimeout(context.Background(), d)
	} else {
		ctx, cancel = context.WithCancel(context.Background())
	}
	defer cancel()
	rd := pipesup.NewReader(f)
	idx := stall
	if f.Header {
		idx++
	}
	rd.StallAt = f.Starts[idx]
	rd.Release = make(chan struct{})
	sc := osmpbf.New(ctx, rd, procs)
	type res struct {
		ids []int64
		err int64
	}
	ch := make(chan res, 1)
	go func() {
		var r res
		for sc.Scan() {
			r.ids = append(r.ids, pipesup.ObjID(sc.Object()))
		}
		r.err = pipesup.ErrCode(sc.Err())
		ch <- r
	}()
	if kind == 0 {
		go func() {
			for atomic.LoadInt32(&rd.Stalled) == 0 { // the stream has stopped delivering
				time.Sleep(200 * time.Microsecond)
			}
			time.Sleep(d / 8) // let the consumer drain what was read and block in Next
			cancel()
		}()
	}
	var r res
	hung := false
	select {
	case r = <-ch:
	case <-time.After(5 * time.Second):
		hung = true
	}
	close(rd.Release)
	if hung {
		select {
		case r = <-ch:
		case <-time.After(5 * time.Second):
		}
	}
	sc.Close()
	leaked := pipesup.WaitNoPipeline(3 * time.Second)
	c := &wire.Case{Class: "stalled"}
	c.Int(4).Int(int64(procs)).Bool(!f.Header)
	itemsToks(c, f)
	c.Int(int64(stall)).Int(int64(kind)).Ints(r.ids).Int(r.err).Bool(hung).Int(int64(leaked))
	if hung {
		c.OracleFail = "Scan was still blocked 5 s after the context was cancelled while the reader is stalled in Read"
	}
	c.Desc = map[string]interface{}{"procs": procs, "header": f.Header, "items": f.Items, "reader_blocks_in_Read_at_block": stall,
		"context": []string{"cancelled from another goroutine", "deadline expires"}[kind], "after": d.String(),
		"delivered": r.ids, "err": r.err, "scan_still_blocked_5s_after_cancel": hung, "goroutines_left_after_release_and_close": leaked, "expected": f.Expected()}
	return c
}

// ---- a long run of foreign fileblocks (index / vendor blocks): if the reader gets INTO the run
// (the decoder under test stops at the first one with an error; a tolerant reader would skip them)
// another goroutine cancels the context when the second block of the run starts; at most one
// further block read may start after that.
func foreignRunCase(rng *rand.Rand) *wire.Case {
	procs := 1 + rng.Intn(4)
	f := &pipesup.File{Header: true}
	nData := 1 + rng.Intn(4)
	run := 25 + rng.Intn(30)
	for b := 0; b < nData; b++ {
		f.Items = append(f.Items, pipesup.Item{Kind: pipesup.KBlock, N: 1 + rng.Intn(3)})
	}
	for b := 0; b < run; b++ {
		f.Items = append(f.Items, pipesup.Item{Kind: pipesup.KForeign})
	}
	for b := 0; b < 3; b++ {
		f.Items = append(f.Items, pipesup.Item{Kind: pipesup.KBlock, N: 2})
	}
	f.Build()
	ctx, cancel := context.WithCancel(context.Background())
	defer cancel()
	rd := pipesup.NewReader(f)
	var sc *osmpbf.Scanner
	var rac int64
	var fired int32
	trigger := 1 + nData + 1 // file block index (header = 0) of the second foreign block
	rd.OnStart = func(idx int, eof bool) {
		if sc.VerifPipelineCancelled() {
			atomic.AddInt64(&rac, 1)
		}
		if idx == trigger && atomic.CompareAndSwapInt32(&fired, 0, 1) {
			done := make(chan struct{})
			go func() { cancel(); close(done) }()
			<-done
		}
	}
	sc = osmpbf.New(ctx, rd, procs)
	type res struct {
		ids []int64
		err int64
	}
	ch := make(chan res, 1)
	go func() {
		var r res
		for sc.Scan() {
			r.ids = append(r.ids, pipesup.ObjID(sc.Object()))
		}
		r.err = pipesup.ErrCode(sc.Err())
		sc.Close()
		ch <- r
	}()
	var r res
	hung := false
	select {
	case r = <-ch:
	case <-time.After(8 * time.Second):
		hung = true
	}
	leaked := 0
	if !hung {
		leaked = pipesup.WaitNoPipeline(3 * time.Second)
	}
	c := &wire.Case{Class: "foreign-run"}
	c.Int(5).Int(int64(procs)).Bool(false)
	itemsToks(c, f)
	c.Ints(r.ids).Int(r.err).Bool(hung).Int(atomic.LoadInt64(&rac)).Int(int64(leaked))
	if hung {
		c.OracleFail = "Scan/Close did not return within 8 s"
	}
	c.Desc = map[string]interface{}{"procs": procs, "data_blocks": nData, "foreign_blocks_in_run": run, "cancel_from_other_goroutine_at_start_of_file_block": trigger,
		"cancel_fired": atomic.LoadInt32(&fired) == 1, "delivered": r.ids, "err": r.err, "block_reads_started_after_cancel": atomic.LoadInt64(&rac),
		"goroutines_left": leaked, "bytes_pulled": atomic.LoadInt64(&rd.Pulled), "file_bytes": len(f.Bytes)}
	return c
}

// ---- Close while a Read on the caller's reader is in progress (slow source): when Close has
// returned, nothing the scanner started may still be reading: no Read call begins or ends later.
type slowReader struct {
	r       *pipesup.Reader
	delay   time.Duration
	inRead  int32
	calls   int64
	closedC int64 // value of calls when Close returned (set by the harness)
}

func (s *slowReader) Read(p []byte) (int, error) {
	atomic.AddInt32(&s.inRead, 1)
	defer atomic.AddInt32(&s.inRead, -1)
	atomic.AddInt64(&s.calls, 1)
	time.Sleep(s.delay)
	if len(p) > 40 {
		p = p[:40]
	}
	return s.r.Read(p)
}

func slowCloseCase(rng *rand.Rand) *wire.Case {
	procs := 1 + rng.Intn(6)
	f := pipesup.GenFile(rng, 3*procs+6, false)
	stop := rng.Intn(3) // 0 Close, 1 cancel then Close, 2 Close from the start
	k := rng.Intn(4)
	if stop == 2 {
		k = 0
	}
	ctx, cancel := context.WithCancel(context.Background())
	defer cancel()
	sr := &slowReader{r: pipesup.NewReader(f), delay: time.Duration(100+rng.Intn(300)) * time.Microsecond}
	sc := osmpbf.New(ctx, sr, procs)
	var ids []int64
	for i := 0; i < k && sc.Scan(); i++ {
		ids = append(ids, pipesup.ObjID(sc.Object()))
	}
	if stop == 2 {
		sc.Header()
	}
	if stop == 1 {
		cancel()
	}
	closed := safeClose(sc)
	inReadAtReturn := atomic.LoadInt32(&sr.inRead)
	callsAtReturn := atomic.LoadInt64(&sr.calls)
	time.Sleep(15 * time.Millisecond)
	later := atomic.LoadInt64(&sr.calls) - callsAtReturn
	leaked := pipesup.WaitNoPipeline(2 * time.Second)
	c := &wire.Case{Class: "slow-close"}
	c.Int(6).Int(int64(procs)).Bool(!f.Header)
	itemsToks(c, f)
	c.Int(int64(stop)).Ints(ids).Int(int64(inReadAtReturn)).Int(later).Int(int64(leaked))
	if !closed {
		c.OracleFail = "Close did not return within 8 s"
	}
	c.Desc = map[string]interface{}{"procs": procs, "header": f.Header, "items": f.Items, "reader": "sleeps " + sr.delay.String() + " per Read, 40 bytes per Read",
		"scans_before_stop": k, "stop": []string{"Close", "cancel then Close", "Header then Close"}[stop], "delivered": ids,
		"reads_in_progress_when_Close_returned": inReadAtReturn, "read_calls_begun_after_Close_returned": later, "goroutines_left": leaked}
	return c
}

// ---- KNOWN FINDING class "close-while-read-blocked": the reader blocks in Read and is NOT released
// before Close is called.  decoder.Close = cancel(); wg.Wait() waits for the reader goroutine, which
// is inside Read and cannot see the context, so Close does not return until that Read returns.
func blockedReadCloseCase(rng *rand.Rand) *wire.Case {
	procs := 1 + rng.Intn(4)
	f := pipesup.GenFile(rng, 3*procs+2, false)
	stall := 1 + rng.Intn(len(f.Items)-1)
	rd := pipesup.NewReader(f)
	idx := stall
	if f.Header {
		idx++
	}
	rd.StallAt = f.Starts[idx]
	rd.Release = make(chan struct{})
	sc := osmpbf.New(context.Background(), rd, procs)
	sc.Scan()
	for atomic.LoadInt32(&rd.Stalled) == 0 {
		time.Sleep(200 * time.Microsecond)
	}
	done := make(chan struct{})
	go func() { sc.Close(); close(done) }()
	returned := false
	select {
	case <-done:
		returned = true
	case <-time.After(1500 * time.Millisecond):
	}
	close(rd.Release) // the Read returns (with an error)
	after := false
	select {
	case <-done:
		after = true
	case <-time.After(5 * time.Second):
	}
	leaked := pipesup.WaitNoPipeline(2 * time.Second)
	c := &wire.Case{Class: "blocked-read-close", Known: "close-while-read-blocked"}
	c.Int(7).Int(int64(procs)).Bool(returned).Bool(after).Int(int64(leaked))
	c.Desc = map[string]interface{}{"procs": procs, "items": f.Items, "reader_blocks_in_Read_at_block": stall,
		"Close_returned_within_1.5s_while_Read_blocked": returned, "Close_returned_after_the_Read_returned": after, "goroutines_left": leaked}
	return c
}

// safeClose calls Close under a watchdog; false = it did not return within 8 s.
func safeClose(sc *osmpbf.Scanner) bool {
	done := make(chan struct{})
	go func() { sc.Close(); close(done) }()
	select {
	case <-done:
		return true
	case <-time.After(8 * time.Second):
		return false
	}
}

func corrupt(c *wire.Case, kind int) *wire.Case {
	d := c.Clone()
	d.Canary = 1
	d.Class = "canary"
	switch kind {
	case 0: // last token (leaked / xml extra) becomes 1 goroutine left / 1 byte
		d.Toks[len(d.Toks)-1] = 2
	case 1: // rac becomes 2
		d.Toks[len(d.Toks)-3] = 4
	}
	return d
}

func main() {
	a := wire.ParseArgs()
	rng := wire.Rng(a.Seed)
	w := wire.NewWriter("C07", a.Seed, a.Tier)
	w.Rule = "call histories Header? Scan*k (Close|cancel|cancel-from-another-goroutine) (Scan|Err|Close|Header|cancel)* on generated PBF files with >= 3*procs small blocks (procs 0..32, header or resume mode, bad/truncated blocks, filters that empty blocks) and on XML documents; non-trivial = distinct token stream (file, procs, history and observed outputs)"
	nPbf := int(300 * a.Scale)
	nThird := int(80 * a.Scale)
	nXml := int(60 * a.Scale)
	if a.Tier == "thorough" {
		nPbf, nThird, nXml = nPbf*10, nThird*10, nXml*5
	}
	if a.Extra["stress"] != "" { // widened search: many more concurrent-cancel histories
		nThird *= 8
	}
	var firstPbf, firstXml *wire.Case
	canaryDone := 0
	aborted := false // a call hung: the remaining PBF classes would hang the same way
	for i := 0; i < nPbf+nThird; i++ {
		mode := 0
		if i >= nPbf {
			mode = 1
		}
		procs := 1 + rng.Intn(32)
		switch rng.Intn(12) {
		case 0:
			procs = 0
		case 1:
			procs = 1
		case 2:
			procs = 11 + rng.Intn(22) // more than the 10-slot budget: unbuffered channels
		}
		n := procs
		if n < 1 {
			n = 1
		}
		minBlocks := 3*n + 2
		if rng.Intn(5) == 0 {
			minBlocks = rng.Intn(n + 1) // fewer blocks than decoders
			if minBlocks < 1 {
				minBlocks = 1
			}
		}
		f := pipesup.GenFile(rng, minBlocks, rng.Intn(3) == 0)
		h := &hist{Procs: procs, File: f, Mode: mode}
		if rng.Intn(4) == 0 {
			h.Filter = 1 + rng.Intn(2)
		}
		if mode == 1 && rng.Intn(3) == 0 {
			h.CtxKind = 1
		}
		total := len(f.Expected())
		if mode == 0 && rng.Intn(8) == 0 { // decoder.Start fails on the first file block
			f.Header = true
			f.StartFail = 1 + rng.Intn(4)
			f.Trunc = 0
			f.Build()
			total = 0
			w.Count(fmt.Sprintf("start_fail:%d", f.StartFail))
		}
		h.Plan = genPlan(rng, total, mode)
		hung := false
		{
			done := make(chan struct{})
			go func() { run(h, a.Seed*7919+int64(i)); close(done) }()
			select {
			case <-done:
			case <-time.After(8 * time.Second):
				hung = true
			}
		}
		if hung {
			// a call (Scan or Close) did not return: report it as an observation, then stop
			hc := &wire.Case{Class: "hung", OracleFail: "a Scan/Header/Close call did not return within 8 s (a goroutine or the WaitGroup never finishes)",
				Desc: map[string]interface{}{"procs": h.Procs, "header": h.File.Header, "start_fail": h.File.StartFail, "items": h.File.Items, "plan": h.Plan, "mode": h.Mode, "filter": h.Filter,
					"plan_codes": "0 Scan 1 Header 2 Err 3 Close 4 cancel 5 cancel-from-another-goroutine"}}
			hc.Int(9)
			w.Add(hc)
			aborted = true
			break
		}
		c := pbfCase(h)
		w.Add(c)
		if h.Leaked != 0 {
			// a goroutine of the scanner survives: every further history would wait out the grace
			// period again; this observation is enough
			aborted = true
			break
		}
		w.Count(fmt.Sprintf("procs:%d", bucket(procs)))
		w.Count(fmt.Sprintf("rac:%d", h.Rac))
		w.Count(fmt.Sprintf("filter:%d", h.Filter))
		if firstPbf == nil && mode == 0 {
			firstPbf = c
		}
		if mode == 0 && canaryDone < 2 && i%37 == 5 {
			w.Add(corrupt(c, canaryDone))
			canaryDone++
		}
	}
	for i := 0; i < nXml; i++ {
		c := xmlCase(rng)
		w.Add(c)
		if firstXml == nil {
			firstXml = c
		}
	}
	nSt := int(40 * a.Scale)
	if a.Tier == "thorough" {
		nSt *= 10
	}
	for i := 0; i < nSt && !aborted; i++ {
		c := stalledCase(rng, a.Seed*13+int64(i))
		w.Add(c)
		if c.OracleFail != "" {
			aborted = true
		}
	}
	nFr, nSl := int(12*a.Scale), int(25*a.Scale)
	if a.Tier == "thorough" {
		nFr, nSl = nFr*10, nSl*10
	}
	for i := 0; i < nFr && !aborted; i++ {
		c := foreignRunCase(rng)
		w.Add(c)
		if c.OracleFail != "" {
			aborted = true
		}
	}
	for i := 0; i < nSl && !aborted; i++ {
		c := slowCloseCase(rng)
		w.Add(c)
		if c.OracleFail != "" {
			aborted = true
		}
	}
	if !aborted {
		w.Add(blockedReadCloseCase(rng))
	}
	nXc := int(30 * a.Scale)
	if a.Tier == "thorough" {
		nXc *= 10
	}
	for i := 0; i < nXc; i++ {
		w.Add(xmlCancelCase(rng))
	}
	for canaryDone < 2 && firstPbf != nil {
		w.Add(corrupt(firstPbf, canaryDone))
		canaryDone++
	}
	// canary on the call outputs: the first Err output of an XML case is altered
	{
		d := firstXml.Clone()
		d.Canary = 1
		d.Class = "canary"
		d.Toks[len(d.Toks)-3] = 14 // last call's output a := 7
		w.Add(d)
	}
	if a.Tier == "thorough" {
		if rep := pipesup.RaceRun("c07", a.Out, a.Seed); rep != "" {
			c := &wire.Case{Class: "race", OracleFail: rep, Desc: map[string]interface{}{"race_detector_report": rep}}
			c.Int(9)
			w.Add(c)
		} else {
			w.Notes = append(w.Notes, "race-detector child run (quick stream under -race: Close/cancel/concurrent-cancel histories): no report")
		}
	}
	if err := w.Flush(a.Out, "Verif.C07.Check", 250); err != nil {
		fmt.Fprintln(os.Stderr, err)
		os.Exit(1)
	}
}

func bucket(p int) int {
	switch {
	case p <= 1:
		return p
	case p <= 4:
		return 4
	case p <= 10:
		return 10
	case p <= 16:
		return 16
	}
	return 32
}
