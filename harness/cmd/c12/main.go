// c12: correspondence harness for property C12 (annotation is deterministic and orders updates by
// index, time, version).  Every history is annotated several times on deep copies (fresh maps, so
// fresh map iteration orders); the distinct outcomes go to Coq.
package main

import (
	"bytes"
	"context"
	"crypto/sha256"
	"encoding/json"
	"errors"
	"fmt"
	"math/rand"
	"os"
	"os/exec"
	"strconv"
	"strings"
	"time"

	"github.com/paulmach/osm"
	"github.com/paulmach/osm/annotate"
	"verif/harness/annot"
	"verif/harness/wire"
)

func sortedITV(us osm.Updates) bool {
	for i := 1; i < len(us); i++ {
		a, b := us[i-1], us[i]
		if a.Index != b.Index {
			if a.Index > b.Index {
				return false
			}
			continue
		}
		if !a.Timestamp.Equal(b.Timestamp) {
			if a.Timestamp.After(b.Timestamp) {
				return false
			}
			continue
		}
		if a.Version > b.Version {
			return false
		}
	}
	return true
}

// annCase runs the implementation nruns times and records the distinct outcomes.
func annCase(w *wire.Writer, in *annot.Input, nruns int, class string) (*wire.Case, []*annot.Outcome) {
	return multiCase(w, in, nruns, class, func(int) *annot.Outcome { return in.Run() }, nil)
}

// multiCase: [in] is the input the Coq model receives; run(r) produces the r-th observation of the
// implementation for that input; extra is added to the replay description.
func multiCase(w *wire.Writer, in *annot.Input, nruns int, class string, run func(int) *annot.Outcome, extra map[string]interface{}) (*wire.Case, []*annot.Outcome) {
	c := &wire.Case{Class: class}
	c.Int(1)
	in.Encode(c)
	c.Len(nruns)
	var distinct []*annot.Outcome
	seen := map[string]bool{}
	for r := 0; r < nruns; r++ {
		o := run(r)
		k := o.Key()
		if !seen[k] {
			seen[k] = true
			distinct = append(distinct, o)
		}
	}
	c.Len(len(distinct))
	var descs []interface{}
	oks, fails, maxUps, unsorted := 0, 0, 0, false
	for _, o := range distinct {
		o.Encode(c)
		descs = append(descs, o.Desc())
		if o.Status == 0 {
			oks++
			for _, us := range o.Updates {
				if len(us) > maxUps {
					maxUps = len(us)
				}
				if !sortedITV(us) {
					unsorted = true
				}
			}
		} else {
			fails++
		}
	}
	switch {
	case oks > 0 && fails > 0:
		c.OracleFail = "some runs on equal input fail and others succeed"
	case oks > 1:
		c.OracleFail = fmt.Sprintf("%d different successful results for equal input over %d runs", oks, nruns)
	case unsorted:
		c.OracleFail = "an update list is not ordered by (index, timestamp, version)"
	}
	desc := map[string]interface{}{"input": in.Desc(), "runs": nruns, "distinct_outcomes": descs}
	for k, v := range extra {
		desc[k] = v
	}
	c.Desc = desc
	if oks > 0 {
		w.Count("ann:ok")
	} else {
		w.Count("ann:error")
	}
	switch {
	case maxUps > 12:
		w.Count("ann:max_updates_per_parent>12")
	case maxUps > 0:
		w.Count("ann:max_updates_per_parent 1..12")
	default:
		w.Count("ann:no_updates")
		c.Trivial = oks > 0
	}
	if len(distinct) > 1 {
		w.Count("ann:distinct_outcomes>1")
	}
	return c, distinct
}

// tieHistory: one way, few nodes, many node versions after the way, pairs of versions in the same
// second: the shape on which an unstable sort by (index, timestamp) shows.
func tieHistory(rng *rand.Rand, nchildren, nversions int, commit bool) *annot.Input {
	in := &annot.Input{Threshold: 30 * time.Minute, Regime: "commit"}
	base := osm.CommitInfoStart.Add(24 * time.Hour)
	if !commit {
		base = osm.CommitInfoStart.Add(-2000 * 24 * time.Hour)
		in.Regime = "old"
	}
	mk := func(t time.Time) (time.Time, *time.Time) {
		// the same instant, but not always the same representation (location)
		if commit {
			c := annot.Rezone(rng, t)
			return annot.Rezone(rng, t), &c
		}
		return annot.Rezone(rng, t), nil
	}
	pts, pcom := mk(base.Add(time.Hour))
	p := annot.Parent{Changeset: 1, Visible: true, Timestamp: pts, Committed: pcom}
	for i := 0; i < nchildren; i++ {
		fid := osm.NodeID(100 + i).FeatureID()
		p.Refs = append(p.Refs, annot.Ref{FID: fid})
		h := annot.Hist{FID: fid}
		t := base
		for v := 1; v <= nversions; v++ {
			ts, com := mk(t)
			h.Versions = append(h.Versions, annot.Hver{Version: v, Changeset: int64(10 + v), Timestamp: ts, Committed: com,
				Lat: float64(v), Lon: float64(i), Visible: true})
			if v == 1 {
				t = base.Add(2 * time.Hour)
			} else if rng.Intn(2) == 0 {
				t = t.Add(time.Second)
			} // else: next version in the same second
		}
		if commit && rng.Intn(4) == 0 && len(h.Versions) >= 3 {
			// an element timestamp that is absent in the source and was filled with an early date
			// (before 1970) while the commit time is known: the update carries that timestamp
			k := 1 + rng.Intn(len(h.Versions)-1)
			h.Versions[k].Timestamp = time.Date(1969-rng.Intn(200), 6, 1, 0, 0, rng.Intn(60), 0, time.UTC)
		}
		if rng.Intn(3) == 0 && len(h.Versions) >= 4 {
			// clock skew: a version stamped a few seconds BEFORE its predecessor (still after the way)
			k := 2 + rng.Intn(len(h.Versions)-2)
			ts, com := mk(h.Versions[k-1].Timestamp.Add(-time.Duration(1+rng.Intn(5)) * time.Second))
			h.Versions[k].Timestamp, h.Versions[k].Committed = ts, com
		}
		in.Hists = append(in.Hists, h)
	}
	if rng.Intn(2) == 0 && nchildren > 1 { // a child repeated in the parent
		p.Refs = append(p.Refs, p.Refs[0])
	}
	in.Parents = []annot.Parent{p}
	return in
}

func sortCase(rng *rand.Rand, n int) *wire.Case {
	c := &wire.Case{Class: "sort"}
	c.Int(2)
	base := osm.CommitInfoStart.Add(24 * time.Hour)
	seen := map[[3]int]bool{}
	old := rng.Intn(3) == 0
	var us osm.Updates
	for len(us) < n {
		k := [3]int{rng.Intn(4), rng.Intn(4), 1 + rng.Intn(12)}
		if seen[k] {
			if len(seen) >= 4*4*12 {
				break
			}
			continue
		}
		seen[k] = true
		ts := base.Add(time.Duration(k[1]) * time.Second)
		if old && k[1] == 0 {
			ts = time.Date(1960, 1, 1, 0, 0, 0, 0, time.UTC) // before 1970: negative Unix seconds
		}
		us = append(us, osm.Update{Index: k[0], Timestamp: annot.Rezone(rng, ts), Version: k[2],
			ChangesetID: osm.ChangesetID(rng.Intn(50)), Lat: float64(rng.Intn(90)), Lon: float64(rng.Intn(90)), Reverse: rng.Intn(4) == 0})
	}
	c.Len(len(us))
	var in []string
	for _, u := range us {
		annot.EncUpdate(c, u)
		in = append(in, fmt.Sprintf("i%d t+%ds v%d", u.Index, int(u.Timestamp.Sub(base)/time.Second), u.Version))
	}
	out := append(osm.Updates(nil), us...)
	out.SortByIndex()
	c.Len(len(out))
	var obs []string
	for _, u := range out {
		annot.EncUpdate(c, u)
		obs = append(obs, fmt.Sprintf("i%d t+%ds v%d", u.Index, int(u.Timestamp.Sub(base)/time.Second), u.Version))
	}
	if !sortedITV(out) {
		c.OracleFail = "SortByIndex result is not ordered by (index, timestamp, version)"
	}
	c.Trivial = len(us) < 2
	c.Desc = map[string]interface{}{"call": "osm.Updates.SortByIndex", "input": in, "observed": obs}
	return c
}

// bigHistory: one way with npar versions over six nodes whose edits are interleaved with the way's
// versions, so that many NON-final versions carry several updates from different children
// (child-location lists of npar entries; per-version lists produced in map order).
func bigHistory(npar int, idBase int) *annot.Input {
	in := &annot.Input{Threshold: 30 * time.Minute, Regime: "commit"}
	base := osm.CommitInfoStart.Add(300 * 24 * time.Hour)
	var fids []osm.FeatureID
	for i := 0; i < 6; i++ {
		fid := osm.NodeID(idBase + i).FeatureID()
		fids = append(fids, fid)
		h := annot.Hist{FID: fid}
		t0 := base
		c0 := t0
		h.Versions = append(h.Versions, annot.Hver{Version: 1, Changeset: 1, Timestamp: t0, Committed: &c0, Lat: 1, Lon: float64(i), Visible: true})
		// later versions: between parent k and k+1 for k = 3, 6, 9, ... (shifted per node)
		v := 2
		for k := 2 + i%3; k < npar+2; k += 3 {
			t := base.Add(time.Hour + time.Duration(k)*10*time.Minute + time.Duration(5-i)*time.Minute)
			c := t
			h.Versions = append(h.Versions, annot.Hver{Version: v, Changeset: int64(v), Timestamp: t, Committed: &c, Lat: float64(v), Lon: float64(i), Visible: true})
			v++
		}
		in.Hists = append(in.Hists, h)
	}
	for p := 0; p < npar; p++ {
		t := base.Add(time.Hour + time.Duration(p)*10*time.Minute)
		c := t
		par := annot.Parent{Changeset: int64(100 + p), Visible: true, Timestamp: t, Committed: &c}
		for _, f := range fids {
			par.Refs = append(par.Refs, annot.Ref{FID: f})
		}
		in.Parents = append(in.Parents, par)
	}
	return in
}

// twoFaults: two coinciding faults in the same parent version(s): one child with no visible
// version (tolerated with IgnoreInconsistency) and another child without any history
// (IgnoreMissingChildren is OFF): every run must fail, whatever child the map yields first.
func twoFaults(npar int, extraGood int) *annot.Input {
	in := &annot.Input{Threshold: 30 * time.Minute, Regime: "commit", IgnoreIncons: true}
	base := osm.CommitInfoStart.Add(500 * 24 * time.Hour)
	mk := func(h int) (time.Time, *time.Time) { t := base.Add(time.Duration(h) * time.Hour); c := t; return t, &c }
	invisible, missing := osm.NodeID(2).FeatureID(), osm.NodeID(3).FeatureID()
	var refs []annot.Ref
	for g := 0; g < extraGood; g++ {
		fid := osm.NodeID(10 + g).FeatureID()
		ts, com := mk(0)
		in.Hists = append(in.Hists, annot.Hist{FID: fid, Versions: []annot.Hver{{Version: 1, Changeset: 2, Timestamp: ts, Committed: com, Lat: 1, Lon: float64(g), Visible: true}}})
		refs = append(refs, annot.Ref{FID: fid})
	}
	ts, com := mk(1)
	in.Hists = append(in.Hists, annot.Hist{FID: invisible, Versions: []annot.Hver{{Version: 1, Changeset: 3, Timestamp: ts, Committed: com, Visible: false}}})
	refs = append(refs, annot.Ref{FID: invisible}, annot.Ref{FID: missing})
	for p := 0; p < npar; p++ {
		pt, pc := mk(10 + p)
		in.Parents = append(in.Parents, annot.Parent{Changeset: int64(50 + p), Visible: true, Timestamp: pt, Committed: pc, Refs: append([]annot.Ref(nil), refs...)})
	}
	return in
}

// missingSibling: a parent version referencing one child WITHOUT history next to nsib children that
// each produce minor versions (updates) for it.  kind: 0 never listed, 1 not found, 2 found but
// empty.  pos: where the missing child stands among the references.  Under IgnoreMissingChildren
// the updates of the siblings must be the same in every run, wherever the missing child falls in
// the map iteration; without the option every run must fail with the same error.
func missingSibling(isRel, commit bool, kind, nsib, pos, npar int, ignoreMissing, ignoreIncons, asChildren bool) *annot.Input {
	regime, base := "commit", osm.CommitInfoStart.Add(700*24*time.Hour)
	if !commit {
		regime, base = "old", osm.CommitInfoStart.Add(-1500*24*time.Hour)
	}
	in := &annot.Input{IsRel: isRel, Threshold: 30 * time.Minute, Regime: regime, IgnoreMissing: ignoreMissing, IgnoreIncons: ignoreIncons, AsChildren: asChildren}
	mk := func(h int) (time.Time, *time.Time) {
		t := base.Add(time.Duration(h) * time.Hour)
		if commit {
			c := t
			return t, &c
		}
		return t, nil
	}
	missing := osm.NodeID(900).FeatureID()
	var refs []annot.Ref
	for g := 0; g < nsib; g++ {
		if g == pos {
			refs = append(refs, annot.Ref{FID: missing})
		}
		fid := osm.NodeID(10 + g).FeatureID()
		h := annot.Hist{FID: fid}
		// one version before the first parent, then two or three between / after the parents
		for v, at := range []int{0, 12 + g, 13 + g, 40 + g, 41 + 2*g} {
			ts, com := mk(at)
			h.Versions = append(h.Versions, annot.Hver{Version: v + 1, Changeset: int64(100 + 10*g + v), Timestamp: ts, Committed: com, Lat: float64(g), Lon: float64(v), Visible: true})
		}
		in.Hists = append(in.Hists, h)
		refs = append(refs, annot.Ref{FID: fid})
	}
	if pos >= nsib {
		refs = append(refs, annot.Ref{FID: missing})
	}
	switch kind {
	case 1:
		in.Hists = append(in.Hists, annot.Hist{FID: missing, Kind: 1})
	case 2:
		in.Hists = append(in.Hists, annot.Hist{FID: missing, Kind: 0})
	}
	for p := 0; p < npar; p++ {
		pt, pc := mk(10 + 25*p)
		in.Parents = append(in.Parents, annot.Parent{Changeset: int64(50 + p), Visible: true, Timestamp: pt, Committed: pc, Refs: append([]annot.Ref(nil), refs...)})
	}
	in.ComputeReverse()
	return in
}

// repeatedVersion: a way / relation whose children changed after the parent, where the datasource
// lists one version of one child TWICE with identical content (histories merged from overlapping
// extracts) — dup copies of version dupV of child 0 — next to nother children with one later
// version each.  The two equal updates are adjacent after the sort; every run must give the same list.
func repeatedVersion(isRel, commit bool, nother, dupV, copies int, asChildren bool) *annot.Input {
	regime, base := "commit", osm.CommitInfoStart.Add(800*24*time.Hour)
	if !commit {
		regime, base = "old", osm.CommitInfoStart.Add(-1200*24*time.Hour)
	}
	in := &annot.Input{IsRel: isRel, Threshold: 30 * time.Minute, Regime: regime, AsChildren: asChildren}
	mk := func(h int) (time.Time, *time.Time) {
		t := base.Add(time.Duration(h) * time.Hour)
		if commit {
			c := t
			return t, &c
		}
		return t, nil
	}
	var refs []annot.Ref
	for g := 0; g <= nother; g++ {
		fid := osm.NodeID(20 + g).FeatureID()
		h := annot.Hist{FID: fid}
		nv := 2
		if g == 0 {
			nv = 3
		}
		for v := 0; v < nv; v++ {
			ts, com := mk(20*v + g)
			hv := annot.Hver{Version: v + 1, Changeset: int64(200 + 10*g + v), Timestamp: ts, Committed: com, Lat: float64(g), Lon: float64(v), Visible: true}
			h.Versions = append(h.Versions, hv)
			if g == 0 && v+1 == dupV {
				for c := 1; c < copies; c++ {
					h.Versions = append(h.Versions, hv)
				}
			}
		}
		in.Hists = append(in.Hists, h)
		refs = append(refs, annot.Ref{FID: fid})
	}
	pt, pc := mk(10)
	in.Parents = []annot.Parent{{Changeset: 50, Visible: true, Timestamp: pt, Committed: pc, Refs: refs}}
	in.ComputeReverse()
	return in
}

// bulkCase: one parent version with nch children of nver later versions each (nch*nver updates):
// size thresholds.  The result is not shipped to Coq; observed are the number of updates, whether
// the list is ordered, and whether nruns runs are identical (SHA-256 of the serialised result).
// Coq checks the count against the specification (every later visible version of every child).
func bulkCase(w *wire.Writer, nch, nver, nruns int) *wire.Case {
	in := &annot.Input{Threshold: 30 * time.Minute, Regime: "commit"}
	base := osm.CommitInfoStart.Add(700 * 24 * time.Hour)
	pt := base.Add(time.Hour)
	pc := pt
	par := annot.Parent{Changeset: 1, Visible: true, Timestamp: pt, Committed: &pc}
	for i := 0; i < nch; i++ {
		fid := osm.NodeID(1000 + i).FeatureID()
		par.Refs = append(par.Refs, annot.Ref{FID: fid})
		h := annot.Hist{FID: fid}
		for v := 0; v <= nver; v++ {
			t := base
			if v > 0 {
				t = base.Add(2*time.Hour + time.Duration(v)*time.Second)
			}
			c := t
			h.Versions = append(h.Versions, annot.Hver{Version: v + 1, Changeset: int64(v + 1), Timestamp: t, Committed: &c, Lat: float64(v % 90), Lon: float64(i % 180), Visible: true})
		}
		in.Hists = append(in.Hists, h)
	}
	in.Parents = []annot.Parent{par}
	status, count, sorted, identical := 0, 0, true, true
	first := ""
	var hashes []uint64
	var windows []osm.Updates
	for r := 0; r < nruns; r++ {
		o := in.Run()
		if o.Status != 0 {
			status = o.Status
			break
		}
		count = len(o.Updates[0])
		sorted = sorted && sortedITV(o.Updates[0])
		sum := sha256.Sum256([]byte(o.Key()))
		k := fmt.Sprintf("%x", sum)
		var h uint64
		for _, b := range sum[:7] {
			h = h<<8 | uint64(b)
		}
		hashes = append(hashes, h)
		if r == 0 {
			// windows of the list shipped to Coq: the beginning, the end, and around 2^15 and 2^16
			us := o.Updates[0]
			for _, at := range []int{0, 1 << 15, 1 << 16, len(us)} {
				lo, hi := at-25, at+25
				if lo < 0 {
					lo = 0
				}
				if hi > len(us) {
					hi = len(us)
				}
				if lo < hi {
					windows = append(windows, us[lo:hi])
				}
			}
			first = k
		} else if k != first {
			identical = false
		}
	}
	c := &wire.Case{Class: "bulk"}
	c.Int(3).Int(int64(nch)).Int(int64(nver)).Int(int64(nruns)).Int(int64(status)).Int(int64(count)).Bool(sorted)
	c.Len(len(hashes))
	for _, h := range hashes {
		c.Tok(h)
	}
	c.Len(len(windows))
	for _, win := range windows {
		c.Len(len(win))
		for _, u := range win {
			annot.EncUpdate(c, u)
		}
	}
	switch {
	case status != 0:
		c.OracleFail = "annotation of a large history failed"
	case count != nch*nver:
		c.OracleFail = fmt.Sprintf("%d updates for %d children x %d later versions (expected %d)", count, nch, nver, nch*nver)
	case !identical:
		c.OracleFail = "runs on equal input give different results"
	case !sorted:
		c.OracleFail = "an update list is not ordered by (index, timestamp, version)"
	}
	c.Desc = map[string]interface{}{"bulk": fmt.Sprintf("one way version (commit regime) referencing nodes 1000..%d, each with version 1 before the way and %d later versions one second apart; annotate.Ways run %d times", 1000+nch-1, nver, nruns),
		"children": nch, "later_versions_each": nver, "observed_updates": count, "expected_updates": nch * nver, "ordered": sorted, "runs_identical": identical, "status": status}
	w.Count(fmt.Sprintf("bulk:%d_updates", nch*nver))
	return c
}

// ---- class stress: a multipolygon relation with many way members, annotated repeatedly in a CHILD
// process (this executable run again with VERIF_C12_STRESS set, GOMAXPROCS 8) whose datasource
// answers every lookup after the same short pause, so that lookups running side by side (if the
// implementation runs any) finish together.  Sequential code gives the same bytes in every run.
// Code that handles the children on several goroutines races in parentRelation.SetChild (the
// lazily allocated way cache): members lose their orientation in some runs, or the runtime aborts
// the process with "concurrent map writes" — which is why the runs are made in a child process.

var errStressNF = errors.New("not found")

type stressDS struct{ ways map[osm.WayID]osm.Ways }

func (d *stressDS) NodeHistory(context.Context, osm.NodeID) (osm.Nodes, error) { return nil, errStressNF }
func (d *stressDS) RelationHistory(context.Context, osm.RelationID) (osm.Relations, error) {
	return nil, errStressNF
}
func (d *stressDS) WayHistory(_ context.Context, id osm.WayID) (osm.Ways, error) {
	time.Sleep(2 * time.Millisecond)
	ws, ok := d.ways[id]
	if !ok {
		return nil, errStressNF
	}
	out := make(osm.Ways, len(ws))
	for i, w := range ws {
		c := *w
		c.Nodes = append(osm.WayNodes(nil), w.Nodes...)
		out[i] = &c
	}
	return out, nil
}
func (d *stressDS) NotFound(err error) bool { return err == errStressNF }

// stressInput: one multipolygon relation version with n outer rings (closed squares side by side,
// alternately drawn clockwise and counter-clockwise), every way with one version before the relation.
func stressInput(n int) (osm.Relations, *stressDS) {
	t0 := osm.CommitInfoStart.Add(900 * 24 * time.Hour)
	d := &stressDS{ways: map[osm.WayID]osm.Ways{}}
	rt := t0.Add(time.Hour)
	rc := rt
	r := &osm.Relation{ID: 1, Version: 1, Visible: true, ChangesetID: 7, Timestamp: rt, Committed: &rc, Tags: osm.Tags{{Key: "type", Value: "multipolygon"}}}
	for i := 0; i < n; i++ {
		id := osm.WayID(100 + i)
		x := float64(i) * 3
		sq := [][2]float64{{0, x}, {0, x + 1}, {1, x + 1}, {1, x}, {0, x}}
		if i%2 == 1 {
			sq = [][2]float64{{0, x}, {1, x}, {1, x + 1}, {0, x + 1}, {0, x}}
		}
		var ns osm.WayNodes
		for k, pt := range sq {
			ns = append(ns, osm.WayNode{ID: osm.NodeID(1000 + 4*i + k%4), Version: 1, Lat: pt[0], Lon: pt[1]})
		}
		wc := t0
		// the way is an ANNOTATED way as annotate.Ways leaves it: 15 updates ordered by (index, time,
		// version), not in time order across indexes (index 0 changed last), index 2 with three
		// versions in the same second; the coordinates do not move, so the ring keeps its shape
		var ups osm.Updates
		for idx := 0; idx < 5; idx++ {
			for v := 0; v < 3; v++ {
				ut := t0.Add(time.Duration(10*(5-idx)+v) * time.Minute)
				if idx == 2 {
					ut = t0.Add(25 * time.Minute)
				}
				ups = append(ups, osm.Update{Index: idx, Version: 2 + v, ChangesetID: osm.ChangesetID(20 + v), Timestamp: ut, Lat: ns[idx].Lat, Lon: ns[idx].Lon})
			}
		}
		d.ways[id] = osm.Ways{{ID: id, Version: 1, Visible: true, ChangesetID: 3, Timestamp: t0, Committed: &wc, Nodes: ns, Updates: ups}}
		r.Members = append(r.Members, osm.Member{Type: osm.TypeWay, Ref: int64(id), Role: "outer"})
	}
	return osm.Relations{r}, d
}

// stressChild: the child process; prints one line per run.
func stressChild(spec string) {
	f := strings.Split(spec, ",")
	n, _ := strconv.Atoi(f[0])
	runs, _ := strconv.Atoi(f[1])
	for r := 0; r < runs; r++ {
		rs, d := stressInput(n)
		if err := annotate.Relations(context.Background(), rs, d); err != nil {
			fmt.Printf("E %v\n", err)
			continue
		}
		b, _ := json.Marshal(rs)
		sum := sha256.Sum256(b)
		oriented := 0
		for _, m := range rs[0].Members {
			if m.Orientation != 0 {
				oriented++
			}
		}
		fmt.Printf("H %x %d\n", sum[:7], oriented)
		// the member ways stored in the datasource must still carry their update lists as they were
		_, fresh := stressInput(n)
		changed := 0
		for id, ws := range d.ways {
			a, _ := json.Marshal(ws[0].Updates)
			b, _ := json.Marshal(fresh.ways[id][0].Updates)
			if !bytes.Equal(a, b) {
				changed++
			}
		}
		if changed > 0 {
			fmt.Printf("M %d\n", changed)
		}
	}
}

func stressCase(w *wire.Writer, n, nruns int) *wire.Case {
	cmd := exec.Command(os.Args[0])
	cmd.Env = append(os.Environ(), fmt.Sprintf("VERIF_C12_STRESS=%d,%d", n, nruns), "GOMAXPROCS=8")
	var stdout, stderr bytes.Buffer
	cmd.Stdout, cmd.Stderr = &stdout, &stderr
	runErr := cmd.Run()
	status := 0
	var hashes []uint64
	var oriented []string
	identical := true
	for _, line := range strings.Split(strings.TrimSpace(stdout.String()), "\n") {
		f := strings.Fields(line)
		switch {
		case len(f) == 3 && f[0] == "H":
			h, _ := strconv.ParseUint(f[1], 16, 64)
			if len(hashes) > 0 && h != hashes[0] {
				identical = false
			}
			hashes = append(hashes, h)
			oriented = append(oriented, f[2])
		case len(f) == 2 && f[0] == "M":
			status = 7 // update lists of the stored member ways were changed by the call
		case len(f) > 0 && f[0] == "E":
			status = 8 // a run returned an error
		}
	}
	abort := ""
	if runErr != nil {
		status = 9 // the process running the annotations was aborted
		abort = strings.SplitN(strings.TrimSpace(stderr.String()), "\n", 2)[0]
	}
	c := &wire.Case{Class: "stress"}
	c.Int(3).Int(int64(n)).Int(0).Int(int64(nruns)).Int(int64(status)).Int(0).Bool(true)
	c.Len(len(hashes))
	for _, h := range hashes {
		c.Tok(h)
	}
	c.Len(0)
	switch {
	case status == 9:
		c.OracleFail = "the process annotating equal input repeatedly was aborted: " + abort
	case status == 7:
		c.OracleFail = "annotate.Relations changed the update lists of the member ways held by the datasource (no longer ordered by index, time, version)"
	case status != 0:
		c.OracleFail = "a run on a consistent input failed"
	case !identical || len(hashes) != nruns:
		c.OracleFail = "runs on equal input give different results"
	}
	c.Desc = map[string]interface{}{"stress": fmt.Sprintf("one multipolygon relation version with %d outer ring ways (closed squares, alternately clockwise / counter-clockwise; every way one version before the relation and already annotated with 15 updates ordered by (index, time, version) that are not in time order across indexes, three of them in the same second; no updates expected for the relation; the stored ways' update lists must be unchanged afterwards), annotate.Relations run %d times in a child process with GOMAXPROCS=8; every history lookup answers after 2 ms", n, nruns),
		"members": n, "runs": nruns, "status": status, "abort": abort, "runs_identical": identical, "members_with_orientation_per_run": oriented}
	w.Count(fmt.Sprintf("stress:%d_members", n))
	return c
}

// seqCase: "annotation is a function of its input" across calls in one process: the small input is
// annotated before and after an unrelated call with many parent versions (another datasource, other
// children); all observations of the small input must agree.
func seqCase(w *wire.Writer, rng *rand.Rand, small, big *annot.Input, nruns int) *wire.Case {
	bigStatus := -1
	c, _ := multiCase(w, small, nruns, "sequence", func(r int) *annot.Outcome {
		if r == nruns/2 {
			bigStatus = big.Run().Status
		}
		return small.Run()
	}, map[string]interface{}{"sequence": fmt.Sprintf("runs 0..%d of this input, then ONE unrelated call (%d parent versions, children %v.., status recorded below), then runs %d..%d of this input, all in one process",
		nruns/2-1, len(big.Parents), big.Hists[0].FID, nruns/2, nruns-1), "unrelated_call": big.Desc()})
	c.Desc.(map[string]interface{})["unrelated_call_status"] = bigStatus
	return c
}

// clockCase: the result must not depend on the wall clock.  A node version is stamped a moment
// AHEAD of the clock of this machine; half of the runs happen before that instant, half after it.
// (The stamp is taken from time.Now(): this one class is not reproducible from the seed alone.)
func clockCase(w *wire.Writer, nruns int, commit bool) *wire.Case {
	stamp := time.Now().Add(300 * time.Millisecond).Truncate(time.Millisecond)
	base := stamp.Add(-48 * time.Hour)
	mk := func(t time.Time) (time.Time, *time.Time) {
		if commit {
			c := t
			return t, &c
		}
		return t, nil
	}
	in := &annot.Input{Threshold: 30 * time.Minute, Regime: "commit"}
	if !commit {
		in.Regime = "nocommit"
	}
	fid := osm.NodeID(100).FeatureID()
	pts, pcom := mk(base.Add(time.Hour))
	in.Parents = []annot.Parent{{Changeset: 1, Visible: true, Timestamp: pts, Committed: pcom, Refs: []annot.Ref{{FID: fid}}}}
	h := annot.Hist{FID: fid}
	for v, t := range []time.Time{base, base.Add(2 * time.Hour), stamp, time.Date(2100, 1, 1, 0, 0, 0, 0, time.UTC)} {
		ts, com := mk(t)
		h.Versions = append(h.Versions, annot.Hver{Version: v + 1, Changeset: int64(10 + v), Timestamp: ts, Committed: com, Lat: float64(v), Lon: 1, Visible: true})
	}
	in.Hists = []annot.Hist{h}
	c, _ := multiCase(w, in, nruns, "clock", func(r int) *annot.Outcome {
		if r == nruns/2 {
			if d := time.Until(stamp.Add(60 * time.Millisecond)); d > 0 {
				time.Sleep(d)
			}
		}
		return in.Run()
	}, map[string]interface{}{"sequence": fmt.Sprintf("node version 3 is stamped %s, about 0.3 s ahead of the clock when the case was built; runs 0..%d happen before that instant, the others after it; version 4 is dated 2100", stamp.UTC().Format(time.RFC3339Nano), nruns/2-1)})
	return c
}

// optSeqCase: options must not leak from one call into the next.  The input (default options: it
// must fail, a child has no history / no visible version) is annotated before and after ONE call
// on another input that passes IgnoreMissingChildren, IgnoreInconsistency, Threshold(0) and a
// ChildFilter.
func optSeqCase(w *wire.Writer, nruns int, kind int) *wire.Case {
	t0 := osm.CommitInfoStart.Add(-900 * 24 * time.Hour)
	good, bad := osm.NodeID(1).FeatureID(), osm.NodeID(2).FeatureID()
	b := &annot.Input{Threshold: 30 * time.Minute, Regime: "old"}
	b.Parents = []annot.Parent{{Changeset: 7, Visible: true, Timestamp: t0.Add(time.Hour), Refs: []annot.Ref{{FID: good}, {FID: bad}}}}
	b.Hists = []annot.Hist{{FID: good, Versions: []annot.Hver{
		{Version: 1, Changeset: 2, Timestamp: t0, Lat: 1, Lon: 1, Visible: true},
		// ten minutes after the way, in its changeset: selected only with the default threshold
		{Version: 2, Changeset: 7, Timestamp: t0.Add(70 * time.Minute), Lat: 2, Lon: 2, Visible: true}}}}
	switch kind {
	case 0: // bad has no history: NoHistoryError expected
	case 1: // bad has only a deleted version: NoVisibleChildError expected
		b.Hists = append(b.Hists, annot.Hist{FID: bad, Versions: []annot.Hver{{Version: 1, Changeset: 3, Timestamp: t0, Visible: false}}})
	default: // healthy: the annotation of node 1 depends on the default threshold
		b.Hists = append(b.Hists, annot.Hist{FID: bad, Versions: []annot.Hver{{Version: 1, Changeset: 3, Timestamp: t0, Lat: 5, Lon: 5, Visible: true}}})
	}
	a := &annot.Input{Threshold: 0, IgnoreIncons: true, IgnoreMissing: true, HasFilter: true, Filter: []osm.FeatureID{good}, Regime: "old",
		Parents: b.Parents, Hists: b.Hists[:1]}
	c, _ := multiCase(w, b, nruns, "option_sequence", func(r int) *annot.Outcome {
		if r == nruns/2 {
			a.Run()
		}
		return b.Run()
	}, map[string]interface{}{"sequence": fmt.Sprintf("runs 0..%d of this input (no options passed: defaults), then ONE call on another input with IgnoreMissingChildren(true), IgnoreInconsistency(true), Threshold(0) and a ChildFilter, then the remaining runs of this input", nruns/2-1),
		"other_call": a.Desc()})
	return c
}

// reannCase: incremental use. The parents are annotated in full, then the SAME objects are
// re-annotated with a ChildFilter for a batch of children that got a new version. The Coq model
// receives the input of the second call (references as the first call left them).
func reannCase(w *wire.Writer, rng *rand.Rand, in *annot.Input, nruns int) *wire.Case {
	var ids []osm.FeatureID
	seen := map[osm.FeatureID]bool{}
	for _, p := range in.Parents {
		for _, r := range p.Refs {
			if !seen[r.FID] {
				seen[r.FID] = true
				ids = append(ids, r.FID)
			}
		}
	}
	if len(ids) == 0 {
		return nil
	}
	var batch []osm.FeatureID
	for _, f := range ids {
		if rng.Intn(2) == 0 {
			batch = append(batch, f)
		}
	}
	if len(batch) == 0 {
		batch = []osm.FeatureID{ids[rng.Intn(len(ids))]}
	}
	second, _ := in.TwoStep(batch)
	if second == nil {
		return nil
	}
	c, _ := multiCase(w, second, nruns, "reannotate", func(int) *annot.Outcome {
		_, o := in.TwoStep(batch)
		return o
	}, map[string]interface{}{"sequence": "step 1: full annotation of the parents against the histories without the newest version of the batch children; step 2 (the input shown, references as step 1 left them, Updates non-empty): re-annotation of the same objects with ChildFilter = batch"})
	w.Count("reannotate:cases")
	return c
}

func main() {
	if spec := os.Getenv("VERIF_C12_STRESS"); spec != "" {
		stressChild(spec)
		return
	}
	a := wire.ParseArgs()
	rng := wire.Rng(a.Seed)
	w := wire.NewWriter("C12", a.Seed, a.Tier)
	w.Rule = "ANN: an edit history annotated 8 (quick) / 24 (thorough) times on deep copies through annotate.Ways / annotate.Relations; classes: bulk (one parent version with children x later versions updates around size thresholds 2048 ... 32768/65536; count, order and run-to-run identity observed, the count checked against the specification in Coq), two_faults (a child without visible version and a child without history in the same parent version, IgnoreInconsistency only), repeated_version (the datasource lists one version of a child two or three times with identical content, next to 0-14 other children with one update each, ways and relations, both regimes), missing_sibling (a child never listed / not found / with an empty history next to 2-6 siblings that each produce updates, under all four combinations of the ignore options, ways and relations, 16/48 runs), big (31/32/33/64/72 parent versions with interleaved child edits), stress (one multipolygon relation version with 3-150 outer ring ways annotated 4-40 times in a child process with GOMAXPROCS=8 and a datasource that answers every lookup after 2 ms; all runs must end and give the same bytes, orientation included), option_sequence (an input with default options annotated before and after ONE call that passes every option), clock (a version stamped a moment ahead of the wall clock, half of the runs before and half after that instant; versions dated 2100), sequence (a small input annotated before and after an unrelated call with >= 64 parent versions in the same process), big, reannotate (full annotation, then filtered re-annotation of the same already annotated objects with ChildFilter; the model gets the second call's input), corpus (minimised past failures), ties (13-40 updates per parent, versions of one child in the same second, children repeated, versions stamped a few seconds before their predecessor), random histories (all regimes, errors, options). SORT: osm.Updates.SortByIndex on 0-40 updates with equal (index, timestamp) groups. Equal instants are represented with different *time.Location values. Non-trivial = at least one update produced (ANN) or >= 2 updates (SORT); distinct = distinct token streams."
	nruns, nties, nrand, nsort, nreann := 8, 70, 100, 120, 50
	if a.Tier == "thorough" {
		nruns, nties, nrand, nsort, nreann = 24, 1200, 2500, 2500, 1200
	}
	nreann = int(float64(nreann) * a.Scale)
	nties = int(float64(nties) * a.Scale)
	nrand = int(float64(nrand) * a.Scale)
	nsort = int(float64(nsort) * a.Scale)

	// option sequences first of all: no call of this process has passed an option yet
	for kind := 0; kind < 3; kind++ {
		w.Add(optSeqCase(w, nruns, kind))
	}
	// sequences first, while the process is fresh: a small input before/after an unrelated big call
	for k := 0; k < 2; k++ {
		small := tieHistory(wire.Rng(int64(40+k)), 2, 4, k == 0)
		big := bigHistory(64+8*k, 9000+10*k)
		w.Add(seqCase(w, rng, small, big, nruns))
		bc, _ := annCase(w, big, 3, "big")
		w.Add(bc)
	}
	// around the 32-version threshold
	for _, np := range []int{31, 32, 33} {
		bc, _ := annCase(w, bigHistory(np, 9100), 3, "big")
		w.Add(bc)
	}
	// two coinciding faults: must fail in every map order
	for _, sh := range [][2]int{{1, 0}, {1, 2}, {2, 1}, {3, 3}} {
		c, _ := annCase(w, twoFaults(sh[0], sh[1]), 2*nruns, "two_faults")
		w.Add(c)
	}
	// a child without history next to siblings that produce updates, repeated runs, every
	// combination of the two ignore options
	{
		k := 0
		for _, isRel := range []bool{false, true} {
			for kind := 0; kind < 3; kind++ {
				for combo := 0; combo < 4; combo++ {
					nsib := 2 + (k*3)%5
					in := missingSibling(isRel, k%3 != 0, kind, nsib, k%(nsib+1), 1+k%2, combo&1 != 0, combo&2 != 0, k%4 == 3)
					c, _ := annCase(w, in, 2*nruns, "missing_sibling")
					w.Add(c)
					k++
				}
			}
		}
	}
	// one version of a child listed twice (or three times) by the datasource, next to other updates
	{
		k := 0
		for _, isRel := range []bool{false, true} {
			for _, commit := range []bool{true, false} {
				for _, nother := range []int{0, 1, 2, 5, 14} {
					in := repeatedVersion(isRel, commit, nother, 1+k%3, 2+k%2, k%5 == 4)
					c, _ := annCase(w, in, 2*nruns, "repeated_version")
					w.Add(c)
					k++
				}
			}
		}
	}
	// size thresholds of one update list
	bulk := [][2]int{{3, 4}, {40, 820}}
	if a.Tier == "thorough" {
		bulk = [][2]int{{3, 4}, {2, 1024}, {16, 128}, {16, 511}, {8, 1022}, {40, 820}, {33, 993}, {64, 1024}, {66, 993}}
	}
	for _, b := range bulk {
		w.Add(bulkCase(w, b[0], b[1], 3))
	}
	// many members of one multipolygon relation, repeated runs in a child process
	stress := [][2]int{{3, 4}, {40, 12}}
	if a.Tier == "thorough" {
		stress = [][2]int{{3, 4}, {9, 40}, {40, 40}, {150, 20}}
	}
	for _, sc := range stress {
		w.Add(stressCase(w, sc[0], sc[1]))
	}
	for _, commit := range []bool{true, false} {
		w.Add(clockCase(w, nruns, commit))
	}
	// corpus: the minimised failing inputs found on the pinned snapshot (see known_findings.d/C12.json)
	crng := wire.Rng(12)
	for _, shape := range [][2]int{{1, 16}, {2, 9}, {3, 7}} {
		for _, commit := range []bool{true, false} {
			c, _ := annCase(w, tieHistory(crng, shape[0], shape[1], commit), nruns, "corpus")
			w.Add(c)
		}
	}
	var firstOK *annot.Input
	for i := 0; i < nties; i++ {
		var in *annot.Input
		if i%2 == 0 {
			in = tieHistory(rng, 1+rng.Intn(4), 4+rng.Intn(12), rng.Intn(2) == 0)
		} else {
			in = annot.Generate(rng, annot.GenOpts{Ties: true, MaxChildren: 5, MaxVersions: 10, Clean: rng.Intn(3) != 0})
		}
		c, outs := annCase(w, in, nruns, "ties")
		w.Add(c)
		if firstOK == nil && len(outs) == 1 && outs[0].Status == 0 && len(outs[0].Updates[0]) > 2 {
			firstOK = in
		}
	}
	for i := 0; i < nrand; i++ {
		in := annot.Generate(rng, annot.GenOpts{MaxChildren: 6, MaxVersions: 8, Clean: rng.Intn(2) == 0})
		c, _ := annCase(w, in, nruns, "random")
		w.Add(c)
	}
	for i, made := 0, 0; made < nreann && i < 20*nreann; i++ {
		in := annot.Generate(rng, annot.GenOpts{MaxChildren: 5, MaxVersions: 8, Clean: true, Ties: i%3 == 0})
		in.HasFilter, in.Filter = false, nil
		for pi := range in.Parents {
			for ri := range in.Parents[pi].Refs {
				r := &in.Parents[pi].Refs[ri]
				r.Version, r.Changeset, r.Lat, r.Lon = 0, 0, 0, 0
			}
		}
		if c := reannCase(w, rng, in, nruns/2); c != nil {
			w.Add(c)
			made++
		}
	}
	for i := 0; i < nsort; i++ {
		n := rng.Intn(41)
		if i%3 == 0 {
			n = 13 + rng.Intn(28)
		}
		w.Add(sortCase(rng, n))
	}

	// canaries
	if firstOK == nil {
		firstOK = tieHistory(wire.Rng(5), 2, 6, true)
	}
	{
		// (a) a second, different successful outcome (two updates swapped)
		c := &wire.Case{Class: "canary", Canary: 1}
		c.Int(1)
		firstOK.Encode(c)
		c.Len(2)
		o := firstOK.Run()
		o2 := firstOK.Run()
		us := o2.Updates[0]
		us[0], us[len(us)-1] = us[len(us)-1], us[0]
		c.Len(2)
		o.Encode(c)
		o2.Encode(c)
		c.Desc = "canary: second run with two updates swapped"
		w.Add(c)
		// (b) one outcome with a wrong annotated version
		c = &wire.Case{Class: "canary", Canary: 1}
		c.Int(1)
		firstOK.Encode(c)
		c.Len(1)
		o3 := firstOK.Run()
		o3.Refs[0][0].Version += 1
		c.Len(1)
		o3.Encode(c)
		c.Desc = "canary: annotated version of the first reference changed"
		w.Add(c)
		// (c) success reported as failure
		c = &wire.Case{Class: "canary", Canary: 1}
		c.Int(1)
		firstOK.Encode(c)
		c.Len(1)
		c.Len(1)
		(&annot.Outcome{Status: 2, FID: firstOK.Parents[0].Refs[0].FID}).Encode(c)
		c.Desc = "canary: successful annotation reported as NoVisibleChildError"
		w.Add(c)
		// (d) sort result with two elements swapped
		c = &wire.Case{Class: "canary", Canary: 1}
		c.Int(2)
		base := osm.CommitInfoStart
		us2 := osm.Updates{{Index: 0, Version: 1, Timestamp: base}, {Index: 0, Version: 2, Timestamp: base}, {Index: 1, Version: 1, Timestamp: base}}
		c.Len(3)
		for _, u := range us2 {
			annot.EncUpdate(c, u)
		}
		c.Len(3)
		swapped := osm.Updates{us2[1], us2[0], us2[2]}
		for _, u := range swapped {
			annot.EncUpdate(c, u)
		}
		c.Desc = "canary: sort observation newest-first within equal (index, timestamp)"
		w.Add(c)
		// (e) bulk observation with one update missing
		c = &wire.Case{Class: "canary", Canary: 1}
		c.Int(3).Int(5).Int(7).Int(3).Int(0).Int(34).Bool(true)
		c.Len(3).Tok(11).Tok(11).Tok(11)
		c.Len(0)
		c.Desc = "canary: bulk case reporting 34 updates for 5 children x 7 later versions"
		w.Add(c)
		c = &wire.Case{Class: "canary", Canary: 1}
		c.Int(3).Int(5).Int(7).Int(3).Int(0).Int(35).Bool(true)
		c.Len(3).Tok(11).Tok(12).Tok(11)
		c.Len(0)
		c.Desc = "canary: bulk case whose second run has a different hash"
		w.Add(c)
	}
	if err := w.Flush(a.Out, "Verif.C12.Check", 60); err != nil {
		fmt.Println(err)
		panic(err)
	}
}
