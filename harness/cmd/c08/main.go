// c08: correspondence harness for "PBF skip flags and filters select an unmodified
// subsequence" (property C08).
//
// Every case is one generated .osm.pbf file, scanned once unfiltered and then under several
// scanner configurations (skip flags x filter predicates x decoder counts).  For every run the
// harness keeps the pointers the scanner returned together with a deep snapshot taken at
// return time, and compares them again at the end of the scan ("never modified afterwards").
package main

import (
	"bytes"
	"context"
	"encoding/json"
	"fmt"
	"math/rand"
	"os"
	"os/exec"
	"runtime"
	"strconv"
	"strings"
	"sync"
	"sync/atomic"
	"time"

	"github.com/paulmach/osm"
	"github.com/paulmach/osm/osmpbf"
	"verif/harness/pbfgen"
	"verif/harness/pbfwire"
	"verif/harness/wire"
)

type config struct {
	SkipNodes, SkipWays, SkipRelations bool
	Node, Way, Relation                pbfwire.Pred
}

type run struct {
	Cfg    config        `json:"config"`
	Procs  []int         `json:"procs"`
	Cons   []string      `json:"consumer"` // per entry of procs: "passive" or "writes-into-and-appends-to-returned-objects"
	Status int           `json:"status"`
	Err    string        `json:"err,omitempty"`
	Objs   []pbfwire.Obs `json:"objects"`
	Stable bool          `json:"stable"`
	Moved  string        `json:"modified_object,omitempty"`
}

// consume is what the consumer does with an object right after it took its snapshot: nothing
// (passive), or what a consumer that owns the object may do: overwrite entries of its slices in
// place and append to them.  Returned objects must not share memory that makes this visible in
// any other object.
func consume(o osm.Object) {
	tag := osm.Tag{Key: "consumer", Value: "appended"}
	switch v := o.(type) {
	case *osm.Node:
		for i := range v.Tags {
			v.Tags[i].Value = "consumer-overwrote"
		}
		v.Tags = append(v.Tags, tag)
	case *osm.Way:
		for i := range v.Tags {
			v.Tags[i].Value = "consumer-overwrote"
		}
		v.Tags = append(v.Tags, tag)
		for i := range v.Nodes {
			v.Nodes[i].Lat, v.Nodes[i].Lon = 12.5, -12.5
		}
		v.Nodes = append(v.Nodes, osm.WayNode{ID: -12345, Lat: 1, Lon: 2})
	case *osm.Relation:
		for i := range v.Tags {
			v.Tags[i].Value = "consumer-overwrote"
		}
		v.Tags = append(v.Tags, tag)
		for i := range v.Members {
			v.Members[i].Role = "consumer-overwrote"
		}
		v.Members = append(v.Members, osm.Member{Type: osm.TypeNode, Ref: -12345, Role: "consumer"})
	}
}

// lateConfig: how long the caller does other things between osmpbf.New and setting the Skip* / Filter*
// fields (they are plain struct fields and can only be set after New returned).  The configuration
// must be honoured for EVERY block, also when the caller is slow: a scanner that starts decoding
// inside New would decode the first blocks (small files: all of them) unconfigured.
const lateConfig = 10 * time.Millisecond

func scan(data []byte, procs int, cf *config, active bool, late bool) (objs []pbfwire.Obs, status int, errs string, stable bool, moved string) {
	sc := osmpbf.New(context.Background(), bytes.NewReader(data), procs)
	defer sc.Close()
	if late {
		runtime.Gosched() // let any goroutine New may have started run
		time.Sleep(lateConfig)
		runtime.Gosched()
	}
	if cf != nil {
		sc.SkipNodes, sc.SkipWays, sc.SkipRelations = cf.SkipNodes, cf.SkipWays, cf.SkipRelations
		if cf.Node.Code != 0 {
			sc.FilterNode = func(n *osm.Node) bool { o := pbfwire.Snapshot(n); return cf.Node.EvalObs(&o) }
		}
		if cf.Way.Code != 0 {
			sc.FilterWay = func(w *osm.Way) bool { o := pbfwire.Snapshot(w); return cf.Way.EvalObs(&o) }
		}
		if cf.Relation.Code != 0 {
			sc.FilterRelation = func(r *osm.Relation) bool { o := pbfwire.Snapshot(r); return cf.Relation.EvalObs(&o) }
		}
	}
	var kept []osm.Object
	var left []pbfwire.Obs // the state the consumer left the object in
	for sc.Scan() {
		o := sc.Object()
		kept = append(kept, o)
		objs = append(objs, pbfwire.Snapshot(o))
		if active {
			consume(o)
			left = append(left, pbfwire.Snapshot(o))
		} else {
			left = append(left, objs[len(objs)-1])
		}
	}
	stable = true
	for i, o := range kept {
		again := pbfwire.Snapshot(o)
		if !again.Equal(&left[i]) {
			stable = false
			moved = fmt.Sprintf("object %d (%v) changed after it was returned: %+v -> %+v", i, o.ObjectID(), left[i], again)
			break
		}
	}
	if err := sc.Err(); err != nil {
		return objs, 1, err.Error(), stable, moved
	}
	return objs, 0, "", stable, moved
}

type fileCase struct {
	Desc       *pbfgen.FileDesc `json:"desc"`
	UStatus    int              `json:"unfiltered_status"`
	UErr       string           `json:"unfiltered_err,omitempty"`
	Unfiltered []pbfwire.Obs    `json:"unfiltered"`
	Runs       []run            `json:"runs"`
	Note       string           `json:"note,omitempty"`
}

func buildCase(d *pbfgen.FileDesc, cfgs []config, procsOf func(k int) []int, class string, mutate func(fc *fileCase) bool) (*wire.Case, bool, error) {
	data, frames := pbfgen.Encode(d)
	payloads, err := pbfwire.Payloads(data, frames)
	if err != nil {
		return nil, false, err
	}
	fc := &fileCase{Desc: d}
	described := true
	for _, b := range d.Blocks {
		if hasPlain(b) {
			described = false
		}
	}
	un, st, es, _, _ := scan(data, 1, nil, false, false)
	if st != 0 && described {
		return nil, false, fmt.Errorf("unfiltered scan failed: %s", es)
	}
	fc.Unfiltered, fc.UStatus, fc.UErr = un, st, es
	if externalRuns != nil { // runs observed elsewhere (forced-overlap class: in a child process)
		fc.Runs = externalRuns
		cfgs = nil
	}
	for k := range cfgs {
		cf := cfgs[k]
		for pi, p := range procsOf(k) {
			// every second run is consumed by the consumer that writes into what it was given
			active := (pi+k)%2 == 1
			cons := "passive"
			if active {
				cons = "writes-into-and-appends-to-returned-objects"
			}
			// the first configuration of every file (every decoder count of it) is set some time after New
			late := k == 0
			if late {
				cons += "+configured-10ms-after-New"
			}
			objs, st, es, stable, moved := scan(data, p, &cf, active, late)
			merged := false
			for i := range fc.Runs {
				r := &fc.Runs[i]
				if r.Cfg == cf && r.Status == st && r.Stable == stable && pbfwire.EqualObs(r.Objs, objs) {
					r.Procs = append(r.Procs, p)
					r.Cons = append(r.Cons, cons)
					merged = true
					break
				}
			}
			if !merged {
				fc.Runs = append(fc.Runs, run{Cfg: cf, Procs: []int{p}, Cons: []string{cons}, Status: st, Err: es, Objs: objs, Stable: stable, Moved: moved})
			}
		}
	}
	applied := true
	if mutate != nil {
		applied = mutate(fc)
	}
	c := &wire.Case{Class: class, Desc: fc}
	pool := pbfwire.NewPool()
	for i := range fc.Unfiltered {
		fc.Unfiltered[i].Intern(pool)
	}
	for i := range fc.Runs {
		for j := range fc.Runs[i].Objs {
			fc.Runs[i].Objs[j].Intern(pool)
		}
	}
	pool.Put(c)
	pi := 0
	if d.Header != nil {
		pi = 1
	}
	c.Len(len(d.Blocks))
	for i, b := range d.Blocks {
		if hasPlain(b) {
			c.Bool(false) // no description: the language has no plain nodes
		} else {
			c.Bool(true)
			if err := pbfwire.PutBlockDesc(c, b); err != nil {
				return nil, false, err
			}
		}
		tr, err := pbfgen.Parse(payloads[pi+i], pbfgen.BlockSchema)
		if err != nil {
			return nil, false, err
		}
		if err := pbfwire.PutTree(c, tr); err != nil {
			return nil, false, err
		}
	}
	c.Int(int64(fc.UStatus)).Len(len(fc.Unfiltered))
	for i := range fc.Unfiltered {
		fc.Unfiltered[i].Put(c, pool)
	}
	c.Len(len(fc.Runs))
	nontrivial := false
	for i := range fc.Runs {
		r := &fc.Runs[i]
		c.Bool(r.Cfg.SkipNodes).Bool(r.Cfg.SkipWays).Bool(r.Cfg.SkipRelations)
		r.Cfg.Node.Put(c)
		r.Cfg.Way.Put(c)
		r.Cfg.Relation.Put(c)
		c.Len(len(r.Procs))
		for _, p := range r.Procs {
			c.Int(int64(p))
		}
		c.Int(int64(r.Status)).Len(len(r.Objs))
		for j := range r.Objs {
			r.Objs[j].Put(c, pool)
		}
		c.Bool(r.Stable)
		if len(r.Objs) > 0 && len(r.Objs) < len(fc.Unfiltered) {
			nontrivial = true
		}
	}
	c.Trivial = !nontrivial
	return c, applied, nil
}

// externalRuns, when non-nil, replaces the scans of the next buildCase call.
var externalRuns []run

// ---- overlapping decodes, FORCED (as harness/cmd/c02 does for the order property): procs = 2, the
// FilterNode callback of the first node of block 0 holds its decoder inside Decode until the other
// decoder has run the callback for the last node of block 1 (or 300 ms have passed).  The filtered
// result must be exactly the kept subsequence while a filter blocks.  Runs in a child process and
// before everything else: decoders that share state may crash instead of answering, and a crash must
// be an observation, not the end of the harness.
func overlapFile(seed int64) *pbfgen.FileDesc {
	rng := wire.Rng(seed)
	d := &pbfgen.FileDesc{Header: &pbfgen.Header{Required: []string{"OsmSchema-V0.6", "DenseNodes"}}}
	for blk := int64(0); blk < 6; blk++ {
		b := &pbfgen.Block{Strings: []string{""}}
		b.Zlib = rng.Intn(2) == 0
		dn := &pbfgen.Dense{HasInfo: true, Cols: pbfgen.InfoFields{Version: true, UserSid: true}, HasKeysVals: true}
		n := 3 + rng.Intn(4)
		for k := int64(0); k < int64(n); k++ {
			nd := pbfgen.DenseNode{ID: 1000*blk + k + 1, Lat: 10*blk + k, Lon: -k, Info: pbfgen.Info{Version: int32(1 + rng.Intn(5)), UserSid: b.Sid(fmt.Sprintf("user%d", blk)), Visible: true}}
			for t := rng.Intn(3); t > 0; t-- {
				nd.Tags = append(nd.Tags, b.Tag(fmt.Sprintf("k%d", t), fmt.Sprintf("block%d", blk)))
			}
			dn.Nodes = append(dn.Nodes, nd)
		}
		b.Groups = []*pbfgen.Group{{Items: []pbfgen.Item{{Dense: dn}}}}
		d.Blocks = append(d.Blocks, b)
	}
	return d
}

func overlapCfg(seed int64) config {
	return config{Node: pbfwire.Pred{Code: 2, A: 2, B: seed & 1}}
}

type overlapResult struct {
	Objs   []pbfwire.Obs `json:"objs"`
	Status int           `json:"status"`
	Err    string        `json:"err"`
	Stable bool          `json:"stable"`
}

func overlapChild(seed int64) {
	d := overlapFile(seed)
	cf := overlapCfg(seed)
	data, _ := pbfgen.Encode(d)
	first := d.Blocks[0].Groups[0].Items[0].Dense.Nodes[0].ID
	b1 := d.Blocks[1].Groups[0].Items[0].Dense.Nodes
	lastOfB := b1[len(b1)-1].ID
	gate := make(chan struct{})
	var once sync.Once
	var bDone int32
	sc := osmpbf.New(context.Background(), bytes.NewReader(data), 2)
	sc.FilterNode = func(n *osm.Node) bool {
		id := int64(n.ID)
		if id == first {
			select {
			case <-gate:
			case <-time.After(300 * time.Millisecond):
			}
		}
		if id == lastOfB && atomic.CompareAndSwapInt32(&bDone, 0, 1) {
			go func() { time.Sleep(2 * time.Millisecond); once.Do(func() { close(gate) }) }()
		}
		return cf.Node.Eval(id, n.Version, len(n.Tags))
	}
	var res overlapResult
	var kept []osm.Object
	for sc.Scan() {
		o := sc.Object()
		kept = append(kept, o)
		res.Objs = append(res.Objs, pbfwire.Snapshot(o))
	}
	res.Stable = true
	for i, o := range kept {
		again := pbfwire.Snapshot(o)
		if !again.Equal(&res.Objs[i]) {
			res.Stable = false
		}
	}
	if err := sc.Err(); err != nil {
		res.Status, res.Err = 1, err.Error()
	}
	sc.Close()
	b, _ := json.Marshal(res)
	fmt.Println("OVERLAP-RESULT " + string(b))
}

// overlapCase runs the child and builds an ordinary C08 case from what it printed (judged in Coq like
// every other run: model = observed, observed = kept subsequence of the unfiltered scan).  bad = the
// child crashed, hung, or answered something else than the kept subsequence.
func overlapCase(seed int64, mutate func(fc *fileCase) bool) (*wire.Case, bool, error) {
	d := overlapFile(seed)
	cf := overlapCfg(seed)
	cmd := exec.Command(os.Args[0], "--overlap-child", strconv.FormatInt(seed, 10))
	var out, errb bytes.Buffer
	cmd.Stdout, cmd.Stderr = &out, &errb
	done := make(chan error, 1)
	if err := cmd.Start(); err != nil {
		return nil, false, err
	}
	go func() { done <- cmd.Wait() }()
	var runErr error
	select {
	case runErr = <-done:
	case <-time.After(20 * time.Second):
		cmd.Process.Kill()
		runErr = fmt.Errorf("child did not finish within 20 s")
	}
	var res overlapResult
	got := false
	for _, l := range strings.Split(out.String(), "\n") {
		if strings.HasPrefix(l, "OVERLAP-RESULT ") {
			got = json.Unmarshal([]byte(strings.TrimPrefix(l, "OVERLAP-RESULT ")), &res) == nil
		}
	}
	r := run{Cfg: cf, Procs: []int{2}, Cons: []string{"passive; FilterNode holds the decoder of block 0 inside Decode until the other decoder has finished block 1 (child process)"},
		Status: res.Status, Err: res.Err, Objs: res.Objs, Stable: res.Stable}
	oracle := ""
	if !got {
		head := strings.SplitN(strings.TrimSpace(errb.String()), "\n", 2)[0]
		r.Status, r.Stable, r.Objs = 2, true, nil // crash: reported to Coq as a panic of the scan
		r.Err = fmt.Sprintf("%v: %s", runErr, head)
		oracle = "the scan crashed or hung with two decoders inside Decode at the same time (filter blocking): " + r.Err
	}
	externalRuns = []run{r}
	c, _, err := buildCase(d, nil, nil, "overlap", mutate)
	externalRuns = nil
	if err != nil {
		return nil, false, err
	}
	if oracle != "" {
		c.OracleFail = oracle
	}
	// bad: not the kept subsequence of the file's elements
	var want []int64
	for _, e := range pbfgen.Elements(d) {
		if cf.Node.Eval(e.ID, int(e.Version), len(e.Tags)) {
			want = append(want, e.ID)
		}
	}
	bad := !got || res.Status != 0 || !res.Stable || len(res.Objs) != len(want)
	for i := 0; !bad && i < len(want); i++ {
		bad = res.Objs[i].ID != want[i]
	}
	return c, bad, nil
}

func hasPlain(b *pbfgen.Block) bool {
	for _, g := range b.Groups {
		for _, it := range g.Items {
			if it.Node != nil {
				return true
			}
		}
	}
	return false
}

func pred3(t [3]int64) pbfwire.Pred { return pbfwire.Pred{Code: t[0], A: t[1], B: t[2]} }

func randPred(r *rand.Rand) pbfwire.Pred {
	if r.Intn(3) == 0 { // predicates that read the other fields of the element (wave 8)
		switch c := int64(8 + r.Intn(10)); c {
		case 8:
			return pbfwire.Pred{Code: 8, A: int64(1 + r.Intn(4))}
		case 10:
			return pbfwire.Pred{Code: 10, A: int64(1 + r.Intn(5000))}
		default:
			return pbfwire.Pred{Code: c}
		}
	}
	switch r.Intn(10) {
	case 0:
		return pbfwire.Pred{Code: 0}
	case 1:
		return pbfwire.Pred{Code: 1}
	case 2:
		k := int64(2 + r.Intn(3))
		return pbfwire.Pred{Code: 2, A: k, B: r.Int63n(k)}
	case 3:
		return pbfwire.Pred{Code: 3}
	case 4:
		return pbfwire.Pred{Code: 4}
	case 8, 9: // an id range, kept or rejected (ordinary ids are 1..5000 and ascending within a dense group)
		lo := r.Int63n(5000)
		return pbfwire.Pred{Code: int64(6 + r.Intn(2)), A: lo, B: lo + r.Int63n(2500)}
	}
	return pbfwire.Pred{Code: 5, A: int64(2 + r.Intn(8))}
}

var procsAll = []int{1, 2, 3, 7, 16}

type canary struct {
	name string
	f    func(fc *fileCase) bool
}

var canaries = []canary{
	{"extra-object", func(fc *fileCase) bool { // a rejected element leaks through
		for i := range fc.Runs {
			r := &fc.Runs[i]
			if len(r.Objs) < len(fc.Unfiltered) {
				// insert the first unfiltered object that is missing, at the front
				r.Objs = append([]pbfwire.Obs{fc.Unfiltered[len(fc.Unfiltered)-1]}, r.Objs...)
				return true
			}
		}
		return false
	}},
	{"missing-object", func(fc *fileCase) bool {
		for i := range fc.Runs {
			if n := len(fc.Runs[i].Objs); n > 0 {
				fc.Runs[i].Objs = fc.Runs[i].Objs[1:]
				return true
			}
		}
		return false
	}},
	{"leaked-tag", func(fc *fileCase) bool { // a rejected element's tags leak into an accepted one
		for i := range fc.Runs {
			if n := len(fc.Runs[i].Objs); n > 0 {
				o := &fc.Runs[i].Objs[n-1]
				o.Tags = append([][2]string{{"leaked", "tag"}}, o.Tags...)
				return true
			}
		}
		return false
	}},
	{"leaked-meta", func(fc *fileCase) bool {
		for i := range fc.Runs {
			if n := len(fc.Runs[i].Objs); n > 0 {
				fc.Runs[i].Objs[n-1].Version += 3
				return true
			}
		}
		return false
	}},
	{"leaked-node", func(fc *fileCase) bool {
		for i := range fc.Runs {
			for j := range fc.Runs[i].Objs {
				if o := &fc.Runs[i].Objs[j]; o.Kind == 1 {
					o.Nodes = append(o.Nodes, [3]int64{99, 0, 0})
					return true
				}
			}
		}
		return false
	}},
	{"leaked-member", func(fc *fileCase) bool {
		for i := range fc.Runs {
			for j := range fc.Runs[i].Objs {
				if o := &fc.Runs[i].Objs[j]; o.Kind == 2 {
					o.Members = append(o.Members, pbfwire.ObsMember{Type: 1, Ref: 99})
					return true
				}
			}
		}
		return false
	}},
	{"reordered", func(fc *fileCase) bool {
		for i := range fc.Runs {
			o := fc.Runs[i].Objs
			for j := 0; j+1 < len(o); j++ {
				if !o[j].Equal(&o[j+1]) {
					o[j], o[j+1] = o[j+1], o[j]
					return true
				}
			}
		}
		return false
	}},
	{"unstable", func(fc *fileCase) bool {
		fc.Runs[0].Stable = false
		return true
	}},
	{"error-status", func(fc *fileCase) bool {
		fc.Runs[len(fc.Runs)-1].Status = 1
		return true
	}},
}

func main() {
	if len(os.Args) == 3 && os.Args[1] == "--overlap-child" {
		seed, _ := strconv.ParseInt(os.Args[2], 10, 64)
		overlapChild(seed)
		return
	}
	a := wire.ParseArgs()
	w := wire.NewWriter("C08", a.Seed, a.Tier)
	w.Rule = "one case per generated PBF file (pbfgen.RandomFile, denser groups than C01) scanned unfiltered and under 4-8 configurations (all 8 skip-flag combinations cycling, predicates accept-all/reject-all/id mod k/has-tag/even version/hashed id per element type) x decoder counts from {1,2,3,7,16}, with deep snapshots at return time re-compared at end of scan (every second run: the consumer overwrites the slice entries of each object it is handed and appends to them, and the final comparison is against the state it left); files carry first-class zero values and member types outside the enum, every 5th is a headerless restart stream of 2-6 non-empty blocks; predicates also id-range kept/rejected and, a third of them, predicates on the other fields (number of way nodes / members, closed, contains ref, visible, has timestamp, changeset / uid parity, user, coordinates, empty tag key or value) evaluated on a snapshot of the object the filter callback receives; plus pbfgen.DirectedCorpus under each file's own configuration (incl. plain-node groups, shipped as trees without description); first of all three forced-overlap cases (procs 2, child process: the FilterNode callback of the first node of block 0 holds its decoder inside Decode until the other decoder has finished block 1; a crash is an observation); the first configuration of every file is assigned 10 ms (and two scheduler yields) after osmpbf.New returned, for every decoder count of the file; non-trivial = some run returns a proper non-empty subsequence"
	rng := wire.Rng(a.Seed)
	nfiles, ncfg, nprocs := int(40*a.Scale), 4, 2
	if a.Tier == "thorough" {
		nfiles, ncfg, nprocs = int(600*a.Scale), 8, 5
	}
	fail := func(err error) {
		fmt.Fprintln(os.Stderr, "c08:", err)
		os.Exit(3)
	}
	// forced overlapping decodes first, in child processes (see overlapChild).  If two decoders cannot be
	// inside Decode at the same time the in-process classes below would crash this process and lose
	// the observation: they are skipped then, the overlap cases (and two canaries made of them) are
	// the whole run.
	unsafeDecoders := false
	for i := 0; i < 3; i++ {
		c, bad, err := overlapCase(a.Seed*53+int64(i), nil)
		if err != nil {
			fail(err)
		}
		w.Add(c)
		w.Count("overlap")
		if bad {
			unsafeDecoders = true
		}
	}
	if unsafeDecoders {
		for _, cn := range canaries[len(canaries)-2:] { // "unstable", "error-status"
			c, _, err := overlapCase(a.Seed*53, func(fc *fileCase) bool {
				fc.Note = "CANARY: observation deliberately corrupted: " + cn.name
				return cn.f(fc)
			})
			if err != nil {
				fail(err)
			}
			c.Canary, c.OracleFail, c.Class = 1, "", "canary:"+cn.name
			w.Add(c)
		}
		w.Notes = append(w.Notes, "overlapping decodes misbehave while a filter blocks: the in-process classes were skipped")
		if err := w.Flush(a.Out, "Verif.C08.Check", 6); err != nil {
			fail(err)
		}
		return
	}
	type job struct {
		d    *pbfgen.FileDesc
		cfgs []config
	}
	var jobs []job
	combo := 0
	// directed corpus first: each file under its own configuration (all its decoder counts), under the
	// same predicates without skip flags, and under two random configurations
	for _, dc := range pbfgen.DirectedCorpusTier(a.Tier == "thorough") {
		own := config{SkipNodes: dc.SkipNodes, SkipWays: dc.SkipWays, SkipRelations: dc.SkipRelations,
			Node: pred3(dc.Node), Way: pred3(dc.Way), Relation: pred3(dc.Relation)}
		noskip := own
		noskip.SkipNodes, noskip.SkipWays, noskip.SkipRelations = false, false, false
		cfgs := []config{own, noskip,
			{SkipNodes: dc.SkipNodes, Node: randPred(rng), Way: randPred(rng), Relation: randPred(rng)},
			{SkipWays: true, Node: randPred(rng), Way: randPred(rng), Relation: randPred(rng)},
			// predicates on what the element CONTAINS: ways with at least two nodes, closed relations, node coordinates
			{Node: pbfwire.Pred{Code: 16}, Way: pbfwire.Pred{Code: 8, A: 2}, Relation: pbfwire.Pred{Code: 8, A: 1}}}
		procs := dc.Procs
		c, _, err := buildCase(dc.Desc, cfgs, func(k int) []int {
			if k == 0 || a.Tier == "thorough" {
				return procs
			}
			if len(procs) < 2 {
				return procs
			}
			return procs[k%2 : k%2+1]
		}, "directed:"+dc.Name, nil)
		if err != nil {
			fail(err)
		}
		w.Add(c)
		w.Count("directed")
	}
	// size classes of element messages x every combination of skip flags (wave 8): one DenseNodes / Way /
	// Relation message just below and just above 128 and 16384 bytes (2- and 3-byte length prefix) among
	// small elements of every kind; a skipped message must be skipped whole, whatever its size
	for _, kind := range []byte{'d', 'w', 'r'} {
		for _, target := range []int{128, 16384} {
			for _, above := range []bool{false, true} {
				if target == 16384 && !above && a.Tier != "thorough" && kind != 'd' {
					continue // quick: the three "just above" messages and one "just below"
				}
				d := pbfgen.SizedFile(kind, target, above)
				var cfgs []config
				bit := map[byte]int{'d': 1, 'w': 2, 'r': 4}[kind]
				for m := 0; m < 8; m++ {
					// 16 KiB messages in the quick tier: the four combinations that skip the big kind and the one
					// without flags (each run that returns the big message costs ~2 s in Coq); all eight otherwise
					if target == 16384 && a.Tier != "thorough" && m != 0 && m&bit == 0 {
						continue
					}
					cfgs = append(cfgs, config{SkipNodes: m&1 != 0, SkipWays: m&2 != 0, SkipRelations: m&4 != 0})
				}
				c, _, err := buildCase(d, cfgs, func(k int) []int { return []int{1 + k%2} }, fmt.Sprintf("message-size:%c:%d:above=%v", kind, target, above), nil)
				if err != nil {
					fail(err)
				}
				w.Add(c)
				w.Count("message-size")
			}
		}
	}
	for i := 0; i < nfiles; i++ {
		opts := pbfgen.Opts{MaxItems: 7, MaxTags: 4, MinBlocks: 1, MaxBlocks: 4, ZeroPct: 10, UnknownMemberPct: 15}
		if i%5 == 4 { // a stream that starts with data (restart at an offset): several blocks
			opts.NoHeader, opts.MinBlocks, opts.MaxBlocks, opts.MinElements = true, 2, 6, 1
			w.Count("headerless")
		}
		switch i % 4 {
		case 1:
			opts.Kinds, opts.MaxItems = "d", 12
		case 2:
			opts.Kinds = "wr"
		case 3:
			opts.MixedPct = 60
		}
		d := pbfgen.RandomFile(rng, opts)
		if err := pbfgen.Validate(d); err != nil {
			fail(err)
		}
		var cfgs []config
		for k := 0; k < ncfg; k++ {
			cf := config{SkipNodes: combo&1 != 0, SkipWays: combo&2 != 0, SkipRelations: combo&4 != 0,
				Node: randPred(rng), Way: randPred(rng), Relation: randPred(rng)}
			if k%2 == 1 { // filters without skip flags: the reuse paths
				cf.SkipNodes, cf.SkipWays, cf.SkipRelations = false, false, false
			} else {
				combo++
			}
			cfgs = append(cfgs, cf)
			w.Count(fmt.Sprintf("skip:%v/%v/%v", cf.SkipNodes, cf.SkipWays, cf.SkipRelations))
			w.Count(fmt.Sprintf("pred-node:%d", cf.Node.Code))
			w.Count(fmt.Sprintf("pred-way:%d", cf.Way.Code))
			w.Count(fmt.Sprintf("pred-relation:%d", cf.Relation.Code))
		}
		jobs = append(jobs, job{d, cfgs})
		procsOf := func(k int) []int {
			if nprocs >= len(procsAll) {
				return procsAll
			}
			return []int{1, procsAll[1+(i+k)%4]}
		}
		c, _, err := buildCase(d, cfgs, procsOf, "random", nil)
		if err != nil {
			fail(err)
		}
		w.Add(c)
	}
	crng := rand.New(rand.NewSource(a.Seed + 1))
	for _, cn := range canaries {
		done := false
		start := crng.Intn(len(jobs))
		for k := 0; k < len(jobs) && !done; k++ {
			j := jobs[(start+k)%len(jobs)]
			c, applied, err := buildCase(j.d, j.cfgs[:2], func(int) []int { return []int{1, 3} }, "canary:"+cn.name, func(fc *fileCase) bool {
				fc.Note = "CANARY: observation deliberately corrupted: " + cn.name
				return cn.f(fc)
			})
			if err != nil {
				fail(err)
			}
			if applied {
				c.Canary = 1
				w.Add(c)
				done = true
			}
		}
		if !done {
			w.Notes = append(w.Notes, "canary "+cn.name+" not applicable to any generated file")
		}
	}
	if err := w.Flush(a.Out, "Verif.C08.Check", 6); err != nil {
		fail(err)
	}
}
