// c11: correspondence harness for property C11 (annotation reconstructs, for any time, the child
// versions that were current).  Each generated edit history is annotated with the real
// annotate.Ways / annotate.Relations; then, for every visible parent version and a set of query
// times, the implementation's own ApplyUpdatesUpTo(t) is run on a deep copy.  Coq compares all of it
// with the model (judgement 1) and with the ground truth current_at (judgement 2, the time-travel
// oracle).
package main

import (
	"fmt"
	"math/rand"
	"sort"
	"time"

	"github.com/paulmach/osm"
	"verif/harness/annot"
	"verif/harness/wire"
)

type tobs struct {
	pidx    int
	t       time.Time
	status  int
	refs    []annot.Ref
	pending int
}

func stampOf(ts time.Time, com *time.Time) time.Time {
	if com == nil || com.Before(osm.CommitInfoStart) {
		return ts
	}
	return *com
}

// queryTimes: every event time, +-1ns, +-threshold, before all and after all; those inside the
// window of parent pidx first.
func queryTimes(rng *rand.Rand, in *annot.Input, pidx int, max int) []time.Time {
	seen := map[int64]bool{}
	var all []time.Time
	add := func(t time.Time) {
		if !seen[t.UnixNano()] {
			seen[t.UnixNano()] = true
			all = append(all, t)
		}
	}
	var ev []time.Time
	for _, p := range in.Parents {
		ev = append(ev, stampOf(p.Timestamp, p.Committed))
	}
	for _, h := range in.Hists {
		for _, v := range h.Versions {
			ev = append(ev, stampOf(v.Timestamp, v.Committed))
		}
	}
	for _, e := range ev {
		add(e)
		add(e.Add(1))
		add(e.Add(-1))
		add(e.Add(in.Threshold))
		add(e.Add(-in.Threshold))
		add(e.Add(-in.Threshold - 1))
	}
	sort.Slice(all, func(i, j int) bool { return all[i].Before(all[j]) })
	add(all[0].Add(-time.Hour))
	add(all[len(all)-1].Add(time.Hour))
	p := in.Parents[pidx]
	lo := stampOf(p.Timestamp, p.Committed)
	var inw, outw []time.Time
	for _, t := range all {
		ok := !t.Before(lo)
		if ok && pidx+1 < len(in.Parents) {
			np := in.Parents[pidx+1]
			ok = t.Before(stampOf(np.Timestamp, np.Committed).Add(-in.Threshold))
		}
		if ok {
			inw = append(inw, t)
		} else {
			outw = append(outw, t)
		}
	}
	rng.Shuffle(len(inw), func(i, j int) { inw[i], inw[j] = inw[j], inw[i] })
	rng.Shuffle(len(outw), func(i, j int) { outw[i], outw[j] = outw[j], outw[i] })
	var res []time.Time
	nin := max - 2
	if nin > len(inw) {
		nin = len(inw)
	}
	res = append(res, inw[:nin]...)
	for _, t := range outw {
		if len(res) >= max {
			break
		}
		res = append(res, t)
	}
	return res
}

func applyAt(in *annot.Input, o *annot.Outcome, pidx int, t time.Time) tobs {
	ob := tobs{pidx: pidx, t: t}
	if !in.IsRel {
		// a shallow copy: the Updates slice is shared with the annotated original, as a consumer
		// reconstructing several snapshots would do (ApplyUpdatesUpTo only reads the list)
		w := o.Built.Ways[pidx]
		c := *w
		c.Nodes = append(osm.WayNodes(nil), w.Nodes...)
		if err := c.ApplyUpdatesUpTo(t); err != nil {
			ob.status = 1
			return ob
		}
		for _, n := range c.Nodes {
			ob.refs = append(ob.refs, annot.Ref{FID: n.FeatureID(), Version: n.Version, Changeset: int64(n.ChangesetID), Lat: n.Lat, Lon: n.Lon})
		}
		ob.pending = len(c.Updates)
		return ob
	}
	r := o.Built.Relations[pidx]
	c := *r
	c.Members = append(osm.Members(nil), r.Members...)
	if err := c.ApplyUpdatesUpTo(t); err != nil {
		ob.status = 1
		return ob
	}
	for _, m := range c.Members {
		ob.refs = append(ob.refs, annot.Ref{FID: m.FeatureID(), Version: m.Version, Changeset: int64(m.ChangesetID), Lat: m.Lat, Lon: m.Lon, Orient: int(m.Orientation)})
	}
	ob.pending = len(c.Updates)
	return ob
}

func encObs(c *wire.Case, obs []tobs) {
	c.Len(len(obs))
	for _, ob := range obs {
		c.Int(int64(ob.pidx)).Int(ob.t.UnixNano()).Int(int64(ob.status))
		c.Len(len(ob.refs))
		for _, r := range ob.refs {
			c.Int(int64(r.FID)).Int(int64(r.Version)).Int(r.Changeset).Int(int64(r.Lat)).Int(int64(r.Lon)).Int(int64(r.Orient))
		}
		c.Len(ob.pending)
	}
}

func encAfter(c *wire.Case, after []osm.Updates) {
	c.Len(len(after))
	for _, us := range after {
		c.Len(len(us))
		for _, u := range us {
			annot.EncUpdate(c, u)
		}
	}
}

func descObs(obs []tobs) interface{} {
	var l []interface{}
	for _, ob := range obs {
		var rs []string
		for _, r := range ob.refs {
			rs = append(rs, fmt.Sprintf("%v:v%d cs%d (%v,%v) o%d", r.FID, r.Version, r.Changeset, r.Lat, r.Lon, r.Orient))
		}
		l = append(l, map[string]interface{}{"parent": ob.pidx + 1, "t": ob.t.UTC().Format(time.RFC3339Nano), "status": ob.status, "state": rs, "pending": ob.pending})
	}
	return l
}

func mainCase(w *wire.Writer, rng *rand.Rand, in *annot.Input, ntimes int, class string) (*wire.Case, *annot.Outcome, []tobs) {
	return stepCase(w, rng, in, in.Run(), ntimes, class, nil)
}

// stepCase: [in] is the input the Coq model receives, [o] what the implementation returned for it
// (possibly as the last call of a sequence described in extra).
func stepCase(w *wire.Writer, rng *rand.Rand, in *annot.Input, o *annot.Outcome, ntimes int, class string, extra map[string]interface{}) (*wire.Case, *annot.Outcome, []tobs) {
	c := &wire.Case{Class: class}
	c.Int(1)
	in.Encode(c)
	o.Encode(c)
	var obs []tobs
	var beforeLists []osm.Updates
	if o.Status == 0 {
		// snapshot of the update lists at return time: the snapshots below must not change them
		for _, us := range o.Updates {
			beforeLists = append(beforeLists, append(osm.Updates(nil), us...))
		}
		for pidx, p := range in.Parents {
			if !p.Visible {
				continue
			}
			for _, t := range queryTimes(rng, in, pidx, ntimes) {
				obs = append(obs, applyAt(in, o, pidx, t))
			}
		}
	}
	encObs(c, obs)
	// the update lists of the annotated objects AFTER the observations on shallow copies (Coq compares
	// them with the lists at return time; the Go comparison below is the fallback oracle)
	var after []osm.Updates
	if o.Status == 0 {
		_, after = o.Built.Observe()
		for i := range o.Updates {
			same := len(o.Updates[i]) == len(after[i])
			for k := 0; same && k < len(after[i]); k++ {
				same = beforeLists[i][k] == after[i][k]
			}
			if (!same || len(beforeLists[i]) != len(after[i])) && c.OracleFail == "" {
				c.OracleFail = fmt.Sprintf("ApplyUpdatesUpTo on a shallow copy changed the update list of the annotated parent version %d", i+1)
			}
		}
	}
	encAfter(c, after)
	desc := map[string]interface{}{"input": in.Desc(), "outcome": o.Desc(), "apply_updates_up_to": descObs(obs)}
	for k, v := range extra {
		desc[k] = v
	}
	c.Desc = desc
	w.Count(fmt.Sprintf("status:%d", o.Status))
	w.Count("regime:" + in.Regime)
	thr := "random<2h"
	for _, x := range annot.Thresholds {
		if x == in.Threshold {
			thr = x.String()
		}
	}
	w.Count("threshold:" + thr)
	if in.IsRel {
		w.Count("api:relations")
	} else {
		w.Count("api:ways")
	}
	if in.HasFilter {
		w.Count("opt:filter")
	}
	if in.AsChildren {
		w.Count("datasource:as_children")
	}
	for _, h := range in.Hists {
		if h.Kind == 0 && len(h.Versions) == 0 {
			w.Count("history:empty_without_error")
			break
		}
	}
	if in.IsRel {
		kinds := map[osm.Type]bool{}
		for _, p := range in.Parents {
			for _, r := range p.Refs {
				kinds[r.FID.Type()] = true
			}
		}
		w.Count(fmt.Sprintf("relation_member_kinds:%d", len(kinds)))
	}
	if in.IgnoreIncons {
		w.Count("opt:ignore_inconsistency")
	}
	if in.IgnoreMissing {
		w.Count("opt:ignore_missing")
	}
	nup := 0
	for _, us := range o.Updates {
		nup += len(us)
	}
	switch {
	case o.Status != 0:
	case nup == 0:
		w.Count("updates:0")
	case nup <= 5:
		w.Count("updates:1-5")
	default:
		w.Count("updates:>5")
	}
	w.Stats["observations"] += len(obs)
	c.Trivial = o.Status == 0 && nup == 0
	return c, o, obs
}

// boundaryHistory: two or three parent versions and one or two children whose versions sit exactly
// on the decision boundaries: the parent's own stamp, the next parent's stamp minus the threshold,
// plus/minus one nanosecond or one threshold.
func boundaryHistory(rng *rand.Rand) *annot.Input {
	in := &annot.Input{IsRel: rng.Intn(4) == 0}
	in.Threshold = []time.Duration{0, time.Second, 30 * time.Minute}[rng.Intn(3)]
	commit := rng.Intn(2) == 0
	base := osm.CommitInfoStart.Add(-3000 * 24 * time.Hour)
	in.Regime = "old"
	if commit {
		base = osm.CommitInfoStart.Add(50 * 24 * time.Hour)
		in.Regime = "commit"
	}
	populated := !commit && rng.Intn(2) == 0 // old data whose committed attribute is set (= timestamp)
	if populated {
		in.Regime = "oldcommit"
	}
	mk := func(t time.Time) (time.Time, *time.Time) {
		if commit || populated {
			c := t
			return t, &c
		}
		return t, nil
	}
	np := 2 + rng.Intn(2)
	var pt []time.Time
	for i := 0; i < np; i++ {
		pt = append(pt, base.Add(time.Duration(i+1)*5*time.Hour))
	}
	nch := 1 + rng.Intn(2)
	var fids []osm.FeatureID
	for i := 0; i < nch; i++ {
		fid := osm.NodeID(100 + i).FeatureID()
		fids = append(fids, fid)
		h := annot.Hist{FID: fid}
		ts, com := mk(base)
		h.Versions = append(h.Versions, annot.Hver{Version: 1, Changeset: 1, Timestamp: ts, Committed: com, Lat: 1, Lon: float64(i), Visible: true})
		// candidate stamps on the boundaries, increasing
		type candT struct {
			t   time.Time
			fwd int64 // changeset of the parent this stamp follows within the window, 0 = none
		}
		var cand []candT
		for pi, p := range pt {
			for _, d := range []time.Duration{-in.Threshold - 1, -in.Threshold, -in.Threshold + 1, -1, 0, 1, in.Threshold - 1, in.Threshold, in.Threshold + 1} {
				c := candT{t: p.Add(d)}
				if d > 0 {
					c.fwd = int64(500 + pi)
				}
				cand = append(cand, c)
			}
		}
		sort.Slice(cand, func(a, b int) bool { return cand[a].t.Before(cand[b].t) })
		v := 2
		for _, cd := range cand {
			t := cd.t
			if rng.Intn(4) != 0 || !t.After(base) {
				continue
			}
			ts, com := mk(t)
			cs := int64(10 + v)
			if cd.fwd != 0 && rng.Intn(2) == 0 {
				cs = cd.fwd // same-changeset forward grouping candidate
			} else if rng.Intn(3) == 0 {
				cs = int64(500 + rng.Intn(np)) // a parent's changeset
			}
			h.Versions = append(h.Versions, annot.Hver{Version: v, Changeset: cs, Timestamp: ts, Committed: com, Lat: float64(v), Lon: float64(i), Visible: true})
			v++
		}
		in.Hists = append(in.Hists, h)
	}
	for i := 0; i < np; i++ {
		ts, com := mk(pt[i])
		p := annot.Parent{Changeset: int64(500 + i), Visible: true, Timestamp: ts, Committed: com}
		for _, f := range fids {
			if rng.Intn(5) != 0 || len(p.Refs) == 0 {
				p.Refs = append(p.Refs, annot.Ref{FID: f})
			}
		}
		in.Parents = append(in.Parents, p)
	}
	in.ComputeReverse()
	return in
}

// errorFamily: the typed-error clause for every combination of the two ignore options and every
// kind of unusable child history: never listed, not found, empty, all versions deleted, deleted at
// the parent's time (undeleted later), lookup failing with another error.  The way also references one healthy node.
func errorFamily() []*annot.Input {
	var out []*annot.Input
	t0 := osm.CommitInfoStart.Add(200 * 24 * time.Hour)
	at := func(h int) (time.Time, *time.Time) { t := t0.Add(time.Duration(h) * time.Hour); c := t; return t, &c }
	good, bad := osm.NodeID(1).FeatureID(), osm.NodeID(2).FeatureID()
	for combo := 0; combo < 4; combo++ {
		for kind := 0; kind < 6; kind++ {
			in := &annot.Input{Threshold: 30 * time.Minute, Regime: "commit", IgnoreIncons: combo&1 != 0, IgnoreMissing: combo&2 != 0}
			ts, com := at(10)
			in.Parents = []annot.Parent{{Changeset: 1, Visible: true, Timestamp: ts, Committed: com, Refs: []annot.Ref{{FID: good}, {FID: bad}}}}
			g1, gc1 := at(1)
			g2, gc2 := at(20)
			in.Hists = []annot.Hist{{FID: good, Versions: []annot.Hver{{Version: 1, Changeset: 2, Timestamp: g1, Committed: gc1, Lat: 1, Lon: 1, Visible: true},
				{Version: 2, Changeset: 3, Timestamp: g2, Committed: gc2, Lat: 2, Lon: 2, Visible: true}}}}
			b1, bc1 := at(2)
			b2, bc2 := at(5)
			b3, bc3 := at(30)
			switch kind {
			case 0: // never listed
			case 1:
				in.Hists = append(in.Hists, annot.Hist{FID: bad, Kind: 1})
			case 2:
				in.Hists = append(in.Hists, annot.Hist{FID: bad, Kind: 0})
			case 3: // redacted: a single deleted version
				in.Hists = append(in.Hists, annot.Hist{FID: bad, Versions: []annot.Hver{{Version: 1, Changeset: 4, Timestamp: b1, Committed: bc1, Visible: false}}})
			case 4: // deleted when the way was written, undeleted later
				in.Hists = append(in.Hists, annot.Hist{FID: bad, Versions: []annot.Hver{
					{Version: 1, Changeset: 4, Timestamp: b1, Committed: bc1, Lat: 3, Lon: 3, Visible: true},
					{Version: 2, Changeset: 5, Timestamp: b2, Committed: bc2, Visible: false},
					{Version: 3, Changeset: 6, Timestamp: b3, Committed: bc3, Lat: 4, Lon: 4, Visible: true}}})
			case 5: // the datasource fails with an error that is not "not found": never swallowed by an option
				in.Hists = append(in.Hists, annot.Hist{FID: bad, Kind: 2})
			}
			out = append(out, in)
		}
	}
	return out
}

const canaryAfter = "canary: the update list of the annotated object changed after the snapshots (first update lost)"

// undeleteFamily: a child visible, then DELETED before the parent version, then undeleted after it
// (and variants with the deletion at the parent's own stamp, two deletions, the parent repeated),
// with and without IgnoreInconsistency, ways and relations, commit and timestamp regime.
func undeleteFamily() []*annot.Input {
	var out []*annot.Input
	for _, commit := range []bool{true, false} {
		for _, isRel := range []bool{false, true} {
			for variant := 0; variant < 3; variant++ {
				for _, ignore := range []bool{true, false} {
					base := osm.CommitInfoStart.Add(200 * 24 * time.Hour)
					regime := "commit"
					if !commit {
						base, regime = osm.CommitInfoStart.Add(-2000*24*time.Hour), "old"
					}
					at := func(h int) (time.Time, *time.Time) {
						t := base.Add(time.Duration(h) * time.Hour)
						if commit {
							c := t
							return t, &c
						}
						return t, nil
					}
					in := &annot.Input{IsRel: isRel, Threshold: 30 * time.Minute, Regime: regime, IgnoreIncons: ignore}
					fid, other := osm.NodeID(1).FeatureID(), osm.NodeID(2).FeatureID()
					mkv := func(v, h int, vis bool) annot.Hver {
						ts, com := at(h)
						return annot.Hver{Version: v, Changeset: int64(10 + v), Timestamp: ts, Committed: com, Lat: float64(v), Lon: 1, Visible: vis}
					}
					delAt := []int{6, 10, 4}[variant] // before the parent, at its stamp, before it (twice deleted)
					vs := []annot.Hver{mkv(1, 1, true), mkv(2, delAt, false)}
					if variant == 2 {
						vs = append(vs, mkv(3, 7, true), mkv(4, 8, false), mkv(5, 20, true), mkv(6, 30, true))
					} else {
						vs = append(vs, mkv(3, 20, true), mkv(4, 30, true))
					}
					in.Hists = []annot.Hist{{FID: fid, Versions: vs}, {FID: other, Versions: []annot.Hver{mkv(1, 2, true), mkv(2, 25, true)}}}
					pts, pcom := at(10)
					p2ts, p2com := at(40)
					in.Parents = []annot.Parent{
						{Changeset: 100, Visible: true, Timestamp: pts, Committed: pcom, Refs: []annot.Ref{{FID: other}, {FID: fid}, {FID: fid}}},
						{Changeset: 101, Visible: true, Timestamp: p2ts, Committed: p2com, Refs: []annot.Ref{{FID: fid}}}}
					out = append(out, in)
				}
			}
		}
	}
	return out
}

// lateFirstFamily: a child whose FIRST version appears shortly AFTER the parent version that
// references it (1ns, half a threshold, threshold -1ns / exactly / +1ns after it), in the parent's
// changeset or in another one, for thresholds default / 1s / 2h / 0, timestamp and commit regime,
// mostly under IgnoreInconsistency (the reference then stays unannotated and every version of the
// child must come as an update), next to a child with an ordinary history.
func lateFirstFamily() []*annot.Input {
	var out []*annot.Input
	k := 0
	for _, commit := range []bool{false, true} {
		for _, th := range []time.Duration{30 * time.Minute, time.Second, 2 * time.Hour, 0} {
			offs := []time.Duration{1, th / 2, th - 1, th, th + 1}
			if th == 0 {
				offs = []time.Duration{1, time.Second, time.Minute}
			}
			for _, d := range offs {
				for _, sameCS := range []bool{false, true} {
					base, regime := osm.CommitInfoStart.Add(-1800*24*time.Hour), "old"
					if commit {
						base, regime = osm.CommitInfoStart.Add(300*24*time.Hour), "commit"
					}
					at := func(dd time.Duration) (time.Time, *time.Time) {
						t := base.Add(dd)
						if commit {
							c := t
							return t, &c
						}
						return t, nil
					}
					in := &annot.Input{IsRel: k%2 == 1, Threshold: th, Regime: regime, IgnoreIncons: k%4 != 3}
					late, other := osm.NodeID(1).FeatureID(), osm.NodeID(2).FeatureID()
					pAt := 10 * time.Hour
					mkv := func(v int, dd time.Duration, cs int64) annot.Hver {
						ts, com := at(dd)
						return annot.Hver{Version: v, Changeset: cs, Timestamp: ts, Committed: com, Lat: float64(v), Lon: 2, Visible: true}
					}
					cs1 := int64(77)
					if sameCS {
						cs1 = 100
					}
					in.Hists = []annot.Hist{
						{FID: late, Versions: []annot.Hver{mkv(1, pAt+d, cs1), mkv(2, pAt+5*time.Hour, 78), mkv(3, pAt+30*time.Hour, 79)}},
						{FID: other, Versions: []annot.Hver{mkv(1, 2*time.Hour, 60), mkv(2, pAt+6*time.Hour, 61)}}}
					pts, pcom := at(pAt)
					p2ts, p2com := at(pAt + 40*time.Hour)
					in.Parents = []annot.Parent{
						{Changeset: 100, Visible: true, Timestamp: pts, Committed: pcom, Refs: []annot.Ref{{FID: other}, {FID: late}}},
						{Changeset: 101, Visible: true, Timestamp: p2ts, Committed: p2com, Refs: []annot.Ref{{FID: late}, {FID: other}}}}
					out = append(out, in)
					k++
				}
			}
		}
	}
	return out
}

// zeroCoordFamily: a child moved to latitude 0 and/or longitude 0 (exactly (0,0), the equator, the
// prime meridian) after the parent version and moved again later; also a child that STARTS there.
// Zero is an ordinary coordinate: every observed state must carry the location of the version current
// at that time.  Ways and relations, both regimes.
func zeroCoordFamily() []*annot.Input {
	var out []*annot.Input
	for _, commit := range []bool{true, false} {
		for _, isRel := range []bool{false, true} {
			for variant := 0; variant < 4; variant++ {
				base, regime := osm.CommitInfoStart.Add(400*24*time.Hour), "commit"
				if !commit {
					base, regime = osm.CommitInfoStart.Add(-1000*24*time.Hour), "old"
				}
				at := func(h int) (time.Time, *time.Time) {
					t := base.Add(time.Duration(h) * time.Hour)
					if commit {
						c := t
						return t, &c
					}
					return t, nil
				}
				in := &annot.Input{IsRel: isRel, Threshold: 30 * time.Minute, Regime: regime}
				a, b := osm.NodeID(1).FeatureID(), osm.NodeID(2).FeatureID()
				mkv := func(v, h int, lat, lon float64) annot.Hver {
					ts, com := at(h)
					return annot.Hver{Version: v, Changeset: int64(10 + v), Timestamp: ts, Committed: com, Lat: lat, Lon: lon, Visible: true}
				}
				z := [][2]float64{{0, 0}, {0, 33}, {44, 0}, {0, 0}}[variant]
				first := [2]float64{5, 6}
				if variant == 3 {
					first, z = [2]float64{0, 0}, [2]float64{8, 9}
				}
				in.Hists = []annot.Hist{
					{FID: a, Versions: []annot.Hver{mkv(1, 1, first[0], first[1]), mkv(2, 15, z[0], z[1]), mkv(3, 25, 7, 7), mkv(4, 50, 0, 0)}},
					{FID: b, Versions: []annot.Hver{mkv(1, 2, 1, 1), mkv(2, 20, 0, 0)}}}
				pts, pcom := at(10)
				p2ts, p2com := at(40)
				in.Parents = []annot.Parent{
					{Changeset: 100, Visible: true, Timestamp: pts, Committed: pcom, Refs: []annot.Ref{{FID: a}, {FID: b}, {FID: a}}},
					{Changeset: 101, Visible: true, Timestamp: p2ts, Committed: p2com, Refs: []annot.Ref{{FID: b}, {FID: a}}}}
				out = append(out, in)
			}
		}
	}
	return out
}

func main() {
	a := wire.ParseArgs()
	rng := wire.Rng(a.Seed)
	w := wire.NewWriter("C11", a.Seed, a.Tier)
	w.Rule = "edit histories: 1-5 parent versions, 1-6 children (repeats, entering, leaving), up to 8 versions per child placed before/between/after/in the same second as parent versions, deletions and undeletions, regimes commit / old / nocommit / mixed, thresholds 0,1s,30min,10000h,random; families: zero_coordinate (a child moved to (0,0) / latitude 0 / longitude 0 after the parent and moved again, or starting at (0,0); random histories also put a fifth of the coordinates on 0), late_first (a child whose first version appears 1ns / half a threshold / threshold-1ns / threshold / threshold+1ns AFTER the parent version referencing it, in the parent's changeset or another one, thresholds default / 1s / 2h / 0, both regimes, mostly under IgnoreInconsistency), undelete (a child deleted before / at the parent version and undeleted later, with and without IgnoreInconsistency), errors (4 ignore-option combinations x {never listed, not found, empty, all deleted, deleted at the parent's time, lookup failing with another error}), slow_datasource (context-honouring lookups with one ignorable missing child), late_parent (first k parent versions annotated alone, then all together with the first k already annotated), old data with a populated committed attribute, location-only references under a filter, versions dated in the year 2100; plus a boundary family (child versions stamped exactly at a parent's stamp, at the next parent's stamp minus the threshold, +-1ns, +-threshold), child filters with pre-annotated references, ignore options, missing or failing histories; half of the histories are consistent (success expected). For every visible parent of a successful annotation ApplyUpdatesUpTo(t) is observed at up to 8 (quick) / 16 (thorough) times drawn from all event times, +-1ns, +-threshold (window times first). Non-trivial = error outcome or at least one update; distinct = distinct token streams."
	n, ntimes := 200, 8
	if a.Tier == "thorough" {
		n, ntimes = 6000, 16
	}
	n = int(float64(n) * a.Scale)
	var canIn *annot.Input
	var canO *annot.Outcome
	var canObs []tobs
	// corpus: minimised past failures first (known_findings.d/C11.json: empty history without error)
	for k := 0; k < 4; k++ {
		t0 := osm.CommitInfoStart.Add(100 * 24 * time.Hour)
		in := &annot.Input{Threshold: 30 * time.Minute, Regime: "commit", IgnoreIncons: k&1 != 0, IgnoreMissing: k&2 != 0,
			Parents: []annot.Parent{{Changeset: 1, Visible: true, Timestamp: t0, Committed: &t0, Refs: []annot.Ref{{FID: osm.NodeID(5).FeatureID()}}}},
			Hists:   []annot.Hist{{FID: osm.NodeID(5).FeatureID(), Kind: 0}}}
		c, _, _ := mainCase(w, rng, in, ntimes, "corpus")
		w.Add(c)
	}
	for _, asChildren := range []bool{false, true} {
		for _, in := range errorFamily() {
			in.AsChildren = asChildren
			c, _, _ := mainCase(w, rng, in, ntimes, "errors")
			w.Add(c)
		}
	}
	for _, in := range zeroCoordFamily() {
		c, _, _ := mainCase(w, rng, in, 2*ntimes, "zero_coordinate")
		w.Add(c)
	}
	for _, in := range lateFirstFamily() {
		c, _, _ := mainCase(w, rng, in, ntimes, "late_first")
		w.Add(c)
	}
	for _, in := range undeleteFamily() {
		c, _, _ := mainCase(w, rng, in, ntimes, "undelete")
		w.Add(c)
	}
	// a slow datasource that honours its context, with one missing child that is to be ignored
	for k := 0; k < 3; k++ {
		in := errorFamily()[2*6+k] // combo 2: ignore_missing set, inconsistency not ignored; kinds never listed / not found / empty
		in.IgnoreIncons = true
		in.Slow = true
		for j := 0; j < 4; j++ {
			fid := osm.NodeID(10 + j).FeatureID()
			in.Parents[0].Refs = append(in.Parents[0].Refs, annot.Ref{FID: fid})
			h := in.Hists[0]
			h.FID = fid
			in.Hists = append(in.Hists, h)
		}
		c, _, _ := mainCase(w, rng, in, ntimes, "slow_datasource")
		w.Add(c)
	}
	// late-arriving parent versions: the first k versions annotated alone, then all together with
	// the first k objects already annotated
	for i, made := 0, 0; made < n/8 && i < 5*n; i++ {
		in := annot.Generate(rng, annot.GenOpts{MaxChildren: 4, MaxVersions: 8, Clean: true})
		if len(in.Parents) < 2 || in.HasFilter {
			continue
		}
		k := 1 + rng.Intn(len(in.Parents)-1)
		second, o := in.PrefixStep(k)
		if second == nil {
			continue
		}
		c, _, _ := stepCase(w, rng, second, o, ntimes, "late_parent", map[string]interface{}{
			"sequence": fmt.Sprintf("step 1: parent versions 1..%d annotated alone; step 2 (the input shown): all versions annotated together, versions 1..%d being the same, already annotated objects", k, k)})
		w.Add(c)
		made++
	}
	for i := 0; i < n; i++ {
		g := annot.GenOpts{MaxChildren: 6, MaxVersions: 8, Clean: rng.Intn(2) == 0, Ties: rng.Intn(6) == 0}
		in := annot.Generate(rng, g)
		c, o, obs := mainCase(w, rng, in, ntimes, "history")
		w.Add(c)
		if canIn == nil && o.Status == 0 && len(obs) > 0 && len(o.Updates[0]) > 0 && len(obs[0].refs) > 0 {
			canIn, canO, canObs = in, o, obs
		}
	}
	for i := 0; i < n/4; i++ {
		c, _, _ := mainCase(w, rng, boundaryHistory(rng), ntimes+4, "boundary")
		w.Add(c)
	}
	if canIn == nil {
		panic("no successful history with updates generated")
	}
	// canaries: one per observable class
	mk := func(desc string, f func(o *annot.Outcome, obs []tobs) (*annot.Outcome, []tobs)) {
		c := &wire.Case{Class: "canary", Canary: 1, Desc: desc}
		c.Int(1)
		canIn.Encode(c)
		o2 := *canO
		o2.Refs = nil
		for _, l := range canO.Refs {
			o2.Refs = append(o2.Refs, append([]annot.Ref(nil), l...))
		}
		o2.Updates = nil
		for _, l := range canO.Updates {
			o2.Updates = append(o2.Updates, append(osm.Updates(nil), l...))
		}
		obs2 := make([]tobs, len(canObs))
		for i, ob := range canObs {
			obs2[i] = ob
			obs2[i].refs = append([]annot.Ref(nil), ob.refs...)
		}
		o3, obs3 := f(&o2, obs2)
		o3.Encode(c)
		encObs(c, obs3)
		after := o3.Updates
		if o3.Status != 0 {
			after = nil
		}
		if desc == canaryAfter && len(after) > 0 && len(after[0]) > 0 {
			// the first update list lost its first element after the observations
			after = append([]osm.Updates{after[0][1:]}, after[1:]...)
		}
		encAfter(c, after)
		w.Add(c)
	}
	mk("canary: annotated changeset of the first reference changed", func(o *annot.Outcome, obs []tobs) (*annot.Outcome, []tobs) {
		o.Refs[0][0].Changeset += 1
		return o, obs
	})
	mk("canary: first update dropped", func(o *annot.Outcome, obs []tobs) (*annot.Outcome, []tobs) {
		o.Updates[0] = o.Updates[0][1:]
		return o, obs
	})
	mk("canary: update timestamp shifted by one second", func(o *annot.Outcome, obs []tobs) (*annot.Outcome, []tobs) {
		o.Updates[0][0].Timestamp = o.Updates[0][0].Timestamp.Add(time.Second)
		return o, obs
	})
	mk("canary: state after ApplyUpdatesUpTo has a wrong version", func(o *annot.Outcome, obs []tobs) (*annot.Outcome, []tobs) {
		obs[0].refs[0].Version += 1
		return o, obs
	})
	mk(canaryAfter, func(o *annot.Outcome, obs []tobs) (*annot.Outcome, []tobs) { return o, obs })
	mk("canary: success reported as NoHistoryError", func(o *annot.Outcome, obs []tobs) (*annot.Outcome, []tobs) {
		return &annot.Outcome{Status: 1, FID: canIn.Parents[0].Refs[0].FID}, nil
	})
	if err := w.Flush(a.Out, "Verif.C11.Check", 45); err != nil {
		panic(err)
	}
}
