// c16: correspondence harness for multipolygon assembly (property C16).
//
// Scenes: integer star-shaped outer rings in disjoint grid cells, star-shaped holes in disjoint
// sub-cells strictly inside (strict containment, simplicity and disjointness are ASSERTED with
// exact integer arithmetic before a scene is used), every ring cut into 1..6 pieces, pieces
// reversed at random, members / ways / nodes shuffled; driven through osmgeojson.Convert (node
// map vs annotated way nodes vs both; with / without / partial truthful orientation annotations)
// and annotate.Relations (in-memory datasource).  Malformed scenes, random segment soups
// (VerifJoin), polygonContains and addToMultiPolygon cases only check model = implementation
// (plus the conservation oracle for Join and the exact rational even-odd rule for contains).
package main

import (
	"context"
	"fmt"
	"math/rand"
	"os"
	"sort"
	"time"

	"github.com/paulmach/orb"
	"github.com/paulmach/orb/geojson"
	"github.com/paulmach/osm"
	"github.com/paulmach/osm/annotate"
	"github.com/paulmach/osm/osmgeojson"
	"verif/harness/wire"
)

type pt struct{ x, y int64 }

const coordLim = 8192

func cross(a, b pt) int64     { return a.x*b.y - a.y*b.x }
func sub(a, b pt) pt          { return pt{a.x - b.x, a.y - b.y} }
func orient(a, b, c pt) int64 { return cross(sub(b, a), sub(c, a)) }
func sgn(v int64) int {
	if v > 0 {
		return 1
	}
	if v < 0 {
		return -1
	}
	return 0
}
func abs(v int64) int64 {
	if v < 0 {
		return -v
	}
	return v
}
func onSeg(a, b, c pt) bool { // c collinear with a,b: is it within the box
	return min64(a.x, b.x) <= c.x && c.x <= max64(a.x, b.x) && min64(a.y, b.y) <= c.y && c.y <= max64(a.y, b.y)
}
func min64(a, b int64) int64 {
	if a < b {
		return a
	}
	return b
}
func max64(a, b int64) int64 {
	if a > b {
		return a
	}
	return b
}

// segTouch: closed segments ab and cd have a common point (exact).
func segTouch(a, b, c, d pt) bool {
	o1, o2, o3, o4 := sgn(orient(a, b, c)), sgn(orient(a, b, d)), sgn(orient(c, d, a)), sgn(orient(c, d, b))
	if o1*o2 < 0 && o3*o4 < 0 {
		return true
	}
	return (o1 == 0 && onSeg(a, b, c)) || (o2 == 0 && onSeg(a, b, d)) || (o3 == 0 && onSeg(c, d, a)) || (o4 == 0 && onSeg(c, d, b))
}

// simpleRing: open ring (distinct vertices, first not repeated) is a simple polygon.
func simpleRing(r []pt) bool {
	n := len(r)
	if n < 3 {
		return false
	}
	seen := map[pt]bool{}
	for _, p := range r {
		if seen[p] {
			return false
		}
		seen[p] = true
	}
	for i := 0; i < n; i++ {
		a, b := r[i], r[(i+1)%n]
		for j := i + 1; j < n; j++ {
			c, d := r[j], r[(j+1)%n]
			if j == i+1 || (i == 0 && j == n-1) {
				// adjacent edges share exactly one vertex; they must not fold back onto each other
				var p, q, s pt // p-q-s path
				if j == i+1 {
					p, q, s = a, b, d
				} else {
					p, q, s = c, a, b
				}
				if orient(p, q, s) == 0 && (sub(q, p).x*sub(s, q).x+sub(q, p).y*sub(s, q).y) < 0 {
					return false
				}
				continue
			}
			if segTouch(a, b, c, d) {
				return false
			}
		}
	}
	return area2(r) != 0
}

func area2(r []pt) int64 {
	var s int64
	for i := range r {
		a, b := r[i], r[(i+1)%len(r)]
		s += a.x*b.y - b.x*a.y
	}
	return s
}

// insideExact: even-odd rule with exact integer arithmetic (independent of the code under test).
func insideExact(r []pt, p pt) bool {
	in := false
	n := len(r)
	for i := 0; i < n; i++ {
		a, b := r[i], r[(i+1)%n]
		if (a.y > p.y) != (b.y > p.y) {
			// x < a.x + (b.x-a.x)*(y-a.y)/(b.y-a.y)
			l := (p.x - a.x) * (b.y - a.y)
			rr := (b.x - a.x) * (p.y - a.y)
			if b.y-a.y > 0 {
				if l < rr {
					in = !in
				}
			} else if l > rr {
				in = !in
			}
		}
	}
	return in
}

// strictlyInside: every vertex of h is inside r and no edge of h touches an edge of r.
func strictlyInside(h, r []pt) bool {
	for _, p := range h {
		if !insideExact(r, p) {
			return false
		}
	}
	for i := range h {
		for j := range r {
			if segTouch(h[i], h[(i+1)%len(h)], r[j], r[(j+1)%len(r)]) {
				return false
			}
		}
	}
	return true
}

func bbox(r []pt) (x0, y0, x1, y1 int64) {
	x0, y0, x1, y1 = r[0].x, r[0].y, r[0].x, r[0].y
	for _, p := range r {
		x0, y0, x1, y1 = min64(x0, p.x), min64(y0, p.y), max64(x1, p.x), max64(y1, p.y)
	}
	return
}
func bboxDisjoint(a, b []pt) bool {
	ax0, ay0, ax1, ay1 := bbox(a)
	bx0, by0, bx1, by1 := bbox(b)
	return ax1 < bx0 || bx1 < ax0 || ay1 < by0 || by1 < ay0
}

// starRing: k integer vertices around (cx,cy), Chebyshev radius in [rmin,rmax], sorted by angle,
// consecutive angular gaps strictly between 0 and 180 degrees; counter-clockwise. nil if unlucky.
func starRing(rng *rand.Rand, c pt, rmin, rmax int64, k int, forced ...pt) []pt {
	for try := 0; try < 50; try++ {
		vs := make([]pt, 0, k)
		for _, f := range forced { // vertices that must be part of the ring
			vs = append(vs, pt{f.x - c.x, f.y - c.y})
		}
		for len(vs) < k {
			d := pt{rng.Int63n(2*rmax+1) - rmax, rng.Int63n(2*rmax+1) - rmax}
			if m := max64(abs(d.x), abs(d.y)); m < rmin || m > rmax {
				continue
			}
			vs = append(vs, d)
		}
		half := func(v pt) int {
			if v.y > 0 || (v.y == 0 && v.x > 0) {
				return 0
			}
			return 1
		}
		sort.Slice(vs, func(i, j int) bool {
			hi, hj := half(vs[i]), half(vs[j])
			if hi != hj {
				return hi < hj
			}
			return cross(vs[i], vs[j]) > 0
		})
		ok := true
		for i := range vs {
			if cross(vs[i], vs[(i+1)%k]) <= 0 {
				ok = false
				break
			}
		}
		if !ok {
			continue
		}
		r := make([]pt, k)
		for i, v := range vs {
			r[i] = pt{c.x + v.x, c.y + v.y}
		}
		if simpleRing(r) && area2(r) > 0 {
			return r
		}
	}
	return nil
}

func reversed(r []pt) []pt {
	o := make([]pt, len(r))
	for i, p := range r {
		o[len(r)-1-i] = p
	}
	return o
}
func rotated(r []pt, k int) []pt {
	o := make([]pt, 0, len(r))
	o = append(o, r[k:]...)
	return append(o, r[:k]...)
}

type gtPoly struct {
	outer []pt
	holes [][]pt
	c     *pt // kernel point of the outer ring, when known (generated scenes)
}

// assertGeneral: the scene hypotheses of the property for outers of ANY shape whose bounding boxes
// may overlap: rings simple; boundaries of different rings have no common point; no outer has a
// vertex inside another outer (non-nested); every hole strictly inside its own outer; holes of
// one polygon not inside one another; vertices distinct, in range, none at (0,0).
func assertGeneral(sc []gtPoly) {
	seen := map[pt]bool{}
	var rings [][]pt
	chk := func(r []pt) {
		if !simpleRing(r) {
			panic("generator: ring not simple")
		}
		for _, p := range r {
			if seen[p] || (p.x == 0 && p.y == 0) || p.x < 0 || p.y < 0 || p.x >= coordLim || p.y >= coordLim {
				panic("generator: bad vertex")
			}
			seen[p] = true
		}
		for _, o := range rings {
			for i := range r {
				for j := range o {
					if segTouch(r[i], r[(i+1)%len(r)], o[j], o[(j+1)%len(o)]) {
						panic("generator: rings touch")
					}
				}
			}
		}
		rings = append(rings, r)
	}
	for i, p := range sc {
		chk(p.outer)
		for j, q := range sc {
			if i != j && insideExact(q.outer, p.outer[0]) {
				panic("generator: nested outers")
			}
		}
		for a, h := range p.holes {
			chk(h)
			if !strictlyInside(h, p.outer) {
				panic("generator: hole not strictly inside")
			}
			for b, g := range p.holes {
				if a != b && insideExact(g, h[0]) {
					panic("generator: nested holes")
				}
			}
			for j, q := range sc {
				if i != j {
					for _, v := range h {
						if insideExact(q.outer, v) {
							panic("generator: hole inside another outer")
						}
					}
				}
			}
		}
	}
}

// genInterlocked: two concave, non-nested outers whose bounding boxes overlap - a C-shaped polygon
// and an L-shaped polygon whose bar enters the mouth of the C and whose arm rises beside it - with
// holes placed where they lie inside the OTHER outer's bounding box; random unit, jitter,
// mirror / transpose, drawing directions, polygon order.
func genInterlocked(rng *rand.Rand) []gtPoly {
	for {
		u := int64(8 + rng.Intn(30))
		j := func() int64 { return int64(rng.Intn(int(u/4 + 1))) } // jitter < u/4
		A := []pt{{0, 0}, {10*u + j(), 0}, {10 * u, 3*u - j()}, {3*u + j(), 3 * u}, {3 * u, 7 * u}, {10*u - j(), 7*u + j()},
			{10 * u, 10 * u}, {0, 10*u - j()}}
		B := []pt{{4*u + j(), 4*u + j()}, {14 * u, 4 * u}, {14*u - j(), 12 * u}, {12 * u, 12*u - j()}, {12*u + j(), 6 * u}, {4 * u, 6*u - j()}}
		hole := func(c pt, r int64) []pt { return starRing(rng, c, r/2+1, r, 3+rng.Intn(3)) }
		r := u/3 + 1
		holesA := [][]pt{hole(pt{3 * u / 2, 5 * u}, r), hole(pt{7 * u, 17 * u / 2}, r), hole(pt{7 * u, 3 * u / 2}, r)}
		holesB := [][]pt{hole(pt{7 * u, 5 * u}, r-1), hole(pt{13 * u, 9 * u}, r-1)}
		keep := func(hs [][]pt) [][]pt {
			var o [][]pt
			for _, h := range hs {
				if h != nil && rng.Intn(4) > 0 {
					o = append(o, h)
				}
			}
			return o
		}
		sc := []gtPoly{{outer: A, holes: keep(holesA)}, {outer: B, holes: keep(holesB)}}
		// mirror / transpose / translate
		mx, my, tr := rng.Intn(2) == 0, rng.Intn(2) == 0, rng.Intn(2) == 0
		ox, oy := int64(5+rng.Intn(2000)), int64(5+rng.Intn(2000))
		mv := func(l []pt) {
			for i, p := range l {
				x, y := p.x, p.y
				if mx {
					x = 14*u - x
				}
				if my {
					y = 12*u - y
				}
				if tr {
					x, y = y, x
				}
				l[i] = pt{x + ox, y + oy}
			}
		}
		for i := range sc {
			mv(sc[i].outer)
			for _, h := range sc[i].holes {
				mv(h)
			}
			if rng.Intn(2) == 0 {
				sc[i].outer = reversed(sc[i].outer)
			}
			sc[i].outer = rotated(sc[i].outer, rng.Intn(len(sc[i].outer)))
			for k := range sc[i].holes {
				if rng.Intn(2) == 0 {
					sc[i].holes[k] = reversed(sc[i].holes[k])
				}
			}
		}
		if rng.Intn(2) == 0 {
			sc[0], sc[1] = sc[1], sc[0]
		}
		ok := true
		func() {
			defer func() {
				if recover() != nil {
					ok = false
				}
			}()
			assertGeneral(sc)
		}()
		if ok && !bboxDisjoint(sc[0].outer, sc[1].outer) {
			return sc
		}
	}
}

// ---- geometric containment, as in coq/theories/Geo/Jordan.v (kernel, clear_h, clear_v, reach)

func side(a, b, p pt) int64 { return (b.x-a.x)*(p.y-a.y) - (b.y-a.y)*(p.x-a.x) }

func ccwRing(r []pt) []pt {
	if area2(r) < 0 {
		return reversed(r)
	}
	return r
}

// isKernel: c is strictly left of every edge of the counter-clockwise ring and exactly one edge
// crosses c's height upwards (half-open: a.y <= c.y < b.y).
func isKernel(r []pt, c pt) bool {
	up := 0
	for i := range r {
		a, b := r[i], r[(i+1)%len(r)]
		if side(a, b, c) <= 0 {
			return false
		}
		if a.y <= c.y && c.y < b.y {
			up++
		}
	}
	return up == 1
}

func clearEdge(a, b, p, q pt) bool {
	s1, s2 := side(a, b, p), side(a, b, q)
	return (s1 > 0 && s2 > 0) || (s1 < 0 && s2 < 0)
}

// legClear: the axis-parallel leg p-q meets no edge of the ring (conservative exact test)
func legClear(r []pt, p, q pt) bool {
	for i := range r {
		a, b := r[i], r[(i+1)%len(r)]
		switch {
		case p.y == q.y:
			if !((a.y > p.y && b.y > p.y) || (a.y < p.y && b.y < p.y) || clearEdge(a, b, p, q)) {
				return false
			}
		case p.x == q.x:
			if !((a.x > p.x && b.x > p.x) || (a.x < p.x && b.x < p.x) || clearEdge(a, b, p, q)) {
				return false
			}
		default:
			return false
		}
	}
	return true
}

// reachable: p is joined to c by two axis-parallel legs that meet no edge of the ring
func reachable(r []pt, c, p pt) bool {
	w1, w2 := pt{p.x, c.y}, pt{c.x, p.y}
	return (legClear(r, c, w1) && legClear(r, w1, p)) || (legClear(r, c, w2) && legClear(r, w2, p))
}

// insideStar: c is a kernel point of the outer ring and every vertex of every hole is reachable
func insideStar(outer []pt, holes [][]pt, c pt) bool {
	r := ccwRing(outer)
	if !isKernel(r, c) {
		return false
	}
	for _, h := range holes {
		for _, p := range h {
			if !reachable(r, c, p) {
				return false
			}
		}
	}
	return true
}

// preset: sizes of a scene family (integer units; one unit is one coordinate step of the embedding)
type preset struct {
	name               string
	cell, off          int64 // grid cell size, centre offset inside the cell
	rmin, rmax         int64 // Chebyshev radius range of outer vertices
	hoff, hrmin, hrmax int64 // hole sub-cell centre offset, hole radius range (hrmax = 0: no holes)
	nearOrigin         bool  // the first outer has a vertex next to (0,0): (1,0), (0,1) or (1,1)
}

var (
	presetBig   = preset{"big", 1000, 550, 250, 480, 60, 12, 45, false}
	presetTiny  = preset{"tiny", 100, 55, 25, 48, 8, 1, 5, false} // holes are rings of a few steps
	presetMicro = preset{"micro", 24, 12, 2, 9, 0, 0, 0, false}   // outers of a few steps, no holes
	presetNull  = preset{"null_island", 100, 40, 12, 39, 8, 1, 5, true}
)

// genScene: nOuter polygons in distinct grid cells; asserts all scene hypotheses exactly.
func genScene(rng *rand.Rand, ps preset, nOuter, maxHoles, maxVerts int) []gtPoly {
	cell := ps.cell
	const grid = 8
	for {
		cells := rng.Perm(grid * grid)[:nOuter]
		if ps.nearOrigin {
			for i, ci := range cells {
				if ci == 0 {
					cells[i] = cells[0]
				}
			}
			cells[0] = 0
		}
		var sc []gtPoly
		ok := true
		for idx, ci := range cells {
			c := pt{int64(ci%grid)*cell + ps.off, int64(ci/grid)*cell + ps.off}
			k := 3 + rng.Intn(maxVerts-2)
			var outer []pt
			if ps.nearOrigin && idx == 0 {
				outer = starRing(rng, c, ps.rmin, ps.rmax, k, []pt{{1, 0}, {0, 1}, {1, 1}}[rng.Intn(3)])
			} else {
				outer = starRing(rng, c, ps.rmin, ps.rmax, k)
			}
			if outer == nil {
				ok = false
				break
			}
			cc := c
			p := gtPoly{outer: outer, c: &cc}
			nh := rng.Intn(maxHoles + 1)
			if ps.hrmax == 0 {
				nh = 0
			}
			sub := rng.Perm(4)
			for h := 0; h < nh; h++ {
				// sub-cells of the core square around the centre: centres at (+-hoff, +-hoff)
				sc := pt{c.x + int64(sub[h]%2)*2*ps.hoff - ps.hoff, c.y + int64(sub[h]/2)*2*ps.hoff - ps.hoff}
				hole := starRing(rng, sc, ps.hrmin, ps.hrmax, 3+rng.Intn(4))
				if hole == nil || !strictlyInside(hole, outer) {
					continue // fewer holes: never use an unverified hole
				}
				if !insideStar(outer, [][]pt{hole}, c) {
					dropped++ // not reachable from the kernel point by two clear axis-parallel legs
					continue
				}
				p.holes = append(p.holes, hole)
			}
			sc = append(sc, p)
		}
		if !ok {
			continue
		}
		// random drawing direction and start vertex of every ring
		for i := range sc {
			fix := func(r []pt) []pt {
				if rng.Intn(2) == 0 {
					r = reversed(r)
				}
				return rotated(r, rng.Intn(len(r)))
			}
			sc[i].outer = fix(sc[i].outer)
			for j := range sc[i].holes {
				sc[i].holes[j] = fix(sc[i].holes[j])
			}
		}
		// sometimes move the scene so that it touches an axis (a vertex with lon = 0 or lat = 0,
		// never both): "no location" on an annotated way node is lon == 0 AND lat == 0 only
		if t := rng.Intn(4); t < 2 && !ps.nearOrigin {
			var dx, dy int64
			x0, y0 := int64(coordLim), int64(coordLim)
			for _, p := range sc {
				bx, by, _, _ := bbox(p.outer)
				x0, y0 = min64(x0, bx), min64(y0, by)
			}
			if t == 0 {
				dx = -x0
			} else {
				dy = -y0
			}
			mv := func(r []pt) {
				for i := range r {
					r[i] = pt{r[i].x + dx, r[i].y + dy}
				}
			}
			for i := range sc {
				sc[i].c = &pt{sc[i].c.x + dx, sc[i].c.y + dy}
				mv(sc[i].outer)
				for j := range sc[i].holes {
					mv(sc[i].holes[j])
				}
			}
		}
		assertScene(sc)
		return sc
	}
}

// robust reports whether, for the embedding e, the float evaluation of every shoelace sign and of
// every ray-casting comparison the code can perform on this scene provably agrees with the exact
// integer one (so that the integer model is exact).  s = 1 with integer offsets: exact, always
// true.  Otherwise eps bounds the error (in units) of one embedded coordinate; a difference of two
// coordinates then carries <= 2 eps; a shoelace term (product of two differences of extent <= D)
// <= 8 eps D; the crossing abscissa xi + (xj-xi)(y-yi)/(yj-yi) with |yj-yi| >= 1 <= 4 eps (D+1).
// A safety factor 10 is applied.
func robust(sc []gtPoly, e emb) bool {
	if e.s == 1 && e.ox == float64(int64(e.ox)) && e.oy == float64(int64(e.oy)) {
		return true
	}
	m := max64(int64(abs(int64(e.ox))), int64(abs(int64(e.oy)))) + 1
	eps := float64(m)*2.3e-16/e.s + 1e-11
	rings, _ := sceneRings(sc)
	ext := func(r []pt) float64 {
		x0, y0, x1, y1 := bbox(r)
		return float64(max64(x1-x0, y1-y0) + 1)
	}
	for _, r := range rings {
		if float64(abs(area2(r))) <= 10*8*float64(len(r)+1)*eps*ext(r) {
			return false
		}
	}
	for _, o := range sc {
		d := ext(o.outer)
		n := len(o.outer)
		for _, q := range sc {
			for _, h := range q.holes {
				for _, p := range h {
					for i := 0; i < n; i++ {
						a, b := o.outer[i], o.outer[(i+1)%n]
						if (a.y > p.y) == (b.y > p.y) {
							continue
						}
						g := abs((p.x-b.x)*(a.y-b.y) - (a.x-b.x)*(p.y-b.y))
						if float64(g)/float64(abs(a.y-b.y)) <= 10*4*eps*(d+1) {
							return false
						}
					}
				}
			}
		}
	}
	return true
}

// assertScene panics unless: rings simple with >= 3 vertices, outers pairwise disjoint and not
// nested (disjoint bounding boxes), every hole strictly inside its outer, holes of one polygon
// pairwise disjoint (disjoint bounding boxes), all vertices distinct, none at (0,0), in range.
func assertScene(sc []gtPoly) {
	seen := map[pt]bool{}
	chk := func(r []pt) {
		if !simpleRing(r) {
			panic("generator: ring not simple")
		}
		for _, p := range r {
			if seen[p] || (p.x == 0 && p.y == 0) || p.x < 0 || p.y < 0 || p.x >= coordLim || p.y >= coordLim {
				panic("generator: bad vertex")
			}
			seen[p] = true
		}
	}
	for i, p := range sc {
		chk(p.outer)
		for j := 0; j < i; j++ {
			if !bboxDisjoint(p.outer, sc[j].outer) {
				panic("generator: outers not disjoint")
			}
		}
		if len(p.holes) > 0 {
			ok := p.c != nil && insideStar(p.outer, p.holes, *p.c)
			if !ok && p.c == nil { // fixed corpus: look for a kernel point
				x0, y0, x1, y1 := bbox(p.outer)
				for x := x0; x <= x1 && !ok; x++ {
					for y := y0; y <= y1 && !ok; y++ {
						ok = insideStar(p.outer, p.holes, pt{x, y})
					}
				}
			}
			if !ok {
				panic("generator: holes not geometrically inside a star-shaped outer (kernel / reach)")
			}
		}
		for a, h := range p.holes {
			chk(h)
			if !strictlyInside(h, p.outer) {
				panic("generator: hole not strictly inside")
			}
			for b := 0; b < a; b++ {
				if !bboxDisjoint(h, p.holes[b]) {
					panic("generator: holes not disjoint")
				}
			}
		}
	}
}

// ---------------------------------------------------------------- raw osm input

type rawNode struct {
	id int64
	p  pt
}
type rawWay struct {
	id    int64
	nodes []int64
}
type rawMember struct {
	isWay bool
	ref   int64
	role  int  // 0 outer 1 inner 2 other
	rel   bool // a relation member (when !isWay)
}
type piece struct {
	ring, start, edges int
	rev                bool
}

// emb maps scene integer coordinates to degrees: lon = x*s + ox, lat = y*s + oy.  The Coq model
// works on the integer identities; observed floats are mapped back through the exact table of
// the floats the harness fed (an observed float that is not in the table is an invented
// coordinate).  s = 1 with integer offsets is exact arithmetic; for s = 1e-7 the generator
// asserts margins (robust) under which the float evaluation of every shoelace sign and every
// ray-casting comparison of the code agrees with the integer one.
type emb struct{ s, ox, oy float64 }

var embIdentity = emb{1, 0, 0}

func (e emb) pt(p pt) orb.Point {
	return orb.Point{float64(p.x)*e.s + e.ox, float64(p.y)*e.s + e.oy}
}

type input struct {
	relID   int64 // id of the relation (default 1)
	relZero bool  // the relation id really is 0
	prefill bool  // members already carry version / changeset of the ways (re-annotation)
	noAnnot bool  // way ids outside [0, 2^40): FeatureID packing (C10) does not apply, skip annotate
	e       emb
	spec    []gtPoly // nil = no spec
	pieces  []piece
	nodes   []rawNode
	ways    []rawWay
	members []rawMember
	relType string
}

func roleName(r int) string { return []string{"outer", "inner", "label"}[r] }

func sceneRings(sc []gtPoly) (rings [][]pt, roles []int) {
	for _, p := range sc {
		rings = append(rings, p.outer)
		roles = append(roles, 0)
		for _, h := range p.holes {
			rings = append(rings, h)
			roles = append(roles, 1)
		}
	}
	return
}

// cutScene: cut every ring into cuts[i] pieces (clamped to its size), reverse pieces at random,
// assign shuffled node / way ids and shuffle the order of nodes, ways and members.
func cutScene(rng *rand.Rand, sc []gtPoly, cuts func(ring, n int) int) *input {
	in := &input{e: embIdentity, spec: sc, relType: []string{"multipolygon", "boundary"}[rng.Intn(2)]}
	rings, roles := sceneRings(sc)
	nv := 0
	for _, r := range rings {
		nv += len(r)
	}
	idperm := rng.Perm(nv + 5)
	nid := map[pt]int64{}
	k := 0
	for _, r := range rings {
		for _, p := range r {
			nid[p] = int64(idperm[k]) + 1
			in.nodes = append(in.nodes, rawNode{nid[p], p})
			k++
		}
	}
	type mw struct {
		pc   piece
		line []pt
		role int
	}
	var all []mw
	for ri, r := range rings {
		n := len(r)
		c := cuts(ri, n)
		if c > n {
			c = n
		}
		if c < 1 {
			c = 1
		}
		pos := rng.Perm(n)[:c]
		sort.Ints(pos)
		for i, s := range pos {
			e := n
			if c > 1 {
				e = (pos[(i+1)%c] - s + n) % n
			}
			line := make([]pt, 0, e+1)
			for j := 0; j <= e; j++ {
				line = append(line, r[(s+j)%n])
			}
			pc := piece{ri, s, e, rng.Intn(2) == 0}
			if pc.rev {
				line = reversed(line)
			}
			all = append(all, mw{pc, line, roles[ri]})
		}
	}
	wperm := rng.Perm(len(all) + 3)
	for i, m := range all {
		w := rawWay{id: int64(wperm[i]) + 100}
		for _, p := range m.line {
			w.nodes = append(w.nodes, nid[p])
		}
		in.ways = append(in.ways, w)
	}
	for _, i := range rng.Perm(len(all)) {
		in.members = append(in.members, rawMember{isWay: true, ref: in.ways[i].id, role: all[i].role})
		in.pieces = append(in.pieces, all[i].pc)
	}
	rng.Shuffle(len(in.nodes), func(i, j int) { in.nodes[i], in.nodes[j] = in.nodes[j], in.nodes[i] })
	rng.Shuffle(len(in.ways), func(i, j int) { in.ways[i], in.ways[j] = in.ways[j], in.ways[i] })
	return in
}

// exoticIDs: n distinct ids drawn from {negative (editor placeholders), 0, small, around 2^40,
// near MaxInt64 / MinInt64}; ids are opaque in the model.
func exoticIDs(rng *rand.Rand, n int, safe bool) []int64 {
	var pool []int64
	for k := int64(0); k < int64(n)+2; k++ {
		if safe { // ids a FeatureID can carry: [0, 2^40)
			pool = append(pool, k, 1<<40-1-k, 1<<39+k)
		} else {
			// node ids: anything whose FeatureID (id<<16 | type) does not carry into the type
			// byte of a WAY feature id: ids in [2^40, 2^47) would alias way ids (id domain of
			// FeatureID, property C10), so they are not used
			pool = append(pool, -1-k, k, 1<<40-1-k, 1<<63-1-k, -1<<63+k)
		}
	}
	rng.Shuffle(len(pool), func(i, j int) { pool[i], pool[j] = pool[j], pool[i] })
	seen := map[int64]bool{}
	var out []int64
	for _, v := range pool {
		if !seen[v] && len(out) < n {
			seen[v] = true
			out = append(out, v)
		}
	}
	return out
}

// remapIDs: mode 1 exotic node ids; 2, 3 exotic node ids and way ids from the FeatureID-safe
// exotic pool {0.., 2^39.., ..2^40-1}; every mode also draws the relation id from {0, small, 2^40-1}.
func remapIDs(rng *rand.Rand, in *input, mode int) {
	nm := map[int64]int64{}
	ids := exoticIDs(rng, len(in.nodes), false)
	for i := range in.nodes {
		nm[in.nodes[i].id] = ids[i]
		in.nodes[i].id = ids[i]
	}
	wm := map[int64]int64{}
	if mode >= 2 {
		wids := exoticIDs(rng, len(in.ways), true)
		for i := range in.ways {
			wm[in.ways[i].id] = wids[i]
			in.ways[i].id = wids[i]
		}
	}
	for i := range in.ways {
		for j, id := range in.ways[i].nodes {
			in.ways[i].nodes[j] = nm[id]
		}
	}
	if mode >= 2 {
		for i := range in.members {
			in.members[i].ref = wm[in.members[i].ref]
		}
	}
	in.relID = []int64{0, 7, 1<<40 - 1, 123456789}[rng.Intn(4)]
	in.relZero = in.relID == 0
}

// expected orientation of each member: direction its way runs around its ground-truth ring
func expectedOrients(in *input) []int64 {
	rings, _ := sceneRings(in.spec)
	out := make([]int64, len(in.pieces))
	for i, pc := range in.pieces {
		if i < len(in.members) && !in.members[i].isWay {
			continue // node / relation members are never annotated
		}
		s := int64(sgn(area2(rings[pc.ring])))
		if pc.rev {
			s = -s
		}
		out[i] = s
	}
	return out
}

func (in *input) nodeAt(id int64) (pt, bool) {
	var p pt
	found := false
	for _, n := range in.nodes { // last wins, like a Go map filled by a loop
		if n.id == id {
			p, found = n.p, true
		}
	}
	return p, found
}

// Wave 8: the keys the library documents as bookkeeping only (osm.UninterestingTags at the pinned
// commit). This is the specification copy: it is NOT read from the library at run time, since a change
// of the library's table must not move the expectation. Member ways and their nodes that carry only
// such tags are skipped by Convert exactly like untagged ones, so a relation still gives ONE feature.
var bookKeys = []string{"source", "source_ref", "source:ref", "history", "attribution", "created_by",
	"tiger:county", "tiger:tlid", "tiger:upload_uuid"}

// bookTags: deterministic (no rng, so the case streams of earlier waves keep their indexes): three of
// four objects get one bookkeeping key, every third a second one, every key is used in turn.
func bookTags(i, salt int) osm.Tags {
	if i%4 == 3 {
		return nil
	}
	n := len(bookKeys)
	ts := osm.Tags{{Key: bookKeys[(i+salt)%n], Value: fmt.Sprintf("import %d", i)}}
	if i%3 == 0 {
		ts = append(ts, osm.Tag{Key: bookKeys[(i+salt+4)%n], Value: "x"})
	}
	return ts
}

// build the osm objects for one run. src 0: node objects only; 1: annotated way nodes only; 2: both.
func (in *input) rid() int64 {
	if in.relID == 0 && !in.relZero {
		return 1
	}
	return in.relID
}

func (in *input) build(src int, orients []int64, mask ...bool) *osm.OSM {
	k := 0
	o := &osm.OSM{}
	if src != 1 {
		for j, n := range in.nodes {
			f := in.e.pt(n.p)
			o.Nodes = append(o.Nodes, &osm.Node{ID: osm.NodeID(n.id), Lon: f[0], Lat: f[1], Version: 1, Visible: true,
				Tags: bookTags(j, len(in.ways))})
		}
	}
	for i, w := range in.ways {
		way := &osm.Way{ID: osm.WayID(w.id), Version: 1, Visible: true, ChangesetID: 10, Tags: bookTags(i, len(in.nodes))}
		for _, id := range w.nodes {
			wn := osm.WayNode{ID: osm.NodeID(id)}
			ann := src == 1 || src == 2 || (src == 3 && k < len(mask) && mask[k])
			k++
			if ann {
				if p, ok := in.nodeAt(id); ok {
					f := in.e.pt(p)
					wn.Lon, wn.Lat = f[0], f[1]
				}
			}
			way.Nodes = append(way.Nodes, wn)
		}
		o.Ways = append(o.Ways, way)
	}
	r := &osm.Relation{ID: osm.RelationID(in.rid()), Version: 1, Visible: true,
		Tags: osm.Tags{{Key: "type", Value: in.relType}, {Key: "natural", Value: "water"}}}
	for i, m := range in.members {
		t := osm.TypeWay
		if !m.isWay {
			t = osm.TypeNode
			if m.rel {
				t = osm.TypeRelation
			}
		}
		mem := osm.Member{Type: t, Ref: m.ref, Role: roleName(m.role), Orientation: orb.Orientation(orients[i])}
		if in.prefill { // version and changeset of the current way version already on the member
			mem.Version, mem.ChangesetID = 1, 10
		}
		r.Members = append(r.Members, mem)
	}
	o.Relations = osm.Relations{r}
	return o
}

// ---------------------------------------------------------------- encoding

// implPanic records a panic of the implementation ("" = none); set by guard.
var implPanic string

// guard runs f and turns a panic of the implementation into a recorded failure.
func guard(f func()) {
	defer func() {
		if r := recover(); r != nil {
			implPanic = fmt.Sprint(r)
		}
	}()
	f()
}

var mixCounter int

var dropped int // holes not reachable from the kernel by two clear legs

var nonInteger bool

// inverse of the current embedding: exactly the floats fed to the implementation (nil = identity)
var inverse map[orb.Point]pt

func (in *input) setInverse() {
	inverse = nil
	if in == nil || in.e == embIdentity {
		return
	}
	inverse = map[orb.Point]pt{}
	for _, n := range in.nodes {
		inverse[in.e.pt(n.p)] = n.p
	}
}

func unembed(p orb.Point) (pt, bool) {
	if inverse != nil {
		q, ok := inverse[p]
		return q, ok
	}
	x, y := int64(p[0]), int64(p[1])
	if float64(x) != p[0] || float64(y) != p[1] || x < 0 || y < 0 || x >= coordLim || y >= coordLim {
		return pt{}, false
	}
	return pt{x, y}, true
}

func encPt(c *wire.Case, p orb.Point) {
	q, ok := unembed(p)
	if !ok {
		nonInteger = true
		c.Tok(coordLim*coordLim - 1)
		return
	}
	c.Tok(uint64(q.x*coordLim + q.y))
}
func encP(c *wire.Case, p pt) { c.Tok(uint64(p.x*coordLim + p.y)) }
func encLine(c *wire.Case, l []pt) {
	c.Len(len(l))
	for _, p := range l {
		encP(c, p)
	}
}
func encOrbLine(c *wire.Case, l []orb.Point) {
	c.Len(len(l))
	for _, p := range l {
		encPt(c, p)
	}
}
func encMP(c *wire.Case, mp orb.MultiPolygon) {
	c.Len(len(mp))
	for _, poly := range mp {
		c.Len(len(poly))
		for _, r := range poly {
			encOrbLine(c, r)
		}
	}
}
func ptsJSON(l []pt) [][2]int64 {
	o := make([][2]int64, len(l))
	for i, p := range l {
		o[i] = [2]int64{p.x, p.y}
	}
	return o
}

type runObs struct {
	src     int
	incl    bool
	mask    []bool
	orients []int64
	nfeat   int
	kind    int
	polys   orb.MultiPolygon
	tainted bool
}

func doRun(in *input, src int, incl bool, orients []int64, mask ...bool) runObs {
	o := in.build(src, orients, mask...)
	var fc *geojson.FeatureCollection
	err := fmt.Errorf("panic")
	guard(func() { fc, err = osmgeojson.Convert(o, osmgeojson.IncludeInvalidPolygons(incl)) })
	ob := runObs{src: src, incl: incl, orients: orients, mask: mask}
	if err != nil {
		ob.nfeat = -1
		return ob
	}
	ob.nfeat = len(fc.Features)
	for _, f := range fc.Features {
		if f.ID != fmt.Sprintf("relation/%d", in.rid()) {
			continue
		}
		switch g := f.Geometry.(type) {
		case orb.Polygon:
			ob.kind, ob.polys = 1, orb.MultiPolygon{g}
		case orb.MultiPolygon:
			ob.kind, ob.polys = 2, g
		default:
			ob.kind = 3
		}
		if t, ok := f.Properties["tainted"].(bool); ok && t {
			ob.tainted = true
		}
	}
	return ob
}

type annotObs struct {
	in  []int64
	ok  bool
	out []int64
}

func doAnnot(in *input, orients []int64) annotObs {
	o := in.build(1, orients)
	r := o.Relations[0]
	hist := &osm.OSM{Ways: o.Ways}
	for _, m := range in.members { // histories of the node / relation members
		if !m.isWay && !m.rel {
			hist.Nodes = append(hist.Nodes, &osm.Node{ID: osm.NodeID(m.ref), Version: 1, Visible: true, Lon: 1.5, Lat: 2.5})
		} else if m.rel {
			hist.Relations = append(hist.Relations, &osm.Relation{ID: osm.RelationID(m.ref), Version: 1, Visible: true})
		}
	}
	err := fmt.Errorf("panic")
	guard(func() {
		err = annotate.Relations(context.Background(), osm.Relations{r},
			hist.HistoryDatasource(), annotate.Threshold(time.Hour))
	})
	a := annotObs{in: orients, ok: err == nil}
	for _, m := range r.Members {
		a.out = append(a.out, int64(m.Orientation))
	}
	return a
}

// twoStepAnnot: annotate.Relations first on a partial extract (some member ways missing,
// IgnoreMissingChildren), then again on the same relation once all ways are there.  The
// observation is the second run; its input orientations are what the first run left behind.
func twoStepAnnot(rng *rand.Rand, in *input) (annotObs, bool) {
	if len(in.ways) < 2 {
		return annotObs{}, false
	}
	o := in.build(1, zeros(len(in.members)))
	r := o.Relations[0]
	var part osm.Ways
	for _, w := range o.Ways {
		if rng.Intn(2) == 0 {
			part = append(part, w)
		}
	}
	if len(part) == 0 || len(part) == len(o.Ways) {
		part = o.Ways[:1]
	}
	err1 := fmt.Errorf("panic")
	guard(func() {
		err1 = annotate.Relations(context.Background(), osm.Relations{r},
			(&osm.OSM{Ways: part}).HistoryDatasource(), annotate.Threshold(time.Hour), annotate.IgnoreMissingChildren(true))
	})
	if err1 != nil {
		return annotObs{}, false
	}
	a := annotObs{}
	for _, m := range r.Members {
		a.in = append(a.in, int64(m.Orientation))
	}
	r.Updates = nil
	err := fmt.Errorf("panic")
	guard(func() {
		err = annotate.Relations(context.Background(), osm.Relations{r},
			(&osm.OSM{Ways: o.Ways}).HistoryDatasource(), annotate.Threshold(time.Hour))
	})
	a.ok = err == nil
	for _, m := range r.Members {
		a.out = append(a.out, int64(m.Orientation))
	}
	return a, true
}

// Go-side property oracle for a run on a scene with a spec ("" = holds).
func ringKey(r []pt) string { // canonical form of an open ring up to rotation, direction kept
	n := len(r)
	best := 0
	for i := 1; i < n; i++ {
		if r[i].x < r[best].x || (r[i].x == r[best].x && r[i].y < r[best].y) {
			best = i
		}
	}
	return fmt.Sprint(rotated(r, best))
}
func obsRing(r orb.Ring) ([]pt, bool) {
	if len(r) < 4 || r[0] != r[len(r)-1] {
		return nil, false
	}
	o := make([]pt, 0, len(r)-1)
	for _, p := range r[:len(r)-1] {
		q, ok := unembed(p)
		if !ok {
			return nil, false
		}
		o = append(o, q)
	}
	return o, true
}
func oracleRun(in *input, ob runObs) string {
	if ob.nfeat != 1 {
		return fmt.Sprintf("%d features instead of 1", ob.nfeat)
	}
	if ob.kind != 1 && ob.kind != 2 {
		return "no polygon geometry"
	}
	if ob.tainted {
		return "tainted"
	}
	if len(ob.polys) != len(in.spec) {
		return fmt.Sprintf("%d polygons instead of %d", len(ob.polys), len(in.spec))
	}
	want := map[string][]string{} // outer key (ccw) -> sorted hole keys (cw)
	norm := func(r []pt, ccw bool) string {
		if (area2(r) > 0) != ccw {
			r = reversed(r)
		}
		return ringKey(r)
	}
	for _, p := range in.spec {
		var hs []string
		for _, h := range p.holes {
			hs = append(hs, norm(h, false))
		}
		sort.Strings(hs)
		want[norm(p.outer, true)] = hs
	}
	for _, poly := range ob.polys {
		if len(poly) == 0 {
			return "empty polygon"
		}
		or, ok := obsRing(poly[0])
		if !ok {
			return "outer ring not closed / too short"
		}
		hs, found := want[ringKey(or)]
		if !found {
			return "outer ring is not a ground-truth outer ring, counter-clockwise"
		}
		delete(want, ringKey(or))
		var got []string
		for _, h := range poly[1:] {
			hr, ok := obsRing(h)
			if !ok {
				return "hole not closed / too short"
			}
			got = append(got, ringKey(hr))
		}
		sort.Strings(got)
		if fmt.Sprint(got) != fmt.Sprint(hs) {
			return "holes differ from the ground-truth holes of this outer (clockwise)"
		}
	}
	return ""
}

func sceneCase(in *input, runs []runObs, annots []annotObs) *wire.Case {
	c := &wire.Case{Class: "scene"}
	c.Int(1).Bool(in.spec != nil)
	in.setInverse()
	defer func() { inverse = nil }()
	desc := map[string]interface{}{"embedding(lon=x*scale+lon0,lat=y*scale+lat0)": map[string]float64{"scale": in.e.s, "lon0": in.e.ox, "lat0": in.e.oy}}
	if in.spec != nil {
		c.Len(len(in.spec))
		var gs []interface{}
		for _, p := range in.spec {
			encLine(c, p.outer)
			c.Len(len(p.holes))
			var hs []interface{}
			for _, h := range p.holes {
				encLine(c, h)
				hs = append(hs, ptsJSON(h))
			}
			gs = append(gs, map[string]interface{}{"outer": ptsJSON(p.outer), "holes": hs})
		}
		c.Len(len(in.pieces))
		var ps []interface{}
		for _, pc := range in.pieces {
			c.Len(pc.ring).Len(pc.start).Len(pc.edges).Bool(pc.rev)
			ps = append(ps, []interface{}{pc.ring, pc.start, pc.edges, pc.rev})
		}
		desc["ground_truth"] = gs
		desc["pieces(ring,start,edges,reversed)"] = ps
	}
	c.Len(len(in.nodes))
	var ns []interface{}
	for _, n := range in.nodes {
		c.Int(n.id)
		encP(c, n.p)
		ns = append(ns, []int64{n.id, n.p.x, n.p.y})
	}
	c.Len(len(in.ways))
	var ws []interface{}
	for _, w := range in.ways {
		c.Int(w.id).Ints(w.nodes)
		ws = append(ws, map[string]interface{}{"id": w.id, "nodes": w.nodes})
	}
	c.Len(len(in.members))
	var ms []interface{}
	for _, m := range in.members {
		c.Bool(m.isWay).Int(m.ref).Int(int64(m.role))
		ms = append(ms, []interface{}{m.isWay, m.ref, roleName(m.role)})
	}
	desc["nodes(id,x=lon,y=lat)"], desc["ways"], desc["members"], desc["relation_type"] = ns, ws, ms, in.relType
	desc["relation_id"] = in.rid()
	c.Len(len(runs))
	var rs []interface{}
	for _, r := range runs {
		c.Int(int64(r.src)).Bool(r.incl).Ints(r.orients).Len(len(r.mask))
		for _, b := range r.mask {
			c.Bool(b)
		}
		c.Int(int64(r.nfeat)).Int(int64(r.kind))
		encMP(c, r.polys)
		c.Bool(r.tainted)
		rs = append(rs, map[string]interface{}{"coords_from": []string{"nodes", "way_nodes", "both", "nodes + way nodes annotated per mask"}[r.src], "annotated_way_node_mask": r.mask, "include_invalid": r.incl,
			"member_orientations": r.orients, "features": r.nfeat, "kind": []string{"none", "Polygon", "MultiPolygon", "other"}[r.kind],
			"polygons": r.polys, "tainted": r.tainted})
		if in.spec != nil && c.OracleFail == "" {
			if msg := oracleRun(in, r); msg != "" {
				c.OracleFail = "Convert: " + msg
			}
		}
	}
	c.Len(len(annots))
	var as []interface{}
	for _, a := range annots {
		c.Ints(a.in).Bool(a.ok).Ints(a.out)
		as = append(as, map[string]interface{}{"orientations_in": a.in, "ok": a.ok, "orientations_out": a.out})
		if in.spec != nil && c.OracleFail == "" {
			if !a.ok || fmt.Sprint(a.out) != fmt.Sprint(expectedOrients(in)) {
				c.OracleFail = fmt.Sprintf("annotate.Relations: orientations %v, expected %v", a.out, expectedOrients(in))
			}
		}
	}
	desc["convert_runs"], desc["annotate_runs"] = rs, as
	if nonInteger && c.OracleFail == "" {
		c.OracleFail = "output contains a coordinate that is not an input coordinate (non-integer / out of range)"
	}
	nonInteger = false
	if implPanic != "" {
		if in.spec != nil {
			c.OracleFail = "the implementation panicked: " + implPanic
		}
		desc["panic"] = implPanic
		implPanic = ""
	}
	c.Desc = desc
	return c
}

func zeros(n int) []int64 { return make([]int64, n) }
func partial(rng *rand.Rand, full []int64) []int64 {
	o := make([]int64, len(full))
	for i := range full {
		if rng.Intn(2) == 0 {
			o[i] = full[i]
		}
	}
	return o
}

// mixedMask: which way nodes (all ways of the input, in order) carry their location; node objects
// are present as well.  Patterns: both ends only, interior only, first only, last only, all but
// one interior node, random.
func mixedMask(rng *rand.Rand, in *input, pattern int) []bool {
	var m []bool
	for _, w := range in.ways {
		n := len(w.nodes)
		hole := -1
		if n > 2 {
			hole = 1 + rng.Intn(n-2)
		}
		for i := 0; i < n; i++ {
			end := i == 0 || i == n-1
			var b bool
			switch pattern {
			case 0:
				b = end
			case 1:
				b = !end
			case 2:
				b = i == 0
			case 3:
				b = i == n-1
			case 4:
				b = i != hole
			default:
				b = rng.Intn(2) == 0
			}
			m = append(m, b)
		}
	}
	return m
}

// withExtraMembers: the same relation with node and relation members (all roles) interleaved
// before / between / after the way members - the normal layout of boundary relations
// (admin_centre or label node first, subarea relations).  At least one non-way member precedes the
// first way member.  Their pieces are dummies; they must never get an orientation.
func withExtraMembers(rng *rand.Rand, in *input) *input {
	m := *in
	m.members, m.pieces = nil, nil
	extra := func(k int) rawMember {
		return rawMember{isWay: false, rel: rng.Intn(2) == 0, ref: int64(770000 + k), role: rng.Intn(3)}
	}
	k := 0
	for n := 1 + rng.Intn(2); n > 0; n-- { // before the first way
		m.members = append(m.members, extra(k))
		m.pieces = append(m.pieces, piece{})
		k++
	}
	for i, mm := range in.members {
		m.members = append(m.members, mm)
		m.pieces = append(m.pieces, in.pieces[i])
		if rng.Intn(3) == 0 || (i == len(in.members)-1 && rng.Intn(2) == 0) { // between / after
			m.members = append(m.members, extra(k))
			m.pieces = append(m.pieces, piece{})
			k++
		}
	}
	return &m
}

// mixedMembersCase: Convert from annotated way nodes (no node objects: a node member without a
// node object yields no feature of its own) and annotate.Relations; orientations compared member
// by member, by index.
func mixedMembersCase(rng *rand.Rand, in *input) *wire.Case {
	m := withExtraMembers(rng, in)
	n := len(m.members)
	exp := expectedOrients(m)
	stale := make([]int64, n)
	for i := range stale {
		if m.members[i].isWay {
			stale[i] = int64(rng.Intn(3) - 1)
		}
	}
	runs := []runObs{doRun(m, 1, false, zeros(n)), doRun(m, 1, false, exp), doRun(m, 1, true, partial(rng, exp))}
	annots := []annotObs{doAnnot(m, zeros(n)), doAnnot(m, stale)}
	m.prefill = true
	annots = append(annots, doAnnot(m, zeros(n)))
	m.prefill = false
	c := sceneCase(m, runs, annots)
	c.Class = "mixed_members"
	return c
}

// a complete scene case: Convert runs + annotate runs
func specCase(rng *rand.Rand, in *input) *wire.Case {
	n := len(in.members)
	exp := expectedOrients(in)
	runs := []runObs{
		doRun(in, 0, false, zeros(n)),
		doRun(in, 1, false, zeros(n)),
		doRun(in, 2, false, exp),
		doRun(in, 0, false, partial(rng, exp)),
		doRun(in, 1, false, exp),
		doRun(in, rng.Intn(3), true, [][]int64{zeros(n), exp, partial(rng, exp)}[rng.Intn(3)]),
		doRun(in, 3, false, [][]int64{zeros(n), exp}[rng.Intn(2)], mixedMask(rng, in, mixCounter%6)...),
	}
	mixCounter++
	var annots []annotObs
	if !in.noAnnot {
		// stale / wrong orientations on the members must be overwritten as well
		stale := make([]int64, n)
		for i := range stale {
			stale[i] = int64(rng.Intn(3) - 1)
		}
		annots = []annotObs{doAnnot(in, zeros(n)), doAnnot(in, [][]int64{exp, partial(rng, exp), stale}[rng.Intn(3)])}
		// members that already carry version + changeset of the current ways (filled by another
		// pipeline) but no / a stale orientation
		in.prefill = true
		annots = append(annots, doAnnot(in, [][]int64{zeros(n), stale}[rng.Intn(2)]))
		in.prefill = false
		if a, ok := twoStepAnnot(rng, in); ok {
			annots = append(annots, a)
		}
	}
	return sceneCase(in, runs, annots)
}

// ---------------------------------------------------------------- malformed scenes (no spec)

func malformed(rng *rand.Rand, in *input) *input {
	m := &input{e: embIdentity, relType: in.relType}
	m.nodes = append(m.nodes, in.nodes...)
	for _, w := range in.ways {
		m.ways = append(m.ways, rawWay{w.id, append([]int64(nil), w.nodes...)})
	}
	m.members = append(m.members, in.members...)
	for k := 1 + rng.Intn(3); k > 0; k-- {
		switch rng.Intn(10) {
		case 0: // a way is missing from the data
			if len(m.ways) > 1 {
				i := rng.Intn(len(m.ways))
				m.ways = append(m.ways[:i], m.ways[i+1:]...)
			}
		case 1: // a member is missing: unclosed ring
			if len(m.members) > 1 {
				i := rng.Intn(len(m.members))
				m.members = append(m.members[:i], m.members[i+1:]...)
			}
		case 2: // a node is missing
			i := rng.Intn(len(m.nodes))
			m.nodes = append(m.nodes[:i], m.nodes[i+1:]...)
		case 3: // a node sits at (0,0): "no location" on annotated way nodes
			m.nodes[rng.Intn(len(m.nodes))].p = pt{0, 0}
		case 4: // duplicate member
			m.members = append(m.members, m.members[rng.Intn(len(m.members))])
		case 5: // role changes
			m.members[rng.Intn(len(m.members))].role = rng.Intn(3)
		case 6: // dangling way from existing nodes
			w := rawWay{id: 900 + int64(rng.Intn(50))}
			for j := 1 + rng.Intn(4); j > 0; j-- {
				w.nodes = append(w.nodes, m.nodes[rng.Intn(len(m.nodes))].id)
			}
			m.ways = append(m.ways, w)
			m.members = append(m.members, rawMember{isWay: true, ref: w.id, role: rng.Intn(2)})
		case 7: // a way loses its nodes / keeps one
			i := rng.Intn(len(m.ways))
			m.ways[i].nodes = m.ways[i].nodes[:rng.Intn(2)]
		case 8: // two nodes coincide: rings touch
			m.nodes[rng.Intn(len(m.nodes))].p = m.nodes[rng.Intn(len(m.nodes))].p
		case 9: // a node member
			m.members = append(m.members, rawMember{isWay: false, ref: m.nodes[rng.Intn(len(m.nodes))].id, role: rng.Intn(3)})
		}
	}
	return m
}

func malformedCase(rng *rand.Rand, in *input) *wire.Case {
	m := malformed(rng, in)
	n := len(m.members)
	rnd := func() []int64 {
		o := make([]int64, n)
		for i := range o {
			o[i] = int64(rng.Intn(3) - 1)
		}
		return o
	}
	runs := []runObs{
		doRun(m, 0, false, zeros(n)),
		doRun(m, 1+rng.Intn(2), false, zeros(n)),
		doRun(m, rng.Intn(3), true, zeros(n)),
		doRun(m, rng.Intn(3), rng.Intn(2) == 0, rnd()),
	}
	var annots []annotObs
	allThere := true
	have := map[int64]bool{}
	for _, w := range m.ways {
		have[w.id] = true
	}
	for _, mm := range m.members {
		if !mm.isWay || !have[mm.ref] {
			allThere = false
		}
	}
	if allThere {
		annots = append(annots, doAnnot(m, zeros(n)), doAnnot(m, rnd()))
	}
	c := sceneCase(m, runs, annots)
	c.Class = "malformed"
	return c
}

// ---------------------------------------------------------------- Join / Ring / Orientation directly

func toOrb(l []pt) orb.LineString {
	o := make(orb.LineString, len(l))
	for i, p := range l {
		o[i] = orb.Point{float64(p.x), float64(p.y)}
	}
	return o
}

func encSeg(c *wire.Case, s osmgeojson.VerifSegment) {
	c.Int(int64(s.Index)).Int(int64(s.Orientation)).Bool(s.Reversed)
	encOrbLine(c, s.Line)
}
func segJSON(s osmgeojson.VerifSegment) interface{} {
	return map[string]interface{}{"index": s.Index, "orientation": s.Orientation, "reversed": s.Reversed, "line": s.Line}
}

func joinCase(segs []osmgeojson.VerifSegment, corrupt bool) *wire.Case {
	c := &wire.Case{Class: "join"}
	c.Int(2).Len(len(segs))
	var in, out []interface{}
	for _, s := range segs {
		encSeg(c, s)
		in = append(in, segJSON(s))
	}
	var chains [][]osmgeojson.VerifSegment
	guard(func() { chains = osmgeojson.VerifJoin(segs) })
	if corrupt && len(chains) > 0 {
		chains[0][0].Reversed = !chains[0][0].Reversed
	}
	c.Len(len(chains))
	for _, ch := range chains {
		c.Len(len(ch))
		var cj []interface{}
		for _, s := range ch {
			encSeg(c, s)
			cj = append(cj, segJSON(s))
		}
		out = append(out, cj)
	}
	c.Len(len(chains))
	var obs []interface{}
	for _, ch := range chains {
		var a, b orb.Ring
		var o orb.Orientation
		guard(func() {
			a, b, o = osmgeojson.VerifRing(ch, orb.CCW), osmgeojson.VerifRing(ch, orb.CW), osmgeojson.VerifOrientation(ch)
		})
		encOrbLine(c, a)
		encOrbLine(c, b)
		c.Int(int64(o))
		obs = append(obs, map[string]interface{}{"ring_ccw": a, "ring_cw": b, "orientation": o})
	}
	c.Desc = map[string]interface{}{"segments": in, "joined": out, "per_chain": obs}
	nonInteger = false
	if implPanic != "" && !corrupt {
		c.OracleFail = "Join panicked: " + implPanic
	}
	implPanic = ""
	return c
}

func randomSoup(rng *rand.Rand) []osmgeojson.VerifSegment {
	pool := make([]pt, 3+rng.Intn(8))
	for i := range pool {
		pool[i] = pt{int64(rng.Intn(12)), int64(rng.Intn(12))}
	}
	n := rng.Intn(9)
	segs := make([]osmgeojson.VerifSegment, n)
	for i := range segs {
		l := make([]pt, rng.Intn(5))
		if rng.Intn(4) > 0 && len(l) < 2 {
			l = make([]pt, 2+rng.Intn(3))
		}
		for j := range l {
			l[j] = pool[rng.Intn(len(pool))]
		}
		segs[i] = osmgeojson.VerifSegment{Index: uint32(i), Orientation: orb.Orientation(rng.Intn(3) - 1), Reversed: rng.Intn(2) == 0, Line: toOrb(l)}
	}
	return segs
}

// segments of a valid cut of a scene's outer rings (as Group would hand them to Join)
func cutSoup(rng *rand.Rand, in *input, withOrient bool) []osmgeojson.VerifSegment {
	exp := expectedOrients(in)
	var segs []osmgeojson.VerifSegment
	role := rng.Intn(2)
	for i, m := range in.members {
		if m.role != role {
			continue
		}
		var l []pt
		for _, w := range in.ways {
			if w.id == m.ref {
				for _, id := range w.nodes {
					p, _ := in.nodeAt(id)
					l = append(l, p)
				}
			}
		}
		s := osmgeojson.VerifSegment{Index: uint32(i), Line: toOrb(l)}
		if withOrient {
			s.Orientation = orb.Orientation(exp[i])
		}
		segs = append(segs, s)
	}
	return segs
}

// ---------------------------------------------------------------- polygonContains / addToMultiPolygon

func closedOrb(r []pt) orb.Ring {
	l := toOrb(r)
	return orb.Ring(append(l, l[0]))
}

func containsCase(outer orb.Ring, r orb.Ring, corrupt bool) *wire.Case {
	c := &wire.Case{Class: "contains"}
	c.Int(3)
	encOrbLine(c, outer)
	encOrbLine(c, r)
	var got bool
	guard(func() { got = osmgeojson.VerifPolygonContains(outer, r) })
	if corrupt {
		got = !got
	}
	c.Bool(got)
	c.Desc = map[string]interface{}{"outer": outer, "ring": r, "contains": got}
	return c
}

func randomRing(rng *rand.Rand, lim int) orb.Ring {
	n := rng.Intn(8)
	l := make([]pt, n)
	for i := range l {
		l[i] = pt{int64(rng.Intn(lim)), int64(rng.Intn(lim))}
	}
	r := orb.Ring(toOrb(l))
	if n > 0 && rng.Intn(4) > 0 {
		r = append(r, r[0])
	}
	return r
}

func addmpCase(rng *rand.Rand, corrupt bool) *wire.Case {
	c := &wire.Case{Class: "addmp"}
	incl := rng.Intn(2) == 0
	var mp orb.MultiPolygon
	for k := rng.Intn(4); k > 0; k-- {
		var poly orb.Polygon
		switch rng.Intn(4) {
		case 0:
			poly = orb.Polygon{nil}
		default:
			poly = orb.Polygon{randomRing(rng, 10)}
		}
		for h := rng.Intn(2); h > 0; h-- {
			poly = append(poly, randomRing(rng, 10))
		}
		mp = append(mp, poly)
	}
	ring := randomRing(rng, 10)
	var got orb.MultiPolygon
	guard(func() { got = osmgeojson.VerifAddToMultiPolygon(mp, ring, incl) })
	if corrupt {
		got = append(got, orb.Polygon{nil})
	}
	c.Int(4).Bool(incl)
	encMP(c, mp)
	encOrbLine(c, ring)
	encMP(c, got)
	c.Desc = map[string]interface{}{"include_invalid": incl, "multipolygon": mp, "ring": ring, "result": got}
	nonInteger = false
	return c
}

// ---------------------------------------------------------------- many outers, irregular layout

// genIrregular: n outers of very different widths (star rings stretched in x by 1..6) placed in
// rows with random gaps and offsets, so that west edges, east edges and sizes interleave
// irregularly; wide outers get a small hole in their eastern part, some others a hole near the
// centre.  n is chosen around size thresholds (12/13, 16/17, 32/33).
func genIrregular(rng *rand.Rand, n int) []gtPoly {
	for {
		var sc []gtPoly
		y := int64(40)
		for len(sc) < n && y < 8000 {
			x := int64(20 + rng.Intn(200))
			perRow := 2 + rng.Intn(6)
			for k := 0; k < perRow && len(sc) < n; k++ {
				r := int64(8 + rng.Intn(13))
				f := []int64{1, 1, 2, 4, 6}[rng.Intn(5)]
				cx := x + f*r + 2
				if cx+f*r+2 >= coordLim-10 {
					break
				}
				c := pt{cx, y}
				base := starRing(rng, pt{0, 0}, r/2+1, r, 4+rng.Intn(5))
				if base == nil {
					continue
				}
				outer := make([]pt, len(base))
				for i, v := range base {
					outer[i] = pt{cx + f*v.x, y + v.y}
				}
				if !simpleRing(outer) || area2(outer) <= 0 || !isKernel(outer, c) {
					continue
				}
				cc := c
				p := gtPoly{outer: outer, c: &cc}
				var hc pt
				switch {
				case f >= 4 && rng.Intn(4) > 0:
					hc = pt{cx + f*r/3 + int64(rng.Intn(3)), y} // eastern part of a wide outer
				case rng.Intn(3) == 0:
					hc = pt{cx + int64(rng.Intn(3)) - 1, y}
				}
				if hc != (pt{}) {
					if hole := starRing(rng, hc, 1, 3, 3+rng.Intn(2)); hole != nil &&
						strictlyInside(hole, outer) && insideStar(outer, [][]pt{hole}, c) {
						p.holes = [][]pt{hole}
					}
				}
				sc = append(sc, p)
				x = cx + f*r + 2 + int64(3+rng.Intn(40))
			}
			y += 50
		}
		if len(sc) != n {
			continue
		}
		for i := range sc {
			if rng.Intn(2) == 0 {
				sc[i].outer = reversed(sc[i].outer)
			}
			sc[i].outer = rotated(sc[i].outer, rng.Intn(len(sc[i].outer)))
		}
		rng.Shuffle(len(sc), func(i, j int) { sc[i], sc[j] = sc[j], sc[i] })
		ok := true
		func() {
			defer func() {
				if recover() != nil {
					ok = false
				}
			}()
			assertScene(sc)
		}()
		if ok {
			return sc
		}
	}
}

// irregularCase: fewer runs than specCase (the scenes are large)
func irregularCase(rng *rand.Rand, sc []gtPoly) *wire.Case {
	in := cutScene(rng, sc, func(ring, n int) int { return 1 + rng.Intn(2) })
	n := len(in.members)
	exp := expectedOrients(in)
	runs := []runObs{doRun(in, 0, false, zeros(n)), doRun(in, 1, false, partial(rng, exp))}
	c := sceneCase(in, runs, []annotObs{doAnnot(in, zeros(n))})
	c.Class = "irregular"
	return c
}

// ---------------------------------------------------------------- big rings

// comb: a counter-clockwise simple band with J narrow inlets on each shore, interleaved like two
// combs; 16*J vertices, every shore repeats with a period of 8 vertices (integer version of the
// classic counter-example to orientation-by-sampling: every 8th vertex is an inlet tip, and the
// tips alone trace a clockwise polygon).
func comb(J int) []pt {
	var q [][2]int64 // quarter units
	for j := 0; j < J; j++ {
		x := 16 * int64(j)
		if j < J-1 {
			q = append(q, [2]int64{x + 4, 4}, [2]int64{x + 5, -8}, [2]int64{x + 8, -8}, [2]int64{x + 10, -8},
				[2]int64{x + 12, -8}, [2]int64{x + 14, -8}, [2]int64{x + 16, -8}, [2]int64{x + 19, -8})
		} else {
			q = append(q, [2]int64{x + 4, 4}, [2]int64{x + 5, -8}, [2]int64{x + 8, -8}, [2]int64{x + 16, -8},
				[2]int64{x + 16, 0}, [2]int64{x + 16, 8}, [2]int64{x + 14, 8}, [2]int64{x + 13, 8})
		}
	}
	for j := J - 1; j >= 0; j-- {
		x := 16 * int64(j)
		if j > 0 {
			q = append(q, [2]int64{x + 12, -4}, [2]int64{x + 11, 8}, [2]int64{x + 8, 8}, [2]int64{x + 6, 8},
				[2]int64{x + 4, 8}, [2]int64{x + 2, 8}, [2]int64{x, 8}, [2]int64{x - 3, 8})
		} else {
			q = append(q, [2]int64{x + 12, -4}, [2]int64{x + 11, 8}, [2]int64{x + 8, 8}, [2]int64{x, 8},
				[2]int64{x, 0}, [2]int64{x, -8}, [2]int64{x + 2, -8}, [2]int64{x + 3, -8})
		}
	}
	r := make([]pt, len(q))
	for i, v := range q {
		r[i] = pt{v[0] + 10, v[1] + 20}
	}
	return r
}

// combCase: the comb ring cut at the given vertex indexes (first must be 0), every second piece
// reversed, members listed so that the piece starting at vertex 0 comes LAST (the joiner then
// starts the ring at vertex 0); one un-annotated and one annotated Convert run.
func combCase(rng *rand.Rand, J int, cuts []int) *wire.Case {
	ring := comb(J)
	sc := []gtPoly{{outer: ring}}
	assertScene(sc)
	in := &input{e: embIdentity, spec: sc, relType: "multipolygon"}
	n := len(ring)
	for i, p := range ring {
		in.nodes = append(in.nodes, rawNode{int64(i) + 1, p})
	}
	for k, from := range cuts {
		to := n
		if k+1 < len(cuts) {
			to = cuts[k+1]
		}
		var ids []int64
		for i := from; i <= to; i++ {
			ids = append(ids, int64(i%n)+1)
		}
		pc := piece{0, from, to - from, k%2 == 1}
		if pc.rev {
			for a, b := 0, len(ids)-1; a < b; a, b = a+1, b-1 {
				ids[a], ids[b] = ids[b], ids[a]
			}
		}
		w := rawWay{id: int64(100 + k), nodes: ids}
		in.ways = append(in.ways, w)
		// prepend: the first piece is the last member
		in.members = append([]rawMember{{isWay: true, ref: w.id, role: 0}}, in.members...)
		in.pieces = append([]piece{pc}, in.pieces...)
	}
	m := len(in.members)
	runs := []runObs{doRun(in, 0, false, zeros(m)), doRun(in, 0, false, expectedOrients(in))}
	c := sceneCase(in, runs, nil)
	c.Class = fmt.Sprintf("big_ring:%d", n+1)
	return c
}

// ---------------------------------------------------------------- several relations in one Convert call

// multiScene: a star ring around c split by the two spokes c-v_i, c-v_j into two neighbouring
// polygons A and B that share the way(s) v_i - c - v_j, and a third relation whose outer ring is a
// square around everything and whose inner ring is A (the ways of A are outer members in relation
// 1 and inner members in relation 3).  Every relation is a valid scene of its own.
type multi struct {
	e     emb
	nodes []rawNode
	ways  []rawWay
	rels  []*input // nodes / ways of each are the shared tables
}

func genMulti(rng *rand.Rand, ps preset, e emb, idMode int) *multi {
	for {
		cell := ps.cell
		c := pt{cell*3 + ps.off, cell*3 + ps.off}
		k := 5 + rng.Intn(5)
		r := starRing(rng, c, ps.rmin, ps.rmax, k)
		if r == nil {
			continue
		}
		i := rng.Intn(k)
		j := (i + 1 + rng.Intn(k-1)) % k
		arc := func(from, to int) []pt {
			var o []pt
			for x := from; ; x = (x + 1) % k {
				o = append(o, r[x])
				if x == to {
					break
				}
			}
			return o
		}
		A := append(arc(i, j), c) // v_i .. v_j, c
		B := append(arc(j, i), c) // v_j .. v_i, c
		h := ps.rmax + 2
		S := []pt{{c.x - h, c.y - h}, {c.x + h, c.y - h}, {c.x + h, c.y + h}, {c.x - h, c.y + h}}
		if !simpleRing(A) || !simpleRing(B) || area2(A) <= 0 || area2(B) <= 0 {
			continue
		}
		scs := [][]gtPoly{{{outer: A}}, {{outer: B}}, {{outer: S, holes: [][]pt{A}, c: &c}}}
		okAll := true
		for _, sc := range scs {
			func() {
				defer func() {
					if recover() != nil {
						okAll = false
					}
				}()
				assertScene(sc)
			}()
			if !robust(sc, e) {
				okAll = false
			}
		}
		if !okAll {
			continue
		}
		m := &multi{e: e}
		nid := map[pt]int64{}
		all := append(append(append([]pt{}, r...), c), S...)
		ids := rng.Perm(len(all) + 4)
		for x, p := range all {
			nid[p] = int64(ids[x]) + 1
			m.nodes = append(m.nodes, rawNode{nid[p], p})
		}
		wid := int64(100)
		type wdesc struct {
			id   int64
			line []pt
		}
		mkWay := func(line []pt) wdesc {
			if rng.Intn(2) == 0 {
				line = reversed(line)
			}
			wid += int64(1 + rng.Intn(3))
			w := rawWay{id: wid}
			for _, p := range line {
				w.nodes = append(w.nodes, nid[p])
			}
			m.ways = append(m.ways, w)
			return wdesc{wid, line}
		}
		// cut an open path into consecutive ways
		cutPath := func(path []pt) []wdesc {
			var out []wdesc
			start := 0
			for x := 1; x < len(path); x++ {
				if x == len(path)-1 || rng.Intn(3) == 0 {
					out = append(out, mkWay(append([]pt{}, path[start:x+1]...)))
					start = x
				}
			}
			return out
		}
		waysArcA := cutPath(arc(i, j))
		waysArcB := cutPath(arc(j, i))
		var waysW []wdesc // the shared spokes v_j - c - v_i, as one way or two
		if rng.Intn(2) == 0 {
			waysW = []wdesc{mkWay([]pt{r[j], c, r[i]})}
		} else {
			waysW = []wdesc{mkWay([]pt{r[j], c}), mkWay([]pt{c, r[i]})}
		}
		waysS := cutPath(append(append([]pt{}, S...), S[0]))
		// a relation from a scene and the ways that make up its rings
		mkRel := func(id int64, sc []gtPoly, ws [][]wdesc) *input {
			in := &input{e: e, spec: sc, relType: []string{"multipolygon", "boundary"}[rng.Intn(2)], relID: id,
				nodes: m.nodes, ways: m.ways}
			rings, roles := sceneRings(sc)
			type mem struct {
				m  rawMember
				pc piece
			}
			var mems []mem
			for ri, ring := range rings {
				pos := map[pt]int{}
				for x, p := range ring {
					pos[p] = x
				}
				n := len(ring)
				for _, wd := range ws[ri] {
					l := wd.line
					// forward piece starting at l[0], or reversed piece starting at l[len-1]
					fwd := ring[(pos[l[0]]+1)%n] == l[1]
					if len(l)-1 == n { // a closed way: direction from the second vertex
						fwd = ring[(pos[l[0]]+1)%n] == l[1]
					}
					pc := piece{ri, pos[l[0]], len(l) - 1, false}
					if !fwd {
						pc = piece{ri, pos[l[len(l)-1]], len(l) - 1, true}
					}
					mems = append(mems, mem{rawMember{isWay: true, ref: wd.id, role: roles[ri]}, pc})
				}
			}
			rng.Shuffle(len(mems), func(a, b int) { mems[a], mems[b] = mems[b], mems[a] })
			for _, x := range mems {
				in.members = append(in.members, x.m)
				in.pieces = append(in.pieces, x.pc)
			}
			return in
		}
		ringA := append(append([]wdesc{}, waysArcA...), waysW...)
		ringB := append(append([]wdesc{}, waysArcB...), waysW...)
		m.rels = []*input{
			mkRel(11, scs[0], [][]wdesc{ringA}),
			mkRel(12, scs[1], [][]wdesc{ringB}),
			mkRel(13, scs[2], [][]wdesc{waysS, ringA}),
		}
		rng.Shuffle(len(m.rels), func(a, b int) { m.rels[a], m.rels[b] = m.rels[b], m.rels[a] })
		rng.Shuffle(len(m.nodes), func(a, b int) { m.nodes[a], m.nodes[b] = m.nodes[b], m.nodes[a] })
		rng.Shuffle(len(m.ways), func(a, b int) { m.ways[a], m.ways[b] = m.ways[b], m.ways[a] })
		for _, in := range m.rels {
			in.nodes, in.ways = m.nodes, m.ways
		}
		if idMode > 0 { // exotic node ids (ways stay FeatureID-safe)
			nm := map[int64]int64{}
			ex := exoticIDs(rng, len(m.nodes), false)
			for x := range m.nodes {
				nm[m.nodes[x].id] = ex[x]
				m.nodes[x].id = ex[x]
			}
			for x := range m.ways {
				for y, id := range m.ways[x].nodes {
					m.ways[x].nodes[y] = nm[id]
				}
			}
		}
		return m
	}
}

type multiRun struct {
	src   int
	incl  bool
	nfeat int
	obs   []runObs // one per relation
}

func doMultiRun(m *multi, src int, incl bool, orients [][]int64) multiRun {
	o := m.rels[0].build(src, orients[0])
	for k := 1; k < len(m.rels); k++ {
		o.Relations = append(o.Relations, m.rels[k].build(src, orients[k]).Relations[0])
	}
	mr := multiRun{src: src, incl: incl}
	var fc *geojson.FeatureCollection
	err := fmt.Errorf("panic")
	guard(func() { fc, err = osmgeojson.Convert(o, osmgeojson.IncludeInvalidPolygons(incl)) })
	if err != nil {
		mr.nfeat = -1
	} else {
		mr.nfeat = len(fc.Features)
	}
	for k, in := range m.rels {
		ob := runObs{src: src, incl: incl, orients: orients[k]}
		if err == nil {
			for _, f := range fc.Features {
				if f.ID != fmt.Sprintf("relation/%d", in.rid()) {
					continue
				}
				switch g := f.Geometry.(type) {
				case orb.Polygon:
					ob.kind, ob.polys = 1, orb.MultiPolygon{g}
				case orb.MultiPolygon:
					ob.kind, ob.polys = 2, g
				default:
					ob.kind = 3
				}
				if t, ok := f.Properties["tainted"].(bool); ok && t {
					ob.tainted = true
				}
			}
		}
		mr.obs = append(mr.obs, ob)
	}
	return mr
}

func multiCase(rng *rand.Rand, m *multi, corrupt bool) *wire.Case {
	c := &wire.Case{Class: "multi_relation"}
	c.Int(5)
	m.rels[0].setInverse()
	defer func() { inverse = nil }()
	desc := map[string]interface{}{"embedding(lon=x*scale+lon0,lat=y*scale+lat0)": map[string]float64{"scale": m.e.s, "lon0": m.e.ox, "lat0": m.e.oy}}
	c.Len(len(m.nodes))
	var ns, ws, rs []interface{}
	for _, n := range m.nodes {
		c.Int(n.id)
		encP(c, n.p)
		ns = append(ns, []int64{n.id, n.p.x, n.p.y})
	}
	c.Len(len(m.ways))
	for _, w := range m.ways {
		c.Int(w.id).Ints(w.nodes)
		ws = append(ws, map[string]interface{}{"id": w.id, "nodes": w.nodes})
	}
	c.Len(len(m.rels))
	var exps [][]int64
	for _, in := range m.rels {
		c.Len(len(in.spec))
		var gs []interface{}
		for _, p := range in.spec {
			encLine(c, p.outer)
			c.Len(len(p.holes))
			var hs []interface{}
			for _, h := range p.holes {
				encLine(c, h)
				hs = append(hs, ptsJSON(h))
			}
			gs = append(gs, map[string]interface{}{"outer": ptsJSON(p.outer), "holes": hs})
		}
		c.Len(len(in.pieces))
		for _, pc := range in.pieces {
			c.Len(pc.ring).Len(pc.start).Len(pc.edges).Bool(pc.rev)
		}
		c.Len(len(in.members))
		var ms []interface{}
		for _, mm := range in.members {
			c.Bool(mm.isWay).Int(mm.ref).Int(int64(mm.role))
			ms = append(ms, []interface{}{mm.ref, roleName(mm.role)})
		}
		rs = append(rs, map[string]interface{}{"relation_id": in.rid(), "type": in.relType, "ground_truth": gs, "members": ms})
		exps = append(exps, expectedOrients(in))
	}
	desc["nodes(id,x,y)"], desc["ways"], desc["relations"] = ns, ws, rs
	pick := func(mode int) [][]int64 {
		var o [][]int64
		for k := range m.rels {
			switch mode {
			case 0:
				o = append(o, zeros(len(exps[k])))
			case 1:
				o = append(o, exps[k])
			default:
				o = append(o, partial(rng, exps[k]))
			}
		}
		return o
	}
	runs := []multiRun{
		doMultiRun(m, 0, false, pick(0)),
		doMultiRun(m, 1, false, pick(1)),
		doMultiRun(m, 0, false, pick(1)),
		doMultiRun(m, 2, false, pick(2)),
		doMultiRun(m, rng.Intn(3), true, pick(rng.Intn(3))),
	}
	if corrupt {
		runs = runs[:1]
		runs[0].obs[1].tainted = !runs[0].obs[1].tainted
	}
	c.Len(len(runs))
	var rj []interface{}
	for _, r := range runs {
		c.Int(int64(r.src)).Bool(r.incl).Int(int64(r.nfeat)).Len(len(r.obs))
		var oj []interface{}
		for k, ob := range r.obs {
			c.Ints(ob.orients).Int(int64(ob.kind))
			encMP(c, ob.polys)
			c.Bool(ob.tainted)
			oj = append(oj, map[string]interface{}{"relation_id": m.rels[k].rid(), "member_orientations": ob.orients,
				"kind": []string{"none", "Polygon", "MultiPolygon", "other"}[ob.kind], "polygons": ob.polys, "tainted": ob.tainted})
			if !corrupt && c.OracleFail == "" {
				ob.nfeat = 1
				if msg := oracleRun(m.rels[k], ob); msg != "" {
					c.OracleFail = fmt.Sprintf("Convert of %d relations, relation %d: %s", len(m.rels), m.rels[k].rid(), msg)
				}
			}
		}
		if !corrupt && c.OracleFail == "" && r.nfeat != len(m.rels) {
			c.OracleFail = fmt.Sprintf("%d features instead of %d", r.nfeat, len(m.rels))
		}
		rj = append(rj, map[string]interface{}{"coords_from": []string{"nodes", "way_nodes", "both"}[r.src], "include_invalid": r.incl, "features": r.nfeat, "relations": oj})
	}
	desc["convert_runs(all relations in one call)"] = rj
	if nonInteger && c.OracleFail == "" && !corrupt {
		c.OracleFail = "output contains a coordinate that is not an input coordinate"
	}
	nonInteger = false
	if implPanic != "" {
		if !corrupt {
			c.OracleFail = "the implementation panicked: " + implPanic
		}
		desc["panic"] = implPanic
		implPanic = ""
	}
	c.Desc = desc
	return c
}

// ---------------------------------------------------------------- relation histories (annotate)

// historyCases: one annotate.Relations call over two versions of a relation; between them some
// member ways get a new version with the node order reversed.  Each relation version must be
// annotated with the directions of the way versions current at that version: one SCENE case per
// relation version (annotate observation only), each with its own ways table.
func historyCases(rng *rand.Rand, in1 *input) []*wire.Case {
	in2 := &input{e: in1.e, spec: in1.spec, relType: in1.relType, relID: in1.relID, relZero: in1.relZero,
		nodes: in1.nodes, members: in1.members}
	in2.pieces = append([]piece{}, in1.pieces...)
	flipped := map[int64]bool{}
	for len(flipped) == 0 {
		for _, w := range in1.ways {
			if rng.Intn(3) == 0 {
				flipped[w.id] = true
			}
		}
	}
	for _, w := range in1.ways {
		nw := rawWay{w.id, append([]int64{}, w.nodes...)}
		if flipped[w.id] {
			for a, b := 0, len(nw.nodes)-1; a < b; a, b = a+1, b-1 {
				nw.nodes[a], nw.nodes[b] = nw.nodes[b], nw.nodes[a]
			}
		}
		in2.ways = append(in2.ways, nw)
	}
	for k, mm := range in2.members {
		if flipped[mm.ref] {
			in2.pieces[k].rev = !in2.pieces[k].rev
		}
	}
	t0 := time.Date(2015, 1, 1, 0, 0, 0, 0, time.UTC)
	day := 24 * time.Hour
	o1, o2 := in1.build(1, zeros(len(in1.members))), in2.build(1, zeros(len(in2.members)))
	var ways osm.Ways
	for _, w := range o1.Ways {
		w.Timestamp, w.ChangesetID = t0, 10
		ways = append(ways, w)
	}
	for _, w := range o2.Ways {
		if flipped[int64(w.ID)] {
			w.Version, w.Timestamp, w.ChangesetID = 2, t0.Add(2*day), 20
			ways = append(ways, w)
		}
	}
	r1, r2 := o1.Relations[0], o2.Relations[0]
	r1.Timestamp, r1.ChangesetID = t0.Add(day), 15
	r2.Version, r2.Timestamp, r2.ChangesetID = 2, t0.Add(3*day), 25
	err := fmt.Errorf("panic")
	guard(func() {
		err = annotate.Relations(context.Background(), osm.Relations{r1, r2},
			(&osm.OSM{Ways: ways}).HistoryDatasource(), annotate.Threshold(time.Hour))
	})
	var out []*wire.Case
	for k, pr := range []struct {
		in *input
		r  *osm.Relation
	}{{in1, r1}, {in2, r2}} {
		a := annotObs{in: zeros(len(pr.in.members)), ok: err == nil}
		for _, mm := range pr.r.Members {
			a.out = append(a.out, int64(mm.Orientation))
		}
		c := sceneCase(pr.in, nil, []annotObs{a})
		c.Class = "history"
		c.Desc.(map[string]interface{})["history"] = fmt.Sprintf("relation version %d of 2 in ONE annotate.Relations call; ways with a reversed second version (between the two relation versions): %v; the ways table above is the one current at this relation version", k+1, keys(flipped))
		out = append(out, c)
	}
	return out
}

func keys(m map[int64]bool) []int64 {
	var o []int64
	for k := range m {
		o = append(o, k)
	}
	sort.Slice(o, func(i, j int) bool { return o[i] < o[j] })
	return o
}

// ---------------------------------------------------------------- fixed corpus

func corpus() [][]gtPoly {
	sq := func(x, y, s int64) []pt { return []pt{{x, y}, {x + s, y}, {x + s, y + s}, {x, y + s}} }
	return [][]gtPoly{
		{{outer: sq(10, 10, 100)}},
		{{outer: sq(10, 10, 100), holes: [][]pt{sq(20, 20, 10)}}},
		{{outer: reversed(sq(10, 10, 100)), holes: [][]pt{sq(20, 20, 10), reversed(sq(50, 50, 20))}}, {outer: sq(500, 10, 50)}},
		{{outer: []pt{{1, 0}, {40, 1}, {0, 30}}, holes: [][]pt{{{5, 5}, {10, 5}, {5, 10}}}}, {outer: sq(200, 200, 30), holes: [][]pt{{{210, 210}, {220, 212}, {212, 221}}}}},
	}
}

func main() {
	a := wire.ParseArgs()
	rng := wire.Rng(a.Seed)
	w := wire.NewWriter("C16", a.Seed, a.Tier)
	w.Rule = "coordinate embedding: scene integer coordinates (x,y) are fed as lon = x*s+lon0, lat = y*s+lat0 for s in {1, 1e-7} and offsets {0, far from the origin}; observations are mapped back through the exact table of fed floats (vertex identities), scenes are used only when the generator's exact margins guarantee that float signs equal integer signs; families: big / tiny (holes of a few steps) / micro (outers of a few steps) / null_island (a vertex at (1,0), (0,1) or (1,1) steps). multi_relation: three relations in ONE Convert call sharing member ways (two neighbouring polygons sharing their spoke ways, which run in opposite directions in the two; a third relation using the ways of the first as inner ring), each with its own ground truth and orientations; history: annotate.Relations over two versions of a relation between which member ways were reversed (new way version), every version judged against the ways current at it; ids: node / way / relation ids also drawn from {negative, 0, around 2^40, near +-2^63} (opaque in the model). mixed_members: the relation also has node and relation members of every role before / between / after its way members (boundary layout), orientations compared by member index; interlocked: a C-shaped and an L-shaped outer, non-nested, with overlapping bounding boxes and holes lying inside the other outer's box (assertGeneral: exact no-touching, non-nesting, strict containment); scenes: 1-4 integer star-shaped outers in disjoint grid cells, 0-2 star-shaped holes each in disjoint sub-cells, strict containment (even-odd rule, no touching, AND kernel point + axis-parallel reachability of every hole vertex as in Geo/Jordan.v) / simplicity / disjointness asserted exactly; every ring cut into 1..6 pieces (all counts cycle), random reversals, shuffled members, ways, nodes and ids; each scene = 6 Convert runs (node map / annotated way nodes / both; no, truthful, partial truthful orientations; IncludeInvalidPolygons) + 2 annotate.Relations runs. malformed: a scene with 1-3 defects (missing way/member/node, node at (0,0), duplicate member, role change, dangling way, degenerate way, touching rings, node member), judged model=implementation only. join: random segment soups over a 12x12 pool plus valid cuts; contains / addmp: random rings. distinct = distinct token streams; trivial = empty soups."
	nscene, nmal, njoin, ncont, naddmp := 260, 120, 500, 500, 150
	if a.Tier == "thorough" {
		nscene, nmal, njoin, ncont, naddmp = 5000, 2500, 12000, 12000, 3000
	}
	sc := func(n int) int { return int(float64(n) * a.Scale) }
	nscene, nmal, njoin, ncont, naddmp = sc(nscene), sc(nmal), sc(njoin), sc(ncont), sc(naddmp)
	// --focus core (used by the widened search when an obligation about the translated core items -
	// Join's cases, Orientation's term, polygonContains' crossing test - is broken): many more join
	// orders of valid cuts, containment tests and annotate runs
	focus := a.Extra["focus"] == "core"
	if focus {
		njoin, ncont = 8*njoin, 6*ncont
		w.Notes = append(w.Notes, "focus=core: 8x join cases (3 of 4 are shuffled / re-reversed valid cuts), 6x contains cases")
	}

	// 0. fixed corpus, every cut count
	for _, g := range corpus() {
		assertScene(g)
		for k := 1; k <= 4; k++ {
			kk := k
			w.Add(specCase(rng, cutScene(rng, g, func(ring, n int) int { return kk })))
		}
		for _, e := range []emb{{1e-7, 0, 0}, {1e-7, 107.3456789, 51.1234567}, {1, 100, -50}} {
			if !robust(g, e) {
				panic("corpus scene not float-robust")
			}
			in := cutScene(rng, g, func(ring, n int) int { return 2 })
			in.e = e
			w.Add(specCase(rng, in))
		}
	}
	// 1. scenes
	var keep []*input
	for i := 0; i < nscene; i++ {
		nOuter := 1 + rng.Intn(3)
		if i%7 == 0 {
			nOuter = 1
		}
		if i%31 == 0 {
			nOuter = 4
		}
		// scene family: size preset x coordinate embedding
		fams := []struct {
			ps preset
			e  emb
		}{
			{presetBig, embIdentity}, {presetBig, embIdentity}, {presetBig, embIdentity}, {presetTiny, embIdentity},
			{presetBig, emb{1e-7, 0, 0}},                       // osm resolution next to (0,0)
			{presetTiny, emb{1e-7, 0, 0}},                      //
			{presetTiny, emb{1e-7, 120.1234567, 51.7654321}},   // tiny rings far from the origin
			{presetMicro, emb{1e-7, -73.9876543, -33.1234567}}, // rings of a few steps, far away
			{presetNull, emb{1e-7, 0, 0}},                      // a vertex one step from (0,0)
			{presetMicro, emb{1e-7, 107.3456789, 51.1234567}},  //
		}
		fam := fams[i%len(fams)]
		var g []gtPoly
		for {
			g = genScene(rng, fam.ps, nOuter, 2, 5+rng.Intn(6))
			if robust(g, fam.e) {
				break
			}
			w.Count("scene_rejected_not_float_robust")
		}
		w.Count(fmt.Sprintf("family:%s scale=%g offset=(%g,%g)", fam.ps.name, fam.e.s, fam.e.ox, fam.e.oy))
		base := i
		in := cutScene(rng, g, func(ring, n int) int {
			if base%7 == 0 && ring == 0 {
				return 1 // a single closed outer way: the "old style" path of buildPolygon
			}
			return 1 + (base+ring+rng.Intn(2))%6
		})
		in.e = fam.e
		if i%4 == 1 {
			mode := 1 + (i/4)%3
			remapIDs(rng, in, mode)
			w.Count(fmt.Sprintf("exotic_ids:mode%d", mode))
		}
		for _, n := range in.nodes {
			if n.p.x == 0 || n.p.y == 0 {
				w.Count("scene_touches_axis")
				break
			}
		}
		for _, pc := range in.pieces {
			w.Count(fmt.Sprintf("piece_edges:%d", min64(int64(pc.edges), 6)))
		}
		rings, _ := sceneRings(g)
		cnt := map[int]int{}
		for _, pc := range in.pieces {
			cnt[pc.ring]++
		}
		for ri := range rings {
			w.Count(fmt.Sprintf("cuts_per_ring:%d", cnt[ri]))
		}
		holes := 0
		for _, p := range g {
			holes += len(p.holes)
		}
		w.Count(fmt.Sprintf("outers:%d", len(g)))
		w.Count(fmt.Sprintf("holes:%d", holes))
		single := len(g) == 1 && cnt[0] == 1
		w.Count(fmt.Sprintf("single_outer_path:%v", single))
		c := specCase(rng, in)
		w.Add(c)
		if len(keep) < 400 {
			keep = append(keep, in)
		}
	}
	// 1a. many outers around size thresholds, irregular layout
	sizes := []int{12, 13, 16, 17, 18, 24, 32, 33}
	nirr := sc(16)
	if a.Tier == "thorough" {
		nirr = sc(240)
	}
	for i := 0; i < nirr; i++ {
		n := sizes[i%len(sizes)]
		w.Add(irregularCase(rng, genIrregular(rng, n)))
		w.Count(fmt.Sprintf("irregular_outers:%d", n))
	}
	// 1a''. concave, interlocking outers with overlapping bounding boxes (any shape: outside the
	// star-shaped class of Geo/Jordan.v, inside the even-odd class of theorems 7 and 8)
	ninter := sc(40)
	if a.Tier == "thorough" {
		ninter = sc(1200)
	}
	for i := 0; i < ninter; i++ {
		g := genInterlocked(rng)
		e := []emb{embIdentity, {1e-7, 0, 0}}[i%2]
		if !robust(g, e) {
			e = embIdentity
		}
		in := cutScene(rng, g, func(ring, n int) int { return 1 + rng.Intn(4) })
		in.e = e
		c := specCase(rng, in)
		c.Class = "interlocked"
		w.Add(c)
	}
	// 1a'. rings around the 2048 point mark (comb-shaped: adversarial for sampling)
	if a.Tier == "thorough" {
		for _, J := range []int{127, 128, 129, 256} {
			n := 16 * J
			for al := 0; al < 8; al++ {
				w.Add(combCase(rng, J, []int{0, n/3 + al, 2*n/3 + 2*al}))
			}
			w.Add(combCase(rng, J, []int{0}))
		}
	} else if a.Scale <= 1.5 {
		w.Add(combCase(rng, 128, []int{0}))
		w.Add(combCase(rng, 128, []int{0, 700, 1500}))
	}
	// 1a3. relations with node and relation members interleaved with the way members
	nmix := sc(60)
	if a.Tier == "thorough" {
		nmix = sc(1500)
	}
	for i := 0; i < nmix; i++ {
		base := keep[rng.Intn(len(keep))]
		if base.noAnnot {
			continue
		}
		w.Add(mixedMembersCase(rng, base))
	}
	// 1b. several relations sharing ways in one Convert call
	nmulti, nhist := sc(60), sc(60)
	if a.Tier == "thorough" {
		nmulti, nhist = sc(1500), sc(1500)
	}
	for i := 0; i < nmulti; i++ {
		fams := []struct {
			ps preset
			e  emb
		}{{presetBig, embIdentity}, {presetTiny, emb{1e-7, 0, 0}}, {presetTiny, emb{1e-7, 120.1234567, 51.7654321}}, {presetBig, emb{1e-7, 0, 0}}}
		f := fams[i%len(fams)]
		w.Add(multiCase(rng, genMulti(rng, f.ps, f.e, i%3), false))
	}
	// 1c. annotate.Relations over two-version relation histories with reversed member ways
	for i := 0; i < nhist; i++ {
		base := keep[rng.Intn(len(keep))]
		if base.noAnnot {
			continue
		}
		for _, c := range historyCases(rng, base) {
			w.Add(c)
		}
	}
	// 2. malformed scenes
	for i := 0; i < nmal; i++ {
		w.Add(malformedCase(rng, keep[rng.Intn(len(keep))]))
	}
	// 3. join
	for i := 0; i < njoin; i++ {
		var segs []osmgeojson.VerifSegment
		if i%4 == 0 || (focus && i%4 != 1) {
			segs = cutSoup(rng, keep[rng.Intn(len(keep))], i%8 == 0)
			if i%8 != 0 { // another order and other directions of the same cut (un-annotated)
				rng.Shuffle(len(segs), func(x, y int) { segs[x], segs[y] = segs[y], segs[x] })
				for x := range segs {
					if rng.Intn(2) == 0 {
						segs[x].Line.Reverse()
					}
				}
			}
		} else {
			segs = randomSoup(rng)
		}
		c := joinCase(segs, false)
		c.Trivial = len(segs) == 0
		w.Add(c)
	}
	// 4. contains: scene rings against each other + random rings
	for i := 0; i < ncont; i++ {
		if i%3 == 0 {
			in := keep[rng.Intn(len(keep))]
			rings, _ := sceneRings(in.spec)
			o, r := rings[rng.Intn(len(rings))], rings[rng.Intn(len(rings))]
			w.Add(containsCase(closedOrb(o), closedOrb(r), false))
		} else {
			w.Add(containsCase(randomRing(rng, 9), randomRing(rng, 9), false))
		}
	}
	// 5. addToMultiPolygon
	for i := 0; i < naddmp; i++ {
		w.Add(addmpCase(rng, false))
	}
	// canaries: one per observable class
	{
		g := corpus()[1]
		in := cutScene(rng, g, func(ring, n int) int { return 2 })
		n := len(in.members)
		// (a) geometry: the hole is dropped from the observed polygon
		// (a canary must not depend on the implementation being right: a well-formed observation
		// is fabricated from the ground truth when the implementation returned something else)
		wellFormed := func(r *runObs) {
			if len(r.polys) < 1 || len(r.polys[0]) < 2 || len(r.polys[0][0]) < 4 {
				r.kind, r.nfeat, r.tainted = 1, 1, false
				r.polys = orb.MultiPolygon{orb.Polygon{closedOrb(g[0].outer), closedOrb(reversed(g[0].holes[0]))}}
			}
		}
		r := doRun(in, 0, false, zeros(n))
		wellFormed(&r)
		r.polys = orb.MultiPolygon{orb.Polygon{r.polys[0][0]}}
		c := sceneCase(in, []runObs{r}, nil)
		c.Canary, c.Class, c.OracleFail = 1, "", ""
		w.Add(c)
		// (b) geometry: two vertices of the outer ring swapped
		r = doRun(in, 1, false, zeros(n))
		wellFormed(&r)
		ring := append(orb.Ring(nil), r.polys[0][0]...)
		ring[1], ring[2] = ring[2], ring[1]
		r.polys = orb.MultiPolygon{orb.Polygon{ring, r.polys[0][1]}}
		c = sceneCase(in, []runObs{r}, nil)
		c.Canary, c.Class, c.OracleFail = 1, "", ""
		w.Add(c)
		// (c) annotate: one orientation flipped
		an := doAnnot(in, zeros(n))
		if len(an.out) == 0 {
			an.out = zeros(n)
		}
		an.out[0] = -an.out[0]
		if an.out[0] == 0 {
			an.out[0] = 5
		}
		c = sceneCase(in, nil, []annotObs{an})
		c.Canary, c.Class, c.OracleFail = 1, "", ""
		w.Add(c)
		// (d) tainted flag flipped
		r = doRun(in, 2, false, zeros(n))
		wellFormed(&r)
		r.tainted = true
		c = sceneCase(in, []runObs{r}, nil)
		c.Canary, c.Class, c.OracleFail = 1, "", ""
		w.Add(c)
		// (e) join: Reversed flag flipped; (f) contains flipped; (g) addmp extra polygon
		c = joinCase(cutSoup(rng, in, false), true)
		c.Canary, c.Class = 1, ""
		w.Add(c)
		c = containsCase(closedOrb(g[0].outer), closedOrb(g[0].holes[0]), true)
		c.Canary, c.Class = 1, ""
		w.Add(c)
		c = addmpCase(rng, true)
		c.Canary, c.Class = 1, ""
		w.Add(c)
		c = multiCase(rng, genMulti(rng, presetTiny, embIdentity, 0), true)
		c.Canary, c.Class, c.OracleFail = 1, "", ""
		w.Add(c)
	}
	shard := 300
	if a.Tier == "thorough" {
		shard = 1400
	}
	w.Stats["holes_dropped_not_reachable_from_kernel"] = dropped
	w.Notes = append(w.Notes, "every scene with holes satisfies the geometric containment of Geo/Jordan.v: the outer ring has a kernel point (strictly left of every edge, one upward crossing of its height) from which every hole vertex is reachable by two axis-parallel legs that meet no edge (asserted with exact integer arithmetic)")
	if err := w.Flush(a.Out, "Verif.C16.Check", shard); err != nil {
		fmt.Fprintln(os.Stderr, err)
		os.Exit(1)
	}
}
