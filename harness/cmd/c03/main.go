// c03: correspondence harness for faithful OSM XML decoding (property C03).
//
// Documents are written by an INDEPENDENT writer (harness/xcodec: spec.go builds the document
// tree from a typed random value with the OSM XML vocabulary written out by hand, writer.go
// renders it with random attribute order, whitespace, comments, entity / character-reference
// escaping, CDATA, self-closing tags, lexical variants of numbers, booleans and time zones,
// unknown attributes and elements, shuffled children, repeated and interleaved osmChange
// blocks).  The real implementation then decodes the text with xml.Unmarshal and with
// osmxml.Scanner.  Coq gets the tree, the value written (ground truth), the objects written in
// document order, and both observations.
package main

import (
	"bytes"
	"context"
	"encoding/xml"
	"fmt"
	"math/rand"
	"os"
	"reflect"
	"time"

	"github.com/paulmach/osm"
	"github.com/paulmach/osm/osmxml"
	"verif/harness/wire"
	"verif/harness/xcodec"
)

type doc struct {
	typ     string
	val     interface{}
	tree    *xcodec.XNode
	text    []byte
	class   string
	v2      interface{}
	uerr    error
	scanned []osm.Object
	serr    error
	// known names the known-finding class of C03 the document belongs to (decided when the
	// document is built): the scanner treats as an object what the decoder treats as unknown
	known string
}

func newOf(typ string) interface{} {
	switch typ {
	case "Node":
		return &osm.Node{}
	case "Way":
		return &osm.Way{}
	case "Relation":
		return &osm.Relation{}
	case "Changeset":
		return &osm.Changeset{}
	case "Note":
		return &osm.Note{}
	case "User":
		return &osm.User{}
	case "Bounds":
		return &osm.Bounds{}
	case "OSM":
		return &osm.OSM{}
	case "Change":
		return &osm.Change{}
	case "Diff":
		return &osm.Diff{}
	}
	panic(typ)
}

func cuts(r *rand.Rand, n, k int) []int {
	// k+1 non-decreasing cut points 0 = c0 <= ... <= ck = n
	c := make([]int, k+1)
	c[k] = n
	for i := 1; i < k; i++ {
		c[i] = r.Intn(n + 1)
	}
	for i := 1; i < k; i++ {
		for j := i + 1; j < k; j++ {
			if c[j] < c[i] {
				c[i], c[j] = c[j], c[i]
			}
		}
	}
	return c
}

// split cuts a block into k blocks whose concatenation (per kind) is the block.
func split(r *rand.Rand, o *osm.OSM, k int) []*osm.OSM {
	out := make([]*osm.OSM, k)
	for i := range out {
		out[i] = &osm.OSM{}
	}
	if o.Bounds != nil {
		out[r.Intn(k)].Bounds = o.Bounds
	}
	cn, cw, cr := cuts(r, len(o.Nodes), k), cuts(r, len(o.Ways), k), cuts(r, len(o.Relations), k)
	cc, ct, cu := cuts(r, len(o.Changesets), k), cuts(r, len(o.Notes), k), cuts(r, len(o.Users), k)
	for i := 0; i < k; i++ {
		out[i].Nodes = o.Nodes[cn[i]:cn[i+1]]
		out[i].Ways = o.Ways[cw[i]:cw[i+1]]
		out[i].Relations = o.Relations[cr[i]:cr[i+1]]
		out[i].Changesets = o.Changesets[cc[i]:cc[i+1]]
		out[i].Notes = o.Notes[ct[i]:ct[i+1]]
		out[i].Users = o.Users[cu[i]:cu[i+1]]
	}
	return out
}

// changeTree writes an osmChange with repeated and interleaved action blocks.
func changeTree(r *rand.Rand, sw *xcodec.SpecWriter, c *osm.Change, w *wire.Writer) *xcodec.XNode {
	root := sw.OSM(&osm.OSM{Version: c.Version, Generator: c.Generator, Copyright: c.Copyright, Attribution: c.Attribution, License: c.License})
	root.Name = "osmChange"
	type blk struct {
		name string
		o    *osm.OSM
	}
	var queues [][]blk
	for _, p := range []struct {
		name string
		o    *osm.OSM
	}{{"create", c.Create}, {"modify", c.Modify}, {"delete", c.Delete}} {
		if p.o == nil {
			continue
		}
		k := 1 + r.Intn(3)
		var q []blk
		for _, part := range split(r, p.o, k) {
			q = append(q, blk{p.name, part})
		}
		if k > 1 {
			w.Count("change:repeated-block")
		}
		queues = append(queues, q)
	}
	last := ""
	inter := false
	for {
		var live []int
		for i, q := range queues {
			if len(q) > 0 {
				live = append(live, i)
			}
		}
		if len(live) == 0 {
			break
		}
		i := live[r.Intn(len(live))]
		b := queues[i][0]
		queues[i] = queues[i][1:]
		if last != "" && last != b.name {
			for _, q := range queues[i:] {
				_ = q
			}
		}
		if last != b.name && len(queues[i]) > 0 {
			inter = true
		}
		last = b.name
		root.Kids = append(root.Kids, sw.Block(b.name, b.o))
	}
	if inter {
		w.Count("change:interleaved-blocks")
	}
	return root
}

func decodeBoth(d *doc) {
	d.v2 = newOf(d.typ)
	// a panic inside the implementation is an observation, not a harness crash
	func() {
		defer func() {
			if r := recover(); r != nil {
				d.uerr = fmt.Errorf("panic: %v", r)
				d.class = "panic"
			}
		}()
		d.uerr = xml.Unmarshal(d.text, d.v2)
	}()
	func() {
		defer func() {
			if r := recover(); r != nil {
				d.serr = fmt.Errorf("panic: %v", r)
				d.class = "panic"
			}
		}()
		sc := osmxml.New(context.Background(), bytes.NewReader(d.text))
		for sc.Scan() {
			d.scanned = append(d.scanned, sc.Object())
		}
		d.serr = sc.Err()
		sc.Close()
	}()
}

func kindOf(v reflect.Value) string {
	for v.Kind() == reflect.Ptr {
		v = v.Elem()
	}
	return v.Type().Name()
}

func goOracle(d *doc, written []interface{}) string {
	if d.uerr != nil {
		return "unmarshal error on a well-formed document: " + d.uerr.Error()
	}
	if !xcodec.SameTokens(xcodec.Tokens(reflect.ValueOf(d.val).Elem()), xcodec.Tokens(reflect.ValueOf(d.v2).Elem())) {
		return "decoded value differs from the value written"
	}
	if d.serr != nil {
		return "scanner error on a well-formed document: " + d.serr.Error()
	}
	if len(written) != len(d.scanned) {
		return fmt.Sprintf("scanner yields %d objects, %d were written", len(d.scanned), len(written))
	}
	for i := range written {
		a, b := reflect.ValueOf(written[i]), reflect.ValueOf(d.scanned[i])
		if kindOf(a) != kindOf(b) || !xcodec.SameTokens(xcodec.Tokens(a.Elem()), xcodec.Tokens(b.Elem())) {
			return fmt.Sprintf("scanner object #%d differs from the one written at that place", i)
		}
	}
	return ""
}

const (
	canNone = iota
	canValue
	canScan
	canTree
)

func build(d *doc, canary int) *wire.Case {
	c := &wire.Case{Class: d.class}
	c.Str(d.typ)
	c.Bool(d.known != "" && canary == canNone) // outside doc_ok exactly when in a known-finding class
	tree := d.tree
	if canary == canTree {
		t2 := *tree
		t2.Kids = append([]*xcodec.XNode{}, tree.Kids...)
		t2.Attrs = append(append([]xcodec.XAttr{}, tree.Attrs...), xcodec.XAttr{Name: "version", Val: xcodec.S("canary")}, xcodec.XAttr{Name: "id", Val: xcodec.I(424242)})
		tree = &t2
	}
	tree.Emit(c)
	xcodec.Emit(c, reflect.ValueOf(d.val).Elem(), nil)
	var written []interface{}
	d.tree.Objects(&written)
	c.Len(len(written))
	for _, o := range written {
		c.Str(kindOf(reflect.ValueOf(o)))
		xcodec.Emit(c, reflect.ValueOf(o).Elem(), nil)
	}
	desc := map[string]interface{}{"type": d.typ, "document": string(d.text), "written": xcodec.Dump(reflect.ValueOf(d.val))}
	c.Bool(d.uerr == nil)
	if d.uerr == nil {
		v2 := reflect.ValueOf(d.v2).Elem()
		if canary == canValue {
			v2 = reflect.Zero(v2.Type())
		}
		xcodec.Emit(c, v2, nil)
		desc["unmarshalled"] = xcodec.Dump(v2)
	} else {
		desc["unmarshal_error"] = d.uerr.Error()
	}
	c.Bool(d.serr == nil)
	sc := d.scanned
	if canary == canScan && len(sc) > 0 {
		sc = append(append([]osm.Object{}, sc...), sc[0])
	}
	c.Len(len(sc))
	var sd []interface{}
	for _, s := range sc {
		c.Str(kindOf(reflect.ValueOf(s)))
		xcodec.Emit(c, reflect.ValueOf(s).Elem(), nil)
		sd = append(sd, map[string]interface{}{kindOf(reflect.ValueOf(s)): xcodec.Dump(reflect.ValueOf(s))})
	}
	desc["scanned"] = sd
	if d.serr != nil {
		desc["scan_error"] = d.serr.Error()
	}
	c.Desc = desc
	if canary != canNone {
		c.Canary = canary
	} else {
		c.OracleFail = goOracle(d, written)
		c.Known = d.known
		if d.known != "" {
			desc["known_class"] = d.known
		}
	}
	return c
}

func main() {
	args := wire.ParseArgs()
	w := wire.NewWriter("C03", args.Seed, args.Tier)
	w.Rule = "documents written by the independent writer from typed random values: <osm> documents, osmChange with repeated/interleaved create/modify/delete blocks, augmented diffs with create/modify/delete actions, single-object documents; random attribute order, layout, comments, escaping, CDATA, self-closing tags, lexical variants, unknown attributes/elements, shuffled children; non-trivial = the value written has a non-zero field; distinct = distinct token streams"
	rng := wire.Rng(args.Seed)
	g := &xcodec.Gen{R: rng, Count: w.Count, MaxLen: 3}

	var docs []*doc
	nsMode := 0
	knownClass := ""
	mk := func(typ string, val interface{}, tree *xcodec.XNode, class string, plain bool, noise *xcodec.Noise) {
		if noise != nil {
			noise.Apply(tree)
		}
		l := &xcodec.Layout{R: rng, Plain: plain, Count: w.Count, NS: nsMode}
		l.ApplyNS(tree)
		if nsMode != 0 {
			w.Count(fmt.Sprintf("layout:namespace-%d", nsMode))
			class += fmt.Sprintf("-ns%d", nsMode)
		}
		d := &doc{typ: typ, val: val, tree: tree, text: l.Render(tree), class: class, known: knownClass}
		decodeBoth(d)
		docs = append(docs, d)
	}
	treeOf := func(sw *xcodec.SpecWriter, typ string, v interface{}) *xcodec.XNode {
		switch x := v.(type) {
		case *osm.Node:
			return sw.Node(x)
		case *osm.Way:
			return sw.Way(x)
		case *osm.Relation:
			return sw.Relation(x)
		case *osm.Changeset:
			return sw.Changeset(x)
		case *osm.Note:
			return sw.Note(x)
		case *osm.User:
			return sw.User(x)
		case *osm.Bounds:
			return sw.Bounds(x, true)
		case *osm.OSM:
			return sw.OSM(x)
		case *osm.Change:
			return changeTree(rng, sw, x, w)
		case *osm.Diff:
			return sw.Diff(x)
		}
		panic(typ)
	}

	// corpus: fixed documents first (plain layout, no noise)
	always := &xcodec.SpecWriter{Opt: func() bool { return true }}
	n1 := &osm.Node{ID: 1, Lat: 1.5, Lon: -2.25, Visible: true, Version: 3, Tags: osm.Tags{{Key: "k", Value: "<&>\"'"}}}
	w1 := &osm.Way{ID: 2, Nodes: osm.WayNodes{{ID: 1, Version: 2, ChangesetID: 3, Lat: 0.5, Lon: 0.25}, {ID: 4}}, Bounds: &osm.Bounds{MinLat: 1, MaxLat: 2, MinLon: 3, MaxLon: 4}}
	co := &osm.OSM{Version: "0.6", Bounds: &osm.Bounds{MinLat: 1, MaxLat: 2, MinLon: 3, MaxLon: 4}, Nodes: osm.Nodes{n1}, Ways: osm.Ways{w1}}
	mk("OSM", co, always.OSM(co), "corpus-osm", true, nil)
	cc := &osm.Change{Version: "0.6", Create: &osm.OSM{Nodes: osm.Nodes{n1, n1}}, Delete: &osm.OSM{Ways: osm.Ways{w1}, Bounds: &osm.Bounds{MinLat: 1}}}
	mk("Change", cc, changeTree(rng, always, cc, w), "corpus-change", true, nil)
	cd := &osm.Diff{Actions: osm.Actions{{Type: osm.ActionCreate, OSM: &osm.OSM{Nodes: osm.Nodes{n1}}},
		{Type: osm.ActionModify, Old: &osm.OSM{Ways: osm.Ways{w1}}, New: &osm.OSM{Ways: osm.Ways{w1}}}}}
	mk("Diff", cd, always.Diff(cd), "corpus-diff", true, nil)

	for _, id := range []int64{-1, 0, 1 << 40, 1 << 44, 1 << 45, 9223372036854775807} {
		dd := &osm.Diff{Actions: osm.Actions{
			{Type: osm.ActionCreate, OSM: &osm.OSM{Nodes: osm.Nodes{{ID: osm.NodeID(id), Visible: true}}}},
			{Type: osm.ActionCreate, OSM: &osm.OSM{Ways: osm.Ways{{ID: osm.WayID(id)}}}},
			{Type: osm.ActionCreate, OSM: &osm.OSM{Relations: osm.Relations{{ID: osm.RelationID(id)}}}},
			{Type: osm.ActionDelete, Old: &osm.OSM{Ways: osm.Ways{{ID: osm.WayID(id)}}}, New: &osm.OSM{Ways: osm.Ways{{ID: osm.WayID(id), Version: 2}}}}}}
		mk("Diff", dd, always.Diff(dd), "corpus-diff-id-range", true, nil)
		ch := &osm.Change{Create: &osm.OSM{Nodes: osm.Nodes{{ID: osm.NodeID(id)}}}, Modify: &osm.OSM{Ways: osm.Ways{{ID: osm.WayID(id)}}}, Delete: &osm.OSM{Relations: osm.Relations{{ID: osm.RelationID(id)}}}}
		mk("Change", ch, changeTree(rng, always, ch, w), "corpus-change-id-range", true, nil)
	}

	// documents in an XML namespace: default namespace on the root, prefixed elements
	for _, m := range []int{1, 2} {
		nsMode = m
		co2 := &osm.OSM{Version: "0.6", Bounds: &osm.Bounds{MinLat: 1, MaxLat: 2}, Nodes: osm.Nodes{n1}, Ways: osm.Ways{w1}}
		mk("OSM", co2, always.OSM(co2), "corpus-osm", true, nil)
		cc2 := &osm.Change{Version: "0.6", Create: &osm.OSM{Nodes: osm.Nodes{n1}}, Delete: &osm.OSM{Ways: osm.Ways{w1}}}
		mk("Change", cc2, changeTree(rng, always, cc2, w), "corpus-change", true, nil)
		mk("Node", n1, always.Node(n1), "corpus-node", true, nil)
	}
	nsMode = 0
	// first-class zero values: the unix epoch as a timestamp, version 0, empty tag keys
	ep := time.Unix(0, 0).UTC()
	ne := &osm.Node{ID: 9, Timestamp: ep, Committed: &ep, Tags: osm.Tags{{Key: "", Value: ""}, {Key: "", Value: "x"}, {Key: "k", Value: "1"}, {Key: "k", Value: "2"}}}
	mk("Node", ne, always.Node(ne), "corpus-epoch", true, nil)
	we := &osm.Way{ID: 9, Timestamp: ep, Updates: osm.Updates{{Index: 0, Version: 1, Timestamp: ep}}}
	mk("Way", we, always.Way(we), "corpus-epoch", true, nil)
	re := &osm.Relation{ID: 9, Timestamp: ep, Members: osm.Members{{Type: "relation", Ref: 1, Lat: 1, Lon: 2, Orientation: 1, Nodes: osm.WayNodes{{ID: 1}}}}}
	mk("Relation", re, always.Relation(re), "corpus-epoch", true, nil)

	// wave 6: coordinates that need more than 7 decimals in every float attribute of every type
	ff := xcodec.FineFloats
	for i := 0; i+3 < len(ff); i += 4 {
		fb := &osm.Bounds{MinLat: ff[i], MaxLat: ff[i+1], MinLon: ff[i+2], MaxLon: ff[i+3]}
		fn := &osm.Node{ID: 1, Lat: ff[i], Lon: ff[i+1], Visible: true}
		fw := &osm.Way{ID: 2, Nodes: osm.WayNodes{{ID: 1, Lat: ff[i+2], Lon: ff[i+3]}}, Updates: osm.Updates{{Index: 0, Version: 1, Lat: ff[i+1], Lon: ff[i+2]}}, Bounds: fb}
		fr := &osm.Relation{ID: 3, Members: osm.Members{{Type: "node", Ref: 1, Lat: ff[i+3], Lon: ff[i], Nodes: osm.WayNodes{{ID: 1, Lat: ff[i+1], Lon: ff[i+3]}}}}, Bounds: fb}
		mk("Node", fn, always.Node(fn), "corpus-fine-floats", true, nil)
		mk("Way", fw, always.Way(fw), "corpus-fine-floats", true, nil)
		mk("Relation", fr, always.Relation(fr), "corpus-fine-floats", true, nil)
		if i%8 == 0 {
			fu := &osm.User{ID: 1}
			fu.Home.Lat, fu.Home.Lon = ff[i], ff[i+3]
			fc := &osm.Changeset{ID: 1, MinLat: ff[i], MaxLat: ff[i+1], MinLon: ff[i+2], MaxLon: ff[i+3]}
			fo := &osm.Note{ID: 1, Lat: ff[i+1], Lon: ff[i+2]}
			mk("Changeset", fc, always.Changeset(fc), "corpus-fine-floats", true, nil)
			mk("Note", fo, always.Note(fo), "corpus-fine-floats", true, nil)
			mk("User", fu, always.User(fu), "corpus-fine-floats", true, nil)
			fd := &osm.OSM{Version: "0.6", Bounds: fb, Nodes: osm.Nodes{fn}, Ways: osm.Ways{fw}, Relations: osm.Relations{fr}}
			mk("OSM", fd, always.OSM(fd), "corpus-fine-floats", true, nil)
			fch := &osm.Change{Create: &osm.OSM{Bounds: fb, Nodes: osm.Nodes{fn}}, Modify: &osm.OSM{Ways: osm.Ways{fw}}, Delete: &osm.OSM{Bounds: fb}}
			mk("Change", fch, changeTree(rng, always, fch, w), "corpus-fine-floats", true, nil)
		}
	}

	// known findings of C03: an unknown element wrapping an object element, and an element whose
	// name is an object kind up to ASCII case — the streaming scanner takes the inner / the
	// case-folded element for an object, the whole-document decoder ignores it
	wrapIn := func(root *xcodec.XNode, pos int, extra *xcodec.XNode) {
		if pos > len(root.Kids) {
			pos = len(root.Kids)
		}
		root.Kids = append(root.Kids[:pos], append([]*xcodec.XNode{extra}, root.Kids[pos:]...)...)
	}
	hidden := func() *xcodec.XNode {
		x := always.Node(&osm.Node{ID: 77, Visible: true})
		x.Obj = nil
		return x
	}
	for pos := 0; pos < 3; pos++ {
		ck := &osm.OSM{Version: "0.6", Nodes: osm.Nodes{n1}, Ways: osm.Ways{w1}}
		t := always.OSM(ck)
		wrapIn(t, pos, &xcodec.XNode{Name: "zzwrap", Extra: true, Leaf: true, Kids: []*xcodec.XNode{hidden()}})
		knownClass = "scanner-descends-unknown-wrapper"
		mk("OSM", ck, t, "known-wrapper", true, nil)
		ck2 := &osm.OSM{Version: "0.6", Nodes: osm.Nodes{n1}, Ways: osm.Ways{w1}}
		t2 := always.OSM(ck2)
		variant := []*xcodec.XNode{
			{Name: "Node", Extra: true, Leaf: true, Attrs: []xcodec.XAttr{{Name: "id", Val: xcodec.I(5)}}},
			{Name: "WAY", Extra: true, Leaf: true, Attrs: []xcodec.XAttr{{Name: "id", Val: xcodec.I(5)}}},
			{Name: "Bounds", Extra: true, Leaf: true, Attrs: []xcodec.XAttr{{Name: "minlat", Val: xcodec.F(1)}}},
		}[pos]
		wrapIn(t2, pos, variant)
		knownClass = "scanner-case-folds-object-name"
		mk("OSM", ck2, t2, "known-case", true, nil)
	}
	{
		ck := &osm.Change{Create: &osm.OSM{Nodes: osm.Nodes{n1}}}
		t := changeTree(rng, always, ck, w)
		wrapIn(t.Kids[0], 0, &xcodec.XNode{Name: "zzwrap", Extra: true, Leaf: true, Kids: []*xcodec.XNode{hidden()}})
		knownClass = "scanner-descends-unknown-wrapper"
		mk("Change", ck, t, "known-wrapper", true, nil)
	}
	knownClass = ""

	plan := []struct {
		typ   string
		n     int
		depth int
		max   int
	}{
		{"Node", 25, 4, 3}, {"Way", 25, 5, 3}, {"Relation", 25, 5, 3}, {"Changeset", 20, 5, 3}, {"Note", 20, 5, 3},
		{"User", 15, 5, 3}, {"Bounds", 6, 2, 1}, {"OSM", 30, 7, 2}, {"Change", 30, 8, 2}, {"Diff", 25, 9, 2},
	}
	mult := args.Scale
	if args.Tier == "thorough" {
		mult *= 12
	}
	for _, p := range plan {
		n := int(float64(p.n)*mult + 0.5)
		for i := 0; i < n; i++ {
			g.MaxLen = p.max
			v := g.New(p.typ, p.depth)
			sw := &xcodec.SpecWriter{Opt: func() bool { return rng.Intn(2) == 0 }}
			tree := treeOf(sw, p.typ, v)
			mode := i % 4
			noise := &xcodec.Noise{R: rng, Attrs: mode >= 1, Elems: mode >= 2, Shuffle: mode >= 3, Count: w.Count}
			nsMode = 0
			if i%5 == 4 {
				nsMode = 1 + (i/5)%2
			}
			mk(p.typ, v, tree, p.typ, false, noise)
			nsMode = 0
		}
	}

	for _, d := range docs {
		c := build(d, canNone)
		if len(xcodec.Tokens(reflect.ValueOf(d.val).Elem())) <= 2 {
			c.Trivial = true
		}
		w.Add(c)
	}
	// size thresholds: count + hash transport (xcodec/big.go)
	sizes := xcodec.BigSizesQuick
	if args.Tier == "thorough" {
		sizes = xcodec.BigSizesThorough
	}
	var firstBig *wire.Case
	for kind := 1; kind <= xcodec.BigKinds; kind++ {
		for _, n := range sizes {
			typ, text := xcodec.BigDocument(kind, n)
			d := &doc{typ: typ, text: text, class: "big"}
			decodeBoth(d)
			c := &wire.Case{Class: fmt.Sprintf("big-%d", kind)}
			keys := xcodec.BigKeys(kind, d.v2)
			skeys := xcodec.BigScanKeys(kind, d.scanned)
			xcodec.EmitBig(c, kind, n, d.uerr == nil, keys, d.serr == nil, skeys)
			c.Desc = map[string]interface{}{"big_kind": kind, "n": n, "document": "xcodec.BigDocument(kind, n): " + typ + " with n items keyed (i*7919+13) mod 1000003",
				"decoded_items": len(keys), "scanned_items": len(skeys), "unmarshal_error": fmt.Sprint(d.uerr), "scan_error": fmt.Sprint(d.serr)}
			exp := xcodec.BigExpected(n)
			if d.uerr != nil || d.serr != nil || len(keys) != n || len(skeys) != n || xcodec.BigHash(keys) != xcodec.BigHash(exp) || xcodec.BigHash(skeys) != xcodec.BigHash(exp) {
				c.OracleFail = fmt.Sprintf("document with %d items: whole-document decoder returned %d, scanner %d (or different items)", n, len(keys), len(skeys))
			}
			w.Add(c)
			if firstBig == nil {
				firstBig = c
			}
		}
	}
	// Scanner.Close: after Close, Scan is false for good and Err is osm.ErrScannerClosed; the
	// objects yielded before are a prefix of the document's objects
	nclose := 0
	for _, d := range docs {
		if d.known != "" || d.serr != nil || len(d.scanned) < 2 || nclose >= 12 {
			continue
		}
		nclose++
		k := rng.Intn(len(d.scanned))
		sc := osmxml.New(context.Background(), bytes.NewReader(d.text))
		var got []osm.Object
		for i := 0; i < k && sc.Scan(); i++ {
			got = append(got, sc.Object())
		}
		sc.Close()
		after := sc.Scan()
		again := sc.Scan()
		errClosed := sc.Err() == osm.ErrScannerClosed
		c := &wire.Case{Class: "close"}
		c.Str("CLOSE")
		d.tree.Emit(c)
		c.Int(int64(k)).Len(len(got))
		for _, o := range got {
			c.Str(kindOf(reflect.ValueOf(o)))
			xcodec.Emit(c, reflect.ValueOf(o).Elem(), nil)
		}
		c.Bool(after || again).Bool(errClosed)
		c.Desc = map[string]interface{}{"document": string(d.text), "close_after": k, "yielded": len(got), "scan_after_close": after || again, "err_is_ErrScannerClosed": errClosed}
		if after || again || !errClosed || len(got) != k {
			c.OracleFail = "Scan after Close returned true, or Err is not ErrScannerClosed, or fewer objects before Close than asked"
		}
		w.Add(c)
	}
	for _, k := range []int{canValue, canScan, canTree} {
		w.Add(build(docs[0], k))
	}
	{
		// canary of the big class: one item too few reported
		c := &wire.Case{Class: "big-canary", Canary: 9, Desc: map[string]interface{}{"canary": "big count"}}
		exp := xcodec.BigExpected(12)
		xcodec.EmitBig(c, 1, 12, true, exp[:11], true, exp)
		w.Add(c)
	}
	if err := w.Flush(args.Out, "Verif.C03.Check", 60); err != nil {
		fmt.Fprintln(os.Stderr, "c03:", err)
		os.Exit(1)
	}
}
