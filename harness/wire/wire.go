// Package wire carries harness cases to Coq as uint63 token streams
// (see coq/theories/Base/Wire.v for the matching Gallina readers).
package wire

import (
	"bufio"
	"crypto/sha256"
	"encoding/json"
	"fmt"
	"math/rand"
	"os"
	"path/filepath"
	"sort"
	"strconv"
	"strings"
)

const esc = uint64(1) << 62

// Case is one test case: a token list plus bookkeeping.
type Case struct {
	Toks []uint64
	// Desc is a human-readable JSON description (input + observed), used for replays.
	Desc interface{}
	// Known names a known-findings class this *input* belongs to ("" = none).
	Known string
	// Canary > 0: this case was deliberately corrupted; Coq must flag it.
	Canary int
	// Trivial marks cases that do not count as non-trivial in the evidence.
	Trivial bool
	// Class is a free-text generator class for the histogram.
	Class string
	// OracleFail is the Go-side property oracle's verdict ("" = holds / not evaluated).
	OracleFail string
}

func zigzag(v int64) uint64 { return uint64(v<<1) ^ uint64(v>>63) }

// Int appends a signed 64-bit integer.
func (c *Case) Int(v int64) *Case {
	z := zigzag(v)
	if z < esc {
		c.Toks = append(c.Toks, z)
	} else {
		c.Toks = append(c.Toks, esc, z>>32, z&0xffffffff)
	}
	return c
}

// Tok appends a raw token (must be < 2^62 and is NOT zigzagged): bytes, etc.
func (c *Case) Tok(v uint64) *Case {
	if v >= esc {
		panic("wire: raw token too large")
	}
	c.Toks = append(c.Toks, v)
	return c
}

func (c *Case) Len(n int) *Case { return c.Int(int64(n)) }
func (c *Case) Bool(b bool) *Case {
	if b {
		return c.Int(1)
	}
	return c.Int(0)
}

// Bytes appends a length-prefixed byte string (one raw token per byte).
func (c *Case) Bytes(b []byte) *Case {
	c.Len(len(b))
	for _, x := range b {
		c.Toks = append(c.Toks, uint64(x))
	}
	return c
}
func (c *Case) Str(s string) *Case { return c.Bytes([]byte(s)) }

// Ints appends a length-prefixed list of signed integers.
func (c *Case) Ints(l []int64) *Case {
	c.Len(len(l))
	for _, x := range l {
		c.Int(x)
	}
	return c
}

// Clone copies the token list (for canaries).
func (c *Case) Clone() *Case {
	d := *c
	d.Toks = append([]uint64(nil), c.Toks...)
	return &d
}

// Writer collects cases and writes shards.
type Writer struct {
	Property string
	Seed     int64
	Tier     string
	Cases    []*Case
	Stats    map[string]int
	Rule     string
	Notes    []string
}

func NewWriter(prop string, seed int64, tier string) *Writer {
	return &Writer{Property: prop, Seed: seed, Tier: tier, Stats: map[string]int{}}
}

func (w *Writer) Add(c *Case) int {
	w.Cases = append(w.Cases, c)
	if c.Class != "" {
		w.Stats["class:"+c.Class]++
	}
	return len(w.Cases) - 1
}

func (w *Writer) Count(key string) { w.Stats[key]++ }

type Meta struct {
	Property           string            `json:"property"`
	Seed               int64             `json:"seed"`
	Tier               string            `json:"tier"`
	NCases             int               `json:"n_cases"`
	NTokens            int               `json:"n_tokens"`
	ShardSize          int               `json:"shard_size"`
	Shards             []string          `json:"shards"`
	Canaries           []int             `json:"canaries"`
	Known              map[string]string `json:"known"`
	OracleFailures     map[string]string `json:"oracle_failures"`
	DistinctNontrivial int               `json:"distinct_nontrivial"`
	Rule               string            `json:"rule"`
	Stats              map[string]int    `json:"stats"`
	Samples            []interface{}     `json:"samples"`
	Notes              []string          `json:"notes"`
}

// Flush writes cases_<k>.v, cases.jsonl and meta.json into dir.
// checkMod is the Coq module holding check_case, e.g. "Verif.C10.Check".
func (w *Writer) Flush(dir, checkMod string, shardSize int) error {
	if err := os.MkdirAll(dir, 0o755); err != nil {
		return err
	}
	m := Meta{Property: w.Property, Seed: w.Seed, Tier: w.Tier, NCases: len(w.Cases),
		ShardSize: shardSize, Known: map[string]string{}, OracleFailures: map[string]string{},
		Rule: w.Rule, Stats: w.Stats, Notes: w.Notes}
	seen := map[[32]byte]bool{}
	jl, err := os.Create(filepath.Join(dir, "cases.jsonl"))
	if err != nil {
		return err
	}
	jw := bufio.NewWriter(jl)
	for i, c := range w.Cases {
		m.NTokens += len(c.Toks)
		if c.Canary > 0 {
			m.Canaries = append(m.Canaries, i)
		} else {
			if c.Known != "" {
				m.Known[strconv.Itoa(i)] = c.Known
			}
			if c.OracleFail != "" {
				m.OracleFailures[strconv.Itoa(i)] = c.OracleFail
			}
			if !c.Trivial {
				var sb strings.Builder
				for _, t := range c.Toks {
					sb.WriteString(strconv.FormatUint(t, 36))
					sb.WriteByte(',')
				}
				h := sha256.Sum256([]byte(sb.String()))
				if !seen[h] {
					seen[h] = true
					m.DistinctNontrivial++
				}
			}
		}
		b, err := json.Marshal(map[string]interface{}{"i": i, "canary": c.Canary, "known": c.Known, "class": c.Class, "case": c.Desc})
		if err != nil {
			return fmt.Errorf("case %d: %v", i, err)
		}
		jw.Write(b)
		jw.WriteByte('\n')
	}
	jw.Flush()
	jl.Close()
	// samples: up to 5 non-canary cases spread over the run
	var idx []int
	for i, c := range w.Cases {
		if c.Canary == 0 && !c.Trivial {
			idx = append(idx, i)
		}
	}
	for k := 0; k < 5 && len(idx) > 0; k++ {
		i := idx[(k*len(idx))/5]
		m.Samples = append(m.Samples, map[string]interface{}{"i": i, "class": w.Cases[i].Class, "case": w.Cases[i].Desc})
	}
	sort.Ints(m.Canaries)
	for s := 0; s*shardSize < len(w.Cases); s++ {
		name := fmt.Sprintf("cases_%d.v", s)
		m.Shards = append(m.Shards, name)
		hi := (s + 1) * shardSize
		if hi > len(w.Cases) {
			hi = len(w.Cases)
		}
		if err := writeShard(filepath.Join(dir, name), checkMod, w.Cases[s*shardSize:hi]); err != nil {
			return err
		}
	}
	b, _ := json.MarshalIndent(m, "", " ")
	return os.WriteFile(filepath.Join(dir, "meta.json"), b, 0o644)
}

func writeShard(path, checkMod string, cs []*Case) error {
	f, err := os.Create(path)
	if err != nil {
		return err
	}
	defer f.Close()
	b := bufio.NewWriterSize(f, 1<<20)
	fmt.Fprintf(b, "From Coq Require Import List ZArith Uint63.\nFrom Verif Require Import Base.Wire.\nRequire %s.\nImport ListNotations.\nOpen Scope uint63_scope.\n", checkMod)
	fmt.Fprintf(b, "Definition cases : list (list (list int)) := [\n")
	for i, c := range cs {
		if i > 0 {
			b.WriteString(";\n")
		}
		b.WriteString("[")
		for j := 0; j < len(c.Toks) || j == 0; j += 100 {
			if j > 0 {
				b.WriteString(";")
			}
			b.WriteString("[")
			hi := j + 100
			if hi > len(c.Toks) {
				hi = len(c.Toks)
			}
			for k := j; k < hi; k++ {
				if k > j {
					b.WriteString(";")
				}
				b.WriteString(strconv.FormatUint(c.Toks[k], 10))
			}
			b.WriteString("]")
		}
		b.WriteString("]")
	}
	fmt.Fprintf(b, "\n]%%list.\n")
	fmt.Fprintf(b, "Definition M := Eval vm_compute in Wire.run_cases %s.check_case cases.\n", checkMod)
	fmt.Fprintf(b, "Open Scope Z_scope.\nPrint M.\n")
	return b.Flush()
}

// Rng is the single PRNG all generators draw from.
func Rng(seed int64) *rand.Rand { return rand.New(rand.NewSource(seed)) }

// Args parses the common command line:  <outdir> [--tier quick|thorough] [--seed n] [--scale f]
type Args struct {
	Out   string
	Tier  string
	Seed  int64
	Scale float64
	Extra map[string]string
}

func ParseArgs() Args {
	a := Args{Tier: "quick", Seed: 1, Scale: 1, Extra: map[string]string{}}
	av := os.Args[1:]
	for i := 0; i < len(av); i++ {
		switch {
		case av[i] == "--tier" && i+1 < len(av):
			a.Tier = av[i+1]
			i++
		case av[i] == "--seed" && i+1 < len(av):
			a.Seed, _ = strconv.ParseInt(av[i+1], 10, 64)
			i++
		case av[i] == "--scale" && i+1 < len(av):
			a.Scale, _ = strconv.ParseFloat(av[i+1], 64)
			i++
		case strings.HasPrefix(av[i], "--") && i+1 < len(av):
			a.Extra[av[i][2:]] = av[i+1]
			i++
		default:
			a.Out = av[i]
		}
	}
	if a.Out == "" {
		fmt.Fprintln(os.Stderr, "usage: <outdir> [--tier t] [--seed n] [--scale f]")
		os.Exit(2)
	}
	return a
}
