#!/usr/bin/env python3
"""Independent XML reader for the C03/C04 harnesses.

usage: xmltree.py <in.jsonl> <out.jsonl>
Each input line is {"i": n, "b64": <base64 of an XML document>}.  Each output line is
{"i": n, "tree": T} or {"i": n, "err": msg} with
T = {"n": name, "a": [[attr, value], ...] (document order), "t": concatenated direct character
data, "c": [T, ...]}.  Comments and processing instructions are dropped (expat/ElementTree),
entity and character references are resolved.  Nothing here shares code with Go's encoding/xml.
"""
import base64
import json
import sys
import xml.etree.ElementTree as ET


def tree(e):
    text = e.text or ""
    kids = []
    for c in e:
        if not isinstance(c.tag, str):     # comment / PI nodes (not produced by the default parser)
            text += c.tail or ""
            continue
        kids.append(tree(c))
        text += c.tail or ""
    return {"n": e.tag, "a": [[k, v] for k, v in e.attrib.items()], "t": text, "c": kids}


def main():
    with open(sys.argv[1]) as f, open(sys.argv[2], "w") as out:
        for line in f:
            d = json.loads(line)
            try:
                root = ET.fromstring(base64.b64decode(d["b64"]))
                out.write(json.dumps({"i": d["i"], "tree": tree(root)}) + "\n")
            except Exception as ex:  # malformed document
                out.write(json.dumps({"i": d["i"], "err": str(ex)}) + "\n")


if __name__ == "__main__":
    main()
