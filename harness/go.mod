module verif/harness

go 1.16

require (
	github.com/paulmach/orb v0.1.3
	github.com/paulmach/osm v0.0.0
	google.golang.org/protobuf v1.27.1
)

replace github.com/paulmach/osm => /repo
