module verif/harness

go 1.16

require github.com/paulmach/osm v0.0.0

replace github.com/paulmach/osm => /repo
