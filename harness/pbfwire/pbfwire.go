// Package pbfwire serialises PBF descriptions (pbfgen), message trees and observed
// osm objects into wire tokens, matching the readers of coq/theories/Pbf/CheckLib.v.
package pbfwire

import (
	"bytes"
	"compress/zlib"
	"fmt"
	"io"
	"math"
	"math/big"

	"github.com/paulmach/osm"
	"github.com/paulmach/osm/osmpbf"
	"verif/harness/pbfgen"
	"verif/harness/wire"
)

// ---------- descriptions ----------

func putFlags(c *wire.Case, f pbfgen.InfoFields) {
	c.Bool(f.Version).Bool(f.Timestamp).Bool(f.Changeset).Bool(f.UID).Bool(f.UserSid).Bool(f.Visible)
}

func putInfo(c *wire.Case, i pbfgen.Info) {
	c.Int(int64(i.Version)).Int(i.Timestamp).Int(i.Changeset).Int(int64(i.UID)).Int(int64(i.UserSid)).Bool(i.Visible)
}

func putTags(c *wire.Case, ts []pbfgen.Tag) {
	c.Len(len(ts))
	for _, t := range ts {
		c.Int(int64(t.K)).Int(int64(t.V))
	}
}

func optInt(c *wire.Case, present bool, v int64) {
	c.Bool(present)
	if present {
		c.Int(v)
	}
}

func optStr(c *wire.Case, present bool, s string) {
	c.Bool(present)
	if present {
		c.Str(s)
	}
}

// PutBlockDesc writes a block description (pblock_d).  Plain nodes and damage hooks are
// not representable (the Coq description covers valid blocks only): it returns an error.
func PutBlockDesc(c *wire.Case, b *pbfgen.Block) error {
	c.Len(len(b.Strings))
	for _, s := range b.Strings {
		c.Str(s)
	}
	c.Bool(b.OmitStringTable)
	optInt(c, b.Granularity != nil, int64(b.Gran()))
	optInt(c, b.DateGranularity != nil, int64(b.DateGran()))
	optInt(c, b.LatOffset != nil, b.LatOff())
	optInt(c, b.LonOffset != nil, b.LonOff())
	c.Len(len(b.Groups))
	for _, g := range b.Groups {
		c.Len(len(g.Items))
		for i := range g.Items {
			it := &g.Items[i]
			switch {
			case it.Dense != nil:
				d := it.Dense
				if d.OmitIDs || d.OmitLats || d.OmitLons || len(d.Trim) > 0 {
					return fmt.Errorf("damaged dense group")
				}
				c.Int(0).Bool(d.HasInfo)
				putFlags(c, d.Cols)
				c.Bool(d.HasKeysVals).Bool(d.OmitEmptyCols).Len(len(d.Nodes))
				for _, n := range d.Nodes {
					c.Int(n.ID).Int(n.Lat).Int(n.Lon)
					putInfo(c, n.Info)
					putTags(c, n.Tags)
				}
			case it.Node != nil:
				n := it.Node
				c.Int(4).Int(n.ID).Int(n.Lat).Int(n.Lon).Bool(n.HasInfo)
				putFlags(c, n.Fields)
				putInfo(c, n.Info)
				putTags(c, n.Tags)
			case it.Way != nil:
				w := it.Way
				if len(w.Trim) > 0 {
					return fmt.Errorf("damaged way")
				}
				c.Int(1).Int(w.ID).Bool(w.HasInfo)
				putFlags(c, w.Fields)
				putInfo(c, w.Info)
				putTags(c, w.Tags)
				c.Bool(w.ForceTags).Ints(w.Refs).Bool(w.ForceRefs).Bool(w.HasLocs).Ints(w.Lats).Ints(w.Lons)
			case it.Relation != nil:
				r := it.Relation
				if len(r.Trim) > 0 {
					return fmt.Errorf("damaged relation")
				}
				c.Int(2).Int(r.ID).Bool(r.HasInfo)
				putFlags(c, r.Fields)
				putInfo(c, r.Info)
				putTags(c, r.Tags)
				c.Bool(r.ForceTags).Len(len(r.Members))
				for _, m := range r.Members {
					c.Int(int64(m.Type)).Int(m.Ref).Int(int64(m.RoleSid))
				}
				c.Bool(r.ForceMembers)
			case it.Changeset != nil:
				c.Int(3).Int(*it.Changeset)
			default:
				return fmt.Errorf("unsupported item")
			}
		}
	}
	return nil
}

// PutHeaderDesc writes a header description (pheader_d).
func PutHeaderDesc(c *wire.Case, h *pbfgen.Header) {
	c.Bool(h.HasBBox)
	if h.HasBBox {
		c.Int(h.Left).Int(h.Right).Int(h.Top).Int(h.Bottom)
	}
	c.Len(len(h.Required))
	for _, s := range h.Required {
		c.Str(s)
	}
	c.Len(len(h.Optional))
	for _, s := range h.Optional {
		c.Str(s)
	}
	optStr(c, h.HasProgram, h.Program)
	optStr(c, h.HasSource, h.Source)
	optInt(c, h.HasReplTimestamp, h.ReplTimestamp)
	optInt(c, h.HasReplSeq, h.ReplSeq)
	optStr(c, h.HasReplURL, h.ReplURL)
}

// ---------- message trees ----------

// PutTree writes a message tree (pmsg).  Raw varints are sent as int64 bit patterns.
func PutTree(c *wire.Case, m []pbfgen.Field) error {
	c.Len(len(m))
	for i := range m {
		f := &m[i]
		c.Int(int64(f.Num))
		switch f.Kind {
		case pbfgen.KVarint:
			c.Int(0).Int(int64(f.Var))
		case pbfgen.KPacked:
			c.Int(1).Len(len(f.Packed))
			for _, v := range f.Packed {
				c.Int(int64(v))
			}
		case pbfgen.KBytes:
			c.Int(2).Bytes(f.Bytes)
		case pbfgen.KMsg:
			c.Int(3)
			if err := PutTree(c, f.Msg); err != nil {
				return err
			}
		case pbfgen.KFix64:
			c.Int(4).Int(int64(f.Var))
		case pbfgen.KFix32:
			c.Int(5).Int(int64(f.Var))
		default:
			return fmt.Errorf("field kind %q is outside the tree model", f.Kind)
		}
	}
	return nil
}

// Payloads cuts an encoded file at its frames and returns, per block (header first if
// present), the payload bytes obtained by the independent reader (protowire + zlib).
func Payloads(data []byte, frames []pbfgen.Frame) ([][]byte, error) {
	var out [][]byte
	for _, f := range frames {
		if f.Kind != "blob" {
			continue
		}
		bl, err := pbfgen.Parse(data[f.Off:f.Off+f.Len], pbfgen.BlobSchema)
		if err != nil {
			return nil, err
		}
		var p []byte
		found := false
		for _, x := range bl {
			switch x.Num {
			case 1:
				p, found = x.Bytes, true
			case 3:
				zr, err := zlib.NewReader(bytes.NewReader(x.Bytes))
				if err != nil {
					return nil, err
				}
				p, err = io.ReadAll(zr)
				if err != nil {
					return nil, err
				}
				found = true
			}
		}
		if !found {
			return nil, fmt.Errorf("blob without data")
		}
		out = append(out, p)
	}
	return out, nil
}

// ---------- observed objects ----------

// Pool interns the strings of observed objects.
type Pool struct {
	idx  map[string]int
	strs []string
}

func NewPool() *Pool { return &Pool{idx: map[string]int{}} }
func (p *Pool) ID(s string) int64 {
	if i, ok := p.idx[s]; ok {
		return int64(i)
	}
	p.idx[s] = len(p.strs)
	p.strs = append(p.strs, s)
	return int64(len(p.strs) - 1)
}
func (p *Pool) Put(c *wire.Case) {
	c.Len(len(p.strs))
	for _, s := range p.strs {
		c.Str(s)
	}
}

var (
	e9     = big.NewRat(1000000000, 1)
	half   = big.NewRat(1, 2)
	tolRat = big.NewRat(1, 10000000000)
)

// Nano converts an observed coordinate in degrees to the nearest integer number of
// nanodegrees, and says (exactly, with rationals) whether the float is within 1e-10
// degrees of that integer * 1e-9.
func Nano(f float64) (int64, bool) {
	if math.IsNaN(f) || math.IsInf(f, 0) {
		return 0, false
	}
	x := new(big.Rat).SetFloat64(f)
	y := new(big.Rat).Mul(x, e9)
	y.Add(y, half)
	// floor
	n := new(big.Int).Div(y.Num(), y.Denom()) // Euclidean division: floor for positive denominators
	if !n.IsInt64() {
		return 0, false
	}
	d := new(big.Rat).Sub(x, new(big.Rat).SetFrac(n, big.NewInt(1000000000)))
	d.Abs(d)
	return n.Int64(), d.Cmp(tolRat) <= 0
}

// Obs is an observed object in plain form (a deep snapshot).
type Obs struct {
	Kind     int    `json:"kind"` // 0 node, 1 way, 2 relation
	ID       int64  `json:"id"`
	Lat, Lon int64  `json:",omitempty"`
	Tol      bool   `json:"tol"`
	Version  int64  `json:"version"`
	HasTS    bool   `json:"has_ts"`
	TSNano   int64  `json:"ts_nano"`
	CS       int64  `json:"changeset"`
	UID      int64  `json:"uid"`
	User     string `json:"user"`
	Visible  bool   `json:"visible"`
	Tags     [][2]string
	Nodes    [][3]int64 `json:",omitempty"`
	Members  []ObsMember
}

type ObsMember struct {
	Type int64
	Ref  int64
	Role string
}

func tsOf(o *Obs, t interface {
	IsZero() bool
	UnixNano() int64
}) {
	if !t.IsZero() {
		o.HasTS, o.TSNano = true, t.UnixNano()
	}
}

// Snapshot deep-copies an object returned by the scanner into plain form.
func Snapshot(obj osm.Object) Obs {
	o := Obs{Tol: true}
	tags := func(ts osm.Tags) {
		for _, t := range ts {
			o.Tags = append(o.Tags, [2]string{t.Key, t.Value})
		}
	}
	switch x := obj.(type) {
	case *osm.Node:
		o.Kind, o.ID = 0, int64(x.ID)
		var t1, t2 bool
		o.Lat, t1 = Nano(x.Lat)
		o.Lon, t2 = Nano(x.Lon)
		o.Tol = t1 && t2
		o.Version, o.CS, o.UID, o.User, o.Visible = int64(x.Version), int64(x.ChangesetID), int64(x.UserID), x.User, x.Visible
		tsOf(&o, x.Timestamp)
		tags(x.Tags)
	case *osm.Way:
		o.Kind, o.ID = 1, int64(x.ID)
		o.Version, o.CS, o.UID, o.User, o.Visible = int64(x.Version), int64(x.ChangesetID), int64(x.UserID), x.User, x.Visible
		tsOf(&o, x.Timestamp)
		tags(x.Tags)
		for _, n := range x.Nodes {
			la, t1 := Nano(n.Lat)
			lo, t2 := Nano(n.Lon)
			o.Tol = o.Tol && t1 && t2
			o.Nodes = append(o.Nodes, [3]int64{int64(n.ID), la, lo})
		}
	case *osm.Relation:
		o.Kind, o.ID = 2, int64(x.ID)
		o.Version, o.CS, o.UID, o.User, o.Visible = int64(x.Version), int64(x.ChangesetID), int64(x.UserID), x.User, x.Visible
		tsOf(&o, x.Timestamp)
		tags(x.Tags)
		for _, m := range x.Members {
			ty := int64(-1)
			switch m.Type {
			case osm.TypeNode:
				ty = 0
			case osm.TypeWay:
				ty = 1
			case osm.TypeRelation:
				ty = 2
			}
			o.Members = append(o.Members, ObsMember{ty, m.Ref, m.Role})
		}
	default:
		o.Kind = 9
	}
	return o
}

// Equal compares two snapshots.
func (o *Obs) Equal(p *Obs) bool {
	if o.Kind != p.Kind || o.ID != p.ID || o.Lat != p.Lat || o.Lon != p.Lon || o.Tol != p.Tol || o.Version != p.Version ||
		o.HasTS != p.HasTS || o.TSNano != p.TSNano || o.CS != p.CS || o.UID != p.UID || o.User != p.User || o.Visible != p.Visible ||
		len(o.Tags) != len(p.Tags) || len(o.Nodes) != len(p.Nodes) || len(o.Members) != len(p.Members) {
		return false
	}
	for i := range o.Tags {
		if o.Tags[i] != p.Tags[i] {
			return false
		}
	}
	for i := range o.Nodes {
		if o.Nodes[i] != p.Nodes[i] {
			return false
		}
	}
	for i := range o.Members {
		if o.Members[i] != p.Members[i] {
			return false
		}
	}
	return true
}

func EqualObs(a, b []Obs) bool {
	if len(a) != len(b) {
		return false
	}
	for i := range a {
		if !a[i].Equal(&b[i]) {
			return false
		}
	}
	return true
}

// Intern registers the strings of o in the pool (call before Pool.Put).
func (o *Obs) Intern(p *Pool) {
	p.ID(o.User)
	for _, t := range o.Tags {
		p.ID(t[0])
		p.ID(t[1])
	}
	for _, m := range o.Members {
		p.ID(m.Role)
	}
}

// Put writes the observed object (pobj).
func (o *Obs) Put(c *wire.Case, p *Pool) {
	info := func() {
		c.Int(o.Version)
		optInt(c, o.HasTS, o.TSNano)
		c.Int(o.CS).Int(o.UID).Int(p.ID(o.User)).Bool(o.Visible)
		c.Len(len(o.Tags))
		for _, t := range o.Tags {
			c.Int(p.ID(t[0])).Int(p.ID(t[1]))
		}
	}
	switch o.Kind {
	case 0:
		c.Int(0).Int(o.ID).Int(o.Lat).Int(o.Lon).Bool(o.Tol)
		info()
	case 1:
		c.Int(1).Int(o.ID).Bool(o.Tol)
		info()
		c.Len(len(o.Nodes))
		for _, n := range o.Nodes {
			c.Int(n[0]).Int(n[1]).Int(n[2])
		}
	case 2:
		c.Int(2).Int(o.ID)
		info()
		c.Len(len(o.Members))
		for _, m := range o.Members {
			c.Int(m.Type).Int(m.Ref).Int(p.ID(m.Role))
		}
	default:
		c.Int(9)
	}
}

// PutHeaderObs writes Header() as observed (pheader_obs).
func PutHeaderObs(c *wire.Case, h *osmpbf.Header) {
	tol := true
	c.Bool(h.Bounds != nil)
	if h.Bounds != nil {
		for _, f := range []float64{h.Bounds.MinLon, h.Bounds.MaxLon, h.Bounds.MinLat, h.Bounds.MaxLat} {
			n, t := Nano(f)
			tol = tol && t
			c.Int(n)
		}
	}
	c.Bool(tol)
	c.Len(len(h.RequiredFeatures))
	for _, s := range h.RequiredFeatures {
		c.Str(s)
	}
	c.Len(len(h.OptionalFeatures))
	for _, s := range h.OptionalFeatures {
		c.Str(s)
	}
	c.Str(h.WritingProgram).Str(h.Source)
	optInt(c, !h.ReplicationTimestamp.IsZero(), h.ReplicationTimestamp.Unix())
	c.Int(int64(h.ReplicationSeqNum)).Str(h.ReplicationBaseURL)
}

// Pred is a filter predicate of the small language interpreted by CheckLib.eval_pred.
type Pred struct {
	Code int64 `json:"code"`
	A    int64 `json:"a,omitempty"`
	B    int64 `json:"b,omitempty"`
}

func (p Pred) Put(c *wire.Case) { c.Int(p.Code).Int(p.A).Int(p.B) }

// EvalObs interprets the predicate on a snapshot of the element as the filter callback sees it: codes
// 0..7 as Eval; 8..17 read the other fields (Pbf.CheckLib.eval_full is the Coq twin):
// 8 A: at least A refs (way nodes / members); 9: closed (>= 2 refs, first = last); 10 A: some ref = A;
// 11: visible; 12: has a timestamp; 13: changeset even; 14: uid even; 15: user not empty;
// 16: node: lat+lon (nanodegrees) even; way / relation: some coordinate pair is not (0,0);
// 17: some tag has an empty key or an empty value.
func (p Pred) EvalObs(o *Obs) bool {
	var refs []int64
	for _, n := range o.Nodes {
		refs = append(refs, n[0])
	}
	for _, m := range o.Members {
		refs = append(refs, m.Ref)
	}
	switch p.Code {
	case 8:
		return int64(len(refs)) >= p.A
	case 9:
		return len(refs) >= 2 && refs[0] == refs[len(refs)-1]
	case 10:
		for _, r := range refs {
			if r == p.A {
				return true
			}
		}
		return false
	case 11:
		return o.Visible
	case 12:
		return o.HasTS
	case 13:
		return o.CS%2 == 0
	case 14:
		return o.UID%2 == 0
	case 15:
		return o.User != ""
	case 16:
		if o.Kind == 0 {
			return (o.Lat+o.Lon)%2 == 0
		}
		for _, n := range o.Nodes {
			if n[1] != 0 || n[2] != 0 {
				return true
			}
		}
		return false
	case 17:
		for _, t := range o.Tags {
			if t[0] == "" || t[1] == "" {
				return true
			}
		}
		return false
	}
	return p.Eval(o.ID, int(o.Version), len(o.Tags))
}

// Eval interprets the predicate on (id, version, number of tags).
func (p Pred) Eval(id int64, version int, ntags int) bool {
	switch p.Code {
	case 0:
		return true
	case 1:
		return false
	case 2:
		return id%p.A == p.B
	case 3:
		return ntags != 0
	case 4:
		return version%2 == 0
	case 5:
		return ((id*31+7)%11+11)%11 < p.A
	case 6: // everything outside the id range [A, B]
		return !(p.A <= id && id <= p.B)
	case 7: // the id range [A, B]
		return p.A <= id && id <= p.B
	}
	return true
}
