package xcodec

import (
	"reflect"
	"time"

	"github.com/paulmach/osm"
	"verif/harness/wire"
)

// ---- typed document trees written by the independent writer (C03) ----
//
// Nothing below uses encoding/xml or the struct tags of package osm: element and attribute
// names are the OSM XML vocabulary written out by hand (cf. coq/theories/Codec/SpecNames.v).

type AtomKind int

const (
	AStr AtomKind = iota
	AInt
	AFloat
	ABool
	ATime
	ADate
)

type Atom struct {
	Kind AtomKind
	S    string
	I    int64     // AInt; AFloat: FloatKey(value)
	F    float64   // AFloat
	B    bool      // ABool
	T    time.Time // ATime, ADate
}

type XAttr struct {
	Name string
	Val  Atom
}

type XNode struct {
	Name  string
	Attrs []XAttr
	Kids  []*XNode
	Text  Atom
	// Obj is the object this element was written for (ground truth for the streaming reader).
	Obj interface{}
	// Extra marks noise (unknown element) — informational.
	Extra bool
	// Leaf marks an element with simple (text) content: no layout whitespace may go inside.
	Leaf bool
}

func S(s string) Atom    { return Atom{Kind: AStr, S: s} }
func I(i int64) Atom     { return Atom{Kind: AInt, I: i} }
func B(b bool) Atom      { return Atom{Kind: ABool, B: b} }
func T(t time.Time) Atom { return Atom{Kind: ATime, T: t} }
func D(t time.Time) Atom { return Atom{Kind: ADate, T: t} }
func F(f float64) Atom {
	k, ok := FloatKey(f)
	if !ok {
		panic("xcodec: float not representable")
	}
	return Atom{Kind: AFloat, F: f, I: k}
}

func (a Atom) Emit(c *wire.Case) {
	c.Int(int64(a.Kind))
	switch a.Kind {
	case AStr:
		c.Str(a.S)
	case AInt, AFloat:
		c.Int(a.I)
	case ABool:
		c.Bool(a.B)
	case ATime:
		c.Int(a.T.Unix()).Int(int64(a.T.Nanosecond()))
	case ADate:
		c.Int(a.T.Unix())
	}
}

func (n *XNode) Emit(c *wire.Case) {
	c.Str(n.Name)
	c.Len(len(n.Attrs))
	for _, a := range n.Attrs {
		c.Str(a.Name)
		a.Val.Emit(c)
	}
	n.Text.Emit(c)
	c.Len(len(n.Kids))
	for _, k := range n.Kids {
		k.Emit(c)
	}
}

// Objects lists the objects written, in document order.
func (n *XNode) Objects(out *[]interface{}) {
	if n.Obj != nil {
		*out = append(*out, n.Obj)
		return
	}
	for _, k := range n.Kids {
		k.Objects(out)
	}
}

// SpecWriter builds document trees from values.  Opt decides, for an attribute whose value is
// zero and that the format allows to leave out, whether it is written anyway.
type SpecWriter struct {
	Opt func() bool
}

func (w *SpecWriter) opt(zero bool) bool { return !zero || w.Opt() }

type ab struct{ l []XAttr }

func (a *ab) add(name string, v Atom) { a.l = append(a.l, XAttr{name, v}) }

func (w *SpecWriter) tags(ts osm.Tags) []*XNode {
	var out []*XNode
	for _, t := range ts {
		out = append(out, &XNode{Name: "tag", Attrs: []XAttr{{"k", S(t.Key)}, {"v", S(t.Value)}}})
	}
	return out
}

func (w *SpecWriter) Bounds(b *osm.Bounds, obj bool) *XNode {
	a := &ab{}
	if w.opt(b.MinLat == 0) {
		a.add("minlat", F(b.MinLat))
	}
	if w.opt(b.MaxLat == 0) {
		a.add("maxlat", F(b.MaxLat))
	}
	if w.opt(b.MinLon == 0) {
		a.add("minlon", F(b.MinLon))
	}
	if w.opt(b.MaxLon == 0) {
		a.add("maxlon", F(b.MaxLon))
	}
	n := &XNode{Name: "bounds", Attrs: a.l}
	if obj {
		n.Obj = b
	}
	return n
}

func (w *SpecWriter) meta(a *ab, user string, uid osm.UserID, visible bool, version int, cs osm.ChangesetID, ts time.Time, committed *time.Time) {
	if w.opt(user == "") {
		a.add("user", S(user))
	}
	if w.opt(uid == 0) {
		a.add("uid", I(int64(uid)))
	}
	if w.opt(!visible) {
		a.add("visible", B(visible))
	}
	if w.opt(version == 0) {
		a.add("version", I(int64(version)))
	}
	if w.opt(cs == 0) {
		a.add("changeset", I(int64(cs)))
	}
	if w.opt(ts.IsZero()) {
		a.add("timestamp", T(ts))
	}
	if committed != nil {
		a.add("committed", T(*committed))
	}
}

func (w *SpecWriter) Node(n *osm.Node) *XNode {
	a := &ab{}
	if w.opt(n.ID == 0) {
		a.add("id", I(int64(n.ID)))
	}
	if w.opt(n.Lat == 0) {
		a.add("lat", F(n.Lat))
	}
	if w.opt(n.Lon == 0) {
		a.add("lon", F(n.Lon))
	}
	w.meta(a, n.User, n.UserID, n.Visible, n.Version, n.ChangesetID, n.Timestamp, n.Committed)
	return &XNode{Name: "node", Attrs: a.l, Kids: w.tags(n.Tags), Obj: n}
}

func (w *SpecWriter) nds(l osm.WayNodes) []*XNode {
	var out []*XNode
	for _, wn := range l {
		a := &ab{}
		if w.opt(wn.ID == 0) {
			a.add("ref", I(int64(wn.ID)))
		}
		if w.opt(wn.Version == 0) {
			a.add("version", I(int64(wn.Version)))
		}
		if w.opt(wn.ChangesetID == 0) {
			a.add("changeset", I(int64(wn.ChangesetID)))
		}
		if w.opt(wn.Lat == 0) {
			a.add("lat", F(wn.Lat))
		}
		if w.opt(wn.Lon == 0) {
			a.add("lon", F(wn.Lon))
		}
		out = append(out, &XNode{Name: "nd", Attrs: a.l})
	}
	return out
}

func (w *SpecWriter) updates(l osm.Updates) []*XNode {
	var out []*XNode
	for _, u := range l {
		a := &ab{}
		if w.opt(u.Index == 0) {
			a.add("index", I(int64(u.Index)))
		}
		if w.opt(u.Version == 0) {
			a.add("version", I(int64(u.Version)))
		}
		if w.opt(u.Timestamp.IsZero()) {
			a.add("timestamp", T(u.Timestamp))
		}
		if w.opt(u.ChangesetID == 0) {
			a.add("changeset", I(int64(u.ChangesetID)))
		}
		if w.opt(u.Lat == 0) {
			a.add("lat", F(u.Lat))
		}
		if w.opt(u.Lon == 0) {
			a.add("lon", F(u.Lon))
		}
		if w.opt(!u.Reverse) {
			a.add("reverse", B(u.Reverse))
		}
		out = append(out, &XNode{Name: "update", Attrs: a.l})
	}
	return out
}

func (w *SpecWriter) Way(x *osm.Way) *XNode {
	a := &ab{}
	if w.opt(x.ID == 0) {
		a.add("id", I(int64(x.ID)))
	}
	w.meta(a, x.User, x.UserID, x.Visible, x.Version, x.ChangesetID, x.Timestamp, x.Committed)
	kids := append(w.nds(x.Nodes), w.tags(x.Tags)...)
	kids = append(kids, w.updates(x.Updates)...)
	if x.Bounds != nil {
		kids = append(kids, w.Bounds(x.Bounds, false))
	}
	return &XNode{Name: "way", Attrs: a.l, Kids: kids, Obj: x}
}

func (w *SpecWriter) Relation(x *osm.Relation) *XNode {
	a := &ab{}
	if w.opt(x.ID == 0) {
		a.add("id", I(int64(x.ID)))
	}
	w.meta(a, x.User, x.UserID, x.Visible, x.Version, x.ChangesetID, x.Timestamp, x.Committed)
	kids := w.tags(x.Tags)
	for _, m := range x.Members {
		ma := &ab{}
		if w.opt(m.Type == "") {
			ma.add("type", S(string(m.Type)))
		}
		if w.opt(m.Ref == 0) {
			ma.add("ref", I(m.Ref))
		}
		if w.opt(m.Role == "") {
			ma.add("role", S(m.Role))
		}
		if w.opt(m.Version == 0) {
			ma.add("version", I(int64(m.Version)))
		}
		if w.opt(m.ChangesetID == 0) {
			ma.add("changeset", I(int64(m.ChangesetID)))
		}
		if w.opt(m.Lat == 0) {
			ma.add("lat", F(m.Lat))
		}
		if w.opt(m.Lon == 0) {
			ma.add("lon", F(m.Lon))
		}
		if w.opt(m.Orientation == 0) {
			ma.add("orientation", I(int64(m.Orientation)))
		}
		kids = append(kids, &XNode{Name: "member", Attrs: ma.l, Kids: w.nds(m.Nodes)})
	}
	kids = append(kids, w.updates(x.Updates)...)
	if x.Bounds != nil {
		kids = append(kids, w.Bounds(x.Bounds, false))
	}
	return &XNode{Name: "relation", Attrs: a.l, Kids: kids, Obj: x}
}

func (w *SpecWriter) Changeset(x *osm.Changeset) *XNode {
	a := &ab{}
	if w.opt(x.ID == 0) {
		a.add("id", I(int64(x.ID)))
	}
	if w.opt(x.User == "") {
		a.add("user", S(x.User))
	}
	if w.opt(x.UserID == 0) {
		a.add("uid", I(int64(x.UserID)))
	}
	if w.opt(x.CreatedAt.IsZero()) {
		a.add("created_at", T(x.CreatedAt))
	}
	if w.opt(x.ClosedAt.IsZero()) {
		a.add("closed_at", T(x.ClosedAt))
	}
	if w.opt(!x.Open) {
		a.add("open", B(x.Open))
	}
	if w.opt(x.ChangesCount == 0) {
		a.add("num_changes", I(int64(x.ChangesCount)))
	}
	if w.opt(x.MinLat == 0) {
		a.add("min_lat", F(x.MinLat))
	}
	if w.opt(x.MaxLat == 0) {
		a.add("max_lat", F(x.MaxLat))
	}
	if w.opt(x.MinLon == 0) {
		a.add("min_lon", F(x.MinLon))
	}
	if w.opt(x.MaxLon == 0) {
		a.add("max_lon", F(x.MaxLon))
	}
	if w.opt(x.CommentsCount == 0) {
		a.add("comments_count", I(int64(x.CommentsCount)))
	}
	kids := w.tags(x.Tags)
	if x.Discussion != nil {
		d := &XNode{Name: "discussion"}
		for _, c := range x.Discussion.Comments {
			ca := &ab{}
			if w.opt(c.User == "") {
				ca.add("user", S(c.User))
			}
			if w.opt(c.UserID == 0) {
				ca.add("uid", I(int64(c.UserID)))
			}
			if w.opt(c.Timestamp.IsZero()) {
				ca.add("date", T(c.Timestamp))
			}
			cn := &XNode{Name: "comment", Attrs: ca.l}
			if w.opt(c.Text == "") {
				cn.Kids = []*XNode{{Name: "text", Text: S(c.Text), Leaf: true}}
			}
			d.Kids = append(d.Kids, cn)
		}
		kids = append(kids, d)
	}
	return &XNode{Name: "changeset", Attrs: a.l, Kids: kids, Obj: x}
}

func (w *SpecWriter) textEl(kids *[]*XNode, name string, a Atom, zero bool) {
	if w.opt(zero) {
		*kids = append(*kids, &XNode{Name: name, Text: a, Leaf: true})
	}
}

func (w *SpecWriter) Note(x *osm.Note) *XNode {
	a := &ab{}
	if w.opt(x.Lat == 0) {
		a.add("lat", F(x.Lat))
	}
	if w.opt(x.Lon == 0) {
		a.add("lon", F(x.Lon))
	}
	var kids []*XNode
	w.textEl(&kids, "id", I(int64(x.ID)), x.ID == 0)
	w.textEl(&kids, "url", S(x.URL), x.URL == "")
	w.textEl(&kids, "comment_url", S(x.CommentURL), x.CommentURL == "")
	w.textEl(&kids, "close_url", S(x.CloseURL), x.CloseURL == "")
	w.textEl(&kids, "reopen_url", S(x.ReopenURL), x.ReopenURL == "")
	w.textEl(&kids, "date_created", D(x.DateCreated.Time), x.DateCreated.IsZero())
	w.textEl(&kids, "date_closed", D(x.DateClosed.Time), x.DateClosed.IsZero())
	w.textEl(&kids, "status", S(string(x.Status)), x.Status == "")
	if w.opt(len(x.Comments) == 0) {
		cs := &XNode{Name: "comments"}
		for _, c := range x.Comments {
			var ck []*XNode
			w.textEl(&ck, "date", D(c.Date.Time), c.Date.IsZero())
			w.textEl(&ck, "uid", I(int64(c.UserID)), c.UserID == 0)
			w.textEl(&ck, "user", S(c.User), c.User == "")
			w.textEl(&ck, "user_url", S(c.UserURL), c.UserURL == "")
			w.textEl(&ck, "action", S(string(c.Action)), c.Action == "")
			w.textEl(&ck, "text", S(c.Text), c.Text == "")
			w.textEl(&ck, "html", S(c.HTML), c.HTML == "")
			cs.Kids = append(cs.Kids, &XNode{Name: "comment", Kids: ck})
		}
		kids = append(kids, cs)
	}
	return &XNode{Name: "note", Attrs: a.l, Kids: kids, Obj: x}
}

func (w *SpecWriter) User(x *osm.User) *XNode {
	a := &ab{}
	if w.opt(x.ID == 0) {
		a.add("id", I(int64(x.ID)))
	}
	if w.opt(x.Name == "") {
		a.add("display_name", S(x.Name))
	}
	if w.opt(x.CreatedAt.IsZero()) {
		a.add("account_created", T(x.CreatedAt))
	}
	var kids []*XNode
	w.textEl(&kids, "description", S(x.Description), x.Description == "")
	one := func(name string, attrs ...XAttr) *XNode {
		n := &XNode{Name: name}
		for _, at := range attrs {
			zero := false
			switch at.Val.Kind {
			case AStr:
				zero = at.Val.S == ""
			case AInt, AFloat:
				zero = at.Val.I == 0
			}
			if w.opt(zero) {
				n.Attrs = append(n.Attrs, at)
			}
		}
		return n
	}
	if w.opt(x.Img.Href == "") {
		kids = append(kids, one("img", XAttr{"href", S(x.Img.Href)}))
	}
	if w.opt(x.Changesets.Count == 0) {
		kids = append(kids, one("changesets", XAttr{"count", I(int64(x.Changesets.Count))}))
	}
	if w.opt(x.Traces.Count == 0) {
		kids = append(kids, one("traces", XAttr{"count", I(int64(x.Traces.Count))}))
	}
	if w.opt(x.Home.Lat == 0 && x.Home.Lon == 0 && x.Home.Zoom == 0) {
		kids = append(kids, one("home", XAttr{"lat", F(x.Home.Lat)}, XAttr{"lon", F(x.Home.Lon)}, XAttr{"zoom", I(int64(x.Home.Zoom))}))
	}
	if w.opt(len(x.Languages) == 0) {
		l := &XNode{Name: "languages"}
		for _, s := range x.Languages {
			l.Kids = append(l.Kids, &XNode{Name: "lang", Text: S(s), Leaf: true})
		}
		kids = append(kids, l)
	}
	if w.opt(x.Blocks.Received.Count == 0 && x.Blocks.Received.Active == 0) {
		kids = append(kids, &XNode{Name: "blocks", Kids: []*XNode{
			one("received", XAttr{"count", I(int64(x.Blocks.Received.Count))}, XAttr{"active", I(int64(x.Blocks.Received.Active))})}})
	}
	if w.opt(x.Messages.Received.Count == 0 && x.Messages.Received.Unread == 0 && x.Messages.Sent.Count == 0) {
		kids = append(kids, &XNode{Name: "messages", Kids: []*XNode{
			one("received", XAttr{"count", I(int64(x.Messages.Received.Count))}, XAttr{"unread", I(int64(x.Messages.Received.Unread))}),
			one("sent", XAttr{"count", I(int64(x.Messages.Sent.Count))})}})
	}
	return &XNode{Name: "user", Attrs: a.l, Kids: kids, Obj: x}
}

// Inner lists the children of an <osm> document or of a create/modify/delete/old/new block.
func (w *SpecWriter) Inner(o *osm.OSM) []*XNode {
	var kids []*XNode
	if o.Bounds != nil {
		kids = append(kids, w.Bounds(o.Bounds, true))
	}
	for _, n := range o.Nodes {
		kids = append(kids, w.Node(n))
	}
	for _, x := range o.Ways {
		kids = append(kids, w.Way(x))
	}
	for _, x := range o.Relations {
		kids = append(kids, w.Relation(x))
	}
	for _, x := range o.Changesets {
		kids = append(kids, w.Changeset(x))
	}
	for _, x := range o.Notes {
		kids = append(kids, w.Note(x))
	}
	for _, x := range o.Users {
		kids = append(kids, w.User(x))
	}
	return kids
}

func (w *SpecWriter) header(version, generator, copyright, attribution, license string) []XAttr {
	a := &ab{}
	for _, p := range [][2]string{{"version", version}, {"generator", generator}, {"copyright", copyright}, {"attribution", attribution}, {"license", license}} {
		if w.opt(p[1] == "") {
			a.add(p[0], S(p[1]))
		}
	}
	return a.l
}

func (w *SpecWriter) OSM(o *osm.OSM) *XNode {
	return &XNode{Name: "osm", Attrs: w.header(o.Version, o.Generator, o.Copyright, o.Attribution, o.License), Kids: w.Inner(o)}
}

func (w *SpecWriter) Block(name string, o *osm.OSM) *XNode {
	return &XNode{Name: name, Kids: w.Inner(o)}
}

func (w *SpecWriter) Action(a *osm.Action) *XNode {
	n := &XNode{Name: "action", Attrs: []XAttr{{"type", S(string(a.Type))}}}
	if a.OSM != nil {
		n.Kids = append(n.Kids, w.Inner(a.OSM)...)
	}
	if a.Old != nil {
		n.Kids = append(n.Kids, w.Block("old", a.Old))
	}
	if a.New != nil {
		n.Kids = append(n.Kids, w.Block("new", a.New))
	}
	return n
}

func (w *SpecWriter) Diff(d *osm.Diff) *XNode {
	n := &XNode{Name: "osm"}
	for i := range d.Actions {
		n.Kids = append(n.Kids, w.Action(&d.Actions[i]))
	}
	for _, c := range d.Changesets {
		n.Kids = append(n.Kids, w.Changeset(c))
	}
	return n
}

var _ = reflect.TypeOf
