package xcodec

import (
	"bufio"
	"encoding/base64"
	"encoding/json"
	"fmt"
	"os"
	"os/exec"
	"path/filepath"

	"verif/harness/wire"
)

// Tree is a document tree at text level: what an XML reader sees.
type Tree struct {
	Name     string      `json:"n"`
	Attrs    [][2]string `json:"a"`
	Text     string      `json:"t"`
	Children []*Tree     `json:"c"`
}

// Emit appends the tree: name, attrs (n, name, value), text, children (n, ...).
func (t *Tree) Emit(c *wire.Case) {
	c.Str(t.Name)
	c.Len(len(t.Attrs))
	for _, a := range t.Attrs {
		c.Str(a[0]).Str(a[1])
	}
	c.Str(t.Text)
	c.Len(len(t.Children))
	for _, k := range t.Children {
		k.Emit(c)
	}
}

type pyOut struct {
	I    int    `json:"i"`
	Tree *Tree  `json:"tree"`
	Err  string `json:"err"`
}

// ReadTrees parses every document with the independent Python reader (harness/py/xmltree.py,
// xml.etree on expat).  A nil entry means the reader rejected the document (errs[i] says why).
func ReadTrees(workdir string, docs [][]byte) ([]*Tree, []string, error) {
	in := filepath.Join(workdir, "docs_in.jsonl")
	out := filepath.Join(workdir, "docs_out.jsonl")
	f, err := os.Create(in)
	if err != nil {
		return nil, nil, err
	}
	w := bufio.NewWriter(f)
	for i, d := range docs {
		b, _ := json.Marshal(map[string]interface{}{"i": i, "b64": base64.StdEncoding.EncodeToString(d)})
		w.Write(b)
		w.WriteByte('\n')
	}
	w.Flush()
	f.Close()
	vdir := os.Getenv("VERIF_DIR")
	if vdir == "" {
		vdir = "/verif"
	}
	cmd := exec.Command("python3", filepath.Join(vdir, "harness", "py", "xmltree.py"), in, out)
	if msg, err := cmd.CombinedOutput(); err != nil {
		return nil, nil, fmt.Errorf("python reader: %v: %s", err, msg)
	}
	g, err := os.Open(out)
	if err != nil {
		return nil, nil, err
	}
	defer g.Close()
	trees := make([]*Tree, len(docs))
	errs := make([]string, len(docs))
	sc := bufio.NewScanner(g)
	sc.Buffer(make([]byte, 1<<20), 1<<28)
	for sc.Scan() {
		var o pyOut
		if err := json.Unmarshal(sc.Bytes(), &o); err != nil {
			return nil, nil, err
		}
		trees[o.I], errs[o.I] = o.Tree, o.Err
	}
	os.Remove(in)
	os.Remove(out)
	return trees, errs, sc.Err()
}
