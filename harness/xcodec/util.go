package xcodec

import "sort"

func sortedKeys(m map[int64]string) []int64 {
	out := make([]int64, 0, len(m))
	for k := range m {
		out = append(out, k)
	}
	sort.Slice(out, func(i, j int) bool { return out[i] < out[j] })
	return out
}

func sortPairs(l [][2]int64) {
	sort.Slice(l, func(i, j int) bool {
		if l[i][0] != l[j][0] {
			return l[i][0] < l[j][0]
		}
		return l[i][1] < l[j][1]
	})
}
