package xcodec

import (
	"math"
	"math/rand"
	"reflect"
	"strings"
	"time"

	"github.com/paulmach/osm"
)

// Gen is the typed random value generator: it fills any type of package osm by reflection,
// every optional field independently empty or not, then applies the per-type normalisation
// that makes the value XML-representable (the [wfb] predicate of Codec/Wf.v).
type Gen struct {
	R     *rand.Rand
	Count func(string)
	// MaxLen bounds slice lengths.
	MaxLen int
	// Lossy also generates the values of the property's domain that the XML formats cannot carry
	// (known findings of C04): note dates with a sub-second part, non-nil empty discussions.
	Lossy bool
}

// Strings needing every kind of XML escaping, multi-byte text, leading/trailing blanks.
var stringPool = []string{
	"a", "bc", "x y", "<&>", "\"q'", "é", "日本", " lead", "trail ", "a\nb", "t\tb", "]]>", "&amp;", "c\rd", "0", "-1", "true", "ü<ö>&",
	"\U0001F30D", "a=\"b\"", "<!--x-->", "  ", "１２", "Ω",
}

func (g *Gen) String() string {
	if g.R.Intn(4) == 0 {
		return ""
	}
	return stringPool[g.R.Intn(len(stringPool))]
}

// FineFloats are coordinates that need more than 7 decimals: quotients, sums that are not
// multiples of 1e-7, values below 1e-7, web-mercator tile edges (zoom 7, 12, 18), the float64
// neighbours of a 7-decimal coordinate, and large/small exponents (strconv switches notation).
var FineFloats = func() []float64 {
	out := []float64{1.0 / 3, -2.0 / 3, 0.1 + 0.2, 50.7107023 + 1e-7, 1e-9, -1e-9, 5e-8, 1.00000005, -179.99999995,
		math.Nextafter(50.7107023, 100), math.Nextafter(-0.1278, -1), 89.123456789, -122.41941550000001,
		1e-7 / 3, 1.5e-5, 123456789.125, 1e21, 1e-320, math.SmallestNonzeroFloat64, 180 - 1e-13, 85.0511287798066}
	for _, z := range []uint{7, 12, 18} {
		n := float64(uint(1) << z)
		for _, y := range []float64{1, n/2 - 1, n/3 + 1} {
			y = math.Floor(y)
			out = append(out, 180/math.Pi*math.Atan(math.Sinh(math.Pi*(1-2*y/n))), y/n*360-180+1/n/3)
		}
	}
	return out
}()

// Float returns a finite float64: zero, integral, multiples of 1/128 (which print with at most
// 7 decimals), and — wave 6 — values that need more than 7 significant decimals: a fixed pool
// and random full-mantissa coordinates.  Every float attribute of every type draws from here.
func (g *Gen) Float() float64 {
	switch g.R.Intn(9) {
	case 0:
		return 0
	case 1:
		return float64(g.R.Intn(361) - 180) // integral
	case 2:
		return float64(g.R.Intn(3)-1) / 128 // smallest magnitudes
	case 3, 4:
		g.count("float:fine-pool")
		return FineFloats[g.R.Intn(len(FineFloats))]
	case 5:
		g.count("float:fine-random")
		return g.R.Float64()*360 - 180 // 52 random mantissa bits: ~15 decimals
	case 6:
		g.count("float:fine-random")
		return (float64(g.R.Intn(3600000000)-1800000000) + g.R.Float64()) / 1e7 // a 7-decimal coordinate plus a sub-1e-7 part
	}
	return float64(g.R.Intn(2*180*128+1)-180*128) / 128
}

func (g *Gen) Int(bits int) int64 {
	switch g.R.Intn(6) {
	case 0:
		return 0
	case 1:
		return 1
	case 2:
		if bits <= 8 {
			return int64(g.R.Intn(3) - 1)
		}
		return -int64(g.R.Intn(1000)) - 1
	case 3:
		if bits <= 8 {
			return int64(g.R.Intn(256) - 128)
		}
		if bits >= 64 {
			// ids outside the packed 40-bit range: editor placeholder ids, 2^40, 2^44, 2^45, extremes
			special := []int64{-1, -2, 1 << 40, 1 << 44, 1 << 45, 1<<40 - 1, 9223372036854775807, -(1 << 62), -9223372036854775808}
			if g.R.Intn(2) == 0 {
				return special[g.R.Intn(len(special))]
			}
			return g.R.Int63() // large
		}
		return int64(g.R.Int31())
	}
	if bits <= 8 {
		return int64(g.R.Intn(100))
	}
	return int64(g.R.Intn(100000))
}

// Time returns a UTC instant; whole selects second resolution.
func (g *Gen) Time(whole bool) time.Time {
	var sec int64
	switch g.R.Intn(9) {
	case 8:
		// first-class zero values: the unix epoch itself and its neighbours
		return time.Unix(int64(g.R.Intn(3)-1), 0).UTC()
	case 0:
		return time.Time{}
	case 1:
		sec = -int64(g.R.Intn(2000000000)) // before 1970
	case 2:
		sec = 253402300799 - int64(g.R.Intn(1000)) // end of year 9999
	case 3:
		sec = -62135596800 + int64(g.R.Intn(100000)) // year 1
	default:
		sec = 1000000000 + int64(g.R.Intn(800000000))
	}
	ns := int64(0)
	if !whole {
		switch g.R.Intn(4) {
		case 0:
			ns = int64(g.R.Intn(1000)) * 1000000
		case 1:
			ns = int64(g.R.Intn(1000000000))
		case 2:
			ns = 999999999
		}
	}
	return time.Unix(sec, ns).UTC()
}

func (g *Gen) count(k string) {
	if g.Count != nil {
		g.Count(k)
	}
}

// Fill sets v (settable) to a random value of its type. path names the field for the histogram.
func (g *Gen) Fill(v reflect.Value, path string, depth int) {
	t := v.Type()
	switch t {
	case timeType:
		v.Set(reflect.ValueOf(g.Time(false)))
		return
	case dateType:
		v.Set(reflect.ValueOf(osm.Date{Time: g.Time(!(g.Lossy && g.R.Intn(8) == 0))}))
		return
	case reflect.TypeOf(osm.Type("")):
		v.SetString([]string{"node", "way", "relation", "node", "way", "relation", "", "bounds"}[g.R.Intn(8)])
		return
	case reflect.TypeOf(osm.ActionType("")):
		v.SetString([]string{"create", "modify", "delete"}[g.R.Intn(3)])
		return
	}
	switch v.Kind() {
	case reflect.Int, reflect.Int8, reflect.Int16, reflect.Int32, reflect.Int64:
		v.SetInt(g.Int(t.Bits()))
	case reflect.Float64:
		v.SetFloat(g.Float())
	case reflect.Bool:
		v.SetBool(g.R.Intn(2) == 0)
	case reflect.String:
		v.SetString(g.String())
	case reflect.Ptr:
		if depth <= 0 || g.R.Intn(2) == 0 {
			v.Set(reflect.Zero(t))
			return
		}
		p := reflect.New(t.Elem())
		g.Fill(p.Elem(), path, depth-1)
		v.Set(p)
	case reflect.Slice:
		n := 0
		if depth > 0 {
			switch g.R.Intn(4) {
			case 0:
				n = 0
			case 1:
				n = 1
			default:
				n = 1 + g.R.Intn(g.MaxLen)
			}
		}
		s := reflect.MakeSlice(t, n, n)
		for i := 0; i < n; i++ {
			e := s.Index(i)
			if e.Kind() == reflect.Ptr {
				// pointer elements of a slice are never nil (a nil element is not written)
				p := reflect.New(e.Type().Elem())
				g.Fill(p.Elem(), path, depth-1)
				e.Set(p)
			} else {
				g.Fill(e, path, depth-1)
			}
		}
		if n == 0 {
			s = reflect.Zero(t)
		}
		v.Set(s)
	case reflect.Struct:
		for i := 0; i < t.NumField(); i++ {
			f := t.Field(i)
			if f.Name == "XMLName" || (!f.IsExported() && !f.Anonymous) {
				continue
			}
			if tag, ok := f.Tag.Lookup("xml"); ok && tag == "-" {
				continue // not representable in XML: stays zero
			}
			fp := path + "." + f.Name
			if path == "" {
				fp = t.Name() + "." + f.Name
			}
			g.Fill(v.Field(i), fp, depth)
			if strings.Count(fp, ".") <= 2 {
				if v.Field(i).IsZero() {
					g.count("empty:" + fp)
				} else {
					g.count("set:" + fp)
				}
			}
		}
	default:
		panic("xcodec: cannot generate " + t.String())
	}
}

func clearHeader(o *osm.OSM) {
	if o == nil {
		return
	}
	o.Version, o.Generator, o.Copyright, o.Attribution, o.License = "", "", "", "", ""
}

// Normalize applies the representability conditions that are not expressible field by field.
func (g *Gen) Normalize(x interface{}) {
	switch v := x.(type) {
	case *osm.Changeset:
		if v.Discussion != nil && len(v.Discussion.Comments) == 0 && !(g.Lossy && g.R.Intn(3) == 0) {
			// an empty discussion is omitted by ChangesetDiscussion.MarshalXML (known finding
			// when kept): normally generated as nil
			v.Discussion = nil
		}
	case *osm.OSM:
		if v == nil {
			return
		}
		for _, c := range v.Changesets {
			g.Normalize(c)
		}
	case *osm.Change:
		// <create>/<modify>/<delete> carry no header attributes in osmChange
		for _, o := range []*osm.OSM{v.Create, v.Modify, v.Delete} {
			clearHeader(o)
			g.Normalize(o)
		}
	case *osm.Action:
		// a diff action holds at most one created element; old/new are header-less blocks
		if v.OSM != nil {
			o := &osm.OSM{}
			switch g.R.Intn(3) {
			case 0:
				n := &osm.Node{}
				g.Fill(reflect.ValueOf(n).Elem(), "", 3)
				o.Nodes = osm.Nodes{n}
			case 1:
				w := &osm.Way{}
				g.Fill(reflect.ValueOf(w).Elem(), "", 3)
				o.Ways = osm.Ways{w}
			default:
				r := &osm.Relation{}
				g.Fill(reflect.ValueOf(r).Elem(), "", 3)
				o.Relations = osm.Relations{r}
			}
			v.OSM = o
		}
		clearHeader(v.Old)
		clearHeader(v.New)
		g.Normalize(v.Old)
		g.Normalize(v.New)
	case *osm.Diff:
		for i := range v.Actions {
			g.Normalize(&v.Actions[i])
		}
		for _, c := range v.Changesets {
			g.Normalize(c)
		}
	}
}

// New returns a random normalised value of the named top-level type as a pointer.
func (g *Gen) New(typ string, depth int) interface{} {
	var x interface{}
	switch typ {
	case "Node":
		x = &osm.Node{}
	case "Way":
		x = &osm.Way{}
	case "Relation":
		x = &osm.Relation{}
	case "Changeset":
		x = &osm.Changeset{}
	case "Note":
		x = &osm.Note{}
	case "User":
		x = &osm.User{}
	case "Bounds":
		x = &osm.Bounds{}
	case "OSM":
		x = &osm.OSM{}
	case "Change":
		x = &osm.Change{}
	case "Diff":
		x = &osm.Diff{}
	default:
		panic("xcodec: unknown type " + typ)
	}
	g.Fill(reflect.ValueOf(x).Elem(), "", depth)
	g.Normalize(x)
	return x
}
