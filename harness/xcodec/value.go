// Package xcodec: shared pieces of the C03/C04 (and reusable by C05) harnesses —
// the reflective value <-> token walker matching coq/theories/Codec/Value.v, the typed random
// value generator, document trees, the bridge to the independent Python XML reader and the
// independent XML document writer.
package xcodec

import (
	"fmt"
	"math"
	"reflect"
	"strconv"
	"time"

	"github.com/paulmach/osm"
	"verif/harness/wire"
)

var (
	timeType = reflect.TypeOf(time.Time{})
	dateType = reflect.TypeOf(osm.Date{})
)

// DateLayout is the OSM notes API date format (the specification's, not read from /repo).
const DateLayout = "2006-01-02 15:04:05 MST"

// Oracle collects the standard library's text for every float and time met in a value:
// the lexical layer is below the Coq model, which renders those atoms by table lookup.
type Oracle struct {
	Floats map[int64]string
	Times  map[[2]int64]string
	Dates  map[int64]string
}

func NewOracle() *Oracle {
	return &Oracle{Floats: map[int64]string{}, Times: map[[2]int64]string{}, Dates: map[int64]string{}}
}

// FloatKey is the exact integer under which a float64 travels to Coq (VFloat q / AFloat q):
// the IEEE-754 magnitude bits with the sign in front, so the key is injective on finite floats
// up to the sign of zero (both zeros have key 0, as Go's v == 0).  The model only needs
// equality and "is zero" on floats; their text is looked up in the oracle table.  Every finite
// float64 is transportable (wave 6: values with more than 7 significant decimals, 1/3, 1e-9,
// tile bounds); ok=false for NaN and infinities, which are outside the property's domain.
func FloatKey(f float64) (int64, bool) {
	if math.IsNaN(f) || math.IsInf(f, 0) {
		return 0, false
	}
	m := int64(math.Float64bits(f) &^ (1 << 63))
	if math.Signbit(f) {
		return -m, true
	}
	return m, true
}

// Emit appends the positional representation of v (Value.v) to c and feeds the oracle.
// Struct fields: all but XMLName and unexported non-embedded ones, in declaration order
// (the translator applies the same rule).
func Emit(c *wire.Case, v reflect.Value, o *Oracle) {
	t := v.Type()
	if t == timeType {
		tm := v.Interface().(time.Time)
		sec, ns := tm.Unix(), int64(tm.Nanosecond())
		c.Int(sec).Int(ns)
		if o != nil {
			o.Times[[2]int64{sec, ns}] = tm.UTC().Format(time.RFC3339Nano)
			o.Dates[sec] = tm.UTC().Format(DateLayout)
		}
		return
	}
	switch v.Kind() {
	case reflect.Int, reflect.Int8, reflect.Int16, reflect.Int32, reflect.Int64:
		c.Int(v.Int())
	case reflect.Float64, reflect.Float32:
		k, ok := FloatKey(v.Float())
		if !ok {
			panic(fmt.Sprintf("xcodec: float %v is not finite", v.Float()))
		}
		c.Int(k)
		if o != nil {
			o.Floats[k] = strconv.FormatFloat(v.Float(), 'g', -1, 64)
		}
	case reflect.Bool:
		c.Bool(v.Bool())
	case reflect.String:
		c.Str(v.String())
	case reflect.Ptr:
		if v.IsNil() {
			c.Bool(false)
		} else {
			c.Bool(true)
			Emit(c, v.Elem(), o)
		}
	case reflect.Slice:
		c.Len(v.Len())
		for i := 0; i < v.Len(); i++ {
			Emit(c, v.Index(i), o)
		}
	case reflect.Struct:
		for i := 0; i < t.NumField(); i++ {
			f := t.Field(i)
			if f.Name == "XMLName" || (!f.IsExported() && !f.Anonymous) {
				continue
			}
			Emit(c, v.Field(i), o)
		}
	default:
		panic("xcodec: cannot transport kind " + v.Kind().String() + " of " + t.String())
	}
}

// EmitOracle appends the oracle table: n, then (1 k text | 2 sec ns text | 3 sec text).
func (o *Oracle) EmitOracle(c *wire.Case) {
	c.Len(len(o.Floats) + len(o.Times) + len(o.Dates))
	for _, k := range sortedKeys(o.Floats) {
		c.Int(1).Int(k).Str(o.Floats[k])
	}
	tk := make([][2]int64, 0, len(o.Times))
	for k := range o.Times {
		tk = append(tk, k)
	}
	sortPairs(tk)
	for _, k := range tk {
		c.Int(2).Int(k[0]).Int(k[1]).Str(o.Times[k])
	}
	for _, k := range sortedKeys(o.Dates) {
		c.Int(3).Int(k).Str(o.Dates[k])
	}
}

// Tokens returns the token stream of v alone (used for Go-side equality of projected values).
func Tokens(v reflect.Value) []uint64 {
	c := &wire.Case{}
	Emit(c, v, nil)
	return c.Toks
}

func SameTokens(a, b []uint64) bool {
	if len(a) != len(b) {
		return false
	}
	for i := range a {
		if a[i] != b[i] {
			return false
		}
	}
	return true
}

// Dump gives a JSON-able description of a value for replays (field names, nil pointers as
// null, times as RFC 3339 text).
func Dump(v reflect.Value) interface{} {
	t := v.Type()
	if t == timeType {
		return v.Interface().(time.Time).UTC().Format(time.RFC3339Nano)
	}
	switch v.Kind() {
	case reflect.Ptr:
		if v.IsNil() {
			return nil
		}
		return Dump(v.Elem())
	case reflect.Slice:
		out := []interface{}{}
		for i := 0; i < v.Len(); i++ {
			out = append(out, Dump(v.Index(i)))
		}
		return out
	case reflect.Struct:
		m := map[string]interface{}{}
		for i := 0; i < t.NumField(); i++ {
			f := t.Field(i)
			if f.Name == "XMLName" || (!f.IsExported() && !f.Anonymous) {
				continue
			}
			fv := v.Field(i)
			if fv.IsZero() {
				continue
			}
			m[f.Name] = Dump(fv)
		}
		return m
	case reflect.Int, reflect.Int8, reflect.Int16, reflect.Int32, reflect.Int64:
		return v.Int()
	case reflect.Float64, reflect.Float32:
		return v.Float()
	case reflect.Bool:
		return v.Bool()
	case reflect.String:
		return v.String()
	}
	return fmt.Sprint(v.Interface())
}

// KnownClassC04 names the known-finding class of C04 a value belongs to, decided on the value
// alone ("" = none): a note Date with a sub-second part, a non-nil empty ChangesetDiscussion.
func KnownClassC04(v reflect.Value) string {
	date, disc := false, false
	var walk func(v reflect.Value)
	walk = func(v reflect.Value) {
		t := v.Type()
		if t == dateType {
			if v.Interface().(osm.Date).Nanosecond() != 0 {
				date = true
			}
			return
		}
		if t == timeType {
			return
		}
		switch v.Kind() {
		case reflect.Ptr:
			if !v.IsNil() {
				if d, ok := v.Interface().(*osm.ChangesetDiscussion); ok && len(d.Comments) == 0 {
					disc = true
				}
				walk(v.Elem())
			}
		case reflect.Slice:
			for i := 0; i < v.Len(); i++ {
				walk(v.Index(i))
			}
		case reflect.Struct:
			for i := 0; i < t.NumField(); i++ {
				f := t.Field(i)
				if f.Name == "XMLName" || (!f.IsExported() && !f.Anonymous) {
					continue
				}
				if tag, ok := f.Tag.Lookup("xml"); ok && tag == "-" {
					continue
				}
				walk(v.Field(i))
			}
		}
	}
	walk(v)
	switch {
	case date:
		return "note-date-subsecond"
	case disc:
		return "changeset-empty-discussion"
	}
	return ""
}
