package xcodec

import (
	"strconv"
	"strings"

	"github.com/paulmach/osm"
	"verif/harness/wire"
)

// ---- size-threshold cases: many items of one kind, transported as count + hash ----
//
// Item i of a big case has the key  BigKey(i) = (i*7919 + 13) mod 1000003 ; the observation is
// the number of items decoded and the rolling hash of their keys in order
//   h' = (h*1000003 + key + 1) mod 2147483647 ,
// recomputed inside Coq from n alone (Codec/Big.v).  Sizes sit just below / at / above the
// usual thresholds.

var BigSizesQuick = []int{12, 13, 16, 17, 32, 33, 2048, 4097, 8176, 8177, 32000, 32001}
var BigSizesThorough = []int{12, 13, 16, 17, 32, 33, 2048, 2049, 4096, 4097, 8176, 8177, 16385, 32000, 32001, 32768, 65536, 65537}

const (
	BigMembers    = 1 // <relation> with n members
	BigNds        = 2 // <way> with n nd
	BigTags       = 3 // <node> with n tags
	BigOSMNodes   = 4 // <osm> with n nodes
	BigCreateNods = 5 // osmChange with one create block of n nodes
	BigOldNodes   = 6 // diff with one modify action whose old block has n nodes
	BigKinds      = 6
)

func BigKey(i int) int64 { return (int64(i)*7919 + 13) % 1000003 }

func BigHash(keys []int64) int64 {
	h := int64(0)
	for _, k := range keys {
		h = (h*1000003 + k + 1) % 2147483647
	}
	return h
}

// BigValue builds the value with n items for the marshalling direction (C04).
func BigValue(kind, n int) (string, interface{}) {
	switch kind {
	case BigMembers:
		r := &osm.Relation{ID: 1, Visible: true}
		for i := 0; i < n; i++ {
			r.Members = append(r.Members, osm.Member{Type: osm.TypeNode, Ref: BigKey(i)})
		}
		return "Relation", r
	case BigNds:
		w := &osm.Way{ID: 1, Visible: true}
		for i := 0; i < n; i++ {
			w.Nodes = append(w.Nodes, osm.WayNode{ID: osm.NodeID(BigKey(i))})
		}
		return "Way", w
	case BigTags:
		nd := &osm.Node{ID: 1, Visible: true}
		for i := 0; i < n; i++ {
			nd.Tags = append(nd.Tags, osm.Tag{Key: "k" + strconv.Itoa(i), Value: strconv.FormatInt(BigKey(i), 10)})
		}
		return "Node", nd
	}
	o := &osm.OSM{}
	for i := 0; i < n; i++ {
		o.Nodes = append(o.Nodes, &osm.Node{ID: osm.NodeID(BigKey(i)), Version: 1 + i%3, Visible: true})
	}
	switch kind {
	case BigOSMNodes:
		return "OSM", o
	case BigCreateNods:
		return "Change", &osm.Change{Create: o}
	}
	return "Diff", &osm.Diff{Actions: osm.Actions{{Type: osm.ActionModify, Old: o, New: &osm.OSM{}}}}
}

// BigDocument writes the document with n items by hand (C03 direction).
func BigDocument(kind, n int) (string, []byte) {
	var b strings.Builder
	nodes := func() {
		for i := 0; i < n; i++ {
			b.WriteString(`<node id="` + strconv.FormatInt(BigKey(i), 10) + `" version="` + strconv.Itoa(1+i%3) + `" visible="true"/>`)
			if i%1000 == 0 {
				b.WriteString("\n")
			}
		}
	}
	switch kind {
	case BigMembers:
		b.WriteString(`<relation id="1" visible="true">`)
		for i := 0; i < n; i++ {
			b.WriteString(`<member type="node" ref="` + strconv.FormatInt(BigKey(i), 10) + `" role=""/>`)
		}
		b.WriteString(`<tag k="after" v="members"/></relation>`)
		return "Relation", []byte(b.String())
	case BigNds:
		b.WriteString(`<way id="1" visible="true">`)
		for i := 0; i < n; i++ {
			b.WriteString(`<nd ref="` + strconv.FormatInt(BigKey(i), 10) + `"/>`)
		}
		b.WriteString(`</way>`)
		return "Way", []byte(b.String())
	case BigTags:
		b.WriteString(`<node id="1" visible="true">`)
		for i := 0; i < n; i++ {
			b.WriteString(`<tag k="k` + strconv.Itoa(i) + `" v="` + strconv.FormatInt(BigKey(i), 10) + `"/>`)
		}
		b.WriteString(`</node>`)
		return "Node", []byte(b.String())
	case BigOSMNodes:
		b.WriteString(`<osm version="0.6">`)
		nodes()
		b.WriteString(`</osm>`)
		return "OSM", []byte(b.String())
	case BigCreateNods:
		b.WriteString(`<osmChange version="0.6"><create>`)
		nodes()
		b.WriteString(`</create></osmChange>`)
		return "Change", []byte(b.String())
	}
	b.WriteString(`<osm><action type="modify"><old>`)
	nodes()
	b.WriteString(`</old><new></new></action></osm>`)
	return "Diff", []byte(b.String())
}

func nodeKeys(ns osm.Nodes) []int64 {
	var out []int64
	for _, n := range ns {
		if n == nil {
			out = append(out, -1)
			continue
		}
		// the version takes part so that an overwritten (reused) node shows
		out = append(out, int64(n.ID))
	}
	return out
}

// BigKeys extracts the item keys from a decoded value of the kind.
func BigKeys(kind int, v interface{}) []int64 {
	var out []int64
	switch x := v.(type) {
	case *osm.Relation:
		for _, m := range x.Members {
			out = append(out, m.Ref)
		}
	case *osm.Way:
		for _, wn := range x.Nodes {
			out = append(out, int64(wn.ID))
		}
	case *osm.Node:
		if kind == BigTags {
			for _, t := range x.Tags {
				k, err := strconv.ParseInt(t.Value, 10, 64)
				if err != nil {
					k = -1
				}
				out = append(out, k)
			}
		} else {
			out = append(out, int64(x.ID))
		}
	case *osm.OSM:
		if x != nil {
			out = nodeKeys(x.Nodes)
		}
	case *osm.Change:
		if x.Create != nil {
			out = nodeKeys(x.Create.Nodes)
		}
	case *osm.Diff:
		if len(x.Actions) == 1 && x.Actions[0].Old != nil {
			out = nodeKeys(x.Actions[0].Old.Nodes)
		}
	}
	return out
}

// BigScanKeys extracts the item keys from the scanner's objects.
func BigScanKeys(kind int, objs []osm.Object) []int64 {
	var out []int64
	for _, o := range objs {
		switch kind {
		case BigMembers, BigNds, BigTags:
			out = append(out, BigKeys(kind, o)...)
		default:
			if n, ok := o.(*osm.Node); ok {
				out = append(out, int64(n.ID))
			} else {
				out = append(out, -2)
			}
		}
	}
	return out
}

// EmitBig appends a big case: "BIG" kind n | decode_ok count hash | scan_ok count hash.
func EmitBig(c *wire.Case, kind, n int, uok bool, keys []int64, sok bool, skeys []int64) {
	c.Str("BIG").Int(int64(kind)).Int(int64(n))
	c.Bool(uok).Int(int64(len(keys))).Int(BigHash(keys))
	c.Bool(sok).Int(int64(len(skeys))).Int(BigHash(skeys))
}

// BigExpected returns the keys written.
func BigExpected(n int) []int64 {
	out := make([]int64, n)
	for i := range out {
		out[i] = BigKey(i)
	}
	return out
}
