package xcodec

import (
	"fmt"
	"math/rand"
	"strconv"
	"strings"
	"time"
)

// ---- noise at tree level: unknown attributes and elements, order of children ----

var unknownAttrs = []string{"zzattr", "x-extra", "Q1", "data-src", "xid", "lat2", "_k"}

// unknown element names, among them names that only a Unicode case mapping would turn into
// an object kind (U+0130, U+212A)
var unknownElems = []string{"zzfoo", "x-extra", "Unknown1", "q_el", "remark", "meta2", "center", "relat\u0130on", "\u212Aey", "n\u00F8de"}

func noiseElem(r *rand.Rand, depth int) *XNode {
	n := &XNode{Name: unknownElems[r.Intn(len(unknownElems))], Extra: true, Leaf: true}
	for i := r.Intn(3); i > 0; i-- {
		n.Attrs = append(n.Attrs, XAttr{unknownAttrs[r.Intn(len(unknownAttrs))] + strconv.Itoa(i), S(stringPool[r.Intn(len(stringPool))])})
	}
	if r.Intn(2) == 0 {
		n.Text = S(stringPool[r.Intn(len(stringPool))])
	}
	if depth > 0 {
		for i := r.Intn(3); i > 0; i-- {
			n.Kids = append(n.Kids, noiseElem(r, depth-1))
		}
	}
	return n
}

// stableShuffle merges the children in a random order that keeps the relative order of
// children with the same name (decoders accumulate per name).
func stableShuffle(r *rand.Rand, kids []*XNode) []*XNode {
	groups := map[string][]*XNode{}
	var names []string
	for _, k := range kids {
		if _, ok := groups[k.Name]; !ok {
			names = append(names, k.Name)
		}
		groups[k.Name] = append(groups[k.Name], k)
	}
	out := make([]*XNode, 0, len(kids))
	for len(out) < len(kids) {
		// pick a group with probability proportional to its remaining size
		x := r.Intn(len(kids) - len(out))
		for _, nm := range names {
			if x < len(groups[nm]) {
				out = append(out, groups[nm][0])
				groups[nm] = groups[nm][1:]
				break
			}
			x -= len(groups[nm])
		}
	}
	return out
}

// Noise controls AddNoise.
type Noise struct {
	R       *rand.Rand
	Attrs   bool // unknown attributes, attribute order
	Elems   bool // unknown elements
	Shuffle bool // order of children (stable per name)
	Count   func(string)
}

func (nz *Noise) count(k string) {
	if nz.Count != nil {
		nz.Count(k)
	}
}

// Apply rewrites the tree in place (below a diff action nothing is reordered: the action
// decoder keeps the last created element).
func (nz *Noise) Apply(n *XNode) {
	r := nz.R
	if n.Extra {
		return
	}
	if nz.Attrs {
		if r.Intn(3) == 0 {
			for i := 1 + r.Intn(2); i > 0; i-- {
				n.Attrs = append(n.Attrs, XAttr{unknownAttrs[r.Intn(len(unknownAttrs))] + strconv.Itoa(i), S(stringPool[r.Intn(len(stringPool))])})
				nz.count("noise:unknown-attr")
			}
		}
		if len(n.Attrs) > 1 && r.Intn(2) == 0 {
			r.Shuffle(len(n.Attrs), func(i, j int) { n.Attrs[i], n.Attrs[j] = n.Attrs[j], n.Attrs[i] })
			nz.count("noise:attr-order")
		}
	}
	for _, k := range n.Kids {
		nz.Apply(k)
	}
	if nz.Shuffle && n.Name != "action" && len(n.Kids) > 1 && r.Intn(2) == 0 {
		n.Kids = stableShuffle(r, n.Kids)
		nz.count("noise:child-order")
	}
	if nz.Elems && r.Intn(4) == 0 {
		for i := 1 + r.Intn(2); i > 0; i-- {
			pos := r.Intn(len(n.Kids) + 1)
			e := noiseElem(r, 2)
			n.Kids = append(n.Kids[:pos], append([]*XNode{e}, n.Kids[pos:]...)...)
			nz.count("noise:unknown-elem")
		}
	}
}

// ---- text level: the independent XML writer ----

// Layout controls Render.
type Layout struct {
	R     *rand.Rand
	Plain bool // canonical layout (no whitespace, comments, variants)
	Count func(string)
	// NS: 0 no namespace; 1 default namespace declared on the root; 2 every known element
	// carries the prefix declared on the root.  The tree handed to the model keeps local names;
	// the declaration is an attribute of the root there (ApplyNS).
	NS     int
	prefix string
}

// NSURL is the namespace used by the namespace layouts.
const NSURL = "http://openstreetmap.org/osm/0.6"

// ApplyNS records the namespace declaration on the root of the tree as encoding/xml reports
// it: attribute xmlns (default namespace) or an attribute whose local name is the prefix.
func (l *Layout) ApplyNS(root *XNode) {
	switch l.NS {
	case 1:
		root.Attrs = append(root.Attrs, XAttr{"xmlns", S(NSURL)})
	case 2:
		l.prefix = "osmns"
		root.Attrs = append(root.Attrs, XAttr{l.prefix, S(NSURL)})
	}
}

func (l *Layout) elemName(n *XNode) string {
	if l.NS == 2 && !n.Extra {
		return l.prefix + ":" + n.Name
	}
	return n.Name
}

func (l *Layout) attrName(n *XNode, root bool, a XAttr) string {
	if root && l.NS == 2 && a.Name == l.prefix {
		return "xmlns:" + a.Name
	}
	return a.Name
}

func (l *Layout) count(k string) {
	if l.Count != nil && !l.Plain {
		l.Count(k)
	}
}

func (l *Layout) coin(n int) bool { return !l.Plain && l.R.Intn(n) == 0 }

func (l *Layout) escape(s string, attrQuote byte) string {
	var b strings.Builder
	for _, c := range s {
		switch {
		case c == '<':
			b.WriteString([]string{"&lt;", "&#60;", "&#x3C;"}[l.pick(3)])
		case c == '&':
			b.WriteString([]string{"&amp;", "&#38;", "&#x26;"}[l.pick(3)])
		case c == '>':
			// "]]>" must not appear literally in text; always escaping '>' is the simple safe rule
			b.WriteString([]string{"&gt;", "&#62;"}[l.pick(2)])
		case c == '"' && (attrQuote == '"' || l.coin(2)):
			b.WriteString([]string{"&quot;", "&#34;"}[l.pick(2)])
		case c == '\'' && (attrQuote == '\'' || l.coin(2)):
			b.WriteString([]string{"&apos;", "&#39;"}[l.pick(2)])
		case c == '\r':
			b.WriteString("&#13;")
		case (c == '\n' || c == '\t') && attrQuote != 0:
			b.WriteString(fmt.Sprintf("&#%d;", c))
		case c > 127 && l.coin(4):
			b.WriteString(fmt.Sprintf("&#x%X;", c))
			l.count("layout:charref")
		default:
			b.WriteRune(c)
		}
	}
	return b.String()
}

func (l *Layout) pick(n int) int {
	if l.Plain {
		return 0
	}
	return l.R.Intn(n)
}

func (l *Layout) pad(s string) string {
	if l.coin(4) {
		l.count("layout:padded-number")
		return " " + s + []string{" ", "\n", ""}[l.R.Intn(3)]
	}
	return s
}

// Lexical renders an atom in one of the lexical forms the format's readers accept.
func (l *Layout) Lexical(a Atom) string {
	switch a.Kind {
	case AStr:
		return a.S
	case AInt:
		s := strconv.FormatInt(a.I, 10)
		if a.I >= 0 && l.coin(6) {
			s = []string{"+", "0", "00"}[l.R.Intn(3)] + s
			l.count("layout:int-variant")
		}
		return l.pad(s)
	case AFloat:
		s := strconv.FormatFloat(a.F, 'g', -1, 64)
		switch l.pick(5) {
		case 1:
			// fixed notation with trailing zeros, never fewer digits than the value needs
			s = strconv.FormatFloat(a.F, 'f', 7, 64)
			if back, err := strconv.ParseFloat(s, 64); err != nil || back != a.F {
				s = strconv.FormatFloat(a.F, 'f', -1, 64)
				if strings.Contains(s, ".") {
					s += "00"
				} else {
					s += ".0"
				}
			}
			l.count("layout:float-variant")
		case 2:
			s = strconv.FormatFloat(a.F, 'e', -1, 64)
			l.count("layout:float-variant")
		}
		return l.pad(s)
	case ABool:
		t := []string{"true", "1", "t", "T", "TRUE", "True"}
		f := []string{"false", "0", "f", "F", "FALSE", "False"}
		i := l.pick(len(t))
		if a.B {
			return l.pad(t[i])
		}
		return l.pad(f[i])
	case ATime:
		t := a.T.UTC()
		if t.Year() > 1900 && t.Year() < 2200 && l.coin(3) {
			l.count("layout:time-offset")
			off := []int{0, 3600, -5 * 3600, 5*3600 + 1800}[l.R.Intn(4)]
			return t.In(time.FixedZone("", off)).Format(time.RFC3339Nano)
		}
		return t.Format(time.RFC3339Nano)
	case ADate:
		return a.T.UTC().Format(DateLayout)
	}
	panic("atom")
}

func (l *Layout) ws() string {
	if l.Plain {
		return ""
	}
	return []string{"", "", "\n", "\n  ", " ", "\t", "\r\n"}[l.R.Intn(7)]
}

func (l *Layout) misc() string {
	if l.coin(8) {
		l.count("layout:comment")
		return []string{"<!-- a comment -->", "<!--<node id=\"1\"/>-->", "<?pi x?>"}[l.R.Intn(3)]
	}
	return ""
}

func isTextElem(n *XNode) bool {
	return n.Leaf || !(n.Text.Kind == AStr && n.Text.S == "")
}

func (l *Layout) node(b *strings.Builder, n *XNode) { l.nodeR(b, n, false) }

func (l *Layout) nodeR(b *strings.Builder, n *XNode, root bool) {
	b.WriteString("<" + l.elemName(n))
	for _, a := range n.Attrs {
		q := byte('"')
		if l.coin(3) {
			q = '\''
		}
		sp := " "
		if l.coin(5) {
			sp = []string{"  ", "\n", "\t"}[l.R.Intn(3)]
		}
		eq := "="
		if l.coin(8) {
			eq = " = "
		}
		b.WriteString(sp + l.attrName(n, root, a) + eq + string(q) + l.escape(l.Lexical(a.Val), q) + string(q))
	}
	if l.coin(6) {
		b.WriteString(" ")
	}
	text := isTextElem(n)
	if !text && len(n.Kids) == 0 && !(l.Plain) && l.R.Intn(2) == 0 {
		l.count("layout:self-closing")
		b.WriteString("/>")
		return
	}
	b.WriteString(">")
	if text {
		s := l.Lexical(n.Text)
		if n.Text.Kind == AStr && !strings.Contains(s, "]]>") && !strings.Contains(s, "\r") && l.coin(4) {
			l.count("layout:cdata")
			b.WriteString("<![CDATA[" + s + "]]>")
		} else if len(n.Kids) > 0 || l.coin(5) {
			// split the text around comments / nested unknown elements
			cut := 0
			if len(s) > 0 {
				cut = l.R.Intn(len(s) + 1)
				for cut < len(s) && !utf8Start(s[cut]) {
					cut++
				}
			}
			b.WriteString(l.escape(s[:cut], 0))
			for _, k := range n.Kids {
				l.node(b, k)
			}
			if len(n.Kids) == 0 {
				b.WriteString("<!--split-->")
				l.count("layout:comment")
			}
			b.WriteString(l.escape(s[cut:], 0))
		} else {
			b.WriteString(l.escape(s, 0))
		}
	} else {
		for _, k := range n.Kids {
			b.WriteString(l.ws() + l.misc())
			l.node(b, k)
		}
		b.WriteString(l.ws() + l.misc())
	}
	b.WriteString("</" + l.elemName(n))
	if l.coin(8) {
		b.WriteString(" ")
	}
	b.WriteString(">")
}

func utf8Start(c byte) bool { return c&0xC0 != 0x80 }

// Render writes the document.
func (l *Layout) Render(root *XNode) []byte {
	var b strings.Builder
	if l.coin(2) {
		b.WriteString([]string{"<?xml version=\"1.0\" encoding=\"UTF-8\"?>\n", "<?xml version='1.0'?>"}[l.R.Intn(2)])
		l.count("layout:xml-decl")
	}
	b.WriteString(l.misc())
	l.nodeR(&b, root, true)
	b.WriteString(l.ws())
	return []byte(b.String())
}
