package pbfgen

// Size classes of ELEMENT MESSAGES (wave 8): one message of each element kind whose serialized
// length sits just below / just above a threshold where the length prefix grows (128 = 2 bytes,
// 16384 = 3 bytes, 2097152 = 4 bytes), followed by small elements of every kind, so that a decoder
// that mis-skips or mis-frames the big message loses or corrupts what follows.  To be scanned under
// every combination of skip flags.

// SizedFile: kind 'd' (DenseNodes), 'w' (Way), 'r' (Relation); the big message of that kind is
// padded to the first size >= target ("above") or the last size < target ("below").
func SizedFile(kind byte, target int, above bool) *FileDesc {
	mk := func(n int) *FileDesc {
		b := &Block{Strings: []string{""}}
		k, v := b.Sid("k"), b.Sid("v")
		var big Item
		switch kind {
		case 'd':
			dn := &Dense{}
			for i := 0; i < n; i++ {
				dn.Nodes = append(dn.Nodes, DenseNode{ID: int64(10 + i), Lat: int64(i%7) * 1000, Lon: -int64(i%5) * 1000, Info: Info{Visible: true}})
			}
			big = Item{Dense: dn}
		case 'w':
			w := &Way{ID: 10, Info: Info{Visible: true}, Refs: []int64{1, 2, 3}}
			for i := 0; i < n; i++ {
				w.Tags = append(w.Tags, Tag{k, v})
			}
			big = Item{Way: w}
		default:
			r := &Relation{ID: 10, Info: Info{Visible: true}, Members: []Member{{Type: 1, Ref: 10, RoleSid: int32(k)}}}
			for i := 0; i < n; i++ {
				r.Tags = append(r.Tags, Tag{k, v})
			}
			big = Item{Relation: r}
		}
		small := func(id int64) []Item {
			return []Item{
				{Way: &Way{ID: id, Refs: []int64{id, id + 1}, Info: Info{Visible: true}, Tags: []Tag{{k, v}}}},
				{Relation: &Relation{ID: id, Info: Info{Visible: true}, Members: []Member{{Type: 0, Ref: id, RoleSid: 0}}}},
				{Dense: &Dense{Nodes: []DenseNode{{ID: id, Lat: 1, Lon: 2, Info: Info{Visible: true}}, {ID: id + 1, Lat: 3, Lon: 4, Info: Info{Visible: true}}}}},
			}
		}
		// group 1: small elements, the big message, small elements; group 2 and a second block: small elements
		items := append(small(1), big)
		items = append(items, small(3)...)
		b.Groups = []*Group{{Items: items}, {Items: small(5)}}
		b2 := &Block{Strings: []string{""}}
		b2.Sid("k")
		b2.Sid("v")
		b2.Groups = []*Group{{Items: small(7)}}
		return &FileDesc{Header: stdHeader(), Blocks: []*Block{b, b2}}
	}
	size := func(n int) int {
		d := mk(n)
		for _, f := range BlockTree(d.Blocks[0]) {
			if f.Num != 2 {
				continue
			}
			for _, it := range f.Msg {
				if l := len(Serialize(it.Msg)); l > 100 || n == 0 {
					if (kind == 'd' && it.Num == 2) || (kind == 'w' && it.Num == 3) || (kind == 'r' && it.Num == 4) {
						if l >= 60 {
							return l
						}
					}
				}
			}
			break
		}
		return 0
	}
	// smallest n with size(n) >= target
	lo, hi := 1, 1
	for size(hi) < target {
		hi *= 2
	}
	for lo < hi {
		m := (lo + hi) / 2
		if size(m) >= target {
			hi = m
		} else {
			lo = m + 1
		}
	}
	if !above {
		lo--
	}
	return mk(lo)
}
