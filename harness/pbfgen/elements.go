package pbfgen

import (
	"fmt"
	"math"
	"unicode/utf8"
)

// Element is the meaning of one encoded node/way/relation as the PBF format defines
// it (osmformat.proto): written from the format description, never by calling a decoder.
type Element struct {
	Kind  string `json:"kind"` // "node", "way", "relation"
	Block int    `json:"block"`
	Group int    `json:"group"`
	Item  int    `json:"item"` // index of the item in the group (a Dense item yields many elements)

	ID int64 `json:"id"`
	// Nodes: coordinates in integer nanodegrees = lat_offset + granularity*raw.
	// degrees = 1e-9 * nanodegrees.
	LatNano int64 `json:"lat_nano,omitempty"`
	LonNano int64 `json:"lon_nano,omitempty"`

	// Metadata; format defaults when the field/column/Info is absent:
	// version 0, no timestamp, changeset 0, uid 0, user "", visible true.
	Version      int64  `json:"version"`
	HasTimestamp bool   `json:"has_timestamp"`
	TimestampMs  int64  `json:"timestamp_ms"` // milliseconds since the epoch = raw*date_granularity
	Changeset    int64  `json:"changeset"`
	UID          int64  `json:"uid"`
	User         string `json:"user"`
	Visible      bool   `json:"visible"`

	Tags    []KV      `json:"tags,omitempty"`
	Nodes   []ENode   `json:"nodes,omitempty"`   // ways
	Members []EMember `json:"members,omitempty"` // relations
}

type KV struct{ K, V string }

// ENode is a way node; LatNano/LonNano are 0 unless the way carries locations.
type ENode struct {
	ID      int64 `json:"id"`
	LatNano int64 `json:"lat_nano,omitempty"`
	LonNano int64 `json:"lon_nano,omitempty"`
}

// EMember: Type is "node", "way", "relation" (or "" for an undefined enum value).
type EMember struct {
	Type string `json:"type"`
	Ref  int64  `json:"ref"`
	Role string `json:"role"`
}

func (b *Block) str(i int64) string { return b.Strings[i] }

func (b *Block) meta(e *Element, present bool, fl InfoFields, in Info) {
	e.Visible = true
	if !present {
		return
	}
	if fl.Version {
		e.Version = int64(in.Version)
	}
	if fl.Timestamp {
		e.HasTimestamp = true
		e.TimestampMs = in.Timestamp * b.DateGran()
	}
	if fl.Changeset {
		e.Changeset = in.Changeset
	}
	if fl.UID {
		e.UID = int64(in.UID)
	}
	if fl.UserSid {
		e.User = b.str(int64(in.UserSid))
	}
	if fl.Visible {
		e.Visible = in.Visible
	}
}

func (b *Block) tags(ts []Tag) []KV {
	var out []KV
	for _, t := range ts {
		out = append(out, KV{b.str(int64(t.K)), b.str(int64(t.V))})
	}
	return out
}

var memberTypes = map[int32]string{0: "node", 1: "way", 2: "relation"}

// BlockElements is the meaning of one block (bi is only recorded in the result).
// The description must be valid (see Validate); plain nodes and changesets yield nothing
// here (plain nodes are not supported by the decoder under test; see Validate).
func BlockElements(b *Block, bi int) []Element {
	var out []Element
	for gi, g := range b.Groups {
		for ii := range g.Items {
			it := &g.Items[ii]
			switch {
			case it.Dense != nil:
				d := it.Dense
				for _, n := range d.Nodes {
					e := Element{Kind: "node", Block: bi, Group: gi, Item: ii, ID: n.ID}
					e.LatNano = b.LatOff() + b.Gran()*n.Lat
					e.LonNano = b.LonOff() + b.Gran()*n.Lon
					b.meta(&e, d.HasInfo, d.Cols, n.Info)
					if d.HasKeysVals {
						e.Tags = b.tags(n.Tags)
					}
					out = append(out, e)
				}
			case it.Way != nil:
				w := it.Way
				e := Element{Kind: "way", Block: bi, Group: gi, Item: ii, ID: w.ID}
				b.meta(&e, w.HasInfo, w.Fields, w.Info)
				e.Tags = b.tags(w.Tags)
				for i, r := range w.Refs {
					en := ENode{ID: r}
					if w.HasLocs {
						en.LatNano = b.LatOff() + b.Gran()*w.Lats[i]
						en.LonNano = b.LonOff() + b.Gran()*w.Lons[i]
					}
					e.Nodes = append(e.Nodes, en)
				}
				out = append(out, e)
			case it.Relation != nil:
				r := it.Relation
				e := Element{Kind: "relation", Block: bi, Group: gi, Item: ii, ID: r.ID}
				b.meta(&e, r.HasInfo, r.Fields, r.Info)
				e.Tags = b.tags(r.Tags)
				for _, m := range r.Members {
					e.Members = append(e.Members, EMember{Type: memberTypes[m.Type], Ref: m.Ref, Role: b.str(int64(m.RoleSid))})
				}
				out = append(out, e)
			}
		}
	}
	return out
}

// Elements is the meaning of the whole file: the elements of all blocks in file order.
func Elements(d *FileDesc) []Element {
	var out []Element
	for bi, b := range d.Blocks {
		out = append(out, BlockElements(b, bi)...)
	}
	return out
}

// MaxCoordNano bounds |coordinate| so that the float64 the format formula gives
// (1e-9 * float64(n)) is within 1e-10 degrees of the exact value: 4e14 nanodegrees
// (= 400000 degrees; real coordinates are below 1.8e11).
const MaxCoordNano = int64(400000000000000)

// MaxTimestampMs bounds |timestamp| in milliseconds so that nanoseconds fit int64.
const MaxTimestampMs = int64(math.MaxInt64 / 1000000)

func mulOK(a, b int64) (int64, bool) {
	if a == 0 || b == 0 {
		return 0, true
	}
	c := a * b
	if c/b != a || (a == -1 && b == math.MinInt64) || (b == -1 && a == math.MinInt64) {
		return 0, false
	}
	return c, true
}

func addOK(a, b int64) (int64, bool) {
	c := a + b
	if (c > a) == (b > 0) {
		return c, true
	}
	return 0, b == 0
}

func abs64(a int64) int64 {
	if a < 0 {
		return -a
	}
	return a
}

// Validate says whether d is a *valid* OSM PBF description: the domain over which the
// faithfulness property (C01) is stated.  Damage hooks, plain nodes, out-of-range
// indices, unequal column lengths make it invalid.
func Validate(d *FileDesc) error { return validate(d, false) }

// ValidateFormat is Validate with respect to the FORMAT alone: plain (non-dense) Node items are
// allowed (the decoder under test answers them with an error: known finding "plain-node-group").
func ValidateFormat(d *FileDesc) error { return validate(d, true) }

// HasPlainNodes: some PrimitiveGroup of the file carries field 1 (`nodes`).
func HasPlainNodes(d *FileDesc) bool {
	for _, b := range d.Blocks {
		for _, g := range b.Groups {
			for _, it := range g.Items {
				if it.Node != nil {
					return true
				}
			}
		}
	}
	return false
}

func validate(d *FileDesc, plainOK bool) error {
	if h := d.Header; h != nil {
		if h.Damage != nil {
			return fmt.Errorf("header: damage")
		}
		for _, s := range append(append([]string{h.Program, h.Source, h.ReplURL}, h.Required...), h.Optional...) {
			if !utf8.ValidString(s) {
				return fmt.Errorf("header: invalid UTF-8")
			}
		}
	}
	for bi, b := range d.Blocks {
		if err := validateBlock(b, plainOK); err != nil {
			return fmt.Errorf("block %d: %v", bi, err)
		}
	}
	return nil
}

func ValidateBlock(b *Block) error { return validateBlock(b, false) }

func validateBlock(b *Block, plainOK bool) error {
	if b.Damage != nil {
		return fmt.Errorf("damage")
	}
	if b.OmitStringTable && len(b.Strings) > 0 {
		return fmt.Errorf("strings without table")
	}
	if len(b.Strings) > 0 && b.Strings[0] != "" {
		return fmt.Errorf("string 0 not blank")
	}
	for _, s := range b.Strings {
		if !utf8.ValidString(s) {
			return fmt.Errorf("invalid UTF-8 string")
		}
	}
	ns := int64(len(b.Strings))
	sidOK := func(i int64) bool { return i >= 0 && i < ns }
	coordOK := func(off, raw int64) bool {
		p, ok := mulOK(b.Gran(), raw)
		if !ok {
			return false
		}
		s, ok := addOK(off, p)
		return ok && abs64(s) <= MaxCoordNano
	}
	infoOK := func(present bool, fl InfoFields, in Info) error {
		if !present {
			return nil
		}
		if fl.UserSid && !sidOK(int64(in.UserSid)) {
			return fmt.Errorf("user_sid %d out of range", in.UserSid)
		}
		if fl.UserSid && in.UserSid > math.MaxInt32 {
			return fmt.Errorf("user_sid too large")
		}
		if fl.Timestamp {
			p, ok := mulOK(in.Timestamp, b.DateGran())
			if !ok || abs64(p) > MaxTimestampMs {
				return fmt.Errorf("timestamp out of range")
			}
		}
		return nil
	}
	tagsOK := func(ts []Tag, nonzero bool) error {
		for _, t := range ts {
			if !sidOK(int64(t.K)) || !sidOK(int64(t.V)) {
				return fmt.Errorf("tag index out of range")
			}
			if nonzero && t.K == 0 { // a VALUE index 0 (the empty string) is fine: only a key 0 ends the node's list
				return fmt.Errorf("dense tag key uses index 0 (the delimiter)")
			}
		}
		return nil
	}
	for gi, g := range b.Groups {
		for ii := range g.Items {
			it := &g.Items[ii]
			where := fmt.Sprintf("group %d item %d: ", gi, ii)
			switch {
			case it.Node != nil:
				if !plainOK {
					return fmt.Errorf(where + "plain node (not supported by the decoder)")
				}
				n := it.Node
				if !coordOK(b.LatOff(), n.Lat) || !coordOK(b.LonOff(), n.Lon) {
					return fmt.Errorf(where + "coordinate out of range")
				}
				if err := infoOK(n.HasInfo, n.Fields, n.Info); err != nil {
					return fmt.Errorf(where+"%v", err)
				}
				if err := tagsOK(n.Tags, false); err != nil {
					return fmt.Errorf(where+"%v", err)
				}
			case it.Dense != nil:
				d := it.Dense
				if d.OmitIDs || d.OmitLats || d.OmitLons || len(d.Trim) > 0 {
					return fmt.Errorf(where + "damaged dense group")
				}
				for _, n := range d.Nodes {
					if err := infoOK(d.HasInfo, d.Cols, n.Info); err != nil {
						return fmt.Errorf(where+"%v", err)
					}
					if !d.HasKeysVals && len(n.Tags) > 0 {
						return fmt.Errorf(where + "tags without keys_vals")
					}
					if err := tagsOK(n.Tags, true); err != nil {
						return fmt.Errorf(where+"%v", err)
					}
					if !coordOK(b.LatOff(), n.Lat) || !coordOK(b.LonOff(), n.Lon) {
						return fmt.Errorf(where + "coordinate out of range")
					}
				}
			case it.Way != nil:
				w := it.Way
				if len(w.Trim) > 0 {
					return fmt.Errorf(where + "damaged way")
				}
				if err := infoOK(w.HasInfo, w.Fields, w.Info); err != nil {
					return fmt.Errorf(where+"%v", err)
				}
				if err := tagsOK(w.Tags, false); err != nil {
					return fmt.Errorf(where+"%v", err)
				}
				if w.HasLocs {
					if len(w.Lats) != len(w.Refs) || len(w.Lons) != len(w.Refs) {
						return fmt.Errorf(where + "refs/lat/lon lengths differ")
					}
					for i := range w.Refs {
						if !coordOK(b.LatOff(), w.Lats[i]) || !coordOK(b.LonOff(), w.Lons[i]) {
							return fmt.Errorf(where + "coordinate out of range")
						}
					}
				}
			case it.Relation != nil:
				r := it.Relation
				if len(r.Trim) > 0 {
					return fmt.Errorf(where + "damaged relation")
				}
				if err := infoOK(r.HasInfo, r.Fields, r.Info); err != nil {
					return fmt.Errorf(where+"%v", err)
				}
				if err := tagsOK(r.Tags, false); err != nil {
					return fmt.Errorf(where+"%v", err)
				}
				for _, m := range r.Members {
					if !sidOK(int64(m.RoleSid)) {
						return fmt.Errorf(where + "role index out of range")
					}
					// any int32 is a valid wire value for the member type; values outside
					// the enum 0..2 mean "a member without a known type" (Elements: Type "")
				}
			}
		}
	}
	return nil
}
