package pbfgen

import (
	"bytes"
	"compress/zlib"
	"encoding/binary"
	"math/rand"
)

func zig64(v int64) uint64 { return uint64(v<<1) ^ uint64(v>>63) }
func sx32(v int32) uint64  { return uint64(int64(v)) } // int32/enum fields are sign-extended varints
func b2u(b bool) uint64 {
	if b {
		return 1
	}
	return 0
}

func fv(n int32, v uint64) Field   { return Field{Num: n, Kind: KVarint, Var: v} }
func fp(n int32, p []uint64) Field { return Field{Num: n, Kind: KPacked, Packed: p} }
func fs(n int32, s []byte) Field   { return Field{Num: n, Kind: KBytes, Bytes: s} }
func fm(n int32, m []Field) Field  { return Field{Num: n, Kind: KMsg, Msg: m} }
func trim(col []uint64, n int) []uint64 {
	switch {
	case n > 0:
		if n > len(col) {
			n = len(col)
		}
		return col[:len(col)-n]
	case n < 0:
		for ; n < 0; n++ {
			col = append(col, 0)
		}
	}
	return col
}

// layouter applies a Layout to the fields of one message.
type layouter struct {
	l   Layout
	rng *rand.Rand
	n   int
}

func newLayouter(l Layout) *layouter {
	lo := &layouter{l: l}
	if l.Permute || l.Unknown {
		lo.rng = rand.New(rand.NewSource(l.Seed))
	}
	return lo
}

// unknown field numbers: none of them is used by any OSM PBF message.
var unknownNums = []int32{11, 12, 13, 14, 15, 25, 26, 99, 1000}

// apply lays out one message.  keepOrder (primitive groups) forbids permutation
// because there the order of the items is the order of the elements.
func (lo *layouter) apply(m []Field, keepOrder bool) []Field {
	if lo.l.SplitPacked {
		var out []Field
		for _, f := range m {
			if f.Kind == KPacked && len(f.Packed) >= 2 {
				h := len(f.Packed) / 2
				out = append(out, fp(f.Num, f.Packed[:h:h]), fp(f.Num, f.Packed[h:]))
			} else {
				out = append(out, f)
			}
		}
		m = out
	}
	if lo.l.FixedLast {
		defer func() { lo.n++ }()
		if lo.n%2 == 0 {
			m = append(m, Field{Num: 99, Kind: KFix64, Var: 0x0102030405060708})
		} else {
			m = append(m, Field{Num: 1000, Kind: KFix32, Var: 0x01020304})
		}
	}
	if lo.rng == nil {
		return m
	}
	if lo.l.Permute && !keepOrder && len(m) > 1 {
		nums := make([]int32, len(m))
		for i := range m {
			nums[i] = m[i].Num
		}
		lo.rng.Shuffle(len(nums), func(i, j int) { nums[i], nums[j] = nums[j], nums[i] })
		// slot k gets the next not-yet-placed field with number nums[k]
		used := make([]bool, len(m))
		out := make([]Field, 0, len(m))
		for _, n := range nums {
			for i := range m {
				if !used[i] && m[i].Num == n {
					used[i] = true
					out = append(out, m[i])
					break
				}
			}
		}
		m = out
	}
	if lo.l.Unknown {
		for k := lo.rng.Intn(3); k > 0; k-- {
			var f Field
			n := unknownNums[lo.rng.Intn(len(unknownNums))]
			switch lo.rng.Intn(5) {
			case 0:
				f = fv(n, uint64(lo.rng.Int63())>>uint(lo.rng.Intn(63)))
			case 1:
				s := make([]byte, lo.rng.Intn(6))
				lo.rng.Read(s)
				f = fs(n, s)
			case 2:
				f = Field{Num: n, Kind: KFix64, Var: lo.rng.Uint64()}
			case 3:
				f = Field{Num: n, Kind: KFix32, Var: uint64(lo.rng.Uint32())}
			default:
				f = fv(n, uint64(lo.rng.Intn(300)))
			}
			// fixed32/fixed64 unknown fields are included since fix 29230da in /repo (protoscan v0.2.1
			// Message.Skip reports io.ErrUnexpectedEOF for a fixed-width field that ends a message; the
			// decoder now skips those itself); the insertion position below may be the end of the message.
			at := lo.rng.Intn(len(m) + 1)
			m = append(m, Field{})
			copy(m[at+1:], m[at:])
			m[at] = f
		}
	}
	return m
}

// HeaderTree is the message tree of the HeaderBlock.
func HeaderTree(h *Header) []Field {
	lo := newLayouter(h.Layout)
	var m []Field
	if h.HasBBox {
		bb := []Field{fv(1, zig64(h.Left)), fv(2, zig64(h.Right)), fv(3, zig64(h.Top)), fv(4, zig64(h.Bottom))}
		m = append(m, fm(1, lo.apply(bb, false)))
	}
	for _, s := range h.Required {
		m = append(m, fs(4, []byte(s)))
	}
	for _, s := range h.Optional {
		m = append(m, fs(5, []byte(s)))
	}
	if h.HasProgram {
		m = append(m, fs(16, []byte(h.Program)))
	}
	if h.HasSource {
		m = append(m, fs(17, []byte(h.Source)))
	}
	if h.HasReplTimestamp {
		m = append(m, fv(32, uint64(h.ReplTimestamp)))
	}
	if h.HasReplSeq {
		m = append(m, fv(33, uint64(h.ReplSeq)))
	}
	if h.HasReplURL {
		m = append(m, fs(34, []byte(h.ReplURL)))
	}
	return lo.apply(m, false)
}

func tagCols(tags []Tag) (k, v []uint64) {
	for _, t := range tags {
		k = append(k, uint64(t.K))
		v = append(v, uint64(t.V))
	}
	return
}

func infoTree(lo *layouter, fl InfoFields, in Info) []Field {
	var m []Field
	if fl.Version {
		m = append(m, fv(1, sx32(in.Version)))
	}
	if fl.Timestamp {
		m = append(m, fv(2, uint64(in.Timestamp)))
	}
	if fl.Changeset {
		m = append(m, fv(3, uint64(in.Changeset)))
	}
	if fl.UID {
		m = append(m, fv(4, sx32(in.UID)))
	}
	if fl.UserSid {
		m = append(m, fv(5, uint64(in.UserSid)))
	}
	if fl.Visible {
		m = append(m, fv(6, b2u(in.Visible)))
	}
	return lo.apply(m, false)
}

func deltas64(vals []int64) []uint64 {
	out := make([]uint64, len(vals))
	var prev int64
	for i, v := range vals {
		out[i] = zig64(v - prev) // wraps like the reader's accumulator
		prev = v
	}
	return out
}

func deltas32(vals []int32) []uint64 {
	out := make([]uint64, len(vals))
	var prev int32
	for i, v := range vals {
		out[i] = zig64(int64(v - prev)) // int32 wrap, then sint32 zigzag (= zigzag64 of the sign-extended value)
		prev = v
	}
	return out
}

func denseTree(lo *layouter, d *Dense) []Field {
	n := len(d.Nodes)
	ids, lats, lons := make([]int64, n), make([]int64, n), make([]int64, n)
	ts, cs := make([]int64, n), make([]int64, n)
	uid, usid := make([]int32, n), make([]int32, n)
	var ver, vis, kv []uint64
	for i, nd := range d.Nodes {
		ids[i], lats[i], lons[i] = nd.ID, nd.Lat, nd.Lon
		ts[i], cs[i], uid[i], usid[i] = nd.Info.Timestamp, nd.Info.Changeset, nd.Info.UID, int32(nd.Info.UserSid)
		ver = append(ver, sx32(nd.Info.Version))
		vis = append(vis, b2u(nd.Info.Visible))
		for _, t := range nd.Tags {
			kv = append(kv, sx32(int32(t.K)), sx32(int32(t.V)))
		}
		kv = append(kv, 0)
	}
	var m []Field
	if d.OmitEmptyCols && n == 0 && !d.HasInfo && !d.HasKeysVals {
		return lo.apply(m, false)
	}
	if !d.OmitIDs {
		m = append(m, fp(1, trim(deltas64(ids), d.Trim["id"])))
	}
	if d.HasInfo {
		var im []Field
		if d.Cols.Version {
			im = append(im, fp(1, trim(ver, d.Trim["version"])))
		}
		if d.Cols.Timestamp {
			im = append(im, fp(2, trim(deltas64(ts), d.Trim["timestamp"])))
		}
		if d.Cols.Changeset {
			im = append(im, fp(3, trim(deltas64(cs), d.Trim["changeset"])))
		}
		if d.Cols.UID {
			im = append(im, fp(4, trim(deltas32(uid), d.Trim["uid"])))
		}
		if d.Cols.UserSid {
			im = append(im, fp(5, trim(deltas32(usid), d.Trim["user_sid"])))
		}
		if d.Cols.Visible {
			im = append(im, fp(6, trim(vis, d.Trim["visible"])))
		}
		m = append(m, fm(5, lo.apply(im, false)))
	}
	if !d.OmitLats {
		m = append(m, fp(8, trim(deltas64(lats), d.Trim["lat"])))
	}
	if !d.OmitLons {
		m = append(m, fp(9, trim(deltas64(lons), d.Trim["lon"])))
	}
	if d.HasKeysVals {
		m = append(m, fp(10, trim(kv, d.Trim["keys_vals"])))
	}
	return lo.apply(m, false)
}

func wayTree(lo *layouter, w *Way) []Field {
	m := []Field{fv(1, uint64(w.ID))}
	if len(w.Tags) > 0 || w.ForceTags {
		k, v := tagCols(w.Tags)
		m = append(m, fp(2, trim(k, w.Trim["keys"])), fp(3, trim(v, w.Trim["vals"])))
	}
	if w.HasInfo {
		m = append(m, fm(4, infoTree(lo, w.Fields, w.Info)))
	}
	if len(w.Refs) > 0 || w.ForceRefs {
		m = append(m, fp(8, trim(deltas64(w.Refs), w.Trim["refs"])))
	}
	if w.HasLocs {
		m = append(m, fp(9, trim(deltas64(w.Lats), w.Trim["lat"])), fp(10, trim(deltas64(w.Lons), w.Trim["lon"])))
	}
	return lo.apply(m, false)
}

func relationTree(lo *layouter, r *Relation) []Field {
	m := []Field{fv(1, uint64(r.ID))}
	if len(r.Tags) > 0 || r.ForceTags {
		k, v := tagCols(r.Tags)
		m = append(m, fp(2, trim(k, r.Trim["keys"])), fp(3, trim(v, r.Trim["vals"])))
	}
	if r.HasInfo {
		m = append(m, fm(4, infoTree(lo, r.Fields, r.Info)))
	}
	if len(r.Members) > 0 || r.ForceMembers {
		var roles, types []uint64
		refs := make([]int64, len(r.Members))
		for i, mb := range r.Members {
			roles = append(roles, sx32(mb.RoleSid))
			types = append(types, sx32(mb.Type))
			refs[i] = mb.Ref
		}
		m = append(m, fp(8, trim(roles, r.Trim["roles"])), fp(9, trim(deltas64(refs), r.Trim["memids"])), fp(10, trim(types, r.Trim["types"])))
	}
	return lo.apply(m, false)
}

func plainNodeTree(lo *layouter, n *PlainNode) []Field {
	m := []Field{fv(1, zig64(n.ID))}
	if len(n.Tags) > 0 {
		k, v := tagCols(n.Tags)
		m = append(m, fp(2, k), fp(3, v))
	}
	if n.HasInfo {
		m = append(m, fm(4, infoTree(lo, n.Fields, n.Info)))
	}
	m = append(m, fv(8, zig64(n.Lat)), fv(9, zig64(n.Lon)))
	return lo.apply(m, false)
}

// BlockTree is the message tree of a PrimitiveBlock (canonical order = ascending
// field numbers: string table, groups, then the block parameters — as protobuf
// serialisers emit them — unless the block's Layout says otherwise).
func BlockTree(b *Block) []Field {
	lo := newLayouter(b.Layout)
	var m []Field
	if !b.OmitStringTable {
		var st []Field
		for _, s := range b.Strings {
			st = append(st, fs(1, []byte(s)))
		}
		m = append(m, fm(1, st)) // the string table's own fields are never permuted (repeated, all number 1)
	}
	for _, g := range b.Groups {
		var gm []Field
		for i := range g.Items {
			it := &g.Items[i]
			switch {
			case it.Node != nil:
				gm = append(gm, fm(1, plainNodeTree(lo, it.Node)))
			case it.Dense != nil:
				gm = append(gm, fm(2, denseTree(lo, it.Dense)))
			case it.Way != nil:
				gm = append(gm, fm(3, wayTree(lo, it.Way)))
			case it.Relation != nil:
				gm = append(gm, fm(4, relationTree(lo, it.Relation)))
			case it.Changeset != nil:
				gm = append(gm, fm(5, []Field{fv(1, uint64(*it.Changeset))}))
			}
		}
		m = append(m, fm(2, lo.apply(gm, true)))
	}
	if b.Granularity != nil {
		m = append(m, fv(17, sx32(*b.Granularity)))
	}
	if b.DateGranularity != nil {
		m = append(m, fv(18, sx32(*b.DateGranularity)))
	}
	if b.LatOffset != nil {
		m = append(m, fv(19, uint64(*b.LatOffset)))
	}
	if b.LonOffset != nil {
		m = append(m, fv(20, uint64(*b.LonOffset)))
	}
	return lo.apply(m, false)
}

// Frame locates one segment of the encoded file.
type Frame struct {
	// Block is -1 for the header block, otherwise the index into FileDesc.Blocks.
	Block int `json:"block"`
	// Kind is "size" (4-byte big-endian prefix), "header" (BlobHeader) or "blob" (Blob).
	Kind string `json:"kind"`
	Off  int    `json:"off"`
	Len  int    `json:"len"`
}

func deflate(p []byte) []byte {
	var buf bytes.Buffer
	w := zlib.NewWriter(&buf)
	w.Write(p)
	w.Close()
	return buf.Bytes()
}

// BlobTrees returns the BlobHeader and Blob message trees for a payload.
func BlobTrees(typ string, payload []byte, o *BlobOpts) (header, blob []Field) {
	dmg := o.Damage
	if dmg == nil {
		dmg = &Damage{}
	}
	rawSize := int32(len(payload))
	if dmg.RawSize != nil {
		rawSize = *dmg.RawSize
	}
	switch {
	case dmg.EmptyBlob:
	case dmg.NoData:
		blob = []Field{fv(2, sx32(rawSize)), fs(4, payload)}
	case o.Zlib:
		z := deflate(payload)
		switch dmg.CorruptZlib {
		case 1: // checksum
			z[len(z)-1] ^= 0x55
		case 2: // a byte in the middle of the deflate stream
			z[2+(len(z)-6)/2] ^= 0xff
		case 3: // drop the tail (adler32 and the last byte of the stream)
			z = z[:len(z)-5]
		case 4: // bad zlib header
			z[0] = 0x79
		}
		blob = []Field{fv(2, sx32(rawSize)), fs(3, z)}
	default:
		blob = []Field{fs(1, payload)}
		if o.RawSizeOnRaw || dmg.RawSize != nil {
			blob = append(blob, fv(2, sx32(rawSize)))
		}
	}
	if dmg.BlobType != nil {
		typ = *dmg.BlobType
	}
	ds := int32(len(Serialize(blob)))
	if dmg.Datasize != nil {
		ds = *dmg.Datasize
	}
	header = []Field{fs(1, []byte(typ))}
	if len(o.IndexData) > 0 {
		header = append(header, fs(2, o.IndexData))
	}
	header = append(header, fv(3, sx32(ds)))
	return header, blob
}

// Encode writes the file and reports where every segment is.
func Encode(d *FileDesc) ([]byte, []Frame) {
	var out []byte
	var frames []Frame
	emit := func(idx int, typ string, payload []byte, o *BlobOpts) {
		h, b := BlobTrees(typ, payload, o)
		hb, bb := Serialize(h), Serialize(b)
		size := uint32(len(hb))
		if o.Damage != nil && o.Damage.SizePrefix != nil {
			size = *o.Damage.SizePrefix
		}
		var sz [4]byte
		binary.BigEndian.PutUint32(sz[:], size)
		frames = append(frames, Frame{idx, "size", len(out), 4})
		out = append(out, sz[:]...)
		frames = append(frames, Frame{idx, "header", len(out), len(hb)})
		out = append(out, hb...)
		frames = append(frames, Frame{idx, "blob", len(out), len(bb)})
		out = append(out, bb...)
	}
	if d.Header != nil {
		emit(-1, "OSMHeader", Serialize(HeaderTree(d.Header)), &d.Header.BlobOpts)
	}
	for i, b := range d.Blocks {
		emit(i, "OSMData", Serialize(BlockTree(b)), &b.BlobOpts)
	}
	return out, frames
}

// BlockStart returns the byte offset at which data block i starts (its size prefix),
// and BlockEnd the offset just after its blob.
func BlockStart(frames []Frame, i int) int {
	for _, f := range frames {
		if f.Block == i && f.Kind == "size" {
			return f.Off
		}
	}
	return -1
}
func BlockEnd(frames []Frame, i int) int {
	for _, f := range frames {
		if f.Block == i && f.Kind == "blob" {
			return f.Off + f.Len
		}
	}
	return -1
}
