// Package pbfgen is an independent OSM PBF writer used by the PBF harnesses
// (C01, C02, C06, C07, C08, C09).  It is built only on protowire + compress/zlib:
// nothing from /repo/osmpbf is imported, so what it writes and what it says the
// bytes mean (Elements) are independent of the decoder under test.
//
// The data model (FileDesc) is at the level of the PBF *format*: strings are
// string-table indices, coordinates are raw grid units, timestamps are in units
// of date_granularity.  Elements() gives the meaning of a description as the
// comments of osmformat.proto define it.
package pbfgen

// FileDesc describes a whole .osm.pbf file.
type FileDesc struct {
	// Header is the OSMHeader block; nil = the file starts directly with data
	// (as after a resume at a reported offset).
	Header *Header  `json:"header,omitempty"`
	Blocks []*Block `json:"blocks"`
}

// Blob-level settings shared by the header block and data blocks.
type BlobOpts struct {
	Zlib bool `json:"zlib,omitempty"` // zlib_data + raw_size, else raw
	// RawSizeOnRaw also writes raw_size next to an uncompressed blob (some writers do).
	RawSizeOnRaw bool   `json:"raw_size_on_raw,omitempty"`
	IndexData    []byte `json:"indexdata,omitempty"` // BlobHeader.indexdata (optional)
	// Layout of BlobHeader/Blob is always canonical; Layout below applies to the payload.
	Damage *Damage `json:"damage,omitempty"`
}

// Damage are the hooks for fault injection at the framing/blob layer.
// Every field is optional; a nil Damage writes a valid frame.
type Damage struct {
	SizePrefix *uint32 `json:"size_prefix,omitempty"` // override the 4-byte big-endian BlobHeader length
	Datasize   *int32  `json:"datasize,omitempty"`    // override BlobHeader.datasize
	RawSize    *int32  `json:"raw_size,omitempty"`    // override Blob.raw_size
	// CorruptZlib: 0 none, 1 flip the adler32 checksum, 2 flip a byte in the middle of the
	// deflate stream, 3 drop the last 5 bytes, 4 invalid zlib header byte.
	CorruptZlib int     `json:"corrupt_zlib,omitempty"`
	BlobType    *string `json:"blob_type,omitempty"` // override BlobHeader.type ("OSMData"/"OSMHeader")
	// NoData writes the payload into lzma_data (field 4): a blob with neither raw nor zlib_data.
	NoData bool `json:"no_data,omitempty"`
	// EmptyBlob writes a Blob message with no field at all.
	EmptyBlob bool `json:"empty_blob,omitempty"`
}

// Layout chooses the protobuf field order of the payload messages.
type Layout struct {
	// Permute shuffles the fields of every message (keeping the relative order of
	// fields with the same number, so repeated fields keep their meaning).
	Permute bool `json:"permute,omitempty"`
	// Unknown inserts fields with numbers the schema does not define.
	Unknown bool `json:"unknown,omitempty"`
	// FixedLast appends an unknown fixed64/fixed32 field at the END of every message (block, group,
	// dense, dense info, way, relation, info): the shape protoscan's Message.Skip mis-reports.
	FixedLast bool `json:"fixed_last,omitempty"`
	// SplitPacked writes every packed column that has at least two entries as TWO chunks (the same
	// field number twice, first half then second half).  Legal protobuf ("a packed repeated field
	// may occur more than once, parsers concatenate"); no known OSM writer does it.  The decoder
	// under test keeps only the last chunk: known finding "packed-column-split" of C01.
	SplitPacked bool `json:"split_packed,omitempty"`
	// Seed drives both; the output is a function of the description only.
	Seed int64 `json:"seed,omitempty"`
}

// Header is the HeaderBlock.
type Header struct {
	BlobOpts
	Layout Layout `json:"layout,omitempty"`

	HasBBox                  bool  `json:"has_bbox,omitempty"`
	Left, Right, Top, Bottom int64 `json:",omitempty"` // nanodegrees (sint64)

	Required []string `json:"required,omitempty"`
	Optional []string `json:"optional,omitempty"`

	HasProgram bool   `json:"has_program,omitempty"`
	Program    string `json:"program,omitempty"`
	HasSource  bool   `json:"has_source,omitempty"`
	Source     string `json:"source,omitempty"`

	HasReplTimestamp bool   `json:"has_repl_ts,omitempty"`
	ReplTimestamp    int64  `json:"repl_ts,omitempty"` // seconds since the epoch
	HasReplSeq       bool   `json:"has_repl_seq,omitempty"`
	ReplSeq          int64  `json:"repl_seq,omitempty"`
	HasReplURL       bool   `json:"has_repl_url,omitempty"`
	ReplURL          string `json:"repl_url,omitempty"`
}

// Block is one PrimitiveBlock.
type Block struct {
	BlobOpts
	Layout Layout `json:"layout,omitempty"`

	// Strings is the string table; Strings[0] must be "" in a valid block.
	// Elements refer to strings by index.  Use Sid/TagSid to intern.
	Strings []string `json:"strings"`
	// OmitStringTable leaves field 1 out altogether (only legal when Strings is empty/[""]).
	OmitStringTable bool `json:"omit_stringtable,omitempty"`

	// Optional block parameters; nil = absent (format defaults 100, 1000, 0, 0).
	Granularity     *int32 `json:"granularity,omitempty"`
	DateGranularity *int32 `json:"date_granularity,omitempty"`
	LatOffset       *int64 `json:"lat_offset,omitempty"`
	LonOffset       *int64 `json:"lon_offset,omitempty"`

	Groups []*Group `json:"groups"`
}

// Group is one PrimitiveGroup: an ordered list of items.  Real writers put one
// kind per group (one Dense, or only ways, or only relations); the format and
// the decoder allow mixtures, and the element order is the item order.
type Group struct {
	Items []Item `json:"items"`
}

// Item is exactly one of Dense / Way / Relation / Node (plain, field 1) / Changeset.
type Item struct {
	Dense     *Dense     `json:"dense,omitempty"`
	Way       *Way       `json:"way,omitempty"`
	Relation  *Relation  `json:"relation,omitempty"`
	Node      *PlainNode `json:"node,omitempty"`
	Changeset *int64     `json:"changeset,omitempty"` // ChangeSet{id}: field 5, ignored by readers
}

// Tag is a pair of string-table indices.
type Tag struct {
	K uint32 `json:"k"`
	V uint32 `json:"v"`
}

// Info holds the metadata values of one element.  Which of them are written is
// decided by the presence flags of the enclosing Dense/Way/Relation.
type Info struct {
	Version   int32  `json:"version,omitempty"`
	Timestamp int64  `json:"timestamp,omitempty"` // in units of date_granularity milliseconds
	Changeset int64  `json:"changeset,omitempty"`
	UID       int32  `json:"uid,omitempty"`
	UserSid   uint32 `json:"user_sid,omitempty"`
	Visible   bool   `json:"visible"`
}

// InfoFields says which Info fields / DenseInfo columns are present.
type InfoFields struct {
	Version   bool `json:"version,omitempty"`
	Timestamp bool `json:"timestamp,omitempty"`
	Changeset bool `json:"changeset,omitempty"`
	UID       bool `json:"uid,omitempty"`
	UserSid   bool `json:"user_sid,omitempty"`
	Visible   bool `json:"visible,omitempty"`
}

// AllInfo has every field present.
var AllInfo = InfoFields{true, true, true, true, true, true}

// DenseNode is one row of a DenseNodes message.
type DenseNode struct {
	ID   int64 `json:"id"`
	Lat  int64 `json:"lat"` // grid units: degrees = 1e-9*(lat_offset + granularity*Lat)
	Lon  int64 `json:"lon"`
	Info Info  `json:"info"`
	Tags []Tag `json:"tags,omitempty"` // indices must be non-zero (0 is the delimiter)
}

// Dense is a DenseNodes message.
type Dense struct {
	Nodes []DenseNode `json:"nodes"`
	// HasInfo: the denseinfo submessage (field 5) is present; Cols: which of its six columns.
	HasInfo bool       `json:"has_info,omitempty"`
	Cols    InfoFields `json:"cols,omitempty"`
	// HasKeysVals: the keys_vals column (field 10) is present (one 0 delimiter per node).
	// When false all Tags must be empty.
	HasKeysVals bool `json:"has_keys_vals,omitempty"`

	// OmitEmptyCols: a group without nodes, without denseinfo and without keys_vals is written as
	// the EMPTY DenseNodes message, as protobuf encoders write empty packed fields (not at all).
	// No effect otherwise.  Valid (since /repo's fix for C01 audit item 2 the decoder accepts it).
	OmitEmptyCols bool `json:"omit_empty_cols,omitempty"`

	// Damage hooks.
	OmitIDs, OmitLats, OmitLons bool `json:",omitempty"`
	// Trim[col] = number of trailing entries dropped from that column (negative: entries
	// appended by repeating a zero delta).  Columns: "id","lat","lon","version","timestamp",
	// "changeset","uid","user_sid","visible","keys_vals".
	Trim map[string]int `json:"trim,omitempty"`
}

// Way is a Way message.
type Way struct {
	ID      int64      `json:"id"`
	HasInfo bool       `json:"has_info,omitempty"`
	Fields  InfoFields `json:"fields,omitempty"`
	Info    Info       `json:"info"`
	Tags    []Tag      `json:"tags,omitempty"`
	// ForceTags writes keys/vals even when there is no tag (zero-length packed fields).
	ForceTags bool    `json:"force_tags,omitempty"`
	Refs      []int64 `json:"refs,omitempty"`
	ForceRefs bool    `json:"force_refs,omitempty"`
	// HasLocs: lat (9) and lon (10) columns are present; Lats/Lons are grid units, same length as Refs.
	HasLocs bool    `json:"has_locs,omitempty"`
	Lats    []int64 `json:"lats,omitempty"`
	Lons    []int64 `json:"lons,omitempty"`

	// Damage: columns "keys","vals","refs","lat","lon".
	Trim map[string]int `json:"trim,omitempty"`
}

// Member of a relation.
type Member struct {
	Type    int32 `json:"type"` // 0 node, 1 way, 2 relation
	Ref     int64 `json:"ref"`
	RoleSid int32 `json:"role_sid"`
}

type Relation struct {
	ID        int64      `json:"id"`
	HasInfo   bool       `json:"has_info,omitempty"`
	Fields    InfoFields `json:"fields,omitempty"`
	Info      Info       `json:"info"`
	Tags      []Tag      `json:"tags,omitempty"`
	ForceTags bool       `json:"force_tags,omitempty"`
	Members   []Member   `json:"members,omitempty"`
	// ForceMembers writes roles/memids/types even when empty.
	ForceMembers bool `json:"force_members,omitempty"`

	// Damage: columns "keys","vals","roles","memids","types".
	Trim map[string]int `json:"trim,omitempty"`
}

// PlainNode is the non-dense Node message (field 1 of a group).  The decoder under
// test does not support it; it is here for the damage/unsupported-input harness.
type PlainNode struct {
	ID      int64      `json:"id"`
	Lat     int64      `json:"lat"`
	Lon     int64      `json:"lon"`
	HasInfo bool       `json:"has_info,omitempty"`
	Fields  InfoFields `json:"fields,omitempty"`
	Info    Info       `json:"info"`
	Tags    []Tag      `json:"tags,omitempty"`
}

// Sid interns s in the block's string table and returns its index.  The empty
// string is index 0 (the table is created with "" at 0 if empty).
func (b *Block) Sid(s string) uint32 {
	if len(b.Strings) == 0 {
		b.Strings = []string{""}
	}
	for i, t := range b.Strings {
		if t == s {
			return uint32(i)
		}
	}
	b.Strings = append(b.Strings, s)
	return uint32(len(b.Strings) - 1)
}

// TagSid interns a tag key or value: like Sid but never returns 0, because index 0
// is the keys_vals delimiter — an empty key or value gets its own non-zero entry.
func (b *Block) TagSid(s string) uint32 {
	if len(b.Strings) == 0 {
		b.Strings = []string{""}
	}
	for i, t := range b.Strings {
		if i > 0 && t == s {
			return uint32(i)
		}
	}
	b.Strings = append(b.Strings, s)
	return uint32(len(b.Strings) - 1)
}

// Tag interns a key/value pair.
func (b *Block) Tag(k, v string) Tag { return Tag{b.TagSid(k), b.TagSid(v)} }

func I32(v int32) *int32   { return &v }
func I64(v int64) *int64   { return &v }
func U32(v uint32) *uint32 { return &v }
func Str(v string) *string { return &v }

// Gran, DateGran, LatOff, LonOff return the effective block parameters
// (the format defaults when absent).
func (b *Block) Gran() int64 {
	if b.Granularity == nil {
		return 100
	}
	return int64(*b.Granularity)
}
func (b *Block) DateGran() int64 {
	if b.DateGranularity == nil {
		return 1000
	}
	return int64(*b.DateGranularity)
}
func (b *Block) LatOff() int64 {
	if b.LatOffset == nil {
		return 0
	}
	return *b.LatOffset
}
func (b *Block) LonOff() int64 {
	if b.LonOffset == nil {
		return 0
	}
	return *b.LonOffset
}
