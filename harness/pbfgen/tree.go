package pbfgen

import (
	"errors"
	"fmt"

	"google.golang.org/protobuf/encoding/protowire"
)

// Kind of a protobuf field value in a message tree.
const (
	KVarint = 'v' // wire type 0
	KPacked = 'p' // wire type 2 holding varints
	KBytes  = 's' // wire type 2 holding opaque bytes / a string
	KMsg    = 'm' // wire type 2 holding a message
	KFix64  = '6' // wire type 1
	KFix32  = '3' // wire type 5
)

// Field is one (number, value) pair of a protobuf message; a message is []Field
// in wire order.  This is the "message tree" abstraction the Coq model works on.
type Field struct {
	Num    int32    `json:"n"`
	Kind   byte     `json:"k"`
	Var    uint64   `json:"v,omitempty"` // KVarint / KFix64 / KFix32: raw value
	Packed []uint64 `json:"p,omitempty"` // KPacked: raw varints
	Bytes  []byte   `json:"s,omitempty"` // KBytes
	Msg    []Field  `json:"m,omitempty"` // KMsg
}

// Serialize writes a message tree as protobuf wire bytes (minimal varints).
func Serialize(m []Field) []byte { return appendMsg(nil, m) }

func appendMsg(b []byte, m []Field) []byte {
	for i := range m {
		f := &m[i]
		n := protowire.Number(f.Num)
		switch f.Kind {
		case KVarint:
			b = protowire.AppendTag(b, n, protowire.VarintType)
			b = protowire.AppendVarint(b, f.Var)
		case KFix64:
			b = protowire.AppendTag(b, n, protowire.Fixed64Type)
			b = protowire.AppendFixed64(b, f.Var)
		case KFix32:
			b = protowire.AppendTag(b, n, protowire.Fixed32Type)
			b = protowire.AppendFixed32(b, uint32(f.Var))
		case KPacked:
			var p []byte
			for _, v := range f.Packed {
				p = protowire.AppendVarint(p, v)
			}
			b = protowire.AppendTag(b, n, protowire.BytesType)
			b = protowire.AppendBytes(b, p)
		case KBytes:
			b = protowire.AppendTag(b, n, protowire.BytesType)
			b = protowire.AppendBytes(b, f.Bytes)
		case KMsg:
			b = protowire.AppendTag(b, n, protowire.BytesType)
			b = protowire.AppendBytes(b, appendMsg(nil, f.Msg))
		default:
			panic(fmt.Sprintf("pbfgen: bad field kind %q", f.Kind))
		}
	}
	return b
}

// Schema tells the independent reader how to interpret length-delimited fields.
// Anything not listed is KBytes.
type Schema struct {
	Packed map[int32]bool
	Msg    map[int32]*Schema
}

var (
	infoSchema      = &Schema{}
	denseInfoSchema = &Schema{Packed: map[int32]bool{1: true, 2: true, 3: true, 4: true, 5: true, 6: true}}
	denseSchema     = &Schema{Packed: map[int32]bool{1: true, 8: true, 9: true, 10: true}, Msg: map[int32]*Schema{5: denseInfoSchema}}
	waySchema       = &Schema{Packed: map[int32]bool{2: true, 3: true, 8: true, 9: true, 10: true}, Msg: map[int32]*Schema{4: infoSchema}}
	relationSchema  = &Schema{Packed: map[int32]bool{2: true, 3: true, 8: true, 9: true, 10: true}, Msg: map[int32]*Schema{4: infoSchema}}
	nodeSchema      = &Schema{Packed: map[int32]bool{2: true, 3: true}, Msg: map[int32]*Schema{4: infoSchema}}
	changesetSchema = &Schema{}
	groupSchema     = &Schema{Msg: map[int32]*Schema{1: nodeSchema, 2: denseSchema, 3: waySchema, 4: relationSchema, 5: changesetSchema}}
	stringsSchema   = &Schema{}
	// BlockSchema is the schema of PrimitiveBlock.
	BlockSchema = &Schema{Msg: map[int32]*Schema{1: stringsSchema, 2: groupSchema}}
	bboxSchema  = &Schema{}
	// HeaderSchema is the schema of HeaderBlock.
	HeaderSchema = &Schema{Msg: map[int32]*Schema{1: bboxSchema}}
	// BlobHeaderSchema and BlobSchema: all length-delimited fields are bytes.
	BlobHeaderSchema = &Schema{}
	BlobSchema       = &Schema{}
)

// Parse is the independent reader: a plain protowire walk producing the message
// tree of b under schema s.  It is used to validate Serialize/Encode and by the
// harnesses to obtain the tree that is sent to Coq.
func Parse(b []byte, s *Schema) ([]Field, error) {
	var out []Field
	for len(b) > 0 {
		num, typ, n := protowire.ConsumeTag(b)
		if n < 0 {
			return nil, protowire.ParseError(n)
		}
		b = b[n:]
		f := Field{Num: int32(num)}
		switch typ {
		case protowire.VarintType:
			v, n := protowire.ConsumeVarint(b)
			if n < 0 {
				return nil, protowire.ParseError(n)
			}
			f.Kind, f.Var = KVarint, v
			b = b[n:]
		case protowire.Fixed64Type:
			v, n := protowire.ConsumeFixed64(b)
			if n < 0 {
				return nil, protowire.ParseError(n)
			}
			f.Kind, f.Var = KFix64, v
			b = b[n:]
		case protowire.Fixed32Type:
			v, n := protowire.ConsumeFixed32(b)
			if n < 0 {
				return nil, protowire.ParseError(n)
			}
			f.Kind, f.Var = KFix32, uint64(v)
			b = b[n:]
		case protowire.BytesType:
			v, n := protowire.ConsumeBytes(b)
			if n < 0 {
				return nil, protowire.ParseError(n)
			}
			b = b[n:]
			switch {
			case s != nil && s.Msg[f.Num] != nil:
				m, err := Parse(v, s.Msg[f.Num])
				if err != nil {
					return nil, err
				}
				f.Kind, f.Msg = KMsg, m
			case s != nil && s.Packed[f.Num]:
				f.Kind = KPacked
				for len(v) > 0 {
					x, n := protowire.ConsumeVarint(v)
					if n < 0 {
						return nil, protowire.ParseError(n)
					}
					f.Packed = append(f.Packed, x)
					v = v[n:]
				}
			default:
				f.Kind, f.Bytes = KBytes, append([]byte(nil), v...)
			}
		default:
			return nil, errors.New("pbfgen: group wire types are not supported")
		}
		out = append(out, f)
	}
	return out, nil
}

// EqualTree compares two message trees (nil and empty slices are equal).
func EqualTree(a, b []Field) bool {
	if len(a) != len(b) {
		return false
	}
	for i := range a {
		x, y := &a[i], &b[i]
		if x.Num != y.Num || x.Kind != y.Kind || x.Var != y.Var || len(x.Packed) != len(y.Packed) || string(x.Bytes) != string(y.Bytes) {
			return false
		}
		for j := range x.Packed {
			if x.Packed[j] != y.Packed[j] {
				return false
			}
		}
		if !EqualTree(x.Msg, y.Msg) {
			return false
		}
	}
	return true
}
