package pbfgen

import (
	"math"
	"math/rand"
)

// Opts tunes RandomFile.  The zero value gives small files (≲ 3 KiB) with every
// optional part varying from block to block and from group to group.
type Opts struct {
	MinBlocks, MaxBlocks int // default 1..5
	MaxGroups            int // groups per block 0..MaxGroups (default 3)
	MaxItems             int // dense nodes per Dense, ways/relations per group (default 5)
	MaxTags              int // default 3
	MaxRefs              int // default 5
	MaxMembers           int // default 4
	NoHeader             bool
	// Probabilities in percent; a negative value means 0, 0 means the default.
	MixedPct   int // mixed-kind groups (default 15)
	ZlibPct    int // zlib blobs (default 50)
	PermutePct int // permuted field order per block (default 30)
	UnknownPct int // unknown extra fields per block (default 25)
	ExtremePct int // extreme ids / metadata / coordinates per element (default 10)
	// MinElements forces at least that many elements per block (for order/offset harnesses
	// that need distinguishable, non-empty blocks).  Default 0.
	MinElements int
	// ZeroPct (0 = off, does not touch the random stream of existing users): per element,
	// first-class zero values that are PRESENT in the file and must come back as zeros, not as
	// "absent": raw timestamp 0 (1970-01-01T00:00:00Z, also as the first value of a dense
	// column), version/changeset/uid 0, user string index 0, raw coordinates 0.
	ZeroPct int
	// UnknownMemberPct (0 = off): per relation member, a type value outside the enum 0..2
	// (3, 7, -1, MaxInt32, MinInt32): a member without a known type.
	UnknownMemberPct int
	// Kinds restricts what is generated: any of 'd' (dense), 'w' (ways), 'r' (relations);
	// "" = all.
	Kinds string
}

func (o *Opts) norm() Opts {
	p := *o
	def := func(v *int, d int) {
		if *v == 0 {
			*v = d
		} else if *v < 0 {
			*v = 0
		}
	}
	def(&p.MinBlocks, 1)
	def(&p.MaxBlocks, 5)
	if p.MaxBlocks < p.MinBlocks {
		p.MaxBlocks = p.MinBlocks
	}
	def(&p.MaxGroups, 3)
	def(&p.MaxItems, 5)
	def(&p.MaxTags, 3)
	def(&p.MaxRefs, 5)
	def(&p.MaxMembers, 4)
	def(&p.MixedPct, 15)
	def(&p.ZlibPct, 50)
	def(&p.PermutePct, 30)
	def(&p.UnknownPct, 25)
	def(&p.ExtremePct, 10)
	if p.Kinds == "" {
		p.Kinds = "dwr"
	}
	return p
}

var stringPool = []string{"highway", "name", "residential", "a", "b", "é", "日本語", "x y", "ref", "42",
	"building", "yes", "Straße", "🙂", "k=v", "\"quoted\"", "<&>", "user one", "anonymous", "outer", "inner",
	"stop", "via", "from", "to", "\t", "a\x00b", "long-" + "0123456789012345678901234567890123456789"}

type gen struct {
	r *rand.Rand
	o Opts
}

func (g *gen) pct(p int) bool { return g.r.Intn(100) < p }

func (g *gen) flags() InfoFields {
	switch g.r.Intn(6) {
	case 0:
		return AllInfo
	case 1:
		return InfoFields{}
	}
	b := func() bool { return g.r.Intn(100) < 60 }
	return InfoFields{b(), b(), b(), b(), b(), b()}
}

func (g *gen) id() int64 {
	if g.pct(g.o.ExtremePct) {
		switch g.r.Intn(5) {
		case 0:
			return math.MaxInt64
		case 1:
			return math.MinInt64
		case 2:
			return -g.r.Int63n(1000)
		case 3:
			return 0
		}
		return g.r.Int63()
	}
	return 1 + g.r.Int63n(5000)
}

func (g *gen) sid(b *Block, nonzero bool) uint32 {
	n := len(b.Strings)
	if nonzero {
		return uint32(1 + g.r.Intn(n-1))
	}
	return uint32(g.r.Intn(n))
}

func (g *gen) tags(b *Block, nonzero bool) []Tag {
	var ts []Tag
	for k := g.r.Intn(g.o.MaxTags + 1); k > 0; k-- {
		ts = append(ts, Tag{g.sid(b, nonzero), g.sid(b, nonzero)})
	}
	return ts
}

func (g *gen) info(b *Block) Info {
	in := Info{Visible: g.r.Intn(4) != 0}
	in.Version = int32(g.r.Intn(40))
	in.UID = int32(g.r.Intn(100000))
	in.Changeset = g.r.Int63n(200000000)
	ms := g.r.Int63n(2000000000000) // 1970 .. 2033
	in.Timestamp = ms / b.DateGran()
	in.UserSid = g.sid(b, false)
	if g.pct(g.o.ExtremePct) {
		switch g.r.Intn(8) {
		case 0:
			in.Version = -1
		case 1:
			in.Version = math.MaxInt32
		case 2:
			in.UID = -1
		case 3:
			in.UID = math.MinInt32
		case 4:
			in.Changeset = math.MaxInt64
		case 5:
			in.Changeset = -g.r.Int63n(100)
		case 6:
			in.Timestamp = -(g.r.Int63n(1000000000000) / b.DateGran())
		case 7:
			in.Timestamp = MaxTimestampMs / b.DateGran()
		}
	}
	if g.o.ZeroPct > 0 && g.pct(g.o.ZeroPct) {
		switch g.r.Intn(4) {
		case 0:
			in.Timestamp = 0
		case 1:
			in.Version, in.UID, in.Changeset, in.Timestamp, in.UserSid = 0, 0, 0, 0, 0
		case 2:
			in.Version, in.Changeset = 0, 0
		case 3:
			in.UID, in.UserSid = 0, 0
		}
	}
	return in
}

// coord draws a raw grid value whose nanodegree value is a plausible (or, rarely,
// extreme but still valid) coordinate.
func (g *gen) coord(b *Block, off int64, span int64) int64 {
	target := g.r.Int63n(2*span+1) - span
	if g.o.ZeroPct > 0 && g.pct(g.o.ZeroPct) {
		return 0
	}
	if g.pct(g.o.ExtremePct) {
		switch g.r.Intn(3) {
		case 0:
			target = MaxCoordNano - g.r.Int63n(1000)
		case 1:
			target = -MaxCoordNano + g.r.Int63n(1000)
		case 2:
			target = off
		}
	}
	raw := (target - off) / b.Gran()
	// keep |off + gran*raw| <= MaxCoordNano
	for abs64(off+b.Gran()*raw) > MaxCoordNano {
		if raw > 0 {
			raw--
		} else {
			raw++
		}
	}
	return raw
}

func (g *gen) dense(b *Block, n int) *Dense {
	d := &Dense{HasInfo: g.pct(70), HasKeysVals: g.pct(60)}
	if d.HasInfo {
		d.Cols = g.flags()
	}
	id := g.id()
	for i := 0; i < n; i++ {
		nd := DenseNode{ID: id, Info: g.info(b)}
		nd.Lat = g.coord(b, b.LatOff(), 90000000000)
		nd.Lon = g.coord(b, b.LonOff(), 180000000000)
		if d.HasKeysVals && g.pct(60) {
			nd.Tags = g.tags(b, true)
		}
		if i == 0 && g.o.ZeroPct > 0 && g.pct(3*g.o.ZeroPct) {
			nd.Info.Timestamp = 0 // a timestamp column that starts with the epoch
		}
		d.Nodes = append(d.Nodes, nd)
		if g.pct(g.o.ExtremePct) {
			id = g.id()
		} else {
			id += 1 + g.r.Int63n(20)
		}
	}
	return d
}

func (g *gen) way(b *Block) *Way {
	w := &Way{ID: g.id(), HasInfo: g.pct(70), Info: g.info(b)}
	if w.HasInfo {
		w.Fields = g.flags()
	}
	if g.pct(65) {
		w.Tags = g.tags(b, false)
	}
	w.ForceTags = g.pct(10)
	w.ForceRefs = g.pct(10)
	nr := g.r.Intn(g.o.MaxRefs + 1)
	if g.pct(15) {
		nr = 0
	}
	for i := 0; i < nr; i++ {
		w.Refs = append(w.Refs, g.id())
	}
	if g.pct(35) {
		w.HasLocs = true
		for range w.Refs {
			w.Lats = append(w.Lats, g.coord(b, b.LatOff(), 90000000000))
			w.Lons = append(w.Lons, g.coord(b, b.LonOff(), 180000000000))
		}
	}
	return w
}

func (g *gen) relation(b *Block) *Relation {
	r := &Relation{ID: g.id(), HasInfo: g.pct(70), Info: g.info(b)}
	if r.HasInfo {
		r.Fields = g.flags()
	}
	if g.pct(65) {
		r.Tags = g.tags(b, false)
	}
	r.ForceTags = g.pct(10)
	r.ForceMembers = g.pct(10)
	nm := g.r.Intn(g.o.MaxMembers + 1)
	if g.pct(15) {
		nm = 0
	}
	for i := 0; i < nm; i++ {
		r.Members = append(r.Members, Member{Type: int32(g.r.Intn(3)), Ref: g.id(), RoleSid: int32(g.sid(b, false))})
		if g.o.UnknownMemberPct > 0 && g.pct(g.o.UnknownMemberPct) {
			r.Members[i].Type = []int32{3, 7, -1, math.MaxInt32, math.MinInt32}[g.r.Intn(5)]
		}
	}
	return r
}

func (g *gen) group(b *Block) *Group {
	gr := &Group{}
	kinds := g.o.Kinds
	n := g.r.Intn(g.o.MaxItems + 1)
	if len(kinds) > 1 && g.pct(g.o.MixedPct) {
		denseDone := false
		for i := 0; i < n; i++ {
			switch k := kinds[g.r.Intn(len(kinds))]; {
			case k == 'd' && !denseDone:
				denseDone = true
				gr.Items = append(gr.Items, Item{Dense: g.dense(b, g.r.Intn(g.o.MaxItems+1))})
			case k == 'w' || (k == 'd' && !containsByte(kinds, 'r')):
				gr.Items = append(gr.Items, Item{Way: g.way(b)})
			case k == 'r' || k == 'd':
				gr.Items = append(gr.Items, Item{Relation: g.relation(b)})
			}
			if g.pct(5) {
				gr.Items = append(gr.Items, Item{Changeset: I64(g.r.Int63n(1000))})
			}
		}
		return gr
	}
	switch kinds[g.r.Intn(len(kinds))] {
	case 'd':
		gr.Items = append(gr.Items, Item{Dense: g.dense(b, n)})
	case 'w':
		for i := 0; i < n; i++ {
			gr.Items = append(gr.Items, Item{Way: g.way(b)})
		}
	case 'r':
		for i := 0; i < n; i++ {
			gr.Items = append(gr.Items, Item{Relation: g.relation(b)})
		}
	}
	return gr
}

func containsByte(s string, c byte) bool {
	for i := 0; i < len(s); i++ {
		if s[i] == c {
			return true
		}
	}
	return false
}

func (g *gen) block() *Block {
	b := &Block{Strings: []string{""}}
	b.Zlib = g.pct(g.o.ZlibPct)
	b.RawSizeOnRaw = !b.Zlib && g.pct(15)
	if g.pct(5) {
		b.IndexData = []byte{1, 2, 3}
	}
	b.Layout = Layout{Permute: g.pct(g.o.PermutePct), Unknown: g.pct(g.o.UnknownPct), Seed: g.r.Int63()}
	// string table: a random selection of the pool, sometimes with a duplicate, an
	// extra empty string (needed for empty tag keys/values) and unused entries
	for k := 2 + g.r.Intn(8); k > 0; k-- {
		b.Strings = append(b.Strings, stringPool[g.r.Intn(len(stringPool))])
	}
	if g.pct(40) {
		b.Strings = append(b.Strings, "")
	}
	g.r.Shuffle(len(b.Strings)-1, func(i, j int) { b.Strings[i+1], b.Strings[j+1] = b.Strings[j+1], b.Strings[i+1] })
	if g.pct(65) {
		b.Granularity = I32([]int32{100, 1, 1000, 7, 10000, 100}[g.r.Intn(6)])
	}
	if g.pct(55) {
		b.DateGranularity = I32([]int32{1000, 1, 60000, 10, 1000}[g.r.Intn(5)])
	}
	off := func() *int64 {
		switch g.r.Intn(5) {
		case 0:
			return I64(0)
		case 1:
			return I64(g.r.Int63n(2000) - 1000)
		case 2:
			return I64((g.r.Int63n(360) - 180) * 1000000000)
		case 3:
			return I64(g.r.Int63n(180000000000) - 90000000000)
		}
		return nil
	}
	b.LatOffset, b.LonOffset = off(), off()
	for k := g.r.Intn(g.o.MaxGroups + 1); k > 0; k-- {
		b.Groups = append(b.Groups, g.group(b))
	}
	for len(BlockElements(b, 0)) < g.o.MinElements {
		gr := g.group(b)
		if len(gr.Items) > 0 {
			b.Groups = append(b.Groups, gr)
		}
	}
	return b
}

var supportedFeatures = []string{"OsmSchema-V0.6", "DenseNodes", "HistoricalInformation"}
var optionalFeatures = []string{"Has_Metadata", "Sort.Type_then_ID", "LocationsOnWays", "timestamp=2014-03-24T21:55:02Z", "é"}

func (g *gen) header() *Header {
	h := &Header{}
	h.Zlib = g.pct(g.o.ZlibPct)
	h.Layout = Layout{Permute: g.pct(g.o.PermutePct), Unknown: g.pct(g.o.UnknownPct), Seed: g.r.Int63()}
	if g.pct(60) {
		h.HasBBox = true
		h.Left = g.r.Int63n(360000000000) - 180000000000
		h.Right = g.r.Int63n(360000000000) - 180000000000
		h.Top = g.r.Int63n(180000000000) - 90000000000
		h.Bottom = g.r.Int63n(180000000000) - 90000000000
	}
	for _, f := range supportedFeatures {
		if g.pct(60) {
			h.Required = append(h.Required, f)
		}
	}
	for _, f := range optionalFeatures {
		if g.pct(30) {
			h.Optional = append(h.Optional, f)
		}
	}
	if g.pct(60) {
		h.HasProgram, h.Program = true, []string{"osmium/1.14", "pbfgen", "", "Osmosis SNAPSHOT-r"}[g.r.Intn(4)]
	}
	if g.pct(40) {
		h.HasSource, h.Source = true, []string{"http://www.openstreetmap.org/api/0.6", "", "src é"}[g.r.Intn(3)]
	}
	if g.pct(50) {
		h.HasReplTimestamp, h.ReplTimestamp = true, []int64{0, 1395698102, g.r.Int63n(4000000000), -1}[g.r.Intn(4)]
	}
	if g.pct(50) {
		h.HasReplSeq, h.ReplSeq = true, []int64{0, 1, g.r.Int63n(10000000), math.MaxInt64}[g.r.Intn(4)]
	}
	if g.pct(50) {
		h.HasReplURL, h.ReplURL = true, []string{"http://download.geofabrik.de/europe-updates", ""}[g.r.Intn(2)]
	}
	return h
}

// RandomFile draws a valid file description (Validate(d) == nil).  All randomness
// comes from rng.
func RandomFile(rng *rand.Rand, opts Opts) *FileDesc {
	g := &gen{r: rng, o: opts.norm()}
	d := &FileDesc{}
	if !g.o.NoHeader {
		d.Header = g.header()
	}
	nb := g.o.MinBlocks + g.r.Intn(g.o.MaxBlocks-g.o.MinBlocks+1)
	for i := 0; i < nb; i++ {
		d.Blocks = append(d.Blocks, g.block())
	}
	return d
}
