package pbfgen

import (
	"bytes"
	"compress/zlib"
	"context"
	"encoding/binary"
	"io"
	"math/big"
	"math/rand"
	"testing"

	"github.com/paulmach/osm"
	"github.com/paulmach/osm/osmpbf"
)

func get(m []Field, n int32) *Field {
	for i := range m {
		if m[i].Num == n {
			return &m[i]
		}
	}
	return nil
}

// readFile is the independent reader: frames by hand, messages by protowire walk.
func readFile(t *testing.T, data []byte) (types []string, payloads [][]byte, offs []int) {
	off := 0
	for off < len(data) {
		offs = append(offs, off)
		n := int(binary.BigEndian.Uint32(data[off:]))
		off += 4
		h, err := Parse(data[off:off+n], BlobHeaderSchema)
		if err != nil {
			t.Fatal(err)
		}
		off += n
		ds := int(int32(get(h, 3).Var))
		bl, err := Parse(data[off:off+ds], BlobSchema)
		if err != nil {
			t.Fatal(err)
		}
		off += ds
		var p []byte
		if f := get(bl, 1); f != nil {
			p = f.Bytes
		} else {
			zr, err := zlib.NewReader(bytes.NewReader(get(bl, 3).Bytes))
			if err != nil {
				t.Fatal(err)
			}
			p, err = io.ReadAll(zr)
			if err != nil {
				t.Fatal(err)
			}
			if len(p) != int(get(bl, 2).Var) {
				t.Fatalf("raw_size %d, inflated %d", get(bl, 2).Var, len(p))
			}
		}
		types = append(types, string(get(h, 1).Bytes))
		payloads = append(payloads, p)
	}
	return
}

func TestWriterAgainstIndependentReader(t *testing.T) {
	rng := rand.New(rand.NewSource(7))
	for it := 0; it < 300; it++ {
		d := RandomFile(rng, Opts{})
		if err := Validate(d); err != nil {
			t.Fatalf("generator produced invalid file: %v", err)
		}
		data, frames := Encode(d)
		types, payloads, offs := readFile(t, data)
		want := len(d.Blocks) + 1
		if len(types) != want {
			t.Fatalf("blocks: %d want %d", len(types), want)
		}
		// frames are contiguous and cover the file
		pos := 0
		for _, f := range frames {
			if f.Off != pos {
				t.Fatalf("frame gap at %d", pos)
			}
			pos += f.Len
		}
		if pos != len(data) {
			t.Fatal("frames do not cover the file")
		}
		for i := range types {
			if i == 0 {
				if types[0] != "OSMHeader" {
					t.Fatal("first block type")
				}
				tr, err := Parse(payloads[0], HeaderSchema)
				if err != nil || !EqualTree(tr, HeaderTree(d.Header)) {
					t.Fatalf("header tree differs: %v", err)
				}
				continue
			}
			if offs[i] != BlockStart(frames, i-1) {
				t.Fatal("BlockStart")
			}
			tr, err := Parse(payloads[i], BlockSchema)
			if err != nil || !EqualTree(tr, BlockTree(d.Blocks[i-1])) {
				t.Fatalf("block %d tree differs: %v", i-1, err)
			}
		}
	}
}

func near(f float64, nano int64) bool {
	// |f - nano*1e-9| <= 1e-10, exactly
	x := new(big.Rat).SetFloat64(f)
	x.Sub(x, big.NewRat(nano, 1000000000))
	x.Abs(x)
	return x.Cmp(big.NewRat(1, 10000000000)) <= 0
}

// TestAgainstDecoder is a smoke test of the description's meaning against the real
// decoder (the full comparison is the C01 check).
func TestAgainstDecoder(t *testing.T) {
	rng := rand.New(rand.NewSource(11))
	for it := 0; it < 300; it++ {
		d := RandomFile(rng, Opts{})
		data, _ := Encode(d)
		want := Elements(d)
		for _, procs := range []int{1, 3} {
			sc := osmpbf.New(context.Background(), bytes.NewReader(data), procs)
			i := 0
			for sc.Scan() {
				if i >= len(want) {
					t.Fatalf("file %d: too many objects", it)
				}
				e := want[i]
				switch o := sc.Object().(type) {
				case *osm.Node:
					if e.Kind != "node" || int64(o.ID) != e.ID || !near(o.Lat, e.LatNano) || !near(o.Lon, e.LonNano) ||
						int64(o.Version) != e.Version || o.User != e.User || o.Visible != e.Visible || len(o.Tags) != len(e.Tags) ||
						o.Timestamp.IsZero() == e.HasTimestamp || (e.HasTimestamp && o.Timestamp.UnixNano() != e.TimestampMs*1000000) {
						t.Fatalf("file %d procs %d object %d: node %+v want %+v", it, procs, i, o, e)
					}
				case *osm.Way:
					if e.Kind != "way" || int64(o.ID) != e.ID || len(o.Nodes) != len(e.Nodes) || len(o.Tags) != len(e.Tags) || o.User != e.User || int64(o.Version) != e.Version {
						t.Fatalf("file %d procs %d object %d: way %+v want %+v", it, procs, i, o, e)
					}
				case *osm.Relation:
					if e.Kind != "relation" || int64(o.ID) != e.ID || len(o.Members) != len(e.Members) || len(o.Tags) != len(e.Tags) || o.User != e.User {
						t.Fatalf("file %d procs %d object %d: relation %+v want %+v", it, procs, i, o, e)
					}
				}
				i++
			}
			if err := sc.Err(); err != nil {
				t.Fatalf("file %d procs %d: %v", it, procs, err)
			}
			if i != len(want) {
				t.Fatalf("file %d procs %d: %d objects, want %d", it, procs, i, len(want))
			}
			sc.Close()
		}
	}
}

func TestDamageHooks(t *testing.T) {
	rng := rand.New(rand.NewSource(3))
	scan := func(d *FileDesc) (int, error) {
		data, _ := Encode(d)
		sc := osmpbf.New(context.Background(), bytes.NewReader(data), 1)
		defer sc.Close()
		n := 0
		for sc.Scan() {
			n++
		}
		return n, sc.Err()
	}
	for _, name := range []string{"size", "datasize", "rawsize", "zlib1", "zlib3", "zlib4", "type", "nodata", "feature", "omitids", "trimlat"} {
		d := RandomFile(rng, Opts{MinBlocks: 2, MaxBlocks: 2, MinElements: 2, Kinds: "d"})
		b := d.Blocks[1]
		b.Zlib = true
		b.Damage = &Damage{}
		switch name {
		case "size":
			b.Damage.SizePrefix = U32(70000)
		case "datasize":
			b.Damage.Datasize = I32(40 << 20)
		case "rawsize":
			b.Damage.RawSize = I32(5)
		case "zlib1":
			b.Damage.CorruptZlib = 1
		case "zlib3":
			b.Damage.CorruptZlib = 3
		case "zlib4":
			b.Damage.CorruptZlib = 4
		case "type":
			b.Damage.BlobType = Str("OSMOther")
		case "nodata":
			b.Damage.NoData = true
		case "feature":
			b.Damage = nil
			d.Header.Required = append(d.Header.Required, "FancyFeature")
		case "omitids":
			b.Damage = nil
			b.Groups[0].Items[0].Dense.OmitIDs = true
		case "trimlat":
			b.Damage = nil
			for _, g := range b.Groups {
				if len(g.Items) > 0 && len(g.Items[0].Dense.Nodes) > 0 {
					g.Items[0].Dense.Trim = map[string]int{"lat": 1}
				}
			}
		}
		if _, err := scan(d); err == nil {
			if name == "zlib3" {
				// with cgo the decoder uses czlib, which does not notice a missing adler32
				// trailer when the inflated length equals raw_size (an observation for C06)
				t.Logf("damage %s: no error reported", name)
				continue
			}
			t.Errorf("damage %s: no error reported", name)
		}
	}
}
