package pbfgen

import "math"

// Directed is one file of the directed corpus (round 3): inputs built around an INTERACTION of
// two features that random generation meets only by luck, together with the scanner
// configuration that makes the interaction happen.  Predicates are (code, a, b) triples in
// the language of pbfwire.Pred / Pbf.CheckLib.eval_pred (2: id%a==b, 6: id outside [a,b], ...).
type Directed struct {
	Name                               string    `json:"name"`
	Desc                               *FileDesc `json:"-"`
	Node, Way, Relation                [3]int64
	SkipNodes, SkipWays, SkipRelations bool
	Procs                              []int
}

func stdHeader(optional ...string) *Header {
	return &Header{Required: []string{"OsmSchema-V0.6", "DenseNodes"}, Optional: optional}
}

// DirectedCorpus returns the corpus.  Every description except "plain-nodes" is valid
// (Validate == nil); the plain-node file is outside what the decoder under test supports and
// is there for "whatever the scanner does with it, it does it under every configuration".
func DirectedCorpus() []Directed { return DirectedCorpusTier(false) }

// DirectedCorpusTier: thorough = the element counts of file 7 go up to 2047/2048/2049 refs and
// members per element (the Coq model updates lists in quadratic time: ~40 s for that file).
func DirectedCorpusTier(thorough bool) []Directed {
	var out []Directed
	evenIDs := [3]int64{2, 2, 0}
	all := [3]int64{0, 0, 0}

	// 1. memory reuse after a rejected way: the rejected way carries more of everything (refs,
	//    locations, tags, Info) than the accepted way that follows it in the same group
	{
		b := &Block{Strings: []string{""}, Granularity: I32(1000), LatOffset: I64(17), LonOffset: I64(-5)}
		var items []Item
		for i := int64(1); i <= 10; i++ {
			if i%2 == 1 {
				w := &Way{ID: i, HasInfo: true, Fields: AllInfo,
					Info: Info{Version: int32(i), Timestamp: 1400000000 + i, Changeset: 1000 + i, UID: int32(50 + i), UserSid: b.Sid("rejected"), Visible: false},
					Tags: []Tag{b.Tag("rejected", "yes"), b.Tag("k", "v"), b.Tag("n", "m")}, HasLocs: true}
				for k := int64(0); k < 6; k++ {
					w.Refs = append(w.Refs, 100*i+k)
					w.Lats = append(w.Lats, 5000+10*i+k)
					w.Lons = append(w.Lons, -7000-10*i-k)
				}
				items = append(items, Item{Way: w})
				continue
			}
			w := &Way{ID: i, Info: Info{Visible: true}}
			for k := int64(0); k < i/2; k++ { // 1..5 refs, no locations, no info, no tags
				w.Refs = append(w.Refs, 900+k)
			}
			if i == 8 {
				w.Tags = []Tag{b.Tag("accepted", "yes")}
			}
			if i == 10 { // locations present and all raw zero: 1e-9*offset, not a stale value
				w.HasLocs, w.Lats, w.Lons = true, make([]int64, len(w.Refs)), make([]int64, len(w.Refs))
			}
			items = append(items, Item{Way: w})
		}
		b.Groups = []*Group{{Items: items}}
		b2 := *b
		b2.Zlib = true
		out = append(out, Directed{Name: "way-after-rejected-way", Desc: &FileDesc{Header: stdHeader("LocationsOnWays"), Blocks: []*Block{b, &b2}},
			Node: all, Way: evenIDs, Relation: all, Procs: []int{1, 2}})
	}

	// 2. memory reuse after a rejected relation: fewer members, member types outside the enum
	{
		b := &Block{Strings: []string{""}}
		var items []Item
		unknown := []int32{3, -1, 7, math.MaxInt32, math.MinInt32}
		for i := int64(1); i <= 10; i++ {
			if i%2 == 1 {
				r := &Relation{ID: i, HasInfo: true, Fields: AllInfo,
					Info: Info{Version: int32(i), Timestamp: 1500000000 + i, Changeset: 2000 + i, UID: int32(60 + i), UserSid: b.Sid("rejected"), Visible: true},
					Tags: []Tag{b.Tag("type", "multipolygon"), b.Tag("rejected", "yes")}}
				for k := int64(0); k < 5; k++ {
					r.Members = append(r.Members, Member{Type: int32((k + i) % 3), Ref: 10*i + k, RoleSid: int32(b.Sid([]string{"outer", "inner", "stop"}[k%3]))})
				}
				items = append(items, Item{Relation: r})
				continue
			}
			r := &Relation{ID: i, Info: Info{Visible: true}}
			for k := int64(0); k < i/2; k++ {
				r.Members = append(r.Members, Member{Type: unknown[(i+k)%5], Ref: 700 + k, RoleSid: 0})
			}
			items = append(items, Item{Relation: r})
		}
		b.Groups = []*Group{{Items: items}}
		b2 := *b
		b2.Layout = Layout{Permute: true, Seed: 3}
		out = append(out, Directed{Name: "relation-after-rejected-relation", Desc: &FileDesc{Header: stdHeader(), Blocks: []*Block{b, &b2}},
			Node: all, Way: all, Relation: evenIDs, Procs: []int{1, 3}})
	}

	// 3. a header that declares Sort.Type_then_ID, node blocks with disjoint id ranges, way and
	//    relation blocks; the suggested configuration wants nodes only and rejects exactly the ids
	//    of one whole node block in the middle (and, second entry, of the first block)
	{
		mkfile := func() *FileDesc {
			d := &FileDesc{Header: stdHeader("Sort.Type_then_ID", "Has_Metadata")}
			for blk := int64(0); blk < 4; blk++ {
				b := &Block{Strings: []string{""}}
				b.Zlib = blk%2 == 0
				dn := &Dense{HasInfo: true, Cols: InfoFields{Version: true, Timestamp: true}, HasKeysVals: blk%2 == 1}
				for k := int64(1); k <= 4; k++ {
					n := DenseNode{ID: 100*blk + k, Lat: 10 * k, Lon: -10 * k, Info: Info{Version: int32(k), Timestamp: 1300000000 + k, Visible: true}}
					if dn.HasKeysVals && k%2 == 0 {
						n.Tags = []Tag{b.Tag("amenity", "bench")}
					}
					dn.Nodes = append(dn.Nodes, n)
				}
				b.Groups = []*Group{{Items: []Item{{Dense: dn}}}}
				d.Blocks = append(d.Blocks, b)
			}
			bw := &Block{Strings: []string{""}}
			bw.Groups = []*Group{{Items: []Item{{Way: &Way{ID: 1, Refs: []int64{1, 2, 101}, Info: Info{Visible: true}}}, {Way: &Way{ID: 2, Refs: []int64{201, 301}, Info: Info{Visible: true}}}}}}
			br := &Block{Strings: []string{""}}
			br.Groups = []*Group{{Items: []Item{{Relation: &Relation{ID: 1, Members: []Member{{Type: 1, Ref: 1, RoleSid: int32(br.Sid("outer"))}}, Info: Info{Visible: true}}}}}}
			d.Blocks = append(d.Blocks, bw, br)
			return d
		}
		out = append(out, Directed{Name: "sorted-file-nodes-only-filter-rejects-a-middle-block", Desc: mkfile(),
			Node: [3]int64{6, 100, 199}, Way: all, Relation: all, SkipWays: true, SkipRelations: true, Procs: []int{1, 2, 3}})
		out = append(out, Directed{Name: "sorted-file-nodes-only-filter-rejects-the-first-block", Desc: mkfile(),
			Node: [3]int64{6, 0, 99}, Way: all, Relation: all, SkipWays: true, SkipRelations: true, Procs: []int{1, 7}})
		out = append(out, Directed{Name: "sorted-file-ways-only", Desc: mkfile(),
			Node: all, Way: all, Relation: all, SkipNodes: true, SkipRelations: true, Procs: []int{1, 2}})
	}

	// 4. a stream without a header block (restart at an offset), several distinguishable data
	//    blocks, more than one decoder
	{
		d := &FileDesc{}
		for blk := int64(0); blk < 7; blk++ {
			b := &Block{Strings: []string{""}}
			b.Zlib = blk%3 == 1
			switch blk % 3 {
			case 0:
				dn := &Dense{}
				for k := int64(1); k <= 3; k++ {
					dn.Nodes = append(dn.Nodes, DenseNode{ID: 1000*blk + k, Lat: k, Lon: -k, Info: Info{Visible: true}})
				}
				b.Groups = []*Group{{Items: []Item{{Dense: dn}}}}
			case 1:
				b.Groups = []*Group{{Items: []Item{{Way: &Way{ID: 1000*blk + 1, Refs: []int64{1, 2}, Info: Info{Visible: true}, Tags: []Tag{b.Tag("block", "way")}}},
					{Way: &Way{ID: 1000*blk + 2, Info: Info{Visible: true}}}}}}
			case 2:
				b.Groups = []*Group{{Items: []Item{{Relation: &Relation{ID: 1000*blk + 1, Info: Info{Visible: true}, Members: []Member{{Type: 0, Ref: 5, RoleSid: 0}}}}}}}
			}
			d.Blocks = append(d.Blocks, b)
		}
		out = append(out, Directed{Name: "headerless-restart-stream", Desc: d, Node: all, Way: all, Relation: [3]int64{5, 6, 0}, Procs: []int{1, 2, 3, 7, 16}})
		two := &FileDesc{Blocks: d.Blocks[:2]}
		out = append(out, Directed{Name: "headerless-two-blocks", Desc: two, Node: evenIDs, Way: all, Relation: all, Procs: []int{1, 2, 3}})
	}

	// 5. first-class zero values: every optional column/field PRESENT and zero
	{
		d := &FileDesc{Header: stdHeader()}
		for blk, dg := range []*int32{nil, I32(1), I32(60000)} {
			b := &Block{Strings: []string{""}, DateGranularity: dg}
			b.Sid("someone")
			dn := &Dense{HasInfo: true, Cols: AllInfo, HasKeysVals: true}
			ts := []int64{0, 0, 7, 7, 0, -3, 0}
			for k, t := range ts {
				n := DenseNode{ID: int64(k), Info: Info{Timestamp: t, Visible: k%2 == 0}}
				if k == 3 {
					n.Lat, n.Lon, n.Info.Version, n.Info.UID, n.Info.Changeset, n.Info.UserSid = 9, -9, 2, 3, 4, 1
					n.Tags = []Tag{{K: 1, V: 0}, {K: 1, V: 1}} // a dense tag whose VALUE is string 0 (""): only a key 0 is the delimiter
				}
				dn.Nodes = append(dn.Nodes, n)
			}
			only := &Dense{HasInfo: true, Cols: InfoFields{Timestamp: true}, Nodes: []DenseNode{{ID: 50, Info: Info{Visible: true}}, {ID: 51, Info: Info{Visible: true, Timestamp: 1}}, {ID: 52, Info: Info{Visible: true}}}}
			zw := &Way{ID: 0, HasInfo: true, Fields: AllInfo, Info: Info{}, ForceTags: true, ForceRefs: true}
			zw2 := &Way{ID: int64(blk), HasInfo: true, Fields: InfoFields{Timestamp: true, Visible: true}, Info: Info{Visible: true}, Refs: []int64{0, 0}, HasLocs: true, Lats: []int64{0, 0}, Lons: []int64{0, 0},
				Tags: []Tag{{0, 0}}}
			zr := &Relation{ID: 0, HasInfo: true, Fields: AllInfo, Info: Info{}, Members: []Member{{Type: 0, Ref: 0, RoleSid: 0}}, Tags: []Tag{{0, 0}}}
			b.Groups = []*Group{{Items: []Item{{Dense: dn}}}, {Items: []Item{{Dense: only}}}, {Items: []Item{{Way: zw}, {Way: zw2}}}, {Items: []Item{{Relation: zr}}}}
			d.Blocks = append(d.Blocks, b)
		}
		out = append(out, Directed{Name: "zero-values-present", Desc: d, Node: [3]int64{4, 0, 0}, Way: all, Relation: all, Procs: []int{1, 2}})
	}

	// 6. plain (non-dense) Node messages next to dense nodes.  Not a valid description for this
	//    decoder (Validate fails): used only by the harnesses that do not need Elements.
	{
		b0 := &Block{Strings: []string{""}}
		b0.Groups = []*Group{{Items: []Item{{Dense: &Dense{Nodes: []DenseNode{{ID: 1, Lat: 1, Lon: 1, Info: Info{Visible: true}}}}}}}}
		b1 := &Block{Strings: []string{""}}
		b1.Groups = []*Group{{Items: []Item{
			{Node: &PlainNode{ID: 7, Lat: 10, Lon: 20, HasInfo: true, Fields: AllInfo, Info: Info{Version: 2, Timestamp: 1200000000, Changeset: 9, UID: 4, UserSid: b1.Sid("mapper"), Visible: true}, Tags: []Tag{b1.Tag("natural", "tree")}}},
			{Node: &PlainNode{ID: 8, Lat: 11, Lon: 21, Info: Info{Visible: true}}}}},
			{Items: []Item{{Way: &Way{ID: 3, Refs: []int64{7, 8}, Info: Info{Visible: true}}}}}}
		d := &FileDesc{Header: stdHeader(), Blocks: []*Block{b0, b1}}
		out = append(out, Directed{Name: "plain-nodes", Desc: d, Node: all, Way: all, Relation: all, SkipNodes: true, Procs: []int{1, 2}})
		out = append(out, Directed{Name: "plain-nodes-filter", Desc: d, Node: [3]int64{1, 0, 0}, Way: all, Relation: all, Procs: []int{1}})
	}
	// 7. counts around allocation-size thresholds: tags per element 255/256/257 (and many small
	//    elements after them), refs and members 0/1/511/512/513 (thorough: 2047/2048/2049) per element
	{
		b := &Block{Strings: []string{""}}
		var keys []uint32
		for k := 0; k < 16; k++ {
			keys = append(keys, b.Sid(string(rune('a'+k))+"key"))
		}
		tags := func(n int, salt int) []Tag {
			var ts []Tag
			for k := 0; k < n; k++ {
				ts = append(ts, Tag{keys[(k+salt)%16], keys[(k*7+salt)%16]})
			}
			return ts
		}
		var ways, rels []Item
		dn := &Dense{HasKeysVals: true}
		for i, n := range []int{255, 1, 256, 0, 257, 2, 300, 1, 1, 3} {
			ways = append(ways, Item{Way: &Way{ID: int64(i + 1), Info: Info{Visible: true}, Tags: tags(n, i), Refs: []int64{int64(i)}}})
			rels = append(rels, Item{Relation: &Relation{ID: int64(i + 1), Info: Info{Visible: true}, Tags: tags(n, i+3),
				Members: []Member{{Type: int32(i % 3), Ref: int64(i), RoleSid: int32(keys[i])}}}})
			dn.Nodes = append(dn.Nodes, DenseNode{ID: int64(i + 1), Lat: int64(i), Lon: int64(-i), Info: Info{Visible: true}, Tags: tags(n, i+5)})
		}
		b.Groups = []*Group{{Items: ways}, {Items: rels}, {Items: []Item{{Dense: dn}}}}
		b2 := &Block{Strings: []string{""}, BlobOpts: BlobOpts{Zlib: true}}
		var many []Item
		counts := []int{511, 1, 512, 0, 513}
		if thorough {
			counts = []int{2047, 1, 2048, 0, 2049}
		}
		for i, n := range counts {
			w := &Way{ID: int64(100 + i), Info: Info{Visible: true}, HasLocs: i%2 == 0}
			for k := 0; k < n; k++ {
				w.Refs = append(w.Refs, int64(k%50+1))
				if w.HasLocs {
					w.Lats, w.Lons = append(w.Lats, int64(k)), append(w.Lons, int64(-k))
				}
			}
			many = append(many, Item{Way: w})
			r := &Relation{ID: int64(100 + i), Info: Info{Visible: true}}
			for k := 0; k < n; k++ {
				r.Members = append(r.Members, Member{Type: int32(k % 3), Ref: int64(k % 40), RoleSid: 0})
			}
			many = append(many, Item{Relation: r})
		}
		b2.Groups = []*Group{{Items: many}}
		out = append(out, Directed{Name: "counts-at-allocation-thresholds", Desc: &FileDesc{Header: stdHeader(), Blocks: []*Block{b, b2}},
			Node: evenIDs, Way: evenIDs, Relation: evenIDs, Procs: []int{1, 2}})
	}

	// 8. string corners (valid UTF-8 only: Validate keeps descriptions JSON-faithful): BOM, combining
	//    vs precomposed, NUL, U+2028, astral plane, leading/trailing space, 300 NUL bytes; as keys,
	//    values, roles and user names
	{
		b := &Block{Strings: []string{""}}
		strs := []string{"\ufeffbom", "e\u0301", "\u00e9", "a\x00b", "\u2028", "\U0001F600", " lead", "trail ", string(make([]byte, 300))}
		var items []Item
		for i, s := range strs {
			o := strs[(i+1)%len(strs)]
			items = append(items, Item{Way: &Way{ID: int64(i + 1), HasInfo: true, Fields: InfoFields{UserSid: true}, Info: Info{UserSid: b.Sid(s), Visible: true}, Tags: []Tag{b.Tag(s, o), b.Tag(o, s)}}})
			items = append(items, Item{Relation: &Relation{ID: int64(i + 1), Info: Info{Visible: true}, Members: []Member{{Type: 1, Ref: 1, RoleSid: int32(b.Sid(s))}}, Tags: []Tag{b.Tag(o, "")}}})
		}
		dn := &Dense{HasKeysVals: true, HasInfo: true, Cols: InfoFields{UserSid: true}}
		for i, s := range strs {
			dn.Nodes = append(dn.Nodes, DenseNode{ID: int64(i + 1), Info: Info{UserSid: b.Sid(s), Visible: true}, Tags: []Tag{b.Tag(s, strs[(i+2)%len(strs)])}})
		}
		b.Groups = []*Group{{Items: items}, {Items: []Item{{Dense: dn}}}}
		out = append(out, Directed{Name: "string-corners", Desc: &FileDesc{Header: stdHeader(), Blocks: []*Block{b}},
			Node: [3]int64{3, 0, 0}, Way: evenIDs, Relation: evenIDs, Procs: []int{1, 3}})
	}
	// 9. a DenseNodes message without any column (what a protobuf encoder writes for a group without
	//    nodes) between ordinary groups, and the same group with its three columns written with length 0
	{
		b := &Block{Strings: []string{""}}
		dn := &Dense{Nodes: []DenseNode{{ID: 1, Lat: 1, Lon: 1, Info: Info{Visible: true}}, {ID: 2, Lat: 2, Lon: 2, Info: Info{Visible: true}}}}
		b.Groups = []*Group{{Items: []Item{{Dense: dn}}}, {Items: []Item{{Dense: &Dense{OmitEmptyCols: true}}}},
			{Items: []Item{{Way: &Way{ID: 5, Refs: []int64{1, 2}, Info: Info{Visible: true}}}, {Dense: &Dense{OmitEmptyCols: true}}, {Dense: &Dense{}}}},
			{Items: []Item{{Dense: &Dense{Nodes: []DenseNode{{ID: 3, Lat: 3, Lon: 3, Info: Info{Visible: true}}}}}}}}
		b2 := &Block{Strings: []string{""}, Groups: []*Group{{Items: []Item{{Dense: &Dense{OmitEmptyCols: true}}}}}}
		b2.Layout = Layout{Unknown: true, Seed: 5}
		out = append(out, Directed{Name: "empty-dense-message", Desc: &FileDesc{Header: stdHeader(), Blocks: []*Block{b, b2, b}},
			Node: evenIDs, Way: all, Relation: all, Procs: []int{1, 2}})
	}
	return out
}
