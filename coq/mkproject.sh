#!/bin/sh
# regenerates _CoqProject (and the Makefile when the file list changed)
cd "$(dirname "$0")"
{ echo "-Q theories Verif"; echo "-Q gen VerifGen"; echo "-arg -w -arg -notation-overridden,-deprecated-hint-without-locality,-deprecated-instance-without-locality"; find theories gen -name '*.v' | sort; } > _CoqProject.new
if ! cmp -s _CoqProject.new _CoqProject || [ ! -f Makefile ]; then
  mv _CoqProject.new _CoqProject
  coq_makefile -f _CoqProject -o Makefile >/dev/null
else
  rm -f _CoqProject.new
fi
