(* coq/extract/Extract_C18.v — volume path (notes/xcheck.md): the case checker of C18 as OCaml.
   ExtrOcamlBasic only (bool, option, list, prod, unit, sumbool become OCaml's); Z, N, positive,
   nat, string, ascii stay the Coq inductives.  Compiled by lib/vextract.py inside a work
   directory (coqc writes the .ml into its current directory). *)
From Coq Require Extraction ExtrOcamlBasic.
Require Verif.C18.Check.
Extraction "c18_check.ml" Verif.C18.Check.check_case.
