(* Pipeline/Model.v — L3: the PBF decoding pipeline and the Scanner as an interleaving
   labelled transition system (executable definitions only; proofs are in Pipeline/Proofs*.v).

   Anchors: /repo/osmpbf/decode.go (Start: reader goroutine, n worker goroutines, serializer
   goroutine; Next; Close) and /repo/osmpbf/scanner.go (Header, Scan, Err, Close).

   Abstractions (DESIGN.md 4.1 L3):
   * a file is a list of [item]s, the outcomes of successive readFileBlock calls *after* the
     header: a data block with its abstract decode outcome ([IBlock objs] | [IBad e]) or a read
     error ([IRdErr e], e.g. the final io.EOF); every read past the list is [IRdErr eEOF].
   * channels are FIFO lists; capacity of each worker input/output channel is budget/n (budget = 10; integer
     division; 0 = unbuffered = rendezvous: a send is enabled only while the receiver is
     committed to receiving from that empty channel), capacity of the ordered channel is n.
   * every blocking operation is one step; a [select] with several ready cases is resolved by
     the label (d = true: the ctx.Done branch), so "all schedules" includes all resolutions.
   * the reader's deferred close of all inputs is one step (it commutes with everything the
     workers can observe), a worker's exit closes its output, the serializer's exit closes the
     ordered queue and cancels the context.
   * ghost fields (never read by a transition): o_pos of a pair, delivered, c_cnt, rac, third. *)
From Coq Require Import List ZArith Bool Arith.
Import ListNotations.

Definition obj := Z.
Definition err := Z.            (* 0 = nil *)
Definition eNone : err := 0%Z.
Definition eEOF : err := 1%Z.     (* io.EOF *)
Definition eClosed : err := 2%Z.  (* osm.ErrScannerClosed *)
Definition eCtx : err := 3%Z.     (* ctx.Err() of a cancelled context *)
Definition is_err (e : err) : bool := negb (Z.eqb e 0).

Inductive item :=
| IBlock (os : list obj)   (* OSMData block that decodes to os *)
| IBad (e : err)           (* OSMData block whose Decode fails with e *)
| IRdErr (e : err).        (* readFileBlock fails with e (io.EOF at the end) *)

Definition input := list item.
Definition rd (inp : input) (k : nat) : item := nth k inp (IRdErr eEOF).
Definition is_rderr (it : item) : bool := match it with IRdErr _ => true | _ => false end.

Record opair := mkO { o_pos : nat; o_objs : list obj; o_err : err }.
Definition zero_pair : opair := mkO 0 [] 0%Z.

(* the worker body: Decode for a blob, pass-through for an input error *)
Definition decode (p : nat * item) : opair :=
  match snd p with
  | IBlock os => mkO (fst p) os 0%Z
  | IBad e => mkO (fst p) [] e
  | IRdErr e => mkO (fst p) [] e
  end.

(* static configuration *)
Record cfg := mkCfg {
  c_n : nat;          (* number of workers after the n < 1 -> 1 clamp *)
  c_inp : input;      (* what the reader goroutine will read, in order *)
  c_resume : bool;    (* first file block was not a header: it is item 0 and goes to input 0 *)
  c_hdr_err : err;    (* non-zero: Start fails with this error (no goroutine is started) *)
  c_and : bool;       (* reader loop condition: true  ctx.Err()==nil && err==nil  (repaired, 687d55c)
                                                false ctx.Err()==nil || err==nil  (original) *)
  c_recheck : bool;   (* serializer re-checks ctx.Err() after every receive (repaired, 413adf1);
                         false: original code, forwards whatever it received *)
  c_nextctx : bool;   (* true (repaired, 1677bc6): the serializer never writes cData.Err, Next takes
                         the error of a closed ordered queue from cData.Err, else ctx.Err(), and
                         stores io.EOF; false (original): the serializer stores ctx.Err() into
                         cData.Err on its Done branches and Next reports cData.Err or io.EOF *)
  c_budget : nat      (* numChanels := c_budget / n : capacity of every worker input/output channel
                         (10 in the source; no theorem depends on the value) *)
}.
(* the code as it is now *)
Definition current (c : cfg) : bool := c_and c && c_recheck c && c_nextctx c.
Definition cap (c : cfg) : nat := c_budget c / c_n c.
Definition loop_cond (c : cfg) (ctx_ok err_nil : bool) : bool :=
  if c_and c then ctx_ok && err_nil else ctx_ok || err_nil.

Inductive rpc :=
| RTest (e : bool)                       (* at the loop condition; e: err != nil *)
| RRead                                  (* about to call readFileBlock *)
| RSend (k : nat) (it : item) (sel : bool) (* holding pair k for input k mod n; sel: inside select *)
| RDone.
Inductive wpc := WRecv | WSend (o : opair) | WDone.
Inductive spc := SRecv | SChk (p : opair) | SSend (p : opair) | SDone.
Inductive cpc := CIdle | CNext | CClose.   (* consumer: outside, blocked in Next, in wg.Wait *)

Record worker := mkW { w_in : list (nat * item); w_pc : wpc; w_out : list opair }.
Definition w0 : worker := mkW [] WRecv [].
Definition dummy_w : worker := mkW [] WDone [].

Record state := mkS {
  running : bool;
  cancelled : bool;
  r_pc : rpc;
  r_pos : nat;
  ws : list worker;
  s_pc : spc;
  s_cnt : nat;
  oq : list opair;
  oq_closed : bool;
  cd_objs : list obj;
  cd_err : err;
  c_pc : cpc;
  started : bool;
  closed : bool;
  pcancelled : bool;
  s_err : err;
  delivered : list obj;
  c_cnt : nat;
  rac : nat;
  third : bool
}.

Definition set_running (v : bool) (s : state) : state := mkS v (cancelled s) (r_pc s) (r_pos s) (ws s) (s_pc s) (s_cnt s) (oq s) (oq_closed s) (cd_objs s) (cd_err s) (c_pc s) (started s) (closed s) (pcancelled s) (s_err s) (delivered s) (c_cnt s) (rac s) (third s).
Definition set_cancelled (v : bool) (s : state) : state := mkS (running s) v (r_pc s) (r_pos s) (ws s) (s_pc s) (s_cnt s) (oq s) (oq_closed s) (cd_objs s) (cd_err s) (c_pc s) (started s) (closed s) (pcancelled s) (s_err s) (delivered s) (c_cnt s) (rac s) (third s).
Definition set_r_pc (v : rpc) (s : state) : state := mkS (running s) (cancelled s) v (r_pos s) (ws s) (s_pc s) (s_cnt s) (oq s) (oq_closed s) (cd_objs s) (cd_err s) (c_pc s) (started s) (closed s) (pcancelled s) (s_err s) (delivered s) (c_cnt s) (rac s) (third s).
Definition set_r_pos (v : nat) (s : state) : state := mkS (running s) (cancelled s) (r_pc s) v (ws s) (s_pc s) (s_cnt s) (oq s) (oq_closed s) (cd_objs s) (cd_err s) (c_pc s) (started s) (closed s) (pcancelled s) (s_err s) (delivered s) (c_cnt s) (rac s) (third s).
Definition set_ws (v : list worker) (s : state) : state := mkS (running s) (cancelled s) (r_pc s) (r_pos s) v (s_pc s) (s_cnt s) (oq s) (oq_closed s) (cd_objs s) (cd_err s) (c_pc s) (started s) (closed s) (pcancelled s) (s_err s) (delivered s) (c_cnt s) (rac s) (third s).
Definition set_s_pc (v : spc) (s : state) : state := mkS (running s) (cancelled s) (r_pc s) (r_pos s) (ws s) v (s_cnt s) (oq s) (oq_closed s) (cd_objs s) (cd_err s) (c_pc s) (started s) (closed s) (pcancelled s) (s_err s) (delivered s) (c_cnt s) (rac s) (third s).
Definition set_s_cnt (v : nat) (s : state) : state := mkS (running s) (cancelled s) (r_pc s) (r_pos s) (ws s) (s_pc s) v (oq s) (oq_closed s) (cd_objs s) (cd_err s) (c_pc s) (started s) (closed s) (pcancelled s) (s_err s) (delivered s) (c_cnt s) (rac s) (third s).
Definition set_oq (v : list opair) (s : state) : state := mkS (running s) (cancelled s) (r_pc s) (r_pos s) (ws s) (s_pc s) (s_cnt s) v (oq_closed s) (cd_objs s) (cd_err s) (c_pc s) (started s) (closed s) (pcancelled s) (s_err s) (delivered s) (c_cnt s) (rac s) (third s).
Definition set_oq_closed (v : bool) (s : state) : state := mkS (running s) (cancelled s) (r_pc s) (r_pos s) (ws s) (s_pc s) (s_cnt s) (oq s) v (cd_objs s) (cd_err s) (c_pc s) (started s) (closed s) (pcancelled s) (s_err s) (delivered s) (c_cnt s) (rac s) (third s).
Definition set_cd_objs (v : list obj) (s : state) : state := mkS (running s) (cancelled s) (r_pc s) (r_pos s) (ws s) (s_pc s) (s_cnt s) (oq s) (oq_closed s) v (cd_err s) (c_pc s) (started s) (closed s) (pcancelled s) (s_err s) (delivered s) (c_cnt s) (rac s) (third s).
Definition set_cd_err (v : err) (s : state) : state := mkS (running s) (cancelled s) (r_pc s) (r_pos s) (ws s) (s_pc s) (s_cnt s) (oq s) (oq_closed s) (cd_objs s) v (c_pc s) (started s) (closed s) (pcancelled s) (s_err s) (delivered s) (c_cnt s) (rac s) (third s).
Definition set_c_pc (v : cpc) (s : state) : state := mkS (running s) (cancelled s) (r_pc s) (r_pos s) (ws s) (s_pc s) (s_cnt s) (oq s) (oq_closed s) (cd_objs s) (cd_err s) v (started s) (closed s) (pcancelled s) (s_err s) (delivered s) (c_cnt s) (rac s) (third s).
Definition set_started (v : bool) (s : state) : state := mkS (running s) (cancelled s) (r_pc s) (r_pos s) (ws s) (s_pc s) (s_cnt s) (oq s) (oq_closed s) (cd_objs s) (cd_err s) (c_pc s) v (closed s) (pcancelled s) (s_err s) (delivered s) (c_cnt s) (rac s) (third s).
Definition set_closed (v : bool) (s : state) : state := mkS (running s) (cancelled s) (r_pc s) (r_pos s) (ws s) (s_pc s) (s_cnt s) (oq s) (oq_closed s) (cd_objs s) (cd_err s) (c_pc s) (started s) v (pcancelled s) (s_err s) (delivered s) (c_cnt s) (rac s) (third s).
Definition set_pcancelled (v : bool) (s : state) : state := mkS (running s) (cancelled s) (r_pc s) (r_pos s) (ws s) (s_pc s) (s_cnt s) (oq s) (oq_closed s) (cd_objs s) (cd_err s) (c_pc s) (started s) (closed s) v (s_err s) (delivered s) (c_cnt s) (rac s) (third s).
Definition set_s_err (v : err) (s : state) : state := mkS (running s) (cancelled s) (r_pc s) (r_pos s) (ws s) (s_pc s) (s_cnt s) (oq s) (oq_closed s) (cd_objs s) (cd_err s) (c_pc s) (started s) (closed s) (pcancelled s) v (delivered s) (c_cnt s) (rac s) (third s).
Definition set_delivered (v : list obj) (s : state) : state := mkS (running s) (cancelled s) (r_pc s) (r_pos s) (ws s) (s_pc s) (s_cnt s) (oq s) (oq_closed s) (cd_objs s) (cd_err s) (c_pc s) (started s) (closed s) (pcancelled s) (s_err s) v (c_cnt s) (rac s) (third s).
Definition set_c_cnt (v : nat) (s : state) : state := mkS (running s) (cancelled s) (r_pc s) (r_pos s) (ws s) (s_pc s) (s_cnt s) (oq s) (oq_closed s) (cd_objs s) (cd_err s) (c_pc s) (started s) (closed s) (pcancelled s) (s_err s) (delivered s) v (rac s) (third s).
Definition set_rac (v : nat) (s : state) : state := mkS (running s) (cancelled s) (r_pc s) (r_pos s) (ws s) (s_pc s) (s_cnt s) (oq s) (oq_closed s) (cd_objs s) (cd_err s) (c_pc s) (started s) (closed s) (pcancelled s) (s_err s) (delivered s) (c_cnt s) v (third s).
Definition set_third (v : bool) (s : state) : state := mkS (running s) (cancelled s) (r_pc s) (r_pos s) (ws s) (s_pc s) (s_cnt s) (oq s) (oq_closed s) (cd_objs s) (cd_err s) (c_pc s) (started s) (closed s) (pcancelled s) (s_err s) (delivered s) (c_cnt s) (rac s) v.

Definition getw (i : nat) (l : list worker) : worker := nth i l dummy_w.
Fixpoint setw (i : nat) (w : worker) (l : list worker) : list worker :=
  match l, i with
  | [], _ => []
  | _ :: r, O => w :: r
  | x :: r, S j => x :: setw j w r
  end.

Definition init (c : cfg) : state :=
  mkS false false
      (if c_resume c then RSend 0 (rd (c_inp c) 0) false else RTest false)
      (if c_resume c then 1 else 0)
      (repeat w0 (c_n c))
      SRecv 0 [] false [] 0%Z CIdle false false false 0%Z [] 0 0 false.

Inductive call := CScan | CHeader | CErr | CCloseCall | CCancel | CCancel3.
Inductive label :=
| LRd (d : bool) | LWk (i : nat) (d : bool) | LSe (d : bool)   (* pipeline goroutines *)
| LCo                                                          (* consumer inside Next / Close *)
| LApi (a : call).                                             (* environment *)
Inductive output := OScan (ok : bool) (v : obj) | OHeader (e : err) | OErr (e : err) | OClose.

(* channel send enabledness: buffered with room, or rendezvous *)
Definition can_send (cp len : nat) (rcv_waiting : bool) : bool :=
  if cp =? 0 then (len =? 0) && rcv_waiting else len <? cp.

Definition is_wrecv (p : wpc) : bool := match p with WRecv => true | _ => false end.
Definition is_wdone (p : wpc) : bool := match p with WDone => true | _ => false end.
Definition is_rdone (p : rpc) : bool := match p with RDone => true | _ => false end.
Definition is_sdone (p : spc) : bool := match p with SDone => true | _ => false end.
Definition ser_waiting_on (c : cfg) (s : state) (i : nat) : bool :=
  match s_pc s with SRecv => s_cnt s mod c_n c =? i | _ => false end.

Definition all_done (s : state) : bool :=
  negb (running s) ||
  (is_rdone (r_pc s) && forallb (fun w => is_wdone (w_pc w)) (ws s) && is_sdone (s_pc s)).

(* ---- reader goroutine (decode.go: "start reading OSMData") ---- *)
Definition step_reader (c : cfg) (d : bool) (s : state) : option state :=
  match r_pc s, d with
  | RTest e, false =>
      if loop_cond c (negb (cancelled s)) (negb e) then Some (set_r_pc RRead s)
      else Some (set_r_pc RDone s)                   (* deferred: close every input *)
  | RRead, false =>
      let k := r_pos s in
      Some (set_r_pc (RSend k (rd (c_inp c) k) true)
           (set_r_pos (S k)
           (set_rac (rac s + (if cancelled s then 1 else 0)) s)))
  | RSend k it sel, false =>
      let i := k mod c_n c in
      let w := getw i (ws s) in
      if can_send (cap c) (length (w_in w)) (is_wrecv (w_pc w)) then
        Some (set_r_pc (RTest (is_rderr it))
             (set_ws (setw i (mkW (w_in w ++ [(k, it)]) (w_pc w) (w_out w)) (ws s)) s))
      else None
  | RSend k it true, true =>
      if cancelled s then Some (set_r_pc (RTest (is_rderr it)) s) else None
  | _, _ => None
  end.

(* ---- worker goroutine i ---- *)
Definition step_worker (c : cfg) (i : nat) (d : bool) (s : state) : option state :=
  if i <? c_n c then
    let w := getw i (ws s) in
    match w_pc w, d with
    | WRecv, false =>
        match w_in w with
        | x :: q => Some (set_ws (setw i (mkW q (WSend (decode x)) (w_out w)) (ws s)) s)
        | [] => if is_rdone (r_pc s)
                then Some (set_ws (setw i (mkW [] WDone (w_out w)) (ws s)) s)  (* close(output) *)
                else None
        end
    | WSend o, false =>
        if can_send (cap c) (length (w_out w)) (ser_waiting_on c s i) then
          Some (set_ws (setw i (mkW (w_in w) WRecv (w_out w ++ [o])) (ws s)) s)
        else None
    | WSend o, true =>
        if cancelled s then Some (set_ws (setw i (mkW (w_in w) WRecv (w_out w)) (ws s)) s)
        else None
    | _, _ => None
    end
  else None.

(* ---- serializer goroutine ---- *)
Definition ser_exit (s : state) : state :=
  set_s_pc SDone (set_oq_closed true (set_cancelled true s)).

Definition ser_done_branch (c : cfg) (s : state) : option state :=
  if cancelled s then
    Some (ser_exit (if c_nextctx c then s else set_cd_err eCtx s))   (* original: dec.cData.Err = ctx.Err() *)
  else None.

Definition step_ser (c : cfg) (d : bool) (s : state) : option state :=
  match s_pc s, d with
  | SRecv, false =>
      let i := s_cnt s mod c_n c in
      let w := getw i (ws s) in
      match w_out w with
      | p :: q => Some (set_s_pc (SChk p) (set_s_cnt (S (s_cnt s))
                       (set_ws (setw i (mkW (w_in w) (w_pc w) q) (ws s)) s)))
      | [] => if is_wdone (w_pc w)       (* closed and empty: the zero value *)
              then Some (set_s_pc (SChk zero_pair) (set_s_cnt (S (s_cnt s)) s))
              else None
      end
  | SChk p, false =>                     (* if dec.ctx.Err() != nil { return } *)
      if c_recheck c && cancelled s then Some (ser_exit s) else Some (set_s_pc (SSend p) s)
  | SSend p, false =>
      if length (oq s) <? c_n c then
        let s1 := set_oq (oq s ++ [p]) s in
        if is_err (o_err p) then Some (ser_exit s1) else Some (set_s_pc SRecv s1)
      else None
  | SRecv, true | SSend _, true => ser_done_branch c s
  | _, _ => None
  end.

(* ---- consumer: the body of decoder.Next, and the wg.Wait of Close ---- *)
Definition next_closed_err (c : cfg) (s : state) : err :=
  if is_err (cd_err s) then cd_err s
  else if c_nextctx c && cancelled s then eCtx else eEOF.

Definition step_cons (c : cfg) (s : state) : option (state * list output) :=
  match c_pc s with
  | CIdle => None
  | CClose => if all_done s then Some (set_c_pc CIdle s, [OClose]) else None
  | CNext =>
      match cd_objs s with
      | v :: rest =>                                   (* return v, dec.cData.Err *)
          if is_err (cd_err s) then
            Some (set_c_pc CIdle (set_cd_objs rest (set_s_err (cd_err s) s)), [OScan false v])
          else
            Some (set_c_pc CIdle (set_cd_objs rest (set_delivered (delivered s ++ [v]) s)),
                  [OScan true v])
      | [] =>
          match oq s with
          | cdp :: q =>
              let s1 := set_oq q (set_c_cnt (S (c_cnt s)) s) in
              if Z.eqb (o_err cdp) eEOF then
                if c_nextctx c then                    (* dec.cData.Err = io.EOF; return nil, io.EOF *)
                  Some (set_c_pc CIdle (set_s_err eEOF (set_cd_err eEOF s1)), [OScan false 0%Z])
                else
                  Some (set_c_pc CIdle (set_s_err (if is_err (cd_err s) then cd_err s else eEOF) s1),
                        [OScan false 0%Z])
              else Some (set_cd_objs (o_objs cdp) (set_cd_err (o_err cdp) s1), [])
          | [] => if oq_closed s
                  then Some (set_c_pc CIdle (set_s_err (next_closed_err c s) s), [OScan false 0%Z])
                  else None
          end
      end
  end.

(* ---- API calls of the scanning goroutine, and cancellation ---- *)
Definition ensure_started (c : cfg) (s : state) : state :=
  if started s then s
  else if is_err (c_hdr_err c) then set_started true (set_s_err (c_hdr_err c) s)
  else set_started true (set_running true s).

Definition err_value (s : state) : err :=         (* Scanner.Err *)
  if Z.eqb (s_err s) eEOF then 0%Z
  else if is_err (s_err s) then s_err s
  else if closed s then eClosed
  else if pcancelled s then eCtx else 0%Z.

Definition is_cidle (p : cpc) : bool := match p with CIdle => true | _ => false end.

Definition step_api (c : cfg) (a : call) (s : state) : option (state * list output) :=
  match a with
  | CCancel3 =>                                    (* another goroutine cancels the context *)
      Some (set_third true (set_pcancelled true (set_cancelled true s)), [])
  | _ =>
    if is_cidle (c_pc s) then
      match a with
      | CScan =>
          let s1 := ensure_started c s in
          if is_err (s_err s1) || closed s1 || pcancelled s1 then Some (s1, [OScan false 0%Z])
          else Some (set_c_pc CNext s1, [])
      | CHeader => let s1 := ensure_started c s in Some (s1, [OHeader (s_err s1)])
      | CErr => Some (s, [OErr (err_value s)])
      | CCloseCall => Some (set_c_pc CClose (set_closed true (set_cancelled true s)), [])
      | CCancel => Some (set_pcancelled true (set_cancelled true s), [])
      | CCancel3 => None
      end
    else None
  end.

Definition lift (o : option state) : option (state * list output) :=
  match o with Some s => Some (s, []) | None => None end.

Definition step (c : cfg) (l : label) (s : state) : option (state * list output) :=
  match l with
  | LRd d => if running s then lift (step_reader c d s) else None
  | LWk i d => if running s then lift (step_worker c i d s) else None
  | LSe d => if running s then lift (step_ser c d s) else None
  | LCo => step_cons c s
  | LApi a => step_api c a s
  end.

(* run a schedule; labels that are not enabled are skipped *)
Fixpoint run (c : cfg) (sched : list label) (s : state) : state * list output :=
  match sched with
  | [] => (s, [])
  | l :: r =>
      match step c l s with
      | Some (s', o) => let (s'', o') := run c r s' in (s'', o ++ o')
      | None => run c r s
      end
  end.

(* ---- specification side (visibly simpler): what a scan of the file means ---- *)
Fixpoint expected (inp : input) : list obj :=
  match inp with IBlock os :: r => os ++ expected r | _ => [] end.
Fixpoint final_err (inp : input) : err :=
  match inp with
  | IBlock _ :: r => final_err r
  | IBad e :: _ => e
  | IRdErr e :: _ => e
  | [] => eEOF
  end.
Fixpoint wf_input (inp : input) : bool :=
  match inp with
  | [] => true
  | IBlock _ :: r => wf_input r
  | IBad e :: r => is_err e && wf_input r
  | IRdErr e :: r => is_err e && wf_input r
  end.
Definition wf_cfg (c : cfg) : bool :=
  (1 <=? c_n c) && wf_input (c_inp c) &&
  (if c_resume c then negb (is_rderr (rd (c_inp c) 0)) && negb (length (c_inp c) =? 0) else true).

Fixpoint prefixb (a b : list Z) : bool :=
  match a, b with
  | [], _ => true
  | x :: a', y :: b' => Z.eqb x y && prefixb a' b'
  | _ :: _, [] => false
  end.
