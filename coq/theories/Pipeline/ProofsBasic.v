(* Pipeline/ProofsBasic.v — reachability, case analysis of steps, and the simple invariants:
   flags are monotone, bounded read-ahead after cancellation, Scan is false after a stop. *)
From Coq Require Import List ZArith Bool Arith Lia.
From Verif Require Import Pipeline.Model.
Import ListNotations.

Inductive reach (c : cfg) : state -> Prop :=
| reach_init : reach c (init c)
| reach_step : forall s l s' o, reach c s -> step c l s = Some (s', o) -> reach c s'.

Lemma run_reach : forall c sched s, reach c s -> reach c (fst (run c sched s)).
Proof.
  induction sched as [|l r IH]; intros s H; [exact H|].
  cbn. destruct (step c l s) as [[s' o]|] eqn:E.
  - specialize (IH s' (reach_step c s l s' o H E)). destruct (run c r s'). exact IH.
  - apply IH. exact H.
Qed.

(* break a hypothesis  step c l s = Some (s', o)  into its cases *)
Ltac step_unfold H :=
  unfold step, lift, step_reader, step_worker, step_ser, ser_done_branch, step_cons, step_api in H.
Ltac step_split H :=
  repeat match type of H with
  | context [match ?x with _ => _ end] =>
      lazymatch x with
      | context [match _ with _ => _ end] => fail
      | _ => destruct x eqn:?; try discriminate H
      end
  end.
Ltac step_cases H := step_unfold H; step_split H; injection H as <- <-.

Ltac fin := repeat split; intros; try discriminate; try congruence; try lia; auto.

Lemma ensure_started_flags : forall c s,
  cancelled (ensure_started c s) = cancelled s /\ closed (ensure_started c s) = closed s /\
  pcancelled (ensure_started c s) = pcancelled s /\ rac (ensure_started c s) = rac s /\
  r_pc (ensure_started c s) = r_pc s /\ c_pc (ensure_started c s) = c_pc s /\
  delivered (ensure_started c s) = delivered s.
Proof. intros c s. unfold ensure_started. destruct (started s); [|destruct (is_err (c_hdr_err c))]; cbn; auto 10. Qed.

(* ---- monotone flags ---- *)
Lemma step_flags_mono : forall c l s s' o, step c l s = Some (s', o) ->
  (cancelled s = true -> cancelled s' = true) /\ (closed s = true -> closed s' = true) /\
  (pcancelled s = true -> pcancelled s' = true) /\ (closed s = true \/ pcancelled s = true -> cancelled s = true -> True).
Proof.
  intros c l s s' o H.
  destruct l as [d|i d|d| |a]; [| | | |destruct a]; step_cases H; cbn;
    repeat match goal with |- context [ensure_started c s] =>
      destruct (ensure_started_flags c s) as (-> & -> & -> & _) end; auto.
  all: repeat split; intros; try discriminate; try congruence; auto.
Qed.

(* ---- bounded read-ahead (repaired loop condition) ---- *)
Definition rac_inv (s : state) : Prop :=
  (cancelled s = false -> rac s = 0) /\ rac s <= 1 /\ (r_pc s = RRead -> rac s = 0).

Lemma rac_inv_init : forall c, rac_inv (init c).
Proof. intros c. unfold rac_inv, init. cbn. repeat split; auto. Qed.

Lemma rac_inv_step : forall c l s s' o, c_and c = true -> rac_inv s -> step c l s = Some (s', o) -> rac_inv s'.
Proof.
  intros c l s s' o Hand (H1 & H2 & H3) H. unfold rac_inv.
  destruct l as [d|i d|d| |a]; [| | | |destruct a]; step_cases H; cbn;
    repeat match goal with |- context [ensure_started c s] =>
      destruct (ensure_started_flags c s) as (-> & _ & _ & -> & -> & _) end.
  all: try specialize (H3 eq_refl).
  all: try match goal with Hc : loop_cond _ _ _ = true |- _ =>
         unfold loop_cond in Hc; rewrite Hand in Hc; apply andb_true_iff in Hc;
         destruct Hc as [Hc _]; apply negb_true_iff in Hc end.
  all: try match goal with Hc : cancelled _ = false |- _ => pose proof (H1 Hc) end.
  all: fin.
Qed.

Lemma reach_rac_inv : forall c s, c_and c = true -> reach c s -> rac_inv s.
Proof.
  intros c s Hand H. induction H as [|s l s' o Hr IH Hs]; [apply rac_inv_init|].
  exact (rac_inv_step c l s s' o Hand IH Hs).
Qed.

(* at most one further block read starts after the internal context is cancelled *)
Lemma bounded_read_ahead : forall c s, c_and c = true -> reach c s -> rac s <= 1.
Proof. intros c s Hand H. exact (proj1 (proj2 (reach_rac_inv c s Hand H))). Qed.

(* ---- Scan after Close / cancel ---- *)
Definition scan_true (o : output) : bool := match o with OScan true _ => true | _ => false end.

(* a Scan call issued after Close or after the context was cancelled returns false at once *)
Lemma scan_after_stop_false : forall c s s' o, step c (LApi CScan) s = Some (s', o) ->
  closed s = true \/ pcancelled s = true ->
  o = [OScan false 0%Z] /\ c_pc s' = CIdle /\ delivered s' = delivered s.
Proof.
  intros c s s' o H Hs. cbn in H. destruct (is_cidle (c_pc s)) eqn:Ei; [|discriminate].
  destruct (ensure_started_flags c s) as (_ & Hc & Hp & _ & _ & Hpc & Hd).
  rewrite Hc, Hp in H.
  assert (is_err (s_err (ensure_started c s)) || closed s || pcancelled s = true)%bool as Hb.
  { destruct Hs as [-> | ->]; rewrite ?orb_true_r; reflexivity. }
  rewrite Hb in H. injection H as <- <-. repeat split; try assumption.
  rewrite Hpc. destruct (c_pc s); try discriminate; reflexivity.
Qed.

(* when every stop is issued by the scanning goroutine, no Scan is in flight after a stop *)
Definition idle_inv (s : state) : Prop :=
  third s = false -> (closed s = true \/ pcancelled s = true) -> c_pc s <> CNext.

Lemma idle_inv_step : forall c l s s' o, idle_inv s -> step c l s = Some (s', o) -> idle_inv s'.
Proof.
  intros c l s s' o HI H. unfold idle_inv in *.
  destruct l as [d|i d|d| |a]; [| | | |destruct a]; step_cases H; cbn;
    repeat match goal with |- context [ensure_started c s] =>
      destruct (ensure_started_flags c s) as (_ & -> & -> & _ & _ & -> & _) end;
    intros Ht Hs; try discriminate; try (apply HI; assumption); try congruence;
    try (match goal with Hp : is_cidle (c_pc s) = true |- _ => destruct (c_pc s); try discriminate; congruence end);
    try (destruct (ensure_started_flags c s) as (_ & Hq1 & Hq2 & _);
         match goal with Hb : (_ || _ || _)%bool = false |- _ =>
           rewrite Hq1, Hq2 in Hb;
           apply orb_false_iff in Hb; destruct Hb as [Hb Hb2]; apply orb_false_iff in Hb; destruct Hb as [Hb0 Hb1] end;
         destruct Hs; congruence).
  all: exfalso; apply (HI Ht Hs); reflexivity.
Qed.

Lemma reach_idle_inv : forall c s, reach c s -> idle_inv s.
Proof.
  intros c s H. induction H as [|s l s' o Hr IH Hs].
  - unfold idle_inv, init. cbn. discriminate.
  - exact (idle_inv_step c l s s' o IH Hs).
Qed.

Lemma no_true_scan_after_self_stop : forall c l s s' o, reach c s -> step c l s = Some (s', o) ->
  third s' = false -> (closed s = true \/ pcancelled s = true) ->
  forallb (fun x => negb (scan_true x)) o = true.
Proof.
  intros c l s s' o Hr H Ht Hs.
  pose proof (reach_idle_inv c s Hr) as HI. unfold idle_inv in HI.
  destruct l as [d|i d|d| |a]; [| | | |destruct a]; step_cases H; cbn in *; try reflexivity.
  all: exfalso; apply HI; try assumption; try congruence.
Qed.
