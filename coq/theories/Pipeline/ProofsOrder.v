(* Pipeline/ProofsOrder.v — the order invariant, downstream half: from the serializer's context
   re-check to the consumer.  The upstream half (the per-worker chain invariant of DESIGN.md 4.1:
   queue_out i ++ held i ++ queue_in i ++ reader-held = results of the increasing run of positions
   = i mod n between serializer and reader position) is stated as the predicate [up_ok] on states
   and is NOT proved here.  This file currently holds the definitions of the invariant, the
   specification-side prefix lemma and the base case; the inductive step is unfinished. *)
From Coq Require Import List ZArith Bool Arith Lia.
From Verif Require Import Pipeline.Model Pipeline.ProofsBasic.
Import ListNotations.

Definition objs_of (it : item) : list obj := match it with IBlock os => os | _ => [] end.
Definition err_of (it : item) : err := match it with IBlock _ => 0%Z | IBad e => e | IRdErr e => e end.

Lemma decode_objs : forall k it, o_objs (decode (k, it)) = objs_of it.
Proof. intros k [os|e|e]; reflexivity. Qed.
Lemma decode_err : forall k it, o_err (decode (k, it)) = err_of it.
Proof. intros k [os|e|e]; reflexivity. Qed.
Lemma objs_or_err : forall it, objs_of it = [] \/ err_of it = 0%Z.
Proof. intros [os|e|e]; cbn; auto. Qed.

Lemma rd_cons : forall x inp k, rd (x :: inp) (S k) = rd inp k.
Proof. reflexivity. Qed.

(* the prefix lemma: objects of the first m positions, all but the last error free *)
Lemma pre_prefix : forall inp m, wf_input inp = true ->
  (forall k, k + 1 < m -> err_of (rd inp k) = 0%Z) ->
  exists t, concat (map (fun k => objs_of (rd inp k)) (seq 0 m)) ++ t = expected inp.
Proof.
  induction inp as [|x inp IH]; intros m Hwf H.
  - exists []. rewrite app_nil_r. cbn. induction (seq 0 m) as [|a l IHl]; [reflexivity|].
    cbn. destruct a; cbn; exact IHl.
  - destruct m as [|m']; [exists (expected (x :: inp)); reflexivity|].
    rewrite <- cons_seq, <- seq_shift. cbn [map concat]. rewrite map_map.
    change (rd (x :: inp) 0) with x.
    destruct x as [os|e|e]; cbn [objs_of expected wf_input] in *.
    + destruct (IH m' Hwf) as [t Ht].
      { intros k Hk. specialize (H (S k)). rewrite rd_cons in H. apply H. lia. }
      exists t. rewrite <- app_assoc. f_equal. exact Ht.
    + apply andb_true_iff in Hwf. destruct Hwf as [He _].
      destruct m' as [|m'']; [exists []; reflexivity|].
      specialize (H 0). cbn in H. rewrite H in He by lia. discriminate.
    + apply andb_true_iff in Hwf. destruct Hwf as [He _].
      destruct m' as [|m'']; [exists []; reflexivity|].
      specialize (H 0). cbn in H. rewrite H in He by lia. discriminate.
Qed.

Section Order.
Variable c : cfg.
Hypothesis Hwf : wf_input (c_inp c) = true.
Hypothesis Hre : c_recheck c = true.
Hypothesis Hnx : c_nextctx c = true.

Definition res (k : nat) : opair := decode (k, rd (c_inp c) k).
Definition errfree (m : nat) : Prop := forall k, k < m -> o_err (res k) = 0%Z.
Definition pre (m : nat) : list obj := concat (map (fun k => objs_of (rd (c_inp c) k)) (seq 0 m)).
Definition sheld (s : state) : list opair := match s_pc s with SSend p => [p] | _ => [] end.
Definition fwd (s : state) : nat := c_cnt s + length (oq s).   (* items pushed into the ordered queue *)

(* what the upstream half has to guarantee: the item the serializer holds when it re-checks the
   context is, unless the context is already cancelled, the next block in file order *)
Definition up_ok (s : state) : Prop :=
  cancelled s = false -> match s_pc s with SChk p => p = res (fwd s) | _ => True end.

Inductive reach_up : state -> Prop :=
| ru_init : reach_up (init c)
| ru_step : forall s l s' o, reach_up s -> up_ok s -> step c l s = Some (s', o) -> reach_up s'.

Definition dinv (s : state) : Prop :=
  oq s ++ sheld s = map res (seq (c_cnt s) (length (oq s ++ sheld s))) /\
  errfree (fwd s - 1) /\ (s_pc s <> SDone -> errfree (fwd s)) /\
  delivered s ++ cd_objs s = pre (c_cnt s) /\
  (cd_objs s = [] \/ cd_err s = 0%Z).

Arguments pre : simpl never.
Arguments res : simpl never.

Lemma pre_S : forall m, pre (S m) = pre m ++ o_objs (res m).
Proof.
  intros m. unfold pre. rewrite seq_S, map_app, concat_app. cbn. rewrite app_nil_r.
  unfold res. rewrite decode_objs. reflexivity.
Qed.

Lemma map_res_S : forall a m, map res (seq a (S m)) = map res (seq a m) ++ [res (a + m)].
Proof. intros a m. rewrite seq_S, map_app. reflexivity. Qed.

Lemma errfree_le : forall a b, a <= b -> errfree b -> errfree a.
Proof. intros a b H Hb k Hk. apply Hb. lia. Qed.

Lemma dinv_init : dinv (init c).
Proof.
  unfold dinv, init, fwd, sheld, errfree. cbn. repeat split; auto; intros; lia.
Qed.

(* The inductive step  dinv s -> up_ok s -> step c l s = Some (s', o) -> dinv s'  and its
   corollary

     delivered_is_prefix_partial : forall s, reach_up s -> exists t, delivered s ++ t = expected (c_inp c)

   are NOT finished (reader, worker, serializer and API cases are done, the consumer case is
   not); the script so far is kept in /verif/notes/C02_ProofsOrder_unfinished.v.txt.  The full
   statement, with [reach] instead of [reach_up], additionally needs the upstream chain invariant
   of DESIGN.md 4.1. *)

End Order.
