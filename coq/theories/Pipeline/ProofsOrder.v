(* Pipeline/ProofsOrder.v — the order invariant lifted to [step] and [reach]; the order theorem
   delivered_is_prefix for every n >= 1, every input, every schedule (every interleaving of
   reader, workers, serializer, consumer and API calls incl. concurrent cancellation, every
   resolution of every select). *)
From Coq Require Import List ZArith Bool Arith Lia.
From Verif Require Import Pipeline.Model Pipeline.ProofsBasic Pipeline.ProofsChain.
Import ListNotations.

Section Order.
Variable c : cfg.
Hypothesis Hn : 1 <= c_n c.
Hypothesis Hwf : wf_input (c_inp c) = true.
Hypothesis Hre : c_recheck c = true.
Hypothesis Hnx : c_nextctx c = true.

Definition Inv (s : state) : Prop :=
  length (ws s) = c_n c /\
  DnC c (s_pc s) (oq s) (cd_objs s) (cd_err s) (delivered s) (c_cnt s) /\
  (cancelled s = false -> UpC c (r_pc s) (r_pos s) (ws s) (s_pc s) (s_cnt s) (oq s) (c_cnt s)).

Lemma inv_init : Inv (init c).
Proof.
  unfold Inv, init. cbn. split; [apply repeat_length|]. split.
  - unfold DnC. cbn. repeat split; auto; intros k Hk; lia.
  - intros _. unfold UpC. cbn [sheld]. destruct (c_resume c).
    + split; [lia|]. split; [|split; [|split; [|split; [|split]]]].
      * intros i Hi. rewrite (getw_repeat (c_n c) i Hi). unfold outs_w, want. cbn.
        destruct (0 mod c_n c =? i); reflexivity.
      * intros E; discriminate E.
      * intros e E; discriminate E.
      * intros k it sel E. injection E as <- <- _. split; reflexivity.
      * intros i Hi Hd. rewrite (getw_repeat (c_n c) i Hi) in Hd. discriminate Hd.
      * reflexivity.
    + split; [lia|]. split; [|split; [|split; [|split; [|split]]]].
      * intros i Hi. rewrite (getw_repeat (c_n c) i Hi). reflexivity.
      * intros E; discriminate E.
      * intros e E He. injection E as <-. discriminate He.
      * intros k it sel E; discriminate E.
      * intros i Hi Hd. rewrite (getw_repeat (c_n c) i Hi) in Hd. discriminate Hd.
      * reflexivity.
Qed.

Lemma inv_reader : forall d s s', Inv s -> step_reader c d s = Some s' -> Inv s'.
Proof.
  intros d s s' (HL & HD & HU) H. unfold step_reader in H. step_split H; injection H as <-;
    unfold Inv; cbn; (split; [rewrite ?setw_length; exact HL|]); (split; [exact HD|]); intros Hc;
    try (rewrite Hc in *; discriminate); first [specialize (HU Hc) | specialize (HU eq_refl)].
  - eapply up_r_test_read; eassumption.
  - match goal with Hl : loop_cond _ _ _ = false |- _ => rename Hl into Hloop end.
    destruct e.
    + eapply up_r_test_done; eassumption.
    + exfalso. rewrite ?Hc in Hloop. unfold loop_cond in Hloop. destruct (c_and c); discriminate Hloop.
  - eapply up_r_read; eassumption.
  - eapply up_r_send; eassumption.
  - eapply up_r_send; eassumption.
Qed.

Lemma inv_worker : forall i d s s', Inv s -> step_worker c i d s = Some s' -> Inv s'.
Proof.
  intros i d s s' (HL & HD & HU) H. unfold step_worker in H. step_split H; injection H as <-;
    unfold Inv; cbn; (split; [rewrite ?setw_length; exact HL|]); (split; [exact HD|]); intros Hc;
    try (rewrite Hc in *; discriminate); first [specialize (HU Hc) | specialize (HU eq_refl)].
  all: match goal with Hi : (_ <? _) = true |- _ => apply Nat.ltb_lt in Hi end.
  - assert (r_pc s = RDone) as Hr.
    { match goal with Hd : is_rdone (r_pc s) = true |- _ => destruct (r_pc s); try discriminate Hd; reflexivity end. }
    eapply up_w_done; eassumption.
  - eapply up_w_take; eassumption.
  - eapply up_w_send; eassumption.
Qed.

Lemma inv_ser : forall d s s', Inv s -> step_ser c d s = Some s' -> Inv s'.
Proof.
  intros d s s' (HL & HD & HU) H. unfold step_ser, ser_done_branch, ser_exit in H. step_split H; injection H as <-;
    unfold Inv; cbn; (split; [rewrite ?setw_length; exact HL|]).
  all: try discriminate Hnx.
  - (* SRecv, Done branch *)
    split; [eapply dn_s_exit; eassumption|intros Hc; discriminate Hc].
  - (* SRecv, closed empty output: only after cancellation *)
    split; [eapply dn_s_idle; try eassumption; try reflexivity; discriminate|].
    intros Hc. specialize (HU Hc). exfalso.
    assert (errfree c (s_cnt s)) as Hef.
    { destruct HD as (_ & _ & E1 & _). destruct HU as (_ & _ & _ & _ & _ & _ & U6). rewrite U6. apply E1. discriminate. }
    assert (w_pc (getw (s_cnt s mod c_n c) (ws s)) = WDone) as Hwd.
    { match goal with Hd : is_wdone ?x = true |- _ => destruct x; try discriminate Hd; reflexivity end. }
    eapply up_s_zero_absurd; eassumption.
  - (* SRecv, receive *)
    split; [eapply dn_s_idle; try eassumption; try reflexivity; discriminate|].
    intros Hc. specialize (HU Hc).
    match goal with Ho : w_out _ = _ :: _ |- _ => destruct (up_s_take c Hn _ _ _ _ _ _ _ _ HL Ho HU) as [_ HU'] end.
    exact HU'.
  - (* SChk: context cancelled: exit *)
    split; [eapply dn_s_exit; eassumption|intros Hc; discriminate Hc].
  - (* SChk: forward *)
    match goal with Hb : (c_recheck c && cancelled s)%bool = false |- _ => rewrite Hre in Hb; cbn in Hb end.
    match goal with Hb : cancelled s = false |- _ => specialize (HU Hb) end.
    split; [|intros _; eapply up_s_chk_send; eassumption].
    eapply dn_s_chk_send; [|eassumption]. destruct HU as (_ & _ & _ & _ & _ & _ & U6). exact (proj2 U6).
  - (* SSend, Done branch *)
    split; [eapply dn_s_exit; eassumption|intros Hc; discriminate Hc].
  - (* SSend: pushed an error item: exit *)
    split; [eapply dn_s_push_exit; eassumption|intros Hc; discriminate Hc].
  - (* SSend: pushed *)
    match goal with He : is_err (o_err p) = false |- _ =>
      unfold is_err in He; apply negb_false_iff, Z.eqb_eq in He; rename He into Herr end.
    split; [eapply dn_s_push; eassumption|].
    intros Hc. specialize (HU Hc). eapply up_s_push; eassumption.
Qed.




Lemma inv_cons : forall s s' o, Inv s -> step_cons c s = Some (s', o) -> Inv s'.
Proof.
  intros s s' o HI H. unfold step_cons, next_closed_err in H. step_split H; injection H as <- <-;
    destruct HI as (HL & HD & HU); unfold Inv; cbn; (split; [exact HL|]).
  all: try discriminate Hnx.
  all: try (split; assumption).
  all: repeat match goal with Hq : cd_objs _ = _ |- _ => rewrite ?Hq; rewrite Hq in HD; clear Hq end.
  all: repeat match goal with Hq : oq _ = _ |- _ => rewrite Hq in HD, HU; clear Hq end.
  - (* the EOF item *)
    match goal with He : (o_err _ =? eEOF)%Z = true |- _ => apply Z.eqb_eq in He end.
    split; [eapply dn_c_recv_eof; eassumption|].
    intros Hc. specialize (HU Hc). eapply up_c_recv; eassumption.
  - (* a data item *)
    pose proof HD as HD'. eapply dn_c_recv in HD'; try exact Hn; try exact Hwf. destruct HD' as [_ HD']. split; [exact HD'|].
    intros Hc. specialize (HU Hc). eapply up_c_recv; eassumption.
  - (* object while cData.Err is set: impossible *)
    exfalso. pose proof HD as HD'. eapply dn_c_deliver in HD'; try exact Hn; try exact Hwf. destruct HD' as [Hz _].
    match goal with He : is_err (cd_err s) = true |- _ => unfold is_err in He; rewrite Hz in He; discriminate He end.
  - (* deliver *)
    pose proof HD as HD'. eapply dn_c_deliver in HD'; try exact Hn; try exact Hwf. destruct HD' as [_ HD']. split; [exact HD'|exact HU].
Qed.

Lemma ensure_started_inv : forall s, Inv s -> Inv (ensure_started c s).
Proof.
  intros s H. unfold ensure_started. destruct (started s); [exact H|].
  destruct (is_err (c_hdr_err c)); exact H.
Qed.

Lemma inv_cancel : forall s, Inv s -> Inv (set_cancelled true s).
Proof. intros s (HL & HD & HU). unfold Inv. cbn. split; [exact HL|]. split; [exact HD|]. intros E; discriminate E. Qed.

Lemma inv_api : forall a s s' o, Inv s -> step_api c a s = Some (s', o) -> Inv s'.
Proof.
  intros a s s' o HI H. unfold step_api in H.
  destruct a; step_split H; injection H as <- <-.
  all: try exact HI.
  all: try (apply ensure_started_inv; exact HI).
  all: try (pose proof (ensure_started_inv s HI) as (HL & HD & HU); unfold Inv; cbn; repeat split; assumption).
  all: try (destruct HI as (HL & HD & HU); unfold Inv; cbn; split; [exact HL|]; split; [exact HD|]; intros E; discriminate E).
Qed.

Lemma inv_step : forall l s s' o, Inv s -> step c l s = Some (s', o) -> Inv s'.
Proof.
  intros l s s' o HI H. destruct l as [d|i d|d| |a]; cbn in H.
  - destruct (running s); [|discriminate H]. destruct (step_reader c d s) eqn:E; [|discriminate H].
    injection H as <- <-. eapply inv_reader; eassumption.
  - destruct (running s); [|discriminate H]. destruct (step_worker c i d s) eqn:E; [|discriminate H].
    injection H as <- <-. eapply inv_worker; eassumption.
  - destruct (running s); [|discriminate H]. destruct (step_ser c d s) eqn:E; [|discriminate H].
    injection H as <- <-. eapply inv_ser; eassumption.
  - eapply inv_cons; eassumption.
  - eapply inv_api; eassumption.
Qed.

Lemma reach_inv : forall s, reach c s -> Inv s.
Proof.
  intros s H. induction H as [|s l s' o Hr IH Hs]; [apply inv_init|].
  exact (inv_step l s s' o IH Hs).
Qed.

(* THE ORDER THEOREM: whatever the schedule, what the consumer has been given is a prefix of the
   file's elements in file order: nothing lost, duplicated, or moved between blocks *)
Lemma delivered_is_prefix : forall s, reach c s -> exists t, delivered s ++ t = expected (c_inp c).
Proof.
  intros s H. destruct (reach_inv s H) as (_ & (D1 & E0 & E1 & D4 & D7) & _).
  destruct (pre_prefix (c_inp c) (c_cnt s) Hwf) as [t Ht].
  - intros k Hk. specialize (E0 k). unfold res in E0. rewrite decode_err in E0. apply E0. lia.
  - exists (cd_objs s ++ t). rewrite app_assoc, D4. exact Ht.
Qed.

End Order.

(* ---- closed forms ---- *)
Lemma wf_cfg_parts : forall c, wf_cfg c = true -> 1 <= c_n c /\ wf_input (c_inp c) = true.
Proof.
  intros c H. unfold wf_cfg in H. apply andb_true_iff in H. destruct H as [H _].
  apply andb_true_iff in H. destruct H as [H1 H2]. apply Nat.leb_le in H1. auto.
Qed.

Theorem delivered_is_prefix_all : forall c s,
  wf_cfg c = true -> c_recheck c = true -> c_nextctx c = true -> reach c s ->
  exists t, delivered s ++ t = expected (c_inp c).
Proof.
  intros c s Hwf Hre Hnx H. destruct (wf_cfg_parts c Hwf) as [Hn Hi].
  exact (delivered_is_prefix c Hn Hi Hre Hnx s H).
Qed.

(* the ghost [delivered] is exactly the sequence of objects returned by successful Scans *)
Definition scan_vals (o : list output) : list obj :=
  flat_map (fun x => match x with OScan true v => [v] | _ => [] end) o.

Lemma step_delivered_outputs : forall c l s s' o, step c l s = Some (s', o) ->
  delivered s' = delivered s ++ scan_vals o.
Proof.
  intros c l s s' o H.
  destruct l as [d|i d|d| |a]; [| | | |destruct a]; step_cases H; cbn;
    repeat match goal with |- context [ensure_started c s] =>
      destruct (ensure_started_flags c s) as (_ & _ & _ & _ & _ & _ & ->) end;
    rewrite ?app_nil_r; reflexivity.
Qed.

Lemma run_delivered_outputs : forall c sched s,
  delivered (fst (run c sched s)) = delivered s ++ scan_vals (snd (run c sched s)).
Proof.
  induction sched as [|l r IH]; intros s; cbn; [rewrite app_nil_r; reflexivity|].
  destruct (step c l s) as [[s' o]|] eqn:E.
  - specialize (IH s'). destruct (run c r s') as [s'' o'] eqn:E2. cbn in *.
    rewrite IH, (step_delivered_outputs c l s s' o E). unfold scan_vals.
    rewrite flat_map_app, app_assoc. reflexivity.
  - apply IH.
Qed.

(* consumer-visible form: the objects returned by the successful Scans of ANY run are a prefix of
   the file's elements *)
Theorem scans_are_prefix : forall c sched,
  wf_cfg c = true -> c_recheck c = true -> c_nextctx c = true ->
  exists t, scan_vals (snd (run c sched (init c))) ++ t = expected (c_inp c).
Proof.
  intros c sched Hwf Hre Hnx.
  pose proof (run_delivered_outputs c sched (init c)) as H. cbn [delivered init] in H.
  destruct (delivered_is_prefix_all c (fst (run c sched (init c))) Hwf Hre Hnx) as [t Ht].
  { apply run_reach. constructor. }
  exists t. rewrite <- Ht, H. reflexivity.
Qed.
