(* Pipeline/ProofsPos.v — the position tag of a pair travels with its own block.

   decode.go: the reader puts the byte offset of a block into the pair it sends to a worker
   (pair.Offset), the worker copies it into its result (oPair{Offset: p.Offset, ...}), the
   serializer forwards the result, and Next publishes the Offset of the pair it takes
   (FullyScannedBytes).  In the LTS the tag is [o_pos], the index of the block in the file, set by
   the reader and copied by [decode]; the byte offset of block k is a function of k and the file.

   Statement: under EVERY schedule, for every worker count, the j-th pair the consumer takes from
   the ordered queue (j = c_cnt, the number of pairs taken before) is the result of block j ITSELF:
   its tag is j, its objects are the objects of block j, its error is the error of block j.  So
   the offset Next publishes with a block's objects is that block's own offset: it cannot be
   swapped with, or lag behind, that of another block whatever the interleaving of the workers.
   This is what property C09 needs from the pipeline (the sequential model Framing/Model.v
   [blocks_loop] delivers (offset, objects) pairs in file order by construction).

   Everything follows from the order invariant of ProofsChain.v / ProofsOrder.v (DnC, clause D1). *)
From Coq Require Import List ZArith Bool Arith Lia.
From Verif Require Import Pipeline.Model Pipeline.ProofsBasic Pipeline.ProofsChain Pipeline.ProofsOrder.
Import ListNotations.

Section Pos.
Variable c : cfg.
Hypothesis Hn : 1 <= c_n c.
Hypothesis Hwf : wf_input (c_inp c) = true.
Hypothesis Hre : c_recheck c = true.
Hypothesis Hnx : c_nextctx c = true.

Lemma nth_map_seq : forall (f : nat -> opair) len a j p,
  nth_error (map f (seq a len)) j = Some p -> p = f (a + j).
Proof.
  induction len as [|len IH]; intros a j p H.
  - destruct j; discriminate.
  - destruct j as [|j]; cbn in H.
    + inversion H. rewrite Nat.add_0_r. reflexivity.
    + rewrite (IH (S a) j p H). f_equal. lia.
Qed.

(* the ordered queue holds, in order, the results of blocks c_cnt, c_cnt + 1, ... *)
Lemma oq_holds_own_blocks : forall s, reach c s ->
  forall j p, nth_error (oq s) j = Some p ->
  p = decode (c_cnt s + j, rd (c_inp c) (c_cnt s + j)).
Proof.
  intros s H j p Hj.
  destruct (reach_inv c Hn Hwf Hre Hnx s H) as (_ & (D1 & _) & _).
  assert (Hj' : nth_error (oq s ++ sheld (s_pc s)) j = Some p).
  { rewrite nth_error_app1; [exact Hj|]. apply nth_error_Some. rewrite Hj. discriminate. }
  rewrite D1 in Hj'. exact (nth_map_seq (res c) _ _ _ _ Hj').
Qed.

(* the pair Next is about to take *)
Theorem next_takes_own_block : forall s p q, reach c s -> oq s = p :: q ->
  o_pos p = c_cnt s /\
  o_objs p = objs_of (rd (c_inp c) (c_cnt s)) /\
  o_err p = err_of (rd (c_inp c) (c_cnt s)).
Proof.
  intros s p q H E.
  pose proof (oq_holds_own_blocks s H 0 p) as P. rewrite E in P. specialize (P eq_refl).
  rewrite Nat.add_0_r in P. subst p. rewrite decode_objs, decode_err.
  destruct (rd (c_inp c) (c_cnt s)); repeat split; reflexivity.
Qed.

(* ... and c_cnt moves exactly when a pair is taken: a consumer step that increments it removes
   the head of the ordered queue, which is block c_cnt's own result; what Next then hands out
   (cd_objs) are that block's objects *)
Theorem taken_pair_is_own_block : forall s s' o, reach c s ->
  step c LCo s = Some (s', o) -> c_cnt s' = S (c_cnt s) ->
  exists p, oq s = p :: oq s' /\
            o_pos p = c_cnt s /\
            o_objs p = objs_of (rd (c_inp c) (c_cnt s)) /\
            o_err p = err_of (rd (c_inp c) (c_cnt s)).
Proof.
  intros s s' o H St Hc. cbn [step] in St. unfold step_cons in St.
  destruct (c_pc s).
  - discriminate.
  - destruct (cd_objs s) as [|v rest].
    + destruct (oq s) as [|p q] eqn:Eq.
      * destruct (oq_closed s); [|discriminate]. inversion St; subst. cbn in Hc. lia.
      * exists p. split.
        { destruct (Z.eqb (o_err p) eEOF); [destruct (c_nextctx c)|]; inversion St; subst; reflexivity. }
        exact (next_takes_own_block s p q H Eq).
    + destruct (is_err (cd_err s)); inversion St; subst; cbn in Hc; lia.
  - destruct (all_done s); [|discriminate]. inversion St; subst. cbn in Hc. lia.
Qed.

End Pos.
