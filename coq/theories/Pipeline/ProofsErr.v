(* Pipeline/ProofsErr.v — what the recorded error means: Err precedence, "nil only after a
   complete scan", and completion of runs without cancellation. *)
From Coq Require Import List ZArith Bool Arith Lia.
From Verif Require Import Pipeline.Model Pipeline.ProofsBasic Pipeline.ProofsChain Pipeline.ProofsOrder Pipeline.ProofsLive.
Import ListNotations.

(* specification side: if the first m positions are error free and position m carries error e,
   the file's elements are exactly the objects of the first m blocks and its final error is e *)
Lemma spec_end : forall inp m e, wf_input inp = true ->
  (forall k, k < m -> err_of (rd inp k) = 0%Z) -> err_of (rd inp m) = e -> e <> 0%Z ->
  expected inp = concat (map (fun k => objs_of (rd inp k)) (seq 0 m)) /\ final_err inp = e.
Proof.
  induction inp as [|x inp IH]; intros m e Hwf H He Hne.
  - destruct m as [|m'].
    + cbn in *. split; [reflexivity|exact He].
    + exfalso. specialize (H 0 ltac:(lia)). cbn in H. discriminate H.
  - destruct m as [|m'].
    + cbn in He. cbn [seq map concat]. destruct x as [os|e0|e0]; cbn in *; try (split; [reflexivity|exact He]).
      exfalso. apply Hne. symmetry. exact He.
    + pose proof (H 0 ltac:(lia)) as H0. cbn in H0.
      destruct x as [os|e0|e0]; cbn [err_of] in H0;
        try (exfalso; cbn in Hwf; apply andb_true_iff in Hwf; destruct Hwf as [Hz _]; rewrite H0 in Hz; discriminate Hz).
      cbn [wf_input] in Hwf. rewrite rd_cons in He.
      destruct (IH m' e Hwf) as [IH1 IH2]; try assumption.
      { intros k Hk. specialize (H (S k) ltac:(lia)). rewrite rd_cons in H. exact H. }
      rewrite <- cons_seq, <- seq_shift. cbn [map concat expected final_err]. rewrite map_map.
      change (rd (IBlock os :: inp) 0) with (IBlock os). cbn [objs_of].
      split; [|exact IH2]. f_equal. rewrite IH1. reflexivity.
Qed.

Arguments getw : simpl never.
Arguments setw : simpl never.

Section Err.
Variable c : cfg.
Hypothesis Hn : 1 <= c_n c.
Hypothesis Hwf : wf_input (c_inp c) = true.
Hypothesis Hre : c_recheck c = true.
Hypothesis Hnx : c_nextctx c = true.

Notation fwd s := (c_cnt s + length (oq s)).

Definition KInv (s : state) : Prop :=
  (* the error in cData is the error of the last block received *)
  (c_cnt s = 0 -> cd_err s = 0%Z) /\
  (1 <= c_cnt s -> cd_err s = o_err (res c (c_cnt s - 1))) /\
  (cd_err s <> 0%Z -> cd_objs s = []) /\
  (* where a recorded error comes from *)
  (started s = false -> s_err s = 0%Z) /\
  (s_err s <> 0%Z ->
     (running s = false /\ s_err s = c_hdr_err c) \/
     (s_err s = eCtx /\ cancelled s = true /\ cd_err s = 0%Z /\ oq s = [] /\ oq_closed s = true) \/
     (s_err s = cd_err s)) /\
  (* why the internal context is cancelled *)
  (cancelled s = true ->
     closed s = true \/ pcancelled s = true \/
     (s_pc s = SDone /\ 1 <= fwd s /\ o_err (res c (fwd s - 1)) <> 0%Z)).

Lemma kinv_init : KInv (init c).
Proof. unfold KInv, init. cbn. repeat split; intros; try reflexivity; try lia; try discriminate; try congruence. Qed.

Lemma kinv_es : forall s, KInv s -> next_inv s -> KInv (ensure_started c s).
Proof.
  intros s K (N1 & N2 & N3). unfold ensure_started. destruct (started s) eqn:Es; [exact K|].
  destruct K as (K1 & K2 & K3 & K4 & K5 & K6).
  destruct (is_err (c_hdr_err c)) eqn:Eh; unfold KInv; cbn.
  - repeat split; try assumption; try (intros E; discriminate E).
    intros _. left. split; [exact (N3 eq_refl)|reflexivity].
  - repeat split; try assumption; try (intros E; discriminate E).
    intros Hs. exfalso. apply Hs. exact (K4 Es).
Qed.

Lemma good_err_objs : forall k, o_err (res c k) <> 0%Z -> o_objs (res c k) = [].
Proof.
  intros k H. unfold res in *. rewrite decode_err in H. rewrite decode_objs.
  destruct (objs_or_err (rd (c_inp c) k)) as [E|E]; [exact E|contradiction].
Qed.

Lemma kinv_step : forall l s s' o, Inv c s -> next_inv s -> sdone_inv s -> KInv s ->
  step c l s = Some (s', o) -> KInv s'.
Proof.
  intros l s s' o HI HN HS K H.
  destruct l as [d|i d|d| |a]; [| | | |destruct a]; step_cases H;
    try (pose proof (kinv_es s K HN) as KE);
    unfold KInv in *; cbn; try exact K; try exact KE;
    try discriminate Hnx;
    destruct K as (K1 & K2 & K3 & K4 & K5 & K6);
    destruct HN as (N1 & N2 & N3); destruct HS as ((S1 & S2) & S3);
    destruct HI as (HL & HD & HU);
    (split; [|split; [|split; [|split; [|split]]]]); try assumption;
    try (match goal with Hb : (c_recheck c && cancelled s)%bool = true |- _ => rewrite Hre in Hb; cbn in Hb end);
    try (match goal with Hq : cd_objs s = _ |- _ => rewrite Hq in HD; rewrite ?Hq in K3 end);
    try (match goal with Hq : oq s = _ :: _ |- _ => rewrite Hq in HD; rewrite Hq in K6; cbn [length] in K6;
           assert (Hx0 := HD); eapply dn_c_recv in Hx0; try exact Hn; try exact Hwf; destruct Hx0 as [Hx0 _] end);
    first
    [ (* K5 after the context got cancelled *)
      solve [ intros Hx; destruct (K5 Hx) as [A|[(A1 & A2 & A3 & A4 & A5)|A]];
              [left; exact A | right; left; repeat split; first [assumption | reflexivity | (exfalso; pose proof (S2 A5) as Hsd; congruence)] | right; right; exact A] ]
    | (* K6: cause of the cancellation unchanged / serializer not done *)
      solve [ intros Hx; first [specialize (K6 Hx) | specialize (K6 eq_refl) | (assert (cancelled s = true) as Hy by assumption; specialize (K6 Hy))];
              destruct K6 as [A|[A|(A1 & A2 & A3)]];
              [left; exact A | right; left; exact A | exfalso; congruence] ]
    | solve [ intros _; left; reflexivity ]
    | solve [ intros _; right; left; reflexivity ]
    | (* serializer pushes an item that carries an error and exits *)
      solve [ intros _; right; right; split; [reflexivity|];
              match goal with Hs : s_pc s = SSend ?p |- _ =>
                rewrite Hs in HD; destruct HD as (D1 & _); cbn [sheld] in D1;
                destruct (dn_sheld_last c _ _ _ D1) as [_ Hp] end;
              rewrite app_length; cbn [length]; split; [lia|];
              replace (c_cnt s + (length (oq s) + 1) - 1) with (c_cnt s + length (oq s)) by lia;
              rewrite <- Hp;
              match goal with He : is_err _ = true |- _ => unfold is_err in He; apply negb_true_iff, Z.eqb_neq in He; exact He end ]
    | (* consumer: Scan is in flight, so the scanner was started *)
      solve [ intros Hst; exfalso;
              match goal with Hcp : c_pc s = CNext |- _ => destruct (N1 Hcp) as [Hr _] end;
              rewrite (N3 Hst) in Hr; discriminate Hr ]
    | solve [ intros Hx; exfalso; lia ]
    | solve [ intros _; right; right; reflexivity ]
    | (* received item = result of position c_cnt *)
      solve [ intros _; rewrite Nat.sub_0_r, <- Hx0;
              first [ reflexivity
                    | symmetry; match goal with He : (o_err _ =? eEOF)%Z = true |- _ => apply Z.eqb_eq in He; exact He end ] ]
    | solve [ intros Hx; rewrite Hx0 in Hx |- *; apply good_err_objs; exact Hx ]
    | (* K6 across a receive: the count of forwarded items is unchanged *)
      solve [ intros Hx; destruct (K6 Hx) as [A|[A|(A1 & A2 & A3)]];
              [left; exact A | right; left; exact A | right; right; split; [exact A1|]];
              replace (c_cnt s + S (length l) - 1) with (c_cnt s + length l) in A3 by lia;
              rewrite Nat.sub_0_r; split; [lia|exact A3] ]
    | (* K5 while a Scan is in flight: no error recorded yet *)
      solve [ intros Hx; exfalso; match goal with Hcp : c_pc s = CNext |- _ => destruct (N1 Hcp) as [_ Hz] end; apply Hx; exact Hz ]
    | (* objects left while cData.Err is set: impossible *)
      solve [ intros Hx; specialize (K3 Hx); discriminate K3 ]
    | solve [ intros Hx; exfalso; apply Hx;
              match goal with He : is_err (cd_err s) = false |- _ => unfold is_err in He; apply negb_false_iff, Z.eqb_eq in He; exact He end ]
    | (* closed and empty ordered queue *)
      solve [ unfold next_closed_err; rewrite Hnx; intros _;
              destruct (is_err (cd_err s)) eqn:Ece; [right; right; reflexivity|];
              unfold is_err in Ece; apply negb_false_iff, Z.eqb_eq in Ece;
              match goal with Hcl : oq_closed s = true |- _ => pose proof (S3 Hcl) as Hca end;
              rewrite Hca; cbn; right; left; repeat split; assumption ]
    | solve [ intros _; assumption ] ].
Qed.

Lemma reach_kinv : forall s, reach c s -> KInv s.
Proof.
  intros s H. induction H as [|s l s' o Hr IH Hs]; [apply kinv_init|].
  exact (kinv_step l s s' o (reach_inv c Hn Hwf Hre Hnx s Hr) (reach_next c s Hr) (reach_sdone c s Hr) IH Hs).
Qed.


Definition complete (s : state) (e : err) : Prop :=
  delivered s = expected (c_inp c) /\ final_err (c_inp c) = e.

(* an error in cData means: every element before the file's final error has been delivered *)
Lemma cd_err_complete : forall s, reach c s -> cd_err s <> 0%Z -> complete s (cd_err s).
Proof.
  intros s Hr Hne. destruct (reach_kinv s Hr) as (K1 & K2 & K3 & _).
  destruct (reach_inv c Hn Hwf Hre Hnx s Hr) as (_ & (D1 & E0 & E1 & D4 & D7) & _).
  assert (1 <= c_cnt s) as Hcc by (destruct (c_cnt s); [exfalso; apply Hne; apply K1; reflexivity|lia]).
  specialize (K2 Hcc). rewrite (K3 Hne), app_nil_r in D4.
  destruct (spec_end (c_inp c) (c_cnt s - 1) (cd_err s) Hwf) as [S1 S2].
  - intros k Hk. specialize (E0 k ltac:(lia)). unfold res in E0. rewrite decode_err in E0. exact E0.
  - rewrite K2. unfold res. rewrite decode_err. reflexivity.
  - exact Hne.
  - split; [|exact S2]. rewrite D4, S1.
    replace (c_cnt s) with (S (c_cnt s - 1)) at 1 by lia. rewrite pre_S.
    rewrite good_err_objs by (rewrite <- K2; exact Hne). rewrite app_nil_r. reflexivity.
Qed.

(* what a recorded error can be *)
Lemma recorded_error : forall s, reach c s -> s_err s <> 0%Z ->
  (running s = false /\ s_err s = c_hdr_err c) \/
  (s_err s = eCtx /\ cancelled s = true) \/
  complete s (s_err s).
Proof.
  intros s Hr Hne. destruct (reach_kinv s Hr) as (_ & _ & _ & _ & K5 & _).
  destruct (K5 Hne) as [A|[(A1 & A2 & _)|A]]; [left; exact A|right; left; split; assumption|].
  right; right. rewrite A. apply cd_err_complete; [exact Hr|]. rewrite <- A. exact Hne.
Qed.

(* Err() == nil only after a complete scan (or while nothing has ended or stopped the scan yet) *)
Lemma err_nil_only_complete : forall s, reach c s -> c_hdr_err c <> eEOF -> err_value s = 0%Z ->
  (s_err s = eEOF /\ complete s eEOF) \/ (s_err s = 0%Z /\ closed s = false /\ pcancelled s = false).
Proof.
  intros s Hr Hh Hv. unfold err_value in Hv.
  destruct (Z.eqb (s_err s) eEOF) eqn:E1.
  - left. apply Z.eqb_eq in E1. split; [exact E1|].
    destruct (recorded_error s Hr) as [(_ & A)|[(A & _)|A]].
    + rewrite E1. discriminate.
    + exfalso. apply Hh. rewrite <- A. exact E1.
    + rewrite E1 in A. discriminate A.
    + rewrite E1 in A. exact A.
  - right. destruct (is_err (s_err s)) eqn:E2.
    + unfold is_err in E2. rewrite Hv in E2. discriminate E2.
    + unfold is_err in E2. apply negb_false_iff, Z.eqb_eq in E2.
      destruct (closed s); [discriminate Hv|]. destruct (pcancelled s); [discriminate Hv|]. auto.
Qed.

(* precedence: a recorded non-EOF error wins; else ErrScannerClosed after Close; else the context's
   error after cancellation; else nil *)
Lemma err_precedence : forall s,
  (s_err s <> 0%Z -> s_err s <> eEOF -> err_value s = s_err s) /\
  (s_err s = eEOF -> err_value s = 0%Z) /\
  (s_err s = 0%Z -> closed s = true -> err_value s = eClosed) /\
  (s_err s = 0%Z -> closed s = false -> pcancelled s = true -> err_value s = eCtx) /\
  (s_err s = 0%Z -> closed s = false -> pcancelled s = false -> err_value s = 0%Z).
Proof.
  intros s. unfold err_value, is_err. repeat split.
  - intros H1 H2. apply Z.eqb_neq in H1, H2. rewrite H1, H2. reflexivity.
  - intros H. rewrite H. reflexivity.
  - intros H1 H2. rewrite H1, H2. reflexivity.
  - intros H1 H2 H3. rewrite H1, H2, H3. reflexivity.
  - intros H1 H2 H3. rewrite H1, H2, H3. reflexivity.
Qed.

(* COMPLETES (safety half): in a run without Close and without cancellation of the caller's
   context, and with a readable header, a scan can only end with the file's own final error, after
   every element before it has been delivered — for EOF: the full sequence *)
Lemma completes : forall s, reach c s -> c_hdr_err c = 0%Z ->
  closed s = false -> pcancelled s = false -> s_err s <> 0%Z -> complete s (s_err s).
Proof.
  intros s Hr Hh Hcl Hpc Hne.
  destruct (reach_kinv s Hr) as (K1 & K2 & K3 & K4 & K5 & K6).
  destruct (K5 Hne) as [(_ & A)|[(A1 & A2 & A3 & A4 & A5)|A]].
  - exfalso. apply Hne. rewrite A. exact Hh.
  - exfalso. destruct (K6 A2) as [B|[B|(B1 & B2 & B3)]]; try congruence.
    rewrite A4 in B2, B3. cbn [length] in B2, B3. rewrite Nat.add_0_r in B2, B3.
    apply B3. rewrite <- (K2 B2). exact A3.
  - rewrite A. apply cd_err_complete; [exact Hr|]. rewrite <- A. exact Hne.
Qed.

(* ---- a failed Start: no goroutine, nothing moves, the start error stays ---- *)
Definition norun_inv (s : state) : Prop := running s = false -> c_cnt s = 0 /\ oq_closed s = false.

Lemma norun_step : forall l s s' o, next_inv s -> norun_inv s -> step c l s = Some (s', o) -> norun_inv s'.
Proof.
  intros l s s' o (N1 & _ & _) HI H.
  destruct l as [d|i d|d| |a]; [| | | |destruct a]; step_cases H; unfold norun_inv in *; cbn;
    try exact HI; try (intros E; discriminate E);
    try (unfold ensure_started; destruct (started s); [|destruct (is_err (c_hdr_err c))]; cbn; first [exact HI | intros E; discriminate E]).
  all: intros Hr; exfalso.
  all: try congruence.
  all: destruct (N1 eq_refl) as [Hrun _]; congruence.
Qed.

Lemma reach_norun : forall s, reach c s -> norun_inv s.
Proof.
  intros s H. induction H as [|s l s' o Hr IH Hs]; [intros _; split; reflexivity|].
  exact (norun_step l s s' o (reach_next c s Hr) IH Hs).
Qed.

(* after Start has failed, the recorded error is and stays the start error, whatever is called
   afterwards (Close, cancel, further Scan/Header): "an error recorded earlier wins" *)
Lemma start_error_wins : forall s, reach c s -> started s = true -> running s = false ->
  s_err s = c_hdr_err c /\ is_err (s_err s) = true /\ all_done s = true.
Proof.
  intros s Hr Hst Hrun. destruct (reach_next c s Hr) as (_ & N2 & _).
  pose proof (N2 Hst Hrun) as He. destruct (reach_kinv s Hr) as (K1 & _ & _ & _ & K5 & _).
  destruct (reach_norun s Hr Hrun) as [Hc Hq].
  assert (s_err s <> 0%Z) as Hne by (unfold is_err in He; apply negb_true_iff, Z.eqb_neq in He; exact He).
  split; [|split; [exact He|unfold all_done; rewrite Hrun; reflexivity]].
  destruct (K5 Hne) as [(_ & A)|[(_ & _ & _ & _ & A)|A]]; [exact A| |].
  - rewrite Hq in A. discriminate A.
  - exfalso. apply Hne. rewrite A. exact (K1 Hc).
Qed.

(* ---- a recorded error is never overwritten ---- *)
Lemma recorded_error_sticky : forall l s s' o, reach c s -> step c l s = Some (s', o) ->
  s_err s <> 0%Z -> s_err s' = s_err s.
Proof.
  intros l s s' o Hr H Hne.
  destruct (reach_next c s Hr) as (N1 & _ & _). destruct (reach_kinv s Hr) as (_ & _ & _ & K4 & _).
  assert (started s = true) as Hst.
  { destruct (started s) eqn:E; [reflexivity|]. exfalso. apply Hne. apply K4. reflexivity. }
  destruct l as [d|i d|d| |a]; [| | | |destruct a]; step_cases H; cbn;
    try reflexivity;
    try (unfold ensure_started; rewrite Hst; reflexivity);
    try (exfalso; match goal with Hcp : c_pc s = CNext |- _ => destruct (N1 Hcp) as [_ Hz]; apply Hne; exact Hz end).
  all: exfalso; destruct (N1 eq_refl) as [_ Hz]; apply Hne; exact Hz.
Qed.

(* ---- "every element": if no block of the file reports io.EOF from its decoder, a nil Err
   means that the objects of ALL blocks of the file were delivered ---- *)
Definition all_objs (inp : input) : list obj := concat (map objs_of inp).
Definition no_eof_item (inp : input) : bool :=
  forallb (fun it => match it with IBad e | IRdErr e => negb (Z.eqb e eEOF) | IBlock _ => true end) inp.

Lemma eof_means_all_blocks : forall inp, no_eof_item inp = true -> final_err inp = eEOF -> expected inp = all_objs inp.
Proof.
  induction inp as [|x inp IH]; intros Hne Hf; [reflexivity|].
  cbn in Hne. apply andb_true_iff in Hne. destruct Hne as [Hx Hne].
  destruct x as [os|e|e]; cbn in Hf |- *.
  - unfold all_objs in *. cbn. f_equal. apply IH; assumption.
  - rewrite Hf in Hx. discriminate Hx.
  - rewrite Hf in Hx. discriminate Hx.
Qed.

(* a Scan that returns false without Close / cancellation of the caller's context has recorded an error *)
Lemma false_scan_records : forall l s s' o v, step c l s = Some (s', o) -> In (OScan false v) o ->
  closed s' = false -> pcancelled s' = false -> s_err s' <> 0%Z.
Proof.
  intros l s s' o v H Hin Hcl Hpc.
  destruct l as [d|i d|d| |a]; [| | | |destruct a]; step_cases H; cbn in *;
    try (destruct Hin as [Hin|[]]; try discriminate Hin); try contradiction.
  all: try (match goal with He : is_err ?e = true |- ?e <> _ => unfold is_err in He; apply negb_true_iff, Z.eqb_neq in He; exact He end).
  all: try discriminate.
  all: try (unfold next_closed_err; destruct (is_err (cd_err s)) eqn:Ee;
            [unfold is_err in Ee; apply negb_true_iff, Z.eqb_neq in Ee; exact Ee|destruct (c_nextctx c && cancelled s)%bool; discriminate]).
  all: try (match goal with Hb : (_ || _ || _)%bool = true |- _ =>
      rewrite Hcl, Hpc, !orb_false_r in Hb; unfold is_err in Hb; apply negb_true_iff, Z.eqb_neq in Hb; exact Hb end).
Qed.
End Err.
