(* Pipeline/ProofsChain.v — the order invariant of the pipeline, stated over the COMPONENTS of a
   state (so that every transition is one small lemma, independent of the state record):
     UpC  upstream half: for each worker i, output queue ++ item in hand ++ input queue ++ item
          the reader holds for i  =  the results of the increasing run of positions = i mod n
          between serializer position and reader position (DESIGN.md 4.1); it holds while the
          internal context is not cancelled;
     DnC  downstream half: ordered queue ++ item the serializer has checked continue the
          consumer's position; delivered ++ current block = objects of the positions received.
   Pipeline/ProofsOrder.v lifts these to [step] and [reach]. *)
From Coq Require Import List ZArith Bool Arith Lia.
From Verif Require Import Pipeline.Model Pipeline.ProofsBasic.
Import ListNotations.

Definition objs_of (it : item) : list obj := match it with IBlock os => os | _ => [] end.
Definition err_of (it : item) : err := match it with IBlock _ => 0%Z | IBad e => e | IRdErr e => e end.

Lemma decode_objs : forall k it, o_objs (decode (k, it)) = objs_of it.
Proof. intros k [os|e|e]; reflexivity. Qed.
Lemma decode_err : forall k it, o_err (decode (k, it)) = err_of it.
Proof. intros k [os|e|e]; reflexivity. Qed.
Lemma objs_or_err : forall it, objs_of it = [] \/ err_of it = 0%Z.
Proof. intros [os|e|e]; cbn; auto. Qed.

Lemma rd_cons : forall x inp k, rd (x :: inp) (S k) = rd inp k.
Proof. reflexivity. Qed.

(* the prefix lemma: objects of the first m positions, all but the last error free *)
Lemma pre_prefix : forall inp m, wf_input inp = true ->
  (forall k, k + 1 < m -> err_of (rd inp k) = 0%Z) ->
  exists t, concat (map (fun k => objs_of (rd inp k)) (seq 0 m)) ++ t = expected inp.
Proof.
  induction inp as [|x inp IH]; intros m Hwf H.
  - exists []. rewrite app_nil_r. cbn. induction (seq 0 m) as [|a l IHl]; [reflexivity|].
    cbn. destruct a; cbn; exact IHl.
  - destruct m as [|m']; [exists (expected (x :: inp)); reflexivity|].
    rewrite <- cons_seq, <- seq_shift. cbn [map concat]. rewrite map_map.
    change (rd (x :: inp) 0) with x.
    destruct x as [os|e|e]; cbn [objs_of expected wf_input] in *.
    + destruct (IH m' Hwf) as [t Ht].
      { intros k Hk. specialize (H (S k)). rewrite rd_cons in H. apply H. lia. }
      exists t. rewrite <- app_assoc. f_equal. exact Ht.
    + apply andb_true_iff in Hwf. destruct Hwf as [He _].
      destruct m' as [|m'']; [exists []; reflexivity|].
      specialize (H 0). cbn in H. rewrite H in He by lia. discriminate.
    + apply andb_true_iff in Hwf. destruct Hwf as [He _].
      destruct m' as [|m'']; [exists []; reflexivity|].
      specialize (H 0). cbn in H. rewrite H in He by lia. discriminate.
Qed.


(* ---- lists of workers ---- *)
Lemma setw_length : forall l i w, length (setw i w l) = length l.
Proof. induction l as [|x l IH]; intros [|i] w; cbn; auto. Qed.

Lemma getw_setw_eq : forall l i w, i < length l -> getw i (setw i w l) = w.
Proof.
  unfold getw. induction l as [|x l IH]; intros [|i] w H; cbn in *; try lia; auto.
  apply IH. lia.
Qed.

Lemma getw_setw_neq : forall l i j w, i <> j -> getw j (setw i w l) = getw j l.
Proof.
  unfold getw. induction l as [|x l IH]; intros [|i] [|j] w H; cbn; auto; try lia.
Qed.

Lemma getw_repeat : forall m i, i < m -> getw i (repeat w0 m) = w0.
Proof. unfold getw. induction m as [|m IH]; intros [|i] H; cbn; try lia; auto. apply IH. lia. Qed.

Lemma rderr_err : forall inp k, wf_input inp = true -> is_rderr (rd inp k) = true -> err_of (rd inp k) <> 0%Z.
Proof.
  unfold rd. induction inp as [|x inp IH]; intros k Hwf H.
  - destruct k; cbn; discriminate.
  - destruct k as [|k].
    + cbn in *. destruct x as [os|e|e]; cbn in *; try discriminate.
      apply andb_true_iff in Hwf. destruct Hwf as [He _]. unfold is_err in He.
      apply negb_true_iff, Z.eqb_neq in He. exact He.
    + cbn. apply IH; [|exact H]. destruct x; cbn in Hwf; try exact Hwf;
      apply andb_true_iff in Hwf; tauto.
Qed.

Section Chain.
Variable c : cfg.
Hypothesis Hn : 1 <= c_n c.
Hypothesis Hwf : wf_input (c_inp c) = true.
Notation n := (c_n c).
Notation inp := (c_inp c).

Definition res (k : nat) : opair := decode (k, rd inp k).
Definition errfree (m : nat) : Prop := forall k, k < m -> o_err (res k) = 0%Z.
Definition pre (m : nat) : list obj := concat (map (fun k => objs_of (rd inp k)) (seq 0 m)).
Definition wheld (p : wpc) : list opair := match p with WSend o => [o] | _ => [] end.
Definition outs_w (w : worker) : list opair := w_out w ++ wheld (w_pc w) ++ map decode (w_in w).
Definition rheld (rp : rpc) (i : nat) : list opair :=
  match rp with RSend k it _ => if k mod n =? i then [decode (k, it)] else [] | _ => [] end.
Definition sheld (sp : spc) : list opair := match sp with SSend p => [p] | _ => [] end.
Definition want (sc rpos i : nat) : list opair :=
  map res (filter (fun k => k mod n =? i) (seq sc (rpos - sc))).

Lemma want_S_r : forall a b i, a <= b ->
  want a (S b) i = want a b i ++ (if b mod n =? i then [res b] else []).
Proof.
  intros a b i H. unfold want. replace (S b - a) with (S (b - a)) by lia.
  rewrite seq_S, filter_app, map_app. replace (a + (b - a)) with b by lia. cbn.
  destruct (b mod n =? i); reflexivity.
Qed.

Lemma want_S_l : forall a b i, a < b ->
  want a b i = (if a mod n =? i then [res a] else []) ++ want (S a) b i.
Proof.
  intros a b i H. unfold want. replace (b - a) with (S (b - S a)) by lia. cbn.
  destruct (a mod n =? i); reflexivity.
Qed.

Lemma want_nil : forall a i, want a a i = [].
Proof. intros. unfold want. rewrite Nat.sub_diag. reflexivity. Qed.

Lemma errfree_le : forall a b, a <= b -> errfree b -> errfree a.
Proof. intros a b H Hb k Hk. apply Hb. lia. Qed.

Lemma pre_S : forall m, pre (S m) = pre m ++ o_objs (res m).
Proof.
  intros m. unfold pre. rewrite seq_S, map_app, concat_app. cbn. rewrite app_nil_r.
  unfold res. rewrite decode_objs. reflexivity.
Qed.

Lemma map_res_S : forall a m, map res (seq a (S m)) = map res (seq a m) ++ [res (a + m)].
Proof. intros a m. rewrite seq_S, map_app. reflexivity. Qed.

(* ================= upstream ================= *)
Definition UpC (rp : rpc) (rpos : nat) (ws : list worker) (sp : spc) (sc : nat)
               (oq : list opair) (cc : nat) : Prop :=
  sc <= rpos /\
  (forall i, i < n -> outs_w (getw i ws) ++ rheld rp i = want sc rpos i) /\
  (rp = RDone -> 1 <= rpos /\ is_rderr (rd inp (rpos - 1)) = true) /\
  (forall e, rp = RTest e -> e = true -> 1 <= rpos /\ is_rderr (rd inp (rpos - 1)) = true) /\
  (forall k it sel, rp = RSend k it sel -> rpos = S k /\ it = rd inp k) /\
  (forall i, i < n -> w_pc (getw i ws) = WDone -> w_in (getw i ws) = [] /\ rp = RDone) /\
  match sp with
  | SRecv => sc = cc + length oq
  | SChk p => sc = S (cc + length oq) /\ p = res (cc + length oq)
  | SSend _ => sc = S (cc + length oq)
  | SDone => False
  end.

Ltac up_destruct H := destruct H as (U0 & U1 & U2 & U3 & U4 & U5 & U6).

Lemma no_wdone : forall rp rpos ws sp sc oq cc i, UpC rp rpos ws sp sc oq cc -> rp <> RDone ->
  i < n -> w_pc (getw i ws) <> WDone.
Proof. intros rp rpos ws sp sc oq cc i H Hr Hi Hd. up_destruct H. destruct (U5 i Hi Hd) as [_ E]. auto. Qed.

Ltac up_split := unfold UpC; split; [|split; [|split; [|split; [|split; [|split]]]]].
Ltac no_done U5 := let i := fresh "i" in let Hi := fresh "Hi" in let Hd := fresh "Hd" in
  intros i Hi Hd; exfalso; destruct (U5 i Hi Hd) as [_ E]; discriminate E.

(* reader: loop test succeeds *)
Lemma up_r_test_read : forall e rpos ws sp sc oq cc,
  UpC (RTest e) rpos ws sp sc oq cc -> UpC RRead rpos ws sp sc oq cc.
Proof.
  intros e rpos ws sp sc oq cc H. up_destruct H. up_split.
  - exact U0.
  - exact U1.
  - intros E; discriminate E.
  - intros e0 E; discriminate E.
  - intros k it sel E; discriminate E.
  - no_done U5.
  - exact U6.
Qed.

(* reader: loop test fails because the last read failed: exit, inputs closed *)
Lemma up_r_test_done : forall rpos ws sp sc oq cc,
  UpC (RTest true) rpos ws sp sc oq cc -> UpC RDone rpos ws sp sc oq cc.
Proof.
  intros rpos ws sp sc oq cc H. up_destruct H. up_split.
  - exact U0.
  - exact U1.
  - intros _. exact (U3 true eq_refl eq_refl).
  - intros e0 E; discriminate E.
  - intros k it sel E; discriminate E.
  - no_done U5.
  - exact U6.
Qed.

(* reader: readFileBlock *)
Lemma up_r_read : forall rpos ws sp sc oq cc,
  UpC RRead rpos ws sp sc oq cc -> UpC (RSend rpos (rd inp rpos) true) (S rpos) ws sp sc oq cc.
Proof.
  intros rpos ws sp sc oq cc H. up_destruct H. up_split.
  - lia.
  - intros i Hi. rewrite want_S_r by exact U0. rewrite <- (U1 i Hi). cbn [rheld].
    rewrite app_nil_r. destruct (rpos mod n =? i); [reflexivity|rewrite app_nil_r; reflexivity].
  - intros E; discriminate E.
  - intros e0 E; discriminate E.
  - intros k it sel E. injection E as <- <- _. split; reflexivity.
  - no_done U5.
  - exact U6.
Qed.

(* reader: the held pair goes into the input queue of worker k mod n *)
Lemma up_r_send : forall k it sel rpos ws sp sc oq cc, length ws = n ->
  UpC (RSend k it sel) rpos ws sp sc oq cc ->
  let w := getw (k mod n) ws in
  UpC (RTest (is_rderr it)) rpos (setw (k mod n) (mkW (w_in w ++ [(k, it)]) (w_pc w) (w_out w)) ws) sp sc oq cc.
Proof.
  intros k it sel rpos ws sp sc oq cc HL H w. up_destruct H.
  assert (k mod n < n) as Hk by (apply Nat.mod_upper_bound; lia).
  up_split.
  - exact U0.
  - intros i Hi. rewrite <- (U1 i Hi). cbn [rheld]. rewrite app_nil_r.
    destruct (Nat.eq_dec (k mod n) i) as [E|E].
    + subst i. rewrite getw_setw_eq by lia. rewrite Nat.eqb_refl. unfold outs_w. cbn [w_in w_pc w_out].
      rewrite map_app. cbn [map]. fold w. rewrite !app_assoc. reflexivity.
    + rewrite getw_setw_neq by exact E. apply Nat.eqb_neq in E. rewrite E, app_nil_r. reflexivity.
  - intros E; discriminate E.
  - intros e0 E He. injection E as E. destruct (U4 k it sel eq_refl) as [-> ->].
    split; [lia|]. replace (S k - 1) with k by lia. congruence.
  - intros k0 it0 sel0 E; discriminate E.
  - intros i Hi Hd. exfalso.
    destruct (Nat.eq_dec (k mod n) i) as [E|E].
    + subst i. rewrite getw_setw_eq in Hd by lia. cbn in Hd. destruct (U5 _ Hk Hd) as [_ E]. discriminate E.
    + rewrite getw_setw_neq in Hd by exact E. destruct (U5 _ Hi Hd) as [_ E']. discriminate E'.
  - exact U6.
Qed.

(* worker i takes the next pair from its input queue and decodes it *)
Lemma up_w_take : forall i x q rp rpos ws sp sc oq cc, length ws = n -> i < n ->
  w_pc (getw i ws) = WRecv -> w_in (getw i ws) = x :: q ->
  UpC rp rpos ws sp sc oq cc ->
  UpC rp rpos (setw i (mkW q (WSend (decode x)) (w_out (getw i ws))) ws) sp sc oq cc.
Proof.
  intros i x q rp rpos ws sp sc oq cc HL Hi Hpc Hin H. up_destruct H. up_split; auto.
  - intros j Hj. rewrite <- (U1 j Hj).
    destruct (Nat.eq_dec i j) as [E|E].
    + subst j. rewrite getw_setw_eq by lia. unfold outs_w. cbn [w_in w_pc w_out wheld].
      rewrite Hpc, Hin. cbn. reflexivity.
    + rewrite getw_setw_neq by exact E. reflexivity.
  - intros j Hj Hd. destruct (Nat.eq_dec i j) as [E|E].
    + subst j. rewrite getw_setw_eq in Hd by lia. discriminate Hd.
    + rewrite getw_setw_neq in Hd |- * by exact E. exact (U5 j Hj Hd).
Qed.

(* worker i finds its input closed and empty: exit, output closed *)
Lemma up_w_done : forall i rp rpos ws sp sc oq cc, length ws = n -> i < n ->
  w_pc (getw i ws) = WRecv -> w_in (getw i ws) = [] -> rp = RDone ->
  UpC rp rpos ws sp sc oq cc ->
  UpC rp rpos (setw i (mkW [] WDone (w_out (getw i ws))) ws) sp sc oq cc.
Proof.
  intros i rp rpos ws sp sc oq cc HL Hi Hpc Hin Hr H. up_destruct H. up_split; auto.
  - intros j Hj. rewrite <- (U1 j Hj).
    destruct (Nat.eq_dec i j) as [E|E].
    + subst j. rewrite getw_setw_eq by lia. unfold outs_w. cbn [w_in w_pc w_out wheld].
      rewrite Hpc, Hin. reflexivity.
    + rewrite getw_setw_neq by exact E. reflexivity.
  - intros j Hj Hd. destruct (Nat.eq_dec i j) as [E|E].
    + subst j. rewrite getw_setw_eq by lia. split; [reflexivity|exact Hr].
    + rewrite getw_setw_neq in Hd |- * by exact E. exact (U5 j Hj Hd).
Qed.

(* worker i sends its result to its output queue *)
Lemma up_w_send : forall i o rp rpos ws sp sc oq cc, length ws = n -> i < n ->
  w_pc (getw i ws) = WSend o ->
  UpC rp rpos ws sp sc oq cc ->
  UpC rp rpos (setw i (mkW (w_in (getw i ws)) WRecv (w_out (getw i ws) ++ [o])) ws) sp sc oq cc.
Proof.
  intros i o rp rpos ws sp sc oq cc HL Hi Hpc H. up_destruct H. up_split; auto.
  - intros j Hj. rewrite <- (U1 j Hj).
    destruct (Nat.eq_dec i j) as [E|E].
    + subst j. rewrite getw_setw_eq by lia. unfold outs_w. cbn [w_in w_pc w_out wheld].
      rewrite Hpc. cbn [wheld]. rewrite <- !app_assoc. reflexivity.
    + rewrite getw_setw_neq by exact E. reflexivity.
  - intros j Hj Hd. destruct (Nat.eq_dec i j) as [E|E].
    + subst j. rewrite getw_setw_eq in Hd by lia. discriminate Hd.
    + rewrite getw_setw_neq in Hd |- * by exact E. exact (U5 j Hj Hd).
Qed.

(* serializer: receives p from output sc mod n: p is the result of position sc *)
Lemma up_s_take : forall p q rp rpos ws sc oq cc, length ws = n ->
  w_out (getw (sc mod n) ws) = p :: q ->
  UpC rp rpos ws SRecv sc oq cc ->
  let w := getw (sc mod n) ws in
  p = res sc /\
  UpC rp rpos (setw (sc mod n) (mkW (w_in w) (w_pc w) q) ws) (SChk p) (S sc) oq cc.
Proof.
  intros p q rp rpos ws sc oq cc HL Hout H w. up_destruct H.
  assert (sc mod n < n) as Hk by (apply Nat.mod_upper_bound; lia).
  assert (sc < rpos) as Hlt.
  { destruct (Nat.eq_dec sc rpos) as [E|E]; [|lia]. exfalso.
    specialize (U1 _ Hk). rewrite E, want_nil in U1. unfold outs_w in U1.
    rewrite <- E, Hout in U1. discriminate U1. }
  pose proof (U1 _ Hk) as Hc. rewrite (want_S_l sc rpos) in Hc by exact Hlt.
  rewrite Nat.eqb_refl in Hc. unfold outs_w in Hc. rewrite Hout in Hc. cbn in Hc.
  injection Hc as Hp Hrest. split; [exact Hp|].
  up_split.
  - lia.
  - intros i Hi. destruct (Nat.eq_dec (sc mod n) i) as [E|E].
    + subst i. rewrite getw_setw_eq by lia. unfold outs_w. cbn [w_in w_pc w_out]. exact Hrest.
    + rewrite getw_setw_neq by exact E. rewrite (U1 i Hi), (want_S_l sc rpos) by exact Hlt.
      apply Nat.eqb_neq in E. rewrite E. reflexivity.
  - exact U2.
  - exact U3.
  - exact U4.
  - intros i Hi Hd. destruct (Nat.eq_dec (sc mod n) i) as [E|E].
    + subst i. rewrite getw_setw_eq in Hd |- * by lia. cbn in Hd |- *. exact (U5 _ Hk Hd).
    + rewrite getw_setw_neq in Hd |- * by exact E. exact (U5 i Hi Hd).
  - split; [lia|]. rewrite Hp. f_equal. exact U6.
Qed.

(* serializer: while the context is not cancelled it never sees a closed empty output *)
Lemma up_s_zero_absurd : forall rp rpos ws sc oq cc,
  w_out (getw (sc mod n) ws) = [] -> w_pc (getw (sc mod n) ws) = WDone ->
  UpC rp rpos ws SRecv sc oq cc -> errfree sc -> False.
Proof.
  intros rp rpos ws sc oq cc Hout Hd H Hef. up_destruct H.
  assert (sc mod n < n) as Hk by (apply Nat.mod_upper_bound; lia).
  destruct (U5 _ Hk Hd) as [Hin Hr]. destruct (U2 Hr) as [Hpos Hrd].
  pose proof (rderr_err inp (rpos - 1) Hwf Hrd) as Hne.
  assert (sc < rpos) as Hlt.
  { destruct (Nat.lt_ge_cases (rpos - 1) sc) as [Hl|Hl]; [|lia].
    exfalso. apply Hne. specialize (Hef (rpos - 1) Hl). unfold res in Hef. rewrite decode_err in Hef. exact Hef. }
  specialize (U1 _ Hk). rewrite (want_S_l sc rpos) in U1 by exact Hlt. rewrite Nat.eqb_refl in U1.
  unfold outs_w in U1. rewrite Hout, Hd, Hin, Hr in U1. discriminate U1.
Qed.

Lemma up_s_chk_send : forall p rp rpos ws sc oq cc,
  UpC rp rpos ws (SChk p) sc oq cc -> UpC rp rpos ws (SSend p) sc oq cc.
Proof. intros p rp rpos ws sc oq cc H. up_destruct H. up_split; auto. exact (proj1 U6). Qed.

Lemma up_s_push : forall p rp rpos ws sc oq cc,
  UpC rp rpos ws (SSend p) sc oq cc -> UpC rp rpos ws SRecv sc (oq ++ [p]) cc.
Proof. intros p rp rpos ws sc oq cc H. up_destruct H. up_split; auto. rewrite app_length. cbn. lia. Qed.

(* consumer receives the head of the ordered queue *)
Lemma up_c_recv : forall x q rp rpos ws sp sc cc,
  UpC rp rpos ws sp sc (x :: q) cc -> UpC rp rpos ws sp sc q (S cc).
Proof.
  intros x q rp rpos ws sp sc cc H. up_destruct H. up_split; auto.
  cbn [length] in U6. replace (S cc + length q) with (cc + S (length q)) by lia. exact U6.
Qed.

(* ================= downstream ================= *)
Definition DnC (sp : spc) (oq : list opair) (cdo : list obj) (cde : err) (del : list obj) (cc : nat) : Prop :=
  oq ++ sheld sp = map res (seq cc (length (oq ++ sheld sp))) /\
  errfree (cc + length oq - 1) /\ (sp <> SDone -> errfree (cc + length oq)) /\
  del ++ cdo = pre cc /\
  (cdo = [] \/ cde = 0%Z).

Ltac dn_destruct H := destruct H as (D1 & E0 & E1 & D4 & D7).
Ltac dn_split := unfold DnC; split; [|split; [|split; [|split]]].

(* the serializer moves between pcs that hold nothing checked *)
Lemma dn_s_idle : forall sp sp' oq cdo cde del cc, sheld sp = [] -> sheld sp' = [] -> sp <> SDone ->
  DnC sp oq cdo cde del cc -> DnC sp' oq cdo cde del cc.
Proof.
  intros sp sp' oq cdo cde del cc H1 H2 Hnd H. dn_destruct H. dn_split.
  - rewrite H2. rewrite H1 in D1. exact D1.
  - exact E0.
  - intros _. exact (E1 Hnd).
  - exact D4.
  - exact D7.
Qed.

Lemma dn_s_chk_send : forall p oq cdo cde del cc, p = res (cc + length oq) ->
  DnC (SChk p) oq cdo cde del cc -> DnC (SSend p) oq cdo cde del cc.
Proof.
  intros p oq cdo cde del cc Hp H. dn_destruct H. cbn [sheld] in D1. rewrite app_nil_r in D1.
  dn_split.
  - cbn [sheld]. rewrite app_length. cbn [length]. rewrite Nat.add_1_r, map_res_S, <- D1, Hp. reflexivity.
  - exact E0.
  - intros _. apply E1. discriminate.
  - exact D4.
  - exact D7.
Qed.

Lemma dn_sheld_last : forall p oq cc, oq ++ [p] = map res (seq cc (length (oq ++ [p]))) ->
  oq = map res (seq cc (length oq)) /\ p = res (cc + length oq).
Proof.
  intros p oq cc H. rewrite app_length in H. cbn [length] in H. rewrite Nat.add_1_r, map_res_S in H.
  apply app_inj_tail in H. exact H.
Qed.

(* push of an item that carries an error: the serializer exits *)
Lemma dn_s_push_exit : forall p oq cdo cde del cc,
  DnC (SSend p) oq cdo cde del cc -> DnC SDone (oq ++ [p]) cdo cde del cc.
Proof.
  intros p oq cdo cde del cc H. dn_destruct H. cbn [sheld] in D1.
  dn_split.
  - cbn [sheld]. rewrite app_nil_r. exact D1.
  - rewrite app_length. cbn [length]. replace (cc + (length oq + 1) - 1) with (cc + length oq) by lia.
    apply E1. discriminate.
  - intros E. exfalso. apply E. reflexivity.
  - exact D4.
  - exact D7.
Qed.

Lemma dn_s_push : forall p oq cdo cde del cc, o_err p = 0%Z ->
  DnC (SSend p) oq cdo cde del cc -> DnC SRecv (oq ++ [p]) cdo cde del cc.
Proof.
  intros p oq cdo cde del cc He H. dn_destruct H. cbn [sheld] in D1.
  assert (errfree (cc + length oq)) as Ef by (apply E1; discriminate).
  destruct (dn_sheld_last _ _ _ D1) as [_ Hp].
  dn_split.
  - cbn [sheld]. rewrite app_nil_r. exact D1.
  - rewrite app_length. cbn [length]. replace (cc + (length oq + 1) - 1) with (cc + length oq) by lia. exact Ef.
  - intros _ k Hk. rewrite app_length in Hk. cbn [length] in Hk.
    destruct (Nat.eq_dec k (cc + length oq)) as [->|Hne]; [|apply Ef; lia].
    rewrite <- Hp. exact He.
  - exact D4.
  - exact D7.
Qed.

(* the serializer exits on a Done branch or on the re-check *)
Lemma dn_s_exit : forall sp oq cdo cde del cc,
  DnC sp oq cdo cde del cc -> DnC SDone oq cdo cde del cc.
Proof.
  intros sp oq cdo cde del cc H. dn_destruct H. dn_split.
  - cbn [sheld]. rewrite app_nil_r. destruct sp; cbn [sheld] in D1; rewrite ?app_nil_r in D1; try exact D1.
    exact (proj1 (dn_sheld_last _ _ _ D1)).
  - exact E0.
  - intros E. exfalso. apply E. reflexivity.
  - exact D4.
  - exact D7.
Qed.

(* consumer *)
Lemma dn_c_deliver : forall sp oq v rest cde del cc,
  DnC sp oq (v :: rest) cde del cc -> cde = 0%Z /\ DnC sp oq rest cde (del ++ [v]) cc.
Proof.
  intros sp oq v rest cde del cc H. dn_destruct H.
  destruct D7 as [D7|D7]; [discriminate D7|]. split; [exact D7|].
  dn_split.
  - exact D1.
  - exact E0.
  - exact E1.
  - rewrite <- app_assoc. exact D4.
  - right. exact D7.
Qed.

Lemma dn_c_recv : forall sp x q cde del cc,
  DnC sp (x :: q) [] cde del cc ->
  x = res cc /\ DnC sp q (o_objs x) (o_err x) del (S cc).
Proof.
  intros sp x q cde del cc H. dn_destruct H.
  cbn [app length] in D1. rewrite <- cons_seq in D1. cbn [map] in D1. injection D1 as Hx Hq.
  split; [exact Hx|]. cbn [length] in *. dn_split.
  - exact Hq.
  - replace (S cc + length q - 1) with (cc + S (length q) - 1) by lia. exact E0.
  - intros Hs. replace (S cc + length q) with (cc + S (length q)) by lia. exact (E1 Hs).
  - rewrite pre_S, <- Hx. rewrite app_nil_r in D4. rewrite D4. reflexivity.
  - rewrite Hx. unfold res. rewrite decode_objs, decode_err. apply objs_or_err.
Qed.

(* the EOF item: nothing to deliver, the error is stored *)
Lemma dn_c_recv_eof : forall sp x q cde del cc,
  DnC sp (x :: q) [] cde del cc -> o_err x = eEOF -> DnC sp q [] eEOF del (S cc).
Proof.
  intros sp x q cde del cc H He. destruct (dn_c_recv _ _ _ _ _ _ H) as [Hx H'].
  dn_destruct H'.
  assert (o_objs x = []) as Ho.
  { rewrite Hx in He |- *. unfold res in *. rewrite decode_err in He. rewrite decode_objs.
    destruct (objs_or_err (rd inp cc)) as [Hz|Hz]; [exact Hz|]. rewrite Hz in He. discriminate He. }
  dn_split.
  - exact D1.
  - exact E0.
  - exact E1.
  - rewrite Ho in D4. exact D4.
  - left. reflexivity.
Qed.

End Chain.
