(* Pipeline/Theorems.v — closed forms of the pipeline theorems: hypotheses are the boolean
   predicates [wf_cfg c] (n >= 1, well-formed input) and [current c] (the code as it is now). *)
From Coq Require Import List ZArith Bool Arith Lia.
From Verif Require Import Pipeline.Model Pipeline.ProofsBasic Pipeline.ProofsChain Pipeline.ProofsOrder
  Pipeline.ProofsLive Pipeline.ProofsErr.
Import ListNotations.

Lemma current_parts : forall c, current c = true -> c_and c = true /\ c_recheck c = true /\ c_nextctx c = true.
Proof.
  intros c H. unfold current in H. apply andb_true_iff in H. destruct H as [H H3].
  apply andb_true_iff in H. destruct H as [H1 H2]. auto.
Qed.

Ltac parts c Hwf Hcur :=
  destruct (wf_cfg_parts c Hwf) as [Hn Hi]; destruct (current_parts c Hcur) as (Hand & Hre & Hnx).

Theorem T_delivered_is_prefix : forall c s, wf_cfg c = true -> current c = true -> reach c s ->
  exists t, delivered s ++ t = expected (c_inp c).
Proof. intros c s Hwf Hcur H. parts c Hwf Hcur. exact (delivered_is_prefix c Hn Hi Hre Hnx s H). Qed.

Theorem T_no_deadlock : forall c s, wf_cfg c = true -> current c = true -> reach c s -> c_pc s <> CIdle ->
  exists l s' o, is_progress l = true /\ step c l s = Some (s', o).
Proof. intros c s Hwf Hcur H Hc. parts c Hwf Hcur. exact (no_deadlock c Hn Hi Hre Hnx s H Hc). Qed.

Theorem T_completes : forall c s, wf_cfg c = true -> current c = true -> reach c s ->
  c_hdr_err c = 0%Z -> closed s = false -> pcancelled s = false -> s_err s <> 0%Z ->
  delivered s = expected (c_inp c) /\ final_err (c_inp c) = s_err s.
Proof. intros c s Hwf Hcur H H1 H2 H3 H4. parts c Hwf Hcur. exact (completes c Hn Hi Hre Hnx s H H1 H2 H3 H4). Qed.

Theorem T_steps_after_cancel_bounded : forall c sched s, wf_cfg c = true -> current c = true ->
  reach c s -> cancelled s = true -> ptaken c sched s + mu (fst (run c sched s)) <= mu s.
Proof. intros c sched s Hwf Hcur H Hc. parts c Hwf Hcur. exact (steps_after_cancel_bounded c Hn sched s Hand Hre H Hc). Qed.

Theorem T_goroutines_can_finish : forall c s, wf_cfg c = true -> current c = true ->
  reach c s -> running s = true -> cancelled s = true ->
  exists sched, all_done (fst (run c sched s)) = true.
Proof. intros c s Hwf Hcur H Hr Hc. parts c Hwf Hcur. exact (drain_exists c Hn (mu s) s (le_n _) Hand Hre H Hr Hc). Qed.

Theorem T_cancel_progress : forall c s, wf_cfg c = true -> reach c s -> running s = true ->
  cancelled s = true -> all_done s = false ->
  exists l s' o, is_pipeline l = true /\ step c l s = Some (s', o).
Proof. intros c s Hwf H Hr Hc Hd. destruct (wf_cfg_parts c Hwf) as [Hn _]. exact (cancel_progress c Hn s H Hr Hc Hd). Qed.

Theorem T_err_nil_only_complete : forall c s, wf_cfg c = true -> current c = true -> reach c s ->
  c_hdr_err c <> eEOF -> err_value s = 0%Z ->
  (s_err s = eEOF /\ delivered s = expected (c_inp c) /\ final_err (c_inp c) = eEOF) \/
  (s_err s = 0%Z /\ closed s = false /\ pcancelled s = false).
Proof. intros c s Hwf Hcur H Hh Hv. parts c Hwf Hcur. exact (err_nil_only_complete c Hn Hi Hre Hnx s H Hh Hv). Qed.

Theorem T_recorded_error : forall c s, wf_cfg c = true -> current c = true -> reach c s -> s_err s <> 0%Z ->
  (running s = false /\ s_err s = c_hdr_err c) \/
  (s_err s = eCtx /\ cancelled s = true) \/
  (delivered s = expected (c_inp c) /\ final_err (c_inp c) = s_err s).
Proof. intros c s Hwf Hcur H Hne. parts c Hwf Hcur. exact (recorded_error c Hn Hi Hre Hnx s H Hne). Qed.

Theorem T_start_error_wins : forall c s, wf_cfg c = true -> current c = true -> reach c s ->
  started s = true -> running s = false ->
  s_err s = c_hdr_err c /\ is_err (s_err s) = true /\ all_done s = true.
Proof. intros c s Hwf Hcur H Hs Hr. parts c Hwf Hcur. exact (start_error_wins c Hn Hi Hre Hnx s H Hs Hr). Qed.

Theorem T_recorded_error_sticky : forall c l s s' o, wf_cfg c = true -> current c = true -> reach c s ->
  step c l s = Some (s', o) -> s_err s <> 0%Z -> s_err s' = s_err s.
Proof. intros c l s s' o Hwf Hcur H Hs Hne. parts c Hwf Hcur. exact (recorded_error_sticky c Hn Hi Hre Hnx l s s' o H Hs Hne). Qed.

(* nil Err = the objects of every block of the file were delivered, when no block/read of the file
   reports io.EOF before the end of the list *)
Theorem T_err_nil_every_block : forall c s, wf_cfg c = true -> current c = true -> reach c s ->
  c_hdr_err c <> eEOF -> no_eof_item (c_inp c) = true -> err_value s = 0%Z ->
  (s_err s = eEOF /\ delivered s = all_objs (c_inp c)) \/
  (s_err s = 0%Z /\ closed s = false /\ pcancelled s = false).
Proof.
  intros c s Hwf Hcur H Hh Hne Hv.
  destruct (T_err_nil_only_complete c s Hwf Hcur H Hh Hv) as [(A & B & C)|A]; [left|right; exact A].
  split; [exact A|]. rewrite B. apply eof_means_all_blocks; assumption.
Qed.

Theorem T_false_scan_records : forall c l s s' o v, c_nextctx c = true -> step c l s = Some (s', o) -> In (OScan false v) o ->
  closed s' = false -> pcancelled s' = false -> s_err s' <> 0%Z.
Proof. intros c l s s' o v Hnx. exact (false_scan_records c Hnx l s s' o v). Qed.
