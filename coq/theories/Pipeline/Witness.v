(* Pipeline/Witness.v — executable witnesses: what the ORIGINAL code (variant flags off) allows,
   and non-vacuity runs of the repaired model. *)
From Coq Require Import List ZArith Bool Arith.
From Verif Require Import Pipeline.Model Pipeline.Exec.
Import ListNotations.

Definition blocks5 : input := [IBlock [1%Z]; IBlock [2%Z]; IBlock [3%Z]; IBlock [4%Z]; IBlock [5%Z]].
Definition cfg_or : cfg := mkCfg 1 blocks5 false 0%Z false true true 10.       (* original loop condition *)
Definition cfg_now (n : nat) (inp : input) : cfg := mkCfg n inp false 0%Z true true true 10.

(* Close before anything else, then a Scan (which starts the goroutines with a cancelled context):
   with the original disjunction the reader reads all five blocks and the EOF *)
Definition sched_close_first : list label :=
  [LApi CCloseCall; LCo; LApi CScan] ++ concat (repeat (pipeline_round cfg_or) 30).
Definition rac_or : nat := rac (fst (run cfg_or sched_close_first (init cfg_or))).
Definition rac_and : nat := rac (fst (run (cfg_now 1 blocks5) sched_close_first (init (cfg_now 1 blocks5)))).

(* lost cancellation error (original Next/serializer): Err() = nil although the scan was cut *)
Definition in3 : input := [IBlock [1%Z]; IBlock []; IBlock [2%Z]].
Definition cfg_lost : cfg := mkCfg 1 in3 false 0%Z true true false 10.
Definition sched_lost : list label :=
  [LApi CScan; LRd false; LRd false; LRd false; LWk 0 false; LWk 0 false; LSe false; LSe false; LSe false;
   LCo; LCo;                                   (* Scan -> true 1 *)
   LApi CScan;                                 (* blocked in Next *)
   LRd false; LRd false; LRd false; LWk 0 false; LWk 0 false; LSe false; LSe false; LSe false;
                                               (* the empty block is buffered in the ordered queue *)
   LApi CCancel3;                              (* another goroutine cancels *)
   LSe true;                                   (* serializer: Done branch, stores ctx.Err(), closes *)
   LCo;                                        (* Next takes the buffered empty block: cData = cd *)
   LCo;                                        (* closed: cData.Err == nil -> io.EOF *)
   LApi CErr].
Definition lost_run := run cfg_lost sched_lost (init cfg_lost).
Definition lost_run_now := run (cfg_now 1 in3) sched_lost (init (cfg_now 1 in3)).

(* an object overtaking a dropped block (original serializer without the re-check) *)
Definition in4 : input := [IBlock [1%Z]; IBlock [2%Z]; IBlock [3%Z]; IBlock [4%Z]].
Definition cfg_over : cfg := mkCfg 1 in4 false 0%Z true false true 10.
Definition sched_over : list label :=
  [LApi CScan; LRd false; LRd false; LRd false; LWk 0 false; LWk 0 false; LSe false; LSe false; LSe false;
   LCo; LCo;                                   (* Scan -> true 1 *)
   LApi CScan;                                 (* blocked in Next *)
   LRd false; LRd false; LRd false; LWk 0 false;   (* worker holds block 1 (object 2) *)
   LRd false; LRd false; LRd false;                (* block 2 (object 3) waits in the input queue *)
   LApi CCancel3;
   LWk 0 true;                                 (* worker: Done branch, block 1 dropped *)
   LWk 0 false; LWk 0 false;                   (* block 2: decoded, sent (data branch) *)
   LSe false; LSe false; LSe false;            (* serializer takes the data branches *)
   LCo; LCo].                                  (* Scan -> true 3 *)
Definition over_run := run cfg_over sched_over (init cfg_over).
Definition over_run_now := run (cfg_now 1 in4) sched_over (init (cfg_now 1 in4)).

(* a complete fair run of the repaired model, n = 3 *)
Definition in7 : input :=
  [IBlock [1%Z; 2%Z]; IBlock []; IBlock [3%Z]; IBlock [4%Z; 5%Z]; IBlock []; IBlock [6%Z]; IBlock [7%Z]].
Definition full_run := scan_all (cfg_now 3 in7) 200 20 (init (cfg_now 3 in7)).

(* Close while the reader goroutine is about to call / is inside Read: every other goroutine has
   finished or waits for the reader, so Close (wg.Wait) returns only when that Read returns *)
Definition sched_close_in_read : list label :=
  [LApi CScan; LRd false; LRd false; LRd false; LWk 0 false; LWk 0 false; LSe false; LSe false; LSe false;
   LCo; LCo;                   (* Scan -> true 1 *)
   LRd false;                  (* reader: loop test passed, next: readFileBlock *)
   LApi CCloseCall;            (* closed, cancelled, wg.Wait *)
   LSe true].                  (* serializer: Done branch *)
Definition close_in_read_state : state :=
  Eval vm_compute in fst (run (cfg_now 1 blocks5) sched_close_in_read (init (cfg_now 1 blocks5))).
