(* Pipeline/ProofsLive.v — structural invariants that hold in every reachable state (cancelled or
   not), progress, the termination measure after cancellation, and deadlock freedom. *)
From Coq Require Import List ZArith Bool Arith Lia.
From Verif Require Import Pipeline.Model Pipeline.ProofsBasic Pipeline.ProofsChain Pipeline.ProofsOrder.
Import ListNotations.

Arguments getw : simpl never.
Arguments setw : simpl never.

Ltac es_rw c s := repeat match goal with |- context [ensure_started c s] =>
  unfold ensure_started; destruct (started s); [|destruct (is_err (c_hdr_err c)) eqn:?]; cbn end.

Section Live.
Variable c : cfg.
Hypothesis Hn : 1 <= c_n c.

(* S1 *)
Lemma len_step : forall l s s' o, length (ws s) = c_n c -> step c l s = Some (s', o) -> length (ws s') = c_n c.
Proof.
  intros l s s' o HL H.
  destruct l as [d|i d|d| |a]; [| | | |destruct a]; step_cases H; cbn; es_rw c s; rewrite ?setw_length; exact HL.
Qed.

Lemma reach_len : forall s, reach c s -> length (ws s) = c_n c.
Proof.
  intros s H. induction H as [|s l s' o Hr IH Hs]; [apply repeat_length|]. exact (len_step l s s' o IH Hs).
Qed.

(* S2: a worker exits only after the reader has *)
Definition wdone_inv (s : state) : Prop :=
  forall i, i < c_n c -> w_pc (getw i (ws s)) = WDone -> r_pc s = RDone.

Lemma getw_setw_pc : forall l i j w, i < length l ->
  w_pc (getw j (setw i w l)) = if j =? i then w_pc w else w_pc (getw j l).
Proof.
  intros l i j w Hi. destruct (Nat.eq_dec j i) as [->|E].
  - rewrite Nat.eqb_refl, getw_setw_eq by exact Hi. reflexivity.
  - rewrite getw_setw_neq by auto. apply Nat.eqb_neq in E. rewrite E. reflexivity.
Qed.

Lemma wdone_step : forall l s s' o, length (ws s) = c_n c -> wdone_inv s -> step c l s = Some (s', o) -> wdone_inv s'.
Proof.
  intros l s s' o HL HI H. unfold wdone_inv in *.
  destruct l as [d|i d|d| |a]; [| | | |destruct a]; step_cases H; cbn; es_rw c s; try exact HI;
    intros j Hj Hd;
    try (rewrite getw_setw_pc in Hd by (rewrite HL; first [assumption | apply Nat.mod_upper_bound; lia | apply Nat.ltb_lt; assumption]);
         cbn in Hd; destruct (j =? _) eqn:Ej;
         [ apply Nat.eqb_eq in Ej; subst j | ]);
    try discriminate Hd;
    try (match goal with Hr : is_rdone (r_pc s) = true |- _ => destruct (r_pc s); try discriminate Hr; reflexivity end);
    try (exfalso; specialize (HI _ Hj Hd); congruence);
    try (exfalso; match goal with Hk : _ |- _ => specialize (HI _ (Nat.mod_upper_bound _ _ ltac:(lia)) Hd); congruence end);
    try (apply (HI _ Hj Hd)).
Qed.

Lemma reach_wdone : forall s, reach c s -> wdone_inv s.
Proof.
  intros s H. induction H as [|s l s' o Hr IH Hs].
  - intros i Hi Hd. unfold init in Hd. cbn in Hd. rewrite getw_repeat in Hd by exact Hi. discriminate Hd.
  - exact (wdone_step l s s' o (reach_len s Hr) IH Hs).
Qed.

(* S3: the ordered queue is closed exactly when the serializer has exited; then the context is cancelled *)
Definition sdone_inv (s : state) : Prop :=
  (s_pc s = SDone <-> oq_closed s = true) /\ (oq_closed s = true -> cancelled s = true).

Lemma sdone_step : forall l s s' o, sdone_inv s -> step c l s = Some (s', o) -> sdone_inv s'.
Proof.
  intros l s s' o [[HA HB] HC] H. unfold sdone_inv.
  destruct l as [d|i d|d| |a]; [| | | |destruct a]; step_cases H; cbn; es_rw c s;
    try (split; [split|]; assumption);
    try (split; [split|]; intros; try reflexivity; try discriminate; try congruence; auto; fail);
    try (split; [split|]; intros Hx; try reflexivity; try discriminate Hx; try (apply HC; exact Hx); exfalso;
         specialize (HB Hx); discriminate HB).
  all: split; [split; assumption|]; intros Hx; specialize (HC Hx); discriminate HC.
Qed.

Lemma reach_sdone : forall s, reach c s -> sdone_inv s.
Proof.
  intros s H. induction H as [|s l s' o Hr IH Hs].
  - unfold sdone_inv, init. cbn. repeat split; intros E; discriminate E.
  - exact (sdone_step l s s' o IH Hs).
Qed.

(* S4: a Scan is in flight only with running goroutines and no recorded error *)
Definition next_inv (s : state) : Prop :=
  (c_pc s = CNext -> running s = true /\ s_err s = 0%Z) /\
  (started s = true -> running s = false -> is_err (s_err s) = true) /\
  (started s = false -> running s = false).

Lemma es_next : forall s, next_inv s ->
  next_inv (ensure_started c s) /\ c_pc (ensure_started c s) = c_pc s /\
  (is_err (s_err (ensure_started c s)) = false -> running (ensure_started c s) = true /\ s_err (ensure_started c s) = 0%Z).
Proof.
  intros s HI. pose proof HI as (H1 & H2 & H3). unfold ensure_started. destruct (started s) eqn:Es.
  - split; [exact HI|]. split; [reflexivity|]. intros He.
    destruct (running s) eqn:Er.
    + split; [reflexivity|]. unfold is_err in He. apply negb_false_iff, Z.eqb_eq in He. exact He.
    + rewrite (H2 eq_refl eq_refl) in He. discriminate He.
  - destruct (is_err (c_hdr_err c)) eqn:Eh; cbn.
    + split; [|split; [reflexivity|intros He; rewrite Eh in He; discriminate He]].
      unfold next_inv. cbn. split; [|split].
      * intros Hc. destruct (H1 Hc) as [Hr _]. rewrite (H3 eq_refl) in Hr. discriminate Hr.
      * intros _ _. exact Eh.
      * intros E; discriminate E.
    + split; [|split; [reflexivity|]].
      * unfold next_inv. cbn. split; [|split].
        -- intros Hc. destruct (H1 Hc) as [Hr _]. rewrite (H3 eq_refl) in Hr. discriminate Hr.
        -- intros _ E; discriminate E.
        -- intros E; discriminate E.
      * intros He. split; [reflexivity|]. destruct (c_pc s) eqn:Ec.
        -- unfold is_err in He. apply negb_false_iff, Z.eqb_eq in He. exact He.
        -- destruct (H1 eq_refl) as [Hr _]. rewrite (H3 eq_refl) in Hr. discriminate Hr.
        -- unfold is_err in He. apply negb_false_iff, Z.eqb_eq in He. exact He.
Qed.

Lemma next_step : forall l s s' o, next_inv s -> step c l s = Some (s', o) -> next_inv s'.
Proof.
  intros l s s' o HI H.
  destruct l as [d|i d|d| |a]; [| | | |destruct a]; step_cases H;
    try (destruct (es_next s HI) as (HE & HEc & HEr));
    unfold next_inv in *; cbn;
    try exact HI; try exact HE;
    try (destruct HI as (H1 & H2 & H3); split; [|split]; try exact H2; try exact H3; try exact H1;
         intros; try discriminate; try reflexivity; auto; fail).
  - destruct HI as (H1 & H2 & H3). destruct (H1 Heqc0) as [Hr _].
    split; [intros E; discriminate E|split; [intros _ Hf; rewrite Hr in Hf; discriminate Hf|exact H3]].
  - destruct HE as (_ & HE2 & HE3). split; [|split; assumption]. intros _. apply HEr.
    match goal with Hb : (_ || _ || _)%bool = false |- _ =>
      apply orb_false_iff in Hb; destruct Hb as [Hb _]; apply orb_false_iff in Hb; destruct Hb as [Hb _]; exact Hb end.
Qed.

Lemma reach_next : forall s, reach c s -> next_inv s.
Proof.
  intros s H. induction H as [|s l s' o Hr IH Hs].
  - unfold next_inv, init. cbn. repeat split; intros; try discriminate; reflexivity.
  - exact (next_step l s s' o IH Hs).
Qed.

(* S5: while the reader still holds the first block of a resumed file (its unconditional send),
   no worker has moved *)
Definition first_inv (s : state) : Prop :=
  forall k it, r_pc s = RSend k it false -> forall i, i < c_n c -> getw i (ws s) = w0.

Lemma first_step : forall l s s' o, first_inv s -> step c l s = Some (s', o) -> first_inv s'.
Proof.
  intros l s s' o HI H.
  destruct l as [d|i d|d| |a]; [| | | |destruct a]; step_cases H; unfold first_inv in *; cbn;
    try exact HI; try (intros k0 it0 E; discriminate E);
    try (es_rw c s; exact HI).
  all: intros k0 it0 E j Hj; exfalso.
  all: try (match goal with Hr : is_rdone (r_pc _) = true |- _ => rewrite E in Hr; discriminate Hr end).
  all: try (match goal with Hlt : (?i <? _) = true |- _ => apply Nat.ltb_lt in Hlt; pose proof (HI k0 it0 E i Hlt) as Hw end).
  all: try (match goal with Ho : w_out (getw ?idx _) = _ :: _ |- _ =>
    assert (idx < c_n c) as Hidx by (apply Nat.mod_upper_bound; lia); pose proof (HI k0 it0 E idx Hidx) as Hw end).
  all: rewrite Hw in *; cbn in *; congruence.
Qed.

Lemma reach_first : forall s, reach c s -> first_inv s.
Proof.
  intros s H. induction H as [|s l s' o Hr IH Hs].
  - intros k it _ i Hi. unfold init. cbn. apply getw_repeat. exact Hi.
  - exact (first_step l s s' o IH Hs).
Qed.
End Live.
