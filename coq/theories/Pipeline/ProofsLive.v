(* Pipeline/ProofsLive.v — structural invariants that hold in every reachable state (cancelled or
   not), progress, the termination measure after cancellation, and deadlock freedom. *)
From Coq Require Import List ZArith Bool Arith Lia.
From Verif Require Import Pipeline.Model Pipeline.ProofsBasic Pipeline.ProofsChain Pipeline.ProofsOrder.
Import ListNotations.

Definition rm (p : rpc) : nat := match p with RRead => 3 | RSend _ _ _ => 2 | RTest _ => 1 | RDone => 0 end.
Definition wpm (p : wpc) : nat := match p with WSend _ => 2 | WRecv => 1 | WDone => 0 end.
Definition wm (w : worker) : nat := 2 * length (w_in w) + wpm (w_pc w).
Definition sm (p : spc) : nat := match p with SSend _ => 3 | SRecv => 2 | SChk _ => 1 | SDone => 0 end.
Fixpoint wsum (l : list worker) : nat := match l with [] => 0 | w :: r => wm w + wsum r end.
Definition mu (s : state) : nat := 3 * rm (r_pc s) + wsum (ws s) + sm (s_pc s).

Lemma wsum_setw : forall l i w, i < length l -> wsum (setw i w l) + wm (getw i l) = wsum l + wm w.
Proof.
  unfold getw. induction l as [|x l IH]; intros [|i] w H; cbn [length] in H; try lia.
  - cbn [setw nth wsum]. lia.
  - cbn [setw nth wsum]. specialize (IH i w ltac:(lia)). lia.
Qed.


Arguments getw : simpl never.
Arguments setw : simpl never.

Ltac es_rw c s := repeat match goal with |- context [ensure_started c s] =>
  unfold ensure_started; destruct (started s); [|destruct (is_err (c_hdr_err c)) eqn:?]; cbn end.

Section Live.
Variable c : cfg.
Hypothesis Hn : 1 <= c_n c.

(* S1 *)
Lemma len_step : forall l s s' o, length (ws s) = c_n c -> step c l s = Some (s', o) -> length (ws s') = c_n c.
Proof.
  intros l s s' o HL H.
  destruct l as [d|i d|d| |a]; [| | | |destruct a]; step_cases H; cbn; es_rw c s; rewrite ?setw_length; exact HL.
Qed.

Lemma reach_len : forall s, reach c s -> length (ws s) = c_n c.
Proof.
  intros s H. induction H as [|s l s' o Hr IH Hs]; [apply repeat_length|]. exact (len_step l s s' o IH Hs).
Qed.

(* S2: a worker exits only after the reader has *)
Definition wdone_inv (s : state) : Prop :=
  forall i, i < c_n c -> w_pc (getw i (ws s)) = WDone -> r_pc s = RDone.

Lemma getw_setw_pc : forall l i j w, i < length l ->
  w_pc (getw j (setw i w l)) = if j =? i then w_pc w else w_pc (getw j l).
Proof.
  intros l i j w Hi. destruct (Nat.eq_dec j i) as [->|E].
  - rewrite Nat.eqb_refl, getw_setw_eq by exact Hi. reflexivity.
  - rewrite getw_setw_neq by auto. apply Nat.eqb_neq in E. rewrite E. reflexivity.
Qed.

Lemma wdone_step : forall l s s' o, length (ws s) = c_n c -> wdone_inv s -> step c l s = Some (s', o) -> wdone_inv s'.
Proof.
  intros l s s' o HL HI H. unfold wdone_inv in *.
  destruct l as [d|i d|d| |a]; [| | | |destruct a]; step_cases H; cbn; es_rw c s; try exact HI;
    intros j Hj Hd;
    try (rewrite getw_setw_pc in Hd by (rewrite HL; first [assumption | apply Nat.mod_upper_bound; lia | apply Nat.ltb_lt; assumption]);
         cbn in Hd; destruct (j =? _) eqn:Ej;
         [ apply Nat.eqb_eq in Ej; subst j | ]);
    try discriminate Hd;
    try (match goal with Hr : is_rdone (r_pc s) = true |- _ => destruct (r_pc s); try discriminate Hr; reflexivity end);
    try (exfalso; specialize (HI _ Hj Hd); congruence);
    try (exfalso; match goal with Hk : _ |- _ => specialize (HI _ (Nat.mod_upper_bound _ _ ltac:(lia)) Hd); congruence end);
    try (apply (HI _ Hj Hd)).
Qed.

Lemma reach_wdone : forall s, reach c s -> wdone_inv s.
Proof.
  intros s H. induction H as [|s l s' o Hr IH Hs].
  - intros i Hi Hd. unfold init in Hd. cbn in Hd. rewrite getw_repeat in Hd by exact Hi. discriminate Hd.
  - exact (wdone_step l s s' o (reach_len s Hr) IH Hs).
Qed.

(* S3: the ordered queue is closed exactly when the serializer has exited; then the context is cancelled *)
Definition sdone_inv (s : state) : Prop :=
  (s_pc s = SDone <-> oq_closed s = true) /\ (oq_closed s = true -> cancelled s = true).

Lemma sdone_step : forall l s s' o, sdone_inv s -> step c l s = Some (s', o) -> sdone_inv s'.
Proof.
  intros l s s' o [[HA HB] HC] H. unfold sdone_inv.
  destruct l as [d|i d|d| |a]; [| | | |destruct a]; step_cases H; cbn; es_rw c s;
    try (split; [split|]; assumption);
    try (split; [split|]; intros; try reflexivity; try discriminate; try congruence; auto; fail);
    try (split; [split|]; intros Hx; try reflexivity; try discriminate Hx; try (apply HC; exact Hx); exfalso;
         specialize (HB Hx); discriminate HB).
  all: split; [split; assumption|]; intros Hx; specialize (HC Hx); discriminate HC.
Qed.

Lemma reach_sdone : forall s, reach c s -> sdone_inv s.
Proof.
  intros s H. induction H as [|s l s' o Hr IH Hs].
  - unfold sdone_inv, init. cbn. repeat split; intros E; discriminate E.
  - exact (sdone_step l s s' o IH Hs).
Qed.

(* S4: a Scan is in flight only with running goroutines and no recorded error *)
Definition next_inv (s : state) : Prop :=
  (c_pc s = CNext -> running s = true /\ s_err s = 0%Z) /\
  (started s = true -> running s = false -> is_err (s_err s) = true) /\
  (started s = false -> running s = false).

Lemma es_next : forall s, next_inv s ->
  next_inv (ensure_started c s) /\ c_pc (ensure_started c s) = c_pc s /\
  (is_err (s_err (ensure_started c s)) = false -> running (ensure_started c s) = true /\ s_err (ensure_started c s) = 0%Z).
Proof.
  intros s HI. pose proof HI as (H1 & H2 & H3). unfold ensure_started. destruct (started s) eqn:Es.
  - split; [exact HI|]. split; [reflexivity|]. intros He.
    destruct (running s) eqn:Er.
    + split; [reflexivity|]. unfold is_err in He. apply negb_false_iff, Z.eqb_eq in He. exact He.
    + rewrite (H2 eq_refl eq_refl) in He. discriminate He.
  - destruct (is_err (c_hdr_err c)) eqn:Eh; cbn.
    + split; [|split; [reflexivity|intros He; rewrite Eh in He; discriminate He]].
      unfold next_inv. cbn. split; [|split].
      * intros Hc. destruct (H1 Hc) as [Hr _]. rewrite (H3 eq_refl) in Hr. discriminate Hr.
      * intros _ _. exact Eh.
      * intros E; discriminate E.
    + split; [|split; [reflexivity|]].
      * unfold next_inv. cbn. split; [|split].
        -- intros Hc. destruct (H1 Hc) as [Hr _]. rewrite (H3 eq_refl) in Hr. discriminate Hr.
        -- intros _ E; discriminate E.
        -- intros E; discriminate E.
      * intros He. split; [reflexivity|]. destruct (c_pc s) eqn:Ec.
        -- unfold is_err in He. apply negb_false_iff, Z.eqb_eq in He. exact He.
        -- destruct (H1 eq_refl) as [Hr _]. rewrite (H3 eq_refl) in Hr. discriminate Hr.
        -- unfold is_err in He. apply negb_false_iff, Z.eqb_eq in He. exact He.
Qed.

Lemma next_step : forall l s s' o, next_inv s -> step c l s = Some (s', o) -> next_inv s'.
Proof.
  intros l s s' o HI H.
  destruct l as [d|i d|d| |a]; [| | | |destruct a]; step_cases H;
    try (destruct (es_next s HI) as (HE & HEc & HEr));
    unfold next_inv in *; cbn;
    try exact HI; try exact HE;
    try (destruct HI as (H1 & H2 & H3); split; [|split]; try exact H2; try exact H3; try exact H1;
         intros; try discriminate; try reflexivity; auto; fail).
  - destruct HI as (H1 & H2 & H3). destruct (H1 Heqc0) as [Hr _].
    split; [intros E; discriminate E|split; [intros _ Hf; rewrite Hr in Hf; discriminate Hf|exact H3]].
  - destruct HE as (_ & HE2 & HE3). split; [|split; assumption]. intros _. apply HEr.
    match goal with Hb : (_ || _ || _)%bool = false |- _ =>
      apply orb_false_iff in Hb; destruct Hb as [Hb _]; apply orb_false_iff in Hb; destruct Hb as [Hb _]; exact Hb end.
Qed.

Lemma reach_next : forall s, reach c s -> next_inv s.
Proof.
  intros s H. induction H as [|s l s' o Hr IH Hs].
  - unfold next_inv, init. cbn. repeat split; intros; try discriminate; reflexivity.
  - exact (next_step l s s' o IH Hs).
Qed.

(* S5: while the reader still holds the first block of a resumed file (its unconditional send),
   no worker has moved *)
Definition first_inv (s : state) : Prop :=
  forall k it, r_pc s = RSend k it false -> forall i, i < c_n c -> getw i (ws s) = w0.

Lemma first_step : forall l s s' o, first_inv s -> step c l s = Some (s', o) -> first_inv s'.
Proof.
  intros l s s' o HI H.
  destruct l as [d|i d|d| |a]; [| | | |destruct a]; step_cases H; unfold first_inv in *; cbn;
    try exact HI; try (intros k0 it0 E; discriminate E);
    try (es_rw c s; exact HI).
  all: intros k0 it0 E j Hj; exfalso.
  all: try (match goal with Hr : is_rdone (r_pc _) = true |- _ => rewrite E in Hr; discriminate Hr end).
  all: try (match goal with Hlt : (?i <? _) = true |- _ => apply Nat.ltb_lt in Hlt; pose proof (HI k0 it0 E i Hlt) as Hw end).
  all: try (match goal with Ho : w_out (getw ?idx _) = _ :: _ |- _ =>
    assert (idx < c_n c) as Hidx by (apply Nat.mod_upper_bound; lia); pose proof (HI k0 it0 E idx Hidx) as Hw end).
  all: rewrite Hw in *; cbn in *; congruence.
Qed.

Lemma reach_first : forall s, reach c s -> first_inv s.
Proof.
  intros s H. induction H as [|s l s' o Hr IH Hs].
  - intros k it _ i Hi. unfold init. cbn. apply getw_repeat. exact Hi.
  - exact (first_step l s s' o IH Hs).
Qed.

(* ================= termination after cancellation: the measure ================= *)
Definition is_pipeline (l : label) : bool := match l with LRd _ | LWk _ _ | LSe _ => true | _ => false end.

(* once the context is cancelled every step of a pipeline goroutine strictly decreases mu *)
Lemma mu_decreases : forall l s s' o, c_and c = true -> c_recheck c = true ->
  length (ws s) = c_n c -> cancelled s = true -> is_pipeline l = true ->
  step c l s = Some (s', o) -> mu s' < mu s.
Proof.
  intros l s s' o Hand Hre HL Hc Hp H. unfold mu.
  destruct l as [d|i d|d| |a]; try discriminate Hp; step_cases H; cbn [r_pc ws s_pc set_r_pc set_ws set_s_pc set_s_cnt set_r_pos set_rac set_oq set_cd_err set_oq_closed set_cancelled ser_exit rm sm];
    try (match goal with Hl : loop_cond _ _ _ = true |- _ =>
           unfold loop_cond in Hl; rewrite Hand, Hc in Hl; discriminate Hl end);
    try (match goal with Hb : (c_recheck c && cancelled s)%bool = false |- _ => rewrite Hre, Hc in Hb; discriminate Hb end);
    try lia.
  all: try (match goal with |- context [wsum (setw ?i ?w (ws ?st))] =>
      let Hs := fresh "Hs" in
      assert (i < length (ws st)) as Hi' by
        (rewrite HL; first [apply Nat.mod_upper_bound; lia | apply Nat.ltb_lt; assumption]);
      pose proof (wsum_setw (ws st) i w Hi') as Hs; unfold wm in Hs; cbn [w_in w_pc w_out wpm] in Hs;
      rewrite ?app_length in Hs; cbn [length] in Hs end).
  all: try (match goal with Hq : w_in (getw _ _) = _ |- _ => rewrite Hq in * end).
  all: try (match goal with Hq : w_pc (getw _ _) = _ |- _ => rewrite Hq in * end).
  all: cbn [length wpm] in *; try lia.
Qed.

(* consumer and API steps do not touch the pipeline goroutines *)
Lemma mu_unchanged : forall l s s' o, is_pipeline l = false -> step c l s = Some (s', o) -> mu s' = mu s.
Proof.
  intros l s s' o Hp H. unfold mu.
  destruct l as [d|i d|d| |a]; try discriminate Hp; [|destruct a]; step_cases H; cbn; es_rw c s; reflexivity.
Qed.

(* progress: while the context is cancelled and some goroutine is still running, a pipeline step is enabled *)
Lemma forallb_false_ex : forall (f : worker -> bool) l, forallb f l = false ->
  exists i, i < length l /\ f (nth i l dummy_w) = false.
Proof.
  induction l as [|x l IH]; intros H; cbn in H; [discriminate H|].
  destruct (f x) eqn:E.
  - destruct (IH H) as (i & Hi & Hf). exists (S i). cbn. split; [lia|exact Hf].
  - exists 0. cbn. split; [lia|exact E].
Qed.

Ltac enabled c s Hrun l :=
  let s' := fresh "s'" in let o := fresh "o" in let E := fresh "E" in
  exists l; destruct (step c l s) as [[s' o]|] eqn:E;
  [exists s', o; split; reflexivity
  |exfalso; cbn in E; rewrite ?Hrun in E; unfold lift, step_reader, step_worker, step_ser, ser_done_branch, step_cons in E].

Lemma cancel_progress : forall s, reach c s -> running s = true -> cancelled s = true -> all_done s = false ->
  exists l s' o, is_pipeline l = true /\ step c l s = Some (s', o).
Proof.
  intros s Hr Hrun Hc Hnd.
  pose proof (reach_len s Hr) as HL. pose proof (reach_first s Hr) as HF.
  unfold all_done in Hnd. rewrite Hrun in Hnd. cbn in Hnd.
  destruct (r_pc s) as [e| |k it sel|] eqn:Er.
  - enabled c s Hrun (LRd false). rewrite Er in E. destruct (loop_cond c _ _); discriminate E.
  - enabled c s Hrun (LRd false). rewrite Er in E. discriminate E.
  - destruct sel.
    + enabled c s Hrun (LRd true). rewrite Er, Hc in E. discriminate E.
    + assert (k mod c_n c < c_n c) as Hk by (apply Nat.mod_upper_bound; lia).
      pose proof (HF k it Er _ Hk) as Hw.
      enabled c s Hrun (LRd false). rewrite Er, Hw in E. cbn in E. unfold can_send in E.
      destruct (cap c) eqn:Ec; cbn in E; discriminate E.
  - cbn in Hnd. destruct (forallb (fun w => is_wdone (w_pc w)) (ws s)) eqn:Ew.
    + cbn in Hnd. destruct (s_pc s) as [|p|p|] eqn:Es; try discriminate Hnd.
      * enabled c s Hrun (LSe true). rewrite Es, Hc in E. discriminate E.
      * enabled c s Hrun (LSe false). rewrite Es in E. destruct (c_recheck c && cancelled s)%bool; discriminate E.
      * enabled c s Hrun (LSe true). rewrite Es, Hc in E. discriminate E.
    + destruct (forallb_false_ex _ _ Ew) as (i & Hi & Hf). fold (getw i (ws s)) in Hf.
      assert ((i <? c_n c) = true) as Hlt by (apply Nat.ltb_lt; lia).
      destruct (w_pc (getw i (ws s))) as [|o|] eqn:Ep; try discriminate Hf.
      * enabled c s Hrun (LWk i false). rewrite Hlt, Ep, Er in E.
        destruct (w_in (getw i (ws s))); discriminate E.
      * enabled c s Hrun (LWk i true). rewrite Hlt, Ep, Hc in E. discriminate E.
Qed.

Lemma running_mono : forall l s s' o, step c l s = Some (s', o) -> running s = true -> running s' = true.
Proof.
  intros l s s' o H Hr.
  destruct l as [d|i d|d| |a]; [| | | |destruct a]; step_cases H; cbn; es_rw c s; try reflexivity; try assumption; congruence.
Qed.

(* number of pipeline-goroutine steps actually taken along a schedule *)
Fixpoint ptaken (sched : list label) (s : state) : nat :=
  match sched with
  | [] => 0
  | l :: r => match step c l s with
              | Some (s', _) => (if is_pipeline l then 1 else 0) + ptaken r s'
              | None => ptaken r s
              end
  end.

(* GOROUTINES TERMINATE, part 1: from a reachable state in which the context is cancelled, along
   ANY continuation (any interleaving with the consumer and further API calls) the pipeline
   goroutines take at most mu s more steps *)
Lemma steps_after_cancel_bounded : forall sched s, c_and c = true -> c_recheck c = true ->
  reach c s -> cancelled s = true ->
  ptaken sched s + mu (fst (run c sched s)) <= mu s.
Proof.
  induction sched as [|l r IH]; intros s Hand Hre Hr Hc; cbn; [lia|].
  destruct (step c l s) as [[s' o]|] eqn:E.
  - assert (reach c s') as Hr' by (econstructor; eassumption).
    assert (cancelled s' = true) as Hc' by (destruct (step_flags_mono c l s s' o E) as (A & _); auto).
    specialize (IH s' Hand Hre Hr' Hc'). destruct (run c r s') as [s'' o'] eqn:E2. cbn [fst] in *.
    destruct (is_pipeline l) eqn:Ep.
    + pose proof (mu_decreases l s s' o Hand Hre (reach_len s Hr) Hc Ep E). unfold mu in *. lia.
    + pose proof (mu_unchanged l s s' o Ep E). unfold mu in *. lia.
  - apply IH; assumption.
Qed.

(* part 2: and they can always go on until every one of them is done (so Close's wg.Wait returns) *)
Lemma drain_exists : forall m s, mu s <= m -> c_and c = true -> c_recheck c = true ->
  reach c s -> running s = true -> cancelled s = true ->
  exists sched, all_done (fst (run c sched s)) = true.
Proof.
  induction m as [|m IH]; intros s Hm Hand Hre Hr Hrun Hc.
  - destruct (all_done s) eqn:Ed; [exists []; exact Ed|].
    destruct (cancel_progress s Hr Hrun Hc Ed) as (l & s' & o & Hp & Hs).
    pose proof (mu_decreases l s s' o Hand Hre (reach_len s Hr) Hc Hp Hs). lia.
  - destruct (all_done s) eqn:Ed; [exists []; exact Ed|].
    destruct (cancel_progress s Hr Hrun Hc Ed) as (l & s' & o & Hp & Hs).
    pose proof (mu_decreases l s s' o Hand Hre (reach_len s Hr) Hc Hp Hs) as Hlt.
    destruct (IH s') as [sched Hd]; try assumption; try lia.
    + econstructor; eassumption.
    + eapply running_mono; eassumption.
    + destruct (step_flags_mono c l s s' o Hs) as (A & _); auto.
    + exists (l :: sched). cbn. rewrite Hs. destruct (run c sched s'). exact Hd.
Qed.

(* ================= deadlock freedom ================= *)
Definition close_inv (s : state) : Prop := c_pc s = CClose -> cancelled s = true.

Lemma close_step : forall l s s' o, close_inv s -> step c l s = Some (s', o) -> close_inv s'.
Proof.
  intros l s s' o HI H.
  destruct l as [d|i d|d| |a]; [| | | |destruct a]; step_cases H; unfold close_inv in *; cbn; es_rw c s;
    try exact HI; try (intros E; first [discriminate E | reflexivity]);
    try (intros E; match goal with Hp : is_cidle (c_pc s) = true |- _ => rewrite E in Hp; discriminate Hp end).
Qed.

Lemma reach_close : forall s, reach c s -> close_inv s.
Proof.
  intros s H. induction H as [|s l s' o Hr IH Hs]; [intros E; discriminate E|]. exact (close_step l s s' o IH Hs).
Qed.

Lemma cons_enabled : forall s, c_pc s = CNext ->
  (cd_objs s <> [] \/ oq s <> [] \/ oq_closed s = true) -> exists s' o, step c LCo s = Some (s', o).
Proof.
  intros s Hc H. cbn. unfold step_cons. rewrite Hc.
  destruct (cd_objs s) as [|v rest].
  - destruct (oq s) as [|x q].
    + destruct H as [H|[H|H]]; try (exfalso; apply H; reflexivity). rewrite H. eauto.
    + destruct (Z.eqb (o_err x) eEOF); [destruct (c_nextctx c)|]; eauto.
  - destruct (is_err (cd_err s)); eauto.
Qed.

Hypothesis Hwf : wf_input (c_inp c) = true.
Hypothesis Hre : c_recheck c = true.
Hypothesis Hnx : c_nextctx c = true.
Hypothesis Hand : c_and c = true.

Definition is_progress (l : label) : bool := match l with LApi _ => false | _ => true end.

(* NO DEADLOCK: in every reachable state in which the scanning goroutine is inside a call (blocked
   in Next, or waiting in Close), some goroutine — pipeline or consumer — has an enabled step; the
   environment (further API calls, cancellation) is not needed.  For every n >= 1, in particular
   n > 10 where the worker channels are unbuffered. *)
Lemma no_deadlock : forall s, reach c s -> c_pc s <> CIdle ->
  exists l s' o, is_progress l = true /\ step c l s = Some (s', o).
Proof.
  intros s Hr Hnidle.
  pose proof (reach_len s Hr) as HL. pose proof (reach_first s Hr) as HF.
  pose proof (reach_sdone s Hr) as [[HS1 HS2] HS3]. pose proof (reach_next s Hr) as (HN & _ & _).
  pose proof (reach_close s Hr) as HC. pose proof (reach_wdone s Hr) as HW.
  assert (forall l, is_pipeline l = true -> is_progress l = true) as Hpp by (intros []; cbn; congruence).
  (* cancelled: progress of the pipeline, or everything is done and the consumer can go on *)
  assert (cancelled s = true -> running s = true -> all_done s = false ->
          exists l s' o, is_progress l = true /\ step c l s = Some (s', o)) as Hcan.
  { intros Hc Hrun Hnd. destruct (cancel_progress s Hr Hrun Hc Hnd) as (l & s' & o & Hp & Hs). eauto 6. }
  destruct (c_pc s) eqn:Ecp; [exfalso; apply Hnidle; reflexivity| |].
  - (* blocked in Next *)
    destruct (HN eq_refl) as [Hrun _].
    destruct (cd_objs s) as [|v rest] eqn:Eco.
    2:{ destruct (cons_enabled s Ecp) as (s' & o & Hs); [left; rewrite Eco; discriminate|]. exists LCo, s', o. auto. }
    destruct (oq s) as [|x q] eqn:Eoq.
    2:{ destruct (cons_enabled s Ecp) as (s' & o & Hs); [right; left; rewrite Eoq; discriminate|]. exists LCo, s', o. auto. }
    destruct (oq_closed s) eqn:Ecl.
    { destruct (cons_enabled s Ecp) as (s' & o & Hs); [right; right; exact Ecl|]. exists LCo, s', o. auto. }
    destruct (cancelled s) eqn:Ecan.
    { apply Hcan; auto. unfold all_done. rewrite Hrun. cbn.
      destruct (s_pc s) eqn:Es; cbn; rewrite ?andb_false_r; try reflexivity.
      pose proof (HS1 eq_refl) as Hx. discriminate Hx. }
    (* not cancelled: the order invariant is available *)
    destruct (reach_inv c Hn Hwf Hre Hnx s Hr) as (_ & _ & HU). specialize (HU Ecan).
    destruct HU as (U0 & U1 & U2 & U3 & U4 & U5 & U6).
    destruct (s_pc s) as [|p|p|] eqn:Es.
    + (* SRecv *)
      set (i := s_cnt s mod c_n c). assert (i < c_n c) as Hi by (apply Nat.mod_upper_bound; lia).
      assert ((i <? c_n c) = true) as Hlt by (apply Nat.ltb_lt; exact Hi).
      destruct (w_out (getw i (ws s))) as [|po qo] eqn:Eout.
      2:{ enabled c s Hrun (LSe false). rewrite Es in E. fold i in E. rewrite Eout in E. discriminate E. }
      destruct (w_pc (getw i (ws s))) as [|ow|] eqn:Epc.
      * (* worker i waits for input *)
        destruct (w_in (getw i (ws s))) as [|x q] eqn:Ein.
        2:{ enabled c s Hrun (LWk i false). rewrite Hlt, Epc, Ein in E. discriminate E. }
        destruct (r_pc s) as [e| |k it sel|] eqn:Er.
        -- enabled c s Hrun (LRd false). rewrite Er in E. destruct (loop_cond c _ _); discriminate E.
        -- enabled c s Hrun (LRd false). rewrite Er in E. discriminate E.
        -- (* the reader holds a pair: it must be for worker i *)
           assert (k mod c_n c = i) as Hki.
           { destruct (Nat.eq_dec (k mod c_n c) i) as [Eq|Ne]; [exact Eq|exfalso].
             assert (k mod c_n c < c_n c) as Hk by (apply Nat.mod_upper_bound; lia).
             pose proof (U1 _ Hk) as U1k. cbn [rheld] in U1k. rewrite Nat.eqb_refl in U1k.
             specialize (U1 i Hi). unfold outs_w in U1. rewrite Eout, Epc, Ein in U1. cbn in U1.
             apply Nat.eqb_neq in Ne. rewrite Ne in U1.
             assert (s_cnt s < r_pos s) as Hlt2.
             { destruct (Nat.eq_dec (s_cnt s) (r_pos s)) as [Eq2|]; [|lia]. exfalso.
               rewrite Eq2, want_nil in U1k.
               apply app_eq_nil in U1k. destruct U1k as [_ X]. discriminate X. }
             rewrite (want_S_l c Hn (s_cnt s) (r_pos s)) in U1 by exact Hlt2. fold i in U1.
             rewrite Nat.eqb_refl in U1. discriminate U1. }
           enabled c s Hrun (LRd false). rewrite Er, Hki, Ein, Epc in E. cbn in E. unfold can_send in E.
           destruct (cap c); cbn in E; destruct sel; discriminate E.
        -- enabled c s Hrun (LWk i false). rewrite Hlt, Epc, Ein, Er in E. discriminate E.
      * (* worker i holds a result: its output is empty and the serializer waits on it *)
        enabled c s Hrun (LWk i false). rewrite Hlt, Epc, Eout in E. cbn in E.
        unfold can_send, ser_waiting_on in E. rewrite Es in E. fold i in E. rewrite Nat.eqb_refl in E.
        destruct (cap c) eqn:Ecap; cbn in E; rewrite ?Nat.eqb_refl in E; cbn in E; discriminate E.
      * enabled c s Hrun (LSe false). rewrite Es in E. fold i in E. rewrite Eout, Epc in E. discriminate E.
    + enabled c s Hrun (LSe false). rewrite Es in E. destruct (c_recheck c && cancelled s)%bool; discriminate E.
    + enabled c s Hrun (LSe false). rewrite Es, Eoq in E. cbn in E.
      destruct (c_n c) eqn:En; [lia|]. cbn in E. destruct (is_err (o_err p)); discriminate E.
    + exfalso. exact U6.
  - (* waiting in Close *)
    pose proof (HC Ecp) as Hcc.
    destruct (all_done s) eqn:Ed.
    + exists LCo. cbn. unfold step_cons. rewrite Ecp, Ed. eauto.
    + destruct (running s) eqn:Hrun; [apply Hcan; auto|]. unfold all_done in Ed. rewrite Hrun in Ed. discriminate Ed.
Qed.
End Live.

(* ---- the environment assumption made explicit: Read returns ---- *)
From Verif Require Import Pipeline.Witness.

(* a reachable state in which Close is waiting and the ONLY step any goroutine can take is the
   reader's readFileBlock: if that Read never returns (a pipe nobody writes to), Close never
   returns.  The theorems no_deadlock / goroutines_terminate count this step as always enabled. *)
Lemma close_waits_for_read :
  c_pc close_in_read_state = CClose /\ r_pc close_in_read_state = RRead /\ cancelled close_in_read_state = true /\
  step (cfg_now 1 blocks5) LCo close_in_read_state = None /\
  forall l s' o, is_progress l = true -> step (cfg_now 1 blocks5) l close_in_read_state = Some (s', o) -> l = LRd false.
Proof.
  repeat split.
  intros l s' o Hp H. destruct l as [d|i d|d| |a]; try discriminate Hp.
  - destruct d; [vm_compute in H; discriminate H|reflexivity].
  - destruct i as [|i]; [destruct d; vm_compute in H; discriminate H|].
    cbn in H. unfold step_worker in H. cbn in H. discriminate H.
  - destruct d; vm_compute in H; discriminate H.
  - vm_compute in H. discriminate H.
Qed.
