(* Pipeline/ProofsLive.v — structural invariants that hold in every reachable state (cancelled or
   not), progress, the termination measure after cancellation, and deadlock freedom. *)
From Coq Require Import List ZArith Bool Arith Lia.
From Verif Require Import Pipeline.Model Pipeline.ProofsBasic Pipeline.ProofsChain Pipeline.ProofsOrder.
Import ListNotations.

Arguments getw : simpl never.
Arguments setw : simpl never.

Ltac es_rw c s := repeat match goal with |- context [ensure_started c s] =>
  unfold ensure_started; destruct (started s); [|destruct (is_err (c_hdr_err c)) eqn:?]; cbn end.

Section Live.
Variable c : cfg.
Hypothesis Hn : 1 <= c_n c.

(* S1 *)
Lemma len_step : forall l s s' o, length (ws s) = c_n c -> step c l s = Some (s', o) -> length (ws s') = c_n c.
Proof.
  intros l s s' o HL H.
  destruct l as [d|i d|d| |a]; [| | | |destruct a]; step_cases H; cbn; es_rw c s; rewrite ?setw_length; exact HL.
Qed.

Lemma reach_len : forall s, reach c s -> length (ws s) = c_n c.
Proof.
  intros s H. induction H as [|s l s' o Hr IH Hs]; [apply repeat_length|]. exact (len_step l s s' o IH Hs).
Qed.

(* S2: a worker exits only after the reader has *)
Definition wdone_inv (s : state) : Prop :=
  forall i, i < c_n c -> w_pc (getw i (ws s)) = WDone -> r_pc s = RDone.

Lemma getw_setw_pc : forall l i j w, i < length l ->
  w_pc (getw j (setw i w l)) = if j =? i then w_pc w else w_pc (getw j l).
Proof.
  intros l i j w Hi. destruct (Nat.eq_dec j i) as [->|E].
  - rewrite Nat.eqb_refl, getw_setw_eq by exact Hi. reflexivity.
  - rewrite getw_setw_neq by auto. apply Nat.eqb_neq in E. rewrite E. reflexivity.
Qed.

Lemma wdone_step : forall l s s' o, length (ws s) = c_n c -> wdone_inv s -> step c l s = Some (s', o) -> wdone_inv s'.
Proof.
  intros l s s' o HL HI H. unfold wdone_inv in *.
  destruct l as [d|i d|d| |a]; [| | | |destruct a]; step_cases H; cbn; es_rw c s; try exact HI;
    intros j Hj Hd;
    try (rewrite getw_setw_pc in Hd by (rewrite HL; first [assumption | apply Nat.mod_upper_bound; lia | apply Nat.ltb_lt; assumption]);
         cbn in Hd; destruct (j =? _) eqn:Ej;
         [ apply Nat.eqb_eq in Ej; subst j | ]);
    try discriminate Hd;
    try (match goal with Hr : is_rdone (r_pc s) = true |- _ => destruct (r_pc s); try discriminate Hr; reflexivity end);
    try (exfalso; specialize (HI _ Hj Hd); congruence);
    try (exfalso; match goal with Hk : _ |- _ => specialize (HI _ (Nat.mod_upper_bound _ _ ltac:(lia)) Hd); congruence end);
    try (apply (HI _ Hj Hd)).
Qed.

Lemma reach_wdone : forall s, reach c s -> wdone_inv s.
Proof.
  intros s H. induction H as [|s l s' o Hr IH Hs].
  - intros i Hi Hd. unfold init in Hd. cbn in Hd. rewrite getw_repeat in Hd by exact Hi. discriminate Hd.
  - exact (wdone_step l s s' o (reach_len s Hr) IH Hs).
Qed.

(* S3: the ordered queue is closed exactly when the serializer has exited; then the context is cancelled *)
Definition sdone_inv (s : state) : Prop :=
  (s_pc s = SDone <-> oq_closed s = true) /\ (oq_closed s = true -> cancelled s = true).

Lemma sdone_step : forall l s s' o, sdone_inv s -> step c l s = Some (s', o) -> sdone_inv s'.
Proof.
  intros l s s' o [[HA HB] HC] H. unfold sdone_inv.
  destruct l as [d|i d|d| |a]; [| | | |destruct a]; step_cases H; cbn; es_rw c s;
    try (split; [split|]; assumption);
    try (split; [split|]; intros; try reflexivity; try discriminate; try congruence; auto; fail);
    try (split; [split|]; intros Hx; try reflexivity; try discriminate Hx; try (apply HC; exact Hx); exfalso;
         specialize (HB Hx); discriminate HB).
  all: split; [split; assumption|]; intros Hx; specialize (HC Hx); discriminate HC.
Qed.

Lemma reach_sdone : forall s, reach c s -> sdone_inv s.
Proof.
  intros s H. induction H as [|s l s' o Hr IH Hs].
  - unfold sdone_inv, init. cbn. repeat split; intros E; discriminate E.
  - exact (sdone_step l s s' o IH Hs).
Qed.

(* S4: a Scan is in flight only with running goroutines and no recorded error *)
Definition next_inv (s : state) : Prop :=
  c_pc s = CNext -> running s = true /\ s_err s = 0%Z.

Lemma next_step : forall l s s' o, next_inv s -> step c l s = Some (s', o) -> next_inv s'.
Proof.
  intros l s s' o HI H.
  destruct l as [d|i d|d| |a]; [| | | |destruct a]; step_cases H; unfold next_inv in *; cbn;
    try exact HI; try (intros E; discriminate E).
  all: idtac "left". Show.
Abort.
End Live.
