(* Pipeline/ProofsTerm.v — termination after cancellation, goroutine by goroutine (C07).

   ProofsLive.v bounds the TOTAL number of pipeline steps after cancellation by mu s (a sum over
   all workers) and shows that a pipeline step is enabled while some goroutine is not done.  Here:

   * per-goroutine bounds that do not depend on n, on the consumer, on the other goroutines or on
     the rest of the input: after the context is cancelled the reader takes at most 3 more steps of
     its own, the serializer at most 3, worker i at most 2 * |its input queue| + 4 (the 4: the
     block it holds, and the one block the reader may still hand it — bounded read-ahead);
   * every schedule whatsoever that runs the pipeline goroutines until none of them can move
     (any interleaving with the consumer and further API calls, any select resolution) ends with
     all n + 2 goroutines Done: termination under every maximal schedule, not only for one. *)
From Coq Require Import List ZArith Bool Arith Lia.
From Verif Require Import Pipeline.Model Pipeline.ProofsBasic Pipeline.ProofsChain Pipeline.ProofsOrder
  Pipeline.ProofsLive.
Import ListNotations.

Definition is_rd (l : label) : bool := match l with LRd _ => true | _ => false end.
Definition is_se (l : label) : bool := match l with LSe _ => true | _ => false end.
Definition is_wk (i : nat) (l : label) : bool := match l with LWk j _ => j =? i | _ => false end.

Lemma rm_le_3 : forall p, rm p <= 3.
Proof. intros []; cbn; lia. Qed.
Lemma sm_le_3 : forall p, sm p <= 3.
Proof. intros []; cbn; lia. Qed.

Section Term.
Variable c : cfg.
Hypothesis Hn : 1 <= c_n c.
Hypothesis Hand : c_and c = true.
Hypothesis Hre : c_recheck c = true.

(* steps of the goroutines selected by [p] actually taken along a schedule *)
Fixpoint taken (p : label -> bool) (sched : list label) (s : state) : nat :=
  match sched with
  | [] => 0
  | l :: r => match step c l s with
              | Some (s', _) => (if p l then 1 else 0) + taken p r s'
              | None => taken p r s
              end
  end.

(* a measure that strictly decreases on the selected steps and never increases on any step of a
   cancelled reachable state bounds the number of selected steps along EVERY schedule *)
Lemma taken_bounded (p : label -> bool) (M : state -> nat) :
  (forall l s s' o, length (ws s) = c_n c -> cancelled s = true -> step c l s = Some (s', o) ->
     if p l then M s' < M s else M s' <= M s) ->
  forall sched s, reach c s -> cancelled s = true ->
  taken p sched s + M (fst (run c sched s)) <= M s.
Proof.
  intros HM. induction sched as [|l r IH]; intros s Hr Hc; cbn; [lia|].
  destruct (step c l s) as [[s' o]|] eqn:E.
  - assert (reach c s') as Hr' by (econstructor; eassumption).
    assert (cancelled s' = true) as Hc' by (destruct (step_flags_mono c l s s' o E) as (A & _); auto).
    specialize (IH s' Hr' Hc'). destruct (run c r s') as [s'' o']. cbn [fst] in *.
    pose proof (HM l s s' o (reach_len c s Hr) Hc E) as Hd. destruct (p l); lia.
  - apply IH; assumption.
Qed.

(* ---------------- reader ---------------- *)
Lemma reader_measure : forall l s s' o, length (ws s) = c_n c -> cancelled s = true ->
  step c l s = Some (s', o) ->
  if is_rd l then rm (r_pc s') < rm (r_pc s) else rm (r_pc s') <= rm (r_pc s).
Proof.
  intros l s s' o HL Hc H.
  destruct l as [d|i d|d| |a]; [| | | |destruct a]; cbn [is_rd]; step_cases H; cbn; es_rw c s;
    try (match goal with Hl : loop_cond _ _ _ = true |- _ =>
           unfold loop_cond in Hl; rewrite Hand, Hc in Hl; discriminate Hl end);
    try lia.
Qed.

Theorem reader_steps_bounded : forall sched s, reach c s -> cancelled s = true ->
  taken is_rd sched s + rm (r_pc (fst (run c sched s))) <= rm (r_pc s).
Proof. exact (taken_bounded is_rd (fun s => rm (r_pc s)) reader_measure). Qed.

(* ---------------- serializer ---------------- *)
Lemma ser_measure : forall l s s' o, length (ws s) = c_n c -> cancelled s = true ->
  step c l s = Some (s', o) ->
  if is_se l then sm (s_pc s') < sm (s_pc s) else sm (s_pc s') <= sm (s_pc s).
Proof.
  intros l s s' o HL Hc H.
  destruct l as [d|i d|d| |a]; [| | | |destruct a]; cbn [is_se]; step_cases H; cbn; es_rw c s;
    try (match goal with Hb : (c_recheck c && cancelled s)%bool = false |- _ =>
           rewrite Hre, Hc in Hb; discriminate Hb end);
    try lia.
Qed.

Theorem ser_steps_bounded : forall sched s, reach c s -> cancelled s = true ->
  taken is_se sched s + sm (s_pc (fst (run c sched s))) <= sm (s_pc s).
Proof. exact (taken_bounded is_se (fun s => sm (s_pc s)) ser_measure). Qed.

(* ---------------- worker i ---------------- *)
(* 1 when the reader is about to read, or holds, a block destined for worker i *)
Definition pend (i : nat) (s : state) : nat :=
  match r_pc s with
  | RRead => if r_pos s mod c_n c =? i then 1 else 0
  | RSend k _ _ => if k mod c_n c =? i then 1 else 0
  | _ => 0
  end.
Definition mw (i : nat) (s : state) : nat := wm (getw i (ws s)) + 2 * pend i s.

Lemma wm_getw_setw : forall l i j w, i < length l ->
  wm (getw j (setw i w l)) = if j =? i then wm w else wm (getw j l).
Proof.
  intros l i j w Hi. destruct (Nat.eq_dec j i) as [->|E].
  - rewrite Nat.eqb_refl, getw_setw_eq by exact Hi. reflexivity.
  - rewrite getw_setw_neq by auto. apply Nat.eqb_neq in E. rewrite E. reflexivity.
Qed.

Lemma worker_measure (i : nat) : forall l s s' o, length (ws s) = c_n c -> cancelled s = true ->
  step c l s = Some (s', o) ->
  if is_wk i l then mw i s' < mw i s else mw i s' <= mw i s.
Proof.
  intros l s s' o HL Hc H.
  assert (Hmod : forall k, k mod c_n c < length (ws s)) by (intros k; rewrite HL; apply Nat.mod_upper_bound; lia).
  destruct l as [d|j d|d| |a]; [| | | |destruct a]; cbn [is_wk].
  - (* reader *)
    step_cases H; unfold mw, pend;
      cbn [r_pc r_pos ws set_r_pc set_r_pos set_rac set_ws];
      try (match goal with Hl : loop_cond _ _ _ = true |- _ =>
             unfold loop_cond in Hl; rewrite Hand, Hc in Hl; discriminate Hl end);
      rewrite ?wm_getw_setw by apply Hmod;
      repeat match goal with Hq : r_pc s = _ |- _ => rewrite Hq end;
      try (destruct (_ mod c_n c =? i) eqn:Ei; [rewrite Nat.eqb_sym in Ei|rewrite Nat.eqb_sym in Ei]; rewrite ?Ei);
      unfold wm; cbn [w_in w_pc w_out]; rewrite ?app_length; cbn [length];
      try (apply Nat.eqb_eq in Ei; rewrite Ei);
      try lia.
  - (* worker j *)
    step_cases H; unfold mw, pend; cbn [r_pc r_pos ws set_ws];
      match goal with Hlt : (j <? c_n c) = true |- _ => apply Nat.ltb_lt in Hlt end;
      rewrite wm_getw_setw by (rewrite HL; assumption);
      rewrite (Nat.eqb_sym j i);
      destruct (i =? j) eqn:Eij;
      try (apply Nat.eqb_eq in Eij; subst j);
      unfold wm; cbn [w_in w_pc w_out wpm];
      repeat match goal with Hq : w_in (getw _ _) = _ |- _ => rewrite Hq end;
      repeat match goal with Hq : w_pc (getw _ _) = _ |- _ => rewrite Hq end;
      cbn [length wpm]; lia.
  - (* serializer *)
    step_cases H; unfold mw, pend;
      cbn [r_pc r_pos ws set_s_pc set_s_cnt set_ws set_oq set_cd_err set_oq_closed set_cancelled ser_exit];
      rewrite ?wm_getw_setw by apply Hmod;
      try (destruct (i =? _) eqn:Ei; [apply Nat.eqb_eq in Ei; rewrite <- Ei|]);
      unfold wm; cbn [w_in w_pc w_out]; lia.
  - (* consumer *)
    step_cases H; unfold mw, pend; cbn; lia.
  - step_cases H; unfold mw, pend; cbn; es_rw c s; lia.
  - step_cases H; unfold mw, pend; cbn; es_rw c s; lia.
  - step_cases H; unfold mw, pend; cbn; es_rw c s; lia.
  - step_cases H; unfold mw, pend; cbn; es_rw c s; lia.
  - step_cases H; unfold mw, pend; cbn; es_rw c s; lia.
  - step_cases H; unfold mw, pend; cbn; es_rw c s; lia.
Qed.

Theorem worker_steps_bounded : forall i sched s, reach c s -> cancelled s = true ->
  taken (is_wk i) sched s + mw i (fst (run c sched s)) <= mw i s.
Proof. intros i. exact (taken_bounded (is_wk i) (mw i) (worker_measure i)). Qed.

Lemma mw_le : forall i s, mw i s <= 2 * length (w_in (getw i (ws s))) + 4.
Proof.
  intros i s. unfold mw, pend, wm.
  assert (wpm (w_pc (getw i (ws s))) <= 2) by (destruct (w_pc (getw i (ws s))); cbn; lia).
  destruct (r_pc s); try destruct (_ =? i); lia.
Qed.

(* ---------------- every maximal schedule ends with all goroutines Done ---------------- *)
Definition quiescent (s : state) : Prop :=
  forall l, is_pipeline l = true -> step c l s = None.

Theorem quiescent_all_done : forall sched s, reach c s -> running s = true -> cancelled s = true ->
  quiescent (fst (run c sched s)) -> all_done (fst (run c sched s)) = true.
Proof.
  intros sched s Hr Hrun Hc Hq.
  set (s' := fst (run c sched s)) in *.
  assert (reach c s') as Hr' by (apply run_reach; exact Hr).
  assert (running s' = true /\ cancelled s' = true) as [Hrun' Hc'].
  { subst s'. clear Hq Hr'. revert s Hr Hrun Hc. induction sched as [|l r IH]; intros s Hr Hrun Hc; [cbn; auto|].
    cbn. destruct (step c l s) as [[s1 o]|] eqn:E.
    - assert (reach c s1) by (econstructor; eassumption).
      pose proof (running_mono c l s s1 o E Hrun). destruct (step_flags_mono c l s s1 o E) as (A & _).
      specialize (IH s1 H H0 (A Hc)). destruct (run c r s1). exact IH.
    - apply IH; assumption. }
  destruct (all_done s') eqn:Ed; [reflexivity|exfalso].
  destruct (cancel_progress c Hn s' Hr' Hrun' Hc' Ed) as (l & s'' & o & Hp & Hs).
  rewrite (Hq l Hp) in Hs. discriminate Hs.
Qed.

End Term.

(* ---- closed forms: hypotheses are the boolean predicates wf_cfg (n >= 1, well-formed input) and
   current (the code as it is now) ---- *)
Lemma term_parts : forall c, wf_cfg c = true -> current c = true ->
  1 <= c_n c /\ c_and c = true /\ c_recheck c = true.
Proof.
  intros c Hwf Hcur. destruct (wf_cfg_parts c Hwf) as [Hn _].
  unfold current in Hcur. apply andb_true_iff in Hcur. destruct Hcur as [H _].
  apply andb_true_iff in H. destruct H as [H1 H2]. auto.
Qed.

(* after the context is cancelled, along ANY schedule: *)
Theorem T_reader_steps_after_cancel : forall c sched s, wf_cfg c = true -> current c = true ->
  reach c s -> cancelled s = true -> taken c is_rd sched s <= 3.
Proof.
  intros c sched s Hwf Hcur Hr Hc. destruct (term_parts c Hwf Hcur) as (Hn & Hand & Hre).
  pose proof (reader_steps_bounded c Hn Hand sched s Hr Hc). pose proof (rm_le_3 (r_pc s)). lia.
Qed.

Theorem T_serializer_steps_after_cancel : forall c sched s, wf_cfg c = true -> current c = true ->
  reach c s -> cancelled s = true -> taken c is_se sched s <= 3.
Proof.
  intros c sched s Hwf Hcur Hr Hc. destruct (term_parts c Hwf Hcur) as (Hn & Hand & Hre).
  pose proof (ser_steps_bounded c Hn Hre sched s Hr Hc). pose proof (sm_le_3 (s_pc s)). lia.
Qed.

Theorem T_worker_steps_after_cancel : forall c i sched s, wf_cfg c = true -> current c = true ->
  reach c s -> cancelled s = true ->
  taken c (is_wk i) sched s <= 2 * length (w_in (getw i (ws s))) + 4.
Proof.
  intros c i sched s Hwf Hcur Hr Hc. destruct (term_parts c Hwf Hcur) as (Hn & Hand & Hre).
  pose proof (worker_steps_bounded c Hn Hand i sched s Hr Hc). pose proof (mw_le c Hn i s). lia.
Qed.

Theorem T_quiescent_all_done : forall c sched s, wf_cfg c = true -> current c = true ->
  reach c s -> running s = true -> cancelled s = true ->
  quiescent c (fst (run c sched s)) -> all_done (fst (run c sched s)) = true.
Proof.
  intros c sched s Hwf Hcur Hr Hrun Hc Hq. destruct (term_parts c Hwf Hcur) as (Hn & _ & _).
  exact (quiescent_all_done c Hn sched s Hr Hrun Hc Hq).
Qed.
