(* Pipeline/Exec.v — executable drivers over Pipeline/Model.v: a fair round-robin schedule,
   running an API history, draining the pipeline.  Out-of-fuel is an explicit result. *)
From Coq Require Import List ZArith Bool Arith.
From Verif Require Import Pipeline.Model.
Import ListNotations.

Definition pipeline_round (c : cfg) : list label :=
  [LRd false; LRd true] ++
  flat_map (fun i => [LWk i false; LWk i true]) (seq 0 (c_n c)) ++
  [LSe false; LSe true].

(* let the consumer finish its current call: consumer step when enabled, else one pipeline round *)
Fixpoint drive (c : cfg) (fuel : nat) (s : state) (acc : list output) : state * list output * bool :=
  if is_cidle (c_pc s) then (s, acc, true) else
  match fuel with
  | O => (s, acc, false)
  | S f =>
      match step c LCo s with
      | Some (s', o) => drive c f s' (acc ++ o)
      | None => let (s', o) := run c (pipeline_round c) s in drive c f s' (acc ++ o)
      end
  end.

Definition exec_call (c : cfg) (fuel : nat) (a : call) (s : state) : state * list output * bool :=
  match step c (LApi a) s with
  | Some (s1, o1) => drive c fuel s1 o1
  | None => (s, [], false)
  end.

(* run a history; result: final state, outputs per call, and whether every call completed *)
Fixpoint exec_hist (c : cfg) (fuel : nat) (h : list call) (s : state)
  : state * list (list output) * bool :=
  match h with
  | [] => (s, [], true)
  | a :: r =>
      let '(s1, o, ok) := exec_call c fuel a s in
      let '(s2, os, ok2) := exec_hist c fuel r s1 in
      (s2, o :: os, ok && ok2)
  end.

(* pipeline-only rounds until every goroutine is done (or out of fuel) *)
Fixpoint drain (c : cfg) (fuel : nat) (s : state) : state * bool :=
  if all_done s then (s, true) else
  match fuel with
  | O => (s, false)
  | S f => drain c f (fst (run c (pipeline_round c) s))
  end.

(* the whole-scan driver used for C02: Scan until false, then Err *)
Fixpoint scan_all (c : cfg) (fuel : nat) (n : nat) (s : state) : state * bool :=
  match n with
  | O => (s, false)
  | S k =>
      let '(s1, o, ok) := exec_call c fuel CScan s in
      if negb ok then (s1, false)
      else match o with
           | [OScan true _] => scan_all c fuel k s1
           | _ => (s1, true)
           end
  end.

(* ---- the XML scanner (osmxml/scanner.go): a sequential state machine ---- *)
Record xstate := mkX { x_rem : list obj; x_ferr : err; x_err : err; x_closed : bool; x_ctx : bool;
                       x_delivered : list obj; x_tokens_after_stop : nat }.
Definition xinit (objs : list obj) (ferr : err) : xstate := mkX objs ferr 0%Z false false [] 0.

Definition xstep (a : call) (x : xstate) : xstate * list output :=
  match a with
  | CScan =>
      if is_err (x_err x) then (x, [OScan false 0%Z])
      else if x_ctx x then (x, [OScan false 0%Z])                (* s.ctx.Err() != nil *)
      else match x_rem x with
           | v :: r => (mkX r (x_ferr x) 0%Z (x_closed x) (x_ctx x) (x_delivered x ++ [v])
                            (x_tokens_after_stop x), [OScan true v])
           | [] => (mkX [] (x_ferr x) (x_ferr x) (x_closed x) (x_ctx x) (x_delivered x)
                        (x_tokens_after_stop x), [OScan false 0%Z])
           end
  | CHeader => (x, [])
  | CErr =>
      (x, [OErr (if Z.eqb (x_err x) eEOF then 0%Z
                 else if is_err (x_err x) then x_err x
                 else if x_closed x then eClosed
                 else if x_ctx x then eCtx else 0%Z)])
  | CCloseCall => (mkX (x_rem x) (x_ferr x) (x_err x) true true (x_delivered x)
                       (x_tokens_after_stop x), [OClose])
  | CCancel | CCancel3 => (mkX (x_rem x) (x_ferr x) (x_err x) (x_closed x) true (x_delivered x)
                       (x_tokens_after_stop x), [])
  end.

Fixpoint xrun (h : list call) (x : xstate) : xstate * list (list output) :=
  match h with
  | [] => (x, [])
  | a :: r => let (x1, o) := xstep a x in let (x2, os) := xrun r x1 in (x2, o :: os)
  end.
