(* Pipeline/Exec.v — executable drivers over Pipeline/Model.v: a fair round-robin schedule,
   running an API history, draining the pipeline.  Out-of-fuel is an explicit result. *)
From Coq Require Import List ZArith Bool Arith.
From Verif Require Import Pipeline.Model.
Import ListNotations.

Definition pipeline_round (c : cfg) : list label :=
  [LRd false; LRd true] ++
  flat_map (fun i => [LWk i false; LWk i true]) (seq 0 (c_n c)) ++
  [LSe false; LSe true].

(* let the consumer finish its current call: consumer step when enabled, else one pipeline round *)
Fixpoint drive (c : cfg) (fuel : nat) (s : state) (acc : list output) : state * list output * bool :=
  if is_cidle (c_pc s) then (s, acc, true) else
  match fuel with
  | O => (s, acc, false)
  | S f =>
      match step c LCo s with
      | Some (s', o) => drive c f s' (acc ++ o)
      | None => let (s', o) := run c (pipeline_round c) s in drive c f s' (acc ++ o)
      end
  end.

Definition exec_call (c : cfg) (fuel : nat) (a : call) (s : state) : state * list output * bool :=
  match step c (LApi a) s with
  | Some (s1, o1) => drive c fuel s1 o1
  | None => (s, [], false)
  end.

(* run a history; result: final state, outputs per call, and whether every call completed *)
Fixpoint exec_hist (c : cfg) (fuel : nat) (h : list call) (s : state)
  : state * list (list output) * bool :=
  match h with
  | [] => (s, [], true)
  | a :: r =>
      let '(s1, o, ok) := exec_call c fuel a s in
      let '(s2, os, ok2) := exec_hist c fuel r s1 in
      (s2, o :: os, ok && ok2)
  end.

(* pipeline-only rounds until every goroutine is done (or out of fuel) *)
Fixpoint drain (c : cfg) (fuel : nat) (s : state) : state * bool :=
  if all_done s then (s, true) else
  match fuel with
  | O => (s, false)
  | S f => drain c f (fst (run c (pipeline_round c) s))
  end.

(* the whole-scan driver used for C02: Scan until false, then Err *)
Fixpoint scan_all (c : cfg) (fuel : nat) (n : nat) (s : state) : state * bool :=
  match n with
  | O => (s, false)
  | S k =>
      let '(s1, o, ok) := exec_call c fuel CScan s in
      if negb ok then (s1, false)
      else match o with
           | [OScan true _] => scan_all c fuel k s1
           | _ => (s1, true)
           end
  end.

(* ---- the XML scanner (osmxml/scanner.go): a sequential state machine ---- *)
Record xstate := mkX { x_rem : list obj; x_ferr : err; x_err : err; x_closed : bool; x_ctx : bool;
                       x_delivered : list obj; x_tokens_after_stop : nat }.
Definition xinit (objs : list obj) (ferr : err) : xstate := mkX objs ferr 0%Z false false [] 0.

Definition xstep (a : call) (x : xstate) : xstate * list output :=
  match a with
  | CScan =>
      if is_err (x_err x) then (x, [OScan false 0%Z])
      else if x_ctx x then (x, [OScan false 0%Z])                (* s.ctx.Err() != nil *)
      else match x_rem x with
           | v :: r => (mkX r (x_ferr x) 0%Z (x_closed x) (x_ctx x) (x_delivered x ++ [v])
                            (x_tokens_after_stop x), [OScan true v])
           | [] => (mkX [] (x_ferr x) (x_ferr x) (x_closed x) (x_ctx x) (x_delivered x)
                        (x_tokens_after_stop x), [OScan false 0%Z])
           end
  | CHeader => (x, [])
  | CErr =>
      (x, [OErr (if Z.eqb (x_err x) eEOF then 0%Z
                 else if is_err (x_err x) then x_err x
                 else if x_closed x then eClosed
                 else if x_ctx x then eCtx else 0%Z)])
  | CCloseCall => (mkX (x_rem x) (x_ferr x) (x_err x) true true (x_delivered x)
                       (x_tokens_after_stop x), [OClose])
  | CCancel | CCancel3 => (mkX (x_rem x) (x_ferr x) (x_err x) (x_closed x) true (x_delivered x)
                       (x_tokens_after_stop x), [])
  end.

Fixpoint xrun (h : list call) (x : xstate) : xstate * list (list output) :=
  match h with
  | [] => (x, [])
  | a :: r => let (x1, o) := xstep a x in let (x2, os) := xrun r x1 in (x2, o :: os)
  end.

(* ---- the XML scanner at token granularity (osmxml/scanner.go Scan loop): the context is tested
   before EVERY decoder.Token(); cancellation may arrive from another goroutine between any two
   steps.  [xt_percall = true] is the variant that tests the context once per Scan call only. ---- *)
Inductive xtok :=
| XObj (v : obj)   (* a start element of an object kind: Token() and DecodeElement of the WHOLE element succeed *)
| XBad (e : err)   (* such an element whose DecodeElement (or a Token) fails with e *)
| XSkip.           (* any other top-level token *)
Inductive xpc := XIdle | XCheck | XRead.
Record xts := mkXT { xt_toks : list xtok; xt_err : err; xt_closed : bool; xt_ctx : bool; xt_pc : xpc;
                     xt_delivered : list obj; xt_tac : nat (* ghost: tokens read after the context was cancelled *) }.
Inductive xlabel := XLCall (a : call) | XLStep | XLCancel3.
Definition xtinit (toks : list xtok) : xts := mkXT toks 0%Z false false XIdle [] 0.

Definition xtstep (percall : bool) (l : xlabel) (x : xts) : option (xts * list output) :=
  match l with
  | XLCancel3 => Some (mkXT (xt_toks x) (xt_err x) (xt_closed x) true (xt_pc x) (xt_delivered x) (xt_tac x), [])
  | XLCall a =>
      match xt_pc x with
      | XIdle =>
          match a with
          | CScan =>
              if is_err (xt_err x) then Some (x, [OScan false 0%Z])
              else if percall && xt_ctx x then Some (x, [OScan false 0%Z])
              else Some (mkXT (xt_toks x) (xt_err x) (xt_closed x) (xt_ctx x) (if percall then XRead else XCheck)
                              (xt_delivered x) (xt_tac x), [])
          | CCloseCall => Some (mkXT (xt_toks x) (xt_err x) true true XIdle (xt_delivered x) (xt_tac x), [OClose])
          | CCancel => Some (mkXT (xt_toks x) (xt_err x) (xt_closed x) true XIdle (xt_delivered x) (xt_tac x), [])
          | CErr => Some (x, [OErr (if Z.eqb (xt_err x) eEOF then 0%Z else if is_err (xt_err x) then xt_err x
                                    else if xt_closed x then eClosed else if xt_ctx x then eCtx else 0%Z)])
          | _ => None
          end
      | _ => None
      end
  | XLStep =>
      match xt_pc x with
      | XIdle => None
      | XCheck =>
          if xt_ctx x then Some (mkXT (xt_toks x) (xt_err x) (xt_closed x) true XIdle (xt_delivered x) (xt_tac x), [OScan false 0%Z])
          else Some (mkXT (xt_toks x) (xt_err x) (xt_closed x) false XRead (xt_delivered x) (xt_tac x), [])
      | XRead =>
          let tac := xt_tac x + (if xt_ctx x then 1 else 0) in
          match xt_toks x with
          | [] => Some (mkXT [] eEOF (xt_closed x) (xt_ctx x) XIdle (xt_delivered x) tac, [OScan false 0%Z])
          | XSkip :: r => Some (mkXT r (xt_err x) (xt_closed x) (xt_ctx x) (if percall then XRead else XCheck) (xt_delivered x) tac, [])
          | XObj v :: r => Some (mkXT r (xt_err x) (xt_closed x) (xt_ctx x) XIdle (xt_delivered x ++ [v]) tac, [OScan true v])
          | XBad e :: r => Some (mkXT r e (xt_closed x) (xt_ctx x) XIdle (xt_delivered x) tac, [OScan false 0%Z])
          end
      end
  end.

(* specification of a token list: the objects before the first failing element, and how it ends *)
Fixpoint xt_expected (l : list xtok) : list obj :=
  match l with XObj v :: r => v :: xt_expected r | XSkip :: r => xt_expected r | _ => [] end.
Fixpoint xt_final (l : list xtok) : err :=
  match l with XObj _ :: r | XSkip :: r => xt_final r | XBad e :: _ => e | [] => eEOF end.
Fixpoint xt_wf (l : list xtok) : bool :=
  match l with [] => true | XBad e :: r => is_err e && xt_wf r | _ :: r => xt_wf r end.
Definition xt_err_value (x : xts) : err :=
  if Z.eqb (xt_err x) eEOF then 0%Z else if is_err (xt_err x) then xt_err x
  else if xt_closed x then eClosed else if xt_ctx x then eCtx else 0%Z.

Fixpoint xtrun (percall : bool) (sched : list xlabel) (x : xts) : xts * list output :=
  match sched with
  | [] => (x, [])
  | l :: r => match xtstep percall l x with
              | Some (x', o) => let (x'', o') := xtrun percall r x' in (x'', o ++ o')
              | None => xtrun percall r x
              end
  end.
