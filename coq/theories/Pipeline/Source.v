(* Pipeline/Source.v — the model configuration that corresponds to the source as it is NOW: the
   variant flags and the channel budget are read from coq/gen/GenPipeline.v, which
   translator/cmd/pipeline regenerates from /repo/osmpbf/decode.go on every run.  (Executable
   definitions only; the obligations about them are in Pipeline/GenOk.v.) *)
From Coq Require Import String List Bool ZArith.
From Verif Require Import Pipeline.Model.
From VerifGen Require Import GenPipeline.
Import ListNotations.
Open Scope string_scope.

Definition src_and : bool := String.eqb reader_loop_op "&&".
Definition src_or : bool := String.eqb reader_loop_op "||".

Fixpoint mentions (sub s : string) : bool :=
  match s with
  | EmptyString => String.eqb sub EmptyString
  | String _ r => String.prefix sub s || mentions sub r
  end.

(* Next takes the error of a closed ordered channel from cData.Err, then from ctx.Err(); the EOF
   pair is stored; the serializer does not write cData *)
Definition src_nextctx : bool :=
  negb ser_writes_cdata && next_stores_eof &&
  match next_closed_checks with
  | [a; b; r] => String.eqb a "dec.cData.Err" && String.eqb b "dec.ctx.Err()" && String.eqb r "io.EOF"
  | _ => false
  end.

Definition cfg_of_source (n : nat) (inp : input) (resume : bool) (herr : err) : cfg :=
  mkCfg n inp resume herr src_and ser_recheck src_nextctx chan_budget.
