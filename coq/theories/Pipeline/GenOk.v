(* Pipeline/GenOk.v — obligations tying Pipeline/Model.v to the source text re-read on every run
   (coq/gen/GenPipeline.v).  If a repaired defect is reverted, or the control structure the model
   transcribes changes shape, one of these fails to compile. *)
From Coq Require Import String List Bool ZArith.
From Verif Require Import Pipeline.Model Pipeline.Source.
From VerifGen Require Import GenPipeline.
Import ListNotations.
Open Scope string_scope.

(* the source is the repaired code: the theorems with hypothesis [current c] apply to it *)
Example source_is_current : forall n inp resume herr, current (cfg_of_source n inp resume herr) = true.
Proof. intros. reflexivity. Qed.

Example reader_loop_ok :
  reader_loop_op = "&&" /\ reader_loop_operands = ["dec.ctx.Err() == nil"; "err == nil"].
Proof. split; reflexivity. Qed.

Example serializer_ok : ser_recheck = true /\ ser_writes_cdata = false /\ ser_round_robin = true /\ ser_exit_shape = true.
Proof. repeat split; reflexivity. Qed.

Example next_ok : src_nextctx = true /\ next_shape = true.
Proof. split; reflexivity. Qed.

Example goroutines_ok :
  goroutine_kinds_found = true /\ worker_shape = true /\ wg_add = "n + 2" /\ procs_clamped = true.
Proof. repeat split; reflexivity. Qed.

Example reader_ok :
  reader_round_robin_count = 2 /\ reader_input_index = true /\ reader_closes_inputs = true.
Proof. repeat split; reflexivity. Qed.

Example capacities_ok : chan_budget_div_n = true /\ chan_caps_ok = true /\ 1 <= chan_budget.
Proof. repeat split; try reflexivity. unfold chan_budget. repeat constructor. Qed.

Example scanner_ok :
  scan_guard = ["s.closed"; "s.ctx.Err() != nil"; "s.err != nil"] /\ scan_calls_next = true /\ close_shape = true /\
  err_order = ["s.err == io.EOF -> return nil"; "s.err != nil -> return s.err";
               "s.closed -> return osm.ErrScannerClosed"; "return s.ctx.Err()"].
Proof. repeat split; reflexivity. Qed.

Example xml_scanner_ok :
  xml_scan_guards = true /\ xml_close_shape = true /\
  xml_err_order = ["s.err == io.EOF -> return nil"; "s.err != nil -> return s.err";
                   "s.closed -> return osm.ErrScannerClosed"; "return s.ctx.Err()"].
Proof. repeat split; reflexivity. Qed.

(* every blocking operation of the three kinds of goroutine is one the model has (normal form of
   translator/cmd/pipeline: local channel variables replaced by what they denote, transmitted values
   dropped): each select has exactly the data case and the ctx.Done case (no timer, no default, no
   missing Done), the only channel operation outside a select is the push of a resumed file's first
   block to input 0, and neither Start nor its goroutines use timers
   (Pipeline/Model.v: step_reader, step_worker, step_ser) *)
Example blocking_ops_ok :
  reader_selects = ["done dec.ctx | send dec.inputs[_]"] /\
  worker_selects = ["done dec.ctx | send chan oPair"] /\
  ser_selects = ["done dec.ctx | recv dec.outputs[_]"; "done dec.ctx | send dec.serializer"] /\
  reader_bare_chan_ops = ["send dec.inputs[0]"] /\
  worker_bare_chan_ops = [] /\ ser_bare_chan_ops = [] /\ start_uses_timers = false.
Proof. repeat split; reflexivity. Qed.

(* the error of a closed ordered channel: first non-nil of cData.Err, ctx.Err(), io.EOF *)
Example next_closed_ok : next_closed_checks = ["dec.cData.Err"; "dec.ctx.Err()"; "io.EOF"].
Proof. reflexivity. Qed.
