(* Pipeline/ProofsLive2.v — every Next call returns, under every schedule (no livelock).

   ProofsLive.v shows that while the scanning goroutine is inside a call some goroutine can move
   (no_deadlock).  Here a potential [phi] is defined on states such that, while the consumer is
   blocked in Next, EVERY step of a pipeline goroutine or of the consumer strictly decreases it and
   a cancellation by another goroutine does not increase it — in every reachable state, cancelled
   or not.  Hence along any schedule the goroutines take at most [phi s] steps before Next has
   returned; with no_deadlock: Next returns after at most phi s steps whatever the scheduler does.

   phi counts, for every block, the steps it still has to make: 10 per block not yet read (the
   reader reads at most |input| + 1 blocks: it stops after the first read error, io.EOF at the
   latest), 7 in a worker's input queue, 5 in a worker's output queue, 2 in the ordered queue, plus
   program-counter weights; after cancellation a smaller potential (the mu of ProofsLive.v plus
   the ordered queue) takes over, and phi is dominated by it at the moment of the switch. *)
From Coq Require Import List ZArith Bool Arith Lia.
From Verif Require Import Pipeline.Model Pipeline.ProofsBasic Pipeline.ProofsChain Pipeline.ProofsOrder
  Pipeline.ProofsLive.
Import ListNotations.

Definition rho (p : rpc) : nat :=
  match p with RRead => 9 | RTest _ => 10 | RSend _ _ _ => 18 | RDone => 0 end.
Definition omega (p : wpc) : nat := match p with WSend _ => 7 | WRecv => 1 | WDone => 0 end.
Definition wn (w : worker) : nat := 7 * length (w_in w) + omega (w_pc w) + 5 * length (w_out w).
Fixpoint wsumN (l : list worker) : nat := match l with [] => 0 | w :: r => wn w + wsumN r end.
Definition sigma (p : spc) : nat :=
  match p with SChk _ => 13 | SSend _ => 12 | SRecv => 9 | SDone => 0 end.
Definition cpart (s : state) : nat :=
  2 * length (oq s) + match cd_objs s with [] => 0 | _ => 1 end.

Lemma wsumN_setw : forall l i w, i < length l ->
  wsumN (setw i w l) + wn (getw i l) = wsumN l + wn w.
Proof.
  induction l as [|x l IH]; intros [|i] w H; cbn [length] in H; try lia.
  - change (setw 0 w (x :: l)) with (w :: l). change (getw 0 (x :: l)) with x. cbn [wsumN]. lia.
  - change (setw (S i) w (x :: l)) with (x :: setw i w l). change (getw (S i) (x :: l)) with (getw i l).
    cbn [wsumN]. specialize (IH i w ltac:(lia)). lia.
Qed.

Lemma wsum_le_wsumN : forall l, wsum l <= wsumN l.
Proof.
  induction l as [|w l IH]; cbn [wsum wsumN]; [lia|].
  assert (wm w <= wn w).
  { unfold wm, wn. destruct (w_pc w); cbn; lia. }
  lia.
Qed.

Section Live2.
Variable c : cfg.
Hypothesis Hn : 1 <= c_n c.
Hypothesis Hwf : wf_input (c_inp c) = true.
Hypothesis Hand : c_and c = true.
Hypothesis Hre : c_recheck c = true.
Hypothesis Hnx : c_nextctx c = true.

Definition rem (s : state) : nat := S (length (c_inp c)) - r_pos s.
Definition phin (s : state) : nat :=
  10 * rem s + rho (r_pc s) + wsumN (ws s) + sigma (s_pc s) + cpart s.
Definition phic (s : state) : nat :=
  3 * rm (r_pc s) + wsum (ws s) + 4 * sm (s_pc s) + cpart s.
Definition phi (s : state) : nat := if cancelled s then phic s else phin s.

Lemma phic_le_phin : forall s, phic s <= phin s.
Proof.
  intros s. unfold phic, phin. pose proof (wsum_le_wsumN (ws s)).
  assert (3 * rm (r_pc s) <= rho (r_pc s)) by (destruct (r_pc s); cbn; lia).
  assert (4 * sm (s_pc s) <= sigma (s_pc s)) by (destruct (s_pc s); cbn; lia).
  lia.
Qed.

(* ---- the reader has seen no read error before its position ---- *)
Definition rinv (s : state) : Prop :=
  match r_pc s with
  | RRead | RTest false => forall k, k < r_pos s -> is_rderr (rd (c_inp c) k) = false
  | RSend k it _ => r_pos s = S k /\ it = rd (c_inp c) k /\
                    forall j, j < k -> is_rderr (rd (c_inp c) j) = false
  | _ => True
  end.

Lemma rinv_step : forall l s s' o, rinv s -> step c l s = Some (s', o) -> rinv s'.
Proof.
  intros l s s' o HI H. unfold rinv in *.
  destruct l as [d|i d|d| |a]; [| | | |destruct a]; step_cases H; cbn; es_rw c s; try exact HI.
  all: try (match goal with Hq : r_pc _ = _ |- _ => rewrite Hq in HI end).
  all: try exact HI; try exact I.
  all: try (repeat split; exact HI).
  all: try (match goal with
            | HI : r_pos _ = S ?k /\ ?it = rd _ ?k /\ _ |- _ =>
                destruct HI as (Hp & Hit & Hj); destruct (is_rderr it) eqn:Ei; [exact I|];
                intros k0 Hk; rewrite Hp in Hk; destruct (Nat.eq_dec k0 k) as [Heq|Hne];
                [rewrite Heq, <- Hit; exact Ei|apply Hj; lia]
            end).
  match goal with Hl : loop_cond _ _ _ = true |- _ =>
    unfold loop_cond in Hl; rewrite Hand in Hl; apply andb_true_iff in Hl; destruct Hl as [_ Hl];
    apply negb_true_iff in Hl; rewrite Hl in HI end.
  exact HI.
Qed.

Lemma reach_rinv : forall s, reach c s -> rinv s.
Proof.
  intros s H. induction H as [|s l s' o Hr IH Hs].
  - unfold rinv, init. cbn. destruct (c_resume c); cbn.
    + repeat split. intros j Hj. lia.
    + intros k Hk. lia.
  - exact (rinv_step l s s' o IH Hs).
Qed.

Lemma rd_past : rd (c_inp c) (length (c_inp c)) = IRdErr eEOF.
Proof. unfold rd. apply nth_overflow. lia. Qed.

Lemma read_budget : forall s, reach c s -> r_pc s = RRead -> r_pos s <= length (c_inp c).
Proof.
  intros s Hr Hp. pose proof (reach_rinv s Hr) as HI. unfold rinv in HI. rewrite Hp in HI.
  destruct (le_lt_dec (r_pos s) (length (c_inp c))) as [|Hlt]; [assumption|exfalso].
  specialize (HI _ Hlt). rewrite rd_past in HI. discriminate HI.
Qed.

(* ---- before cancellation the serializer never finds "closed and empty" ---- *)
Lemma no_zero_pair : forall s, reach c s -> cancelled s = false -> s_pc s = SRecv ->
  w_out (getw (s_cnt s mod c_n c) (ws s)) = [] ->
  w_pc (getw (s_cnt s mod c_n c) (ws s)) = WDone -> False.
Proof.
  intros s Hr Hc Hs Hout Hd.
  destruct (reach_inv c Hn Hwf Hre Hnx s Hr) as (_ & (D1 & E0 & E1 & D4 & D7) & HU). specialize (HU Hc).
  destruct HU as (U0 & U1 & U2 & U3 & U4 & U5 & U6).
  set (i := s_cnt s mod c_n c) in *. assert (i < c_n c) as Hi by (apply Nat.mod_upper_bound; lia).
  destruct (U5 i Hi Hd) as [Hin Hrd]. specialize (U1 i Hi).
  unfold outs_w in U1. rewrite Hout, Hd, Hin, Hrd in U1. cbn in U1.
  assert (s_cnt s = r_pos s) as Heq.
  { destruct (Nat.eq_dec (s_cnt s) (r_pos s)) as [|Hne]; [assumption|exfalso].
    rewrite (want_S_l c Hn (s_cnt s) (r_pos s)) in U1 by lia. fold i in U1. rewrite Nat.eqb_refl in U1.
    discriminate U1. }
  destruct (U2 Hrd) as [Hpos Herr]. rewrite Hs in U6.
  assert (s_pc s <> SDone) as Hnd by (rewrite Hs; discriminate).
  specialize (E1 Hnd (r_pos s - 1)). rewrite <- U6, Heq in E1. specialize (E1 ltac:(lia)).
  unfold res in E1. rewrite decode_err in E1.
  exact (rderr_err (c_inp c) (r_pos s - 1) Hwf Herr E1).
Qed.

Definition is_progress2 (l : label) : bool := match l with LApi _ => false | _ => true end.

(* ---- after cancellation (or at the step that cancels): the small potential decreases ---- *)
Lemma phic_decreases : forall l s s' o, reach c s -> c_pc s = CNext -> c_pc s' = CNext ->
  is_progress2 l = true -> step c l s = Some (s', o) ->
  cancelled s' = true -> phic s' < phic s.
Proof.
  intros l s s' o Hr Hcp Hcp' Hp H Hc'. pose proof (reach_len c s Hr) as HL.
  unfold phic, cpart.
  destruct l as [d|i d|d| |a]; try discriminate Hp; step_cases H;
    cbn [r_pc r_pos ws s_pc oq cd_objs cancelled c_pc set_r_pc set_ws set_s_pc set_s_cnt set_r_pos set_rac set_oq
         set_cd_err set_cd_objs set_oq_closed set_cancelled set_c_cnt set_c_pc set_s_err set_delivered ser_exit rm sm] in *;
    try discriminate Hcp';
    try (match goal with Hl : loop_cond _ _ _ = true |- _ =>
           unfold loop_cond in Hl; rewrite Hand, Hc' in Hl; discriminate Hl end);
    try (match goal with Hb : (c_recheck c && cancelled s)%bool = false |- _ => rewrite Hre, Hc' in Hb; discriminate Hb end);
    try (rewrite Hcp in *; discriminate);
    rewrite ?app_length; cbn [length];
    try lia.
  all: try (match goal with |- context [wsum (setw ?i ?w (ws ?st))] =>
      let Hs := fresh "Hs" in
      assert (i < length (ws st)) as Hi' by
        (rewrite HL; first [apply Nat.mod_upper_bound; lia | apply Nat.ltb_lt; assumption]);
      pose proof (wsum_setw (ws st) i w Hi') as Hs; unfold wm in Hs; cbn [w_in w_pc w_out wpm] in Hs;
      rewrite ?app_length in Hs; cbn [length] in Hs end).
  all: try (match goal with Hq : w_in (getw _ _) = _ |- _ => rewrite Hq in * end).
  all: try (match goal with Hq : w_pc (getw _ _) = _ |- _ => rewrite Hq in * end).
  all: cbn [length wpm] in *; try (destruct (o_objs _)); try lia.
Qed.

(* ---- before cancellation: the large potential decreases ---- *)
Lemma phin_decreases : forall l s s' o, reach c s -> c_pc s = CNext -> c_pc s' = CNext ->
  is_progress2 l = true -> step c l s = Some (s', o) ->
  cancelled s = false -> cancelled s' = false -> phin s' < phin s.
Proof.
  intros l s s' o Hr Hcp Hcp' Hp H Hc Hc'. pose proof (reach_len c s Hr) as HL.
  pose proof (read_budget s Hr) as HB. pose proof (no_zero_pair s Hr Hc) as HZ.
  unfold phin, cpart, rem.
  destruct l as [d|i d|d| |a]; try discriminate Hp; step_cases H;
    cbn [r_pc r_pos ws s_pc oq cd_objs cancelled c_pc set_r_pc set_ws set_s_pc set_s_cnt set_r_pos set_rac set_oq
         set_cd_err set_cd_objs set_oq_closed set_cancelled set_c_cnt set_c_pc set_s_err set_delivered ser_exit rho sigma] in *;
    try discriminate Hcp'; try discriminate Hc'; try congruence;
    try (rewrite Hcp in *; discriminate);
    try (exfalso; apply HZ; assumption);
    rewrite ?app_length; cbn [length];
    try (specialize (HB eq_refl));
    try lia.
  all: try (match goal with |- context [wsumN (setw ?i ?w (ws ?st))] =>
      let Hs := fresh "Hs" in
      assert (i < length (ws st)) as Hi' by
        (rewrite HL; first [apply Nat.mod_upper_bound; lia | apply Nat.ltb_lt; assumption]);
      pose proof (wsumN_setw (ws st) i w Hi') as Hs; unfold wn in Hs; cbn [w_in w_pc w_out omega] in Hs;
      rewrite ?app_length in Hs; cbn [length] in Hs end).
  all: try (match goal with Hq : w_in (getw _ _) = _ |- _ => rewrite Hq in * end).
  all: try (match goal with Hq : w_out (getw _ _) = _ |- _ => rewrite Hq in * end).
  all: try (match goal with Hq : w_pc (getw _ _) = _ |- _ => rewrite Hq in * end).
  all: cbn [length omega] in *; try (destruct (o_objs _)); try lia.
  all: exfalso; apply HZ; try reflexivity;
    match goal with Hd : is_wdone (w_pc ?w) = true |- _ => destruct (w_pc w); try discriminate Hd; reflexivity end.
Qed.

(* ---- one potential for every reachable state ---- *)
Theorem phi_decreases : forall l s s' o, reach c s -> c_pc s = CNext -> c_pc s' = CNext ->
  is_progress2 l = true -> step c l s = Some (s', o) -> phi s' < phi s.
Proof.
  intros l s s' o Hr Hcp Hcp' Hp H. unfold phi.
  destruct (cancelled s') eqn:Hc'.
  - pose proof (phic_decreases l s s' o Hr Hcp Hcp' Hp H Hc') as Hd.
    destruct (cancelled s); [exact Hd|]. pose proof (phic_le_phin s). lia.
  - destruct (cancelled s) eqn:Hc.
    + destruct (step_flags_mono c l s s' o H) as (A & _). rewrite (A Hc) in Hc'. discriminate Hc'.
    + exact (phin_decreases l s s' o Hr Hcp Hcp' Hp H Hc Hc').
Qed.

(* a cancellation by another goroutine while Next is blocked does not increase it *)
Lemma phi_cancel3 : forall s s' o, step c (LApi CCancel3) s = Some (s', o) -> phi s' <= phi s.
Proof.
  intros s s' o H. cbn in H. injection H as <- <-. unfold phi.
  change (cancelled (set_third true (set_pcancelled true (set_cancelled true s)))) with true.
  change (phic (set_third true (set_pcancelled true (set_cancelled true s)))) with (phic s).
  cbn iota. destruct (cancelled s); [lia|]. apply phic_le_phin.
Qed.

(* ---- schedules ---- *)
(* schedules of goroutine steps and third-party cancellations (no further calls of the scanning
   goroutine: it is blocked in Next) *)
Definition next_label (l : label) : bool :=
  match l with LApi CCancel3 => true | LApi _ => false | _ => true end.

Fixpoint ptaken2 (sched : list label) (s : state) : nat :=
  match sched with
  | [] => 0
  | l :: r => match step c l s with
              | Some (s', _) => (if is_progress2 l then 1 else 0) + ptaken2 r s'
              | None => ptaken2 r s
              end
  end.

Lemma idle_stays : forall l s s' o, next_label l = true -> step c l s = Some (s', o) ->
  c_pc s = CIdle -> c_pc s' = CIdle.
Proof.
  intros l s s' o Hl H Hi.
  destruct l as [d|i d|d| |a]; [| | | |destruct a]; try discriminate Hl; step_cases H; cbn; try assumption;
    try congruence.
Qed.

Lemma idle_run : forall r s1, forallb next_label r = true -> c_pc s1 = CIdle ->
  c_pc (fst (run c r s1)) = CIdle.
Proof.
  induction r as [|l0 r0 IHr]; intros s1 Hall Ec; [exact Ec|].
  cbn [forallb] in Hall. apply andb_true_iff in Hall. destruct Hall as [Hl0 Hall0]. cbn [run].
  destruct (step c l0 s1) as [[s2 o2]|] eqn:E0.
  - pose proof (idle_stays l0 s1 s2 o2 Hl0 E0 Ec) as H2. specialize (IHr s2 Hall0 H2).
    destruct (run c r0 s2). exact IHr.
  - apply IHr; assumption.
Qed.

Lemma close_not_next : forall l s s' o, next_label l = true -> step c l s = Some (s', o) ->
  c_pc s' = CNext -> c_pc s = CNext.
Proof.
  intros l s s' o Hl H Hn'.
  destruct l as [d|i d|d| |a]; [| | | |destruct a]; try discriminate Hl; step_cases H; cbn in *; try assumption;
    try congruence.
Qed.

(* NEXT RETURNS: from a reachable state in which the consumer is blocked in Next, along ANY schedule
   of goroutine steps and third-party cancellations, as long as Next has not returned the
   goroutines (pipeline and consumer) have taken at most phi s steps *)
Theorem next_steps_bounded : forall sched s, reach c s -> c_pc s = CNext ->
  forallb next_label sched = true ->
  c_pc (fst (run c sched s)) = CNext ->
  ptaken2 sched s + phi (fst (run c sched s)) <= phi s.
Proof.
  induction sched as [|l r IH]; intros s Hr Hcp Hall Hend; cbn; [lia|].
  cbn [forallb] in Hall. apply andb_true_iff in Hall. destruct Hall as [Hl Hall].
  cbn [run] in Hend. destruct (step c l s) as [[s' o]|] eqn:E.
  - assert (reach c s') as Hr' by (econstructor; eassumption).
    destruct (run c r s') as [s'' o'] eqn:E2. cbn [fst] in *.
    assert (c_pc s' = CNext) as Hcp'.
    { destruct (c_pc s') eqn:Ec; [|reflexivity|].
      - exfalso. pose proof (idle_run r s' Hall Ec) as Hi.
        rewrite E2 in Hi. cbn in Hi. congruence.
      - exfalso. pose proof (close_not_next l s s' o Hl E) as X.
        (* c_pc s' = CClose cannot come from CNext by these labels *)
        destruct l as [d|i d|d| |a]; [| | | |destruct a]; try discriminate Hl; step_cases E; cbn in Ec; congruence. }
    specialize (IH s' Hr' Hcp' Hall). rewrite E2 in IH. cbn [fst] in IH. specialize (IH Hend).
    destruct (is_progress2 l) eqn:Ep.
    + pose proof (phi_decreases l s s' o Hr Hcp Hcp' Ep E). lia.
    + destruct l as [d|i d|d| |a]; try discriminate Ep. destruct a; try discriminate Hl.
      pose proof (phi_cancel3 s s' o E). lia.
  - apply IH; assumption.
Qed.

End Live2.

(* ---- closed forms ---- *)
Lemma live2_parts : forall c, wf_cfg c = true -> current c = true ->
  1 <= c_n c /\ wf_input (c_inp c) = true /\ c_and c = true /\ c_recheck c = true /\ c_nextctx c = true.
Proof.
  intros c Hwf Hcur. destruct (wf_cfg_parts c Hwf) as [Hn Hi].
  unfold current in Hcur. apply andb_true_iff in Hcur. destruct Hcur as [H H3].
  apply andb_true_iff in H. destruct H as [H1 H2]. auto.
Qed.

(* every goroutine step taken while the consumer stays blocked in Next lowers the potential *)
Theorem T_phi_decreases : forall c l s s' o, wf_cfg c = true -> current c = true ->
  reach c s -> c_pc s = CNext -> c_pc s' = CNext -> is_progress2 l = true ->
  step c l s = Some (s', o) -> phi c s' < phi c s.
Proof.
  intros c l s s' o Hwf Hcur. destruct (live2_parts c Hwf Hcur) as (Hn & Hi & Hand & Hre & Hnx).
  exact (phi_decreases c Hn Hi Hand Hre Hnx l s s' o).
Qed.

(* NEXT RETURNS under every schedule: while it has not returned, at most phi s goroutine steps have
   been taken, and some goroutine can still move (no_deadlock) *)
Theorem T_next_returns : forall c sched s, wf_cfg c = true -> current c = true ->
  reach c s -> c_pc s = CNext -> forallb next_label sched = true ->
  c_pc (fst (run c sched s)) = CNext ->
  ptaken2 c sched s <= phi c s /\
  exists l s' o, is_progress l = true /\ step c l (fst (run c sched s)) = Some (s', o).
Proof.
  intros c sched s Hwf Hcur Hr Hcp Hall Hend.
  destruct (live2_parts c Hwf Hcur) as (Hn & Hi & Hand & Hre & Hnx). split.
  - pose proof (next_steps_bounded c Hn Hi Hand Hre Hnx sched s Hr Hcp Hall Hend). lia.
  - apply (no_deadlock c Hn Hi Hre Hnx); [apply run_reach; exact Hr|]. rewrite Hend. discriminate.
Qed.

(* non-vacuity: two workers, three blocks; a Scan call is in flight with potential 61; after nine
   goroutine steps the first block is with the consumer (potential 52) and the next consumer step
   returns its first object *)
Definition ex_cfg : cfg :=
  mkCfg 2 [IBlock [1%Z; 2%Z]; IBlock []; IBlock [3%Z]] false 0%Z true true true 10.
Definition ex_s0 : state := fst (run ex_cfg [LApi CScan] (init ex_cfg)).
Definition ex_sched : list label :=
  [LRd false; LRd false; LRd false; LWk 0 false; LWk 0 false; LSe false; LSe false; LSe false; LCo].
Example ex_next_in_flight :
  wf_cfg ex_cfg = true /\ current ex_cfg = true /\ c_pc ex_s0 = CNext /\ phi ex_cfg ex_s0 = 61 /\
  forallb next_label ex_sched = true /\
  (let s := fst (run ex_cfg ex_sched ex_s0) in
   c_pc s = CNext /\ ptaken2 ex_cfg ex_sched ex_s0 = 9 /\ phi ex_cfg s = 52 /\ cd_objs s = [1%Z; 2%Z]) /\
  snd (run ex_cfg (ex_sched ++ [LCo]) ex_s0) = [OScan true 1%Z].
Proof. vm_compute. repeat split; reflexivity. Qed.
