(* Pipeline/ProofsXml.v — the XML scanner (sequential machine of Pipeline/Exec.v). *)
From Coq Require Import List ZArith Bool Arith Lia.
From Verif Require Import Pipeline.Model Pipeline.Exec.
Import ListNotations.

Definition scan_true (o : output) : bool := match o with OScan true _ => true | _ => false end.

Lemma xstep_ctx_stable : forall a x, x_ctx x = true -> x_ctx (fst (xstep a x)) = true.
Proof.
  intros a x H. destruct a; cbn; try assumption; try reflexivity.
  destruct (is_err (x_err x)); [assumption|]. rewrite H. assumption.
Qed.

Lemma xstep_stopped_no_true : forall a x, x_ctx x = true ->
  forallb (fun o => negb (scan_true o)) (snd (xstep a x)) = true.
Proof.
  intros a x H. destruct a; cbn; try reflexivity.
  destruct (is_err (x_err x)); [reflexivity|]. rewrite H. reflexivity.
Qed.

Lemma xrun_stopped_no_true : forall h x, x_ctx x = true ->
  forallb (fun o => negb (scan_true o)) (concat (snd (xrun h x))) = true.
Proof.
  induction h as [|a r IH]; intros x H; [reflexivity|].
  cbn. destruct (xstep a x) as [x1 o] eqn:E. destruct (xrun r x1) as [x2 os] eqn:E2.
  cbn. rewrite forallb_app.
  pose proof (xstep_stopped_no_true a x H) as H1. rewrite E in H1. cbn in H1. rewrite H1.
  pose proof (xstep_ctx_stable a x H) as H2. rewrite E in H2. cbn in H2.
  specialize (IH x1 H2). rewrite E2 in IH. exact IH.
Qed.

(* after Close or cancel, every later Scan returns false *)
Lemma xml_stop_scan_false : forall a x h, (a = CCloseCall \/ a = CCancel \/ a = CCancel3) ->
  forallb (fun o => negb (scan_true o)) (concat (snd (xrun h (fst (xstep a x))))) = true.
Proof.
  intros a x h Ha. apply xrun_stopped_no_true.
  destruct Ha as [->|[->| ->]]; reflexivity.
Qed.

(* the delivered objects are always a prefix of the document's objects, and the recorded error is
   the document's final error exactly when everything was delivered *)
Definition xinv (objs : list obj) (ferr : err) (x : xstate) : Prop :=
  x_delivered x ++ x_rem x = objs /\ x_ferr x = ferr /\
  (x_err x = 0%Z \/ (x_err x = ferr /\ x_rem x = [])).

Lemma xstep_inv : forall objs ferr a x, is_err ferr = true -> xinv objs ferr x -> xinv objs ferr (fst (xstep a x)).
Proof.
  intros objs ferr a x Hf (H1 & H2 & H3). destruct a; cbn; try (repeat split; assumption).
  destruct (is_err (x_err x)) eqn:Ee; [repeat split; assumption|].
  destruct (x_ctx x); [repeat split; assumption|].
  destruct (x_rem x) as [|v r] eqn:Er; cbn.
  - split; [exact H1|]. split; [exact H2|]. right. split; [exact H2|reflexivity].
  - split; [cbn; rewrite <- app_assoc; exact H1|]. split; [exact H2|]. left. reflexivity.
Qed.

Lemma xrun_inv : forall objs ferr h x, is_err ferr = true -> xinv objs ferr x -> xinv objs ferr (fst (xrun h x)).
Proof.
  induction h as [|a r IH]; intros x Hf H; [exact H|].
  cbn. destruct (xstep a x) as [x1 o] eqn:E. destruct (xrun r x1) as [x2 os] eqn:E2. cbn.
  pose proof (xstep_inv objs ferr a x Hf H) as H1. rewrite E in H1. cbn in H1.
  specialize (IH x1 Hf H1). rewrite E2 in IH. exact IH.
Qed.

Definition x_err_value (x : xstate) : err :=
  if Z.eqb (x_err x) eEOF then 0%Z else if is_err (x_err x) then x_err x
  else if x_closed x then eClosed else if x_ctx x then eCtx else 0%Z.

(* Err is nil only after a complete scan, or while nothing has stopped the scan yet *)
Lemma xml_err_nil_only_complete : forall objs h,
  let x := fst (xrun h (xinit objs eEOF)) in
  x_err_value x = 0%Z ->
  (x_err x = eEOF /\ x_delivered x = objs) \/ (x_err x = 0%Z /\ x_closed x = false /\ x_ctx x = false).
Proof.
  intros objs h x Hv.
  assert (xinv objs eEOF x) as (H1 & H2 & H3).
  { apply xrun_inv; [reflexivity|]. repeat split. left. reflexivity. }
  unfold x_err_value in Hv.
  destruct (Z.eqb (x_err x) eEOF) eqn:E1.
  - left. apply Z.eqb_eq in E1. split; [exact E1|].
    destruct H3 as [H3|[_ H3]]; [rewrite H3 in E1; discriminate|].
    rewrite H3, app_nil_r in H1. exact H1.
  - right. destruct (is_err (x_err x)) eqn:E2.
    + unfold is_err in E2. rewrite Hv in E2. discriminate.
    + unfold is_err in E2. apply negb_false_iff, Z.eqb_eq in E2.
      destruct (x_closed x); [discriminate|]. destruct (x_ctx x); [discriminate|]. auto.
Qed.

(* ---- token-level machine: bounded read-ahead after cancellation ---- *)
Definition xtac_inv (x : xts) : Prop :=
  (xt_ctx x = false -> xt_tac x = 0) /\ xt_tac x <= 1 /\ (xt_pc x = XRead -> xt_tac x = 0).

Ltac fin_x Ep := cbn; repeat split; auto; try lia; try (intros E; discriminate E); try (rewrite Ep; intros E; discriminate E).

Lemma xtac_step : forall l x x' o, xtac_inv x -> xtstep false l x = Some (x', o) -> xtac_inv x'.
Proof.
  intros l x x' o (H1 & H2 & H3) H. unfold xtac_inv.
  destruct l as [a| |]; cbn in H.
  - destruct (xt_pc x) eqn:Ep; try discriminate H. destruct a; try discriminate H; cbn in H.
    + destruct (is_err (xt_err x)); injection H as <- <-; fin_x Ep.
    + injection H as <- <-. fin_x Ep.
    + injection H as <- <-. fin_x Ep.
    + injection H as <- <-. fin_x Ep.
  - destruct (xt_pc x) eqn:Ep; try discriminate H.
    + destruct (xt_ctx x) eqn:Ec; injection H as <- <-; fin_x Ep.
    + specialize (H3 eq_refl).
      destruct (xt_toks x) as [|[v|e|] r]; injection H as <- <-; cbn; rewrite H3;
        destruct (xt_ctx x); fin_x Ep.
  - injection H as <- <-. cbn. repeat split; auto. intros E; discriminate E.
Qed.

(* at most one further token is read after the context is cancelled, however the cancellation
   interleaves with the Scan loop *)
Lemma xml_bounded_read_ahead : forall sched toks, xt_tac (fst (xtrun false sched (xtinit toks))) <= 1.
Proof.
  intros sched toks.
  assert (forall sched x, xtac_inv x -> xtac_inv (fst (xtrun false sched x))) as Hrun.
  { induction sched0 as [|l r IH]; intros x Hx; [exact Hx|]. cbn.
    destruct (xtstep false l x) as [[x' o]|] eqn:E.
    - specialize (IH x' (xtac_step l x x' o Hx E)). destruct (xtrun false r x'). exact IH.
    - apply IH. exact Hx. }
  apply (Hrun sched (xtinit toks)). unfold xtac_inv, xtinit. cbn. repeat split; auto; intros E; discriminate E.
Qed.

(* the once-per-call variant reads on to the next object or the end of input *)
Definition xt_witness_sched : list xlabel := [XLCall CScan; XLStep; XLCancel3; XLStep; XLStep; XLStep; XLStep; XLStep; XLCall CErr].
Definition xt_witness_toks : list xtok := [XSkip; XSkip; XSkip; XSkip; XSkip].
Lemma xml_bounded_read_ahead_percall_refuted :
  xt_tac (fst (xtrun true xt_witness_sched (xtinit xt_witness_toks))) = 5 /\
  snd (xtrun true xt_witness_sched (xtinit xt_witness_toks)) = [OScan false 0%Z; OErr 0%Z].
Proof. vm_compute. split; reflexivity. Qed.

(* ---- token machine under concurrent cancellation: order, Err, Scan after a stop ---- *)
Definition xt_inv (toks0 : list xtok) (x : xts) : Prop :=
  (xt_pc x <> XIdle -> xt_err x = 0%Z) /\
  ((xt_err x = 0%Z /\ xt_delivered x ++ xt_expected (xt_toks x) = xt_expected toks0 /\ xt_final (xt_toks x) = xt_final toks0)
   \/ (xt_err x = xt_final toks0 /\ xt_err x <> 0%Z /\ xt_delivered x = xt_expected toks0)).

Lemma xt_final_err : forall l, xt_wf l = true -> is_err (xt_final l) = true.
Proof.
  induction l as [|[v|e|] r IH]; cbn; intros H; try reflexivity; try (apply IH; exact H).
  apply andb_true_iff in H. tauto.
Qed.

Lemma xt_inv_step : forall toks0 l x x' o, xt_wf toks0 = true -> xt_inv toks0 x ->
  xtstep false l x = Some (x', o) -> xt_inv toks0 x'.
Proof.
  intros toks0 l x x' o Hwf [HP HI] H.
  destruct l as [a| |]; cbn in H.
  - destruct (xt_pc x) eqn:Ep; try discriminate H. destruct a; try discriminate H; cbn in H.
    + destruct (is_err (xt_err x)) eqn:Ee.
      * injection H as <- <-. split; [rewrite Ep; intros E; exfalso; apply E; reflexivity|exact HI].
      * injection H as <- <-. split; [|exact HI]. cbn. intros _.
        unfold is_err in Ee. apply negb_false_iff, Z.eqb_eq in Ee. exact Ee.
    + injection H as <- <-. split; [rewrite Ep; intros E; exfalso; apply E; reflexivity|exact HI].
    + injection H as <- <-. split; [cbn; intros E; exfalso; apply E; reflexivity|exact HI].
    + injection H as <- <-. split; [cbn; intros E; exfalso; apply E; reflexivity|exact HI].
  - destruct (xt_pc x) eqn:Ep; try discriminate H.
    + assert (xt_err x = 0%Z) as E0 by (apply HP; discriminate).
      destruct (xt_ctx x); injection H as <- <-; (split; [cbn; intros _; exact E0 || (intros E; exfalso; apply E; reflexivity)|exact HI]).
    + assert (xt_err x = 0%Z) as E0 by (apply HP; discriminate).
      destruct HI as [(_ & D & F)|(E1 & E2 & _)].
      2:{ exfalso. apply E2. exact E0. }
      destruct (xt_toks x) as [|[v|e|] r] eqn:Et; injection H as <- <-; cbn in *.
      * split; [intros E; exfalso; apply E; reflexivity|]. right. rewrite app_nil_r in D. rewrite <- F. repeat split; auto. discriminate.
      * split; [intros E; exfalso; apply E; reflexivity|]. left. cbn. split; [exact E0|]. split; [|exact F].
        rewrite <- app_assoc. exact D.
      * split; [intros E; exfalso; apply E; reflexivity|]. right. rewrite app_nil_r in D. rewrite <- F. repeat split; auto.
        rewrite F. pose proof (xt_final_err toks0 Hwf) as Hf. unfold is_err in Hf. apply negb_true_iff, Z.eqb_neq in Hf. exact Hf.
      * split; [intros _; exact E0|]. left. repeat split; auto.
  - injection H as <- <-. split; [exact HP|exact HI].
Qed.

Lemma xt_inv_run : forall toks0 sched x, xt_wf toks0 = true -> xt_inv toks0 x -> xt_inv toks0 (fst (xtrun false sched x)).
Proof.
  induction sched as [|l r IH]; intros x Hwf Hx; [exact Hx|]. cbn.
  destruct (xtstep false l x) as [[x' o]|] eqn:E.
  - specialize (IH x' Hwf (xt_inv_step toks0 l x x' o Hwf Hx E)). destruct (xtrun false r x'). exact IH.
  - apply IH; assumption.
Qed.

Lemma xt_inv_init : forall toks, xt_inv toks (xtinit toks).
Proof. intros toks. split; [intros E; exfalso; apply E; reflexivity|]. left. repeat split. Qed.

(* whatever the interleaving with a cancellation from another goroutine: what was delivered is a
   prefix of the document's objects; Err is nil only after EOF with every object delivered (or while
   nothing stopped the scan); a recorded error is the document's own *)
Lemma xml_token_prefix : forall toks sched, xt_wf toks = true ->
  exists t, xt_delivered (fst (xtrun false sched (xtinit toks))) ++ t = xt_expected toks.
Proof.
  intros toks sched Hwf. destruct (xt_inv_run toks sched _ Hwf (xt_inv_init toks)) as [_ [(_ & D & _)|(_ & _ & D)]].
  - eexists. exact D.
  - exists []. rewrite app_nil_r. exact D.
Qed.

Lemma xml_token_err_nil_only_complete : forall toks sched, xt_wf toks = true ->
  let x := fst (xtrun false sched (xtinit toks)) in
  xt_err_value x = 0%Z ->
  (xt_err x = eEOF /\ xt_final toks = eEOF /\ xt_delivered x = xt_expected toks) \/
  (xt_err x = 0%Z /\ xt_closed x = false /\ xt_ctx x = false).
Proof.
  intros toks sched Hwf x Hv. destruct (xt_inv_run toks sched _ Hwf (xt_inv_init toks)) as [_ HI]. fold x in HI.
  unfold xt_err_value in Hv. destruct (Z.eqb (xt_err x) eEOF) eqn:E1.
  - left. apply Z.eqb_eq in E1. destruct HI as [(E0 & _)|(A & _ & D)]; [rewrite E0 in E1; discriminate E1|].
    split; [exact E1|]. split; [rewrite <- A; exact E1|exact D].
  - right. destruct (is_err (xt_err x)) eqn:E2.
    + unfold is_err in E2. rewrite Hv in E2. discriminate E2.
    + unfold is_err in E2. apply negb_false_iff, Z.eqb_eq in E2.
      destruct (xt_closed x); [discriminate Hv|]. destruct (xt_ctx x); [discriminate Hv|]. auto.
Qed.

(* a Scan call issued after Close / cancel is answered false by the very next step *)
Lemma xml_token_scan_after_stop : forall x x1 o1 x2 o2, xt_ctx x = true ->
  xtstep false (XLCall CScan) x = Some (x1, o1) ->
  (o1 = [OScan false 0%Z] /\ xt_pc x1 = XIdle) \/
  (o1 = [] /\ (xtstep false XLStep x1 = Some (x2, o2) -> o2 = [OScan false 0%Z] /\ xt_pc x2 = XIdle)).
Proof.
  intros x x1 o1 x2 o2 Hc H. cbn in H. destruct (xt_pc x) eqn:Ep; try discriminate H.
  destruct (is_err (xt_err x)).
  - injection H as <- <-. left. split; [reflexivity|exact Ep].
  - injection H as <- <-. right. split; [reflexivity|]. cbn. rewrite Hc. intros H2. injection H2 as <- <-. split; reflexivity.
Qed.

(* ---- token machine: the remaining Close/ctx clauses at the strength of the PBF LTS ---- *)
Lemma xt_stop_permanent : forall l x x' o, xtstep false l x = Some (x', o) ->
  (xt_ctx x = true -> xt_ctx x' = true) /\ (xt_closed x = true -> xt_closed x' = true).
Proof.
  intros l x x' o H. destruct l as [a| |]; cbn in H.
  - destruct (xt_pc x); try discriminate H. destruct a; try discriminate H; cbn in H.
    + destruct (is_err (xt_err x)); injection H as <- <-; auto.
    + injection H as <- <-. auto.
    + injection H as <- <-. auto.
    + injection H as <- <-. auto.
  - destruct (xt_pc x); try discriminate H.
    + destruct (xt_ctx x) eqn:E; injection H as <- <-; cbn; (split; [intros X; first [reflexivity | discriminate X]|auto]).
    + destruct (xt_toks x) as [|[v|e|] r]; injection H as <- <-; auto.
  - injection H as <- <-. auto.
Qed.

Lemma xt_err_precedence : forall x,
  (xt_err x <> 0%Z -> xt_err x <> eEOF -> xt_err_value x = xt_err x) /\
  (xt_err x = eEOF -> xt_err_value x = 0%Z) /\
  (xt_err x = 0%Z -> xt_closed x = true -> xt_err_value x = eClosed) /\
  (xt_err x = 0%Z -> xt_closed x = false -> xt_ctx x = true -> xt_err_value x = eCtx) /\
  (xt_err x = 0%Z -> xt_closed x = false -> xt_ctx x = false -> xt_err_value x = 0%Z).
Proof.
  intros x. unfold xt_err_value, is_err. repeat split.
  - intros H1 H2. apply Z.eqb_neq in H1, H2. rewrite H1, H2. reflexivity.
  - intros H. rewrite H. reflexivity.
  - intros H1 H2. rewrite H1, H2. reflexivity.
  - intros H1 H2 H3. rewrite H1, H2, H3. reflexivity.
  - intros H1 H2 H3. rewrite H1, H2, H3. reflexivity.
Qed.

(* the Err method of the machine IS xt_err_value *)
Lemma xt_err_call : forall x x' o, xt_pc x = XIdle -> xtstep false (XLCall CErr) x = Some (x', o) ->
  x' = x /\ o = [OErr (xt_err_value x)].
Proof. intros x x' o Hp H. cbn in H. rewrite Hp in H. injection H as <- <-. split; reflexivity. Qed.

(* a recorded error is never overwritten, in every state reachable under any interleaving *)
Lemma xt_recorded_error_sticky : forall toks sched l x' o, xt_wf toks = true ->
  let x := fst (xtrun false sched (xtinit toks)) in
  xtstep false l x = Some (x', o) -> xt_err x <> 0%Z -> xt_err x' = xt_err x.
Proof.
  intros toks sched l x' o Hwf x H Hne.
  destruct (xt_inv_run toks sched _ Hwf (xt_inv_init toks)) as [HP _]. fold x in HP.
  assert (xt_pc x = XIdle) as Hi.
  { destruct (xt_pc x) eqn:E; [reflexivity| |]; exfalso; apply Hne; apply HP; discriminate. }
  destruct l as [a| |]; cbn in H; rewrite Hi in H; try discriminate H.
  - destruct a; try discriminate H; cbn in H.
    + destruct (is_err (xt_err x)); injection H as <- <-; reflexivity.
    + injection H as <- <-. reflexivity.
    + injection H as <- <-. reflexivity.
    + injection H as <- <-. reflexivity.
  - injection H as <- <-. reflexivity.
Qed.

(* after a stop that found the scanner idle (Close, cancel by the scanning goroutine, or a cancel
   from another goroutine that arrived between two Scans), no Scan ever succeeds again, whatever
   is called and however the steps interleave *)
Definition xt_stopped (x : xts) : Prop := xt_ctx x = true /\ (xt_pc x = XIdle \/ xt_pc x = XCheck).

Lemma xt_stopped_step : forall l x x' o, xt_stopped x -> xtstep false l x = Some (x', o) ->
  xt_stopped x' /\ forallb (fun y => negb (scan_true y)) o = true.
Proof.
  intros l x x' o [Hc Hp] H. unfold xt_stopped. destruct l as [a| |]; cbn in H.
  - destruct Hp as [Hp|Hp]; rewrite Hp in H; try discriminate H.
    destruct a; try discriminate H; cbn in H.
    + destruct (is_err (xt_err x)); injection H as <- <-; cbn; auto.
    + injection H as <- <-. cbn. auto.
    + injection H as <- <-. cbn. auto.
    + injection H as <- <-. cbn. auto.
  - destruct Hp as [Hp|Hp]; rewrite Hp in H; try discriminate H.
    rewrite Hc in H. injection H as <- <-. cbn. auto.
  - injection H as <- <-. cbn. auto.
Qed.

Lemma xt_no_true_scan_after_stop : forall sched x, xt_stopped x ->
  forallb (fun y => negb (scan_true y)) (snd (xtrun false sched x)) = true.
Proof.
  induction sched as [|l r IH]; intros x Hx; [reflexivity|]. cbn.
  destruct (xtstep false l x) as [[x' o]|] eqn:E.
  - destruct (xt_stopped_step l x x' o Hx E) as [Hx' Ho]. specialize (IH x' Hx').
    destruct (xtrun false r x') as [x'' o']. cbn in *. rewrite forallb_app, Ho, IH. reflexivity.
  - apply IH. exact Hx.
Qed.

Lemma xt_close_stops : forall x x' o a, (a = CCloseCall \/ a = CCancel) ->
  xtstep false (XLCall a) x = Some (x', o) -> xt_stopped x'.
Proof.
  intros x x' o a Ha H. cbn in H. destruct (xt_pc x); try discriminate H.
  destruct Ha as [-> | ->]; cbn in H; injection H as <- <-; split; cbn; auto.
Qed.

(* ---- the call-level machine is the token machine with every call run to completion ---- *)
Lemma xt_idle_steps : forall k t, xt_pc t = XIdle -> xtrun false (repeat XLStep k) t = (t, []).
Proof. induction k as [|k IH]; intros t H; [reflexivity|]. cbn. rewrite H. apply IH. exact H. Qed.

Definition scan_outcome (toks : list xtok) (t t' : xts) (o : list output) : Prop :=
  xt_pc t' = XIdle /\ xt_closed t' = xt_closed t /\ xt_ctx t' = xt_ctx t /\
  match xt_expected toks with
  | v :: rest => o = [OScan true v] /\ xt_err t' = xt_err t /\ xt_delivered t' = xt_delivered t ++ [v] /\
                 xt_expected (xt_toks t') = rest /\ xt_final (xt_toks t') = xt_final toks
  | [] => o = [OScan false 0%Z] /\ xt_err t' = xt_final toks /\ xt_delivered t' = xt_delivered t
  end.

Lemma xt_scan_loop : forall toks k t, xt_pc t = XCheck -> xt_ctx t = false -> xt_toks t = toks ->
  2 * length toks + 2 <= k ->
  scan_outcome toks t (fst (xtrun false (repeat XLStep k) t)) (snd (xtrun false (repeat XLStep k) t)).
Proof.
  induction toks as [|x toks IH]; intros k t Hp Hc Ht Hk;
    destruct t as [tk er cl cx pc dl tc]; cbn in Hp, Hc, Ht; subst;
    (destruct k as [|[|k]]; [cbn in Hk; lia|cbn in Hk; lia|]).
  - cbn. rewrite xt_idle_steps by reflexivity. unfold scan_outcome. cbn. repeat split.
  - destruct x as [v|e|].
    + cbn. rewrite xt_idle_steps by reflexivity. unfold scan_outcome. cbn. repeat split.
    + cbn. rewrite xt_idle_steps by reflexivity. unfold scan_outcome. cbn. repeat split.
    + cbn [repeat xtrun xtstep xt_pc xt_ctx xt_toks xt_err xt_closed xt_delivered xt_tac].
      cbn [length] in Hk.
      specialize (IH k (mkXT toks er cl false XCheck dl (tc + 0)) eq_refl eq_refl eq_refl ltac:(lia)).
      destruct (xtrun false (repeat XLStep k) (mkXT toks er cl false XCheck dl (tc + 0))) as [t' o'].
      cbn [fst snd app] in *. unfold scan_outcome in *. cbn in *. exact IH.
Qed.
