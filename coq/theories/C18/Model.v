(* C18/Model.v — executable model of /repo/polygon.go and Tags.Find (/repo/tag.go).
   Definitions only (no proofs), written after the Go source statement by statement.

   Strings are Coq [string]s, i.e. byte strings; Go compares strings bytewise, and
   [String.compare] compares bytewise through [N_of_ascii] (Proofs.v shows it is a total order).
   Node lists carry the node ids only: Way.Polygon looks at len(w.Nodes) and the ids of the
   first and the last node, nothing else.

   Results of code that indexes or loops on fuel are a three-way [res]:
   [Val v] normal result, [IndexPanic] an index out of range (a Go run-time panic),
   [NoFuel] the fuel of a modelled loop ran out.  The theorems show that neither of the
   last two ever happens; the harness reports a recovered panic as observation 2. *)
From Coq Require Import String Ascii List Bool Arith ZArith.
From VerifGen Require Import GenPolygon.
Import ListNotations.
Open Scope string_scope.
Open Scope list_scope.
Open Scope nat_scope.

Inductive res (A : Type) : Type :=
| Val (a : A)
| IndexPanic
| NoFuel.
Arguments Val {A} a.
Arguments IndexPanic {A}.
Arguments NoFuel {A}.

(* ---- tag.go ---- *)
Definition tag := (string * string)%type.      (* Key, Value *)
Definition tags := list tag.

(* func (ts Tags) Find(k string) string : first match, "" when absent *)
Fixpoint find (k : string) (ts : tags) : string :=
  match ts with
  | [] => ""
  | (k', v) :: r => if String.eqb k' k then v else find k r
  end.

(* ---- polygon.go: the rule table ---- *)
Inductive cond := CAll | CWhitelist | CBlacklist | COther.
Record rule := mkRule { rkey : string; rcond : cond; rvalues : list string }.

(* The Go code compares c.Condition with conditionAll, then conditionWhitelist, then
   conditionBlacklist (an if / else-if chain) every time a rule is evaluated; the model decodes
   the condition once, with the same chain.  The three names are read from the source. *)
Definition decode_cond (s : string) : cond :=
  if String.eqb s cond_all then CAll
  else if String.eqb s cond_whitelist then CWhitelist
  else if String.eqb s cond_blacklist then CBlacklist
  else COther.

(* init(): json.Unmarshal, then  for _, p := range polyConditions { sort.StringSlice(p.Values).Sort() }.
   sort.Sort is modelled by insertion sort for the bytewise order (Proofs.v: the result is the
   unique sorted permutation, so any correct sorting algorithm gives this list). *)
Fixpoint insert_str (x : string) (l : list string) : list string :=
  match l with
  | [] => [x]
  | y :: r => if String.leb x y then x :: l else y :: insert_str x r
  end.
Definition sort_strings (l : list string) : list string := fold_right insert_str [] l.

Definition init_rule (r : string * string * list string) : rule :=
  let '(k, c, vs) := r in mkRule k (decode_cond c) (sort_strings vs).
Definition init_table (raw : list (string * string * list string)) : list rule := map init_rule raw.

(* the table the code uses now: init applied to the polygonJSON literal re-read from the source *)
Definition RT : list rule := init_table poly_json_rules.

(* the table the code HAS at run time: the dump of polyConditions after the code's own init()
   (GenPolygon.poly_runtime_rules, printed by a program run against /repo at translation time);
   conditions decoded, value lists left exactly as dumped *)
Definition raw_rule (r : string * string * list string) : rule :=
  let '(k, c, vs) := r in mkRule k (decode_cond c) vs.
Definition runtime_table : list rule := map raw_rule poly_runtime_rules.

(* ---- sort.SearchStrings(a, x) = sort.Search(len(a), func(i) { return a[i] >= x })
     i, j := 0, n
     for i < j { h := int(uint(i+j) >> 1); if !f(h) { i = h + 1 } else { j = h } }
     return i                                                                      ---- *)
Fixpoint search_loop (fuel : nat) (a : list string) (x : string) (i j : nat) : res nat :=
  match fuel with
  | O => if i <? j then NoFuel else Val i
  | S f =>
      if i <? j then
        let h := (i + j) / 2 in
        match nth_error a h with
        | None => IndexPanic
        | Some u =>
            if String.ltb u x                      (* !(a[h] >= x) *)
            then search_loop f a x (h + 1) j
            else search_loop f a x i h
        end
      else Val i
  end.

Definition search_strings (a : list string) (x : string) : res nat :=
  search_loop (length a) a x 0 (length a).

(* ---- the body of the rule loop for one rule c and the value v = w.Tags.Find(c.Key),
        v already known to be neither "" nor "no".  [Val true] = "return true",
        [Val false] = fall through to the next rule. ---- *)
Definition rule_fires (c : rule) (v : string) : res bool :=
  match rcond c with
  | CAll => Val true
  | CWhitelist =>
      match search_strings (rvalues c) v with
      | Val index =>
          (* index != len(c.Values) && c.Values[index] == v *)
          if negb (index =? length (rvalues c)) then
            match nth_error (rvalues c) index with
            | Some u => Val (String.eqb u v)
            | None => IndexPanic
            end
          else Val false
      | IndexPanic => IndexPanic
      | NoFuel => NoFuel
      end
  | CBlacklist =>
      match search_strings (rvalues c) v with
      | Val index =>
          (* index == len(c.Values) || c.Values[index] != v *)
          if index =? length (rvalues c) then Val true
          else
            match nth_error (rvalues c) index with
            | Some u => Val (negb (String.eqb u v))
            | None => IndexPanic
            end
      | IndexPanic => IndexPanic
      | NoFuel => NoFuel
      end
  | COther => Val false
  end.

(* for _, c := range polyConditions { ... } ; return false *)
Fixpoint rule_loop (T : list rule) (ts : tags) : res bool :=
  match T with
  | [] => Val false
  | c :: rest =>
      let v := find (rkey c) ts in
      if String.eqb v "" || String.eqb v "no" then rule_loop rest ts
      else
        match rule_fires c v with
        | Val true => Val true
        | Val false => rule_loop rest ts
        | IndexPanic => IndexPanic
        | NoFuel => NoFuel
        end
  end.

(* func (w *Way) Polygon() bool *)
Definition way_polygon (T : list rule) (nodes : list Z) (ts : tags) : res bool :=
  if length nodes <=? 3 then Val false
  else
    match nth_error nodes 0, nth_error nodes (length nodes - 1) with
    | Some a, Some b =>
        if negb (Z.eqb a b) then Val false
        else
          let area := find "area" ts in
          if String.eqb area "no" then Val false
          else if negb (String.eqb area "") then Val true
          else rule_loop T ts
    | _, _ => IndexPanic
    end.

(* The same function over full WayNode values (way.go: type WayNode struct { ID; Version;
   ChangesetID; Lat; Lon }).  The code reads len(w.Nodes), w.Nodes[0].ID and
   w.Nodes[len(w.Nodes)-1].ID and nothing else of the nodes: annotations (version, changeset,
   location; lat/lon here in units of 1e-7 degree) are carried by the input and never looked at.
   This is the function the harness cases are judged with. *)
Record waynode := mkWayNode { wid : Z; wver : Z; wcs : Z; wlat : Z; wlon : Z }.

Definition way_polygon_wn (T : list rule) (nodes : list waynode) (ts : tags) : res bool :=
  if length nodes <=? 3 then Val false
  else
    match nth_error nodes 0, nth_error nodes (length nodes - 1) with
    | Some a, Some b =>
        if negb (Z.eqb (wid a) (wid b)) then Val false
        else
          let area := find "area" ts in
          if String.eqb area "no" then Val false
          else if negb (String.eqb area "") then Val true
          else rule_loop T ts
    | _, _ => IndexPanic
    end.

(* func (r *Relation) Polygon() bool *)
Definition relation_polygon (ts : tags) : bool :=
  let t := find "type" ts in
  String.eqb t "multipolygon" || String.eqb t "boundary".
