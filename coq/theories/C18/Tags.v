(* C18/Tags.v — the other helpers of /repo/tag.go: FindTag, HasTag, Map, AnyInteresting
   (executable models first, then their theorems).  Find itself is Model.find.

   Tags.Map() builds a Go map by assigning result[t.Key] = t.Value in list order, so with
   repeated keys the LAST tag wins there, while Find/FindTag/HasTag look at the FIRST.  On tag
   sets (unique keys) all of them agree; the theorems say exactly that.
   AnyInteresting consults the package variable UninterestingTags; its keys (those mapped to
   true) are re-read from the source by translator/cmd/polygon (GenPolygon.uninteresting_tags)
   and compared with the run-time map on every run (Check.v, case UNINT). *)
From Coq Require Import String List Bool Arith Permutation.
From Verif Require Import C18.Model C18.Spec.
From VerifGen Require Import GenPolygon.
Import ListNotations.
Open Scope string_scope.
Open Scope list_scope.

(* ---- models ---- *)

(* func (ts Tags) FindTag(k string) *Tag : pointer to (a copy of) the first match, nil if none *)
Fixpoint find_tag (k : string) (ts : tags) : option tag :=
  match ts with
  | [] => None
  | t :: r => if String.eqb (fst t) k then Some t else find_tag k r
  end.

(* func (ts Tags) HasTag(k string) bool *)
Fixpoint has_tag (k : string) (ts : tags) : bool :=
  match ts with
  | [] => false
  | t :: r => if String.eqb (fst t) k then true else has_tag k r
  end.

(* func (ts Tags) Map() map[string]string : the map as a lookup function *)
Definition smap := string -> option string.
Definition smap_empty : smap := fun _ => None.
Definition smap_set (m : smap) (k v : string) : smap :=
  fun k' => if String.eqb k k' then Some v else m k'.
Definition tags_map (ts : tags) : smap :=
  fold_left (fun m t => smap_set m (fst t) (snd t)) ts smap_empty.

(* func (ts Tags) AnyInteresting() bool, for a given set U of uninteresting keys *)
Definition uninteresting (U : list string) (k : string) : bool := existsb (String.eqb k) U.
Fixpoint any_interesting (U : list string) (ts : tags) : bool :=
  match ts with
  | [] => false
  | t :: r => if negb (uninteresting U (fst t)) then true else any_interesting U r
  end.

(* with the set of the code as it is now *)
Definition any_interesting_now (ts : tags) : bool := any_interesting uninteresting_tags ts.

(* ---- theorems ---- *)

Lemma find_tag_some (k : string) (ts : tags) (t : tag) :
  find_tag k ts = Some t -> In t ts /\ fst t = k.
Proof.
  induction ts as [|t' r IH]; cbn [find_tag]; [discriminate|].
  destruct (String.eqb (fst t') k) eqn:E.
  - intros H. injection H as <-. split; [left; reflexivity|apply String.eqb_eq; exact E].
  - intros H. destruct (IH H) as [Hin Hk]. split; [right; exact Hin|exact Hk].
Qed.

Lemma find_tag_none (k : string) (ts : tags) : find_tag k ts = None <-> ~ In k (keys ts).
Proof.
  induction ts as [|t r IH]; cbn [find_tag keys map].
  - split; [intros _ H; exact H|reflexivity].
  - destruct (String.eqb (fst t) k) eqn:E.
    + apply String.eqb_eq in E. split; [discriminate|]. intros H. exfalso. apply H. left. exact E.
    + apply String.eqb_neq in E. rewrite IH. unfold keys. split.
      * intros H [H1|H1]; [exact (E H1)|exact (H H1)].
      * intros H H1. apply H. right. exact H1.
Qed.

(* Find is FindTag's value, "" for nil *)
Lemma find_find_tag (k : string) (ts : tags) :
  find k ts = match find_tag k ts with Some t => snd t | None => "" end.
Proof.
  induction ts as [|[k' v] r IH]; [reflexivity|].
  cbn [find find_tag fst]. destruct (String.eqb k' k); [reflexivity|exact IH].
Qed.

(* HasTag is "FindTag is not nil", i.e. the key occurs *)
Lemma has_tag_find_tag (k : string) (ts : tags) :
  has_tag k ts = match find_tag k ts with Some _ => true | None => false end.
Proof.
  induction ts as [|t r IH]; [reflexivity|].
  cbn [has_tag find_tag]. destruct (String.eqb (fst t) k); [reflexivity|exact IH].
Qed.

Lemma has_tag_iff (k : string) (ts : tags) : has_tag k ts = true <-> In k (keys ts).
Proof.
  rewrite has_tag_find_tag. destruct (find_tag k ts) as [t|] eqn:E.
  - split; [intros _|reflexivity].
    destruct (find_tag_some k ts t E) as [Hin Hk]. subst k. unfold keys. apply in_map. exact Hin.
  - split; [discriminate|]. intros H. apply find_tag_none in E. contradiction.
Qed.

(* on a tag set FindTag returns THE tag with that key *)
Lemma find_tag_in (k v : string) (ts : tags) :
  NoDup (keys ts) -> (In (k, v) ts <-> find_tag k ts = Some (k, v)).
Proof.
  intros Hnd. split.
  - induction ts as [|[k' v'] r IH]; intros Hin; [contradiction|].
    cbn [keys map fst] in Hnd. inversion Hnd as [|? ? Hnotin Hnd']; subst.
    cbn [find_tag fst]. destruct Hin as [E|Hin].
    + injection E as -> ->. rewrite String.eqb_refl. reflexivity.
    + destruct (String.eqb k' k) eqn:E.
      * apply String.eqb_eq in E. subst. exfalso. apply Hnotin.
        change (In k (keys r)). unfold keys. apply in_map_iff. exists (k, v). split; [reflexivity|exact Hin].
      * exact (IH Hnd' Hin).
  - intros H. exact (proj1 (find_tag_some _ _ _ H)).
Qed.

(* Map(): the LAST tag of a key *)
Lemma tags_map_app (ts : tags) (m : smap) (k : string) :
  fold_left (fun m t => smap_set m (fst t) (snd t)) ts m k =
  match find_tag k (rev ts) with Some t => Some (snd t) | None => m k end.
Proof.
  revert m. induction ts as [|t r IH]; intros m; [reflexivity|].
  cbn [fold_left rev]. rewrite IH.
  assert (H : forall l, find_tag k (l ++ [t]) =
                        match find_tag k l with Some x => Some x | None => if String.eqb (fst t) k then Some t else None end).
  { induction l as [|x l IHl]; cbn [app find_tag]; [reflexivity|].
    destruct (String.eqb (fst x) k); [reflexivity|exact IHl]. }
  rewrite H. destruct (find_tag k (rev r)); [reflexivity|].
  unfold smap_set. destruct (String.eqb (fst t) k); reflexivity.
Qed.

Lemma tags_map_last (ts : tags) (k : string) :
  tags_map ts k = match find_tag k (rev ts) with Some t => Some (snd t) | None => None end.
Proof. unfold tags_map. rewrite tags_map_app. reflexivity. Qed.

(* on a tag set Map() and FindTag/Find agree *)
Lemma tags_map_set (ts : tags) (k v : string) :
  NoDup (keys ts) -> (tags_map ts k = Some v <-> In (k, v) ts).
Proof.
  intros Hnd. rewrite tags_map_last.
  assert (Hnd' : NoDup (keys (rev ts))).
  { unfold keys. rewrite map_rev. apply (Permutation_NoDup (Permutation_rev (map fst ts))). exact Hnd. }
  rewrite (in_rev ts (k, v)). rewrite (find_tag_in k v (rev ts) Hnd').
  destruct (find_tag k (rev ts)) as [[k' v']|] eqn:E.
  - destruct (find_tag_some _ _ _ E) as [_ Hk]. cbn in Hk. subst k'. cbn [snd].
    split; intros H; injection H as ->; reflexivity.
  - split; discriminate.
Qed.

Lemma tags_map_find (ts : tags) (k : string) :
  NoDup (keys ts) ->
  find k ts = match tags_map ts k with Some v => v | None => "" end.
Proof.
  intros Hnd. rewrite find_find_tag.
  destruct (find_tag k ts) as [[k' v]|] eqn:E.
  - destruct (find_tag_some _ _ _ E) as [Hin Hk]. cbn in Hk. subst k'.
    apply (tags_map_set ts k v Hnd) in Hin. rewrite Hin. reflexivity.
  - destruct (tags_map ts k) as [v|] eqn:M; [|reflexivity].
    apply (tags_map_set ts k v Hnd) in M. apply find_tag_none in E.
    exfalso. apply E. unfold keys. apply in_map_iff. exists (k, v). split; [reflexivity|exact M].
Qed.

(* AnyInteresting: some tag whose key is not in U; hence a property of the tag set *)
Lemma uninteresting_In (U : list string) (k : string) : uninteresting U k = true <-> In k U.
Proof.
  unfold uninteresting. rewrite existsb_exists. split.
  - intros [x [Hx E]]. apply String.eqb_eq in E. subst. exact Hx.
  - intros H. exists k. split; [exact H|apply String.eqb_refl].
Qed.

Lemma any_interesting_iff (U : list string) (ts : tags) :
  any_interesting U ts = true <-> exists t, In t ts /\ ~ In (fst t) U.
Proof.
  induction ts as [|t r IH]; cbn [any_interesting].
  - split; [discriminate|intros [t [[] _]]].
  - destruct (uninteresting U (fst t)) eqn:E; cbn [negb].
    + rewrite IH. apply uninteresting_In in E. split.
      * intros [x [Hx Hn]]. exists x. split; [right; exact Hx|exact Hn].
      * intros [x [[Hx|Hx] Hn]]; [subst x; contradiction|exists x; split; assumption].
    + split; [intros _|reflexivity]. exists t. split; [left; reflexivity|].
      intros H. apply uninteresting_In in H. congruence.
Qed.

Lemma any_interesting_perm (U : list string) (ts ts' : tags) :
  Permutation ts ts' -> any_interesting U ts = any_interesting U ts'.
Proof.
  intros HP. apply eq_true_iff_eq. rewrite !any_interesting_iff. split; intros [t [Hin Hn]]; exists t; split; try exact Hn.
  - exact (Permutation_in _ HP Hin).
  - exact (Permutation_in _ (Permutation_sym HP) Hin).
Qed.
