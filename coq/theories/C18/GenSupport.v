(* C18/GenSupport.v — names used by the code regenerated from polygon.go / tag.go
   (VerifGen.GenPolygonCode, translator/cmd/polygoncode).  Definitions only. *)
From Coq Require Import String List ZArith.
From Verif Require Import C18.Model.
Import ListNotations.

(* a polyCondition as the Go code sees it: Key, Condition (a string), Values *)
Definition raw_rule := (string * string * list string)%type.
Definition rr_key (r : raw_rule) : string := fst (fst r).
Definition rr_cond (r : raw_rule) : string := snd (fst r).
Definition rr_values (r : raw_rule) : list string := snd r.

(* the model's rule for a raw rule: the condition decoded with the same if / else-if chain *)
Definition decode_rule (r : raw_rule) : rule := mkRule (rr_key r) (decode_cond (rr_cond r)) (rr_values r).

(* sort.SearchStrings with an int result; None = the modelled search loop panicked or ran out of
   fuel (Proofs.v shows neither happens) *)
Definition search_strings_z (a : list string) (x : string) : option Z :=
  match search_strings a x with Val i => Some (Z.of_nat i) | _ => None end.

(* a three-way model result read as "value or panic" *)
Definition res_opt {A} (r : res A) : option A := match r with Val a => Some a | _ => None end.

(* a Way / a Relation as the regenerated code sees its receiver: the fields that are read *)
Definition gway := (list waynode * tags)%type.
Definition gw_nodes (w : gway) : list waynode := fst w.
Definition gw_tags (w : gway) : tags := snd w.
Definition gr_tags (r : tags) : tags := r.
