(* C18/Equiv.v — executable comparisons between a code-side rule table (Model.rule) and a
   spec-side table (Spec.srule): sortedness of the value lists and equality "as sets of rules".
   Definitions only; used by Check.v (run-time table oracle), GenOk.v (obligations on the table
   re-read from /repo) and Proofs.v (what the comparisons imply). *)
From Coq Require Import String List Bool.
From Verif Require Import C18.Model C18.Spec.
Import ListNotations.

Fixpoint sortedb (l : list string) : bool :=
  match l with
  | a :: ((b :: _) as r) => String.leb a b && sortedb r
  | _ => true
  end.

Definition table_sortedb (T : list rule) : bool := forallb (fun r => sortedb (rvalues r)) T.

Definition cond_matches (c : cond) (s : scond) : bool :=
  match c, s with
  | CAll, All => true
  | CWhitelist, Whitelist => true
  | CBlacklist, Blacklist => true
  | _, _ => false
  end.

Definition subsetb (a b : list string) : bool := forallb (fun x => listed x b) a.

(* same key, same kind of rule, same SET of values (values are irrelevant for "all" rules) *)
Definition rule_matches (r : rule) (s : srule) : bool :=
  let '(k, c, vals) := s in
  String.eqb (rkey r) k && cond_matches (rcond r) c &&
  match c with
  | All => true
  | _ => subsetb (rvalues r) vals && subsetb vals (rvalues r)
  end.

(* every code rule is a spec rule and every spec rule is a code rule; order and repetitions
   of rules, order and repetitions of values do not matter *)
Definition table_matchesb (T : list rule) (S : list srule) : bool :=
  forallb (fun r => existsb (rule_matches r) S) T &&
  forallb (fun s => existsb (fun r => rule_matches r s) T) S.

(* exact equality of code-side tables (for run-time dump = model of init) *)
Definition cond_eqb (a b : cond) : bool :=
  match a, b with
  | CAll, CAll | CWhitelist, CWhitelist | CBlacklist, CBlacklist | COther, COther => true
  | _, _ => false
  end.

Fixpoint strs_eqb (a b : list string) : bool :=
  match a, b with
  | [], [] => true
  | x :: a', y :: b' => String.eqb x y && strs_eqb a' b'
  | _, _ => false
  end.

Definition rule_eqb (a b : rule) : bool :=
  String.eqb (rkey a) (rkey b) && cond_eqb (rcond a) (rcond b) && strs_eqb (rvalues a) (rvalues b).

Fixpoint rules_eqb (a b : list rule) : bool :=
  match a, b with
  | [], [] => true
  | x :: a', y :: b' => rule_eqb x y && rules_eqb a' b'
  | _, _ => false
  end.
