(* C18/GenOk.v — obligations on the data re-read from /repo/polygon.go on THIS run
   (coq/gen/GenPolygon.v, written by translator/cmd/polygon).  Each is a finite check by
   [vm_compute] over the generated table; when the table in the source is altered (an entry
   removed, a whitelist turned into a blacklist, a value misspelt, an unknown condition name)
   the corresponding lemma stops compiling and the check reports the broken obligation, then
   looks for a misclassified way with the harness. *)
From Coq Require Import String List Bool ZArith Arith Lia.
From Verif Require Import C18.Model C18.Spec C18.Equiv C18.StrOrder C18.Proofs.
From VerifGen Require Import GenPolygon.
Import ListNotations.

(* the three condition names are pairwise different, so the if / else-if chain of the code
   (and [decode_cond]) distinguishes them *)
Lemma gen_condition_names_distinct :
  negb (String.eqb cond_all cond_whitelist) && negb (String.eqb cond_all cond_blacklist)
  && negb (String.eqb cond_whitelist cond_blacklist) = true.
Proof. vm_compute. reflexivity. Qed.

(* every rule of the source table has one of the three conditions *)
Lemma gen_conditions_known :
  forallb (fun r => negb (cond_eqb (rcond r) COther)) RT = true.
Proof. vm_compute. reflexivity. Qed.

(* the table of the code (after init) has the same rules as the published table:
   same keys, same kind per key, same value sets *)
Lemma gen_table_matches_published : table_matchesb RT SpecTable = true.
Proof. vm_compute. reflexivity. Qed.

(* ---- the code's own init(): obligations on the RUN-TIME DUMP of polyConditions ----
   (GenPolygon.poly_runtime_rules; a removed, partial or wrong sort in /repo's init() breaks the
   first, any other difference between what init() builds and the model of init the second) *)
Lemma gen_runtime_dump_sorted : table_sortedb runtime_table = true.
Proof. vm_compute. reflexivity. Qed.

Lemma gen_runtime_dump_is_model_init : rules_eqb runtime_table RT = true.
Proof. vm_compute. reflexivity. Qed.

Lemma gen_runtime_condition_names :
  strs_eqb poly_runtime_cond_names [cond_all; cond_whitelist; cond_blacklist] = true.
Proof. vm_compute. reflexivity. Qed.

(* the MODEL's init sorts (whatever the data): this is a fact about Model.init_table only *)
Lemma gen_table_sorted : table_sortedb RT = true.
Proof. apply init_table_sorted. Qed.

(* same fact by evaluation, as a cross-check of the sorting model on the actual data *)
Lemma gen_table_sorted_computed : table_sortedb RT = true.
Proof. vm_compute. reflexivity. Qed.

(* ---- literals inside Way.Polygon / Relation.Polygon (second source tie) ----
   The hand model (Model.way_polygon, relation_polygon) uses the strings "area", "no", "",
   "type", "multipolygon", "boundary" and rejects fewer than 4 node refs.  The translator lists
   the string literals of the two Go method bodies (and of the package functions they call) and
   the minimum length implied by the length test.  Obligations, when the method was found:
   every string the model uses occurs in the code (body or callees), the body itself mentions no
   other string (apart from the three condition names), the length test admits exactly 4 or more.
   Where the translator could not recognise the shape ([found = false], [None]) nothing is
   claimed here and the behaviour is tied by correspondence only. *)

Definition model_way_strings : list string := ["area"; "no"]%string.
Definition model_rel_strings : list string := ["type"; "multipolygon"; "boundary"]%string.
Definition model_min_nodes : Z := 4%Z.

Definition literals_okb (found : bool) (direct callee required allowed : list string) : bool :=
  negb found || (subsetb required (direct ++ callee) && subsetb direct allowed).

Lemma gen_way_literals :
  literals_okb lit_way_found lit_way_strings lit_way_callee_strings model_way_strings
    (model_way_strings ++ [""%string; cond_all; cond_whitelist; cond_blacklist]) = true.
Proof. vm_compute. reflexivity. Qed.

Lemma gen_rel_literals :
  literals_okb lit_rel_found lit_rel_strings lit_rel_callee_strings model_rel_strings
    (model_rel_strings ++ [""%string]) = true.
Proof. vm_compute. reflexivity. Qed.

Lemma gen_way_min_nodes :
  match lit_way_min_nodes with Some n => Z.eqb n model_min_nodes | None => true end = true.
Proof. vm_compute. reflexivity. Qed.

(* the model's threshold is the one named above: exactly the lists shorter than 4 are rejected
   outright *)
Lemma model_min_nodes_is_the_models (T : list rule) (nodes : list Z) (ts : tags) :
  (Z.of_nat (length nodes) <? model_min_nodes)%Z = true -> way_polygon T nodes ts = Val false.
Proof.
  intros H. unfold way_polygon.
  assert (E : Nat.leb (length nodes) 3 = true).
  { apply Nat.leb_le. apply Z.ltb_lt in H. unfold model_min_nodes in H. lia. }
  rewrite E. reflexivity.
Qed.
